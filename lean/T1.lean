import ShelxModel.C11
import ShelxModel.C11Table
open Shelx.C11
def pick (n : String) : List Setting := settings.filter (·.name == n)
set_option maxRecDepth 100000 in
theorem t_a : (pick "Fm-3m").all (fun e => leftClosedSB 24 (gensOf e.N e.S) (fullGroup e.N e.S)) = true := by decide +kernel

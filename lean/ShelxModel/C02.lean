/-
  C02 — valid input is parsed to the end; no valid instruction truncates the model.

  Two groups of definitions (HACKING.md):

  * the **model**: an interpreter for the *requirements* of the per-keyword handlers of
    `Shelxfile._parse_cards` and of the card constructors of `cards.py`.  The requirement tables themselves
    (`dispatch`, `cardTable`, `atomSteps`, `shxCards`) are REGENERATED from the source on every run by
    `extract/tables_c02.py` (`ShelxModel/Extracted/C02Dispatch.lean`); this file only says what a requirement
    means: which token is indexed without a length check, which token goes through `float()`/`int()`, which
    undefined name is evaluated, which `raise` is reachable in which diagnostic mode.  Exceptions are values
    (`Except Err St`).  `parseAll` mirrors `parse_cards`: one try/except around the whole loop — quiet and
    verbose swallow the exception and STOP, debug re-raises.

  * the **spec**: the code-independent SHELXL syntax table (`syntaxTable`, DESIGN.md Appendix A / the syntax
    summary the library documents in `cards.py`) with `validForms`, and the statement "every line is consumed,
    nothing raises, in every mode".
-/
namespace Shelx.C02

/-! ## Tokens, modes, errors -/

/-- the lexical classes of a parameter token that the handlers can tell apart -/
inductive Kind
  | int    -- `3`, `-2`           float() ok, int() ok, first char digit/sign
  | num    -- `0.25`, `-1.2`      float() ok, int() raises, first char digit/sign
  | big    -- `10.25`, `21.0`     as `num`, value > 4 (free-variable coded parameter)
  | dnum   -- `.5`                float() ok, int() raises, first char '.'  (a *word* for Command._parse_line)
  | enum   -- `5E-1`, `1e3`       float() ok, int() raises, first char digit/sign, NO decimal point
  | word   -- `C1`, `$H`, `NOHKL` float() raises
  | sym    -- `-x,`, `1/2+y,`, `1PE`  first char digit/sign, contains a letter, float() raises
  deriving DecidableEq, Repr

def Kind.floatOk : Kind → Bool
  | .int | .num | .big | .dnum | .enum => true
  | _ => false

def Kind.intOk : Kind → Bool
  | .int => true
  | _ => false

/-- the numeric test of `Command._parse_line`: first character a digit or a sign — and, when the
    regenerated flag `dot` says so, a decimal point -/
def Kind.cmdNumeric (dot : Bool) : Kind → Bool
  | .int | .num | .big | .sym | .enum => true
  | .dnum => dot
  | .word => false

/-- `'.' in token` (used by `is_atom` on the second column) -/
def Kind.hasDot : Kind → Bool
  | .num | .big | .dnum => true
  | _ => false

inductive Mode | quiet | verbose | debug
  deriving DecidableEq, Repr

def allModes : List Mode := [.quiet, .verbose, .debug]

inductive Err
  | IndexError | ValueError | NameError | AttributeError | KeyError | ParseError | Other
  deriving DecidableEq, Repr

/-! ## Handler requirements (the shape of the regenerated tables) -/

inductive Cond
  | sEq (n : Nat) | sNe (n : Nat) | sGt (n : Nat) | sLt (n : Nat) | sGe (n : Nat) | sLe (n : Nat)   -- len(spline) ? n
  | pEq (n : Nat) | pNe (n : Nat) | pGt (n : Nat) | pLt (n : Nat) | pGe (n : Nat) | pLe (n : Nat)   -- len(p) ? n  (numeric parameters)
  | wEq (n : Nat) | wNe (n : Nat) | wGt (n : Nat) | wLt (n : Nat) | wGe (n : Nat) | wLe (n : Nat)   -- len(words) ? n
  | modeIn (ms : List Mode)
  | lastEq (kw : String) | lastNe (kw : String)       -- lastcard == / != kw
  | lastIn (kws : List String) | lastNotIn (kws : List String)
  | flagOn (f : String) | flagOff (f : String)         -- truthiness of a parser attribute (self.frag, self.end, …)
  | caught (k : Nat) (es : List Err)                   -- inside the handler of try #k for the classes `es`
  | notCaught (k : Nat)                                -- later in the body of try #k / after it without exception
  | restAlpha (a : Nat) | restNotAlpha (a : Nat)       -- ''.join(spline[a:]).isalpha()
  | opaque (txt : String)                              -- a test the translator does not interpret
  deriving DecidableEq, Repr

inductive Act
  | needS (i : Nat)            -- spline[i]
  | needP (i : Nat)            -- p[i]
  | needW (i : Nat)            -- words[i]
  | popS (i : Nat)             -- spline.pop(i)
  | popP                       -- p.pop(0)
  | toFloat (i : Nat)          -- float(spline[i])
  | toInt (i : Nat)            -- int(spline[i])
  | floatFrom (a : Nat)        -- float(x) for x in spline[a:]
  | floatRange (a b : Nat)     -- float(x) for x in spline[a:b]
  | intNonWord (a : Nat)       -- int(x) for every x in spline[a:] that contains no letter (RESI)
  | unpackP (n : Nat)          -- a, b = p
  | parseCmd (intnums : Bool)  -- Command._parse_line(spline, intnums)
  | parseRestr                 -- Restraint._parse_line(spline)
  | card (cls : String) (idx : Nat)   -- Cls(self, spline); `idx` = position of the class in `Tables.cards`
  | raise (e : Err)
  | stop                       -- `continue`
  | setLast (kw : String)      -- lastcard = kw
  | setFlag (f : String) (v : Bool)
  | unknown (txt : String)     -- statement that did not fit any pattern: treated as raising
  deriving DecidableEq, Repr

structure Step where
  conds : List Cond := []
  catches : List Err := []     -- exception classes caught by the enclosing try
  tid : Nat := 0
  act : Act
  deriving DecidableEq, Repr

/-- a keyword as a number (base 256 of its characters): the kernel compares numbers much faster than strings -/
def encode (s : String) : Nat := s.toList.foldl (fun a c => a * 256 + c.toNat) 0

inductive Test
  | wordEq (kw : String) (code : Nat)                -- `code = encode kw`, checked by `codes_consistent`
  | wordIn (kws : List String) (codes : List Nat)
  | starts (pre : String) (code : Nat)               -- `line.startswith(pre)`: the keyword *is* `pre` (REM, END)
  | isAtom
  | otherwise
  deriving DecidableEq, Repr

structure Branch where
  test : Test
  steps : List Step
  deriving DecidableEq, Repr

structure CardReq where
  name : String
  steps : List Step
  deriving DecidableEq, Repr

/-- what the regenerated file provides -/
structure Tables where
  shxCards : List String
  shxCodes : List Nat := shxCards.map encode
  dispatch : List Branch
  cards : List CardReq
  atomMinCols : Nat
  dotNumeric : Bool := false         -- Command._parse_line takes `.5` for a number
  atomRejectsBig : Bool := true      -- is_atom refuses a line with a raw coordinate above 4.0
  caseSites : List (String × Bool) := []   -- where the keyword is read off the line, and whether it is upper-cased there
  assumedFalse : List String := []   -- opaque tests that valid input never triggers (spec side, see `assumed`)
  deriving Repr

/-! ## Interpreter -/

structure St where
  s : List Kind              -- kinds of spline (index 0 = the keyword itself)
  np : Nat := 0
  nw : Nat := 0
  caught : List (Nat × Err) := []
  last : String := ""        -- lastcard
  flags : List String := []  -- parser attributes that are truthy
  stopped : Bool := false
  dot : Bool := false        -- copy of `Tables.dotNumeric`
  deriving DecidableEq, Repr

def Cond.eval (assumedFalse : List String) (m : Mode) (st : St) : Cond → Bool
  | .sEq n => st.s.length == n | .sNe n => st.s.length != n | .sGt n => st.s.length > n
  | .sLt n => st.s.length < n | .sGe n => st.s.length ≥ n | .sLe n => st.s.length ≤ n
  | .pEq n => st.np == n | .pNe n => st.np != n | .pGt n => st.np > n
  | .pLt n => st.np < n | .pGe n => st.np ≥ n | .pLe n => st.np ≤ n
  | .wEq n => st.nw == n | .wNe n => st.nw != n | .wGt n => st.nw > n
  | .wLt n => st.nw < n | .wGe n => st.nw ≥ n | .wLe n => st.nw ≤ n
  | .modeIn ms => ms.contains m
  | .lastEq k => st.last == k | .lastNe k => st.last != k
  | .lastIn ks => ks.contains st.last | .lastNotIn ks => !ks.contains st.last
  | .flagOn f => st.flags.contains f | .flagOff f => !st.flags.contains f
  | .caught k es => st.caught.any (fun p => p.1 == k && es.contains p.2) | .notCaught k => !st.caught.any (fun p => p.1 == k)
  | .restAlpha a => (st.s.drop a).all (· == .word) | .restNotAlpha a => !(st.s.drop a).all (· == .word)
  | .opaque t => !assumedFalse.contains t

def allFloat (l : List Kind) : Bool := l.all Kind.floatOk

/-- the parser attributes whose truthiness the handlers test, in a fixed order (so that contexts are canonical) -/
def flagUniverse : List String := ["cell", "latt", "sfac", "frag", "end"]

/-- `Command._parse_line`: a token whose first character is a digit or sign goes through `float()`/`int()` -/
def parseCmdOk (dot intnums : Bool) (l : List Kind) : Bool :=
  l.all fun k => !k.cmdNumeric dot || (if intnums then k.intOk else k.floatOk)

def countP (dot restr : Bool) (l : List Kind) : Nat :=
  (l.filter fun k => if restr then k.floatOk else k.cmdNumeric dot).length

/-- the acts that need no table -/
def execBasic (st : St) : Act → Except Err St
  | .needS i => if i < st.s.length then .ok st else .error .IndexError
  | .needP i => if i < st.np then .ok st else .error .IndexError
  | .needW i => if i < st.nw then .ok st else .error .IndexError
  | .popS i => if i < st.s.length then .ok { st with s := st.s.eraseIdx i } else .error .IndexError
  | .popP => if 0 < st.np then .ok { st with np := st.np - 1 } else .error .IndexError
  | .toFloat i => match st.s[i]? with
      | none => .error .IndexError
      | some k => if k.floatOk then .ok st else .error .ValueError
  | .toInt i => match st.s[i]? with
      | none => .error .IndexError
      | some k => if k.intOk then .ok st else .error .ValueError
  | .floatFrom a => if allFloat (st.s.drop a) then .ok st else .error .ValueError
  | .floatRange a b => if allFloat ((st.s.take b).drop a) then .ok st else .error .ValueError
  | .intNonWord a => if (st.s.drop a).all (fun k => k == .word || k == .sym || k.intOk) then .ok st else .error .ValueError
  | .unpackP n => if st.np == n then .ok st else .error .ValueError
  | .parseCmd i =>
      if parseCmdOk st.dot i (st.s.drop 1) then
        .ok { st with np := countP st.dot false (st.s.drop 1), nw := (st.s.drop 1).length - countP st.dot false (st.s.drop 1) }
      else .error .ValueError
  | .parseRestr =>
      match st.s with
      | [] => .error .IndexError
      | _ :: r => .ok { st with np := countP st.dot true r, nw := r.length - countP st.dot true r }
  | .card _ _ => .error .Other        -- resolved by `exec`
  | .raise e => .error e
  | .stop => .ok { st with stopped := true }
  | .setLast k => .ok { st with last := k }
  | .setFlag f v => .ok { st with flags := flagUniverse.filter fun g => if g == f then v else st.flags.contains g }
  | .unknown _ => .error .Other

/-- one step under its guard; an exception of a caught class marks the try as caught and goes on -/
def stepWith (ex : St → Act → Except Err St) (af : List String) (m : Mode) (st : St) (sp : Step) : Except Err St :=
  if st.stopped then .ok st
  else if sp.conds.all (Cond.eval af m st) then
    match ex st sp.act with
    | .ok st' => .ok st'
    | .error e => if sp.catches.contains e then .ok { st with caught := (sp.tid, e) :: st.caught } else .error e
  else .ok st

def runWith (ex : St → Act → Except Err St) (af : List String) (m : Mode) : St → List Step → Except Err St
  | st, [] => .ok st
  | st, sp :: rest =>
    match stepWith ex af m st sp with
    | .ok st' => runWith ex af m st' rest
    | .error e => .error e

def runBasic (af : List String) (m : Mode) (st : St) (steps : List Step) : Except Err St :=
  runWith execBasic af m st steps

/-- acts of the dispatch chain: `card` runs the constructor's requirements on the same spline -/
def exec (T : Tables) (m : Mode) (st : St) : Act → Except Err St
  | .card cls idx =>
    match T.cards[idx]? with
    | none => .error .Other
    | some c =>
      match runBasic T.assumedFalse m { st with np := 0, nw := 0, caught := [], stopped := false } c.steps with
      | .ok st' => .ok { st with s := st'.s }     -- a constructor may pop from the shared spline (RTAB)
      | .error e => .error e
  | a => execBasic st a

def runSteps (T : Tables) (m : Mode) (st : St) (steps : List Step) : Except Err St :=
  runWith (exec T m) T.assumedFalse m st steps

/-! ## Lines, branch selection -/

/-- an abstract line: the keyword as written (upper case, without residue suffix), the kinds of the
    parameter tokens, and whether a `!` sits in column 6 (lone-pair lines are not atoms) -/
structure Form where
  kw : String
  toks : List Kind
  code : Nat := encode kw     -- numeric keyword: the kernel compares numbers, not strings
  deriving DecidableEq, Repr

def Form.spline (f : Form) : List Kind := .word :: f.toks

/-- `line[:4]` of the upper-cased line, right-stripped.  (The chain compares `word` with four-letter constants only;
    the three-letter keywords REM and END are tested with `line.startswith`; `SHX_CARDS` lists them with and without
    the trailing blank.  Kept a plain projection so that the kernel does not rebuild the string at every branch.) -/
def Form.word (f : Form) : String := f.kw

def Form.isAtomName (T : Tables) (f : Form) : Bool := !T.shxCodes.contains f.code

/-- `Shelxfile.is_atom` on the abstract line (column limit regenerated, coordinate limit 4.0 = kind `big`) -/
def lineIsAtom (T : Tables) (f : Form) : Bool :=
  f.isAtomName T && f.spline.length ≥ T.atomMinCols &&
    (match f.spline[1]? with | some k => !k.hasDot | none => false) &&
    !(T.atomRejectsBig && ((f.spline.take 5).drop 2).any (· == .big))

def Test.holds (T : Tables) (f : Form) : Test → Bool
  | .wordEq _ k => f.code == k
  | .wordIn _ ks => ks.contains f.code
  | .starts _ c => f.code == c
  | .isAtom => lineIsAtom T f
  | .otherwise => true

/-- the numeric keyword codes of the regenerated table are the codes of its strings -/
def Test.codesOk : Test → Bool
  | .wordEq k c => encode k == c
  | .wordIn ks cs => ks.map encode == cs
  | .starts p c => encode p == c
  | _ => true

def Act.cardIdxOk (cards : List CardReq) : Act → Bool
  | .card cls i => (cards[i]?.map (·.name)) == some cls
  | _ => true

def Tables.codesOk (T : Tables) : Bool :=
  T.dispatch.all (fun b => b.test.codesOk && b.steps.all (·.act.cardIdxOk T.cards)) && T.shxCards.map encode == T.shxCodes

def selectBranch (T : Tables) (f : Form) : Option Branch := T.dispatch.find? (fun b => b.test.holds T f)

/-- the parser context a line meets -/
structure Ctx where
  last : String := ""
  flags : List String := []
  deriving DecidableEq, Repr

/-- the handler of one selected branch on one line -/
def runBranch (T : Tables) (m : Mode) (c : Ctx) (b : Branch) (f : Form) : Except Err Ctx :=
  match runSteps T m { s := f.spline, last := c.last, flags := c.flags, dot := T.dotNumeric } b.steps with
  | .ok st => .ok { last := st.last, flags := st.flags }
  | .error e => .error e

/-- `is_atom` itself converts the three coordinate columns with `float()` (in `_coordinates_are_unrealistic`) once the
    name, the column count and the sfac column look like an atom: a non-numeric coordinate raises inside the test -/
def atomTestRaises (T : Tables) (f : Form) : Bool :=
  f.isAtomName T && f.spline.length ≥ T.atomMinCols &&
    (match f.spline[1]? with | some k => !k.hasDot | none => false) && !allFloat ((f.spline.take 5).drop 2)

/-- one iteration of the loop of `_parse_cards` on a non-blank line -/
def stepLine (T : Tables) (m : Mode) (c : Ctx) (f : Form) : Except Err Ctx :=
  if atomTestRaises T f then .error .ValueError else
  match selectBranch T f with
  | none => .ok c
  | some b => runBranch T m c b f

/-- branch selection for a line whose first word is one of `SHX_CARDS` (then `is_atom` is false whatever follows):
    it depends on the keyword only, so it is computed once per keyword -/
def Test.holdsKw (code : Nat) : Test → Bool
  | .wordEq _ k => code == k
  | .wordIn _ ks => ks.contains code
  | .starts _ c => code == c
  | .isAtom => false
  | .otherwise => true

def selectKw (T : Tables) (code : Nat) : Option Branch := T.dispatch.find? (fun b => b.test.holdsKw code)

def accepts (T : Tables) (m : Mode) (c : Ctx) (f : Form) : Bool := (stepLine T m c f).toBool

/-! ## The whole file: `parse_cards` -/

structure Outcome where
  lastLine : Nat            -- error_line_num when the loop ended (index of the last line looked at)
  consumed : Nat            -- number of lines handed to a handler without exception
  innerErr : Option Err     -- exception that left `_parse_cards`
  raised : Option Err       -- exception that left `parse_cards` (debug re-raises)
  ctx : Ctx
  deriving DecidableEq, Repr

def loop (T : Tables) (m : Mode) : Ctx → Nat → List Form → Outcome
  | c, i, [] => { lastLine := i - 1, consumed := i, innerErr := none, raised := none, ctx := c }
  | c, i, f :: rest =>
    match stepLine T m c f with
    | .ok c' => loop T m c' (i + 1) rest
    | .error e => { lastLine := i, consumed := i, innerErr := some e,
                    raised := if m == .debug then some e else none, ctx := c }

def parseAll (T : Tables) (m : Mode) (file : List Form) : Outcome := loop T m {} 0 file

/-! ## Specification: the SHELXL syntax table (code independent) -/

inductive Slot
  | titl | cell | zerr | latt | symm | neut | sfac | disp | unit   -- header, in this order
  | body        -- anywhere between UNIT and HKLF (instruction section or atom list), and — leniently — elsewhere
  | fvar | hklf | endd | tail   -- FVAR before the atoms, HKLF, END, after END (WGHT suggestion, Q-peaks)
  | frag | fend                 -- FRAG … FEND block inside the atom list
  deriving DecidableEq, Repr

structure Syn where
  kw : String
  code : Nat                         -- `encode kw` (checked by `syntax_codes_ok`)
  slot : Slot := .body
  mand : List Kind := []
  opts : List (List Kind) := []      -- optional parameter groups; any prefix of the list is legal
  tails : List (List Kind) := [[]]   -- alternatives for the trailing atom-name / free list
  alts : List (List Kind) := []      -- further complete parameter lists (second syntax of the keyword)
  suffix : Bool := false             -- may carry `_n`, `_CLASS`, `_*` on the keyword
  documented : Bool := true          -- part of the syntax summary the library documents (cards.py docstring)
  deriving DecidableEq, Repr

open Kind in
/-- Appendix A of DESIGN.md.  `num` marks a real-valued parameter (written as `2`, `2.0`, `.5` … see `styles`),
    `int` an integer one, `word` a name, `sym` a symmetry-operator fragment. -/
def syntaxTable : List Syn := [
  -- header objects
  { kw := "TITL", code := 1414091852, slot := .titl, tails := [[], [word], [word, word, int, sym]] },
  { kw := "CELL", code := 1128614988, slot := .cell, mand := [num, big, big, big, big, big, big] },
  { kw := "ZERR", code := 1514492498, slot := .zerr, mand := [num, num, num, num, num, num, num], alts := [[int, num, num, num, num, num, num]] },
  { kw := "LATT", code := 1279349844, slot := .latt, opts := [[int]] },
  { kw := "SYMM", code := 1398361421, slot := .symm, mand := [sym, sym, sym], alts := [[sym], [sym, word, sym], [word, sym, word]] },
  { kw := "NEUT", code := 1313166676, slot := .neut },
  { kw := "SFAC", code := 1397113155, slot := .sfac, tails := [[word], [word, word], [word, word, word, word]],
    alts := [[word, num, num, num, num, num, num, num, num, num, num, num, num, num, num]] },
  { kw := "DISP", code := 1145656144, slot := .disp, mand := [word, num, num], opts := [[num], [num]] },
  { kw := "UNIT", code := 1431193940, slot := .unit, tails := [[num], [num, num, num], [int, int, int]] },
  -- numeric-parameter objects
  { kw := "L.S.", code := 1278104366, opts := [[int], [int], [int]] },
  { kw := "CGLS", code := 1128746067, opts := [[int], [int], [int]] },
  { kw := "ABIN", code := 1094863182, mand := [int, int] },
  { kw := "ACTA", code := 1094931521, opts := [[num]], tails := [[], [word]] },
  { kw := "DAMP", code := 1145130320, opts := [[num], [int]] },
  { kw := "FMAP", code := 1179468112, opts := [[int], [int], [int]] },
  { kw := "GRID", code := 1196575044, opts := [[num], [num], [num], [num], [num], [num]] },
  { kw := "HKLF", code := 1212894278, slot := .hklf, opts := [[int], [num], [int, int, int, int, int, int, int, int, int], [num], [int]] },
  { kw := "MERG", code := 1296388679, opts := [[int]] },
  { kw := "MORE", code := 1297044037, opts := [[int]] },
  { kw := "MOVE", code := 1297045061, opts := [[num], [num], [num], [int]] },
  { kw := "PLAN", code := 1347174734, opts := [[int], [num], [num]] },
  { kw := "PRIG", code := 1347569991, opts := [[num]] },
  { kw := "SHEL", code := 1397245260, opts := [[num], [num]] },
  { kw := "SIZE", code := 1397316165, mand := [num, num, num] },
  { kw := "SPEC", code := 1397769539, opts := [[num]] },
  { kw := "STIR", code := 1398032722, mand := [num], opts := [[num]] },
  { kw := "SWAT", code := 1398227284, opts := [[num], [num]] },
  { kw := "TWIN", code := 1415006542, opts := [[int, int, int, int, int, int, int, int, int], [int]],
    alts := [[num, num, num, num, num, num, num, num, num], [num, num, num, num, num, num, num, num, num, int]] },
  { kw := "TWST", code := 1415009108, opts := [[int]] },
  { kw := "WGHT", code := 1464289364, opts := [[num], [num], [num], [num], [num], [num]] },
  { kw := "WIGL", code := 1464420172, opts := [[num], [num]] },
  { kw := "WPDB", code := 1464878146, opts := [[int]] },
  { kw := "XNPD", code := 1481527364, opts := [[num]] },
  { kw := "BASF", code := 1111577414, tails := [[num], [num, num, num]] },
  { kw := "SUMP", code := 1398099280, mand := [num, num], tails := [[num, int], [num, int, num, int], [num, int, num, int, num, int]] },
  { kw := "FVAR", code := 1180057938, slot := .fvar, tails := [[num], [num, num], [num, num, num, num, num, num, num]] },
  -- value only, line kept raw
  { kw := "LIST", code := 1279873876, opts := [[int], [int]] },
  { kw := "TEMP", code := 1413827920, opts := [[num]] },
  { kw := "EXTI", code := 1163416649, opts := [[num]] },
  { kw := "ANSC", code := 1095652163, mand := [num, num, num, num, num, num] },
  { kw := "ANSR", code := 1095652178, opts := [[num]] },
  { kw := "EQIV", code := 1162955094, mand := [word, sym, sym, sym], alts := [[word, sym], [word, sym, word, sym], [word, word, sym, word]] },
  { kw := "OMIT", code := 1330465108, tails := [[word], [word, word, word]], alts := [[], [num], [num, num], [int, int, int]], suffix := true },
  { kw := "LAUE", code := 1279350085, mand := [word] },
  { kw := "REM", code := 5391693, tails := [[], [word], [word, sym, int, num, word]] },
  { kw := "END", code := 4542020, slot := .endd },
  { kw := "FRAG", code := 1179795783, slot := .frag, opts := [[int], [num, num, num, big, big, big]] },
  { kw := "FEND", code := 1178947140, slot := .fend },
  -- context objects
  { kw := "RESI", code := 1380275017, alts := [[], [int], [word], [word, int], [int, word], [word, int, int], [int, word, int],
      [sym, int], [int, sym], [int, sym, int]] },   -- residue classes may begin with a digit (`1PE`): lexical class `sym`
  { kw := "PART", code := 1346458196, mand := [int], opts := [[num]] },
  { kw := "AFIX", code := 1095125336, mand := [int], opts := [[num], [num], [num]] },
  -- atom-list objects
  { kw := "ANIS", code := 1095649619, tails := [[], [int], [word], [word, word, word]], suffix := true },
  { kw := "BIND", code := 1112100420, alts := [[word, word], [int, int]] },
  { kw := "BLOC", code := 1112297283, mand := [int, int], tails := [[], [word], [word, word, word]], suffix := true },
  { kw := "BOND", code := 1112493636, tails := [[], [word], [word, word, word]], suffix := true },
  { kw := "CONF", code := 1129270854, alts := [[], [word, word, word, word], [word, word, word, word, num], [word, word, word, word, num, num]], suffix := true },
  { kw := "CONN", code := 1129270862, opts := [[int], [num]], tails := [[], [word], [word, word]], alts := [[word, int]], suffix := true },
  { kw := "FREE", code := 1179796805, mand := [word, word] },
  { kw := "HFIX", code := 1212565848, mand := [int], opts := [[num], [num]], tails := [[word], [word, word, word]], suffix := true },
  { kw := "HTAB", code := 1213481282, alts := [[], [num], [word, word]], suffix := true },
  { kw := "MPLA", code := 1297108033, alts := [[int, word, word, word], [word, word, word], [int, word, word, word, word]], suffix := true },
  { kw := "RTAB", code := 1381253442, mand := [word], tails := [[word, word], [word, word, word], [word, word, word, word]], suffix := true },
  -- restraints
  { kw := "DEFS", code := 1145390675, opts := [[num], [num], [num], [num], [num]] },
  { kw := "DFIX", code := 1145456984, mand := [num], opts := [[num]], tails := [[word, word], [word, word, word, word]], suffix := true },
  { kw := "DANG", code := 1145130567, mand := [num], opts := [[num]], tails := [[word, word], [word, word, word, word]], suffix := true },
  { kw := "SADI", code := 1396786249, opts := [[num]], tails := [[word, word, word, word], [word, word, word, word, word, word]], suffix := true },
  { kw := "SAME", code := 1396788549, opts := [[num], [num]], tails := [[word], [word, word, word]], suffix := true },
  { kw := "FLAT", code := 1179402580, opts := [[num]], tails := [[word, word, word, word], [word, word, word, word, word]], suffix := true },
  { kw := "CHIV", code := 1128810838, opts := [[num], [num]], tails := [[word], [word, word]], suffix := true },
  { kw := "DELU", code := 1145392213, opts := [[num], [num]], tails := [[], [word, word]], suffix := true },
  { kw := "SIMU", code := 1397312853, opts := [[num], [num], [num]], tails := [[], [word, word]], suffix := true },
  { kw := "RIGU", code := 1380534101, opts := [[num], [num]], tails := [[], [word, word]], suffix := true },
  { kw := "ISOR", code := 1230196562, opts := [[num], [num]], tails := [[], [word, word]], suffix := true },
  { kw := "NCSY", code := 1313035097, mand := [int], opts := [[num], [num]], tails := [[], [word, word]], suffix := true },
  { kw := "BUMP", code := 1112886608, opts := [[num]] },
  { kw := "EADP", code := 1161905232, tails := [[word, word], [word, word, word]], suffix := true },
  { kw := "EXYZ", code := 1163417946, tails := [[word, word], [word, word, word]], suffix := true },
  -- keywords of SHELXL the library lists (SHX_CARDS) but does not document: kept raw
  { kw := "TIME", code := 1414090053, opts := [[num]], documented := false },
  { kw := "MOLE", code := 1297042501, opts := [[int]], documented := false },
  { kw := "HOPE", code := 1213157445, opts := [[int]], documented := false },
  { kw := "CHAN", code := 1128808782, opts := [[int]], documented := false },
  { kw := "FLAP", code := 1179402576, opts := [[int]], documented := false },
  { kw := "RNUM", code := 1380865357, opts := [[int]], documented := false },
  { kw := "SOCC", code := 1397703491, tails := [[], [word]], documented := false },
  { kw := "RANG", code := 1380011591, opts := [[num]], tails := [[], [word, word, word]], documented := false },
  { kw := "TANG", code := 1413566023, opts := [[num]], tails := [[], [word, word, word]], documented := false },
  { kw := "ADDA", code := 1094992961, tails := [[], [word]], documented := false },
  { kw := "STAG", code := 1398030663, opts := [[num]], tails := [[], [word]], documented := false },
  { kw := "REST", code := 1380275028, tails := [[], [word]], documented := false },
  { kw := "NOTR", code := 1313821778, documented := false },
  { kw := "BEDE", code := 1111835717, tails := [[word, word, word, num, num]], documented := false },
  { kw := "LONE", code := 1280265797, tails := [[int, word, num, num]], documented := false }
]

def prefixes {α} : List (List α) → List (List α)
  | [] => [[]]
  | g :: gs => [] :: (prefixes gs).map (g ++ ·)

/-- the legal parameter lists of one table entry -/
def Syn.paramLists (s : Syn) : List (List Kind) :=
  ((prefixes s.opts).flatMap fun p => s.tails.map fun t => s.mand ++ p ++ t) ++ s.alts

/-- a real-valued parameter may be written `2`, `2.0` or `.5` -/
def restyle (to : Kind) (l : List Kind) : List Kind := l.map fun k => if k == .num then to else k

def styles : List Kind := [.num, .int, .dnum]

def Syn.forms (s : Syn) : List Form :=
  s.paramLists.flatMap fun p => styles.map fun st => ({ kw := s.kw, toks := restyle st p, code := s.code } : Form)

def validForms (kw : String) : List Form := (syntaxTable.filter (·.kw == kw)).flatMap Syn.forms

def allValidForms : List Form := syntaxTable.flatMap Syn.forms

/-- atom lines: `name sfac x y z`, `… sof`, `… sof U`, `… sof U11 … U12`, Q-peak (`sof U height`), any of the
    coordinates / sof / U carrying a free-variable code -/
def atomForms : List Form :=
  let cols : List (List Kind) := [
    [.int, .num, .num, .num],
    [.int, .num, .num, .num, .big],
    [.int, .num, .num, .num, .big, .num],
    [.int, .num, .num, .num, .num, .num],
    [.int, .num, .num, .num, .big, .num, .num],
    [.int, .num, .num, .num, .big, .num, .num, .num, .num, .num, .num],
    [.int, .big, .num, .num, .big, .num],
    [.int, .num, .big, .big, .big, .big],
    [.int, .num, .num, .num, .big, .big, .num, .num, .num, .num, .num],
    [.int, .int, .int, .int, .big, .num]]
  cols.map fun c => { kw := "C1", toks := c, code := 17201 }

/-- where a header keyword may stand: the keyword that was seen last among TITL CELL ZERR LATT SYMM SFAC UNIT
    (the parser's `lastcard`) -/
def Slot.ctxs : Slot → List Ctx
  | .titl => [{}]
  | .cell => [{ last := "TITL" }]
  | .zerr => [{ last := "CELL", flags := ["cell"] }]
  | .latt => [{ last := "ZERR", flags := ["cell"] }]
  | .symm => [{ last := "ZERR", flags := ["cell", "latt"] }, { last := "SYMM", flags := ["cell", "latt"] }]
  | .neut => [{ last := "ZERR", flags := ["cell", "latt"] }, { last := "SYMM", flags := ["cell", "latt"] }]
  | .sfac => [{ last := "ZERR", flags := ["cell", "latt"] }, { last := "SYMM", flags := ["cell", "latt"] },
              { last := "SFAC", flags := ["cell", "latt", "sfac"] }]
  | .disp => [{ last := "SFAC", flags := ["cell", "latt", "sfac"] }]
  | .unit => [{ last := "SFAC", flags := ["cell", "latt", "sfac"] }]
  | .tail => [{ last := "UNIT", flags := ["cell", "latt", "sfac", "end"] }]
  | .fend => [{ last := "UNIT", flags := ["cell", "latt", "sfac", "frag"] }]
  | .body => [{ last := "ZERR", flags := ["cell", "latt"] }, { last := "SYMM", flags := ["cell", "latt"] },
              { last := "UNIT", flags := ["cell", "latt", "sfac"] }, { last := "UNIT", flags := ["cell", "latt", "sfac", "end"] }]
  | _ => [{ last := "UNIT", flags := ["cell", "latt", "sfac"] }, { last := "UNIT", flags := ["cell", "latt", "sfac", "end"] }]

def slotOf (kw : String) : Slot := match syntaxTable.find? (·.kw == kw) with | some s => s.slot | none => .body

/-- all (context, line) pairs the syntax allows, for one keyword -/
def validCases (kw : String) : List (Ctx × Form) :=
  (slotOf kw).ctxs.flatMap fun c => (validForms kw).map fun f => (c, f)

/-- the tests the translator cannot interpret and that valid input never triggers (each is named in
    `ctx.assumptions` of the harness and met by construction by the generator) -/
def assumed : List String := [
  "self.residue_number < -999 or self.residue_number > 9999",        -- residue numbers are in range
  "len(self.unit.values) != len(self.sfac_table.elements_list)",     -- UNIT has one number per SFAC element
  "len(self.atoms) % 2 != 0",                                        -- DFIX/DANG/SADI carry atom *pairs*
  "0.0001 < self.d <= self.s",                                       -- DANG: the target distance exceeds its esd
  "not:self.d", "not:self.DN",                                       -- DFIX/DANG d and NCSY DN are not zero
  "not:line.strip()"                                                 -- the line is not blank
]

def Slot.isBody (s : Slot) : Bool := s == .body || s == .fvar || s == .hklf || s == .endd

/-- every (context, line) pair the syntax allows -/
def allValidCases : List (Ctx × Form) :=
  syntaxTable.flatMap fun s => s.slot.ctxs.flatMap fun c => s.forms.map fun f => (c, f)

/-- an atom line none of whose coordinates carries a free-variable code -/
def plainCoords (f : Form) : Bool := !((f.toks.take 4).drop 1).any (· == .big)

/-- the section of a file between UNIT and the end: instructions, FVAR, atoms, HKLF, END, WGHT, Q-peaks
    (FRAG…FEND blocks and coded coordinates are the open findings and stay outside) -/
def bodyForms : List Form :=
  ((syntaxTable.filter fun s => s.slot.isBody).flatMap Syn.forms)
    ++ atomForms.filter plainCoords

def bodyCtxs : List Ctx :=
  [{ last := "UNIT", flags := ["cell", "latt", "sfac"] }, { last := "UNIT", flags := ["cell", "latt", "sfac", "end"] }]

/-! ### The header as a grammar (histories of header lines, not one fixed header)

  SHELXL: `TITL CELL ZERR LATT SYMM* NEUT? SFAC+ DISP* UNIT`, where `SYMM`, `SFAC` (one line of element names, or one
  line per element with explicit scattering factors) and `DISP` (one per element) may be REPEATED, and instructions of the
  body (`REM`, `MORE`, `TEMP`, `SIZE` …) may already stand between LATT/SYMM/NEUT and the first SFAC.  The parser keeps a
  memory of the header (`lastcard`, truthy attributes), so whether a line is accepted depends on the HISTORY of header
  lines before it; the specification therefore states which slot may follow which, and the theorems quantify over every
  header this grammar generates (any number of repetitions). -/

/-- which header slot may follow a line of the given slot -/
def Slot.next : Slot → List Slot
  | .titl => [.cell]
  | .cell => [.zerr]
  | .zerr => [.latt]
  | .latt => [.symm, .neut, .sfac]
  | .symm => [.symm, .neut, .sfac]
  | .neut => [.sfac]
  | .sfac => [.sfac, .disp, .unit]
  | .disp => [.disp, .unit]
  | _ => []

/-- after a line of this slot, body instructions may stand before the header goes on -/
def Slot.allowsPre (s : Slot) : Bool := s == .latt || s == .symm || s == .neut

/-- the contexts a body instruction meets in front of SFAC -/
def preCtxs : List Ctx := [{ last := "ZERR", flags := ["cell", "latt"] }, { last := "SYMM", flags := ["cell", "latt"] }]

/-- the context a line of slot `s` leaves behind is one in which EVERY slot that may follow is legal (so that any
    continuation of the header the grammar allows is accepted, in particular a repetition of the same slot), body
    instructions are legal where they may be interspersed, and `UNIT` opens the body -/
def closedAfter (s : Slot) (c' : Ctx) : Bool :=
  s.next.all (fun s' => s'.ctxs.contains c') && (!s.allowsPre || preCtxs.contains c') && (!(s == .unit) || bodyCtxs.contains c')

/-- `Header s l`: `l` legally continues a header whose last header line was of slot `s`, and ends with `UNIT` -/
inductive Header : Slot → List Form → Prop
  | done : Header .unit []
  | step {s : Slot} {e : Syn} {f : Form} {l : List Form} :
      e ∈ syntaxTable → e.slot ∈ s.next → f ∈ e.forms → Header e.slot l → Header s (f :: l)
  | pre {s : Slot} {e : Syn} {f : Form} {l : List Form} :
      s.allowsPre = true → e ∈ syntaxTable → e.slot = .body → f ∈ e.forms → Header s l → Header s (f :: l)

/-- a complete header: a `TITL` line followed by a legal continuation up to `UNIT` -/
def ValidHeader (l : List Form) : Prop :=
  ∃ e ∈ syntaxTable, ∃ f ∈ e.forms, ∃ r, e.slot = .titl ∧ l = f :: r ∧ Header .titl r

/-- everything the table-driven theorems need to know about one entry of the syntax table, computed with ONE
    branch selection per keyword: the keyword is listed in `SHX_CARDS` (so the line is never taken for an atom), a
    keyword branch (not the final `else`) handles it, every legal form is accepted in every context the syntax
    allows and in every mode, a body line met in a body context leaves a body context behind, a header line leaves a
    context behind in which every slot that may follow it is legal (`closedAfter`), and a body instruction in front of
    SFAC leaves the header context untouched -/
def entryOk (T : Tables) (s : Syn) : Bool :=
  T.shxCodes.contains s.code &&
  match selectKw T s.code with
  | some b => b.test != .otherwise && s.slot.ctxs.all fun c => s.forms.all fun f => allModes.all fun m =>
      match runBranch T m c b f with
      | .ok c' => (!(s.slot.isBody && bodyCtxs.contains c) || bodyCtxs.contains c') && closedAfter s.slot c' &&
                  (!(s.slot == .body && preCtxs.contains c) || c' == c)
      | .error _ => false
  | none => false

/-- the same for the atom-line shapes with plain coordinates (selection through `is_atom` itself) -/
def atomOk (T : Tables) (f : Form) : Bool :=
  lineIsAtom T f && bodyCtxs.all fun c => allModes.all fun m =>
    match stepLine T m c f with
    | .ok c' => bodyCtxs.contains c'
    | .error _ => false

/-- SPEC: what the property says about a file of valid lines, in one mode -/
def SpecHolds (o : Outcome) (n : Nat) : Prop := o.innerErr = none ∧ o.raised = none ∧ o.consumed = n ∧ o.lastLine = n - 1

end Shelx.C02

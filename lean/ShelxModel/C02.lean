/- C02 — model and specification (stub; see HACKING.md) -/
namespace Shelx.C02

end Shelx.C02

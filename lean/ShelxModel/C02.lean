/-
  C02 — valid input is parsed to the end; no valid instruction truncates the model.

  Two groups of definitions (HACKING.md):

  * the **model**: an interpreter for the *requirements* of the per-keyword handlers of
    `Shelxfile._parse_cards` and of the card constructors of `cards.py`.  The requirement tables themselves
    (`dispatch`, `cardTable`, `atomSteps`, `shxCards`) are REGENERATED from the source on every run by
    `extract/tables_c02.py` (`ShelxModel/Extracted/C02Dispatch.lean`); this file only says what a requirement
    means: which token is indexed without a length check, which token goes through `float()`/`int()`, which
    undefined name is evaluated, which `raise` is reachable in which diagnostic mode.  Exceptions are values
    (`Except Err St`).  `parseAll` mirrors `parse_cards`: one try/except around the whole loop — quiet and
    verbose swallow the exception and STOP, debug re-raises.

  * the **spec**: the code-independent SHELXL syntax table (`syntaxTable`, DESIGN.md Appendix A / the syntax
    summary the library documents in `cards.py`) with `validForms`, and the statement "every line is consumed,
    nothing raises, in every mode".
-/
namespace Shelx.C02

/-! ## Tokens, modes, errors -/

/-- the lexical classes of a parameter token that the handlers can tell apart -/
inductive Kind
  | int    -- `3`, `-2`           float() ok, int() ok, first char digit/sign
  | num    -- `0.25`, `-1.2`      float() ok, int() raises, first char digit/sign
  | big    -- `10.25`, `21.0`     as `num`, value > 4 (free-variable coded parameter)
  | dnum   -- `.5`                float() ok, int() raises, first char '.'  (a *word* for Command._parse_line)
  | word   -- `C1`, `$H`, `NOHKL` float() raises
  | sym    -- `-x,`, `1/2+y,`     first char digit/sign but float() raises
  deriving DecidableEq, Repr

def Kind.floatOk : Kind → Bool
  | .int | .num | .big | .dnum => true
  | _ => false

def Kind.intOk : Kind → Bool
  | .int => true
  | _ => false

/-- the numeric test of `Command._parse_line`: first character a digit or a sign — and, when the
    regenerated flag `dot` says so, a decimal point -/
def Kind.cmdNumeric (dot : Bool) : Kind → Bool
  | .int | .num | .big | .sym => true
  | .dnum => dot
  | .word => false

/-- `'.' in token` (used by `is_atom` on the second column) -/
def Kind.hasDot : Kind → Bool
  | .num | .big | .dnum => true
  | _ => false

inductive Mode | quiet | verbose | debug
  deriving DecidableEq, Repr

def allModes : List Mode := [.quiet, .verbose, .debug]

inductive Err
  | IndexError | ValueError | NameError | AttributeError | KeyError | ParseError | Other
  deriving DecidableEq, Repr

/-! ## Handler requirements (the shape of the regenerated tables) -/

inductive Cond
  | sEq (n : Nat) | sNe (n : Nat) | sGt (n : Nat) | sLt (n : Nat) | sGe (n : Nat) | sLe (n : Nat)   -- len(spline) ? n
  | pEq (n : Nat) | pNe (n : Nat) | pGt (n : Nat) | pLt (n : Nat) | pGe (n : Nat) | pLe (n : Nat)   -- len(p) ? n  (numeric parameters)
  | wEq (n : Nat) | wNe (n : Nat) | wGt (n : Nat) | wLt (n : Nat) | wGe (n : Nat) | wLe (n : Nat)   -- len(words) ? n
  | modeIn (ms : List Mode)
  | lastEq (kw : String) | lastNe (kw : String)       -- lastcard == / != kw
  | lastIn (kws : List String) | lastNotIn (kws : List String)
  | flagOn (f : String) | flagOff (f : String)         -- truthiness of a parser attribute (self.frag, self.end, …)
  | caught (k : Nat) (es : List Err)                   -- inside the handler of try #k for the classes `es`
  | notCaught (k : Nat)                                -- later in the body of try #k / after it without exception
  | restAlpha (a : Nat) | restNotAlpha (a : Nat)       -- ''.join(spline[a:]).isalpha()
  | opaque (txt : String)                              -- a test the translator does not interpret
  deriving DecidableEq, Repr

inductive Act
  | needS (i : Nat)            -- spline[i]
  | needP (i : Nat)            -- p[i]
  | needW (i : Nat)            -- words[i]
  | popS (i : Nat)             -- spline.pop(i)
  | popP                       -- p.pop(0)
  | toFloat (i : Nat)          -- float(spline[i])
  | toInt (i : Nat)            -- int(spline[i])
  | floatFrom (a : Nat)        -- float(x) for x in spline[a:]
  | floatRange (a b : Nat)     -- float(x) for x in spline[a:b]
  | intNonWord (a : Nat)       -- int(x) for every x in spline[a:] that contains no letter (RESI)
  | unpackP (n : Nat)          -- a, b = p
  | parseCmd (intnums : Bool)  -- Command._parse_line(spline, intnums)
  | parseRestr                 -- Restraint._parse_line(spline)
  | card (cls : String)        -- Cls(self, spline)
  | raise (e : Err)
  | stop                       -- `continue`
  | setLast (kw : String)      -- lastcard = kw
  | setFlag (f : String) (v : Bool)
  | unknown (txt : String)     -- statement that did not fit any pattern: treated as raising
  deriving DecidableEq, Repr

structure Step where
  conds : List Cond := []
  catches : List Err := []     -- exception classes caught by the enclosing try
  tid : Nat := 0
  act : Act
  deriving DecidableEq, Repr

inductive Test
  | wordEq (kw : String)
  | wordIn (kws : List String)
  | starts (pre : String)
  | isAtom
  | otherwise
  deriving DecidableEq, Repr

structure Branch where
  test : Test
  steps : List Step
  deriving DecidableEq, Repr

structure CardReq where
  name : String
  steps : List Step
  deriving DecidableEq, Repr

/-- what the regenerated file provides -/
structure Tables where
  shxCards : List String
  dispatch : List Branch
  cards : List CardReq
  atomMinCols : Nat
  dotNumeric : Bool := false         -- Command._parse_line takes `.5` for a number
  atomRejectsBig : Bool := true      -- is_atom refuses a line with a raw coordinate above 4.0
  assumedFalse : List String := []   -- opaque tests that valid input never triggers (spec side, see `assumed`)
  deriving Repr

/-! ## Interpreter -/

structure St where
  s : List Kind              -- kinds of spline (index 0 = the keyword itself)
  np : Nat := 0
  nw : Nat := 0
  caught : List (Nat × Err) := []
  last : String := ""        -- lastcard
  flags : List String := []  -- parser attributes that are truthy
  stopped : Bool := false
  dot : Bool := false        -- copy of `Tables.dotNumeric`
  deriving DecidableEq, Repr

def Cond.eval (assumedFalse : List String) (m : Mode) (st : St) : Cond → Bool
  | .sEq n => st.s.length == n | .sNe n => st.s.length != n | .sGt n => st.s.length > n
  | .sLt n => st.s.length < n | .sGe n => st.s.length ≥ n | .sLe n => st.s.length ≤ n
  | .pEq n => st.np == n | .pNe n => st.np != n | .pGt n => st.np > n
  | .pLt n => st.np < n | .pGe n => st.np ≥ n | .pLe n => st.np ≤ n
  | .wEq n => st.nw == n | .wNe n => st.nw != n | .wGt n => st.nw > n
  | .wLt n => st.nw < n | .wGe n => st.nw ≥ n | .wLe n => st.nw ≤ n
  | .modeIn ms => ms.contains m
  | .lastEq k => st.last == k | .lastNe k => st.last != k
  | .lastIn ks => ks.contains st.last | .lastNotIn ks => !ks.contains st.last
  | .flagOn f => st.flags.contains f | .flagOff f => !st.flags.contains f
  | .caught k es => st.caught.any (fun p => p.1 == k && es.contains p.2) | .notCaught k => !st.caught.any (fun p => p.1 == k)
  | .restAlpha a => (st.s.drop a).all (· == .word) | .restNotAlpha a => !(st.s.drop a).all (· == .word)
  | .opaque t => !assumedFalse.contains t

def allFloat (l : List Kind) : Bool := l.all Kind.floatOk

/-- `Command._parse_line`: a token whose first character is a digit or sign goes through `float()`/`int()` -/
def parseCmdOk (dot intnums : Bool) (l : List Kind) : Bool :=
  l.all fun k => !k.cmdNumeric dot || (if intnums then k.intOk else k.floatOk)

def countP (dot restr : Bool) (l : List Kind) : Nat :=
  (l.filter fun k => if restr then k.floatOk else k.cmdNumeric dot).length

/-- the acts that need no table -/
def execBasic (st : St) : Act → Except Err St
  | .needS i => if i < st.s.length then .ok st else .error .IndexError
  | .needP i => if i < st.np then .ok st else .error .IndexError
  | .needW i => if i < st.nw then .ok st else .error .IndexError
  | .popS i => if i < st.s.length then .ok { st with s := st.s.eraseIdx i } else .error .IndexError
  | .popP => if 0 < st.np then .ok { st with np := st.np - 1 } else .error .IndexError
  | .toFloat i => match st.s[i]? with
      | none => .error .IndexError
      | some k => if k.floatOk then .ok st else .error .ValueError
  | .toInt i => match st.s[i]? with
      | none => .error .IndexError
      | some k => if k.intOk then .ok st else .error .ValueError
  | .floatFrom a => if allFloat (st.s.drop a) then .ok st else .error .ValueError
  | .floatRange a b => if allFloat ((st.s.take b).drop a) then .ok st else .error .ValueError
  | .intNonWord a => if (st.s.drop a).all (fun k => k == .word || k.intOk) then .ok st else .error .ValueError
  | .unpackP n => if st.np == n then .ok st else .error .ValueError
  | .parseCmd i =>
      if parseCmdOk st.dot i (st.s.drop 1) then
        .ok { st with np := countP st.dot false (st.s.drop 1), nw := (st.s.drop 1).length - countP st.dot false (st.s.drop 1) }
      else .error .ValueError
  | .parseRestr =>
      match st.s with
      | [] => .error .IndexError
      | _ :: r => .ok { st with np := countP st.dot true r, nw := r.length - countP st.dot true r }
  | .card _ => .error .Other          -- resolved by `exec`
  | .raise e => .error e
  | .stop => .ok { st with stopped := true }
  | .setLast k => .ok { st with last := k }
  | .setFlag f v => .ok { st with flags := if v then f :: st.flags.erase f else st.flags.filter (· != f) }
  | .unknown _ => .error .Other

/-- one step under its guard; an exception of a caught class marks the try as caught and goes on -/
def stepWith (ex : St → Act → Except Err St) (af : List String) (m : Mode) (st : St) (sp : Step) : Except Err St :=
  if st.stopped then .ok st
  else if sp.conds.all (Cond.eval af m st) then
    match ex st sp.act with
    | .ok st' => .ok st'
    | .error e => if sp.catches.contains e then .ok { st with caught := (sp.tid, e) :: st.caught } else .error e
  else .ok st

def runWith (ex : St → Act → Except Err St) (af : List String) (m : Mode) : St → List Step → Except Err St
  | st, [] => .ok st
  | st, sp :: rest =>
    match stepWith ex af m st sp with
    | .ok st' => runWith ex af m st' rest
    | .error e => .error e

def runBasic (af : List String) (m : Mode) (st : St) (steps : List Step) : Except Err St :=
  runWith execBasic af m st steps

/-- acts of the dispatch chain: `card` runs the constructor's requirements on the same spline -/
def exec (T : Tables) (m : Mode) (st : St) : Act → Except Err St
  | .card cls =>
    match T.cards.find? (·.name == cls) with
    | none => .error .Other
    | some c =>
      match runBasic T.assumedFalse m { st with np := 0, nw := 0, caught := [], stopped := false } c.steps with
      | .ok st' => .ok { st with s := st'.s }     -- a constructor may pop from the shared spline (RTAB)
      | .error e => .error e
  | a => execBasic st a

def runSteps (T : Tables) (m : Mode) (st : St) (steps : List Step) : Except Err St :=
  runWith (exec T m) T.assumedFalse m st steps

/-! ## Lines, branch selection -/

/-- an abstract line: the keyword as written (upper case, without residue suffix), the kinds of the
    parameter tokens, and whether a `!` sits in column 6 (lone-pair lines are not atoms) -/
structure Form where
  kw : String
  toks : List Kind
  deriving DecidableEq, Repr

def Form.spline (f : Form) : List Kind := .word :: f.toks

/-- `line[:4]` of the upper-cased line -/
def Form.word (f : Form) : String :=
  if f.kw.length ≥ 4 then String.ofList (f.kw.toList.take 4) else if f.toks.isEmpty then f.kw else String.ofList ((f.kw ++ " ").toList.take 4)

def Form.isAtomName (T : Tables) (f : Form) : Bool := !T.shxCards.contains f.word

/-- `Shelxfile.is_atom` on the abstract line (column limit regenerated, coordinate limit 4.0 = kind `big`) -/
def lineIsAtom (T : Tables) (f : Form) : Bool :=
  f.isAtomName T && f.spline.length ≥ T.atomMinCols &&
    (match f.spline[1]? with | some k => !k.hasDot | none => false) &&
    !(T.atomRejectsBig && ((f.spline.take 5).drop 2).any (· == .big))

def Test.holds (T : Tables) (f : Form) : Test → Bool
  | .wordEq k => f.word == k
  | .wordIn ks => ks.contains f.word
  | .starts p => p.isPrefixOf f.kw
  | .isAtom => lineIsAtom T f
  | .otherwise => true

def selectBranch (T : Tables) (f : Form) : Option Branch := T.dispatch.find? (fun b => b.test.holds T f)

/-- the parser context a line meets -/
structure Ctx where
  last : String := ""
  flags : List String := []
  deriving DecidableEq, Repr

/-- one iteration of the loop of `_parse_cards` on a non-blank line -/
def stepLine (T : Tables) (m : Mode) (c : Ctx) (f : Form) : Except Err Ctx :=
  match selectBranch T f with
  | none => .ok c
  | some b =>
    match runSteps T m { s := f.spline, last := c.last, flags := c.flags, dot := T.dotNumeric } b.steps with
    | .ok st => .ok { last := st.last, flags := st.flags }
    | .error e => .error e

def accepts (T : Tables) (m : Mode) (c : Ctx) (f : Form) : Bool := (stepLine T m c f).toBool

/-! ## The whole file: `parse_cards` -/

structure Outcome where
  lastLine : Nat            -- error_line_num when the loop ended (index of the last line looked at)
  consumed : Nat            -- number of lines handed to a handler without exception
  innerErr : Option Err     -- exception that left `_parse_cards`
  raised : Option Err       -- exception that left `parse_cards` (debug re-raises)
  ctx : Ctx
  deriving DecidableEq, Repr

def loop (T : Tables) (m : Mode) : Ctx → Nat → List Form → Outcome
  | c, i, [] => { lastLine := i - 1, consumed := i, innerErr := none, raised := none, ctx := c }
  | c, i, f :: rest =>
    match stepLine T m c f with
    | .ok c' => loop T m c' (i + 1) rest
    | .error e => { lastLine := i, consumed := i, innerErr := some e,
                    raised := if m == .debug then some e else none, ctx := c }

def parseAll (T : Tables) (m : Mode) (file : List Form) : Outcome := loop T m {} 0 file

/-! ## Specification: the SHELXL syntax table (code independent) -/

inductive Slot
  | titl | cell | zerr | latt | symm | neut | sfac | disp | unit   -- header, in this order
  | body        -- anywhere between UNIT and HKLF (instruction section or atom list), and — leniently — elsewhere
  | fvar | hklf | endd | tail   -- FVAR before the atoms, HKLF, END, after END (WGHT suggestion, Q-peaks)
  deriving DecidableEq, Repr

structure Syn where
  kw : String
  slot : Slot := .body
  mand : List Kind := []
  opts : List (List Kind) := []      -- optional parameter groups; any prefix of the list is legal
  tails : List (List Kind) := [[]]   -- alternatives for the trailing atom-name / free list
  alts : List (List Kind) := []      -- further complete parameter lists (second syntax of the keyword)
  suffix : Bool := false             -- may carry `_n`, `_CLASS`, `_*` on the keyword
  documented : Bool := true          -- part of the syntax summary the library documents (cards.py docstring)
  deriving Repr

open Kind in
/-- Appendix A of DESIGN.md.  `num` marks a real-valued parameter (written as `2`, `2.0`, `.5` … see `styles`),
    `int` an integer one, `word` a name, `sym` a symmetry-operator fragment. -/
def syntaxTable : List Syn := [
  -- header objects
  { kw := "TITL", slot := .titl, tails := [[], [word], [word, word, int, sym]] },
  { kw := "CELL", slot := .cell, mand := [num, big, big, big, big, big, big] },
  { kw := "ZERR", slot := .zerr, mand := [num, num, num, num, num, num, num], alts := [[int, num, num, num, num, num, num]] },
  { kw := "LATT", slot := .latt, opts := [[int]] },
  { kw := "SYMM", slot := .symm, mand := [sym, sym, sym], alts := [[sym], [sym, word, sym], [word, sym, word]] },
  { kw := "NEUT", slot := .neut },
  { kw := "SFAC", slot := .sfac, tails := [[word], [word, word], [word, word, word, word]],
    alts := [[word, num, num, num, num, num, num, num, num, num, num, num, num, num, num]] },
  { kw := "DISP", slot := .disp, mand := [word, num, num], opts := [[num], [num]] },
  { kw := "UNIT", slot := .unit, tails := [[num], [num, num, num], [int, int, int]] },
  -- numeric-parameter objects
  { kw := "L.S.", opts := [[int], [int], [int]] },
  { kw := "CGLS", opts := [[int], [int], [int]] },
  { kw := "ABIN", mand := [int, int] },
  { kw := "ACTA", opts := [[num]], tails := [[], [word]] },
  { kw := "DAMP", opts := [[num], [int]] },
  { kw := "FMAP", opts := [[int], [int], [int]] },
  { kw := "GRID", opts := [[num], [num], [num], [num], [num], [num]] },
  { kw := "HKLF", slot := .hklf, opts := [[int], [num], [int, int, int, int, int, int, int, int, int], [num], [int]] },
  { kw := "MERG", opts := [[int]] },
  { kw := "MORE", opts := [[int]] },
  { kw := "MOVE", opts := [[num], [num], [num], [int]] },
  { kw := "PLAN", opts := [[int], [num], [num]] },
  { kw := "PRIG", opts := [[num]] },
  { kw := "SHEL", opts := [[num], [num]] },
  { kw := "SIZE", mand := [num, num, num] },
  { kw := "SPEC", opts := [[num]] },
  { kw := "STIR", mand := [num], opts := [[num]] },
  { kw := "SWAT", opts := [[num], [num]] },
  { kw := "TWIN", opts := [[int, int, int, int, int, int, int, int, int], [int]],
    alts := [[num, num, num, num, num, num, num, num, num], [num, num, num, num, num, num, num, num, num, int]] },
  { kw := "TWST", opts := [[int]] },
  { kw := "WGHT", opts := [[num], [num], [num], [num], [num], [num]] },
  { kw := "WIGL", opts := [[num], [num]] },
  { kw := "WPDB", opts := [[int]] },
  { kw := "XNPD", opts := [[num]] },
  { kw := "BASF", tails := [[num], [num, num, num]] },
  { kw := "SUMP", mand := [num, num], tails := [[num, int], [num, int, num, int], [num, int, num, int, num, int]] },
  { kw := "FVAR", slot := .fvar, tails := [[num], [num, num], [num, num, num, num, num, num, num]] },
  -- value only, line kept raw
  { kw := "LIST", opts := [[int], [int]] },
  { kw := "TEMP", opts := [[num]] },
  { kw := "EXTI", opts := [[num]] },
  { kw := "ANSC", mand := [num, num, num, num, num, num] },
  { kw := "ANSR", opts := [[num]] },
  { kw := "EQIV", mand := [word, sym, sym, sym], alts := [[word, sym], [word, sym, word, sym], [word, word, sym, word]] },
  { kw := "OMIT", tails := [[word], [word, word, word]], alts := [[], [num], [num, num], [int, int, int]], suffix := true },
  { kw := "LAUE", mand := [word] },
  { kw := "REM", tails := [[], [word], [word, sym, int, num, word]] },
  { kw := "END", slot := .endd },
  -- context objects
  { kw := "RESI", alts := [[], [int], [word], [word, int], [int, word], [word, int, int], [int, word, int]] },
  { kw := "PART", mand := [int], opts := [[num]] },
  { kw := "AFIX", mand := [int], opts := [[num], [num], [num]] },
  -- atom-list objects
  { kw := "ANIS", tails := [[], [int], [word], [word, word, word]], suffix := true },
  { kw := "BIND", alts := [[word, word], [int, int]] },
  { kw := "BLOC", mand := [int, int], tails := [[], [word], [word, word, word]], suffix := true },
  { kw := "BOND", tails := [[], [word], [word, word, word]], suffix := true },
  { kw := "CONF", alts := [[], [word, word, word, word], [word, word, word, word, num], [word, word, word, word, num, num]], suffix := true },
  { kw := "CONN", opts := [[int], [num]], tails := [[], [word], [word, word]], alts := [[word, int]], suffix := true },
  { kw := "FREE", mand := [word, word] },
  { kw := "HFIX", mand := [int], opts := [[num], [num]], tails := [[word], [word, word, word]], suffix := true },
  { kw := "HTAB", alts := [[], [num], [word, word]], suffix := true },
  { kw := "MPLA", alts := [[int, word, word, word], [word, word, word], [int, word, word, word, word]], suffix := true },
  { kw := "RTAB", mand := [word], tails := [[word, word], [word, word, word], [word, word, word, word]], suffix := true },
  -- restraints
  { kw := "DEFS", opts := [[num], [num], [num], [num], [num]] },
  { kw := "DFIX", mand := [num], opts := [[num]], tails := [[word, word], [word, word, word, word]], suffix := true },
  { kw := "DANG", mand := [num], opts := [[num]], tails := [[word, word], [word, word, word, word]], suffix := true },
  { kw := "SADI", opts := [[num]], tails := [[word, word, word, word], [word, word, word, word, word, word]], suffix := true },
  { kw := "SAME", opts := [[num], [num]], tails := [[word], [word, word, word]], suffix := true },
  { kw := "FLAT", opts := [[num]], tails := [[word, word, word, word], [word, word, word, word, word]], suffix := true },
  { kw := "CHIV", opts := [[num], [num]], tails := [[word], [word, word]], suffix := true },
  { kw := "DELU", opts := [[num], [num]], tails := [[], [word, word]], suffix := true },
  { kw := "SIMU", opts := [[num], [num], [num]], tails := [[], [word, word]], suffix := true },
  { kw := "RIGU", opts := [[num], [num]], tails := [[], [word, word]], suffix := true },
  { kw := "ISOR", opts := [[num], [num]], tails := [[], [word, word]], suffix := true },
  { kw := "NCSY", mand := [int], opts := [[num], [num]], tails := [[], [word, word]], suffix := true },
  { kw := "BUMP", opts := [[num]] },
  { kw := "EADP", tails := [[word, word], [word, word, word]], suffix := true },
  { kw := "EXYZ", tails := [[word, word], [word, word, word]], suffix := true },
  -- keywords of SHELXL the library lists (SHX_CARDS) but does not document: kept raw
  { kw := "TIME", opts := [[num]], documented := false },
  { kw := "MOLE", opts := [[int]], documented := false },
  { kw := "HOPE", opts := [[int]], documented := false },
  { kw := "CHAN", opts := [[int]], documented := false },
  { kw := "FLAP", opts := [[int]], documented := false },
  { kw := "RNUM", opts := [[int]], documented := false },
  { kw := "SOCC", tails := [[], [word]], documented := false },
  { kw := "RANG", opts := [[num]], tails := [[], [word, word, word]], documented := false },
  { kw := "TANG", opts := [[num]], tails := [[], [word, word, word]], documented := false },
  { kw := "ADDA", tails := [[], [word]], documented := false },
  { kw := "STAG", opts := [[num]], tails := [[], [word]], documented := false },
  { kw := "REST", tails := [[], [word]], documented := false },
  { kw := "NOTR", documented := false },
  { kw := "BEDE", tails := [[word, word, word, num, num]], documented := false },
  { kw := "LONE", tails := [[int, word, num, num]], documented := false }
]

def prefixes {α} : List (List α) → List (List α)
  | [] => [[]]
  | g :: gs => [] :: (prefixes gs).map (g ++ ·)

/-- the legal parameter lists of one table entry -/
def Syn.paramLists (s : Syn) : List (List Kind) :=
  ((prefixes s.opts).flatMap fun p => s.tails.map fun t => s.mand ++ p ++ t) ++ s.alts

/-- a real-valued parameter may be written `2`, `2.0` or `.5` -/
def restyle (to : Kind) (l : List Kind) : List Kind := l.map fun k => if k == .num then to else k

def styles : List Kind := [.num, .int, .dnum]

def Syn.forms (s : Syn) : List Form :=
  (s.paramLists.flatMap fun p => styles.map fun st => ({ kw := s.kw, toks := restyle st p } : Form)).eraseDups

def validForms (kw : String) : List Form := (syntaxTable.filter (·.kw == kw)).flatMap Syn.forms

def allValidForms : List Form := syntaxTable.flatMap Syn.forms

/-- atom lines: `name sfac x y z`, `… sof`, `… sof U`, `… sof U11 … U12`, Q-peak (`sof U height`), any of the
    coordinates / sof / U carrying a free-variable code -/
def atomForms : List Form :=
  let cols : List (List Kind) := [
    [.int, .num, .num, .num],
    [.int, .num, .num, .num, .big],
    [.int, .num, .num, .num, .big, .num],
    [.int, .num, .num, .num, .num, .num],
    [.int, .num, .num, .num, .big, .num, .num],
    [.int, .num, .num, .num, .big, .num, .num, .num, .num, .num, .num],
    [.int, .big, .num, .num, .big, .num],
    [.int, .num, .big, .big, .big, .big],
    [.int, .num, .num, .num, .big, .big, .num, .num, .num, .num, .num],
    [.int, .int, .int, .int, .big, .num]]
  cols.map fun c => { kw := "C1", toks := c }

/-- where a header keyword may stand: the keyword that was seen last among TITL CELL ZERR LATT SYMM SFAC UNIT
    (the parser's `lastcard`) -/
def Slot.ctxs : Slot → List Ctx
  | .titl => [{}]
  | .cell => [{ last := "TITL" }]
  | .zerr => [{ last := "CELL", flags := ["cell"] }]
  | .latt => [{ last := "ZERR", flags := ["cell"] }]
  | .symm => [{ last := "ZERR", flags := ["cell", "latt"] }, { last := "SYMM", flags := ["cell", "latt"] }]
  | .neut => [{ last := "ZERR", flags := ["cell", "latt"] }, { last := "SYMM", flags := ["cell", "latt"] }]
  | .sfac => [{ last := "ZERR", flags := ["cell", "latt"] }, { last := "SYMM", flags := ["cell", "latt"] },
              { last := "SFAC", flags := ["cell", "latt", "sfac"] }]
  | .disp => [{ last := "SFAC", flags := ["cell", "latt", "sfac"] }]
  | .unit => [{ last := "SFAC", flags := ["cell", "latt", "sfac"] }]
  | .tail => [{ last := "UNIT", flags := ["cell", "latt", "sfac", "end"] }]
  | _ => [{ last := "UNIT", flags := ["cell", "latt", "sfac"] }, { last := "UNIT", flags := ["cell", "latt", "sfac", "end"] }]

def slotOf (kw : String) : Slot := match syntaxTable.find? (·.kw == kw) with | some s => s.slot | none => .body

/-- all (context, line) pairs the syntax allows, for one keyword -/
def validCases (kw : String) : List (Ctx × Form) :=
  (slotOf kw).ctxs.flatMap fun c => (validForms kw).map fun f => (c, f)

/-- the tests the translator cannot interpret and that valid input never triggers (each is named in
    `ctx.assumptions` of the harness and met by construction by the generator) -/
def assumed : List String := [
  "self.residue_number < -999 or self.residue_number > 9999",        -- residue numbers are in range
  "len(self.unit.values) != len(self.sfac_table.elements_list)",     -- UNIT has one number per SFAC element
  "len(self.atoms) % 2 != 0",                                        -- DFIX/DANG/SADI carry atom *pairs*
  "0.0001 < self.d <= self.s",                                       -- DANG: the target distance exceeds its esd
  "not:self.d", "not:self.DN",                                       -- DFIX/DANG d and NCSY DN are not zero
  "not:line.strip()"                                                 -- the line is not blank
]

/-- SPEC: what the property says about a file of valid lines, in one mode -/
def SpecHolds (o : Outcome) (n : Nat) : Prop := o.innerErr = none ∧ o.raised = none ∧ o.consumed = n ∧ o.lastLine = n - 1

end Shelx.C02

/- C12 — model and specification (stub; see HACKING.md) -/
namespace Shelx.C12

end Shelx.C12

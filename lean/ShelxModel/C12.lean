/-
  C12 — all cell-derived geometry and tensor transforms are mutually consistent.

  Model (generic in the number type `K`; the driver runs `Float`, the theorems are about `ℝ`, witnesses `Rat`):
    dsrmath.vol_unitcell / CELL.volume                      -> `volume`
    dsrmath.OrthogonalMatrix.__init__  (.m, .metric_matrix) -> `orthoM`, `metricCode`
    dsrmath.Matrix.__mul__ (Matrix: rows × rows = A·Bᵀ)      -> `mulRR`
    dsrmath.Matrix.__mul__ (Array), OrthogonalMatrix.__mul__ -> `mulVec`
    dsrmath.Matrix.dot (the true product), .transposed       -> `mulMM`, `transpose`
    misc.determinante / Matrix.det, Matrix.inversed          -> `det`, `inversed`
    misc.frac_to_cart / misc.cart_to_frac (cos α* route)     -> `fracToCartMisc`, `cartToFracMisc`
    dsrmath.atomic_distance (cell given, no shortest_dist)   -> `atomicDistSq`, `atomicDistance`
    CELL.astar/bstar/cstar, CELL.N                           -> `recip`, `nMat`
    Atom.ucif / ustar / u_cart / set_ueq                     -> `ucif`, `ustar`, `ucart`, `ueqAniso`, `isoBranch`
    Atom.is_npd (all seven principal minors of u_cart)       -> `principalMinors` (fixes/C12_5; C12_3 had the three
                                                                leading ones: `npdMinors`)
    the parsed Atom object under edits (atom.uvals = …, atom.uvals[k] = …, set_uvals, to_isotropic,
      atom.frac_coords = … (fixes/C12_4), Shelxfile.add_atom)  -> `AtomSt`, `Edit`, `applyEdit`, `history`, `parseAtom`, `newAtom`
    the Shelxfile object when the cell is changed in place (shx.cell.set('CELL …'), fixes/C12_6)
                                                             -> `FileSt`, `FEdit`, `applyF`, `fileHistory`
    the memo of OrthogonalMatrix.inversed (`_inversed`) on the object cell.o = Shelxfile.orthogonal_matrix, in histories
      that also ASK for the inverse between the edits           -> `MemoSt`, `Step`, `answerInverse`, `applyStep`, `stepHistory`
        (all as repaired by fixes/C12_1 … C12_5; the code as it was: `ustarOld`, `ucartOld`, `isoBranchOld`,
         and for is_npd the 100 unshifted QR steps of misc.qr_decomposition / misc.eigenvals: `qrDecomp`, `eigenvals`)
  `math.cos/sin` VALUES enter as fields of `Cell` (`ca … sg`), `math.sqrt` as a function parameter; the proof
  file states their algebraic relations as hypotheses.

  Specification (code independent, everything from the metric tensor G):
    `metric`, `quad` (xᵀ G x), `cholUpper` (the upper-triangular factor of G with positive diagonal = the
    conventional setting), `recipSqSpec` (a*² = (G⁻¹)₀₀), `ueqSpec` (⅓ Σ Uij a*i a*j (ai·aj)), `minors`/`sylvesterPD`.
-/
namespace Shelx.C12

structure V3 (K : Type) where
  x : K
  y : K
  z : K
deriving Repr, BEq

/-- a 3×3 matrix as its three rows (Python: `Matrix.values`) -/
structure M3 (K : Type) where
  r0 : V3 K
  r1 : V3 K
  r2 : V3 K
deriving Repr, BEq

/-- the values of `math.cos(radians(·))`, `math.sin(radians(·))` of the three angles, and the lengths -/
structure Cell (K : Type) where
  a : K
  b : K
  c : K
  ca : K
  cb : K
  cg : K
  sa : K
  sb : K
  sg : K
deriving Repr

/-- the six U values in SHELXL order U11 U22 U33 U23 U13 U12 -/
structure U6 (K : Type) where
  u11 : K
  u22 : K
  u33 : K
  u23 : K
  u13 : K
  u12 : K
deriving Repr

section generic
variable {K : Type} [Add K] [Sub K] [Mul K] [Div K] [Neg K] [OfNat K 0] [OfNat K 1] [OfNat K 2] [OfNat K 3]

/-! ### vectors and the in-house `Matrix` class -/

def dot (a b : V3 K) : K := a.x * b.x + a.y * b.y + a.z * b.z
def vsub (a b : V3 K) : V3 K := ⟨a.x - b.x, a.y - b.y, a.z - b.z⟩
def vscale (k : K) (v : V3 K) : V3 K := ⟨k * v.x, k * v.y, k * v.z⟩
def vdiv (v : V3 K) (k : K) : V3 K := ⟨v.x / k, v.y / k, v.z / k⟩
def norm2 (v : V3 K) : K := dot v v

def col0 (m : M3 K) : V3 K := ⟨m.r0.x, m.r1.x, m.r2.x⟩
def col1 (m : M3 K) : V3 K := ⟨m.r0.y, m.r1.y, m.r2.y⟩
def col2 (m : M3 K) : V3 K := ⟨m.r0.z, m.r1.z, m.r2.z⟩

/-- `Matrix.transposed` -/
def transpose (m : M3 K) : M3 K := ⟨col0 m, col1 m, col2 m⟩

/-- `Matrix.__mul__(Matrix)`: entry (i,j) = Σ_k a[i][k]·b[j][k] — rows with ROWS, i.e. `A·Bᵀ` -/
def mulRR (a b : M3 K) : M3 K :=
  ⟨⟨dot a.r0 b.r0, dot a.r0 b.r1, dot a.r0 b.r2⟩,
   ⟨dot a.r1 b.r0, dot a.r1 b.r1, dot a.r1 b.r2⟩,
   ⟨dot a.r2 b.r0, dot a.r2 b.r1, dot a.r2 b.r2⟩⟩

/-- `Matrix.dot(Matrix)`: rows with columns, the matrix product -/
def mulMM (a b : M3 K) : M3 K := mulRR a (transpose b)

/-- `Matrix.__mul__(Array)` (also `OrthogonalMatrix.__mul__`, `Shelxfile.frac_to_cart`) -/
def mulVec (m : M3 K) (v : V3 K) : V3 K := ⟨dot m.r0 v, dot m.r1 v, dot m.r2 v⟩

def trace (m : M3 K) : K := m.r0.x + m.r1.y + m.r2.z

def one3 : M3 K := ⟨⟨1, 0, 0⟩, ⟨0, 1, 0⟩, ⟨0, 0, 1⟩⟩

/-- `misc.determinante` (expansion along the first column, as coded) -/
def det (m : M3 K) : K :=
  m.r0.x * (m.r1.y * m.r2.z - m.r2.y * m.r1.z)
    - m.r1.x * (m.r0.y * m.r2.z - m.r2.y * m.r0.z)
    + m.r2.x * (m.r0.y * m.r1.z - m.r1.y * m.r0.z)

/-- `Matrix.inversed`: cofactor formula as coded (m1..m9 = row-major entries) -/
def inversed (m : M3 K) : M3 K :=
  let d := det m
  let m1 := m.r0.x; let m2 := m.r0.y; let m3 := m.r0.z
  let m4 := m.r1.x; let m5 := m.r1.y; let m6 := m.r1.z
  let m7 := m.r2.x; let m8 := m.r2.y; let m9 := m.r2.z
  ⟨⟨(m5 * m9 - m6 * m8) / d, (m3 * m8 - m2 * m9) / d, (m2 * m6 - m3 * m5) / d⟩,
   ⟨(m6 * m7 - m4 * m9) / d, (m1 * m9 - m3 * m7) / d, (m3 * m4 - m1 * m6) / d⟩,
   ⟨(m4 * m8 - m5 * m7) / d, (m2 * m7 - m1 * m8) / d, (m1 * m5 - m2 * m4) / d⟩⟩

/-! ### the cell -/

/-- the radicand of the volume formula: `1 + 2·ca·cb·cg − ca² − cb² − cg²` -/
def volRadicand (c : Cell K) : K := 1 + 2 * c.ca * c.cb * c.cg - c.ca * c.ca - c.cb * c.cb - c.cg * c.cg

/-- `vol_unitcell` and `CELL.volume` (the same expression at both places) -/
def volume (sqrt : K → K) (c : Cell K) : K := c.a * c.b * c.c * sqrt (volRadicand c)

/-- `OrthogonalMatrix.m`, entry by entry -/
def orthoM (sqrt : K → K) (c : Cell K) : M3 K :=
  ⟨⟨c.a, c.b * c.cg, c.c * c.cb⟩,
   ⟨0, c.b * c.sg, c.c * (c.ca - c.cb * c.cg) / c.sg⟩,
   ⟨0, 0, volume sqrt c / (c.a * c.b * c.sg)⟩⟩

/-- `OrthogonalMatrix.metric_matrix = self.transposed.dot(self.m)` -/
def metricCode (sqrt : K → K) (c : Cell K) : M3 K := mulMM (transpose (orthoM sqrt c)) (orthoM sqrt c)

/-- `cosastar` of misc.frac_to_cart / cart_to_frac -/
def cosAstar (c : Cell K) : K := (c.cb * c.cg - c.ca) / (c.sb * c.sg)

/-- `misc.frac_to_cart` -/
def fracToCartMisc (sqrt : K → K) (c : Cell K) (p : V3 K) : V3 K :=
  let cosastar := cosAstar c
  let sinastar := sqrt (1 - cosastar * cosastar)
  ⟨c.a * p.x + (c.b * c.cg) * p.y + (c.c * c.cb) * p.z,
   0 + (c.b * c.sg) * p.y + (-c.c * c.sb * cosastar) * p.z,
   0 + 0 + (c.c * c.sb * sinastar) * p.z⟩

/-- `misc.cart_to_frac` (back substitution) -/
def cartToFracMisc (sqrt : K → K) (c : Cell K) (q : V3 K) : V3 K :=
  let cosastar := cosAstar c
  let sinastar := sqrt (1 - cosastar * cosastar)
  let z := q.z / (c.c * c.sb * sinastar)
  let y := (q.y - (-c.c * c.sb * cosastar) * z) / (c.b * c.sg)
  let x := (q.x - (c.b * c.cg) * y - (c.c * c.cb) * z) / c.a
  ⟨x, y, z⟩

/-- radicand of `atomic_distance` for the difference vector `d` -/
def atomicDistSq (c : Cell K) (d : V3 K) : K :=
  (c.a * d.x) * (c.a * d.x) + (c.b * d.y) * (c.b * d.y) + (c.c * d.z) * (c.c * d.z)
    + 2 * c.b * c.c * c.ca * d.y * d.z + 2 * d.x * d.z * c.a * c.c * c.cb + 2 * d.x * d.y * c.a * c.b * c.cg

/-- `atomic_distance(p1, p2, cell)` -/
def atomicDistance (sqrt : K → K) (c : Cell K) (p1 p2 : V3 K) : K := sqrt (atomicDistSq c (vsub p1 p2))

/-- `CELL.astar, bstar, cstar` -/
def recip (sqrt : K → K) (c : Cell K) : V3 K :=
  let v := volume sqrt c
  ⟨c.b * c.c * c.sa / v, c.a * c.c * c.sb / v, c.a * c.b * c.sg / v⟩

def diag (n : V3 K) : M3 K := ⟨⟨n.x, 0, 0⟩, ⟨0, n.y, 0⟩, ⟨0, 0, n.z⟩⟩

/-- `CELL.N` -/
def nMat (sqrt : K → K) (c : Cell K) : M3 K := diag (recip sqrt c)

/-! ### the displacement-tensor chain -/

/-- `Atom.set_ucif` -/
def ucif (u : U6 K) : M3 K := ⟨⟨u.u11, u.u12, u.u13⟩, ⟨u.u12, u.u22, u.u23⟩, ⟨u.u13, u.u23, u.u33⟩⟩

/-- the code before the repair: `ustar = ucif * N * N.T` with the rows×rows `*` -/
def ustarOld (n u : M3 K) : M3 K := mulRR (mulRR u n) (transpose n)

/-- the code before the repair: `u_cart = ustar * o * o.T` with the rows×rows `*` -/
def ucartOld (m n u : M3 K) : M3 K := mulRR (mulRR (ustarOld n u) m) (transpose m)

/-- repaired `Atom.ustar`: `N.dot(ucif).dot(N.T)` -/
def ustar (n u : M3 K) : M3 K := mulMM (mulMM n u) (transpose n)

/-- repaired `Atom.u_cart`: `o.m.dot(ustar).dot(o.m.T)` -/
def ucart (m n u : M3 K) : M3 K := mulMM (mulMM m (ustar n u)) (transpose m)

/-- the anisotropic branch of `Atom.set_ueq`: `u_cart.trace / 3` -/
def ueqAniso (sqrt : K → K) (c : Cell K) (u : U6 K) : K :=
  trace (ucart (orthoM sqrt c) (nMat sqrt c) (ucif u)) / 3

def ueqAnisoOld (sqrt : K → K) (c : Cell K) (u : U6 K) : K :=
  trace (ucartOld (orthoM sqrt c) (nMat sqrt c) (ucif u)) / 3

/-- `Atom.is_npd` after fixes/C12_3: the three leading principal minors of `u_cart.values` as coded
    (`u[0][0]`, `u[0][0]*u[1][1] - u[0][1]*u[1][0]`, `misc.determinante(u)`); the atom is reported
    non-positive-definite unless all three are `> 0` -/
def npdMinors (m : M3 K) : V3 K := ⟨m.r0.x, m.r0.x * m.r1.y - m.r0.y * m.r1.x, det m⟩

/-- `Atom.is_npd` as it is now (fixes/C12_5): all seven principal minors of `u_cart.values`, in the order coded
    (`u00, u11, u22, u00*u11 - u01*u10, u00*u22 - u02*u20, u11*u22 - u12*u21, determinante(u)`); the atom is
    reported non-positive-definite unless all are `> 0` -/
def principalMinors (m : M3 K) : List K :=
  [m.r0.x, m.r1.y, m.r2.z,
   m.r0.x * m.r1.y - m.r0.y * m.r1.x,
   m.r0.x * m.r2.z - m.r0.z * m.r2.x,
   m.r1.y * m.r2.z - m.r1.z * m.r2.y,
   det m]

/-! ### the Atom object under edits: which fields every public edit writes, which fields the observables read -/

/-- the fields of an `Atom` the observables of this property read or cache -/
structure AtomSt (K : Type) where
  frac : V3 K      -- x, y, z            (read by `frac_coords`, `atomic_distance`)
  cart : V3 K      -- xc, yc, zc         (a cache; read by `cart_coords`, `Atoms.distance/angle/torsion`)
  uvals : U6 K     -- the list `uvals`   (read by `ucif` → `ustar`, `u_cart`, `ueq`, `is_npd`, and by `__str__`)
  uattr : U6 K     -- U11 … U12          (copies written by `set_uvals` / `set_atom_parameters`; read by no observable)

/-- the public ways to change an atom's displacement parameters or position
    (`to_isotropic()` is `assignUvals [0.04, 0, 0, 0, 0, 0]`) -/
inductive Edit (K : Type) where
  | assignUvals (u : U6 K)          -- atom.uvals = [...]
  | setUvals (u : U6 K)             -- atom.set_uvals([...])   (values below 4: no free-variable code)
  | setItem (k : Nat) (v : K)       -- atom.uvals[k] = v       (k < 6; larger k is Python's IndexError: no change)
  | setFrac (p : V3 K)              -- atom.frac_coords = [...]

def U6.set (u : U6 K) (k : Nat) (v : K) : U6 K :=
  match k with
  | 0 => { u with u11 := v }
  | 1 => { u with u22 := v }
  | 2 => { u with u33 := v }
  | 3 => { u with u23 := v }
  | 4 => { u with u13 := v }
  | 5 => { u with u12 := v }
  | _ => u

/-- `Atom.parse_line`: `xc, yc, zc = cell.o * Array(frac_coords)` -/
def parseAtom (m : M3 K) (p : V3 K) (u : U6 K) : AtomSt K := ⟨p, mulVec m p, u, u⟩

/-- `Shelxfile.add_atom` → `Atom.set_atom_parameters`: `xc, yc, zc = misc.frac_to_cart(frac_coords, cell)` -/
def newAtom (sqrt : K → K) (c : Cell K) (p : V3 K) (u : U6 K) : AtomSt K := ⟨p, fracToCartMisc sqrt c p, u, u⟩

/-- one edit on the object (setter of `frac_coords` as repaired: it refreshes the Cartesian cache) -/
def applyEdit (m : M3 K) (s : AtomSt K) : Edit K → AtomSt K
  | .assignUvals u => { s with uvals := u }
  | .setUvals u => { s with uvals := u, uattr := u }
  | .setItem k v => { s with uvals := s.uvals.set k v }
  | .setFrac p => { s with frac := p, cart := mulVec m p }

/-- the setter before fixes/C12_4: `self.x, self.y, self.z = coords` only -/
def applyEditOld (m : M3 K) (s : AtomSt K) : Edit K → AtomSt K
  | .setFrac p => { s with frac := p }
  | e => applyEdit m s e

def history (m : M3 K) (s : AtomSt K) (es : List (Edit K)) : AtomSt K := es.foldl (applyEdit m) s
def historyOld (m : M3 K) (s : AtomSt K) (es : List (Edit K)) : AtomSt K := es.foldl (applyEditOld m) s

/-- what the same history means, without any object: the last assigned position, the U values after all edits -/
def specFrac (p : V3 K) : List (Edit K) → V3 K
  | [] => p
  | .setFrac q :: es => specFrac q es
  | _ :: es => specFrac p es

def specUvals (u : U6 K) : List (Edit K) → U6 K
  | [] => u
  | .assignUvals v :: es => specUvals v es
  | .setUvals v :: es => specUvals v es
  | .setItem k v :: es => specUvals (u.set k v) es
  | .setFrac _ :: es => specUvals u es

/-! ### the body of a file: atoms with other instructions between them (the parser's state when an atom is read) -/

/-- a line of the file body, as far as the position of the atoms is concerned -/
inductive BodyLine (K : Type) where
  | move (params : List K)          -- MOVE dx[0] dy[0] dz[0] sign[1]  (any number of parameters written)
  | other                           -- PART, RESI, AFIX, SAME, restraints, REM, … : state the observables of C12 do not read
  | atom (p : V3 K) (u : U6 K)      -- an atom line (coordinates and U values below 4: no free-variable code)

/-- `MOVE.__init__`: `dxdydz = params[:3]` if more than two numbers are written, `sign = params[3]` if more than three -/
def moveOf (ps : List K) : Option (V3 K) × Option K :=
  match ps with
  | x :: y :: z :: rest => (some ⟨x, y, z⟩, rest.head?)
  | _ => (none, none)

/-- the parser while it walks through the body: `shx.move` (the last MOVE seen) and the atoms made so far -/
structure ParseSt (K : Type) where
  move : Option (Option (V3 K) × Option K)
  atoms : List (AtomSt K)

/-- one line: a MOVE replaces `shx.move`; an atom is made by `Atom.parse_line`, which does not read `shx.move` -/
def parseLine (m : M3 K) (s : ParseSt K) : BodyLine K → ParseSt K
  | .move ps => { s with move := some (moveOf ps) }
  | .other => s
  | .atom p u => { s with atoms := s.atoms ++ [parseAtom m p u] }

def parseBody (m : M3 K) (ls : List (BodyLine K)) : ParseSt K := ls.foldl (parseLine m) ⟨none, []⟩

/-- what the body says, without any parser: the positions and U values written on the atom lines, in order -/
def specBody : List (BodyLine K) → List (V3 K × U6 K)
  | [] => []
  | .atom p u :: ls => (p, u) :: specBody ls
  | _ :: ls => specBody ls

/-! ### the Shelxfile object when the CELL is changed in place (`shx.cell.set('CELL …')`, fixes/C12_6) -/

/-- what is derived from the cell and kept outside the CELL object: `Shelxfile.orthogonal_matrix` (a reference taken when
    the CELL line was parsed; read by `Shelxfile.frac_to_cart`) and the atom's cached Cartesian coordinates.
    (`cell.o`, `cell.N`, `cell.V`, `astar…` are rebuilt by `CELL.__init__`, which `Command.set` re-runs; atoms refer to the
    same CELL object, so the U chain always sees the current cell.) -/
structure FileSt (K : Type) where
  cell : Cell K
  om : M3 K
  atom : AtomSt K

inductive FEdit (K : Type) where
  | atomEdit (e : Edit K)
  | setCell (c : Cell K)            -- shx.cell.set('CELL λ a b c α β γ')

def readFile (sqrt : K → K) (c : Cell K) (a : AtomSt K) : FileSt K := ⟨c, orthoM sqrt c, a⟩

/-- `CELL.set` as repaired: also refreshes `Shelxfile.orthogonal_matrix` and the atoms' Cartesian coordinates -/
def applyF (sqrt : K → K) (s : FileSt K) : FEdit K → FileSt K
  | .atomEdit e => { s with atom := applyEdit (orthoM sqrt s.cell) s.atom e }
  | .setCell c => ⟨c, orthoM sqrt c, { s.atom with cart := mulVec (orthoM sqrt c) s.atom.frac }⟩

/-- `Command.set` before fixes/C12_6: only the CELL object itself is re-initialised -/
def applyFOld (sqrt : K → K) (s : FileSt K) : FEdit K → FileSt K
  | .atomEdit e => { s with atom := applyEdit (orthoM sqrt s.cell) s.atom e }
  | .setCell c => { s with cell := c }

def fileHistory (sqrt : K → K) (s : FileSt K) (es : List (FEdit K)) : FileSt K := es.foldl (applyF sqrt) s
def fileHistoryOld (sqrt : K → K) (s : FileSt K) (es : List (FEdit K)) : FileSt K := es.foldl (applyFOld sqrt) s

/-- the cell the history leaves -/
def specCell (c : Cell K) : List (FEdit K) → Cell K
  | [] => c
  | .setCell d :: es => specCell d es
  | _ :: es => specCell c es

def atomEdits : List (FEdit K) → List (Edit K)
  | [] => []
  | .atomEdit e :: es => e :: atomEdits es
  | .setCell _ :: es => atomEdits es

/-! ### the memo of `OrthogonalMatrix.inversed` on the object `cell.o`, in histories that also ASK -/

/-- the Shelxfile object together with the memo slot `cell.o._inversed` (`none` = Python's `None`; a `Matrix` is always
    truthy, so `if not self._inversed` tests exactly for `None`). `cell.o` and `Shelxfile.orthogonal_matrix` are one
    object (assigned when the CELL line is parsed, and again by `CELL.set`), so there is one slot. -/
structure MemoSt (K : Type) where
  file : FileSt K
  memo : Option (M3 K)

/-- one step of a history on the object: a public edit, or an evaluation of `cell.o.inversed`
    (`shx.orthogonal_matrix.inversed` is the same property of the same object) -/
inductive Step (K : Type) where
  | edit (e : FEdit K)
  | askInverse

/-- what `OrthogonalMatrix.inversed` returns in a state: the memo if it is filled, else `self.m.inversed`
    (`cell.o.m` is built from the cell's own parameters by `CELL.__init__`) -/
def answerInverse (sqrt : K → K) (s : MemoSt K) : M3 K :=
  match s.memo with
  | some i => i
  | none => inversed (orthoM sqrt s.file.cell)

/-- `CELL.set` re-runs `CELL.__init__`, which builds a NEW `OrthogonalMatrix` (empty memo); the atom edits do not touch
    the matrix object; asking fills the memo with the answer -/
def applyStep (sqrt : K → K) (s : MemoSt K) : Step K → MemoSt K
  | .edit (.setCell c) => ⟨applyF sqrt s.file (.setCell c), none⟩
  | .edit (.atomEdit e) => ⟨applyF sqrt s.file (.atomEdit e), s.memo⟩
  | .askInverse => { s with memo := some (answerInverse sqrt s) }

/-- NOT the code: the matrix object kept across `CELL.set` and recalculated in place without clearing the memo. Only
    used to show that the theorem `inverse_memo_coherent` hangs on the fresh object (`memo_kept_fails_on`). -/
def applyStepKeep (sqrt : K → K) (s : MemoSt K) : Step K → MemoSt K
  | .edit e => ⟨applyF sqrt s.file e, s.memo⟩
  | .askInverse => { s with memo := some (answerInverse sqrt s) }

def stepHistory (sqrt : K → K) (s : MemoSt K) (es : List (Step K)) : MemoSt K := es.foldl (applyStep sqrt) s
def stepHistoryKeep (sqrt : K → K) (s : MemoSt K) (es : List (Step K)) : MemoSt K := es.foldl (applyStepKeep sqrt) s

/-- the edits of a history, the questions dropped -/
def stepEdits : List (Step K) → List (FEdit K)
  | [] => []
  | .edit e :: es => e :: stepEdits es
  | .askInverse :: es => stepEdits es

/-- a file that has just been read: nothing asked yet -/
def readFresh (sqrt : K → K) (c : Cell K) (a : AtomSt K) : MemoSt K := ⟨readFile sqrt c a, none⟩

/-! ### `misc.qr_decomposition`, `misc.eigenvals` (unshifted QR iteration, Gram–Schmidt as coded):
    what `Atom.is_npd` used before the repair -/

/-- one `qr_decomposition`: returns `(Q_transposed, R)`; `none` is Python's ZeroDivisionError (`norm == 0`) -/
def qrDecomp (sqrt : K → K) (isZero : K → Bool) (m : M3 K) : Option (M3 K × M3 K) :=
  let q0 := col0 m
  let n0 := sqrt (norm2 q0)
  if isZero n0 then none else
  let q0 := vdiv q0 n0
  let q1 := col1 m
  let r01 := dot q0 q1
  let q1 := vsub q1 (vscale r01 q0)
  let n1 := sqrt (norm2 q1)
  if isZero n1 then none else
  let q1 := vdiv q1 n1
  let q2 := col2 m
  let r02 := dot q0 q2
  let q2 := vsub q2 (vscale r02 q0)
  let r12 := dot q1 q2
  let q2 := vsub q2 (vscale r12 q1)
  let n2 := sqrt (norm2 q2)
  if isZero n2 then none else
  let q2 := vdiv q2 n2
  some (transpose ⟨q0, q1, q2⟩, ⟨⟨n0, r01, r02⟩, ⟨0, n1, r12⟩, ⟨0, 0, n2⟩⟩)

/-- `eigenvals(matrix, iterations)`: `A ← R·Q` `iterations` times, then `(A22, A11, A00)` -/
def eigenvals (sqrt : K → K) (isZero : K → Bool) : Nat → M3 K → Option (V3 K)
  | 0, a => some ⟨a.r2.z, a.r1.y, a.r0.x⟩
  | k + 1, a =>
    match qrDecomp sqrt isZero a with
    | none => none
    | some (qt, r) => eigenvals sqrt isZero k (mulMM r qt)

/-! ### Specification: everything from the metric tensor -/

/-- the metric tensor `G_ij = a_i · a_j` -/
def metric (c : Cell K) : M3 K :=
  ⟨⟨c.a * c.a, c.a * c.b * c.cg, c.a * c.c * c.cb⟩,
   ⟨c.a * c.b * c.cg, c.b * c.b, c.b * c.c * c.ca⟩,
   ⟨c.a * c.c * c.cb, c.b * c.c * c.ca, c.c * c.c⟩⟩

/-- the quadratic form `xᵀ G x` -/
def quad (g : M3 K) (v : V3 K) : K := dot v (mulVec g v)

/-- the upper-triangular `R` with positive diagonal and `RᵀR = G` (Cholesky): Cartesian axes with
    `a` along x and `b` in the xy plane, right-handed -/
def cholUpper (sqrt : K → K) (g : M3 K) : M3 K :=
  let r00 := sqrt g.r0.x
  let r01 := g.r0.y / r00
  let r02 := g.r0.z / r00
  let r11 := sqrt (g.r1.y - r01 * r01)
  let r12 := (g.r1.z - r01 * r02) / r11
  let r22 := sqrt (g.r2.z - r02 * r02 - r12 * r12)
  ⟨⟨r00, r01, r02⟩, ⟨0, r11, r12⟩, ⟨0, 0, r22⟩⟩

/-- the symmetric determinant of G written as the Gram determinant -/
def gramDet (g : M3 K) : K :=
  g.r0.x * g.r1.y * g.r2.z + 2 * g.r0.y * g.r0.z * g.r1.z
    - g.r0.x * g.r1.z * g.r1.z - g.r1.y * g.r0.z * g.r0.z - g.r2.z * g.r0.y * g.r0.y

/-- squares of the reciprocal axis lengths: the diagonal of `G⁻¹` -/
def recipSqSpec (g : M3 K) : V3 K :=
  ⟨(g.r1.y * g.r2.z - g.r1.z * g.r1.z) / gramDet g,
   (g.r0.x * g.r2.z - g.r0.z * g.r0.z) / gramDet g,
   (g.r0.x * g.r1.y - g.r0.y * g.r0.y) / gramDet g⟩

/-- `Ueq = ⅓ Σ_ij U_ij a*_i a*_j (a_i · a_j)` (IUCr definition) -/
def ueqSpec (g : M3 K) (n : V3 K) (u : U6 K) : K :=
  (u.u11 * n.x * n.x * g.r0.x + u.u22 * n.y * n.y * g.r1.y + u.u33 * n.z * n.z * g.r2.z
    + 2 * u.u23 * n.y * n.z * g.r1.z + 2 * u.u13 * n.x * n.z * g.r0.z + 2 * u.u12 * n.x * n.y * g.r0.y) / 3

/-- what the code before the repair returned: the mixed terms carry `(n_i² + n_j²)/2` for `n_i n_j` -/
def ueqOldFormula (g : M3 K) (n : V3 K) (u : U6 K) : K :=
  (u.u11 * n.x * n.x * g.r0.x + u.u22 * n.y * n.y * g.r1.y + u.u33 * n.z * n.z * g.r2.z
    + u.u23 * (n.y * n.y + n.z * n.z) * g.r1.z + u.u13 * (n.x * n.x + n.z * n.z) * g.r0.z
    + u.u12 * (n.x * n.x + n.y * n.y) * g.r0.y) / 3

/-- the three leading principal minors of the symmetric tensor -/
def minors (u : U6 K) : V3 K :=
  ⟨u.u11,
   u.u11 * u.u22 - u.u12 * u.u12,
   u.u11 * (u.u22 * u.u33 - u.u23 * u.u23) - u.u12 * (u.u12 * u.u33 - u.u23 * u.u13)
     + u.u13 * (u.u12 * u.u23 - u.u22 * u.u13)⟩

end generic

/-! ### exact decisions on the file values (`Rat`) -/

/-- Sylvester's criterion on the six file values -/
def sylvesterPD (u : U6 Rat) : Bool :=
  let d := minors u
  decide (0 < d.x) && decide (0 < d.y) && decide (0 < d.z)

/-- `U + t·I` -/
def shiftU (u : U6 Rat) (t : Rat) : U6 Rat := { u with u11 := u.u11 + t, u22 := u.u22 + t, u33 := u.u33 + t }

/-- the branch of the repaired `set_ueq` that returns `uvals[0]` (isotropic atom / Q-peak):
    `uvals[0] > 0 and not any(uvals[2:])` -/
def isoBranch (u : U6 Rat) : Bool :=
  decide (0 < u.u11) && (u.u33 == 0 && u.u23 == 0 && u.u13 == 0 && u.u12 == 0)

/-- the branch before the repair: `uvals[0] > 0 and not sum(uvals[2:])` (exact arithmetic) -/
def isoBranchOld (u : U6 Rat) : Bool :=
  decide (0 < u.u11) && (u.u33 + u.u23 + u.u13 + u.u12 == 0)

/-- the tensor is written with six values (an anisotropic atom of the file) -/
def anisoWritten (u : U6 Rat) : Bool := !(u.u33 == 0 && u.u23 == 0 && u.u13 == 0 && u.u12 == 0)

end Shelx.C12

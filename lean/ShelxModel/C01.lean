/- C01 — model and specification (stub; see HACKING.md) -/
namespace Shelx.C01

end Shelx.C01

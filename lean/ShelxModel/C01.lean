/-
  C01 — reading a file and writing it back loses nothing.

  Model (mirrors the printers that `write_shelx_file` calls through `str()`), text as `List Char`:
    ' '.join(spline) / Command.__str__ / Restraint.__str__   -> `joinBl 0`            (default printer)
    str.format with the Atom format strings (atom.py)        -> `chunksOf`, `renderFmt`, `renderAtom`
    '{:>w.ndf}' of a float                                   -> `fmtFixed nd`         (round-half-even of the exact value)
    cards._fmt_number (repaired UNIT/SIZE/ACTA printer)      -> `fmtNum`
    SFACTable.__repr__ (repaired) / the printer before       -> `renderSfac` / `renderSfacOld`
    FVARs.__str__  (misc.chunks)                             -> `chunks`, `renderFvar`
    SIZE/ACTA/STIR/WGHT/SYMM printers                        -> `renderSize` … `renderSymm`
  Specification (code independent reader of a written line):
    `splitWs` (tokens), `parseDec` (decimal numeral -> Rat), `readSfac`, `readFvar`, `normSymm`, `SameInstr`.
-/
import ShelxModel.Extracted.C01Tables
namespace Shelx.C01
open Ext

abbrev Tok := List Char

/-! ### text layer -/

def blanks (n : Nat) : List Char := List.replicate n ' '

/-- the pending token (kept reversed) is emitted -/
def flush : List Char → List Tok
  | [] => []
  | c :: cs => [(c :: cs).reverse]

/-- `str.split()` on blanks: `cur` is the token being read, reversed -/
def splitGo : List Char → List Char → List Tok
  | [], cur => flush cur
  | c :: cs, cur => if c = ' ' then flush cur ++ splitGo cs [] else splitGo cs (c :: cur)

def splitWs (s : List Char) : List Tok := splitGo s []

/-- `sep.join(ts)` with a separator of `k+1` blanks -/
def joinBl (k : Nat) : List Tok → List Char
  | [] => []
  | t :: ts => t ++ (ts.map fun u => blanks (k + 1) ++ u).flatten

/-- a padded field: `l` blanks, the text, `r` blanks (a literal of blanks has empty text) -/
structure Chunk where
  l : Nat
  t : Tok
  r : Nat
deriving Repr, DecidableEq

def Chunk.text (c : Chunk) : List Char := blanks c.l ++ (c.t ++ blanks c.r)

def renderChunks : List Chunk → List Char
  | [] => []
  | c :: cs => c.text ++ renderChunks cs

def toksOf : List Chunk → List Tok
  | [] => []
  | c :: cs => if c.t = [] then toksOf cs else c.t :: toksOf cs

/-- no two field texts touch: `o` = a token is pending with no blank after it yet -/
def sep : Bool → List Chunk → Bool
  | _, [] => true
  | o, c :: cs =>
    if c.t = [] then sep (o && (c.l + c.r == 0)) cs
    else (!o || decide (1 ≤ c.l)) && sep (c.r == 0) cs

/-! ### numbers -/

/-- Python's rounding of the exact value: round half to even -/
def roundHalfEven (x : Rat) : Int :=
  let f := x.floor
  let r := x - f
  if r < 1/2 then f else if r > 1/2 then f + 1 else if f % 2 = 0 then f else f + 1

def digitChar (d : Nat) : Char := Char.ofNat (48 + d)
def digitVal (c : Char) : Nat := c.toNat - 48
def isDigit (c : Char) : Bool := decide (48 ≤ c.toNat) && decide (c.toNat ≤ 57)

/-- decimal digits, most significant first -/
def natDigits (n : Nat) : List Nat :=
  if h : n < 10 then [n] else natDigits (n / 10) ++ [n % 10]
decreasing_by omega

/-- exactly `k` digits (the value modulo 10^k) -/
def fixDigits : Nat → Nat → List Nat
  | 0, _ => []
  | k + 1, m => fixDigits k (m / 10) ++ [m % 10]

def fmtNat (n : Nat) : Tok := (natDigits n).map digitChar

def fmtInt (n : Int) : Tok := (if n < 0 then ['-'] else []) ++ fmtNat n.natAbs

/-- `'{:.ndf}'.format(x)` for nd ≥ 1: the decimal with `nd` places nearest to the exact value of `x`, ties to even;
    a negative `x` keeps its sign even when it rounds to zero (`'-0.000000'`), as in CPython -/
def fmtFixed (nd : Nat) (x : Rat) : Tok :=
  let a := (roundHalfEven (x * (10 : Rat) ^ nd)).natAbs
  (if x < 0 then ['-'] else []) ++ (fmtNat (a / 10 ^ nd) ++ '.' :: (fixDigits nd (a % 10 ^ nd)).map digitChar)

/-- reader, fraction part: digits only -/
def parseFrac : List Char → Nat → Nat → Option (Nat × Nat)
  | [], a, k => some (a, k)
  | c :: cs, a, k => if isDigit c then parseFrac cs (10 * a + digitVal c) (k + 1) else none

/-- reader: digits, optionally `.` and digits -/
def parseUns : List Char → Nat → Option Rat
  | [], a => some (a : Rat)
  | c :: cs, a =>
    if isDigit c then parseUns cs (10 * a + digitVal c)
    else if c = '.' then (parseFrac cs 0 0).map fun p => (a : Rat) + (p.1 : Rat) / (10 : Rat) ^ p.2
    else none

/-- the numeral reader of the specification: `[-]digits[.digits]` -/
def parseDec : List Char → Option Rat
  | [] => none
  | c :: s => if c = '-' then (parseUns s 0).map fun v => -v else parseUns (c :: s) 0

/-- `cards._fmt_number`: integral values as integers, anything else through `repr` (a parameter: CPython's
    shortest round-trip representation is not modelled, it is assumed to read back as the same number) -/
def fmtNum (pr : Rat → Tok) (x : Rat) : Tok := if x.den = 1 then fmtInt x.num else pr x

def absR (x : Rat) : Rat := if x < 0 then -x else x

/-- specification: the token is a numeral within `tol` of `x` -/
def numCloseB (tol x : Rat) (t : Tok) : Bool :=
  match parseDec t with
  | some v => decide (absR (v - x) ≤ tol)
  | none => false

/-- specification: as many numerals as values, each within its tolerance -/
def closeAll : List Tok → List (Rat × Rat) → Bool
  | [], [] => true
  | t :: ts, (x, tol) :: xs => numCloseB tol x t && closeAll ts xs
  | _, _ => false

/-- specification of a written atom line: same name, same scattering-factor number, every value within its
    tolerance (`vals` = (value, tolerance) in file order) -/
def specAtomLine (toks : List Tok) (name : Tok) (sfac : Nat) (vals : List (Rat × Rat)) : Bool :=
  match toks with
  | n :: s :: rest => (n == name) && numCloseB 0 (sfac : Rat) s && closeAll rest vals
  | _ => false

def tolCoord : Rat := 1 / 1000000
def tolU : Rat := 1 / 100000

/-! ### atoms -/

inductive Val where
  | str (s : Tok)
  | int (n : Nat)
  | num (x : Rat)
deriving Repr

/-- text of one replacement field (`'f'` without precision means 6 places) -/
def fieldText (prec : Option Nat) : Val → Tok
  | .str s => s
  | .int n => fmtNat n
  | .num x => fmtFixed (prec.getD 6) x

def chunkOf (left : Bool) (w : Nat) (prec : Option Nat) (v : Val) : Chunk :=
  let t := fieldText prec v
  if left then ⟨0, t, w - t.length⟩ else ⟨w - t.length, t, 0⟩

/-- `fmt.format(*vals)`: surplus arguments are ignored, a missing one is Python's IndexError (`none`) -/
def chunksOf : List Piece → List Val → Option (List Chunk)
  | [], _ => some []
  | .lit n :: ps, vs => (chunksOf ps vs).map fun cs => ⟨n, [], 0⟩ :: cs
  | .fld _ _ _ :: _, [] => none
  | .fld l w p :: ps, v :: vs => (chunksOf ps vs).map fun cs => chunkOf l w p v :: cs

/-- the texts of the fields, in order -/
def fieldTexts : List Piece → List Val → List Tok
  | [], _ => []
  | .lit _ :: ps, vs => fieldTexts ps vs
  | .fld _ _ _ :: _, [] => []
  | .fld _ _ p :: ps, v :: vs => fieldText p v :: fieldTexts ps vs

def renderFmt (fmt : List Piece) (vals : List Val) : Option (List Char) := (chunksOf fmt vals).map renderChunks

/-- the test in `Atom.__str__`: anisotropic iff Σ|u[2:]| > 0.00001 -/
def isAniso (us : List Rat) : Bool := decide (((us.drop 2).map absR).sum > 1 / 100000)

/-- `Atom._get_atom_coordinates`: a coordinate beyond ±4 carries a free-variable code 10m+p and is split into the
    free-variable number (kept per slot in `_coord_fvars`) and the value (exact arithmetic: `round(value, 8)` is the
    identity on values with at most eight decimals) -/
def coordSplit (c : Rat) : Int × Rat :=
  if absR c > 4 then
    let m := ((c + 5) / 10).floor
    (m, c - 10 * m)
  else (0, c)

/-- `Atom._coordinates_as_in_file` (repair C01_6): the coordinate as it stands in the file, slot by slot -/
def coordJoin (mp : Int × Rat) : Rat := mp.2 + 10 * mp.1

structure AtomV where
  name : Tok
  sfac : Nat
  xyz : List Rat         -- three values, with their free-variable codes (repaired printer)
  sof : Rat
  us : List Rat          -- `Atom.uvals`: always six values ([U, 0, 0, 0, 0, 0] for an isotropic atom)
  qpeak : Bool
  height : Rat
deriving Repr

/-- `Atom.__str__` (not inside FRAG) -/
def renderAtom (a : AtomV) : Option (List Char) :=
  let head := [Val.str a.name, Val.int a.sfac] ++ a.xyz.map Val.num ++ [Val.num a.sof]
  if isAniso a.us && !a.qpeak then renderFmt anisFmt (head ++ a.us.map Val.num)
  else if a.qpeak then
    match qpeakUConst with
    | some c => renderFmt qpeakFmt (head ++ [Val.num c, Val.num a.height])
    | none => renderFmt qpeakFmt (head ++ [Val.num (a.us.headD 0), Val.num a.height])
  else renderFmt isoFmt (head ++ a.us.map Val.num)

/-! ### SFAC table -/

inductive SfEntry where
  | plain (el : Tok)
  | expl (toks : List Tok)      -- element and the fourteen coefficients, as stored
deriving Repr, DecidableEq

/-- the collected plain elements are printed as one line -/
def flushEls (els : List Tok) (out : List (List Tok)) : List (List Tok) := if els = [] then out else out ++ [els]

/-- `SFACTable.__repr__` after the repair: lines as parameter-token lists (each is printed as
    `'SFAC ' + '  '.join(line)`); a repeated plain element takes the explicit branch and raises KeyError (`none`) -/
def sfacGo : List SfEntry → List Tok → List (List Tok) → Option (List (List Tok))
  | [], els, out => some (flushEls els out)
  | .plain e :: r, els, out => if e ∈ els then none else sfacGo r (els ++ [e]) out
  | .expl ts :: r, els, out => sfacGo r [] (flushEls els out ++ [ts])

def renderSfac (es : List SfEntry) : Option (List (List Tok)) := sfacGo es [] []

/-- the printer as it was before the repair: the collected values were dropped, an empty element list printed -/
def sfacGoOld : List SfEntry → List Tok → List (List Tok) → Option (List (List Tok))
  | [], els, out => some (flushEls els out)
  | .plain e :: r, els, out => if e ∈ els then none else sfacGoOld r (els ++ [e]) out
  | .expl _ :: r, els, out => sfacGoOld r [] (flushEls els out ++ [[]])

def renderSfacOld (es : List SfEntry) : Option (List (List Tok)) := sfacGoOld es [] []

def isAlphaC (c : Char) : Bool := (decide (65 ≤ c.toNat) && decide (c.toNat ≤ 90)) || (decide (97 ≤ c.toNat) && decide (c.toNat ≤ 122))

/-- a non-empty word of letters -/
def isWord (t : Tok) : Bool := t.all isAlphaC && !t.isEmpty

/-- `''.join(spline[1:]).isalpha()` on a list of (non-empty) tokens: at least one token, all of them letters only -/
def allAlpha (ts : List Tok) : Bool := ts.all isWord && !ts.isEmpty

/-- reader of the SFAC lines of a file: an all-letters line lists elements, any other line is one explicit entry -/
def readSfac : List (List Tok) → List SfEntry
  | [] => []
  | l :: ls => (if allAlpha l then l.map SfEntry.plain else [SfEntry.expl l]) ++ readSfac ls

/-- the text of one SFAC line -/
def sfacLineText (params : List Tok) : List Char := "SFAC ".toList ++ joinBl 1 params

/-! ### FVAR -/

def chunksGo {α} (n : Nat) : Nat → List α → List (List α)
  | 0, _ => []
  | f + 1, l => if l = [] then [] else l.take n :: chunksGo n f (l.drop n)

/-- `misc.chunks(l, n)` for n ≥ 1 -/
def chunks {α} (n : Nat) (l : List α) : List (List α) := chunksGo n l.length l

/-- `FVARs.__str__`: token lists of the printed lines (`'FVAR   ' + '   '.join(chunk)`) -/
def renderFvar (vals : List Tok) : List (List Tok) := (chunks fvarChunk vals).map fun c => "FVAR".toList :: c

def fvarLineText (c : List Tok) : List Char := "FVAR   ".toList ++ joinBl 2 c

/-- reader: the values of all FVAR lines, in order -/
def readFvar (lines : List (List Tok)) : List Tok := (lines.map List.tail).flatten

/-! ### printer overrides (token level; the line is `' '.join`/`'  '.join` of the tokens) -/

def renderUnit (pr : Rat → Tok) (vals : List Rat) : List Tok := "UNIT".toList :: vals.map (fmtNum pr)

/-- `SIZE` (repaired): the dimensions that were given (at most three are stored) -/
def renderSize (pr : Rat → Tok) (nums : List Rat) : List Tok := "SIZE".toList :: (nums.take 3).map (fmtNum pr)

/-- `ACTA` (repaired): the first number and the words -/
def renderActa (pr : Rat → Tok) (nums : List Rat) (words : List Tok) : List Tok :=
  "ACTA".toList :: ((nums.take 1).map (fmtNum pr) ++ words)

/-- `STIR`: `"STIR {} {}".format(sres if sres else '', step)`; step defaults to 0.01 -/
def renderStir (pr : Rat → Tok) (nums : List Rat) : List Tok :=
  let sres := match nums[0]? with | some s => if s = 0 then [] else [pr s] | none => []
  let step := match nums[1]? with | some s => s | none => 1 / 100
  "STIR".toList :: (sres ++ [pr step])

def wghtDefaults : List Rat := [1 / 10, 0, 0, 0, 0, 33333 / 100000]

/-- value of parameter `i`: the one given, else its default -/
def withDefaults (defs : List Rat) (nums : List Rat) : List Rat :=
  (nums.take defs.length) ++ defs.drop nums.length

/-- `WGHT._as_string` (repaired): a and b always, c..f iff one of them differs from its default -/
def renderWght (pr : Rat → Tok) (nums : List Rat) : List Tok :=
  let v := withDefaults wghtDefaults nums
  "WGHT".toList :: (if v.drop 2 = wghtDefaults.drop 2 then (v.take 2).map pr else v.map pr)

/-- split at commas (empty components kept) -/
def splitComma : List Char → List Char → List Tok
  | [], cur => [cur.reverse]
  | c :: cs, cur => if c = ',' then cur.reverse :: splitComma cs [] else splitComma cs (c :: cur)

def joinWith (s : List Char) : List Tok → List Char
  | [] => []
  | t :: ts => t ++ (ts.map fun u => s ++ u).flatten

/-- `SYMM._parse_line`: `''.join(spline[1:]).split(',')` -/
def parseSymm (params : List Tok) : List Tok := splitComma params.flatten []

/-- `SYMM._as_str`: `"SYMM  " + ", ".join(symmcard)` -/
def renderSymm (comps : List Tok) : List Char := "SYMM  ".toList ++ joinWith [',', ' '] comps

/-- reader: the operator of a SYMM line = the text after the four-letter keyword with the blanks removed, split at
    the commas -/
def normSymm (line : List Char) : List Tok := splitComma ((line.drop 4).filter (· ≠ ' ')) []

/-! ### the writer and '+filename' include files -/

/-- an entry of the line list: `inc` = it was spliced in from an include file. The mark belongs to the ENTRY (the
    library tests object identity, `_is_included`), not to its text: two entries with the same text are two entries. -/
structure Entry where
  inc : Bool
  text : List Char
deriving Repr, DecidableEq

/-- `write_shelx_file`: entries spliced in from include files are not written (nor are emptied continuation lines) -/
def writeEntries (es : List Entry) : List (List Char) := ((es.filter fun e => !e.inc).map Entry.text).filter (· ≠ [])

/-- `_find_included_files`: the line list after reading = the lines of the res file, in order, with lines of include
    files (flat or nested, any number, any text) spliced in anywhere -/
inductive Spliced : List (List Char) → List Entry → Prop where
  | nil : Spliced [] []
  | res (l : List Char) {rs es} : Spliced rs es → Spliced (l :: rs) (⟨false, l⟩ :: es)
  | inc (l : List Char) {rs es} : Spliced rs es → Spliced rs (⟨true, l⟩ :: es)

/-- two parameter lists denote the same instruction: they agree once the omitted trailing parameters are filled in
    with the SHELXL defaults -/
def SameInstr (defs : List Rat) (tin tout : List Rat) : Prop := withDefaults defs tin = withDefaults defs tout

end Shelx.C01

/-
  C07 — writing preserves order, keeps unknown lines verbatim, and is a fixed point.

  Model of (shelxfile/shelx/shelx.py, with fixes/C07_1 and fixes/C07_2 applied):
    Shelxfile._parse_cards       the glue loop (`multiline_test`, blanking of consumed lines), the position
                                 preserving replacement of a line by an object (`_append_card/_assign_card`),
                                 absorption of the 2nd+ SFAC/FVAR line (`delete_on_write`), lines the
                                 if/elif chain leaves as text                              -> `step`, `parseAux`, `parse`
    Shelxfile.write_shelx_file   skip `delete_on_write`, skip `''`, print every other item -> `emit`, `write`
    Shelxfile._find_included_files / _read_included_file                                    -> `spliceOld` (code before
                                 fixes/C07_1, flat include files: spliced lines are ordinary lines), `expand`/`spliceNew`
                                 (the code now: spliced lines, nested ones too, are remembered in `_included`)
  The text type `α` is a parameter (`String` in the driver, `Nat` in `decide`d witnesses). What a physical line
  *is* for the parse loop is carried by the record `PLine` (flags computed by the lexer at the end of this file,
  which mirrors `line.startswith(' ')`, `multiline_test`, `is_atom` and the keyword chain); the printers of the
  objects are a parameter `Printer` — the theorems say which facts about them are used.

  Specification (code independent): `logicalHeads`/`keySeq` (SHELXL's own notion of a logical line: a line that
  is not blank, not indented and not the continuation of a line ending in `=`), `coalesceFrom` ("an SFAC/FVAR
  line is dropped iff an earlier line has the same keyword").
-/
namespace Shelx.C07

/-! ### data -/

inductive Tab | sfac | fvar
deriving DecidableEq, Repr

/-- what `_parse_cards` does with the logical line that starts at a physical line -/
inductive Cls
  | raw            -- no branch stores an object: the text stays in `_reslist`
  | obj            -- `_assign_card/_append_card`: an instruction object replaces the line
  | atom           -- `Atom` object replaces the line
  | tab (t : Tab)  -- SFAC with elements / FVAR with values: the shared table object
deriving DecidableEq, Repr

inductive Mode | top | objCont | rawCont
deriving DecidableEq, Repr

/-- one physical line as the parse loop sees it -/
structure PLine (α : Type) where
  text : α
  indented : Bool      -- `line.startswith(' ')`
  empty : Bool         -- `line == ''`: dropped by `write_shelx_file`
  cont : Bool          -- `multiline_test(line)`: the logical line continues on the next physical line
  cls : Cls            -- for a head: fate of the logical line that starts here
  key : α × α          -- for a head: (keyword, first token)
  vals : List α        -- for an SFAC/FVAR head: the elements / values it contributes to the table
  incl : Option α      -- `+name`: name of the include file
  spliced : Bool       -- the line was spliced in from an include file (its index is in `delete_on_write`)
deriving DecidableEq, Repr

/-- `line.startswith(' ') or line == ''`: such a line never starts a logical line -/
def PLine.skip {α : Type} (l : PLine α) : Bool := l.indented || l.empty

/-- an entry of `_reslist` after parsing; every entry remembers the physical line whose position it has -/
inductive Item (α : Type)
  | str (l : PLine α)               -- still text (a line the loop skips, or a head no branch replaces)
  | contKept (l : PLine α)          -- continuation line of a raw head. (In the code the head's string holds it,
                                    --  joined by '\n', and this position is blanked; the model keeps it at its own
                                    --  position, which writes the same file and keeps `parse` a position map.)
  | blanked (l : PLine α)           -- `''` stored over a consumed continuation line of an object
  | card (l : PLine α)              -- instruction or atom object
  | table (t : Tab) (l : PLine α)   -- the `SFACTable` / `FVARs` object, at the first line of its kind
  | absorbed (t : Tab) (l : PLine α) -- later SFAC/FVAR line: index in `delete_on_write`
deriving Repr

structure St where
  seenS : Bool := false
  seenF : Bool := false
  mode : Mode := .top
deriving DecidableEq, Repr

def St.seen (s : St) : Tab → Bool
  | .sfac => s.seenS
  | .fvar => s.seenF

def St.mark (s : St) : Tab → St
  | .sfac => { s with seenS := true }
  | .fvar => { s with seenF := true }

variable {α : Type}

/-! ### model: parse -/

def contMode (l : PLine α) (m : Mode) : Mode := if l.cont then m else .top

/-- one iteration of the loop of `_parse_cards` -/
def step (s : St) (l : PLine α) : Item α × St :=
  match s.mode with
  | .objCont => (.blanked l, { s with mode := contMode l .objCont })
  | .rawCont => (.contKept l, { s with mode := contMode l .rawCont })
  | .top =>
    if l.skip then (.str l, s) else
    match l.cls with
    | .raw => (.str l, { s with mode := contMode l .rawCont })
    | .obj => (.card l, { s with mode := contMode l .objCont })
    | .atom => (.card l, { s with mode := contMode l .objCont })
    | .tab t => (if s.seen t then .absorbed t l else .table t l, { (s.mark t) with mode := contMode l .objCont })

def parseAux (s : St) : List (PLine α) → List (Item α)
  | [] => []
  | l :: rest => (step s l).1 :: parseAux (step s l).2 rest

def parse (f : List (PLine α)) : List (Item α) := parseAux {} f

/-! ### model: write -/

/-- the printers of the objects (`cards.py`, `Atom.__str__`, then `wrap_line`): physical lines printed for an
    instruction/atom object, and the groups of physical lines (one group per logical line) printed for a table -/
structure Printer (α : Type) where
  card : PLine α → List (PLine α)
  table : Tab → List α → List (List (PLine α))

def itemVals (t : Tab) : Item α → List α
  | .table t' l => if t' = t then l.vals else []
  | .absorbed t' l => if t' = t then l.vals else []
  | _ => []

/-- content of the shared table object: everything every SFAC (FVAR) line of the file added to it -/
def tableVals (t : Tab) (items : List (Item α)) : List α := items.flatMap (itemVals t)

def emit (P : Printer α) (tv : Tab → List α) : Item α → List (PLine α)
  | .str l => if l.spliced || l.empty then [] else [l]
  | .contKept l => if l.spliced then [] else [l]
  | .blanked _ => []
  | .card l => if l.spliced then [] else P.card l
  | .table t l => if l.spliced then [] else (P.table t (tv t)).flatten
  | .absorbed _ _ => []

def write (P : Printer α) (items : List (Item α)) : List (PLine α) :=
  items.flatMap (emit P (fun t => tableVals t items))

/-- `read_string` then `write_shelx_file` -/
def cycle (P : Printer α) (f : List (PLine α)) : List (PLine α) := write P (parse f)

/-! ### model: include files -/

abbrev FS (α : Type) := α → Option (List (PLine α))

def includeNames (f : List (PLine α)) : List α := f.filterMap (·.incl)

/-- `_find_included_files` before fixes/C07_1: the lines of the include file are inserted behind the `+name` line
    (an unreadable file inserts nothing) and are ordinary lines from then on -/
def spliceLineOld (fs : FS α) (l : PLine α) : List (PLine α) :=
  match l.incl with
  | some n => l :: (fs n).getD []
  | none => [l]

def spliceOld (fs : FS α) (f : List (PLine α)) : List (PLine α) := f.flatMap (spliceLineOld fs)

def markSpliced (l : PLine α) : PLine α := { l with spliced := true }

/-- the content of an include file as it is spliced in: every line is recorded as included (`_included`), and
    `+name` lines inside it are followed by the content of that file in turn (the loop of `_find_included_files`
    runs over the lines it has just inserted). `k` bounds the nesting depth; it is reached only by cyclic
    inclusion, which the code refuses (`ValueError`, see `cycleNew`). -/
def expand (fs : FS α) : Nat → List (PLine α) → List (PLine α)
  | 0, g => g.map markSpliced
  | k + 1, g => g.flatMap fun l => match l.incl with
    | some n => markSpliced l :: expand fs k ((fs n).getD [])
    | none => [markSpliced l]

def spliceLineNew (fs : FS α) (k : Nat) (l : PLine α) : List (PLine α) :=
  match l.incl with
  | some n => l :: expand fs k ((fs n).getD [])
  | none => [l]

def spliceNew (fs : FS α) (k : Nat) (f : List (PLine α)) : List (PLine α) := f.flatMap (spliceLineNew fs k)

/-- `read_file` + `write_shelx_file`; `none` is the `ValueError` raised when a file name is included twice
    (anywhere: in the file itself or in a nested include file) -/
def cycleNew [DecidableEq α] (P : Printer α) (fs : FS α) (k : Nat) (f : List (PLine α)) : Option (List (PLine α)) :=
  if (includeNames (spliceNew fs k f)).Nodup then some (cycle P (spliceNew fs k f)) else none

def cycleOld [DecidableEq α] (P : Printer α) (fs : FS α) (f : List (PLine α)) : Option (List (PLine α)) :=
  if (includeNames f).Nodup then some (cycle P (spliceOld fs f)) else none

def iterO (g : List (PLine α) → Option (List (PLine α))) : Nat → List (PLine α) → Option (List (PLine α))
  | 0, f => some f
  | n + 1, f => (g f).bind (iterO g n)

/-! ### specification -/

/-- the physical lines that start a logical line -/
def logicalHeads : Bool → List (PLine α) → List (PLine α)
  | _, [] => []
  | true, l :: rest => logicalHeads l.cont rest
  | false, l :: rest => if l.skip then logicalHeads false rest else l :: logicalHeads l.cont rest

/-- (keyword, first token); for an SFAC/FVAR line the keyword only (its first token is the first entry of the
    coalesced table) -/
def keyOf [DecidableEq α] (kw : Tab → α) (l : PLine α) : α × Option α :=
  if l.key.1 = kw .sfac ∨ l.key.1 = kw .fvar then (l.key.1, none) else (l.key.1, some l.key.2)

def keySeq [DecidableEq α] (kw : Tab → α) (f : List (PLine α)) : List (α × Option α) :=
  (logicalHeads false f).map (keyOf kw)

/-- an SFAC/FVAR line is dropped iff an earlier line has the same keyword (`kw t` = the keyword of table `t`) -/
def coalesceFrom [DecidableEq α] (kw : Tab → α) (before : List α) : List (α × Option α) → List (α × Option α)
  | [] => []
  | k :: ks =>
    if (k.1 = kw .sfac ∨ k.1 = kw .fvar) ∧ k.1 ∈ before then coalesceFrom kw (k.1 :: before) ks
    else k :: coalesceFrom kw (k.1 :: before) ks

def coalesce [DecidableEq α] (kw : Tab → α) (ks : List (α × Option α)) : List (α × Option α) := coalesceFrom kw [] ks

/-! ### number formatting (the part of the printers that is modelled in full)

`'{:.nf}'.format(x)` prints the integer `roundHalfEven (x * 10^n)` with a decimal point `n` places from the right;
reading the text back gives exactly `that integer / 10^n`. -/

def roundHalfEven (x : Rat) : Int :=
  let f := x.floor
  let r := x - f
  if r < 1/2 then f else if r > 1/2 then f + 1 else if f % 2 = 0 then f else f + 1

/-- the digits printed by fixed-precision formatting, as the scaled integer -/
def fmtFixed (n : Nat) (x : Rat) : Int := roundHalfEven (x * (10 : Rat) ^ n)

/-- value read back from the printed text -/
def readFixed (n : Nat) (k : Int) : Rat := (k : Rat) / (10 : Rat) ^ n

/-- `chunks(l, 7)` of `FVARs.__str__` -/
def chunksFuel : Nat → Nat → List α → List (List α)
  | 0, _, _ => []
  | fuel + 1, n, l => if l.isEmpty then [] else l.take (n + 1) :: chunksFuel fuel n (l.drop (n + 1))

/-- chunks of `n + 1` elements -/
def chunks (n : Nat) (l : List α) : List (List α) := chunksFuel l.length n l

/-! ### lexer (driver side, `α = String`): mirrors what `_parse_cards` looks at -/

def shxCards : List String :=
  ["TITL", "CELL", "ZERR", "LATT", "SYMM", "SFAC", "UNIT", "LIST", "L.S.", "CGLS", "BOND", "FMAP", "PLAN", "TEMP",
   "ACTA", "CONF", "SIMU", "RIGU", "WGHT", "FVAR", "DELU", "SAME", "DISP", "LAUE", "REM ", "MORE", "TIME", "END ",
   "HKLF", "OMIT", "SHEL", "BASF", "TWIN", "EXTI", "SWAT", "HOPE", "MERG", "SPEC", "RESI", "MOVE", "ANIS", "AFIX",
   "HFIX", "FRAG", "FEND", "EXYZ", "EADP", "EQIV", "CONN", "BIND", "FREE", "DFIX", "BUMP", "SADI", "CHIV", "FLAT",
   "DEFS", "ISOR", "NCSY", "SUMP", "BLOC", "DAMP", "STIR", "MPLA", "RTAB", "HTAB", "SIZE", "WPDB", "GRID", "MOLE",
   "XNPD", "REST", "CHAN", "FLAP", "RNUM", "SOCC", "PRIG", "WIGL", "RANG", "TANG", "ADDA", "STAG", "NEUT", "ABIN",
   "ANSC", "ANSR", "NOTR", "TWST", "PART", "DANG", "BEDE", "LONE", "REM", "END"]

/-- keywords whose branch always stores an object at the line's position -/
def objKeywords : List String :=
  ["RESI", "PART", "AFIX", "SADI", "DFIX", "SIMU", "DELU", "RIGU", "BASF", "HFIX", "DANG", "EADP", "CELL", "LATT",
   "SYMM", "UNIT", "L.S.", "CGLS", "ANIS", "WGHT", "ACTA", "DAMP", "ABIN", "BLOC", "BOND", "BUMP", "CHIV", "CONF",
   "CONN", "DEFS", "DISP", "EXYZ", "FLAT", "FREE", "GRID", "HKLF", "HTAB", "ISOR", "MERG", "MORE", "FMAP", "MOVE",
   "MPLA", "NCSY", "PLAN", "PRIG", "RTAB", "SAME", "SHEL", "SIZE", "STIR", "SUMP", "SWAT", "TWIN", "WIGL", "WPDB",
   "XNPD"]

/-- keywords that store an object only for a particular number of tokens: (keyword, test, n) with
    test 0: `len(spline) == n`, 1: `len(spline) > n`, 2: `len(spline) >= n` -/
def guardedKeywords : List (String × Nat × Nat) :=
  [("ZERR", 2, 8), ("BIND", 0, 3), ("FRAG", 0, 8), ("SPEC", 1, 1), ("TWST", 1, 1)]

def isBlankChar (c : Char) : Bool := c = ' ' || c = '\t' || c = '\n' || c = '\r' || c = '\x0b' || c = '\x0c'

/-- `str.split()` -/
def tokensAux : List Char → List Char → List String
  | [], cur => if cur.isEmpty then [] else [String.ofList cur.reverse]
  | c :: cs, cur =>
    if isBlankChar c then (if cur.isEmpty then tokensAux cs [] else String.ofList cur.reverse :: tokensAux cs [])
    else tokensAux cs (c :: cur)

def tokens (s : String) : List String := tokensAux s.toList []

def takeS (n : Nat) (s : String) : String := String.ofList (s.toList.take n)
def dropS (n : Nat) (s : String) : String := String.ofList (s.toList.drop n)

def beforeBang (s : String) : String := String.ofList (s.toList.takeWhile (· ≠ '!'))

/-- `float(tok) > 4.0` for a plain decimal (sign, digits, point, digits); `none`: not such a number -/
def decimalGt4 (t : String) : Option Bool :=
  let cs := t.toList
  let (neg, cs) := match cs with
    | '-' :: r => (true, r)
    | '+' :: r => (false, r)
    | r => (false, r)
  let ip := cs.takeWhile Char.isDigit
  let rest := cs.dropWhile Char.isDigit
  let fp := match rest with
    | '.' :: r => some r
    | [] => some []
    | _ => none
  match fp with
  | none => none
  | some fp =>
    if !(fp.all Char.isDigit) || (ip.isEmpty && fp.isEmpty) then none
    else if neg then some false
    else
      let iv := ip.foldl (fun a c => a * 10 + (c.toNat - '0'.toNat)) 0
      some (iv > 4 || (iv = 4 && fp.any (· ≠ '0')))

/-- `Shelxfile.is_atom` on the upper-cased, comment-free logical line -/
def isAtom (upper : String) : Bool :=
  let word := takeS 4 upper
  if shxCards.contains word then false else
  let sp := tokens upper
  if sp.length < 5 then false
  else if (sp.getD 1 "").contains '.' then false
  else if ((sp.drop 2).take 3).any (fun t => decimalGt4 t == some true) then false
  else true

/-- fate of a logical line (glued text): class, key, table values -/
def classify (glued : String) : Cls × (String × String) × List String :=
  let sp := tokens (beforeBang glued)
  let upper := beforeBang glued.toUpper
  let word := takeS 4 upper
  let first := sp.getD 1 ""
  let n := sp.length
  if word = "RESI" ∨ word = "PART" ∨ word = "AFIX" then (.obj, (word, first), [])
  else if isAtom upper then (.atom, ((sp.getD 0 ""), first), [])
  else if upper.startsWith "REM" then (.obj, ("REM", first), [])
  else if word = "SFAC" then (if n ≤ 1 then .raw else .tab .sfac, (word, first), sp.drop 1)
  else if word = "FVAR" then (if n ≤ 1 then .raw else .tab .fvar, (word, first), sp.drop 1)
  else if objKeywords.contains word then (.obj, (word, first), [])
  else match guardedKeywords.find? (·.1 = word) with
    | some (_, 0, k) => (if n = k then .obj else .raw, (word, first), [])
    | some (_, 1, k) => (if n > k then .obj else .raw, (word, first), [])
    | some (_, _, k) => (if n ≥ k then .obj else .raw, (word, first), [])
    | none => (.raw, (word, first), [])

def rstripS (s : String) : String := String.ofList (s.toList.reverse.dropWhile isBlankChar).reverse

/-- `misc.multiline_test`: the text before a `!` comment ends in `=`, and the line is not a REM line (any case)
    other than a `REM DSR PUT/REPLACE` line -/
def multilineTest (line : String) : Bool :=
  if (rstripS (beforeBang line)).toList.getLast? = some '=' then
    if (takeS 3 line).toUpper = "REM" then
      -- `dsr_regex`: ^rem\s+DSR\s+(PUT|REPLACE), case insensitive
      let t := tokens line.toUpper
      t.getD 0 "" = "REM" && t.getD 1 "" = "DSR" && ((t.getD 2 "").startsWith "PUT" || (t.getD 2 "").startsWith "REPLACE")
    else true
  else false

/-- text before the last `=` of the comment-free part (`line.split('!')[0].rpartition('=')[0]`) -/
def beforeLastEq (s : String) : String :=
  String.ofList (((beforeBang s).toList.reverse.dropWhile (· ≠ '=')).drop 1).reverse

/-- glue the logical line that starts at `head`: cut at the last `=`, append the next line, while `multiline_test` -/
def glueText (head : String) : List String → String
  | [] => head
  | nxt :: rest =>
    if multilineTest head then
      -- the test is made on the *physical* line just consumed, the cut on the text glued so far
      glueGo (beforeLastEq head ++ nxt) nxt rest
    else head
where
  glueGo (acc : String) (lastPhys : String) : List String → String
    | [] => acc
    | nxt :: rest => if multilineTest lastPhys then glueGo (beforeLastEq acc ++ nxt) nxt rest else acc

/-- the physical lines of a file as records -/
def lexFile : List String → List (PLine String)
  | [] => []
  | l :: rest =>
    let c := classify (glueText l rest)
    { text := l, indented := l.startsWith " ", empty := l = "", cont := multilineTest l,
      cls := c.1, key := c.2.1, vals := c.2.2,
      incl := if l.startsWith "+" then some (dropS 1 l) else none, spliced := false } :: lexFile rest

/-- a skeleton printer for the driver: an object prints one line that carries its key; a table prints one group.
    (What the real printers print is not modelled; order, absorption and positions do not depend on it.) -/
def skeletonPrinter (kw : Tab → String) : Printer String where
  card l := [{ l with text := "", cont := false, spliced := false }]
  table t vs := [[{ text := "", indented := false, empty := false, cont := false, cls := .tab t,
                    key := (kw t, vs.headD ""), vals := vs, incl := none, spliced := false }]]

def kwString : Tab → String
  | .sfac => "SFAC"
  | .fvar => "FVAR"

end Shelx.C07

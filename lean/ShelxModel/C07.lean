/- C07 — model and specification (stub; see HACKING.md) -/
namespace Shelx.C07

end Shelx.C07

/- C15 — model and specification (stub; see HACKING.md) -/
namespace Shelx.C15

end Shelx.C15

/-
  C15 — angles, torsion angles, named distances and the neighbour search match textbook geometry.

  Model of (generic in the number type `K`; the driver runs `K = Float`, the theorems `K = ℝ` / any field):
    Array.__sub__/dot/cross/norm/normalized/angle   (misc/dsrmath.py)  -> `V3.sub/dot/cross/normSq`, `vecAngle`
    Atoms.angle                                     (atoms/atoms.py)   -> `angleCos`, `angleModel`
    Atoms.torsion_angle                             (atoms/atoms.py)   -> `directionCode`, `torsionCos`, `torsionModel`
    OrthogonalMatrix.m * Array (Atom.parse_line)    (misc/dsrmath.py)  -> `cart`
    misc.frac_to_cart (Atom.set_atom_parameters: add_atom, grown atoms) (misc/misc.py) -> `cartAstar`, `cartVia`
    Atoms.distance -> atomic_distance(no cell)      (atoms/atoms.py)   -> `namedDistance`, `distanceVia`
    atomic_distance(cell)                           (misc/dsrmath.py)  -> `metricRadicand`, `metricDist`
    Atom.find_atoms_around                          (atoms/atom.py)    -> `findAround`
  `sqrt`, `acos`, `degrees`, `round(., 9)`, `atan2` are parameters (`Trans K`); the trigonometric values of
  the cell angles are fields of `Cell K` with their relations as hypotheses of the theorems.

  Specification (code independent): `triple`, `specTorsion` (atan2 of the two textbook quantities),
  `specAngle`, `metricForm`/`specDistance` (metric tensor), `specAround` (filter over the atom list).
-/
namespace Shelx.C15

structure V3 (K : Type) where
  x : K
  y : K
  z : K
deriving Repr, BEq

/-- the functions Python takes from `math` (and the built-in `round(., 9)`) -/
structure Trans (K : Type) where
  sqrt : K → K
  acos : K → K
  /-- `math.degrees` -/
  deg : K → K
  /-- `round(x, 9)` -/
  round9 : K → K
  /-- only used by the specification -/
  atan2 : K → K → K

section kernel
variable {K : Type} [Add K] [Sub K] [Mul K] [Div K] [Neg K] [OfNat K 0] [OfNat K 1] [OfNat K 2]

/-! ### Model: `Array` -/

/-- `Array.__sub__` -/
def V3.sub (a b : V3 K) : V3 K := ⟨a.x - b.x, a.y - b.y, a.z - b.z⟩

/-- `Array.dot`: `sum([i * j for i, j in zip(self, other)])` (Python's `sum` starts from 0) -/
def V3.dot (a b : V3 K) : K := 0 + a.x * b.x + a.y * b.y + a.z * b.z

/-- `Array.cross` -/
def V3.cross (a b : V3 K) : V3 K :=
  ⟨a.y * b.z - a.z * b.y, a.z * b.x - a.x * b.z, a.x * b.y - a.y * b.x⟩

/-- `Array.norm` (the *squared* length): `sum([n ** 2 for n in self.values])` -/
def V3.normSq (a : V3 K) : K := 0 + a.x * a.x + a.y * a.y + a.z * a.z

/-- argument of `acos` in `Array.angle` -/
def vecCos (T : Trans K) (v w : V3 K) : K := v.dot w / (T.sqrt v.normSq * T.sqrt w.normSq)

/-- `Array.angle`: `round(degrees(acos(self.dot(other) / (self.normalized() * other.normalized()))), 9)` -/
def vecAngle (T : Trans K) (v w : V3 K) : K := T.round9 (T.deg (T.acos (vecCos T v w)))

/-! ### Model: `Atoms.angle` -/

/-- `vec1 = ac2 - ac1; vec2 = ac2 - ac3`, argument of `acos` -/
def angleCos (T : Trans K) (p1 p2 p3 : V3 K) : K := vecCos T (p2.sub p1) (p2.sub p3)

def angleModel (T : Trans K) (p1 p2 p3 : V3 K) : K := vecAngle T (p2.sub p1) (p2.sub p3)

/-! ### Model: `Atoms.torsion_angle` -/

/-- the hand-expanded sign expression of `torsion_angle`, term by term, *as repaired by
    fixes/C15_1_torsion_sign.patch*:
    `v1[0]*v2[1]*v3[2] - v1[2]*v2[1]*v3[0] + v1[2]*v2[0]*v3[1] - v1[0]*v2[2]*v3[1] + v1[1]*v2[2]*v3[0] - v1[1]*v2[0]*v3[2]` -/
def directionCode (v1 v2 v3 : V3 K) : K :=
  v1.x * v2.y * v3.z - v1.z * v2.y * v3.x + v1.z * v2.x * v3.y - v1.x * v2.z * v3.y
    + v1.y * v2.z * v3.x - v1.y * v2.x * v3.z

/-- the expression as it stood before the repair: second term `v1[2] * v1[1] * v3[0]` -/
def directionTypo (v1 v2 v3 : V3 K) : K :=
  v1.x * v2.y * v3.z - v1.z * v1.y * v3.x + v1.z * v2.x * v3.y - v1.x * v2.z * v3.y
    + v1.y * v2.z * v3.x - v1.y * v2.x * v3.z

/-- `direction` of the four atoms: bond vectors `v1 = ac2 - ac1, v2 = ac3 - ac2, v3 = ac4 - ac3` -/
def direction (p1 p2 p3 p4 : V3 K) : K := directionCode (p2.sub p1) (p3.sub p2) (p4.sub p3)

/-- numerator of the `acos` argument: `a[0]*b[0] + a[1]*b[1] + a[2]*b[2]` with `a = v1 x v2`, `b = v2 x v3` -/
def torsionNum (p1 p2 p3 p4 : V3 K) : K :=
  let a := (p2.sub p1).cross (p3.sub p2)
  let b := (p3.sub p2).cross (p4.sub p3)
  a.x * b.x + a.y * b.y + a.z * b.z

/-- `a[0]*a[0] + a[1]*a[1] + a[2]*a[2]` -/
def sq3 (a : V3 K) : K := a.x * a.x + a.y * a.y + a.z * a.z

/-- the argument of `acos` in `torsion_angle` -/
def torsionCos (T : Trans K) (p1 p2 p3 p4 : V3 K) : K :=
  let a := (p2.sub p1).cross (p3.sub p2)
  let b := (p3.sub p2).cross (p4.sub p3)
  torsionNum p1 p2 p3 p4 / (T.sqrt (sq3 a) * T.sqrt (sq3 b))

/-- `max(-1.0, min(1.0, cosine))` (fixes/C15_3_torsion_planar_domain.patch) with Python's `min`/`max`:
    `min(1.0, x)` is `x` iff `x < 1.0`, `max(-1.0, y)` is `y` iff `y > -1.0` -/
def clampUnit [LT K] [∀ a b : K, Decidable (a < b)] (x : K) : K :=
  let y := if x < 1 then x else 1
  if -1 < y then y else -1

/-- `ang = acos(max(-1.0, min(1.0, cosine)))`; `return degrees(ang) if direction > 0 else degrees(-ang)` -/
def torsionModel [LT K] [∀ a b : K, Decidable (a < b)] (T : Trans K) (p1 p2 p3 p4 : V3 K) : K :=
  let ang := T.acos (clampUnit (torsionCos T p1 p2 p3 p4))
  if 0 < direction p1 p2 p3 p4 then T.deg ang else T.deg (-ang)

/-! ### Model: Cartesian coordinates, named distance, metric distance, neighbour search -/

/-- the cell as the code uses it: lengths, the cosines of the three angles, `sin γ`, and the volume `V`
    (`OrthogonalMatrix.__init__`, `atomic_distance`) -/
structure Cell (K : Type) where
  a : K
  b : K
  c : K
  ca : K
  cb : K
  cg : K
  /-- `sin β` (only `misc.frac_to_cart` uses it) -/
  sb : K
  sg : K
  v : K

/-- `OrthogonalMatrix.m * Array(frac_coords)`; the matrix rows are
    `(a, b cos γ, c cos β)`, `(0, b sin γ, c (cos α − cos β cos γ) / sin γ)`, `(0, 0, V / (a b sin γ))`
    and `Matrix * Array` is `sum([b * x for (b, x) in zip(frac, row)])` per row -/
def cart (C : Cell K) (f : V3 K) : V3 K :=
  ⟨0 + f.x * C.a + f.y * (C.b * C.cg) + f.z * (C.c * C.cb),
   0 + f.x * 0 + f.y * (C.b * C.sg) + f.z * (C.c * (C.ca - C.cb * C.cg) / C.sg),
   0 + f.x * 0 + f.y * 0 + f.z * (C.v / (C.a * C.b * C.sg))⟩

/-- `misc.frac_to_cart`, the second fractional → Cartesian route of the library (`Atom.set_atom_parameters`, i.e.
    atoms made by `Shelxfile.add_atom()` and the symmetry-generated atoms of `grow()`):
    `cosastar = (cos β cos γ − cos α) / (sin β sin γ)`, `sinastar = sqrt(1 − cosastar ** 2)`,
    `xc = a x + (b cos γ) y + (c cos β) z`, `yc = 0 + (b sin γ) y + (−c sin β cosastar) z`,
    `zc = 0 + 0 + (c sin β sinastar) z` -/
def cartAstar (T : Trans K) (C : Cell K) (f : V3 K) : V3 K :=
  let cosastar := (C.cb * C.cg - C.ca) / (C.sb * C.sg)
  let sinastar := T.sqrt (1 - cosastar * cosastar)
  ⟨C.a * f.x + (C.b * C.cg) * f.y + (C.c * C.cb) * f.z,
   0 + (C.b * C.sg) * f.y + (-C.c * C.sb * cosastar) * f.z,
   0 + 0 + (C.c * C.sb * sinastar) * f.z⟩

/-- the Cartesian coordinates an atom carries, by the way it entered the model: parsed from the file text or moved
    with the `frac_coords` setter (`added = false`: orthogonal matrix), or made by `set_atom_parameters`
    (`added = true`: `misc.frac_to_cart`) -/
def cartVia (T : Trans K) (C : Cell K) (added : Bool) (f : V3 K) : V3 K :=
  if added then cartAstar T C f else cart C f

/-- `atomic_distance(p1, p2)` without a cell: `sqrt(dx ** 2 + dy ** 2 + dz ** 2)` -/
def euclid (T : Trans K) (p q : V3 K) : K :=
  let d := p.sub q
  T.sqrt (d.x * d.x + d.y * d.y + d.z * d.z)

/-- `Atoms.distance`: `atomic_distance` of the two atoms' stored Cartesian coordinates -/
def namedDistance (T : Trans K) (C : Cell K) (f1 f2 : V3 K) : K := euclid T (cart C f1) (cart C f2)

/-- `Atoms.distance` of two atoms that entered the model in the given ways -/
def distanceVia (T : Trans K) (C : Cell K) (r1 r2 : Bool) (f1 f2 : V3 K) : K :=
  euclid T (cartVia T C r1 f1) (cartVia T C r2 f2)

/-- the radicand of `atomic_distance(p1, p2, cell)`:
    `(a dx)**2 + (b dy)**2 + (c dz)**2 + 2 b c cos(al) dy dz + 2 dx dz a c cos(be) + 2 dx dy a b cos(ga)` -/
def metricRadicand (C : Cell K) (f1 f2 : V3 K) : K :=
  let d := f1.sub f2
  (C.a * d.x) * (C.a * d.x) + (C.b * d.y) * (C.b * d.y) + (C.c * d.z) * (C.c * d.z)
    + 2 * C.b * C.c * C.ca * d.y * d.z + 2 * d.x * d.z * C.a * C.c * C.cb + 2 * d.x * d.y * C.a * C.b * C.cg

def metricDist (T : Trans K) (C : Cell K) (f1 f2 : V3 K) : K := T.sqrt (metricRadicand C f1 f2)

/-- what `find_atoms_around` reads of an atom -/
structure AtomN (K : Type) where
  frac : V3 K
  part : Int
  qpeak : Bool

/-- the loop of `find_atoms_around(dist, only_part)` of the atom at position `i`, as repaired by
    fixes/C15_2_neighbour_self_identity.patch (`at is not self`); returns positions in `shx.atoms` -/
def findAroundLoop [LT K] [∀ a b : K, Decidable (a < b)] (T : Trans K) (C : Cell K) (self : AtomN K) (i : Nat)
    (dist : K) (onlyPart : Int) : List (AtomN K) → Nat → List Nat
  | [], _ => []
  | at_ :: rest, j =>
    if metricDist T C self.frac at_.frac < dist ∧ i ≠ j ∧ at_.part = onlyPart ∧ at_.qpeak = false
    then j :: findAroundLoop T C self i dist onlyPart rest (j + 1)
    else findAroundLoop T C self i dist onlyPart rest (j + 1)

/-- `none` is the IndexError of asking for an atom that is not there (never reached by the harness) -/
def findAround [LT K] [∀ a b : K, Decidable (a < b)] (T : Trans K) (C : Cell K) (atoms : List (AtomN K)) (i : Nat)
    (dist : K) (onlyPart : Int) : Option (List Nat) :=
  match atoms[i]? with
  | none => none
  | some self => some (findAroundLoop T C self i dist onlyPart atoms 0)

/-! ### Specification -/

/-- scalar triple product `v1 · (v2 × v3)` -/
def triple (v1 v2 v3 : V3 K) : K :=
  v1.x * (v2.y * v3.z - v2.z * v3.y) + v1.y * (v2.z * v3.x - v2.x * v3.z) + v1.z * (v2.x * v3.y - v2.y * v3.x)

def sdot (a b : V3 K) : K := a.x * b.x + a.y * b.y + a.z * b.z

/-- Textbook (IUPAC / Giacovazzo) torsion angle of A–B–C–D with bond vectors `b1 = B − A, b2 = C − B, b3 = D − C`:
    the angle `φ ∈ (−π, π]` with `cos φ ∝ (b1×b2)·(b2×b3)` and `sin φ ∝ |b2| · b1·(b2×b3)`; it is positive iff the
    triple product is, i.e. iff the rotation that carries the projection of B→A onto that of C→D, seen looking
    from B towards C, is clockwise (see `torsion_canonical` in ShelxProps/C15.lean). -/
def specTorsionY (T : Trans K) (p1 p2 p3 p4 : V3 K) : K :=
  let b2 := p3.sub p2
  T.sqrt (sdot b2 b2) * triple (p2.sub p1) b2 (p4.sub p3)

def specTorsionX (p1 p2 p3 p4 : V3 K) : K :=
  sdot ((p2.sub p1).cross (p3.sub p2)) ((p3.sub p2).cross (p4.sub p3))

def specTorsion (T : Trans K) (p1 p2 p3 p4 : V3 K) : K :=
  T.deg (T.atan2 (specTorsionY T p1 p2 p3 p4) (specTorsionX p1 p2 p3 p4))

/-- angle at `p2` between the directions to `p1` and `p3`: `atan2(|u × w|, u · w)` -/
def specAngle (T : Trans K) (p1 p2 p3 : V3 K) : K :=
  let u := p1.sub p2
  let w := p3.sub p2
  let n := u.cross w
  T.deg (T.atan2 (T.sqrt (sdot n n)) (sdot u w))

/-- metric tensor form `dᵀ G d`, `G = [[a², ab cos γ, ac cos β], [., b², bc cos α], [., ., c²]]` -/
def metricForm (C : Cell K) (d : V3 K) : K :=
  C.a * C.a * (d.x * d.x) + C.b * C.b * (d.y * d.y) + C.c * C.c * (d.z * d.z)
    + 2 * (C.a * C.b * C.cg) * (d.x * d.y) + 2 * (C.a * C.c * C.cb) * (d.x * d.z) + 2 * (C.b * C.c * C.ca) * (d.y * d.z)

/-- distance of two sites of a crystal: `sqrt(Δᵀ G Δ)` -/
def specDistance (T : Trans K) (C : Cell K) (f1 f2 : V3 K) : K := T.sqrt (metricForm C (f1.sub f2))

end kernel

/-- positions `j` of `l` (counted from `k`) whose element satisfies `p j a` -/
def filterIdx {α : Type} (p : Nat → α → Bool) : List α → Nat → List Nat
  | [], _ => []
  | a :: rest, k => if p k a then k :: filterIdx p rest (k + 1) else filterIdx p rest (k + 1)

/-- the neighbours of atom `i`: every *other* atom (by position) that is no Q-peak, belongs to the requested
    PART and lies closer than `dist` (textbook distance) -/
def specAround {K : Type} [Add K] [Sub K] [Mul K] [OfNat K 2] [LT K] [∀ a b : K, Decidable (a < b)]
    (T : Trans K) (C : Cell K) (atoms : List (AtomN K)) (i : Nat) (dist : K) (part : Int) : Option (List Nat) :=
  (atoms[i]?).map fun self =>
    filterIdx (fun j a => decide (j ≠ i) && !a.qpeak && decide (a.part = part)
      && decide (specDistance T C self.frac a.frac < dist)) atoms 0

end Shelx.C15

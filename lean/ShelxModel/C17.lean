/-
  C17 — restraint diagnostics name exactly the atoms that do not exist.

  Text is `List Char` (`Str`). Two groups of definitions:

  MODEL  mirrors the Python string logic, statement by statement
         cards.py   Restraint._parse_line (class carried by the keyword), Residue.residue_number,
                    Residues.append / residue_classes / residue_numbers
         atoms.py   Atoms.atomsdict (keys `NAME_RESINUM` in upper case), get_atom_by_name
         shelx.py   _assign_atoms_to_restraints, does_atom_exist
         It mirrors the code WITH the repairs fixes/C17_1..5 applied; `Legacy` (end of the file) mirrors
         the code as it was before them, and ShelxProps/C17.lean keeps a `decide` witness per difference.
         `printed` is the step from `bad_atoms` to the names in the message (`sorted(set(bad_atoms))`).
         `restrOf` / `assignLines` start one step earlier, at the PHYSICAL lines of the file: the continuation loop
         and the split of `_parse_cards` (model: ShelxModel/C05.lean `modelLogicalLines`, `classify`), then
         `Restraint.__init__` (first token = keyword, non-numerical rest = atoms).

  SPEC   what the property says, on parsed data: a token is (NAME, suffix kind); a restraint addresses a list
         of residue numbers per token; `missing` lists the (NAME, residue) pairs that are addressed and do not
         exist. No string is formatted, split or looked up in a dictionary on this side.
-/
import ShelxModel.C05

namespace Shelx.C17

abbrev Str := List Char

/-! ## shared text helpers (Python built-ins, ASCII) -/

/-- `str.upper()` (ASCII) -/
def upper (s : Str) : Str := s.map Char.toUpper

/-- `str(n)` for a non-negative int -/
def natStr (n : Nat) : Str := Nat.toDigits 10 n

/-- `str.isdigit()` (ASCII digits; false for the empty string) -/
def isDigitStr (s : Str) : Bool := !s.isEmpty && s.all Char.isDigit

/-- `int(s)` for a digit string -/
def toNat (s : Str) : Nat := Nat.ofDigitChars 10 s 0

/-- `s.split(c)` as (first part, remaining parts): Python's result is never empty -/
def splitOn (c : Char) : Str → Str × List Str
  | [] => ([], [])
  | x :: xs =>
    let r := splitOn c xs
    if x = c then ([], r.1 :: r.2) else (x :: r.1, r.2)

/-- `parts[-1]` -/
def lastPart : Str × List Str → Str
  | (a, []) => a
  | (_, b :: bs) => lastPart (b, bs)

/-- dict keys in first-insertion order -/
def dedup : List Nat → List Nat
  | [] => []
  | x :: xs => x :: (dedup xs).filter (· != x)

/-! ## data -/

/-- an atom of the file: name as written (≤ 4 characters), `Atom.resinum` -/
structure AtomE where
  name : Str
  resi : Nat
deriving Repr, DecidableEq

/-- one RESI card that was registered (`residue_number > 0`): class as `RESI.residue_class` holds it, number -/
structure ResiE where
  cls : Str
  num : Nat
deriving Repr, DecidableEq

/-- `cache` is `Atoms._atomsdict` (its keys): `[]` = empty dict = "rebuild on the next look-up" -/
structure File where
  atoms : List AtomE
  resis : List ResiE
  cache : List Str := []
deriving Repr

/-- a restraint: `spline[0]` as written, and the non-numeric tokens (`Restraint.atoms`) -/
structure Restr where
  kw : Str
  atoms : List Str
deriving Repr

inductive PyErr | valueError
deriving Repr, DecidableEq

/-! ## MODEL -/

/-- `Residues.residue_classes[cls]` if the key exists (`Residues.append` files a class under its upper-case
    spelling — fix C17_3) -/
def classNumbers (f : File) (cls : Str) : Option (List Nat) :=
  match (f.resis.filter fun r => upper r.cls == cls).map (·.num) with
  | [] => none
  | l => some l

/-- `Residues.residue_numbers.keys()` -/
def residueNumbers (f : File) : List Nat := dedup (f.resis.map (·.num))

/-- `Restraint._parse_line`: `self.residue_class` (default `''`). `name, suffix = spline[0].upper().split('_')`
    raises ValueError for more than one underscore. -/
def kwClass (kw : Str) : Except PyErr Str :=
  if '_' ∈ kw then
    match splitOn '_' (upper kw) with
    | (_, [suffix]) =>
      match suffix with
      | c :: _ => if c.isAlpha then .ok suffix else .ok []       -- re.match(r'[a-zA-Z]', suffix)
      | [] => .ok []
    | _ => .error .valueError
  else .ok []

/-- `Residue.residue_number` (with fix C17_2: `_*` gives the numbers of all residues) -/
def kwNumbers (f : File) (kw cls : Str) : Except PyErr (List Nat) :=
  let byClass : List Nat := match classNumbers f cls with | some l => l | none => [0]   -- residue_classes.get(cls, [0])
  if '_' ∈ kw ∧ '$' ∉ kw then
    match splitOn '_' (upper kw) with
    | (_, [suffix]) =>
      if suffix = ['*'] then .ok (residueNumbers f)
      else if isDigitStr suffix then .ok [toNat suffix]
      else .ok byClass
    | _ => .error .valueError
  else .ok byClass

/-- key of `Atoms.atomsdict`: `atom.fullname.upper()` -/
def atomKey (a : AtomE) : Str := upper (a.name ++ '_' :: natStr a.resi)

/-- keys of `Atoms.atomsdict`: `if not self._atomsdict: self._atomsdict = dict(...)`; `return self._atomsdict` -/
def index (f : File) : List Str := if f.cache = [] then f.atoms.map atomKey else f.cache

/-- truthiness of `Atoms.get_atom_by_name(name)` -/
def getAtomByName (f : File) (name : Str) : Bool :=
  if '_' ∈ name then (index f).contains (upper name)
  else if name = ['>'] ∨ name = ['<'] then false
  else (index f).contains (upper (name ++ ['_', '0']))

/-- `Shelxfile.does_atom_exist(atom_name, bad_atoms, restraint_atom)`: what it appends to `bad_atoms` -/
def doesAtomExist (f : File) (atomName report : Str) : List Str :=
  let parts := splitOn '_' atomName
  let wildcard := decide ('_' ∈ atomName) && (lastPart parts == ['*'])
  if atomName.head? = some '$' then []
  else if wildcard then
    (residueNumbers f).filterMap fun num =>
      let residueAtom := parts.1 ++ '_' :: natStr num
      if getAtomByName f residueAtom then none else some residueAtom
  else if getAtomByName f atomName then [] else [report]

/-- body of the loop over `restraint.atoms` for one token, given `class_without_residues` and
    `restraint.residue_number` -/
def checkToken (f : File) (classWithout : Bool) (nums : List Nat) (tok : Str) : List Str :=
  if tok = ['>'] ∨ tok = ['<'] ∨ tok = ['='] ∨ '$' ∈ tok then []            -- `continue` (fix C17_1: `'$' in`)
  else if classWithout = true ∧ '_' ∉ tok then []                             -- `continue` (fix C17_4)
  else if nums ≠ [0] ∧ '_' ∉ tok then                                         -- (fix C17_2: was `class or sum > 0`)
    nums.flatMap fun n => doesAtomExist f (tok ++ '_' :: natStr n) (tok ++ '_' :: natStr n)
  else if '_' ∈ tok then doesAtomExist f tok tok
  else doesAtomExist f (tok ++ ['_', '0']) tok

structure Outcome where
  bad : List Str          -- `bad_atoms` before `set()`/sort
  classMsg : Bool         -- "has a residue class, but no residues are defined"
deriving Repr, DecidableEq

/-- one pass of the loop of `_assign_atoms_to_restraints` for restraint `r`, with the name index as it is -/
def evaluate (f : File) (r : Restr) : Except PyErr Outcome := do
  let cls ← kwClass r.kw
  let nums ← kwNumbers f r.kw cls
  let classWithout := cls ≠ [] && nums.sum == 0          -- bool(residue_class) and sum(residue_number) == 0
  return { bad := r.atoms.flatMap (checkToken f classWithout nums), classMsg := classWithout }

/-- `_assign_atoms_to_restraints` for restraint `r`: `self.atoms._atomsdict.clear()` first (fix C17_5), then the loop -/
def assign (f : File) (r : Restr) : Except PyErr Outcome := evaluate { f with cache := [] } r

/-! ### from `bad_atoms` to the message: `sorted_atoms = list(set(bad_atoms)); sorted_atoms.sort()` -/

/-- `a < b` for `str` (ASCII): lexicographic by code point -/
def strLt : Str → Str → Bool
  | [], [] => false
  | [], _ :: _ => true
  | _ :: _, [] => false
  | a :: as, b :: bs => if a.toNat < b.toNat then true else if a = b then strLt as bs else false

/-- put `s` into a sorted list that has no duplicates -/
def insertSorted (s : Str) : List Str → List Str
  | [] => [s]
  | x :: xs => if s = x then x :: xs else if strLt s x then s :: x :: xs else x :: insertSorted s xs

/-- `sorted(set(bad_atoms))`: the names that stand after 'Atom list has no -->' -/
def printed (bad : List Str) : List Str := bad.foldr insertSorted []

/-- does the restraint produce any line in `restraint_errors`? -/
def Outcome.anyMessage (o : Outcome) : Bool := !o.bad.isEmpty || o.classMsg

/-! ## reading a reported name back (used by the harness on the implementation's message and by the theorems) -/

/-- text before the first `_` -/
def beforeUS (s : Str) : Str := s.takeWhile (· != '_')

/-- text after the first `_`, if there is one -/
def afterUS (s : Str) : Option Str :=
  match s.dropWhile (· != '_') with
  | [] => none
  | _ :: t => some t

/-- a reported name `C1`, `C1_3` denotes (NAME, residue); no suffix means residue 0 -/
def parseReport (s : Str) : Str × Nat :=
  (upper (beforeUS s), match afterUS s with | none => 0 | some d => toNat d)

def reported (o : Outcome) : List (Str × Nat) := o.bad.map parseReport

/-- the (NAME, residue) pairs the message names: the printed names read back -/
def named (o : Outcome) : List (Str × Nat) := (printed o.bad).map parseReport

/-! ## SPEC -/

inductive Sfx
  | none                -- no suffix
  | num (n : Nat)       -- `_12`
  | star                -- `_*`
  | cls (c : Str)       -- `_CCF3`, keyword only
  | other               -- `_$1` and anything else
deriving Repr, DecidableEq

def classify (sfx : Option Str) : Sfx :=
  match sfx with
  | .none => .none
  | some [] => .other
  | some (c :: cs) =>
    if c :: cs = ['*'] then .star
    else if isDigitStr (c :: cs) then .num (toNat (c :: cs))
    else if c.isAlpha then .cls (c :: cs)
    else .other

def tokSfx (tok : Str) : Sfx := classify (afterUS tok)

/-- SHELXL does not distinguish case: the keyword and the class it carries are read in upper case -/
def kwSfx (kw : Str) : Sfx := classify (afterUS (upper kw))

/-- all residues a RESI card defines -/
def allResidues (f : File) : List Nat := f.resis.map (·.num)

/-- residues of class `c` (given in upper case); the class of a residue is compared in upper case -/
def residuesOfClass (f : File) (c : Str) : List Nat :=
  (f.resis.filter fun r => upper r.cls == c).map (·.num)

/-- element wildcards `$C`, symmetry equivalents `C1_$1` (anything with `$`) and the operators are not names -/
def addressable (tok : Str) : Bool :=
  !(tok.contains '$') && tok != ['<'] && tok != ['>'] && tok != ['=']

/-- the residues the keyword addresses -/
def kwAddressed (f : File) (kw : Str) : List Nat :=
  match kwSfx kw with
  | .none => [0]
  | .num n => [n]
  | .star => allResidues f
  | .cls c => residuesOfClass f c
  | .other => []

/-- the residue numbers in which token `tok` of restraint `r` has to exist -/
def addressed (f : File) (r : Restr) (tok : Str) : List Nat :=
  match tokSfx tok with
  | .num n => [n]
  | .star => allResidues f
  | .none => kwAddressed f r.kw
  | _ => []

/-- the keyword names a class that no residue has (then the class message is the diagnostic) -/
def classUnknown (f : File) (r : Restr) : Bool :=
  match kwSfx r.kw with
  | .cls c => (residuesOfClass f c).isEmpty
  | _ => false

def atomExists (f : File) (name : Str) (n : Nat) : Bool :=
  f.atoms.any fun a => upper a.name == name && a.resi == n

def missing (f : File) (r : Restr) : List (Str × Nat) :=
  r.atoms.flatMap fun tok =>
    if addressable tok then
      ((addressed f r tok).filter fun n => !atomExists f (upper (beforeUS tok)) n).map fun n => (upper (beforeUS tok), n)
    else []

/-! ## the domain of the theorems (decidable) -/

/-- atom names of the file carry no underscore (they are ≤ 4 characters cut from the atom line); what the
    registry holds comes from RESI cards with a number > 0, and the class slot is never empty (a card without
    class is filed under its own first word, `RESI`) -/
def wfFile (f : File) : Bool :=
  (f.atoms.all fun a => !(a.name.contains '_')) && (f.resis.all fun r => r.num > 0 && r.cls != [])

/-- the cached name index is empty or agrees with the atom list (what every edit of the atom list has to keep
    for `get_atom_by_name`; the restraint check no longer depends on it: fix C17_5) -/
def coherent (f : File) : Bool := f.cache == [] || f.cache == f.atoms.map atomKey

/-- the keyword has no `$` and at most one `_`; what follows is `*`, a number or a class name (starts with a letter) -/
def wfKw (kw : Str) : Bool :=
  !(kw.contains '$') &&
  match afterUS (upper kw) with
  | none => true
  | some s => !(s.contains '_') && (s == ['*'] || isDigitStr s || (match s with | c :: _ => c.isAlpha | [] => false))

/-- a token is an operator, carries `$`, is a bare name, or is `NAME_*` / `NAME_n` with `n` written the way
    `str(int)` writes it (no leading zeros: `C1_01` is excluded, see `noncanonical_number_reported`) -/
def wfTok (tok : Str) : Bool :=
  !(addressable tok) ||
  (match afterUS tok with
   | none => true
   | some s => !(s.contains '_') && (s == ['*'] || (isDigitStr s && natStr (toNat s) == s)))

def WellFormed (f : File) (r : Restr) : Prop :=
  wfFile f = true ∧ wfKw r.kw = true ∧ ∀ t ∈ r.atoms, wfTok t = true

instance (f : File) (r : Restr) : Decidable (WellFormed f r) := by unfold WellFormed; infer_instance

/-! ## histories: edits of the atom list between two evaluations of the diagnostics

  atoms.py  Atoms.__delitem__ (`del shx.atoms[atomid]`), atom.py Atom.delete, Atom.name setter, shelx.py add_atom: each
  changes `all_atoms` and empties `_atomsdict`. Assigning `atom.resi = RESI(...)` (there is no API to move an atom to
  another residue) changes `Atom.resinum` and leaves `_atomsdict` alone. -/

inductive Op
  | delItem (i : Nat)                 -- del shx.atoms[shx.atoms.all_atoms[i].atomid]
  | delete (i : Nat)                  -- shx.atoms.all_atoms[i].delete()
  | rename (i : Nat) (name : Str)     -- shx.atoms.all_atoms[i].name = name
  | add (name : Str)                  -- shx.add_atom(name=name, ...): a new atom in residue 0
  | setResi (i : Nat) (n : Nat)       -- shx.atoms.all_atoms[i].resi = RESI(shx, ['RESI', str(n)])   (plain attribute)
  | check                             -- _assign_atoms_to_restraints() and a look-up: the index is rebuilt
  | lookup                            -- get_atom_by_name(...): builds the index if it is empty
deriving Repr, DecidableEq

/-- `Atom.name` setter refuses `X_12` ("Illegal atom name") -/
def illegalName (nm : Str) : Bool := decide ('_' ∈ nm) && isDigitStr (lastPart (splitOn '_' nm))

def step (f : File) : Op → File
  | .delItem i => { f with atoms := f.atoms.eraseIdx i, cache := [] }
  | .delete i => { f with atoms := f.atoms.eraseIdx i, cache := [] }
  | .rename i nm =>
    if illegalName nm then f
    else { f with atoms := f.atoms.modify i (fun a => { a with name := nm }), cache := [] }
  | .add nm => { f with atoms := f.atoms ++ [{ name := nm, resi := 0 }], cache := [] }
  | .setResi i n => { f with atoms := f.atoms.modify i (fun a => { a with resi := n }) }
  | .check => { f with cache := f.atoms.map atomKey }     -- emptied, then rebuilt by the first look-up
  | .lookup => { f with cache := index f }

def run (f : File) (ops : List Op) : File := ops.foldl step f

/-- the edit empties the cached index (every op of the API does; the attribute assignment does not) -/
def Op.keepsIndex : Op → Bool
  | .setResi _ _ => false
  | _ => true

/-! ## from the physical lines of the file to the restraint

  shelx.py `_parse_cards`: the continuation loop glues the physical lines of a wrapped instruction
  (`line.split('!')[0].rpartition('=')[0] + next line`), `spline = line.split('!')[0].split()`; cards.py
  `Restraint.__init__` / `_parse_line`: `spline[0]` is the keyword, of `spline[1:]` the tokens that are not numbers
  (`my_isnumeric`) are `Restraint.atoms`. Which tokens are numbers is a parameter here (`isNum`): the theorems hold
  for every such predicate. -/

/-- `Restraint.__init__` on the split logical line -/
def restrOf (isNum : Str → Bool) : List Str → Option Restr
  | [] => none
  | kw :: rest => some { kw := kw, atoms := rest.filter fun t => !isNum t }

/-- MODEL: the logical lines as the continuation loop of `_parse_cards` glues them, logical line `i` split and made a
    restraint, the restraint evaluated. `none`: the loop raised, there is no such line, or the line is empty. -/
def assignLines (isNum : Str → Bool) (f : File) (lines : List C05.Line) (i : Nat) : Option (Except PyErr Outcome) :=
  match C05.modelLogicalLines lines with
  | .error _ => none
  | .ok ls =>
    match ls[i]? with
    | none => none
    | some g => (restrOf isNum (C05.classify g.2).spline).map (assign f)

/-- SPEC: the restraint that logical line `i` of the file denotes — the layout is read by its specification `C05.norm`
    (comment = everything from the first `!`; `=` as last non-blank character of the rest marks a wrapped line; the
    tokens of the continuation lines follow those of the line before) -/
def restrOfLines (isNum : Str → Bool) (lines : List C05.Line) (i : Nat) : Option Restr :=
  match C05.norm lines with
  | none => none
  | some n =>
    match n[i]? with
    | none => none
    | some toks => restrOf isNum toks

/-! ## Legacy: the code before fixes/C17_1..4 (kept for the `decide` witnesses) -/
namespace Legacy

/-- `residue_classes.get(cls)`: classes filed as written on the RESI card -/
def classNumbers (f : File) (cls : Str) : Option (List Nat) :=
  match (f.resis.filter fun r => r.cls == cls).map (·.num) with
  | [] => none
  | l => some l

/-- `Residue.residue_number`: the `'*' in suffix` test sits under `suffix.isdigit()` and is dead; an unknown
    class (and `''`) falls back to `[0]` -/
def kwNumbers (f : File) (kw cls : Str) : Except PyErr (List Nat) :=
  let byClass : List Nat := match classNumbers f cls with | some l => l | none => [0]
  if '_' ∈ kw ∧ '$' ∉ kw then
    match splitOn '_' (upper kw) with
    | (_, [suffix]) => if isDigitStr suffix then .ok [toNat suffix] else .ok byClass
    | _ => .error .valueError
  else .ok byClass

def checkToken (f : File) (cls : Str) (nums : List Nat) (tok : Str) : List Str :=
  if tok = ['>'] ∨ tok = ['<'] ∨ tok = ['='] then []
  else if (cls ≠ [] ∨ nums.sum > 0) ∧ '_' ∉ tok then
    nums.flatMap fun n => doesAtomExist f (tok ++ '_' :: natStr n) (tok ++ '_' :: natStr n)
  else if '_' ∈ tok then doesAtomExist f tok tok
  else doesAtomExist f (tok ++ ['_', '0']) tok

def assign (f : File) (r : Restr) : Except PyErr Outcome := do
  let cls ← kwClass r.kw
  let nums ← kwNumbers f r.kw cls
  return { bad := r.atoms.flatMap (checkToken f cls nums), classMsg := cls ≠ [] && nums.sum == 0 }

end Legacy

end Shelx.C17

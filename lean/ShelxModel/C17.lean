/- C17 — model and specification (stub; see HACKING.md) -/
namespace Shelx.C17

end Shelx.C17

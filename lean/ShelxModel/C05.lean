/- C05 — model and specification (stub; see HACKING.md) -/
namespace Shelx.C05

end Shelx.C05

/-
  C05 — parsing depends on instruction content only, not on layout, comments or case.

  MODEL  (mirrors shelx.py `_parse_cards` 362-392 and misc.py `multiline_test`): the text of a file is a
  list of physical lines (`_reslist` after `splitlines`), every line a `List Char`.  `run` is the for-loop
  with the inner `while multiline` loop as a state machine (`some cur` = inside the while loop); consumed
  lines are blanked in Python and then skipped as `''`, here they are simply not visited again.  Reading
  `_reslist[line_num + wrapindex]` past the end is the `IndexError` value.  `run` is parametric in the
  continuation test and in the cut that is applied to the accumulated text, so that both the REPAIRED code
  (`mtNew`, `cutNew`; fixes/C05_1, C05_2) and the code as it was (`mtOld`, `cutOld`) are instances.

  SPEC  (`norm`): written on the token level and without gluing characters: every physical line has
  tokens; a line is continued iff the last non-blank character before any `!` comment is `=`; a logical
  line is the concatenation of the token lists of its physical lines; a continuation line has to be
  indented; lines that start with a blank (or are empty) between instructions are ignored; the first token
  of a non-indented line is a keyword (or atom name) and is case-insensitive.  `none` = not a valid layout.
-/
namespace Shelx.C05

abbrev Line := List Char
abbrev Token := List Char

inductive PyErr | indexError
  deriving DecidableEq, Repr

/-! ### shared leaf functions (CPython `str` methods on ASCII text) -/

/-- white space as `str.split()` / `str.rstrip()` / `\s` see it (ASCII part) -/
def ws (c : Char) : Bool :=
  c == ' ' || c == '\t' || c == '\n' || c == '\r' || c == '\x0b' || c == '\x0c' ||
  c == '\x1c' || c == '\x1d' || c == '\x1e' || c == '\x1f'

def allWs (l : List Char) : Bool := l.all ws

/-- the next character (or the end of the text) ends a token -/
def startsWs : List Char → Bool
  | [] => true
  | d :: _ => ws d

def consTok (c : Char) : List Token → List Token
  | [] => [[c]]
  | t :: ts => (c :: t) :: ts

/-- `s.split()` -/
def split : List Char → List Token
  | [] => []
  | c :: cs =>
    if ws c then split cs
    else if startsWs cs then [c] :: split cs
    else consTok c (split cs)

/-- `s.split('!')[0]` -/
def stripComment (l : Line) : Line := l.takeWhile (· != '!')

def upper (l : List Char) : List Char := l.map Char.toUpper

def upperHead : List Token → List Token
  | [] => []
  | t :: ts => upper t :: ts

/-- `line.startswith(' ')` -/
def indented : Line → Bool
  | ' ' :: _ => true
  | _ => false

/-- `line.startswith(' ') or line == ''` (shelx.py:366) -/
def skip (l : Line) : Bool := indented l || l.isEmpty

/-- `dsr_regex = ^rem\s+DSR\s+(PUT|REPLACE).*`, IGNORECASE, `re.match` -/
def dropWs1 : Line → Option Line
  | c :: cs => if ws c then some (cs.dropWhile ws) else none
  | [] => none

def stripPrefix (p l : Line) : Option Line := if p.isPrefixOf l then some (l.drop p.length) else none

def dsrMatch (l : Line) : Bool :=
  match stripPrefix "REM".toList (upper l) >>= dropWs1 >>= stripPrefix "DSR".toList >>= dropWs1 with
  | some r => "PUT".toList.isPrefixOf r || "REPLACE".toList.isPrefixOf r
  | none => false

/-- a REM line that is free text (no DSR command): never continued. Keyword compared case-insensitively. -/
def plainRem (l : Line) : Bool := upper (l.take 3) == "REM".toList && !dsrMatch l

/-! ### model -/

/-- `s.rstrip()` -/
def rstrip (l : List Char) : List Char := (l.reverse.dropWhile ws).reverse

/-- `s.endswith('=')` -/
def endsWithEq (l : List Char) : Bool := l.getLast? == some '='

/-- `s.rpartition('=')[0]` (empty when there is no '=') -/
def beforeLastEq : List Char → List Char
  | [] => []
  | c :: cs => if cs.contains '=' then c :: beforeLastEq cs else []

/-- `multiline_test` after fixes/C05_1 + C05_2:
    `line.split('!')[0].rstrip().endswith('=')`, REM exemption with `line[:3].upper() == 'REM'` -/
def mtNew (l : Line) : Bool := endsWithEq (rstrip (stripComment l)) && !plainRem l

/-- the text that is kept of the accumulated line when the next line is glued on (shelx.py:380 after
    fixes/C05_1): `line.split('!')[0].rpartition('=')[0]` -/
def cutNew (cur : Line) : Line := beforeLastEq (stripComment cur)

/-- `multiline_test` as it was: `line.rfind('=') > -1`, REM exemption with `line.startswith("REM")` -/
def mtOld (l : Line) : Bool := l.contains '=' && !(l.take 3 == "REM".toList && !dsrMatch l)

/-- `line.rpartition('=')[0]` as it was -/
def cutOld (cur : Line) : Line := beforeLastEq cur

/-- the for loop of `_parse_cards` with the inner while loop; output: (index of the first physical line,
    glued text) per logical line -/
def run (mt : Line → Bool) (cut : Line → Line) :
    Nat → Option (Nat × Line) → List Line → Except PyErr (List (Nat × Line))
  | _, none, [] => .ok []
  | _, some _, [] => .error .indexError
  | i, none, l :: rest =>
    if skip l then run mt cut (i + 1) none rest
    else if mt l then run mt cut (i + 1) (some (i, l)) rest
    else match run mt cut (i + 1) none rest with
      | .ok t => .ok ((i, l) :: t)
      | .error e => .error e
  | i, some (s, cur), nxt :: rest =>
    if mt nxt then run mt cut (i + 1) (some (s, cut cur ++ nxt)) rest
    else match run mt cut (i + 1) none rest with
      | .ok t => .ok ((s, cut cur ++ nxt) :: t)
      | .error e => .error e

def modelLogicalLines (f : List Line) : Except PyErr (List (Nat × Line)) := run mtNew cutNew 0 none f
def modelLogicalLinesOld (f : List Line) : Except PyErr (List (Nat × Line)) := run mtOld cutOld 0 none f

/-- shelx.py:389-392: `spline = line.split('!')[0].split()`, `line = line.upper().split('!')[0]`, `word = line[:4]` -/
structure Classified where
  word : List Char
  spline : List Token
  deriving DecidableEq, Repr

def classify (g : Line) : Classified :=
  { word := (stripComment (upper g)).take 4, spline := split (stripComment g) }

/-- what the rest of the parser gets to see of a logical line, keyword case removed -/
def tokensOf (g : Line) : List Token := upperHead (classify g).spline

def mapOk {α β} (f : α → β) : Except PyErr (List α) → Except PyErr (List β)
  | .ok l => .ok (l.map f)
  | .error e => .error e

def modelTokens (f : List Line) : Except PyErr (List (List Token)) :=
  mapOk (fun p => tokensOf p.2) (modelLogicalLines f)
def modelTokensOld (f : List Line) : Except PyErr (List (List Token)) :=
  mapOk (fun p => tokensOf p.2) (modelLogicalLinesOld f)

/-! ### specification -/

/-- the part of a physical line that is not comment -/
def content (l : Line) : Line := stripComment l

/-- the last non-blank character is the continuation marker `=` -/
def trailingEq : List Char → Bool
  | [] => false
  | c :: cs => if c == '=' && allWs cs then true else trailingEq cs

/-- the text in front of the continuation marker (all of it when there is none) -/
def body : List Char → List Char
  | [] => []
  | c :: cs => if c == '=' && allWs cs then [] else c :: body cs

def isContLine (l : Line) : Bool := trailingEq (content l) && !plainRem l

/-- tokens of one physical line: marker removed, keyword (first token of a non-indented line) upper-cased -/
def ptoks (l : Line) : List Token :=
  let t := split (if isContLine l then body (content l) else content l)
  if indented l then t else upperHead t

def normAux : Option (List Token) → List Line → Option (List (List Token))
  | none, [] => some []
  | some _, [] => none                                   -- continuation marker on the last line
  | none, l :: rest =>
    if skip l then normAux none rest
    else if isContLine l then
      (if (ptoks l).isEmpty then none else normAux (some (ptoks l)) rest)   -- marker without instruction
    else (normAux none rest).map (ptoks l :: ·)
  | some acc, l :: rest =>
    if !indented l then none                              -- continuation lines have to be indented
    else if isContLine l then normAux (some (acc ++ ptoks l)) rest
    else (normAux none rest).map ((acc ++ ptoks l) :: ·)

/-- the logical token lines of a file; `none` if the layout is not valid -/
def norm (f : List Line) : Option (List (List Token)) := normAux none f

def ValidLayout (f : List Line) : Prop := (norm f).isSome

/-! ### case handling behind the tokens (cards.py `Residue.residue_number`, `Residues.append`) -/

/-- `Residues.residue_classes` is keyed by the class as `RESI` keeps it; a restraint asks with its upper-cased
    suffix. `eqv` is the comparison of keys: `(· == ·)` as it was, case-insensitive after fixes/C05_3. -/
def classNumbers (eqv : Token → Token → Bool) (resis : List (Token × Int)) (suffix : Token) : List Int :=
  match (resis.filter fun r => eqv r.1 (upper suffix)).map (·.2) with
  | [] => [0]
  | l => l

def keyOld (a b : Token) : Bool := a == b
def keyNew (a b : Token) : Bool := upper a == upper b

/-- spec: the numbers of the residues whose class is the suffix, letter case ignored -/
def specClassNumbers (resis : List (Token × Int)) (suffix : Token) : List Int :=
  let l := (resis.filter fun r => upper r.1 == upper suffix).map (·.2)
  if l.isEmpty then [0] else l

end Shelx.C05

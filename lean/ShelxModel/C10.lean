/- C10 — model and specification (stub; see HACKING.md) -/
namespace Shelx.C10

end Shelx.C10

/-
  C10 — symmetry-operator strings are parsed and printed exactly.

  Model of (text as `List Char`, translations exact in `Rat`; Python computes the same expressions in doubles):
    SymmetryElement._partition        (dsrmath.py)   -> `partitionAt`, `partitionModel`
    SymmetryElement._float            (dsrmath.py)   -> `pyFloat` (CPython `float(str)`), `evalFrac` (the `eval` branch), `floatModel`
    SymmetryElement._parse_line       (dsrmath.py)   -> `normalise`, `parseComp`
    SymmetryElement.__init__          (dsrmath.py)   -> `parseOp`   (Matrix(lines).transposed read through `matrix[i, j]` is row i, column j of `lines`)
    SymmetryElement.to_shelxl         (dsrmath.py)   -> `rowText`, `toShelxl` (generic in the number formatter; `fmtDec` models `str(float)`)
    SymmetryElement.__eq__            (dsrmath.py)   -> `eqModel`
    SYMM._parse_line                  (cards.py)     -> `splitWs`, `splitComma`, `symmCard`
    SymmetryElement.__init__(centric=True)           -> `initOp`    (`matrix *= -1; trans *= -1`)
    SymmetryElement.apply_latt_symm   (dsrmath.py)   -> `applyLatt` (print, parse the text again, replace the translation)
    histories of such calls on a pool of objects     -> `Step`, `stepModel`, `runModel` (printing/comparing has no effect)
    Matrix.__eq__ before the repair                  -> `LegacyObj`, `eqLegacy` (tuple rows never equal list rows)
  Specification (code independent): the grammar `Item`/`Numeral`, `print`, `denote`, `Relayout`, `LatticeEq`;
  for operators made from operators: the action on a point `Op.act`, `Op.inverted`, `Op.shifted`, `SStep`, `specRun`.

  Domain of the model of `float()`/`eval`: strings over the alphabet of the grammar
  (digits . / + - X Y Z, blanks, lower case x y z). On that alphabet CPython's `float()` accepts exactly
  `[+-] digits [. digits]` / `[+-] . digits` (no exponent, `inf`, `nan`, `_` can be spelled). `eval` of anything
  that is not `signs digits / digits` is reported as `Err.unmodelled` (Python: SyntaxError, or a value for
  expressions such as `1/2/3`, `1/2-1/4`, which are outside SHELXL syntax).
-/
namespace Shelx.C10

inductive Err
  | valueError        -- not used by `_float` (it swallows it); kept for the enum on the wire
  | syntaxError       -- `eval` of a malformed fraction
  | zeroDivision      -- `eval('1./0.')`
  | noneTranslation   -- `_float` returned `None` (no exception in Python: the operator carries `None`)
  | unmodelled        -- `eval` of an expression outside `signs digits / digits`; an operator that has not three rows
  | badIndex          -- a history refers to an object that does not exist (not a Python behaviour: malformed request)
deriving DecidableEq, Repr

/-! ### Model: text helpers -/

/-- `symm.upper().replace(' ', '')` (ASCII; the alphabet of the grammar has no other letters) -/
def normalise (s : List Char) : List Char := (s.map Char.toUpper).filter (fun c => c ≠ ' ')

/-- `str.partition(c)`: `none` when `c` does not occur, else (text before the first `c`, text after it) -/
def partitionAt (c : Char) : List Char → Option (List Char × List Char)
  | [] => none
  | h :: t => if h = c then some ([], t) else (partitionAt c t).map fun p => (h :: p.1, p.2)

/-- `.replace('+', '')` -/
def removePlus (s : List Char) : List Char := s.filter (fun c => c ≠ '+')

/-- `_partition(symm, char)` -/
def partitionModel (symm : List Char) (c : Char) : Int × List Char :=
  match partitionAt c symm with
  | none => (0, symm)
  | some (pre, post) =>
    let sign := match pre.getLast? with
      | none => '+'
      | some ch => ch
    if sign = '-' then (-1, pre.dropLast ++ post) else (1, removePlus (pre ++ post))

/-! ### Model: numbers -/

def digitVal (c : Char) : Option Nat :=
  if '0' ≤ c ∧ c ≤ '9' then some (c.toNat - 48) else none

/-- longest prefix of decimal digits (their values) and the rest -/
def spanDigits : List Char → List Nat × List Char
  | [] => ([], [])
  | c :: t => match digitVal c with
    | some d => let r := spanDigits t; (d :: r.1, r.2)
    | none => ([], c :: t)

def natOfDigits (ds : List Nat) : Nat := ds.foldl (fun a d => 10 * a + d) 0

/-- value of the digits after the decimal point -/
def fracOfDigits : List Nat → Rat
  | [] => 0
  | d :: ds => ((d : Rat) + fracOfDigits ds) / 10

/-- CPython `float(s)` for an unsigned decimal: `digits`, `digits.`, `digits.digits`, `.digits`; `none` = ValueError -/
def pyFloatUnsigned (s : List Char) : Option Rat :=
  let ip := spanDigits s
  match ip.2 with
  | [] => if ip.1 = [] then none else some (natOfDigits ip.1 : Nat)
  | '.' :: r =>
    let fp := spanDigits r
    if fp.2 ≠ [] then none
    else if ip.1 = [] ∧ fp.1 = [] then none
    else some ((natOfDigits ip.1 : Nat) + fracOfDigits fp.1)
  | _ => none

/-- CPython `float(s)` on the alphabet of the grammar; `none` = ValueError -/
def pyFloat (s : List Char) : Option Rat :=
  match s with
  | '+' :: r => pyFloatUnsigned r
  | '-' :: r => (pyFloatUnsigned r).map fun x => -x
  | _ => pyFloatUnsigned s

/-- `eval` of `digits / digits` (after `replace('/', './') + '.'`: `1./2.`) -/
def evalFracUnsigned (s : List Char) : Except Err Rat :=
  let n := spanDigits s
  match n.2 with
  | '/' :: r =>
    let d := spanDigits r
    if n.1 = [] ∨ d.1 = [] then .error .syntaxError          -- './2.'  '1./.'
    else if d.2 ≠ [] then .error .unmodelled
    else if natOfDigits d.1 = 0 then .error .zeroDivision
    else .ok ((natOfDigits n.1 : Nat) / (natOfDigits d.1 : Nat))
  | _ => .error .unmodelled

/-- `eval(string.replace('/', './') + '.')` for `signs digits / digits` (unary signs are applied one by one) -/
def evalFrac : List Char → Except Err Rat
  | '+' :: r => evalFrac r
  | '-' :: r => (evalFrac r).map fun x => -x
  | s => evalFracUnsigned s

/-- `_float`: `float(string)`, on ValueError the fraction through `eval`, otherwise `None` -/
def floatModel (s : List Char) : Except Err Rat :=
  match pyFloat s with
  | some r => .ok r
  | none => if '/' ∈ s then evalFrac s else .error .noneTranslation

/-! ### Model: `_parse_line`, `__init__` -/

abbrev Coef := Int × Int × Int

/-- `_parse_line`: partition on X, Y, Z in this order; what is left is the translation -/
def parseComp (symm : List Char) : Except Err (Coef × Rat) :=
  let s0 := normalise symm
  let px := partitionModel s0 'X'
  let py := partitionModel px.2 'Y'
  let pz := partitionModel py.2 'Z'
  if pz.2 = [] then .ok ((px.1, py.1, pz.1), 0)
  else (floatModel pz.2).map fun t => ((px.1, py.1, pz.1), t)

/-- one row of an operator: `matrix[i, 0..2]` and `trans[i]` -/
structure Row where
  c : Coef
  t : Rat
deriving DecidableEq, Repr

def Row.ofPair (p : Coef × Rat) : Row := ⟨p.1, p.2⟩

/-- `SymmetryElement(symms)` (not centric): one row per component string -/
def parseOp : List (List Char) → Except Err (List Row)
  | [] => .ok []
  | s :: r =>
    match parseComp s with
    | .error e => .error e
    | .ok p => match parseOp r with
      | .error e => .error e
      | .ok l => .ok (Row.ofPair p :: l)

/-! ### Model: `to_shelxl` -/

def axisText (m : Int) (letter : Char) : List Char :=
  if m = 0 then [] else if m < 0 then ['-', letter] else ['+', letter]

/-- one row of `to_shelxl`: `str(trans)` unless it is zero, then the signed letters of the non-zero entries -/
def rowText (fmt : Rat → List Char) (r : Row) : List Char :=
  (if r.t = 0 then [] else fmt r.t) ++ axisText r.c.1 'X' ++ axisText r.c.2.1 'Y' ++ axisText r.c.2.2 'Z'

def joinCommaBlank : List (List Char) → List Char
  | [] => []
  | [a] => a
  | a :: r => a ++ [',', ' '] ++ joinCommaBlank r

/-- `to_shelxl`: `', '.join(lines)` -/
def toShelxl (fmt : Rat → List Char) (op : List Row) : List Char :=
  joinCommaBlank (op.map (rowText fmt))

/-- `str.split(',')` -/
def splitCommaAux : List Char → List Char → List (List Char)
  | [], cur => [cur.reverse]
  | c :: t, cur => if c = ',' then cur.reverse :: splitCommaAux t [] else splitCommaAux t (c :: cur)

def splitComma (s : List Char) : List (List Char) := splitCommaAux s []

/-- digits of a natural number, most significant first (`str(int)`) -/
def natDigits (n : Nat) : List Nat :=
  if _h : n < 10 then [n] else natDigits (n / 10) ++ [n % 10]
termination_by n
decreasing_by omega

def digitChar (d : Nat) : Char := Char.ofNat (48 + d)

/-- the decimals of `r ∈ [0,1)` until they end (`fuel` bounds their number) -/
def fracDigits : Nat → Rat → List Nat
  | 0, _ => []
  | fuel + 1, r => if r = 0 then [] else
      let d := (r * 10).floor.toNat
      d :: fracDigits fuel (r * 10 - d)

/-- `str(float)` of a number with a short finite decimal expansion (`0.5`, `-0.25`, `1.0`, `1.75`):
    CPython's shortest `repr` is then the exact expansion, with at least one decimal.
    (Not exponent notation: valid for 1e-4 ≤ |x| < 1e16; thirds and sixths are not in this domain.) -/
def fmtDec (x : Rat) : List Char :=
  let a := if x < 0 then -x else x
  let ip := a.floor.toNat
  let fd := fracDigits 40 (a - ip)
  (if x < 0 then ['-'] else []) ++ (natDigits ip).map digitChar ++ ['.'] ++
    (if fd = [] then ['0'] else fd.map digitChar)

/-! ### Model: `__eq__` (repaired: translations compared modulo 1 with a tolerance) -/

/-- Python `round(x)`: nearest integer, ties to even -/
def pyRound (x : Rat) : Int :=
  let f := x.floor
  let r := x - f
  if r < 1/2 then f else if r > 1/2 then f + 1 else if f % 2 = 0 then f else f + 1

/-- the tolerance written in the repaired `__eq__` -/
def tolPy : Rat := 1 / 1000000000

/-- `abs(d - round(d)) < tol` -/
def nearInt (tol d : Rat) : Bool :=
  let e := d - pyRound d
  (if e < 0 then -e else e) < tol

structure Op where
  r0 : Row
  r1 : Row
  r2 : Row
deriving DecidableEq, Repr

def Op.rows (o : Op) : List Row := [o.r0, o.r1, o.r2]

/-- `__eq__`: same matrix, and every translation difference is within `tol` of a whole number -/
def eqModel (tol : Rat) (a b : Op) : Bool :=
  (a.r0.c = b.r0.c ∧ a.r1.c = b.r1.c ∧ a.r2.c = b.r2.c) ∧
  nearInt tol (a.r0.t - b.r0.t) ∧ nearInt tol (a.r1.t - b.r1.t) ∧ nearInt tol (a.r2.t - b.r2.t)

/-! ### Model: operators the library makes from operators (`centric=True`, `apply_latt_symm`), histories -/

/-- three rows make an operator (anything else is outside the modelled domain) -/
def opOfRows : List Row → Except Err Op
  | [a, b, c] => .ok ⟨a, b, c⟩
  | _ => .error .unmodelled

/-- `matrix *= -1; trans *= -1` on one row -/
def Row.timesMinusOne (r : Row) : Row := ⟨(r.c.1 * -1, r.c.2.1 * -1, r.c.2.2 * -1), r.t * -1⟩

/-- `SymmetryElement(symms, centric)`: parse the three strings; `if centric: self.matrix *= -1; self.trans *= -1` -/
def initOp (symms : List (List Char)) (centric : Bool) : Except Err Op :=
  match parseOp symms with
  | .error e => .error e
  | .ok rows => match opOfRows rows with
    | .error e => .error e
    | .ok o => .ok (if centric then ⟨o.r0.timesMinusOne, o.r1.timesMinusOne, o.r2.timesMinusOne⟩ else o)

/-- `SymmetryElement(self.to_shelxl().split(','))` -/
def reparse (fmt : Rat → List Char) (o : Op) : Except Err Op :=
  initOp (splitComma (toShelxl fmt o.rows)) false

/-- `apply_latt_symm`: `new = SymmetryElement(self.to_shelxl().split(','))`, then
    `new.trans = Array([(self.trans[i] + latt_symm.trans[i]) / 1 …])` (the matrix is the re-parsed one) -/
def applyLatt (fmt : Rat → List Char) (self latt : Op) : Except Err Op :=
  match reparse fmt self with
  | .error e => .error e
  | .ok n => .ok ⟨⟨n.r0.c, (self.r0.t + latt.r0.t) / 1⟩, ⟨n.r1.c, (self.r1.t + latt.r1.t) / 1⟩,
                  ⟨n.r2.c, (self.r2.t + latt.r2.t) / 1⟩⟩

/-- One call in a history on a pool of operator objects (objects are never changed, only added). -/
inductive Step
  | parse (symms : List (List Char)) (centric : Bool)   -- `SymmetryElement(symms, centric)`
  | given (o : Op)                                      -- an operator handed in by another part of the library
  | latt (i j : Nat)                                    -- `pool[i].apply_latt_symm(pool[j])`
  | reparse (i : Nat)                                   -- `SymmetryElement(pool[i].to_shelxl().split(','))`
  | observe (i : Nat)                                   -- `to_shelxl()`, `repr()`, `str()`, `to_cif()`, `==`: no effect

def stepModel (fmt : Rat → List Char) (pool : List Op) : Step → Except Err (List Op)
  | .parse s c => match initOp s c with
    | .error e => .error e
    | .ok o => .ok (pool ++ [o])
  | .given o => .ok (pool ++ [o])
  | .latt i j => match pool[i]?, pool[j]? with
    | some a, some l => match applyLatt fmt a l with
      | .error e => .error e
      | .ok o => .ok (pool ++ [o])
    | _, _ => .error .badIndex
  | .reparse i => match pool[i]? with
    | some a => match reparse fmt a with
      | .error e => .error e
      | .ok o => .ok (pool ++ [o])
    | none => .error .badIndex
  | .observe i => if i < pool.length then .ok pool else .error .badIndex

def runModel (fmt : Rat → List Char) : List Op → List Step → Except Err (List Op)
  | pool, [] => .ok pool
  | pool, s :: r => match stepModel fmt pool s with
    | .error e => .error e
    | .ok p => runModel fmt p r

/-- a number written as a signed fraction `n/d`: an exact formatter (the text of `str(float)` is not an observable;
    what matters is that `float(str(x)) == x`, which `FmtOk` states and CPython's shortest `repr` guarantees) -/
def fmtFrac (x : Rat) : List Char :=
  (if x < 0 then ['-'] else []) ++ (natDigits x.num.natAbs).map digitChar ++ ['/'] ++ (natDigits x.den).map digitChar

/-! #### before the repair: `Matrix.__eq__` compared the rows as Python objects

  `Matrix(lines).transposed` is built from `zip(…)`: its rows are tuples. `matrix *= -1` (centric) goes through
  `Matrix.__mul__`, which builds lists. `(−1, 0, 0) == [−1, 0, 0]` is `False` in Python, so an operator made with
  `centric=True` never compared equal to one that was parsed (not even to its own printed text, parsed). -/

structure LegacyObj where
  op : Op
  listRows : Bool

def initLegacy (symms : List (List Char)) (centric : Bool) : Except Err LegacyObj :=
  (initOp symms centric).map fun o => ⟨o, centric⟩

def eqLegacy (tol : Rat) (a b : LegacyObj) : Bool := (a.listRows == b.listRows) && eqModel tol a.op b.op

/-! ### Model: the SYMM card (`line.split()`, `''.join(spline[1:]).split(',')`) -/

/-- blanks of `str.split()` that can occur inside one line -/
def isWs (c : Char) : Bool := c = ' ' ∨ c = '\t'

def splitWsAux : List Char → List Char → List (List Char)
  | [], cur => if cur = [] then [] else [cur.reverse]
  | c :: t, cur =>
    if isWs c then (if cur = [] then splitWsAux t [] else cur.reverse :: splitWsAux t [])
    else splitWsAux t (c :: cur)

/-- `line.split()` -/
def splitWs (s : List Char) : List (List Char) := splitWsAux s []

/-- `SYMM._parse_line(spline)`: `''.join(spline[1:]).split(',')` -/
def symmCard (line : List Char) : List (List Char) :=
  splitComma (splitWs line).tail.flatten

/-! ### Specification -/

inductive Axis | x | y | z
deriving DecidableEq, Repr

/-- how a sign is written: not at all, `+`, `-` -/
inductive Sign | none | plus | minus
deriving DecidableEq, Repr

abbrev Digit := Fin 10

/-- a translation as written: `n/d`, an integer, or a decimal `ip.fp` (either side of the point may be empty) -/
inductive Numeral
  | frac (n d : List Digit)
  | int (ip : List Digit)
  | dec (ip fp : List Digit)
deriving DecidableEq, Repr

/-- a signed axis letter, or a signed translation -/
inductive Item
  | term (s : Sign) (a : Axis)
  | num (s : Sign) (v : Numeral)
deriving DecidableEq, Repr

/-- A component of an operator is a sequence of items, e.g. `-Y+X+1/2`, `0.25-Z`, `X+1/2-Y`.
    SHELXL writes a sign in front of every item but the first; the sign is optional here everywhere. -/
abbrev Component := List Item

def Axis.char : Axis → Char
  | .x => 'X' | .y => 'Y' | .z => 'Z'

def Sign.chars : Sign → List Char
  | .none => [] | .plus => ['+'] | .minus => ['-']

def Sign.toInt : Sign → Int
  | .minus => -1 | _ => 1

def digitsChars (ds : List Digit) : List Char := ds.map fun d => digitChar d.val

/-- positional value of a digit string -/
def digitsVal (ds : List Digit) : Nat := ds.foldl (fun a d => 10 * a + d.val) 0

def Numeral.chars : Numeral → List Char
  | .frac n d => digitsChars n ++ ['/'] ++ digitsChars d
  | .int ip => digitsChars ip
  | .dec ip fp => digitsChars ip ++ ['.'] ++ digitsChars fp

/-- the number a numeral denotes -/
def Numeral.value : Numeral → Rat
  | .frac n d => (digitsVal n : Rat) / (digitsVal d : Rat)
  | .int ip => (digitsVal ip : Rat)
  | .dec ip fp => (digitsVal (ip ++ fp) : Rat) / (10 : Rat) ^ fp.length

/-- digits present where they must be, denominator not zero -/
def Numeral.wf : Numeral → Bool
  | .frac n d => n ≠ [] ∧ d ≠ [] ∧ digitsVal d ≠ 0
  | .int ip => ip ≠ []
  | .dec ip fp => ip ≠ [] ∨ fp ≠ []

def Item.chars : Item → List Char
  | .term s a => s.chars ++ [a.char]
  | .num s v => s.chars ++ v.chars

/-- the text of a component in capital letters without blanks -/
def print : Component → List Char
  | [] => []
  | i :: r => i.chars ++ print r

/-- coefficient of axis `a`: the sum of the signs of its terms (0 if there is none) -/
def coef (a : Axis) : Component → Int
  | [] => 0
  | .term s b :: r => (if b = a then s.toInt else 0) + coef a r
  | .num _ _ :: r => coef a r

/-- sum of the signed translations -/
def transOf : Component → Rat
  | [] => 0
  | .term _ _ :: r => transOf r
  | .num s v :: r => (s.toInt : Rat) * v.value + transOf r

/-- what a component denotes — the sum of what its items denote: one row of the rotation matrix and one translation -/
def denote (c : Component) : Coef × Rat := ((coef .x c, coef .y c, coef .z c), transOf c)

def axisCount (a : Axis) : Component → Nat
  | [] => 0
  | .term _ b :: r => (if b = a then 1 else 0) + axisCount a r
  | .num _ _ :: r => axisCount a r

def numCount : Component → Nat
  | [] => 0
  | .term _ _ :: r => numCount r
  | .num _ _ :: r => 1 + numCount r

def allWf : Component → Bool
  | [] => true
  | .term _ _ :: r => allWf r
  | .num _ v :: r => v.wf && allWf r

/-- every axis at most once, at most one translation, numerals well formed -/
def Valid (c : Component) : Bool :=
  axisCount .x c ≤ 1 ∧ axisCount .y c ≤ 1 ∧ axisCount .z c ≤ 1 ∧ numCount c ≤ 1 ∧ allWf c

/-- SHELXL's own spelling: a sign in front of every item except possibly the first -/
def signedTail : Component → Bool
  | [] => true
  | .term s _ :: r => s ≠ .none && signedTail r
  | .num s _ :: r => s ≠ .none && signedTail r

def Shelxl (c : Component) : Bool :=
  Valid c && (match c with | [] => true | _ :: r => signedTail r)

/-- `Relayout s t`: `t` is `s` with blanks inserted anywhere and any letter possibly in lower case -/
inductive Relayout : List Char → List Char → Prop
  | nil : Relayout [] []
  | blank {s t} : Relayout s t → Relayout s (' ' :: t)
  | same {s t} (c : Char) : Relayout s t → Relayout (c :: s) (c :: t)
  | lower {s t} (c : Char) : Relayout s t → Relayout (c :: s) (c.toLower :: t)

/-- two operators agree modulo whole lattice translations -/
def LatticeEq (a b : Op) : Prop :=
  (a.r0.c = b.r0.c ∧ a.r1.c = b.r1.c ∧ a.r2.c = b.r2.c) ∧
  (∃ k : Int, a.r0.t - b.r0.t = k) ∧ (∃ k : Int, a.r1.t - b.r1.t = k) ∧ (∃ k : Int, a.r2.t - b.r2.t = k)

/-- executable form of `LatticeEq` (the difference has denominator 1) -/
def latticeEqB (a b : Op) : Bool :=
  (a.r0.c = b.r0.c ∧ a.r1.c = b.r1.c ∧ a.r2.c = b.r2.c) ∧
  (a.r0.t - b.r0.t).den = 1 ∧ (a.r1.t - b.r1.t).den = 1 ∧ (a.r2.t - b.r2.t).den = 1

/-- the row an operator line denotes, as a `Row` -/
def denoteRow (c : Component) : Row := Row.ofPair (denote c)

/-! ### Specification: operators made from operators -/

abbrev Point := Rat × Rat × Rat

/-- what an operator does to a point: `R p + t` -/
def Op.act (o : Op) (p : Point) : Point :=
  (o.r0.c.1 * p.1 + o.r0.c.2.1 * p.2.1 + o.r0.c.2.2 * p.2.2 + o.r0.t,
   o.r1.c.1 * p.1 + o.r1.c.2.1 * p.2.1 + o.r1.c.2.2 * p.2.2 + o.r1.t,
   o.r2.c.1 * p.1 + o.r2.c.2.1 * p.2.1 + o.r2.c.2.2 * p.2.2 + o.r2.t)

def Row.inverted (r : Row) : Row := ⟨(-r.c.1, -r.c.2.1, -r.c.2.2), -r.t⟩

/-- the operator followed by the inversion in the origin (the second half of a centrosymmetric group) -/
def Op.inverted (o : Op) : Op := ⟨o.r0.inverted, o.r1.inverted, o.r2.inverted⟩

/-- the operator followed by the translation `v` (a centring vector) -/
def Op.shifted (o : Op) (v : Point) : Op :=
  ⟨⟨o.r0.c, o.r0.t + v.1⟩, ⟨o.r1.c, o.r1.t + v.2.1⟩, ⟨o.r2.c, o.r2.t + v.2.2⟩⟩

def Op.trans (o : Op) : Point := (o.r0.t, o.r1.t, o.r2.t)

/-- the operator three components denote -/
def denoteOp (c0 c1 c2 : Component) : Op := ⟨denoteRow c0, denoteRow c1, denoteRow c2⟩

/-- a history as the property sees it: which operator each new object has to be -/
inductive SStep
  | parse (c0 c1 c2 : Component) (centric : Bool)
  | given (o : Op)
  | latt (i j : Nat)
  | reparse (i : Nat)
  | observe (i : Nat)

def specStep (pool : List Op) : SStep → Option (List Op)
  | .parse c0 c1 c2 cen => some (pool ++ [if cen then (denoteOp c0 c1 c2).inverted else denoteOp c0 c1 c2])
  | .given o => some (pool ++ [o])
  | .latt i j => match pool[i]?, pool[j]? with
    | some a, some l => some (pool ++ [a.shifted l.trans])
    | _, _ => none
  | .reparse i => match pool[i]? with
    | some a => some (pool ++ [a])          -- printing and parsing gives the same operator
    | none => none
  | .observe i => if i < pool.length then some pool else none   -- looking at an operator changes nothing

def specRun : List Op → List SStep → Option (List Op)
  | pool, [] => some pool
  | pool, s :: r => match specStep pool s with
    | none => none
    | some p => specRun p r

end Shelx.C10

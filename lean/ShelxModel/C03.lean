/-
  C03 — every atom carries exactly the attributes the SHELXL rules assign to it.

  Model of (the repository after fixes/C03_1 … C03_5):
    Shelxfile._parse_cards, the RESI / PART / AFIX / atom / FRAG / FEND / HKLF / END branches (shelx.py)
                                                            -> `step`, `run`        (`stepBug`: before the fixes)
    Atom.parse_line, Atom._get_part_and_occupation (atom.py)  -> `mkAtom`, `pad6`, `peakShaped`
    Atom.part.n / afix.mn / resinum / resiclass, read AFTER parsing -> `observeAtom`, `observe`
    Shelxfile.sfac2elem + SFACTable.__getitem__               -> `sfac2elem`
    RESI._get_resi_definition (cards.py)                      -> `resiDecode`
    Shelxfile._find_included_files                            -> `splice`
    Atoms.hydrogen_atoms / q_peaks / riding_atoms / residues / atoms_in_class / n_*  -> `View.*`
  Python objects that are shared BY REFERENCE (the running PART/AFIX/RESI object that every atom captures)
  live in an explicit heap (`State.parts/afixes/resis`); an atom stores the *index* of its object. That makes
  the difference between "install a fresh object" (`step`) and "mutate the shared one" (`stepBug`) expressible.
  `self.frag` / `self.hklf` are kept as `Option` of the number of parameters the FRAG / HKLF line carries, and the
  parser's tests `if self.frag:` / `… and self.shx.hklf` go through an explicit truth rule (`cmdTruthy`; `stepT`,
  `mkAtomT`, `runT` take the rule as a parameter), so that the lines are quantified over ALL their forms (bare `FRAG`,
  bare `HKLF`, …) and the dependence on object truthiness is a theorem, not an accident.

  Specification (code independent, no state, no heap): `inForce`, `specAtom`, `specAtoms`, `specElement`,
  `resiSpec`, `spliceSpec`.
-/
namespace Shelx.C03

/-! ### abstract lines -/

/-- an atom line `name sfac x y z sof U…`; `tag` stands for name and coordinates (passed through untouched) -/
structure AtomLine where
  tag  : Nat
  sfac : Int
  sof  : Rat
  u    : List Rat
deriving DecidableEq, Repr

inductive Line where
  | part (n : Int) (sof : Rat)        -- `PART n sof[11]`  (an absent sof is the documented default 11)
  | afix (mn : Int)                   -- `AFIX mn …`
  | resi (cls : String) (num : Int)   -- `RESI class number` (decoded, see `resiDecode`)
  | atom (a : AtomLine)               -- a line `is_atom` accepts
  | frag (np : Nat)                   -- `FRAG code[17] a[1] b[1] c[1] α[90] β[90] γ[90]`, `np` of the 7 parameters written
  | fend
  | hklf (np : Nat)                   -- `HKLF n[0] s[1] r11…r33 sm[1] m[0]`, `np` parameters written (0 = bare `HKLF`)
  | fin                               -- `END`
  | other                             -- any other instruction, comment, blank
deriving DecidableEq, Repr

/-! ### model: heap objects and parser state -/

structure PartObj where
  n : Int
  sof : Rat
deriving DecidableEq, Repr

structure AfixObj where
  mn : Int
deriving DecidableEq, Repr

structure ResiObj where
  cls : String
  num : Int
deriving DecidableEq, Repr

/-- a Python `Atom` object: own values + references (heap indices) to its PART / AFIX / RESI object -/
structure AtomRec where
  tag : Nat
  sfac : Int
  sof : Rat
  uvals : List Rat
  part : Nat
  afix : Option Nat       -- `None` until the first AFIX line of the file
  resi : Nat
  qpeak : Bool
deriving DecidableEq, Repr

structure State where
  parts : List PartObj
  afixes : List AfixObj
  resis : List ResiObj
  part : Nat              -- self.part  (reference)
  afix : Option Nat       -- self.afix
  resi : Nat              -- self.resi
  frag : Option Nat       -- self.frag: `None` or the FRAG object (what matters of it: how many parameters it has)
  hklf : Option Nat       -- self.hklf: `None` or the HKLF object
  ended : Bool            -- self.end
  atoms : List AtomRec    -- self.atoms.all_atoms
deriving Repr

/-- `Shelxfile.__init__`: `self.part = PART 0`, `self.resi = RESI 0`, `self.afix = None` -/
def init : State :=
  { parts := [⟨0, 11⟩], afixes := [], resis := [⟨"", 0⟩], part := 0, afix := none, resi := 0,
    frag := none, hklf := none, ended := false, atoms := [] }

/-- `uvals = [0.0]*6; for n, u in enumerate(atline[6:12]): uvals[n] = float(u)` -/
def pad6 (u : List Rat) : List Rat :=
  let v := u.take 6
  v ++ List.replicate (6 - v.length) 0

def absR (x : Rat) : Rat := if x < 0 then -x else x

/-- the shape test of the Q-peak rule: `abs(uvals[1]) > 0.0 and abs(uvals[2]) < 0.000001` -/
def peakShaped (uv : List Rat) : Bool :=
  match uv with
  | _ :: h :: u3 :: _ => decide (absR h > 0) && decide (absR u3 < 1 / 1000000)
  | _ => false

/-! The parser never asks "is `self.frag` / `self.hklf` set?" but "is it *true*?" (`if self.frag:`,
    `if not self.frag:`, `… and self.shx.hklf`). The truth value of a Python object is `__bool__()` if the class
    defines it, else `__len__() != 0` if it defines that, else `True`. `FRAG` and `HKLF` are plain `Command`
    subclasses with neither method, so every instance is true whatever the line carries: `cmdTruthy`.
    The functions below take the truth rule as a parameter `t` (number of written parameters ↦ truth value), so that
    the dependence of the property on it is a theorem (`truthiness_needed_frag/_hklf` in ShelxProps/C03.lean:
    any rule that makes some form of the instruction false loses the property on that form — e.g. `lenTruthy`,
    a `Command.__len__` that counts the parameters, on the bare `FRAG` / `HKLF`). -/

/-- the truth value of a FRAG / HKLF object in the code as it is: no `__bool__`, no `__len__` -/
def cmdTruthy (_np : Nat) : Bool := true

/-- what `Command.__len__ = len(spline) - 1` would make of it (not the code; used for the witness theorems) -/
def lenTruthy (np : Nat) : Bool := decide (np > 0)

/-- `if self.x:` for `self.x : Optional[Command]` — `None` is false -/
def optTruthy (t : Nat → Bool) : Option Nat → Bool
  | none => false
  | some np => t np

/-- `Atom.parse_line`: occupation code from the PART in force unless that is the default 11, Q-peak rule.
    (`s.parts[s.part]?` cannot be `none`: `context_invariant` proves `s.part < s.parts.length`.) -/
def mkAtomT (t : Nat → Bool) (s : State) (a : AtomLine) : AtomRec :=
  let uv := pad6 a.u
  let sof := match s.parts[s.part]? with
    | some p => if p.sof ≠ 11 then p.sof else a.sof
    | none => a.sof
  { tag := a.tag, sfac := a.sfac, sof := sof, uvals := uv, part := s.part, afix := s.afix, resi := s.resi,
    qpeak := (peakShaped uv && optTruthy t s.hklf) || s.ended }

def mkAtom (s : State) (a : AtomLine) : AtomRec := mkAtomT cmdTruthy s a

/-- HKLF / END after the fixes: *new* `RESI 0`, `PART 0`, `AFIX 0` objects become current -/
def resetCtx (s : State) : State :=
  { s with resis := s.resis ++ [⟨"", 0⟩], resi := s.resis.length,
           parts := s.parts ++ [⟨0, 11⟩], part := s.parts.length,
           afixes := s.afixes ++ [⟨0⟩], afix := some s.afixes.length }

/-- one iteration of `_parse_cards`, under the truth rule `t` for FRAG / HKLF objects -/
def stepT (t : Nat → Bool) (s : State) : Line → State
  | .resi c n => { s with resis := s.resis ++ [⟨c, n⟩], resi := s.resis.length }
  | .part n f => { s with parts := s.parts ++ [⟨n, f⟩], part := s.parts.length }
  | .afix mn => { s with afixes := s.afixes ++ [⟨mn⟩], afix := some s.afixes.length }
  | .atom a => if optTruthy t s.frag then s else { s with atoms := s.atoms ++ [mkAtomT t s a] }
  | .frag np => { s with frag := some np }
  | .fend => { s with frag := none }       -- (FEND while `self.frag` is false raises in Python: excluded by `lineOK`)
  | .hklf np => { resetCtx s with hklf := some np }
  | .fin => { resetCtx s with ended := true }
  | .other => s

/-- one iteration of `_parse_cards` (the code as it is) -/
def step (s : State) (l : Line) : State := stepT cmdTruthy s l

def runT (t : Nat → Bool) (file : List Line) : State := file.foldl (stepT t) init

def run (file : List Line) : State := file.foldl step init

/-- A read history on one `Shelxfile` object: `read_string`, `read_file` and `reload` all begin with
    `self.__init__()`, so every read starts from `init`; nothing of an earlier read survives. -/
def readHistory (files : List (List Line)) : State := files.foldl (fun _ f => run f) init

/-! #### the code before fixes C03_1 … C03_3 (commit e475fe2): HKLF / END mutate the shared objects -/

def setAt {α} (l : List α) (i : Nat) (f : α → α) : List α :=
  match l[i]? with
  | some v => l.set i (f v)
  | none => l

/-- `PART.__bool__`: `n > 0` -/
def partTruthy (s : State) : Bool := match s.parts[s.part]? with | some p => decide (p.n > 0) | none => false
/-- `self.afix and …`: `None` is false, `AFIX.__bool__` is `mn > 0` -/
def afixTruthy (s : State) : Bool :=
  match s.afix with
  | some i => (match s.afixes[i]? with | some a => decide (a.mn > 0) | none => false)
  | none => false

/-- `if … and self.part: self.part.n = 0` / `if … and self.afix: self.afix.mn = 0` (and `self.resi.num = 0`,
    an attribute nobody reads). Returns the new state and whether the `elif` chain was entered. -/
def barrierBug (s : State) : State × Bool :=
  let s1 := if partTruthy s then { s with parts := setAt s.parts s.part fun p => { p with n := 0 } } else s
  match s1.afix with
  | some i => if afixTruthy s1 then ({ s1 with afixes := setAt s1.afixes i fun a => { a with mn := 0 } }, false)
              else (s1, true)
  | none => (s1, true)

def stepBug (s : State) : Line → State
  | .hklf np => let (s', chain) := barrierBug s; if chain then { s' with hklf := some np } else s'
  | .fin => let (s', chain) := barrierBug s; if chain then { s' with ended := true } else s'
  | .atom a => { s with atoms := s.atoms ++ [mkAtom s a] }
  | l => step s l

def runBug (file : List Line) : State := file.foldl stepBug init

/-! #### `Atoms.append` behind an equality guard (`if atom in self.all_atoms: return`) — not the code; used for the
    witness theorem `eq_guard_fails_on` (ShelxProps/C03.lean). `Atom.__eq__` compares the printed lines: name and
    position (`tag`), scattering-factor number, occupation code, U values — not the PART / AFIX / residue the atom
    stands in. Atom names are unique only within a residue / PART, so two lines of a valid file may agree in all of it. -/

def sameText (a b : AtomRec) : Bool :=
  decide (a.tag = b.tag) && decide (a.sfac = b.sfac) && decide (a.sof = b.sof) && decide (a.uvals = b.uvals)

def stepGuard (s : State) : Line → State
  | .atom a =>
    if optTruthy cmdTruthy s.frag then s
    else if s.atoms.any (sameText (mkAtom s a)) then s
    else { s with atoms := s.atoms ++ [mkAtom s a] }
  | l => step s l

def runGuard (file : List Line) : State := file.foldl stepGuard init

/-! ### observation (after parsing finished) -/

structure AtomObs where
  tag : Nat
  sfac : Int
  sof : Rat
  uvals : List Rat
  part : Int
  afix : Int             -- `atom.afix.mn`, 0 when there is no AFIX object
  resiNum : Int
  resiCls : String
  qpeak : Bool
deriving DecidableEq, Repr

/-- `atom.afix.mn` through the reference; an atom created before the first AFIX line has `afix = None` (0) -/
def afixMn (afixes : List AfixObj) : Option Nat → Option Int
  | none => some 0
  | some i => (afixes[i]?).map (·.mn)

/-- reads through the references, as `atom.part.n`, `atom.afix.mn`, `atom.resinum`, `atom.resiclass` do;
    `none` = dangling reference -/
def observeAtom (s : State) (a : AtomRec) : Option AtomObs :=
  match s.parts[a.part]?, s.resis[a.resi]?, afixMn s.afixes a.afix with
  | some p, some r, some mn =>
    some { tag := a.tag, sfac := a.sfac, sof := a.sof, uvals := a.uvals, part := p.n, afix := mn,
           resiNum := r.num, resiCls := r.cls, qpeak := a.qpeak }
  | _, _, _ => none

def observe (s : State) : List (Option AtomObs) := s.atoms.map (observeAtom s)

/-! ### specification -/

def isHklf : Line → Bool | .hklf _ => true | _ => false
def isFin : Line → Bool | .fin => true | _ => false
/-- HKLF and END end every PART, AFIX and residue -/
def isBarrier (l : Line) : Bool := isHklf l || isFin l

/-- The instruction in force. `before` = the lines above the atom, **nearest first**. The nearest line that
    is either an instruction of the kind (`sel`) or HKLF/END decides; nothing found: the default. -/
def inForce {α} (sel : Line → Option α) (dflt : α) : List Line → α
  | [] => dflt
  | l :: ls => if isBarrier l then dflt else match sel l with
    | some v => v
    | none => inForce sel dflt ls

def selPart : Line → Option PartObj | .part n f => some ⟨n, f⟩ | _ => none
def selAfix : Line → Option Int | .afix mn => some mn | _ => none
def selResi : Line → Option ResiObj | .resi c n => some ⟨c, n⟩ | _ => none

def specPart (before : List Line) : PartObj := inForce selPart ⟨0, 11⟩ before
def specAfix (before : List Line) : Int := inForce selAfix 0 before
def specResi (before : List Line) : ResiObj := inForce selResi ⟨"", 0⟩ before

/-- inside a `FRAG … FEND` block: the nearest FRAG/FEND above is a FRAG -/
def inFrag : List Line → Bool
  | [] => false
  | .frag _ :: _ => true
  | .fend :: _ => false
  | _ :: ls => inFrag ls

/-- one or six displacement values; the remaining slots are zero -/
def specU (u : List Rat) : List Rat := u ++ List.replicate (6 - u.length) 0

def specAtom (before : List Line) (a : AtomLine) : AtomObs :=
  let p := specPart before
  let r := specResi before
  { tag := a.tag, sfac := a.sfac,
    sof := if p.sof ≠ 11 then p.sof else a.sof,        -- 11 is `PART n` without an occupation code
    uvals := specU a.u, part := p.n, afix := specAfix before, resiNum := r.num, resiCls := r.cls,
    qpeak := before.any isBarrier }

/-- what one line adds to the atom list -/
def contrib (before : List Line) : Line → List AtomObs
  | .atom a => if inFrag before then [] else [specAtom before a]
  | _ => []

def specFrom (before : List Line) : List Line → List AtomObs
  | [] => []
  | l :: rest => contrib before l ++ specFrom (l :: before) rest

/-- the atom list: one entry per atom line outside FRAG…FEND, in file order -/
def specAtoms (file : List Line) : List AtomObs := specFrom [] file

/-! #### domain (decidable) -/

/-- What a line of a valid file satisfies, given the lines above it (nearest first):
    * an atom line carries at most six displacement values;
    * an atom line listed between HKLF and END has the shape of a peak (`Qn 1 x y z 11.0 0.05 height`) — this is
      where the code's Q-peak rule (peak shaped ∧ HKLF seen, or END seen) and the property's (listed after
      HKLF) could differ;
    * FEND closes a FRAG (Python raises otherwise). -/
def lineOK (before : List Line) : Line → Bool
  | .atom a => decide (a.u.length ≤ 6) && (!(before.any isHklf) || before.any isFin || peakShaped (pad6 a.u))
  | .fend => inFrag before
  | _ => true

def validFrom (before : List Line) : List Line → Bool
  | [] => true
  | l :: rest => lineOK before l && validFrom (l :: before) rest

def valid (file : List Line) : Bool := validFrom [] file

/-! ### element lookup -/

/-- one SFAC instruction: `SFAC el el …` or the explicit form `SFAC E a1 b1 … wt` (one element) -/
inductive SfacInstr where
  | elems (l : List String)
  | explicit (el : String)
deriving DecidableEq, Repr

/-- `SFACTable.parse_element_line`: every instruction APPENDS to the table built so far -/
def sfacStep (t : List String) : SfacInstr → List String
  | .elems l => l.foldl (fun t x => t ++ [x]) t
  | .explicit e => t ++ [e]

def sfacTable (instrs : List SfacInstr) : List String := instrs.foldl sfacStep []

/-- "the order of the SFAC instructions (and the order of element names in the first type of SFAC instruction)
    define the scattering factor numbers" -/
def specSfacTable (instrs : List SfacInstr) : List String :=
  instrs.flatMap fun | .elems l => l | .explicit e => [e]

/-- `Shelxfile.sfac2elem` over `SFACTable.__getitem__`: 0 raises IndexError (→ ''), a negative number counts
    from the end, past the end raises IndexError (→ '') -/
def sfac2elem (table : List String) (n : Int) : String :=
  if n = 0 then ""
  else
    let idx : Int := if n < 0 then (table.length : Int) + n + 1 else n
    let i : Int := idx - 1          -- Python list index, may be negative again
    let j : Int := if i < 0 then i + table.length else i
    if j < 0 then "" else match table[j.toNat]? with
      | some e => e
      | none => ""

/-- the element at the scattering-factor number's position (1-based) of the SFAC table -/
def specElement (table : List String) (n : Int) : Option String :=
  if 1 ≤ n then table[(n - 1).toNat]? else none

/-! ### RESI decoding -/

structure ResiDef where
  cls : String := ""
  num : Int := 0
  alias : Option Int := none
  chain : Option String := none
deriving DecidableEq, Repr

/-- a token of a RESI line after the keyword, classified as `_get_resi_definition` does -/
inductive RTok where
  | word (w : String)                 -- contains a letter, no ':'
  | chainNum (chain : String) (n : Int)   -- `A:12`
  | num (n : Int)                     -- no letter: `int(x)`
deriving DecidableEq, Repr

/-- `for x in resi[1:]: …` -/
def resiDecode (toks : List RTok) : ResiDef :=
  toks.foldl (fun d t => match t with
    | .word w => { d with cls := w }
    | .chainNum c n => { d with chain := some c, num := n }
    | .num n => if d.num > 0 then { d with alias := some n } else { d with num := n }) {}

def isWord : RTok → Bool | .word _ => true | _ => false
def isNum : RTok → Bool | .num _ => true | _ => false

/-- `RESI class[ ] number[0] alias`, class and number in either order: the class is the word, the number the
    first numeric token (or the part behind ':' of `chain:number`), the alias the second numeric token -/
def resiSpec (toks : List RTok) : ResiDef :=
  let words := toks.filterMap fun | .word w => some w | _ => none
  let nums := toks.filterMap fun | .num n => some n | _ => none
  let chains := toks.filterMap fun | .chainNum c n => some (c, n) | _ => none
  match chains.head? with
  | some (c, n) => { cls := words.head?.getD "", num := n, alias := nums.head?, chain := some c }
  | none => { cls := words.head?.getD "", num := nums.head?.getD 0, alias := nums.tail.head?, chain := none }

/-- the forms the syntax allows (`RESI class[ ] number[0] alias`, class and number in either order, the number
    possibly written `chain:number`; an alias only behind a positive number) -/
def resiFormOK : List RTok → Bool
  | [] => true
  | [.word _] => true
  | [.num _] => true
  | [.chainNum _ _] => true
  | [.word _, .num _] => true
  | [.num _, .word _] => true
  | [.word _, .chainNum _ _] => true
  | [.chainNum _ _, .word _] => true
  | [.num n, .num _] => decide (n > 0)
  | [.chainNum _ n, .num _] => decide (n > 0)
  | [.word _, .num n, .num _] => decide (n > 0)
  | [.num n, .word _, .num _] => decide (n > 0)
  | [.num n, .num _, .word _] => decide (n > 0)
  | [.word _, .chainNum _ n, .num _] => decide (n > 0)
  | [.chainNum _ n, .word _, .num _] => decide (n > 0)
  | [.chainNum _ n, .num _, .word _] => decide (n > 0)
  | _ => false

/-! ### include files (`+filename`) -/

inductive Item where
  | line (tag : Nat)          -- any line that is not an include line
  | inc (name : String)       -- `+name`
deriving DecidableEq, Repr

abbrev FS := List (String × List Item)

def fsGet (fs : FS) (name : String) : Option (List Item) := (fs.find? (·.1 = name)).map (·.2)

/-- `_find_included_files`: walks the growing `_reslist`; at `+name` the file's lines are inserted right
    behind the include line (which stays) and are walked next. A name seen before raises ValueError (`none`);
    a file that cannot be read inserts nothing. `fuel` bounds the walk (each name is expanded at most once). -/
def splice (fs : FS) : Nat → List String → List Item → Option (List Item)
  | _, _, [] => some []
  | 0, _, _ :: _ => none
  | fuel + 1, seen, .line t :: rest => (splice fs fuel seen rest).map (Item.line t :: ·)
  | fuel + 1, seen, .inc n :: rest =>
    if n ∈ seen then none
    else (splice fs fuel (n :: seen) ((fsGet fs n).getD [] ++ rest)).map (Item.inc n :: ·)

/-- declarative: the content of a file with every include line followed by the (expanded) content of the file
    it names; `depth` bounds the nesting -/
def spliceSpec (fs : FS) : Nat → List Item → List Item
  | _, [] => []
  | d, .line t :: rest => .line t :: spliceSpec fs d rest
  | 0, .inc n :: rest => .inc n :: spliceSpec fs 0 rest
  | d + 1, .inc n :: rest => .inc n :: (spliceSpec fs d ((fsGet fs n).getD []) ++ spliceSpec fs (d + 1) rest)

/-- SHELXL's reading of include lines, as a relation: `+name` is followed by the expansion of the file's content -/
inductive Expands (fs : FS) : List Item → List Item → Prop where
  | nil : Expands fs [] []
  | line (t : Nat) {rest out : List Item} : Expands fs rest out → Expands fs (.line t :: rest) (.line t :: out)
  | inc (n : String) {rest o1 o2 : List Item} : Expands fs ((fsGet fs n).getD []) o1 → Expands fs rest o2 →
      Expands fs (.inc n :: rest) (.inc n :: (o1 ++ o2))

def incNames : List Item → List String
  | [] => []
  | .inc n :: r => n :: incNames r
  | .line _ :: r => incNames r

/-- the nesting bound `d` of the executable specification suffices: no include line is left unexpanded -/
def deepOK (fs : FS) : Nat → List Item → Bool
  | _, [] => true
  | d, .line _ :: rest => deepOK fs d rest
  | 0, .inc n :: rest => ((fsGet fs n).getD []).isEmpty && deepOK fs 0 rest
  | d + 1, .inc n :: rest => deepOK fs d ((fsGet fs n).getD []) && deepOK fs (d + 1) rest


/-! ### derived views (atoms.py), as functions of the observed atom list plus the element of each atom -/

structure ViewAtom where
  obs : AtomObs
  element : String
deriving DecidableEq, Repr

/-- the observed atoms together with `Atom.element` -/
def viewAtoms (table : List String) (atoms : List AtomObs) : List ViewAtom :=
  atoms.map fun o => { obs := o, element := sfac2elem table o.sfac }

namespace View
def isHydrogen (a : ViewAtom) : Bool := a.element = "H" || a.element = "D" || a.element = "T"
def hydrogenAtoms (l : List ViewAtom) : List ViewAtom := l.filter isHydrogen
def qPeaks (l : List ViewAtom) : List ViewAtom := l.filter (·.obs.qpeak)
/-- `[x for x in hydrogen_atoms if x.afix]` -/
def ridingAtoms (l : List ViewAtom) : List ViewAtom := (hydrogenAtoms l).filter fun a => decide (a.obs.afix > 0)
/-- `atoms_in_class`: tags of the atoms whose residue class is `c`, first occurrence of each -/
def atomsInClass (l : List ViewAtom) (c : String) : List Nat :=
  l.foldl (fun acc a => if a.obs.resiCls = c && !acc.contains a.obs.tag then acc ++ [a.obs.tag] else acc) []
/-- `set(x.resinum …)` as a duplicate-free list in order of first occurrence -/
def residues (l : List ViewAtom) : List Int :=
  l.foldl (fun acc a => if acc.contains a.obs.resiNum then acc else acc ++ [a.obs.resiNum]) []
/-- `sum(x.uvals[1:])` (Python's `sum`: left to right from 0) -/
def tailSum (u : List Rat) : Rat := (u.drop 1).foldl (· + ·) 0
/-- `n_anisotropic_atoms`: `sum(x.uvals[1:]) > 0.00001` -/
def nAniso (l : List ViewAtom) : Nat := (l.filter fun a => decide (tailSum a.obs.uvals > 1 / 100000)).length
/-- `n_isotropic_atoms`: `sum(x.uvals[1:]) == 0.0` -/
def nIso (l : List ViewAtom) : Nat := (l.filter fun a => decide (tailSum a.obs.uvals = 0)).length

/-- specification: an atom is anisotropic when it has displacement values beyond the first -/
def hasAniso (u : List Rat) : Bool := (u.drop 1).any (fun x => decide (x ≠ 0))
/-- anisotropic atoms of the structure (peaks are not atoms) -/
def specNAniso (l : List ViewAtom) : Nat := (l.filter fun a => !a.obs.qpeak && hasAniso a.obs.uvals).length
def specNIso (l : List ViewAtom) : Nat := (l.filter fun a => !a.obs.qpeak && !hasAniso a.obs.uvals).length
end View

end Shelx.C03

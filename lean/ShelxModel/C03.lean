/- C03 — model and specification (stub; see HACKING.md) -/
namespace Shelx.C03

end Shelx.C03

/-
  C11 — operators, specification and executable checkers (everything that does NOT depend on the table
  regenerated from cards.py, so that the expensive kernel checks over the tabulated settings are not redone when
  only `LATT.lattdict` changes). The model of the code is in ShelxModel/C11.lean.
-/


namespace Shelx.C11

/-! ### operators -/

structure Mat where
  a11 : Int
  a12 : Int
  a13 : Int
  a21 : Int
  a22 : Int
  a23 : Int
  a31 : Int
  a32 : Int
  a33 : Int
deriving DecidableEq, Repr

structure Vec where
  x : Rat
  y : Rat
  z : Rat
deriving DecidableEq, Repr

/-- `x' = m x + t` -/
structure Op where
  m : Mat
  t : Vec
deriving DecidableEq, Repr

def Mat.one : Mat := ⟨1, 0, 0, 0, 1, 0, 0, 0, 1⟩
def Mat.neg (a : Mat) : Mat := ⟨-a.a11, -a.a12, -a.a13, -a.a21, -a.a22, -a.a23, -a.a31, -a.a32, -a.a33⟩
def Mat.mul (a b : Mat) : Mat :=
  ⟨a.a11 * b.a11 + a.a12 * b.a21 + a.a13 * b.a31, a.a11 * b.a12 + a.a12 * b.a22 + a.a13 * b.a32, a.a11 * b.a13 + a.a12 * b.a23 + a.a13 * b.a33,
   a.a21 * b.a11 + a.a22 * b.a21 + a.a23 * b.a31, a.a21 * b.a12 + a.a22 * b.a22 + a.a23 * b.a32, a.a21 * b.a13 + a.a22 * b.a23 + a.a23 * b.a33,
   a.a31 * b.a11 + a.a32 * b.a21 + a.a33 * b.a31, a.a31 * b.a12 + a.a32 * b.a22 + a.a33 * b.a32, a.a31 * b.a13 + a.a32 * b.a23 + a.a33 * b.a33⟩
def Mat.mulVec (a : Mat) (v : Vec) : Vec :=
  ⟨a.a11 * v.x + a.a12 * v.y + a.a13 * v.z, a.a21 * v.x + a.a22 * v.y + a.a23 * v.z, a.a31 * v.x + a.a32 * v.y + a.a33 * v.z⟩

def Vec.zero : Vec := ⟨0, 0, 0⟩
def Vec.add (u v : Vec) : Vec := ⟨u.x + v.x, u.y + v.y, u.z + v.z⟩
def Vec.neg (u : Vec) : Vec := ⟨-u.x, -u.y, -u.z⟩
def Vec.ofTriple (p : Rat × Rat × Rat) : Vec := ⟨p.1, p.2.1, p.2.2⟩

/-- fractional part, Python's `v % 1` (result in [0, 1) for either sign) -/
def fract (x : Rat) : Rat := x - x.floor
def fractV (v : Vec) : Vec := ⟨fract v.x, fract v.y, fract v.z⟩

/-- the representative of an operator modulo integer translations -/
def cls (o : Op) : Op := ⟨o.m, fractV o.t⟩

def ident : Op := ⟨Mat.one, Vec.zero⟩

/-! ### Specification -/

/-- centrosymmetric setting (`LATT.centric`: `self.N > 0`) -/
def centricOf (N : Int) : Bool := decide (N > 0)



/-- composition: `(comp a b) x = a (b x)` -/
def comp (a b : Op) : Op := ⟨a.m.mul b.m, (a.m.mulVec b.t).add a.t⟩

def transl (c : Vec) : Op := ⟨Mat.one, c⟩
def inversion : Op := ⟨Mat.one.neg, Vec.zero⟩

/-- the SHELXL manual: LATT 1=P, 2=I, 3=rhombohedral obverse on hexagonal axes, 4=F, 5=A, 6=B, 7=C -/
def specCentringNat (n : Nat) : List Vec :=
  match n with
  | 2 => [⟨1/2, 1/2, 1/2⟩]
  | 3 => [⟨2/3, 1/3, 1/3⟩, ⟨1/3, 2/3, 2/3⟩]
  | 4 => [⟨0, 1/2, 1/2⟩, ⟨1/2, 0, 1/2⟩, ⟨1/2, 1/2, 0⟩]
  | 5 => [⟨0, 1/2, 1/2⟩]
  | 6 => [⟨1/2, 0, 1/2⟩]
  | 7 => [⟨1/2, 1/2, 0⟩]
  | _ => []

def specCentring (N : Int) : List Vec := specCentringNat N.natAbs

/-- the SHELXL manual: `LATT N[1]` — an omitted number means N = 1 (primitive and centrosymmetric) -/
def lattOf (n : Option Int) : Int := n.getD 1

/-- number of lattice points per cell -/
def mult (N : Int) : Nat := 1 + (specCentring N).length

def signs (centric : Bool) : List Op := if centric then [ident, inversion] else [ident]

/-- `[ c ∘ i ∘ s | s ∈ id :: S, c ∈ 0 :: C, i ∈ [+] or [+, −] ]` -/
def fullGroupWith (C : List Vec) (centric : Bool) (S : List Op) : List Op :=
  (ident :: S).flatMap fun s => (Vec.zero :: C).flatMap fun c => (signs centric).map fun i => comp (transl c) (comp i s)

def fullGroup (N : Int) (S : List Op) : List Op := fullGroupWith (specCentring N) (centricOf N) S

/-! ### the same group referred to another origin

    SHELXL takes any setting: the SYMM lines of a structure whose origin is not the conventional one (origin choice 1 of
    the centrosymmetric groups with the inversion centre off the origin, an axis through (1/8, 0, z), …) carry the
    translations `t + (1 − R) u`, whatever the shift `u` is. -/

/-- the operator referred to an origin moved by `−u`: `(1, u) ∘ o ∘ (1, −u) = (R, t + u − R u)` -/
def shiftOp (u : Vec) (o : Op) : Op := ⟨o.m, (o.t.add u).add (o.m.mulVec u).neg⟩

/-- the setting `LATT N / SYMM S` referred to an origin moved by `−u`, again as LATT + SYMM. For N < 0 the SYMM
    operators are moved. For N > 0 the inversion centre is no longer at the origin: LATT becomes `−N`, and the
    inversion and the inverted copy of every SYMM operator are SYMM lines of their own. -/
def shiftSetting (u : Vec) (N : Int) (S : List Op) : Int × List Op :=
  if centricOf N then
    (-N, shiftOp u inversion :: S.flatMap fun s => [shiftOp u s, shiftOp u (comp inversion s)])
  else (N, S.map (shiftOp u))

/-- a valid LATT number, and the SYMM operators are pairwise distinct (and distinct from the identity) modulo
    centring, inversion (when N > 0) and integer translations: the spec list has no class twice -/
def ValidSetting (N : Int) (S : List Op) : Prop :=
  (1 ≤ N.natAbs ∧ N.natAbs ≤ 7) ∧ ((fullGroup N S).map cls).Nodup

instance (N : Int) (S : List Op) : Decidable (ValidSetting N S) := by unfold ValidSetting; infer_instance

/-- closed under composition modulo ℤ³ -/
def Closed (G : List Op) : Prop := ∀ a ∈ G, ∀ b ∈ G, cls (comp a b) ∈ G.map cls

instance (G : List Op) : Decidable (Closed G) := by unfold Closed; infer_instance

/-! ### executable checkers (Bool, arranged so that the kernel evaluates every class once; their soundness with
    respect to `Nodup`, `Closed` is proved in ShelxProps/C11.lean) -/

/-- forces `n` to a literal before it is passed on (kernel evaluation is by name) -/
def strict {β : Type} (n : Nat) (f : Nat → β) : β :=
  match n with
  | 0 => f 0
  | k + 1 => f (k + 1)

/-- any function would do: a hit is confirmed by structural equality -/
def hashOp (o : Op) : Nat :=
  let m := o.m
  let h := [m.a11, m.a12, m.a13, m.a21, m.a22, m.a23, m.a31, m.a32, m.a33].foldl (fun h a => h * 3 + (a + 1).toNat) 0
  [o.t.x, o.t.y, o.t.z].foldl (fun h q => (h * 64 + q.num.toNat) * 64 + q.den) h

/-- the classes of `G`, each with its (forced) hash, handed to `k` -/
def withKeys {β : Type} (G : List Op) (k : List (Nat × Op) → β) : β :=
  match G with
  | [] => k []
  | o :: l => strict (hashOp (cls o)) fun h => withKeys l fun K => k ((h, cls o) :: K)

def memK (K : List (Nat × Op)) (h : Nat) (p : Op) : Bool := K.any fun e => e.1 == h && decide (e.2 = p)

def nodupK : List (Nat × Op) → Bool
  | [] => true
  | e :: K => !memK K e.1 e.2 && nodupK K

/-- no class twice -/
def nodupB (G : List Op) : Bool := withKeys G nodupK

/-- every `g ∘ b` (g ∈ gens, b ∈ G) is in `G` modulo ℤ³ -/
def leftClosedB (gens G : List Op) : Bool :=
  withKeys G fun K => gens.all fun g => G.all fun b => strict (hashOp (cls (comp g b))) fun h => memK K h (cls (comp g b))

/-- generators of the group of a setting: the SYMM operators, the centring translations, the inversion if N > 0 -/
def gensOf (N : Int) (S : List Op) : List Op :=
  S ++ (specCentring N).map transl ++ (if centricOf N then [inversion] else [])

def validB (N : Int) (S : List Op) : Bool :=
  decide (1 ≤ N.natAbs) && decide (N.natAbs ≤ 7) && nodupB (fullGroup N S)

/-! ### closure check on integer numerators over a common denominator `D` (fast in the kernel) -/

/-- an operator whose translation is `(x, y, z) / D` -/
structure SOp where
  m : Mat
  x : Int
  y : Int
  z : Int
deriving DecidableEq, Repr

def ofS (D : Nat) (s : SOp) : Op := ⟨s.m, ⟨(s.x : Rat) / D, (s.y : Rat) / D, (s.z : Rat) / D⟩⟩
def toS (D : Nat) (o : Op) : SOp := ⟨o.m, (o.t.x * D).floor, (o.t.y * D).floor, (o.t.z * D).floor⟩
def normS (D : Nat) (s : SOp) : SOp := ⟨s.m, s.x % D, s.y % D, s.z % D⟩
def compS (a b : SOp) : SOp :=
  ⟨a.m.mul b.m, a.m.a11 * b.x + a.m.a12 * b.y + a.m.a13 * b.z + a.x, a.m.a21 * b.x + a.m.a22 * b.y + a.m.a23 * b.z + a.y,
   a.m.a31 * b.x + a.m.a32 * b.y + a.m.a33 * b.z + a.z⟩

def strictInt {β : Type} (i : Int) (f : Int → β) : β :=
  match i with
  | Int.ofNat n => strict n fun n => f (Int.ofNat n)
  | Int.negSucc n => strict n fun n => f (Int.negSucc n)

/-- hands `s` on with every entry evaluated -/
def forceS {β : Type} (s : SOp) (k : SOp → β) : β :=
  strictInt s.m.a11 fun a11 => strictInt s.m.a12 fun a12 => strictInt s.m.a13 fun a13 =>
  strictInt s.m.a21 fun a21 => strictInt s.m.a22 fun a22 => strictInt s.m.a23 fun a23 =>
  strictInt s.m.a31 fun a31 => strictInt s.m.a32 fun a32 => strictInt s.m.a33 fun a33 =>
  strictInt s.x fun x => strictInt s.y fun y => strictInt s.z fun z =>
  k ⟨⟨a11, a12, a13, a21, a22, a23, a31, a32, a33⟩, x, y, z⟩

def hashS (s : SOp) : Nat :=
  let m := s.m
  [m.a11, m.a12, m.a13, m.a21, m.a22, m.a23, m.a31, m.a32, m.a33].foldl (fun h a => h * 3 + (a + 1).toNat) (((s.x.toNat * 64) + s.y.toNat) * 64 + s.z.toNat)

/-- the list with every element evaluated and paired with its hash -/
def withS {β : Type} (l : List SOp) (k : List (Nat × SOp) → β) : β :=
  match l with
  | [] => k []
  | s :: l => forceS s fun s' => strict (hashS s') fun h => withS l fun K => k ((h, s') :: K)

def memS (K : List (Nat × SOp)) (h : Nat) (p : SOp) : Bool := K.any fun e => e.1 == h && decide (e.2 = p)

/-- `g ∘ b ∈ G` modulo ℤ³ for all `g ∈ gens`, `b ∈ G`, computed on numerators over `D`; also checks that the
    numerators represent the operators exactly -/
def leftClosedSB (D : Nat) (gens G : List Op) : Bool :=
  decide (0 < D) &&
  (gens.all fun g => decide (ofS D (toS D g) = g)) &&
  (G.all fun b => decide (cls (ofS D (toS D b)) = cls b)) &&
  withS (gens.map (toS D)) fun gs => withS (G.map fun b => normS D (toS D b)) fun K =>
    gs.all fun g => K.all fun b => forceS (normS D (compS g.2 b.2)) fun p => strict (hashS p) fun h => memS K h p

/-! ### Tabulated settings (SYMM lines as SHELXL lists them; `order` = point-group order × lattice points,
    from International Tables A) -/

structure Setting where
  name : String
  N : Int
  S : List Op
  order : Nat
deriving Repr

/-! ### what the kernel evaluates for each tabulated setting (the `decide +kernel` runs are spread over the files
    ShelxProps/Lemmas/C11Tab*.lean, which build in parallel; soundness: ShelxProps/Lemmas/C11Closed.lean) -/

/-- valid setting, and as many operators as International Tables A list for the group -/
def validOK (e : Setting) : Bool := validB e.N e.S && ((fullGroup e.N e.S).length == e.order)

/-- the spec list is closed under left multiplication by `gs` (numerators over 24) -/
def closedUnder (gs : Setting → List Op) (e : Setting) : Bool := leftClosedSB 24 (gs e) (fullGroup e.N e.S)

def gensOfSetting (e : Setting) : List Op := gensOf e.N e.S

/-- valid setting, spec list closed under its generators, order as in International Tables A -/
def specOK (e : Setting) : Bool := validOK e && closedUnder gensOfSetting e

end Shelx.C11

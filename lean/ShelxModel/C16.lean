/- C16 — model and specification (stub; see HACKING.md) -/
namespace Shelx.C16

end Shelx.C16

/-
  C16 — instruction objects expose the parameters the SHELXL syntax assigns.

  MODEL (mirrors shelxfile/shelx/cards.py):
    * `CardSlots` / `Slot` — the shape of a card class `__init__` as the translator (extract/tables_c16.py)
      reads it off the AST: constant assignments before the `_parse_line` call (`defaults`), then, in source
      order, `if len(p) > g: self.x = conv(p[j])` / `self.x = p[a:b]` / unguarded reads / late constants (`slots`).
      The regenerated table is `Shelx.Extracted.slotTable` (ShelxModel/Extracted/C16Slots.lean).
    * `defsSlots` — `Restraint._set_defs_values` (regenerated `defsTable`): runs inside `_parse_line`, i.e. after the
      defaults and before the positional reads.
    * `fill` — executes that statement list on a parameter list; attribute store = assoc list, a missing key is the
      `AttributeError` Python raises when the attribute is read.
    * hand-written residual classes (statements that do not fit the slot pattern): PART, SUMP, TWIN,
      LATT, HTAB, LSCycles (with its `number` setter / `_as_str`), WGHT/PLAN printers for the setter round trip.
  SPEC (code independent): `syntaxTable` (keyword -> ordered parameters, widths, kinds, defaults; SHELXL manual,
    DESIGN.md Appendix A), `formLens` (legal parameter prefixes), `specVal` (value a parameter denotes in a form).
-/
namespace Shelx.C16

/-! ## values -/

inductive PyErr
  | IndexError | AttributeError | ValueError | TypeError | ParseError
deriving DecidableEq, Repr

/-- an attribute value as far as the property observes it -/
inductive Val
  | none                        -- Python `None` ("not given")
  | num (r : Rat)
  | nums (l : List Rat)
  | other (s : String)          -- a constant the property does not talk about (`True`, `''`, …)
deriving DecidableEq, Repr

/-- attribute store of one object; newest assignment first; a missing key = `AttributeError` on read -/
abbrev Obj := List (String × Val)

def Obj.get (o : Obj) (a : String) : Option Val := (o.find? (fun kv => kv.1 == a)).map (·.2)
def Obj.set (o : Obj) (a : String) (v : Val) : Obj := (a, v) :: o

/-! ## model: slot tables -/

inductive Conv
  | id | int                    -- `p[j]` / `float(p[j])`  vs  `int(p[j])`
deriving DecidableEq, Repr

inductive Src
  | idx (j : Nat)                         -- `p[j]`
  | slice (a : Nat) (b : Option Nat)      -- `p[a:b]` / `p[a:]`
  | const (v : Val)                       -- `self.x = <literal>`
  | defs (field : String) (mult : Rat)    -- `self.x = self.shx.defs.<field> [* mult]`
deriving DecidableEq, Repr

inductive Guard
  | always
  | gt (g : Nat)                -- `if len(p) > g:`
  | defsPresent                 -- `if self.shx.defs:`
deriving DecidableEq, Repr

structure Slot where
  attr : String
  guard : Guard
  src : Src
  conv : Conv := .id
deriving DecidableEq, Repr

structure CardSlots where
  name : String
  base : String                 -- "Command" | "Restraint"
  intnums : Bool                -- `_parse_line(spline, intnums=True)`
  wordsAttr : Option String     -- attribute that receives the non-numeric tokens (`self.atoms`)
  defaults : List (String × Val)
  slots : List Slot
  checks : Nat                  -- validation statements (`if …: raise/print`, `self._paircheck()`), not modelled
deriving Repr

structure DefsRule where
  name : String
  attr : String
  field : String
  mult : Rat
deriving Repr

/-- the environment one `__init__` runs in -/
structure Env where
  ps : List Rat                 -- numeric parameters, in file order
  defs : Option Obj             -- the `shx.defs` object, if a DEFS instruction preceded
deriving Repr

def Guard.passes (e : Env) : Guard → Bool
  | .always => true
  | .gt g => decide (e.ps.length > g)
  | .defsPresent => e.defs.isSome

/-- Python `int(x)` on a float: truncation toward zero -/
def pyInt (r : Rat) : Int := r.num.tdiv r.den

def Conv.app : Conv → Val → Val
  | .int, .num r => .num (pyInt r)
  | _, v => v

def pySlice (ps : List Rat) (a : Nat) (b : Option Nat) : List Rat :=
  match b with
  | some b => (ps.drop a).take (b - a)
  | none => ps.drop a

def readSrc (e : Env) : Src → Except PyErr Val
  | .idx j => match e.ps[j]? with
    | some r => .ok (.num r)
    | none => .error .IndexError
  | .slice a b => .ok (.nums (pySlice e.ps a b))
  | .const v => .ok v
  | .defs f m => match e.defs with
    | none => .error .AttributeError
    | some d => match d.get f with
      | some (.num r) => .ok (.num (r * m))
      | some _ => .error .TypeError
      | none => .error .AttributeError

def stepSlot (e : Env) (o : Obj) (s : Slot) : Except PyErr Obj :=
  if s.guard.passes e then
    match readSrc e s.src with
    | .ok v => .ok (o.set s.attr (s.conv.app v))
    | .error x => .error x
  else .ok o

def run (e : Env) : List Slot → Obj → Except PyErr Obj
  | [], o => .ok o
  | s :: t, o => match stepSlot e o s with
    | .ok o' => run e t o'
    | .error x => .error x

def defsSlots (rules : List DefsRule) (name : String) : List Slot :=
  (rules.filter (fun r => r.name == name)).map fun r => ⟨r.attr, .defsPresent, .defs r.field r.mult, .id⟩

/-- the statement list of one `__init__`, in execution order -/
def stmtsOf (rules : List DefsRule) (c : CardSlots) : List Slot :=
  c.defaults.map (fun kv => ⟨kv.1, .always, .const kv.2, .id⟩)
    ++ (if c.base == "Restraint" then defsSlots rules c.name else [])
    ++ c.slots

def isInt (r : Rat) : Bool := r.den == 1

/-- `Class(shx, spline)` for a table-shaped class -/
def fill (rules : List DefsRule) (c : CardSlots) (e : Env) : Except PyErr Obj :=
  if c.intnums && !(e.ps.all isInt) then .error .ValueError     -- `int('1.5')`
  else run e (stmtsOf rules c) []

/-! ## specification: the SHELXL syntax table -/

inductive Kind
  | real | int
deriving DecidableEq, Repr

inductive Dflt
  | req                                   -- mandatory
  | notGiven                              -- `[#]`
  | const (v : Val)                       -- `[d]`
  | defs (field : String) (mult : Rat)    -- `mult ×` the DEFS value of `field` (documented default when no DEFS)
deriving DecidableEq, Repr

structure Param where
  doc : String                  -- name in the SHELXL manual
  attr : String                 -- attribute of the library object that exposes it
  width : Nat := 1              -- 1: scalar; n > 1: n consecutive values exposed as one list; 0: all remaining values
  kind : Kind := .real
  dflt : Dflt := .req
deriving DecidableEq, Repr

structure Syntax where
  kw : String
  cls : String                  -- class of the library that is built for it
  params : List Param
  names : Bool := false         -- atom names follow the numbers
deriving Repr

/-- documented defaults of `DEFS sd[0.02] sf[0.1] su[0.01] ss[0.04] maxsof[1]` -/
def defsDoc : String → Rat
  | "sd" => 0.02 | "sf" => 0.1 | "su" => 0.01 | "ss" => 0.04 | "maxsof" => 1 | _ => 0

def rq (doc attr : String) (kind : Kind := .real) : Param := ⟨doc, attr, 1, kind, .req⟩
def ng (doc attr : String) (kind : Kind := .real) : Param := ⟨doc, attr, 1, kind, .notGiven⟩
def df (doc attr : String) (d : Rat) (kind : Kind := .real) : Param := ⟨doc, attr, 1, kind, .const (.num d)⟩
def dd (doc attr field : String) (m : Rat := 1) : Param := ⟨doc, attr, 1, .real, .defs field m⟩

/-- Keyword -> ordered parameters. Source: SHELXL manual / the syntax summary in DESIGN.md Appendix A.
    `attr` is the public attribute name of the library object (the `attrMap`). -/
def syntaxTable : List Syntax := [
  ⟨"ABIN", "ABIN", [ng "n1" "n1", ng "n2" "n2"], false⟩,
  ⟨"AFIX", "AFIX", [rq "mn" "mn" .int, ng "d" "d", df "sof" "sof" 11, df "U" "U" 10.08], false⟩,
  ⟨"BLOC", "BLOC", [ng "n1" "n1", ng "n2" "n2"], true⟩,
  ⟨"CELL", "CELL", [rq "lambda" "wavelen", rq "a" "a", rq "b" "b", rq "c" "c", rq "alpha" "alpha",
                    rq "beta" "beta", rq "gamma" "gamma"], false⟩,
  ⟨"ZERR", "ZERR", [rq "Z" "Z", rq "esd(a)" "esd_a", rq "esd(b)" "esd_b", rq "esd(c)" "esd_c",
                    rq "esd(alpha)" "esd_al", rq "esd(beta)" "esd_be", rq "esd(gamma)" "esd_ga"], false⟩,
  ⟨"FMAP", "FMAP", [df "code" "code" 2, ng "axis" "axis", df "nl" "nl" 53], false⟩,
  ⟨"GRID", "GRID", [ng "sl" "sl", ng "sa" "sa", ng "sd" "sd", ng "dl" "dl", ng "da" "da", ng "dd" "dd"], false⟩,
  ⟨"HKLF", "HKLF", [df "N" "n" 0 .int, df "S" "s" 1,
                    ⟨"r11...r33", "matrix", 9, .real, .const (.nums [1, 0, 0, 0, 1, 0, 0, 0, 1])⟩,
                    df "sm" "sm" 1, df "m" "m" 0], false⟩,
  ⟨"MERG", "MERG", [df "n" "n" 2], false⟩,
  ⟨"MORE", "MORE", [df "m" "m" 1 .int], false⟩,
  ⟨"MOVE", "MOVE", [⟨"dx dy dz", "dxdydz", 3, .real, .const (.nums [0, 0, 0])⟩, df "sign" "sign" 1], false⟩,
  ⟨"MPLA", "MPLA", [ng "na" "na" .int], true⟩,
  ⟨"PLAN", "PLAN", [df "npeaks" "npeaks" 20 .int, ng "d1" "d1", ng "d2" "d2"], false⟩,
  ⟨"PRIG", "PRIG", [ng "p" "p"], false⟩,
  ⟨"SHEL", "SHEL", [ng "lowres" "lowres", df "highres" "highres" 0], false⟩,       -- lowres[infinite]: "not given"
  ⟨"SIZE", "SIZE", [rq "dx" "dx", rq "dy" "dy", rq "dz" "dz"], false⟩,
  ⟨"SPEC", "SPEC", [df "del" "d" 0.2], false⟩,
  ⟨"STIR", "STIR", [rq "sres" "sres", df "step" "step" 0.01], false⟩,
  ⟨"TWST", "TWST", [df "N" "N" 1], false⟩,                                          -- N[1] since SHELXL-2018/3
  ⟨"WGHT", "WGHT", [df "a" "a" 0.1, df "b" "b" 0, df "c" "c" 0, df "d" "d" 0, df "e" "e" 0, df "f" "f" 0.33333], false⟩,
  ⟨"WIGL", "WIGL", [df "del" "d" 0.2, df "dU" "dU" 0.2], false⟩,
  ⟨"WPDB", "WPDB", [df "n" "n" 1], false⟩,
  ⟨"XNPD", "XNPD", [df "Umin" "Umin" (-0.001)], false⟩,
  -- restraints
  ⟨"DEFS", "DEFS", [df "sd" "sd" 0.02, df "sf" "sf" 0.1, df "su" "su" 0.01, df "ss" "ss" 0.04, df "maxsof" "maxsof" 1], false⟩,
  ⟨"DFIX", "DFIX", [rq "d" "d", dd "s" "s" "sd"], true⟩,
  ⟨"DANG", "DANG", [rq "d" "d", dd "s" "s" "sd" 2], true⟩,
  ⟨"SADI", "SADI", [dd "s" "s" "sd"], true⟩,
  ⟨"SAME", "SAME", [dd "s1" "s1" "sd", dd "s2" "s2" "sd" 2], true⟩,
  ⟨"FLAT", "FLAT", [dd "s" "s" "sf"], true⟩,
  ⟨"CHIV", "CHIV", [df "V" "V" 0, dd "s" "s" "sf"], true⟩,
  ⟨"DELU", "DELU", [dd "s1" "s1" "su", dd "s2" "s2" "su"], true⟩,
  ⟨"SIMU", "SIMU", [dd "s" "s" "ss", dd "st" "st" "ss" 2, df "dmax" "dmax" 2], true⟩,
  ⟨"RIGU", "RIGU", [df "s1" "s1" 0.004, df "s2" "s2" 0.004], true⟩,
  ⟨"ISOR", "ISOR", [df "s" "s" 0.1, df "st" "st" 0.2], true⟩,
  ⟨"NCSY", "NCSY", [rq "DN" "DN", df "sd" "sd" 0.1, df "su" "su" 0.05], true⟩,
  ⟨"BUMP", "BUMP", [df "s" "s" 0.02], false⟩,
  ⟨"EADP", "EADP", [], true⟩,
  ⟨"EXYZ", "EXYZ", [], true⟩,
  ⟨"BOND", "BOND", [], true⟩,
  ⟨"DAMP", "DAMP", [df "damp" "damp" 0.7, df "limse" "limse" 15], false⟩,
  ⟨"SWAT", "SWAT", [df "g" "g" 0, df "U" "U" 2], false⟩,
  -- classes whose constructor is not table shaped (hand-written models below)
  ⟨"PART", "PART", [rq "n" "n" .int, df "sof" "sof" 11], false⟩,
  ⟨"LATT", "LATT", [df "N" "N" 1 .int], false⟩,
  ⟨"TWIN", "TWIN", [⟨"r11...r33", "matrix", 9, .real, .const (.nums [-1, 0, 0, 0, -1, 0, 0, 0, -1])⟩,
                    df "N" "n_value" 2 .int], false⟩,
  ⟨"HTAB", "HTAB", [df "dh" "dh" 2], false⟩,
  ⟨"L.S.", "LSCycles", [rq "nls" "number" .int, df "nrf" "_nrf" 0 .int, df "nextra" "_nextra" 0 .int], false⟩,
  ⟨"CGLS", "LSCycles", [rq "nls" "number" .int, df "nrf" "_nrf" 0 .int, df "nextra" "_nextra" 0 .int], false⟩,
  ⟨"SUMP", "SUMP", [rq "c" "c", rq "sigma" "sigma", ⟨"c1 m1 ...", "fvars", 0, .real, .req⟩], false⟩,
  ⟨"BASF", "BASF", [⟨"k ...", "scale_factors", 0, .real, .req⟩], false⟩,
  ⟨"UNIT", "UNIT", [⟨"n ...", "values", 0, .real, .req⟩], false⟩,
  ⟨"HFIX", "HFIX", [⟨"mn U d", "params", 0, .real, .req⟩], true⟩,
  ⟨"ACTA", "ACTA", [⟨"2theta", "twotheta", 0, .real, .req⟩], false⟩
]

def syntaxOf (kw : String) : Option Syntax := syntaxTable.find? (fun s => s.kw == kw)

/-- value positions of the parameters: (parameter, index of its first value) -/
def positionsFrom : Nat → List Param → List (Param × Nat)
  | _, [] => []
  | k, p :: t => (p, k) :: positionsFrom (k + p.width) t

def Syntax.positions (sp : Syntax) : List (Param × Nat) := positionsFrom 0 sp.params

def Syntax.finite (sp : Syntax) : Bool := sp.params.all (fun p => p.width ≥ 1)

/-- the legal numbers of numeric values: a form ends after a mandatory parameter that is the last mandatory one,
    or after any optional one; the empty form is legal iff there is no mandatory parameter -/
def formLens (sp : Syntax) : List Nat :=
  let ends := sp.positions.map (fun pk => (pk.1, pk.2 + pk.1.width))
  let nreq := (sp.params.filter (fun p => p.dflt == .req)).length
  let minLen := ((ends.take nreq).map (·.2)).foldl max 0
  (if nreq == 0 then [0] else []) ++ ((ends.filter (fun pe => pe.2 ≥ minLen)).map (·.2))

inductive SpecVal
  | given (v : Val)
  | omitted (dflt : Val)        -- the object must report `dflt` or "not given" (`None`)
deriving DecidableEq, Repr

def dfltVal (eff : String → Rat) : Dflt → Val
  | .req => .none
  | .notGiven => .none
  | .const v => v
  | .defs f m => .num (eff f * m)

/-- what parameter `P` (first value at `pos`) denotes in the line with numeric values `ps` -/
def specVal (eff : String → Rat) (P : Param) (pos : Nat) (ps : List Rat) : SpecVal :=
  if P.width == 0 then .given (.nums (ps.drop pos))
  else if pos + P.width ≤ ps.length then
    (if P.width == 1 then match ps[pos]? with
      | some r => .given (.num r)
      | none => .omitted .none
     else .given (.nums ((ps.drop pos).take P.width)))
  else .omitted (dfltVal eff P.dflt)

/-- does the observed attribute (`none` = attribute missing) satisfy the property? -/
def accepts (got : Option Val) : SpecVal → Bool
  | .given v => got == some v
  | .omitted d => got == some d || got == some .none

/-- effective DEFS values: those of the DEFS line `qs` if there is one, else the documented ones -/
def effDefs (qs : Option (List Rat)) (f : String) : Rat :=
  match qs with
  | none => defsDoc f
  | some qs =>
    let i := match f with | "sd" => 0 | "sf" => 1 | "su" => 2 | "ss" => 3 | _ => 4
    match qs[i]? with
    | some r => r
    | none => defsDoc f

/-- the integer-kind parameters carry integers -/
def intsOK (sp : Syntax) (ps : List Rat) : Bool :=
  sp.positions.all fun pk => pk.1.kind != .int || ((ps.drop pk.2).take (max pk.1.width 1)).all isInt

/-! ## conformance of a slot table to a syntax entry (decidable; evaluated on the regenerated table) -/

/-- guard decision of a slot for `n` numeric values -/
def Guard.passesN (n : Nat) (hasDefs : Bool) : Guard → Bool
  | .always => true
  | .gt g => decide (n > g)
  | .defsPresent => hasDefs

def defsFields : List String := ["sd", "sf", "su", "ss", "maxsof"]

/-- `p[j]` is only read when it exists; `shx.defs.<field>` only when there is a DEFS object and the field is one of its five -/
def Src.safeN (n : Nat) (hasDefs : Bool) : Src → Bool
  | .idx j => decide (j < n)
  | .defs f _ => hasDefs && defsFields.contains f
  | _ => true

/-- the assignment that determines attribute `a` for `n` values: the last one whose guard passes -/
def winner (stmts : List Slot) (n : Nat) (hasDefs : Bool) (a : String) : Option Slot :=
  stmts.reverse.find? (fun s => s.attr == a && s.guard.passesN n hasDefs)

def defaultOK (P : Param) (hasDefs : Bool) (s : Slot) : Bool :=
  match s.src, P.dflt with
  | .const v, .const d => v == d || v == .none
  | .const v, .notGiven => v == .none
  | .const v, .defs f m => !hasDefs && (v == .num (defsDoc f * m))
  | .defs f' m', .defs f m => hasDefs && f' == f && m' == m
  | _, _ => false

def winnerOK (P : Param) (pos n : Nat) (hasDefs : Bool) (w : Option Slot) : Bool :=
  match w with
  | none => false
  | some s =>
    if pos + P.width ≤ n then
      (if P.width == 1 then s.src == .idx pos
       else s.src == .slice pos (some (pos + P.width)) || (s.src == .slice pos none && n == pos + P.width))
      && (s.conv == .id || P.kind == .int)
    else defaultOK P hasDefs s && s.conv == .id

/-- a table-shaped class conforms to a syntax entry: in every legal form, with and without DEFS, no `p[j]` is read
    that does not exist, and every parameter's attribute is decided by the read at its own position (given) or by
    its documented default / `None` (omitted) -/
def conforms (rules : List DefsRule) (c : CardSlots) (sp : Syntax) : Bool :=
  let stmts := stmtsOf rules c
  sp.finite && (!c.intnums || sp.params.all (fun p => p.kind == .int)) &&
  (formLens sp).all fun n => [false, true].all fun hd =>
    (stmts.all fun s => !s.guard.passesN n hd || s.src.safeN n hd) &&
    (sp.positions.all fun pk => winnerOK pk.1 pk.2 n hd (winner stmts n hd pk.1.attr))

/-- the first place where `conforms` fails: (form length, DEFS present, attribute or "index:<attr>") — the recipe
    for the failing input -/
def firstMismatch (rules : List DefsRule) (c : CardSlots) (sp : Syntax) : Option (Nat × Bool × String) :=
  let stmts := stmtsOf rules c
  ((formLens sp).flatMap fun n => [false, true].flatMap fun hd =>
    ((stmts.filter fun s => s.guard.passesN n hd && !s.src.safeN n hd).map fun s => (n, hd, "index:" ++ s.attr)) ++
    ((sp.positions.filter fun pk => !winnerOK pk.1 pk.2 n hd (winner stmts n hd pk.1.attr)).map fun pk => (n, hd, pk.1.attr))).head?

/-! ## tokens: numbers first, then names -/

inductive Tok
  | num (r : Rat)
  | word (s : String)
deriving DecidableEq, Repr

/-- `_parse_line`: numeric tokens go to the parameter list, the others to the word list, order kept -/
def parseLine (ts : List Tok) : List Rat × List String :=
  (ts.filterMap (fun t => match t with | .num r => some r | .word _ => none),
   ts.filterMap (fun t => match t with | .word s => some s | .num _ => none))

/-! ## lexical layer: which tokens are numbers -/

/-- MODEL of the test in `Command._parse_line`: `str.isdigit(x[0]) or x[0] in '+-' or (x[0] == '.' and x[1:2].isdigit())` -/
def cmdIsNum : List Char → Bool
  | [] => false
  | c :: t => c.isDigit || c == '+' || c == '-' || (c == '.' && (match t with | d :: _ => d.isDigit | [] => false))

def dropDigits : List Char → List Char
  | [] => []
  | c :: t => if c.isDigit then dropDigits t else c :: t

/-- optional exponent part: `[eE][+-]?digit+` -/
def expOK : List Char → Bool
  | [] => true
  | c :: t => (c == 'e' || c == 'E') &&
      (match t with
       | [] => false
       | s :: u => if s == '+' || s == '-' then (!u.isEmpty && (dropDigits u).isEmpty) else (dropDigits (s :: u)).isEmpty)

/-- unsigned free-format number: `digit+ ('.' digit*)? exp?` or `'.' digit+ exp?` -/
def unsignedOK : List Char → Bool
  | [] => false
  | c :: t =>
    if c.isDigit then
      (match dropDigits t with
       | '.' :: r => expOK (dropDigits r)
       | r => expOK r)
    else c == '.' && (match t with | d :: r => d.isDigit && expOK (dropDigits r) | [] => false)

/-- SPEC: a number as SHELXL's free-format input accepts it: optional sign, then `unsignedOK` -/
def isFreeNumber : List Char → Bool
  | [] => false
  | c :: t => if c == '+' || c == '-' then unsignedOK t else unsignedOK (c :: t)

/-! ## residue suffix on a restraint codeword (`DFIX_2`, `SADI_CCF3`, `DELU_*`) -/

/-- MODEL of the name a restraint compares in `_set_defs_values`: `spline[0].upper().split('_')[0]` -/
def nameOf (cw : List Char) : List Char := (cw.map Char.toUpper).takeWhile (fun c => c != '_')

inductive Suffix
  | none | num (n : Nat) | cls (s : String) | star
deriving DecidableEq, Repr

/-- `Residues.append`: class (upper case) -> residue numbers in file order; a residue without class is not filed -/
def dictAppend : List (String × List Nat) → String → Nat → List (String × List Nat)
  | [], k, v => [(k, [v])]
  | (k', vs) :: t, k, v => if k' == k then (k', vs ++ [v]) :: t else (k', vs) :: dictAppend t k v

def classDict (res : List (String × Nat)) : List (String × List Nat) :=
  res.foldl (fun d r => if r.1 == "" then d else dictAppend d r.1 r.2) []

def dictGet (d : List (String × List Nat)) (k : String) : Option (List Nat) := (d.find? (fun kv => kv.1 == k)).map (·.2)

/-- dict keys of `residue_numbers` (number -> class): first occurrence order, each number once -/
def dedup : List Nat → List Nat
  | [] => []
  | a :: t => a :: (dedup t).filter (fun b => b != a)

/-- MODEL of `Restraint.residue_class` / `Residue.residue_number`; `res` = the RESI instructions with number > 0 in file
    order, classes already upper-cased -/
def modelResidue (res : List (String × Nat)) : Suffix → String × List Nat
  | .none => ("", (dictGet (classDict res) "").getD [0])
  | .num n => ("", [n])
  | .cls s => (s, (dictGet (classDict res) s).getD [0])
  | .star => ("", dedup (res.map (·.2)))

/-- SPEC: the residues a codeword suffix addresses: none -> residue 0; `_n` -> n; `_CLASS` -> every residue of that class;
    `_*` -> every residue -/
def specResidue (res : List (String × Nat)) : Suffix → String × List Nat
  | .none => ("", [0])
  | .num n => ("", [n])
  | .cls s => (s, (res.filter (fun r => r.1 == s)).map (·.2))
  | .star => ("", res.map (·.2))

/-! ## hand-written models of the classes that are not table shaped -/

/-- `PART.__init__`: `n = int(p[0])` under try/except IndexError -> 0; `sof = float(p[1])` if present -/
def partModel (ps : List Rat) : Obj :=
  let o : Obj := [("n", .num 0), ("sof", .num 11)]
  let o := match ps[0]? with | some r => o.set "n" (.num (pyInt r)) | none => o
  match ps[1]? with | some r => o.set "sof" (.num r) | none => o

/-- `LATT.__init__`: `N = int(p[0])`, a bare LATT is the documented N = 1 -/
def lattModel (ps : List Rat) : Obj :=
  match ps[0]? with
  | some r => [("N", .num (pyInt r))]
  | none => [("N", .num 1)]

/-- `TWIN.__init__`: bare -> defaults; 9 values -> matrix; 10 -> matrix + N; anything else ParseNumError -/
def twinModel (ps : List Rat) : Except PyErr Obj :=
  let o : Obj := [("matrix", .nums [-1, 0, 0, 0, -1, 0, 0, 0, -1]), ("n_value", .num 2)]
  if ps.length == 0 then .ok o
  else if ps.length == 9 then .ok (o.set "matrix" (.nums ps))
  else if ps.length == 10 then
    match ps[9]? with
    | some r => .ok ((o.set "matrix" (.nums (ps.take 9))).set "n_value" (.num (pyInt r)))
    | none => .error .IndexError
  else .error .ParseError

/-- `HTAB.__init__`: `if dh: self.dh = dh[0]` -/
def htabModel (ps : List Rat) : Obj :=
  match ps[0]? with | some r => [("dh", .num r)] | none => [("dh", .none)]

/-- `SUMP.__init__`: c, sigma popped, the rest paired (the harness flattens the pairs) -/
def sumpModel (ps : List Rat) : Except PyErr Obj :=
  match ps with
  | c :: s :: rest =>
    -- zip(p[0::2], p[1::2]): an unpaired last value is dropped; fvar numbers go through int()
    let rec pairs : List Rat → List Rat
      | a :: b :: t => a :: (pyInt b : Rat) :: pairs t
      | _ => []
    .ok [("c", .num c), ("sigma", .num s), ("fvars", .nums (pairs rest))]
  | _ => .error .IndexError

/-! ### LSCycles and the setter round trip -/

structure LS where
  cgls : Bool
  cycles : Int
  nrf : Option Int              -- `''` when not given
  nextra : Option Int
deriving DecidableEq, Repr

/-- `LSCycles.__init__` on integer parameters -/
def lsInit (cgls : Bool) (ps : List Int) : Except PyErr LS :=
  match ps with
  | [] => .error .ParseError
  | c :: t => .ok ⟨cgls, c, t[0]?, t[1]?⟩

/-- `LSCycles._as_str` as repaired: a parameter is printed when it is given; `nrf` is also printed (as 0) when only
    `nextra` is given -/
def lsTokens (l : LS) : List Int :=
  l.cycles :: (match l.nrf, l.nextra with
    | some a, some b => [a, b]
    | some a, none => [a]
    | none, some b => [0, b]
    | none, none => [])

/-- `LSCycles.number = n`: `_cycles = n`, then `__init__(self._as_str().split())` -/
def lsSetNumber (l : LS) (n : Int) : Except PyErr LS := lsInit l.cgls (lsTokens { l with cycles := n })

/-- what an L.S. token list denotes (spec): nls, nrf[0], nextra[0] -/
def lsDenotes (ts : List Int) : Option (Int × Int × Int) :=
  match ts with
  | [a] => some (a, 0, 0)
  | [a, b] => some (a, b, 0)
  | [a, b, c] => some (a, b, c)
  | _ => none

def LS.denotes (l : LS) : Int × Int × Int := (l.cycles, l.nrf.getD 0, l.nextra.getD 0)

/-- `Shelxfile.update_weight` copies the six fields; `WGHT._as_string` prints a, b and — unless c, d, e, f all
    have their defaults — c d e f. The printed tokens denote (a,b,c,d,e,f) with the documented defaults for omitted ones. -/
structure W where
  a : Rat
  b : Rat
  c : Rat
  d : Rat
  e : Rat
  f : Rat
deriving DecidableEq, Repr

def wghtTokens (w : W) : List Rat :=
  if (w.c, w.d, w.e, w.f) ≠ ((0 : Rat), (0 : Rat), (0 : Rat), (0.33333 : Rat)) then [w.a, w.b, w.c, w.d, w.e, w.f] else [w.a, w.b]

def wghtDenotes (ts : List Rat) : Option W :=
  match ts with
  | [a, b] => some ⟨a, b, 0, 0, 0, 0.33333⟩
  | [a, b, c, d, e, f] => some ⟨a, b, c, d, e, f⟩
  | _ => none

def updateWeight (_cur sug : W) : W := ⟨sug.a, sug.b, sug.c, sug.d, sug.e, sug.f⟩

end Shelx.C16

/- C14 — model and specification (stub; see HACKING.md) -/
namespace Shelx.C14

end Shelx.C14

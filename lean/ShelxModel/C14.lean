/-
  C14 — grow(): the asymmetric unit plus exact, bonded symmetry images.

  Model of
    SDM.collect_needed_symmetry   (sdm.py)   -> `collectNeeded`
    SDM.packer                    (sdm.py)   -> `packer`
    Shelxfile.grow                (shelx.py) -> `grow` (= packer on the collected list)
  generic in the number type `K` (the driver runs `Float`, witnesses run `Rat`).  Everything metric is
  handed in through `Kernel` (`SDM.vector_length`, `math.floor`, the literal thresholds — the latter are
  regenerated from the source, `Extracted/C14Consts.lean`).  The SDM items and the molecule numbers
  (`calc_sdm`, `calc_molindex`) are inputs: their correctness is property C13.

  Specification (code independent): `IsImageOf`, `Coincide`, `shownOriginals`, `imagePresent`.
-/
namespace Shelx.C14

structure V3 (K : Type) where
  x : K
  y : K
  z : K
deriving Repr, BEq, DecidableEq

/-- one symmetry operator of `Shelxfile.symmcards`: integer rotation rows, translation -/
structure Op (K : Type) where
  r1 : V3 Int
  r2 : V3 Int
  r3 : V3 Int
  t : V3 K
deriving Repr

structure Atom (K : Type) where
  src : Nat          -- position of the (original) atom in `atoms.all_atoms`; an image keeps it
  sfac : Nat
  pos : V3 K
  part : Int
  sof : K
  u : List K
  qpeak : Bool
  mol : Int          -- Atom.molindex
  an : Nat           -- atomic number
  isH : Bool
  symmgen : Bool
deriving Repr, DecidableEq

/-- the numeric kernel: `SDM.vector_length`, `floor`, int -> number, and the literals of the code -/
structure Kernel (K : Type) where
  ofInt : Int → K
  floor : K → Int
  vlen : K → K → K → K
  half : K              -- 0.5
  dupLim : K            -- packer: `length < 0.2`
  window : K            -- collect: `sdm_item.dist + 0.2`
  eps : K               -- collect: `dk > 0.001`
  hh : K                -- collect: `dddd = 1.8` for H...H
  molLow : Int          -- collect: `molindex < 1`
  molLimit : Option Int -- collect: `molindex > 6`  (none: no upper limit in the source)

/-- entry of `need_symm` exactly as the code stores it: `[n + 1, 5 - floor_d[0], 5 - floor_d[1], 5 - floor_d[2], molindex]` -/
structure Need where
  n : Int
  h : Int
  k : Int
  l : Int
  group : Int
deriving Repr, DecidableEq

structure SdmItem (K : Type) where
  atom1 : Atom K
  atom2 : Atom K
  dist : K
  covalent : Bool
deriving DecidableEq

section
variable {K : Type} [Add K] [Sub K] [Mul K] [LT K] [LE K] [DecidableLT K] [DecidableLE K]

/-! ### Model -/

/-- `Array(frac) * symop.matrix + symop.trans` (row vector times the transposed matrix = rows of the SYMM card) -/
def applyOp (ker : Kernel K) (op : Op K) (p : V3 K) : V3 K :=
  { x := p.x * ker.ofInt op.r1.x + p.y * ker.ofInt op.r1.y + p.z * ker.ofInt op.r1.z + op.t.x
    y := p.x * ker.ofInt op.r2.x + p.y * ker.ofInt op.r2.y + p.z * ker.ofInt op.r2.z + op.t.y
    z := p.x * ker.ofInt op.r3.x + p.y * ker.ofInt op.r3.y + p.z * ker.ofInt op.r3.z + op.t.z }

/-- `... + Array([h, k, l])` -/
def shift (ker : Kernel K) (p : V3 K) (h k l : Int) : V3 K :=
  { x := p.x + ker.ofInt h, y := p.y + ker.ofInt k, z := p.z + ker.ofInt l }

/-- Python list indexing with negative wrap-around; `none` is IndexError -/
def pyIndex {α : Type} (l : List α) (i : Int) : Option α :=
  if 0 ≤ i then l[i.toNat]?
  else if (-i).toNat ≤ l.length then l[l.length - (-i).toNat]? else none

/-- `ascii_letters[atom.part.n]` (52 letters, negative indices wrap) does not raise -/
def nameOk (part : Int) : Bool := decide (-52 ≤ part) && decide (part ≤ 51)

/-- the atom `packer` builds with `set_atom_parameters` -/
def mkImage (ker : Kernel K) (op : Op K) (h k l : Int) (a : Atom K) : Atom K :=
  { a with pos := shift ker (applyOp ker op a.pos) h k l, symmgen := true, mol := 0 }

/-- the inner `for atom in showatoms` loop: `isthere` -/
def isThere (ker : Kernel K) (shown : List (Atom K)) (na : Atom K) : Bool :=
  decide (na.part ≥ 0) &&
    shown.any fun b => decide (b.part = na.part) &&
      decide (ker.vlen (na.pos.x - b.pos.x) (na.pos.y - b.pos.y) (na.pos.z - b.pos.z) < ker.dupLim)

/-- body of `for atom in asymm` for one entry of `need_symm`; `none` = the IndexError the code would raise -/
def packAtom (ker : Kernel K) (ops : List (Op K)) (withQ : Bool) (e : Need) (shown : List (Atom K)) (a : Atom K) :
    Option (List (Atom K)) :=
  if !withQ && a.qpeak then some shown
  else if a.mol = e.group then
    if a.qpeak then some shown
    else if !nameOk a.part then none
    else match pyIndex ops (e.n - 1) with
      | none => none
      | some op =>
        let na := mkImage ker op (e.h - 5) (e.k - 5) (e.l - 5) a
        if isThere ker shown na then some shown else some (shown ++ [na])
  else some shown

def packEntry (ker : Kernel K) (ops : List (Op K)) (withQ : Bool) (asymm : List (Atom K)) (shown : List (Atom K)) (e : Need) :
    Option (List (Atom K)) :=
  asymm.foldlM (packAtom ker ops withQ e) shown

/-- `showatoms` before the loop -/
def shownOriginals (withQ : Bool) (asymm : List (Atom K)) : List (Atom K) :=
  if withQ then asymm else asymm.filter fun a => !a.qpeak

/-- `SDM.packer` -/
def packer (ker : Kernel K) (ops : List (Op K)) (asymm : List (Atom K)) (need : List Need) (withQ : Bool) :
    Option (List (Atom K)) :=
  need.foldlM (packEntry ker ops withQ asymm) (shownOriginals withQ asymm)

/-- wrapped difference used by `collect_needed_symmetry`: `(floor_d, dp)` -/
def wrapDiff (ker : Kernel K) (prime q : V3 K) : V3 Int × V3 K :=
  let dx := prime.x - q.x + ker.half
  let dy := prime.y - q.y + ker.half
  let dz := prime.z - q.z + ker.half
  let fl : V3 Int := ⟨ker.floor dx, ker.floor dy, ker.floor dz⟩
  (fl, ⟨dx - ker.ofInt fl.x - ker.half, dy - ker.ofInt fl.y - ker.half, dz - ker.ofInt fl.z - ker.half⟩)

/-- the tests of `collect_needed_symmetry` that do not depend on the operator -/
def itemActive (ker : Kernel K) (it : SdmItem K) : Bool :=
  it.covalent && !(decide (it.atom1.mol < ker.molLow) || (match ker.molLimit with | some m => decide (it.atom1.mol > m) | none => false))

def partsClash (it : SdmItem K) : Bool :=
  decide (it.atom1.part ≠ 0) && decide (it.atom2.part ≠ 0) && decide (it.atom1.part ≠ it.atom2.part)

def sameHydrogen (it : SdmItem K) : Bool := decide (it.atom1.an = it.atom2.an) && it.atom1.isH

/-- the entry one (item, operator n) pair contributes, if any -/
def candidate (ker : Kernel K) (it : SdmItem K) (n : Nat) (op : Op K) : Option Need :=
  if partsClash it then none
  else if sameHydrogen it then none
  else
    let w := wrapDiff ker (applyOp ker op it.atom1.pos) it.atom2.pos
    if n = 0 ∧ w.1 = ⟨0, 0, 0⟩ then none
    else
      let dk := ker.vlen w.2.x w.2.y w.2.z
      let dddd := if it.atom1.isH && it.atom2.isH then ker.hh else it.dist + ker.window
      if dk > ker.eps ∧ dddd ≥ dk then some ⟨(n : Int) + 1, 5 - w.1.x, 5 - w.1.y, 5 - w.1.z, it.atom1.mol⟩
      else none

def addNeed (need : List Need) (c : Option Need) : List Need :=
  match c with
  | none => need
  | some bs => if bs ∈ need then need else need ++ [bs]

def collectOps (ker : Kernel K) (it : SdmItem K) : List (Op K) → Nat → List Need → List Need
  | [], _, need => need
  | op :: rest, n, need => collectOps ker it rest (n + 1) (addNeed need (candidate ker it n op))

def collectItem (ker : Kernel K) (ops : List (Op K)) (need : List Need) (it : SdmItem K) : List Need :=
  if itemActive ker it then collectOps ker it ops 0 need else need

/-- `SDM.collect_needed_symmetry` -/
def collectNeeded (ker : Kernel K) (ops : List (Op K)) (sdm : List (SdmItem K)) : List Need :=
  sdm.foldl (collectItem ker ops) []

/-- `Shelxfile.grow` given the SDM items -/
def grow (ker : Kernel K) (ops : List (Op K)) (asymm : List (Atom K)) (sdm : List (SdmItem K)) (withQ : Bool) :
    Option (List (Atom K)) :=
  packer ker ops asymm (collectNeeded ker ops sdm) withQ

/-! ### Specification -/

/-- `a` is the exact image of `o` under `op` plus the integer translation `(h, k, l)`, with the same element,
    PART, occupation code and displacement parameters, flagged as symmetry generated -/
def IsImageOf (ker : Kernel K) (op : Op K) (h k l : Int) (o a : Atom K) : Prop :=
  a.pos = shift ker (applyOp ker op o.pos) h k l ∧ a.sfac = o.sfac ∧ a.part = o.part ∧ a.sof = o.sof ∧ a.u = o.u ∧
    a.src = o.src ∧ a.symmgen = true ∧ a.qpeak = false

/-- two atoms of the same PART coincide (closer than the duplicate distance), `b` measured from `a` -/
def Coincide (ker : Kernel K) (a b : Atom K) : Prop :=
  a.part = b.part ∧ ker.vlen (b.pos.x - a.pos.x) (b.pos.y - a.pos.y) (b.pos.z - a.pos.z) < ker.dupLim

instance (ker : Kernel K) (a b : Atom K) : Decidable (Coincide ker a b) := by
  unfold Coincide; infer_instance

/-- the image of `o` is in the result, or (PART >= 0) an atom of its PART already sits within the duplicate distance -/
def imagePresent (ker : Kernel K) (res : List (Atom K)) (na : Atom K) : Prop :=
  na ∈ res ∨ (0 ≤ na.part ∧ ∃ b ∈ res, Coincide ker b na)

end

/-! ### executable spec checks (driver: the model's own output must satisfy them) -/

section
variable {K : Type} [Add K] [Sub K] [Mul K] [LT K] [LE K] [DecidableLT K] [DecidableLE K] [BEq K]

def atomSame (a b : Atom K) : Bool :=
  a.src == b.src && a.sfac == b.sfac && a.pos == b.pos && a.part == b.part && a.sof == b.sof && a.u == b.u &&
    a.qpeak == b.qpeak && a.symmgen == b.symmgen

def checkPrefix (withQ : Bool) (asymm res : List (Atom K)) : Bool :=
  let s := shownOriginals withQ asymm
  s.length ≤ res.length && (s.zip res).all fun p => atomSame p.1 p.2

def checkImages (ker : Kernel K) (ops : List (Op K)) (need : List Need) (withQ : Bool) (asymm res : List (Atom K)) : Bool :=
  (res.drop (shownOriginals withQ asymm).length).all fun a =>
    asymm.any fun o => !o.qpeak && ops.any fun op => need.any fun e =>
      a.pos == shift ker (applyOp ker op o.pos) (e.h - 5) (e.k - 5) (e.l - 5) && a.sfac == o.sfac && a.part == o.part &&
        a.sof == o.sof && a.u == o.u && a.symmgen

def checkNoCoincide (ker : Kernel K) (nOrig : Nat) (res : List (Atom K)) : Bool :=
  let idx := List.range res.length
  idx.all fun j => decide (j < nOrig) || idx.all fun i => decide (j ≤ i) ||
    match res[i]?, res[j]? with
    | some a, some b => !(decide (a.part = b.part) && decide (0 ≤ b.part) &&
        decide (ker.vlen (b.pos.x - a.pos.x) (b.pos.y - a.pos.y) (b.pos.z - a.pos.z) < ker.dupLim))
    | _, _ => true

end

end Shelx.C14

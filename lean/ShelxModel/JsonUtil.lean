/-
  JSON helpers shared by all driver handlers (line protocol, DESIGN.md 2.3).
  Floats travel   harness -> driver  as JSON numbers (Python repr, parsed bit-exactly by
  `JsonNumber.toFloat`) or as decimal strings (parsed exactly to `Rat` by `parseDecimal`),
  and             driver -> harness  as the 64-bit pattern (`Float.toBits`), so no float is ever
  printed or compared as text.
-/
import Lean.Data.Json
open Lean

namespace Shelx.J

def err {α} (msg : String) : Except String α := .error msg

def field (j : Json) (k : String) : Except String Json :=
  match j.getObjVal? k with
  | .ok v => .ok v
  | .error _ => .error s!"missing field {k}"

def fieldOpt (j : Json) (k : String) : Option Json :=
  match j.getObjVal? k with
  | .ok .null => none
  | .ok v => some v
  | .error _ => none

def str (j : Json) : Except String String :=
  match j with
  | .str s => .ok s
  | _ => .error s!"expected string, got {j.compress}"

def arr (j : Json) : Except String (List Json) :=
  match j with
  | .arr a => .ok a.toList
  | _ => .error s!"expected array, got {j.compress}"

def int (j : Json) : Except String Int :=
  match j with
  | .num n => if n.exponent == 0 then .ok n.mantissa else .error s!"expected int, got {j.compress}"
  | _ => .error s!"expected int, got {j.compress}"

def nat (j : Json) : Except String Nat := do
  let i ← int j
  if i < 0 then .error "expected nat" else .ok i.toNat

def bool (j : Json) : Except String Bool :=
  match j with
  | .bool b => .ok b
  | _ => .error s!"expected bool, got {j.compress}"

def float (j : Json) : Except String Float :=
  match j with
  | .num n => .ok n.toFloat
  | _ => .error s!"expected number, got {j.compress}"

/-- exact value of a JSON number -/
def rat (j : Json) : Except String Rat :=
  match j with
  | .num n => .ok (mkRat n.mantissa (10 ^ n.exponent))
  | _ => .error s!"expected number, got {j.compress}"

def strField (j : Json) (k : String) : Except String String := field j k >>= str
def intField (j : Json) (k : String) : Except String Int := field j k >>= int
def natField (j : Json) (k : String) : Except String Nat := field j k >>= nat
def boolField (j : Json) (k : String) : Except String Bool := field j k >>= bool
def floatField (j : Json) (k : String) : Except String Float := field j k >>= float
def ratField (j : Json) (k : String) : Except String Rat := field j k >>= rat
def arrField (j : Json) (k : String) : Except String (List Json) := field j k >>= arr

def floats (j : Json) : Except String (List Float) := arr j >>= fun l => l.mapM float
def rats (j : Json) : Except String (List Rat) := arr j >>= fun l => l.mapM rat
def ints (j : Json) : Except String (List Int) := arr j >>= fun l => l.mapM int
def strs (j : Json) : Except String (List String) := arr j >>= fun l => l.mapM str

/-- a Float result: its bit pattern (decoded with `struct` on the Python side) -/
def ofFloat (x : Float) : Json := Json.mkObj [("f64", Json.num (JsonNumber.fromNat x.toBits.toNat))]
def ofFloats (xs : List Float) : Json := Json.arr (xs.map ofFloat).toArray

/-- a Rat result: exact numerator/denominator as strings (arbitrary precision) -/
def ofRat (x : Rat) : Json := Json.mkObj [("num", Json.str (toString x.num)), ("den", Json.str (toString x.den))]
def ofRats (xs : List Rat) : Json := Json.arr (xs.map ofRat).toArray

def ofInt (i : Int) : Json := Json.num (JsonNumber.fromInt i)
def ofNat (i : Nat) : Json := Json.num (JsonNumber.fromNat i)
def ofStrs (xs : List String) : Json := Json.arr (xs.map Json.str).toArray
def ofInts (xs : List Int) : Json := Json.arr (xs.map ofInt).toArray

end Shelx.J

/- C18 — model and specification (stub; see HACKING.md) -/
namespace Shelx.C18

end Shelx.C18

/-
  C18 — the CIF export states the same structure as the model.

  Model of
    SymmetryElement.to_cif / _as_text / _as_fraction   (misc/dsrmath.py)   -> `compToCif`, `toCif`
        (how a translation is printed is REGENERATED from the source: `Extracted.C18.opMode`;
         0 = the text replacement on `str(float)` of the original code, 1 = `Fraction(t).limit_denominator(N)`)
    fractions.Fraction.limit_denominator / __str__     (CPython)           -> `limitDen`, `fracStr`
    CifFile._cif_dict, _cell_data, _misc_dict           (cif/cif_write.py)  -> `cifDict`
    string.Template.substitute on cif_template.tmpl                         -> `substitute`, `cifItems`
        (the template is REGENERATED: `Extracted.C18.templatePairs`, `templateTags`)
    CifFile._atoms_data / _adp_data                      (cif/cif_write.py)  -> `atomLoop`, `adpLoop`
    TEMP / ZERR handling of Shelxfile._parse_cards       (shelx/shelx.py)    -> `tempKOf`, `zOf`
  Specification (code independent):
    `denoteComp`, `denoteCif`  — a reader of CIF `x,y,z` strings with exact rational translations
    `specItems`                — data name ↦ value of the structure model
    `specAtomLoop`, `specAdpLoop`
-/
import ShelxModel.Extracted.C18

namespace Shelx.C18

/-! ## (a) symmetry operators -/

/-- one row of an operator: coefficients of x, y, z and the translation -/
structure Comp where
  cx : Int
  cy : Int
  cz : Int
  t : Rat
deriving DecidableEq, Repr

structure Op where
  r1 : Comp
  r2 : Comp
  r3 : Comp
deriving DecidableEq, Repr

/-! ### Python text helpers -/

def digitChar (d : Nat) : Char := Char.ofNat (48 + d)

def natStrAux : Nat → Nat → List Char → List Char
  | 0, _, acc => acc
  | fuel + 1, n, acc =>
    let acc' := digitChar (n % 10) :: acc
    if n / 10 = 0 then acc' else natStrAux fuel (n / 10) acc'

/-- `str(n)` for a natural number -/
def natStr (n : Nat) : List Char := natStrAux (n + 1) n []

def intStr (i : Int) : List Char := if i < 0 then '-' :: natStr i.natAbs else natStr i.natAbs

/-- `str(Fraction)`: `'n'` if the denominator is 1, else `'n/d'` -/
def fracStr (r : Rat) : List Char :=
  if r.den = 1 then intStr r.num else intStr r.num ++ '/' :: natStr r.den

def lowerC (c : Char) : Char := if 65 ≤ c.toNat ∧ c.toNat ≤ 90 then Char.ofNat (c.toNat + 32) else c

def lower (s : List Char) : List Char := s.map lowerC

def stripPrefix? : List Char → List Char → Option (List Char)
  | [], s => some s
  | _ :: _, [] => none
  | p :: ps, c :: cs => if p = c then stripPrefix? ps cs else none

def pyReplaceF (pat rep : List Char) : Nat → List Char → Option (List Char)
  | 0, _ => none
  | _ + 1, [] => some []
  | f + 1, c :: cs =>
    match stripPrefix? pat (c :: cs) with
    | some rest => (pyReplaceF pat rep f rest).map (rep ++ ·)
    | none => (pyReplaceF pat rep f cs).map (c :: ·)

/-- `s.replace(pat, rep)` for a non-empty pattern (left to right, non-overlapping) -/
def pyReplace (pat rep s : List Char) : Option (List Char) :=
  if pat = [] then none else pyReplaceF pat rep (s.length + 1) s

/-- `_replace_float_values`: the replacements applied in order -/
def applyRepl (repl : List (List Char × List Char)) (s : List Char) : Option (List Char) :=
  repl.foldl (fun acc pr => acc.bind (pyReplace pr.1 pr.2)) (some s)

/-! ### `Fraction.limit_denominator` (CPython 3.12) -/

/-- the `while True` loop; returns `(p0, q0, p1, q1, d)` at the `break`; `none` = fuel exhausted -/
def ldLoop (N : Int) : Nat → Int → Int → Int → Int → Int → Int → Option (Int × Int × Int × Int × Int)
  | 0, _, _, _, _, _, _ => none
  | fuel + 1, p0, q0, p1, q1, n, d =>
    let a := Int.fdiv n d
    let q2 := q0 + a * q1
    if q2 > N then some (p0, q0, p1, q1, d)
    else ldLoop N fuel p1 q1 (p0 + a * p1) q2 d (n - a * d)

def limitDen (N : Nat) (x : Rat) : Option Rat :=
  if x.den ≤ N then some x
  else
    match ldLoop N (2 * Nat.log2 x.den + 4) 0 1 1 0 x.num x.den with
    | none => none
    | some (p0, q0, p1, q1, d) =>
      let k := Int.fdiv ((N : Int) - q0) q1
      if 2 * d * (q0 + k * q1) ≤ x.den then some (mkRat p1 q1.toNat)
      else some (mkRat (p0 + k * p1) (q0 + k * q1).toNat)

/-! ### model: `to_cif` -/

/-- one axis of `_as_text`/`to_shelxl`: `'-X'`, `'+X'` or nothing -/
def term (coef : Int) (axis : Char) : List Char :=
  if coef < 0 then ['-', axis] else if coef > 0 then ['+', axis] else []

def termsOf (c : Comp) : List Char := term c.cx 'X' ++ term c.cy 'Y' ++ term c.cz 'Z'

/-- original code: `_replace_float_values(to_shelxl()).lower()`; `ts` is Python's `str(trans[i])` -/
def compLegacy (repl : List (List Char × List Char)) (ts : List Char) (c : Comp) : Option (List Char) :=
  (applyRepl repl ((if c.t = 0 then [] else ts) ++ termsOf c)).map lower

/-- repaired code: the translation printed as `str(Fraction(t).limit_denominator(N))` -/
def compFrac (N : Nat) (c : Comp) : Option (List Char) :=
  if c.t = 0 then some (lower (termsOf c))
  else (limitDen N c.t).map fun r => lower (fracStr r ++ termsOf c)

/-- `mode` is read off the source on every run (`Extracted.C18.opMode`) -/
def compToCifWith (mode N : Nat) (repl : List (List Char × List Char)) (ts : List Char) (c : Comp) : Option (List Char) :=
  if mode = 1 then compFrac N c else if mode = 0 then compLegacy repl ts c else none

def compToCif (ts : List Char) (c : Comp) : Option (List Char) :=
  compToCifWith Extracted.C18.opMode Extracted.C18.fracLimit Extracted.C18.replList ts c

/-- `', '.join(lines)` -/
def join3 (a b c : List Char) : List Char := a ++ ',' :: ' ' :: (b ++ ',' :: ' ' :: c)

/-- `SymmetryElement.to_cif`; `ts` are Python's `str()` of the three translations (used by the original code only) -/
def toCif (ts : List Char × List Char × List Char) (op : Op) : Option (List Char) := do
  let a ← compToCif ts.1 op.r1
  let b ← compToCif ts.2.1 op.r2
  let c ← compToCif ts.2.2 op.r3
  return join3 a b c

/-- Python's `str(k/12)` for the translations of the quantifier (k = -24 … 24); validated against CPython by
    the harness on every run. Only the original (text replacement) code reads it. -/
def reprTable : List (Int × String) := [
  (-24, "-2.0"), (-23, "-1.9166666666666667"), (-22, "-1.8333333333333333"), (-21, "-1.75"),
  (-20, "-1.6666666666666667"), (-19, "-1.5833333333333333"), (-18, "-1.5"), (-17, "-1.4166666666666667"),
  (-16, "-1.3333333333333333"), (-15, "-1.25"), (-14, "-1.1666666666666667"), (-13, "-1.0833333333333333"),
  (-12, "-1.0"), (-11, "-0.9166666666666666"), (-10, "-0.8333333333333334"), (-9, "-0.75"),
  (-8, "-0.6666666666666666"), (-7, "-0.5833333333333334"), (-6, "-0.5"), (-5, "-0.4166666666666667"),
  (-4, "-0.3333333333333333"), (-3, "-0.25"), (-2, "-0.16666666666666666"), (-1, "-0.08333333333333333"),
  (0, "0.0"), (1, "0.08333333333333333"), (2, "0.16666666666666666"), (3, "0.25"), (4, "0.3333333333333333"),
  (5, "0.4166666666666667"), (6, "0.5"), (7, "0.5833333333333334"), (8, "0.6666666666666666"), (9, "0.75"),
  (10, "0.8333333333333334"), (11, "0.9166666666666666"), (12, "1.0"), (13, "1.0833333333333333"),
  (14, "1.1666666666666667"), (15, "1.25"), (16, "1.3333333333333333"), (17, "1.4166666666666667"), (18, "1.5"),
  (19, "1.5833333333333333"), (20, "1.6666666666666667"), (21, "1.75"), (22, "1.8333333333333333"),
  (23, "1.9166666666666667"), (24, "2.0")]

/-- the doubles nearest to k/12 as exact fractions `(k, numerator, denominator)` (`(k/12).as_integer_ratio()`);
    validated against CPython by the harness on every run -/
def doubleTable : List (Int × Int × Nat) := [
  (-24, -2, 1), (-23, -8631899285793451, 4503599627370496), (-22, -8256599316845909, 4503599627370496),
  (-21, -7, 4), (-20, -7505999378950827, 4503599627370496), (-19, -7130699410003285, 4503599627370496),
  (-18, -3, 2), (-17, -6380099472108203, 4503599627370496), (-16, -6004799503160661, 4503599627370496),
  (-15, -5, 4), (-14, -5254199565265579, 4503599627370496), (-13, -4878899596318037, 4503599627370496),
  (-12, -1, 1), (-11, -8256599316845909, 9007199254740992), (-10, -7505999378950827, 9007199254740992),
  (-9, -3, 4), (-8, -6004799503160661, 9007199254740992), (-7, -5254199565265579, 9007199254740992),
  (-6, -1, 2), (-5, -7505999378950827, 18014398509481984), (-4, -6004799503160661, 18014398509481984),
  (-3, -1, 4), (-2, -6004799503160661, 36028797018963968), (-1, -6004799503160661, 72057594037927936),
  (0, 0, 1), (1, 6004799503160661, 72057594037927936), (2, 6004799503160661, 36028797018963968),
  (3, 1, 4), (4, 6004799503160661, 18014398509481984), (5, 7505999378950827, 18014398509481984),
  (6, 1, 2), (7, 5254199565265579, 9007199254740992), (8, 6004799503160661, 9007199254740992),
  (9, 3, 4), (10, 7505999378950827, 9007199254740992), (11, 8256599316845909, 9007199254740992),
  (12, 1, 1), (13, 4878899596318037, 4503599627370496), (14, 5254199565265579, 4503599627370496),
  (15, 5, 4), (16, 6004799503160661, 4503599627370496), (17, 6380099472108203, 4503599627370496),
  (18, 3, 2), (19, 7130699410003285, 4503599627370496), (20, 7505999378950827, 4503599627370496),
  (21, 7, 4), (22, 8256599316845909, 4503599627370496), (23, 8631899285793451, 4503599627370496),
  (24, 2, 1)]

def reprOf (k : Int) : List Char :=
  match reprTable.find? (·.1 = k) with
  | some p => p.2.toList
  | none => []

/-! ### specification: what a CIF `x,y,z` string denotes -/

/-- split at the signs: (characters before the first sign, signed chunks) -/
def splitTerms : List Char → List Char × List (Int × List Char)
  | [] => ([], [])
  | c :: s =>
    let br := splitTerms s
    if c = '+' then ([], (1, br.1) :: br.2)
    else if c = '-' then ([], (-1, br.1) :: br.2)
    else (c :: br.1, br.2)

def isDigit (c : Char) : Bool := 48 ≤ c.toNat && c.toNat ≤ 57

/-- decimal numeral without sign -/
def parseNat (s : List Char) : Option Nat :=
  if s = [] ∨ ¬ s.all isDigit then none else some (s.foldl (fun acc c => acc * 10 + (c.toNat - 48)) 0)

def splitAt1 (sep : Char) : List Char → List Char × Option (List Char)
  | [] => ([], none)
  | c :: s =>
    if c = sep then ([], some s)
    else let r := splitAt1 sep s; (c :: r.1, r.2)

/-- `12`, `0.25`, `.5`, `1/3` -/
def parseNumber (s : List Char) : Option Rat :=
  match splitAt1 '/' s with
  | (a, some b) =>
    match parseNat a, parseNat b with
    | some n, some d => if d = 0 then none else some (mkRat n d)
    | _, _ => none
  | (a, none) =>
    match splitAt1 '.' a with
    | (i, none) => (parseNat i).map fun n => (n : Rat)
    | (i, some f) =>
      match (if i = [] then some 0 else parseNat i), parseNat f with
      | some n, some m => some ((n : Rat) + mkRat m (10 ^ f.length))
      | _, _ => none

/-- add one signed chunk to the row -/
def addTerm (acc : Comp) (sg : Int) (body : List Char) : Option Comp :=
  match body with
  | ['x'] => some { acc with cx := acc.cx + sg }
  | ['y'] => some { acc with cy := acc.cy + sg }
  | ['z'] => some { acc with cz := acc.cz + sg }
  | _ => (parseNumber body).map fun v => { acc with t := acc.t + sg * v }

/-- one component of a CIF symmetry operator: blanks ignored, case ignored, a sum of signed terms each of
    which is `x`, `y`, `z` or an unsigned number `n`, `n/d`, `n.ddd`; `none` = not such a string -/
def denoteComp (s : List Char) : Option Comp :=
  let s' := lower (s.filter (· ≠ ' '))
  let br := splitTerms s'
  let chunks := if br.1 = [] then br.2 else (1, br.1) :: br.2
  if chunks = [] then none
  else chunks.foldl (fun acc ch => acc.bind fun a => addTerm a ch.1 ch.2) (some ⟨0, 0, 0, 0⟩)

def splitComma : List Char → List (List Char)
  | [] => [[]]
  | c :: s =>
    match splitComma s with
    | [] => [[c]]      -- unreachable: splitComma never returns []
    | h :: t => if c = ',' then [] :: h :: t else (c :: h) :: t

def denoteCif (s : List Char) : Option Op :=
  match splitComma s with
  | [a, b, c] => do
    let a' ← denoteComp a
    let b' ← denoteComp b
    let c' ← denoteComp c
    return ⟨a', b', c'⟩
  | _ => none

/-! ### the domain of the quantifier (used by the property theorems) -/

/-- the translations of the quantifier: k/12 for k = -24 … 24 -/
def ks : List Int := (List.range 49).map (fun (i : Nat) => (i : Int) - 24)

def sg : List Int := [-1, 0, 1]

def compOfK (k cx cy cz : Int) : Comp := ⟨cx, cy, cz, (k : Rat) / 12⟩

/-- the printed row exists, contains no comma and denotes the row -/
def compGood (ts : List Char) (c : Comp) : Bool :=
  match compToCif ts c with
  | some s => !s.contains ',' && decide (denoteComp s = some c)
  | none => false

/-! ## (b) the data items -/

inductive PyErr
  | AttributeError | IndexError | KeyError | TypeError
deriving DecidableEq, Repr

inductive Val
  | num (r : Rat)
  | str (s : String)
  | unknown            -- the text `?`
deriving DecidableEq, Repr

def roundHalfEven (x : Rat) : Int :=
  let f := x.floor
  let r := x - f
  if r < 1/2 then f else if r > 1/2 then f + 1 else if f % 2 = 0 then f else f + 1

/-- Python `round(x, 3)` on the exact value -/
def round3 (x : Rat) : Rat := (roundHalfEven (x * 1000) : Rat) / 1000

structure Size where
  dx : Rat
  dy : Rat
  dz : Rat
deriving DecidableEq, Repr

/-- what the parsed file holds, as far as the CIF writer reads it (`none` = attribute is `None`) -/
structure Src where
  titl : List String            -- `titl.split()`
  sumFormula : String           -- `sum_formula`
  formulaWeight : Rat
  wavelength : Rat              -- CELL λ
  a : Rat
  b : Rat
  c : Rat
  alpha : Rat
  beta : Rat
  gamma : Rat
  volume : Rat
  zerr : Option Rat             -- ZERR Z …
  temp : Option Rat             -- TEMP t   (°C)
  size : Option Size            -- SIZE dx dy dz
  r1 : Option Rat
  wr2 : Option Rat
  goof : Option Rat
  spaceGroup : Option String
deriving Repr

/-- shelx.py: `self.Z = self.zerr.Z; if self.Z < 1: self.Z = 1` (default 1) -/
def zOf (zerr : Option Rat) : Rat :=
  match zerr with
  | none => 1
  | some z => if z < 1 then 1 else z

/-- shelx.py: `temp_in_kelvin` is 0.0 unless a TEMP instruction sets it to `temp + 273.15` -/
def tempKOf (temp : Option Rat) : Rat :=
  match temp with
  | none => 0
  | some t => t + 273.15

/-- Python `x or '?'` for a number -/
def orUnknown (x : Rat) : Val := if x = 0 then .unknown else .num x

def optOrUnknown : Option Rat → Val
  | none => .unknown
  | some x => orUnknown x

def max3 (a b c : Rat) : Rat := max (max a b) c
def min3 (a b c : Rat) : Rat := min (min a b) c
/-- `sorted([a, b, c])[1]` -/
def mid3 (a b c : Rat) : Rat := max (min a b) (min (max a b) c)

/-- `_cif_dict()` without the version/date and the text loops (those are `atomLoop`, `adpLoop`, `toCif`) -/
def cifDict (s : Src) : Except PyErr (List (String × Val)) := do
  let dataName : Val := match s.titl with
    | [] => .str "unknown"
    | w :: _ => .str w.toLower
  let sz : Val × Val × Val := match s.size with
    | none => (.unknown, .unknown, .unknown)
    | some z => (orUnknown (max3 z.dx z.dy z.dz), orUnknown (mid3 z.dx z.dy z.dz), orUnknown (min3 z.dx z.dy z.dz))
  return [
    ("data_name", dataName),
    ("sum_formula", .str s.sumFormula),
    ("formula_weight", .num s.formulaWeight),
    ("cell_a", .num s.a), ("cell_b", .num s.b), ("cell_c", .num s.c),
    ("cell_alpha", .num s.alpha), ("cell_beta", .num s.beta), ("cell_gamma", .num s.gamma),
    ("cell_volume", .num s.volume),
    ("cell_z", .num (zOf s.zerr)),
    ("space_group", match s.spaceGroup with | none => .str "None" | some g => .str g),
    ("temperature", orUnknown (round3 (tempKOf s.temp))),
    ("crystal_size_max", sz.1), ("crystal_size_mid", sz.2.1), ("crystal_size_min", sz.2.2),
    ("wavelength", orUnknown s.wavelength),
    ("R1", optOrUnknown s.r1), ("wR2", optOrUnknown s.wr2), ("goodness_of_fit", optOrUnknown s.goof)]

/-- the code before the repairs: attribute access on `None`, `[0]` on an empty list -/
def cifDictLegacy (s : Src) : Except PyErr (List (String × Val)) := do
  let dataName : Val ← match s.titl with
    | [] => .error .IndexError
    | w :: _ => pure (.str w.toLower)
  let z ← match s.zerr with
    | none => .error .AttributeError
    | some z => pure z
  let sz ← match s.size with
    | none => .error .AttributeError
    | some z => pure z
  return [("data_name", dataName), ("cell_z", .num z), ("crystal_size_max", orUnknown (max3 sz.dx sz.dy sz.dz))]

/-- keys the text parts of `_cif_dict` add (`version`, `creation_date`, the loops) -/
def textKeys : List String :=
  ["version", "creation_date", "symmetry_loop", "atom_loop_header", "atom_loop", "aniso_loop_header", "aniso_loop"]

def lookup (k : String) : List (String × Val) → Option Val
  | [] => none
  | (k', v) :: t => if k' = k then some v else lookup k t

/-- `Template.substitute` seen per placeholder: a placeholder without a key is a `KeyError` -/
def substitute (tags : List String) (d : List (String × Val)) : Except PyErr Unit :=
  tags.forM fun t => if (lookup t d).isSome ∨ t ∈ textKeys then pure () else .error .KeyError

/-- the data items of the written CIF: (data name, value), through the template's `_name ${placeholder}` lines -/
def cifItemsOf (pairs : List (String × String × Bool)) (d : List (String × Val)) : Except PyErr (List (String × Val)) :=
  pairs.filterMapM fun p =>
    if p.2.1 ∈ textKeys then pure none
    else match lookup p.2.1 d with
      | some v => pure (some (p.1, v))
      | none => .error .KeyError

/-- `to_cif` as far as the data items go -/
def cifItems (s : Src) : Except PyErr (List (String × Val)) := do
  let d ← cifDict s
  substitute Extracted.C18.templateTags d
  cifItemsOf Extracted.C18.templatePairs d

/-- specification: what the CIF has to say about the structure model (TEMP in °C, `none` = no such instruction) -/
def specItems (s : Src) : List (String × Val) := [
  ("_cell_length_a", .num s.a), ("_cell_length_b", .num s.b), ("_cell_length_c", .num s.c),
  ("_cell_angle_alpha", .num s.alpha), ("_cell_angle_beta", .num s.beta), ("_cell_angle_gamma", .num s.gamma),
  ("_cell_formula_units_Z", .num (zOf s.zerr)),
  ("_diffrn_radiation_wavelength", .num s.wavelength),
  ("_chemical_formula_sum", .str s.sumFormula)]

/-! ## (c) the loops -/

structure AtomS where
  name : String
  resinum : Int
  element : String
  x : Rat
  y : Rat
  z : Rat
  u11 : Rat
  u22 : Rat
  u33 : Rat
  u23 : Rat
  u13 : Rat
  u12 : Rat
  occ : Rat
  part : Int
  qpeak : Bool
deriving DecidableEq, Repr

structure Row where
  label : String
  element : String
  x : Rat
  y : Rat
  z : Rat
  aniso : Bool
  occ : Rat
  part : Int
deriving DecidableEq, Repr

structure AdpRow where
  label : String
  u : List Rat      -- U11 U22 U33 U23 U13 U12
deriving DecidableEq, Repr

/-- `Atom.fullname_short` -/
def label (a : AtomS) : String := if a.resinum = 0 then a.name else a.name ++ "_" ++ toString a.resinum

/-- `Atom.is_isotropic`: `not any(uvals[1:])` -/
def isIso (a : AtomS) : Bool := !([a.u22, a.u33, a.u23, a.u13, a.u12].any fun u => u ≠ 0)

/-- the code before the repair: `sum(uvals[1:]) == 0` -/
def isIsoLegacy (a : AtomS) : Bool := a.u22 + a.u33 + a.u23 + a.u13 + a.u12 = 0

def rowOf (a : AtomS) : Row := ⟨label a, a.element, a.x, a.y, a.z, !isIso a, a.occ, a.part⟩
def adpOf (a : AtomS) : AdpRow := ⟨label a, [a.u11, a.u22, a.u33, a.u23, a.u13, a.u12]⟩

/-- `_atoms_data`: `for atom in atoms: if not atom.qpeak: lines.append(...)` -/
def atomLoop (atoms : List AtomS) : List Row :=
  atoms.foldl (fun lines a => if !a.qpeak then lines ++ [rowOf a] else lines) []

/-- `_adp_data`: `if not atom.qpeak and not atom.is_isotropic: lines.append(...)` -/
def adpLoop (atoms : List AtomS) : List AdpRow :=
  atoms.foldl (fun lines a => if !a.qpeak && !isIso a then lines ++ [adpOf a] else lines) []

/-- specification: an atom is anisotropic when one of U22 … U12 is given (non-zero) -/
def specAniso (a : AtomS) : Bool := a.u22 ≠ 0 || a.u33 ≠ 0 || a.u23 ≠ 0 || a.u13 ≠ 0 || a.u12 ≠ 0

/-- keys of `cifDict` -/
def modelKeys : List String :=
  ["data_name", "sum_formula", "formula_weight", "cell_a", "cell_b", "cell_c", "cell_alpha", "cell_beta", "cell_gamma",
   "cell_volume", "cell_z", "space_group", "temperature", "crystal_size_max", "crystal_size_mid", "crystal_size_min",
   "wavelength", "R1", "wR2", "goodness_of_fit"]

def isOk {ε α} : Except ε α → Bool
  | .ok _ => true
  | .error _ => false

/-- the value the written CIF gives for a data name (`none`: no such item, or no file) -/
def itemOf (s : Src) (name : String) : Option Val :=
  match cifItems s with
  | .ok l => lookup name l
  | .error _ => none

def specRow (a : AtomS) : Row := ⟨label a, a.element, a.x, a.y, a.z, specAniso a, a.occ, a.part⟩

def specAtomLoop (atoms : List AtomS) : List Row := (atoms.filter fun a => !a.qpeak).map specRow

def specAdpLoop (atoms : List AtomS) : List AdpRow := (atoms.filter fun a => !a.qpeak && specAniso a).map adpOf

/-! ## (d) histories on one object

  `read_file`/`read_string`/`reload` re-initialise the object and parse, API edits change it, `to_cif` reads it.
  The code keeps no state between exports (no cache): the model of an export is a function of the current state. -/

/-- one Shelxfile object as far as the CIF writer reads it -/
structure Obj where
  src : Src
  atoms : List AtomS

inductive Step
  | read (o : Obj)            -- read_file / read_string / reload
  | edit (f : Obj → Obj)      -- any edit through the API
  | write                     -- to_cif

/-- what one `to_cif` writes: data items, atom loop, ADP loop -/
structure Cif where
  items : Except PyErr (List (String × Val))
  atomRows : List Row
  adpRows : List AdpRow

def exportCif (o : Obj) : Cif := ⟨cifItems o.src, atomLoop o.atoms, adpLoop o.atoms⟩

def step (o : Obj) : Step → Obj
  | .read o' => o'
  | .edit f => f o
  | .write => o

/-- the life of the object: every export appends a CIF, every other step changes the state -/
def runHist : Obj → List Step → List Cif
  | _, [] => []
  | o, .write :: t => exportCif o :: runHist o t
  | _, .read o' :: t => runHist o' t
  | o, .edit f :: t => runHist (f o) t

/-- specification side: the CIF a state calls for, and the number of exports in a prefix -/
def specCif (o : Obj) : Cif := ⟨cifItems o.src, specAtomLoop o.atoms, specAdpLoop o.atoms⟩

def countExports : List Step → Nat
  | [] => 0
  | .write :: t => countExports t + 1
  | _ :: t => countExports t

end Shelx.C18

/-
  C13 — the shortest-distance matrix reports true symmetry-shortest distances.

  Model of (generic in the number type `K`; the driver runs `Float`, the theorems use an ordered field):
    SDM.__init__        (sdm.py)   -> `Cell.ofLengths`  (asq … cal)
    SDM.vector_length   (sdm.py)   -> `vectorLength`
    Array * Matrix + trans         -> `applyOp`
    the wrap  D + ½ - floor(D + ½) - ½      -> `wrap`, `wrapV`
    the operator loop of SDM.calc_sdm        -> `selStep`, `selLoop`, `selectOp`
    the bond criterion of SDM.calc_sdm       -> `covalentOf` (PART/hydrogen condition: `Extracted.bondAllowed`,
                                               regenerated from the source expression)
    SDM.calc_sdm  (the two atom loops, sort) -> `calcSdm`
    SDM.calc_molindex                        -> `molPass`, `molInner`, `molOuter`, `calcMolindex`
  Specification (code independent): `ruleBonded`, `specPair` (brute force over operators × a box of lattice
  translations; the theorems quantify over all of ℤ³), `specLabels` (connected components by label propagation).

  The thresholds are parameters (`Consts`); the driver and the theorems instantiate them with the values the
  translator reads off sdm.py (`ShelxModel/Extracted/SdmC13.lean`).
-/
import ShelxModel.Extracted.SdmC13

namespace Shelx.C13

structure V3 (K : Type) where
  x : K
  y : K
  z : K

/-- a symmetry operator as `SymmetryElement` stores it: the three rows of `.matrix` and `.trans` -/
structure Op (K : Type) where
  r0 : V3 K
  r1 : V3 K
  r2 : V3 K
  t : V3 K

/-- the quantities `SDM.__init__` derives from the cell -/
structure Cell (K : Type) where
  asq : K
  bsq : K
  csq : K
  aga : K
  bbe : K
  cal : K

structure Consts (K : Type) where
  cut : K
  bias : K
  eps : K
  factor : K
  half : K
  big : K
  nobond : K

structure AtomM (K : Type) where
  pos : V3 K
  hyd : Bool
  part : Int
  radius : K

structure Item (K : Type) where
  a1 : Nat
  a2 : Nat
  dist : K
  sym : Nat
  covalent : Bool

section Model
variable {K : Type} [Add K] [Sub K] [Mul K] [LT K] [LE K] [DecidableLT K] [DecidableLE K]

def V3.add (a b : V3 K) : V3 K := ⟨a.x + b.x, a.y + b.y, a.z + b.z⟩
def V3.sub (a b : V3 K) : V3 K := ⟨a.x - b.x, a.y - b.y, a.z - b.z⟩

/-- `SDM.__init__`: `asq = a ** 2`, `aga = a * b * cosga`, `bbe = a * c * cosbe`, `cal = b * c * cosal` -/
def Cell.ofLengths (a b c cosal cosbe cosga : K) : Cell K :=
  { asq := a * a, bsq := b * b, csq := c * c, aga := a * b * cosga, bbe := a * c * cosbe, cal := b * c * cosal }

/-- the radicand of `SDM.vector_length` (`2.0 * A` is `A + A` exactly, also in doubles) -/
def quadForm (c : Cell K) (v : V3 K) : K :=
  let A := v.x * v.y * c.aga + v.x * v.z * c.bbe + v.y * v.z * c.cal
  v.x * v.x * c.asq + v.y * v.y * c.bsq + v.z * v.z * c.csq + (A + A)

/-- `SDM.vector_length` -/
def vectorLength (sqrt : K → K) (c : Cell K) (v : V3 K) : K := sqrt (quadForm c v)

/-- `Array(frac) * symop.matrix + symop.trans` (`Array.__mul__` with a Matrix: `x' = x*m[0][0] + y*m[1][0] + z*m[2][0]`) -/
def applyOp (o : Op K) (v : V3 K) : V3 K :=
  ⟨v.x * o.r0.x + v.y * o.r1.x + v.z * o.r2.x + o.t.x,
   v.x * o.r0.y + v.y * o.r1.y + v.z * o.r2.y + o.t.y,
   v.x * o.r0.z + v.y * o.r1.z + v.z * o.r2.z + o.t.z⟩

/-- one component of `D = prime - at2 + 0.5; dp = (D - floor(D)) - 0.5`; `d` is `prime - at2` -/
def wrap (floor : K → K) (half : K) (d : K) : K :=
  let D := d + half
  (D - floor D) - half

def wrapV (floor : K → K) (half : K) (v : V3 K) : V3 K :=
  ⟨wrap floor half v.x, wrap floor half v.y, wrap floor half v.z⟩

/-- Python's `min(a, b)`: `b` only if `b < a` -/
def pyMin (a b : K) : K := if b < a then b else a

/-- the distance that takes part in the comparison: every operator but the first is handicapped by `bias`,
    so that the identity wins where two operators give the same contact -/
def biased (c : Consts K) (n : Nat) (dk : K) : K := if n = 0 then dk else dk + c.bias

/-- body of `for n, symop in enumerate(symmcards)`; state = (`mind`, the item's (dist, symmetry_number)) -/
def selStep (c : Consts K) (st : K × Option (K × Nat)) (n : Nat) (dk : K) : K × Option (K × Nat) :=
  if dk > c.cut then st
  else
    let b := biased c n dk
    if b > c.eps ∧ st.1 ≥ b then (pyMin b st.1, some (dk, n)) else st

def selLoop (c : Consts K) : K × Option (K × Nat) → Nat → List K → K × Option (K × Nat)
  | st, _, [] => st
  | st, n, dk :: ds => selLoop c (selStep c st n dk) (n + 1) ds

/-- the operator loop for one pair, given the wrapped length for every operator: `none` = no `SDMItem` -/
def selectOp (c : Consts K) (ds : List K) : Option (K × Nat) := (selLoop c (c.big, none) 0 ds).2

/-- wrapped difference vector for one operator -/
def wrappedDiff (floor : K → K) (c : Consts K) (o : Op K) (x1 x2 : V3 K) : V3 K :=
  wrapV floor c.half ((applyOp o x1).sub x2)

def opLengths (floor sqrt : K → K) (c : Consts K) (cell : Cell K) (ops : List (Op K)) (x1 x2 : V3 K) : List K :=
  ops.map fun o => vectorLength sqrt cell (wrappedDiff floor c o x1 x2)

/-- the bond criterion: `dddd = (r1 + r2) * 1.2` where the PART/hydrogen condition holds, else `0.0`;
    `covalent = dist < dddd` -/
def covalentOf (c : Consts K) (allowed : Bool) (r1 r2 dist : K) : Bool :=
  let dddd := if allowed then (r1 + r2) * c.factor else c.nobond
  decide (dist < dddd)

def pairItem (floor sqrt : K → K) (c : Consts K) (cell : Cell K) (ops : List (Op K))
    (i j : Nat) (a1 a2 : AtomM K) : Option (Item K) :=
  match selectOp c (opLengths floor sqrt c cell ops a1.pos a2.pos) with
  | none => none
  | some (d, n) =>
    some { a1 := i, a2 := j, dist := d, sym := n,
           covalent := covalentOf c (Extracted.bondAllowed a1.hyd a2.hyd a1.part a2.part) a1.radius a2.radius d }

/-- stable insertion by `dist` (what `list.sort()` does with `SDMItem.__lt__`) -/
def insertItem (it : Item K) : List (Item K) → List (Item K)
  | [] => [it]
  | h :: t => if it.dist < h.dist then it :: h :: t else h :: insertItem it t

def sortItems (l : List (Item K)) : List (Item K) := l.foldl (fun acc it => insertItem it acc) []

def enum {α : Type} (l : List α) : List (Nat × α) := (List.range l.length).zip l

/-- `SDM.calc_sdm`: all ordered pairs (i, j), including i = j, sorted by distance -/
def calcSdm (floor sqrt : K → K) (c : Consts K) (cell : Cell K) (ops : List (Op K)) (atoms : List (AtomM K)) :
    List (Item K) :=
  let ea := enum atoms
  sortItems (ea.flatMap fun (i, a1) => ea.filterMap fun (j, a2) => pairItem floor sqrt c cell ops i j a1 a2)

end Model

/-! ### molecule numbering (no numbers involved: indices, Int labels) -/

/-- what `calc_molindex` reads of an `SDMItem` -/
structure Bond where
  a1 : Nat
  a2 : Nat
  covalent : Bool

def upd (m : Nat → Int) (i : Nat) (v : Int) : Nat → Int := fun k => if k = i then v else m k

def fires (m : Nat → Int) (b : Bond) : Bool := b.covalent && decide (m b.a1 * m b.a2 < 0)

def molStep (maxmol : Int) (st : (Nat → Int) × Nat) (b : Bond) : (Nat → Int) × Nat :=
  if fires st.1 b then (upd (upd st.1 b.a1 maxmol) b.a2 maxmol, st.2 + 1) else st

/-- one `for sdm_item in self.sdm_list` sweep; the count is `someleft` -/
def molPass (maxmol : Int) (items : List Bond) (m : Nat → Int) : (Nat → Int) × Nat :=
  items.foldl (molStep maxmol) (m, 0)

/-- `while someleft:` with fuel (`none` = fuel exhausted) -/
def molInner (maxmol : Int) (items : List Bond) : Nat → (Nat → Int) → Option (Nat → Int)
  | 0, _ => none
  | f + 1, m =>
    let r := molPass maxmol items m
    if r.2 = 0 then some r.1 else molInner maxmol items f r.1

/-- `for ni, at in enumerate(all_atoms): if not at.ishydrogen and at.molindex < 0: nextmol = ni; break` -/
def firstUnassigned (hyd : Nat → Bool) (n : Nat) (m : Nat → Int) : Option Nat :=
  (List.range n).find? fun i => !hyd i && decide (m i < 0)

/-- `while nextmol:` with fuel; returns the labels and `maxmol` -/
def molOuter (hyd : Nat → Bool) (n : Nat) (items : List Bond) (innerFuel : Nat) :
    Nat → Int → (Nat → Int) → Option ((Nat → Int) × Int)
  | 0, _, _ => none
  | f + 1, maxmol, m =>
    match molInner maxmol items innerFuel m with
    | none => none
    | some m1 =>
      match firstUnassigned hyd n m1 with
      | none => some (m1, maxmol)
      | some ni =>
        -- `nextmol = ni` is used as the loop condition: index 0 would end the loop
        if ni = 0 then some (m1, maxmol)
        else molOuter hyd n items innerFuel f (maxmol + 1) (upd m1 ni (maxmol + 1))

/-- `SDM.calc_molindex` on a fresh `SDM` (`maxmol = 1`); `none` for an empty atom list (IndexError) or
    exhausted fuel. Fuel `n + 1` for both loops (see `ShelxProps.C13`). -/
def calcMolindex (hyd : Nat → Bool) (n : Nat) (items : List Bond) : Option ((Nat → Int) × Int) :=
  if n = 0 then none
  else molOuter hyd n items (n + 1) (n + 1) 1 (upd (fun _ => -1) 0 1)

/-! ### Specification -/

/-- the factor of the property's statement: bonded = closer than 1.2 times the sum of the covalent radii -/
def statementFactor : Rat := 6 / 5

/-- the library's bonding rule as the property states it: closer than `factor` times the sum of the covalent
    radii; never between different non-zero PARTs; hydrogens only within the same PART -/
def ruleAllowed (h1 h2 : Bool) (p1 p2 : Int) : Prop :=
  ¬ (p1 ≠ 0 ∧ p2 ≠ 0 ∧ p1 ≠ p2) ∧ ((h1 = true ∨ h2 = true) → p1 = p2)

instance (h1 h2 : Bool) (p1 p2 : Int) : Decidable (ruleAllowed h1 h2 p1 p2) := by
  unfold ruleAllowed; exact inferInstance

section Spec
variable {K : Type} [Add K] [Sub K] [Mul K] [LT K] [LE K] [DecidableLT K] [DecidableLE K]

def ruleBonded (factor r1 r2 d : K) (h1 h2 : Bool) (p1 p2 : Int) : Bool :=
  decide (d < factor * (r1 + r2)) && decide (ruleAllowed h1 h2 p1 p2)

/-- a crystallographic operator of the specification: `x ↦ R x + τ` (rows of R) -/
structure SOp (K : Type) where
  r0 : V3 K
  r1 : V3 K
  r2 : V3 K
  tau : V3 K

def SOp.apply (o : SOp K) (v : V3 K) : V3 K :=
  ⟨o.r0.x * v.x + o.r0.y * v.y + o.r0.z * v.z + o.tau.x,
   o.r1.x * v.x + o.r1.y * v.y + o.r1.z * v.z + o.tau.y,
   o.r2.x * v.x + o.r2.y * v.y + o.r2.z * v.z + o.tau.z⟩

/-- metric length of a fractional vector from the cell lengths and cosines (the metric tensor) -/
def metricSq (a b c cosal cosbe cosga : K) (v : V3 K) : K :=
  v.x * v.x * (a * a) + v.y * v.y * (b * b) + v.z * v.z * (c * c)
    + ((v.x * v.y * (a * b * cosga) + v.x * v.z * (a * c * cosbe) + v.y * v.z * (b * c * cosal))
     + (v.x * v.y * (a * b * cosga) + v.x * v.z * (a * c * cosbe) + v.y * v.z * (b * c * cosal)))

/-- executable specification for one pair: the smallest squared distance between `x2` and the images
    `R x1 + τ + t` over all operators and all `t` of the box, images closer than `tiny²` (the atom itself)
    left out; returns (squared distance, operator number) -/
def specPair (msq : V3 K → K) (tinySq : K) (ops : List (SOp K)) (box : List (V3 K)) (x1 x2 : V3 K) :
    Option (K × Nat) :=
  (enum ops).foldl (fun best (n, o) =>
    box.foldl (fun best t =>
      let d := msq (((o.apply x1).add t).sub x2)
      if d ≤ tinySq then best
      else match best with
        | none => some (d, n)
        | some (bd, _) => if d < bd then some (d, n) else best) best) none

end Spec

/-- connected components by label propagation: every atom starts with its own index, `n` rounds of
    "take the smallest label among bonded neighbours" -/
def specRelax (n : Nat) (bonded : Nat → Nat → Bool) (lab : List Nat) : List Nat :=
  (List.range n).map fun i =>
    (List.range n).foldl (fun acc j =>
      match lab[j]? with
      | some lj => if (bonded i j || bonded j i) && lj < acc then lj else acc
      | none => acc) (match lab[i]? with | some l => l | none => i)

def specLabels (n : Nat) (bonded : Nat → Nat → Bool) : List Nat :=
  (List.range n).foldl (fun lab _ => specRelax n bonded lab) (List.range n)

end Shelx.C13

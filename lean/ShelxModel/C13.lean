/- C13 — model and specification (stub; see HACKING.md) -/
namespace Shelx.C13

end Shelx.C13

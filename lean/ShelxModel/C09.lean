/-
  C09 — occupancies and sum formulae follow the SHELXL free-variable rule.

  Model of (exact arithmetic, `Rat`):
    misc.split_fvar_and_parameter   (misc.py)            -> `splitCode`
    FVARs.__getitem__               (cards.py)           -> `fvGet`
    Atom.fvar / Atom.occupancy      (atom.py)            -> `fvarOf`, `occupancy`
    Shelxfile.sum_formula_exact_as_dict (shelx.py)       -> `sumExact`
    Shelxfile.sum_formula  (the numbers, UNIT/Z)         -> `unitFormula`
  Specification (code independent): `decode`, `ruleOcc`, `specSum`, `specUnit`.
-/
namespace Shelx.C09

/-! ### Python helpers -/

/-- Python `round(x, 8)` on the exact value: round-half-even to 8 decimals -/
def roundHalfEven (x : Rat) : Int :=
  let f := x.floor
  let r := x - f
  if r < 1/2 then f else if r > 1/2 then f + 1 else if f % 2 = 0 then f else f + 1

def round8 (x : Rat) : Rat := (roundHalfEven (x * 100000000) : Rat) / 100000000

/-! ### Model -/

/-- `split_fvar_and_parameter`: `fvar = floor((c + 5) / 10)`, `value = round(c - 10 * fvar, 8)` -/
def splitCode (c : Rat) : Int × Rat :=
  let m := ((c + 5) / 10).floor
  (m, round8 (c - 10 * m))

/-- `Atom.fvar` -/
def fvarOf (c : Rat) : Int := (splitCode c).1

/-- `FVARs.__getitem__`: `self.fvars[abs(item) - 1]`; `none` is Python's IndexError.
    (only reached with |item| ≥ 2, so Python's negative-index wrap-around does not occur) -/
def fvGet (fv : List Rat) (item : Int) : Option Rat := fv[item.natAbs - 1]?

/-- `Atom.occupancy` (an undefined free variable gives 1.0, as in `_get_positive_occupancy`) -/
def occupancy (fv : List Rat) (c : Rat) : Rat :=
  let mp := splitCode c
  if mp.1.natAbs ≤ 1 then mp.2
  else match fvGet fv mp.1 with
    | none => 1
    | some v => if mp.1 > 0 then v * mp.2 else mp.2 * (v - 1)

structure AtomS where
  element : String        -- already upper-cased
  qpeak : Bool
  sof : Rat
deriving Repr

/-- assoc-list version of the dict in `sum_formula_exact_as_dict` (insertion order kept) -/
def dictAdd (d : List (String × Rat)) (k : String) (v : Rat) : List (String × Rat) :=
  match d with
  | [] => [(k, v)]
  | (k', v') :: t => if k' = k then (k', v' + v) :: t else (k', v') :: dictAdd t k v

def dictHas (d : List (String × Rat)) (k : String) : Bool := d.any (·.1 = k)

def dictGet (d : List (String × Rat)) (k : String) : Option Rat := (d.find? (·.1 = k)).map (·.2)

/-- inner loop over the atoms for one SFAC element -/
def sumInner (fv : List Rat) (el : String) (atoms : List AtomS) (d : List (String × Rat)) : List (String × Rat) :=
  atoms.foldl (fun d a => if a.element = el && !a.qpeak then dictAdd d el (occupancy fv a.sof) else d) d

/-- `sum_formula_exact_as_dict`: elements in SFAC order, 0.0 for an element without atoms -/
def sumExact (fv : List Rat) (els : List String) (atoms : List AtomS) : List (String × Rat) :=
  els.foldl (fun d el =>
    let d' := sumInner fv el atoms d
    if dictHas d' el then d' else d' ++ [(el, 0)]) []

/-- `sum_formula`: numbers of `UNIT` divided by `Z`, in SFAC order; `none` is the empty string the code
    returns (different lengths give an empty formula, Z = 0 is the ZeroDivisionError branch) -/
def unitFormula (els : List String) (unit : List Rat) (z : Rat) : Option (List (String × Rat)) :=
  if els.length ≠ unit.length then some []
  else if z = 0 ∧ els ≠ [] then none
  else some (els.zip (unit.map (· / z)))

/-! ### Specification -/

/-- the unique `(m, p)` with `c = 10 m + p`, `-5 ≤ p < 5` -/
def decode (c : Rat) : Int × Rat :=
  let m := ((c + 5) / 10).floor
  (m, c - 10 * m)

/-- SHELXL's rule. `fvOf k` is free variable number `k` (1-based), `none` where the rule of the
    statement does not constrain the result (m = -1, or the free variable does not exist). -/
def ruleOcc (fvOf : Int → Option Rat) (m : Int) (p : Rat) : Option Rat :=
  if m = 0 ∨ m = 1 then some p
  else if m > 1 then (fvOf m).map (fun v => p * v)
  else if m < -1 then (fvOf (-m)).map (fun v => p * (v - 1))
  else none

def fvOfList (fv : List Rat) (k : Int) : Option Rat := if k ≥ 1 then fv[k.toNat - 1]? else none

def specOcc (fv : List Rat) (c : Rat) : Option Rat :=
  let mp := decode c
  ruleOcc (fvOfList fv) mp.1 mp.2

/-- exact sum formula: per SFAC element the sum of the occupancies of all non-Q-peak atoms of it -/
def specSum (occ : Rat → Rat) (els : List String) (atoms : List AtomS) : List (String × Rat) :=
  els.map fun el => (el, ((atoms.filter fun a => a.element = el && !a.qpeak).map fun a => occ a.sof).sum)

def specUnit (els : List String) (unit : List Rat) (z : Rat) : List (String × Rat) :=
  els.zip (unit.map (· / z))

end Shelx.C09

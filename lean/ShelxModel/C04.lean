/-
  C04 — API edits change exactly what they say: nothing else is lost, moved or altered.

  Model of (shelxfile/shelx/shelx.py unless stated):
    Shelxfile._reslist, delete_on_write, the object heap          -> `St` (`res`, `dow`, `heap`)
    write_shelx_file (skip `num in delete_on_write`, skip `''`)   -> `written`
    _parse_cards, SFAC / FVAR absorption (lines 525-541, 569-577) -> `load` (repaired: the absorbed entry is
                                                                     blanked in place), `loadAbs` (the scheme
                                                                     with absolute indices, as it was)
    list.insert                                                   -> `pyInsert`
    index_of / Atom.atomid / Command.index  (list.index)          -> `indexOf`
    add_line                                                      -> `Op.addLine`
    insert_anis, insert_frag_fend_entry (add_line(obj.position))  -> `Op.insertAfter`
    Atoms.__delitem__ / Atom.delete / refine.remove_acta_card     -> `Op.delete`
    replace_line                                                  -> `Op.replace`
    Command.set, LSCycles.number, WGHT attributes, update_weight,
    Atom.name / element (+ SFACTable.add_element, UNIT.add_number),
    Atom.to_isotropic: the object is changed in place             -> `Op.setObj`
    refine.restore_acta_card (insert ' ' after UNIT, assign card) -> `Op.insertObjAfter`
  Specification (code independent, no list indices for the object-directed edits):
    the file is a list of logical lines `Line` (who prints it, tokens);
    `insertAt`, `insertAfterKey`, `deleteKey`, `replaceKey`, `setKey`, `absStep`, `absRun`.

  `τ` is the token type (`String` in the driver).
-/
namespace Shelx.C04

/-! ### Model -/

/-- one entry of `_reslist` -/
inductive Item (τ : Type) where
  | raw (t : List τ)        -- a `str` entry that is not `''` (unparsed line, line inserted by `add_line`)
  | obj (id : Nat)          -- an object (Command, Atom, SFACTable, FVARs …); printed through the heap
  | blank                   -- `''`: continuation line consumed by the parser / blanked absorbed line
  | absorbed (t : List τ)   -- entry of a second or later SFAC/FVAR line whose content went into the first
                            --   one's object (`' '`, or the last `FVAR` object of that line, printed `t`);
                            --   only the absolute-index scheme leaves such entries in the list
deriving DecidableEq, Repr

/-- a logical line of the written file: the object that printed it (if any) and its tokens -/
structure Line (τ : Type) where
  key : Option Nat
  toks : List τ
deriving DecidableEq, Repr

structure St (τ : Type) where
  res : List (Item τ)
  dow : List Nat            -- delete_on_write: absolute indices into `res`
  heap : Nat → List τ       -- what `str(obj)` gives, as tokens

variable {τ : Type}

/-- what `f.write(str(line))` emits for an entry that is not skipped -/
def vis (h : Nat → List τ) : Item τ → Option (Line τ)
  | .raw t => some ⟨none, t⟩
  | .obj o => some ⟨some o, h o⟩
  | .blank => none
  | .absorbed t => some ⟨none, t⟩

/-- `write_shelx_file`: `for num, line in enumerate(_reslist): if num in delete_on_write: continue;
    if line == '': continue; write` -/
def writtenFrom (h : Nat → List τ) (dow : List Nat) : Nat → List (Item τ) → List (Line τ)
  | _, [] => []
  | k, it :: r =>
    (if k ∈ dow then [] else match vis h it with | none => [] | some l => [l]) ++ writtenFrom h dow (k + 1) r

def written (s : St τ) : List (Line τ) := writtenFrom s.heap s.dow 0 s.res

/-- Python `list.insert(n, x)` (n ≥ 0): positions past the end append -/
def pyInsert {α : Type} : Nat → α → List α → List α
  | 0, x, l => x :: l
  | _ + 1, x, [] => [x]
  | n + 1, x, a :: l => a :: pyInsert n x l

/-- `Shelxfile.index_of(obj)`: position of the first entry that *is* the object (`item is obj`, also behind
    `Atom.atomid` / `Atom.index` / `Command.index`); `none` is `ValueError`. Entries that merely print the same
    text — a second atom with a word-by-word identical line, a plain text line equal to `str(atom)` — are
    different entries: `Item.obj` carries the identity, not the text. -/
def indexOf [DecidableEq τ] (o : Nat) : List (Item τ) → Option Nat
  | [] => none
  | it :: r => if it = .obj o then some 0 else (indexOf o r).map (· + 1)

def setHeap (h : Nat → List τ) (o : Nat) (t : List τ) : Nat → List τ := fun i => if i = o then t else h i

/-- the editing operations, as the API performs them on `_reslist` -/
inductive Op (τ : Type) where
  | addLine (i : Nat) (t : List τ)                 -- add_line(i, text): `_reslist.insert(i + 1, text)`
  | insertAfter (o : Nat) (t : List τ)             -- add_line(obj.position, text)
  | delete (o : Nat)                               -- `del _reslist[_reslist.index(obj)]`
  | replace (o : Nat) (t : List τ)                 -- `_reslist[index_of(obj)] = text`
  | setObj (o : Nat) (t : List τ)                  -- the object now prints `t`
  | insertObjAfter (u n : Nat) (t : List τ)        -- new object `n` (printing `t`) right after object `u`
deriving Repr

/-- one API call; `none` = the call raised (`ValueError` of `list.index`). `delete_on_write` is never
    touched by an edit — exactly as in the code. -/
def step [DecidableEq τ] (s : St τ) : Op τ → Option (St τ)
  | .addLine i t => some { s with res := pyInsert (i + 1) (.raw t) s.res }
  | .insertAfter o t => (indexOf o s.res).map fun i => { s with res := pyInsert (i + 1) (.raw t) s.res }
  | .delete o => (indexOf o s.res).map fun i => { s with res := s.res.eraseIdx i }
  | .replace o t => (indexOf o s.res).map fun i => { s with res := s.res.set i (.raw t) }
  | .setObj o t => some { s with heap := setHeap s.heap o t }
  | .insertObjAfter u n t =>
    (indexOf u s.res).map fun i => { s with res := pyInsert (i + 1) (.obj n) s.res, heap := setHeap s.heap n t }

def run [DecidableEq τ] (s : St τ) : List (Op τ) → Option (St τ)
  | [] => some s
  | op :: r => (step s op).bind fun s' => run s' r

/-! ### The parser's side: how a source file becomes `(res, dow, heap)` -/

inductive SrcKind where
  | sfac | fvar | other
deriving DecidableEq, Repr

/-- one logical line of the source file: class, number of physical lines (continuations), and what the
    object made from it prints. The object id of logical line number `k` is `k`. -/
structure Src (τ : Type) where
  kind : SrcKind
  nphys : Nat
  toks : List τ
deriving Repr

structure LoadSt (τ : Type) where
  res : List (Item τ) := []          -- in file order
  dow : List Nat := []
  heap : List (Nat × List τ) := []   -- latest binding first
  sfac : Option Nat := none          -- id of the SFAC table object once it is in the list
  fvar : Option Nat := none
  next : Nat := 0

def lookup (h : List (Nat × List τ)) (o : Nat) : List τ :=
  match h with
  | [] => []
  | (k, v) :: r => if k = o then v else lookup r o

def blanks (n : Nat) : List (Item τ) := List.replicate n .blank

/-- one logical source line. `fixed = true`: the repaired code (the entry of an absorbed line is blanked in
    place, nothing is remembered by index); `fixed = false`: the absolute-index scheme. -/
def loadLine (fixed : Bool) (a : LoadSt τ) (l : Src τ) : LoadSt τ :=
  let k := a.next
  let first : LoadSt τ := { a with res := a.res ++ .obj k :: blanks (l.nphys - 1), heap := (k, l.toks) :: a.heap, next := k + 1 }
  let absorb (o : Nat) (shown : List τ) : LoadSt τ :=
    let heap := (o, lookup a.heap o ++ l.toks.drop 1) :: a.heap
    if fixed then { a with res := a.res ++ blanks l.nphys, heap := heap, next := k + 1 }
    else { a with res := a.res ++ .absorbed shown :: blanks (l.nphys - 1), dow := a.dow ++ [a.res.length],
                  heap := heap, next := k + 1 }
  match l.kind with
  | .other => first
  | .sfac => match a.sfac with
    | none => { first with sfac := some k }
    | some o => absorb o []                                  -- `_reslist[line_num] = ' '`
  | .fvar => match a.fvar with
    | none => { first with fvar := some k }
    | some o => absorb o (l.toks.drop (l.toks.length - 1))   -- the line's last `FVAR` object stays in the list

def loadWith (fixed : Bool) (src : List (Src τ)) : St τ :=
  let a := src.foldl (loadLine fixed) {}
  { res := a.res, dow := a.dow, heap := lookup a.heap }

/-- the repaired parser -/
def load (src : List (Src τ)) : St τ := loadWith true src
/-- the parser with `delete_on_write` holding absolute indices -/
def loadAbs (src : List (Src τ)) : St τ := loadWith false src

/-! ### Specification: a file is a list of logical lines -/

/-- the new line becomes line number `p` (counting from 0); past the end: last -/
def insertAt (p : Nat) (n : Line τ) (ls : List (Line τ)) : List (Line τ) := pyInsert p n ls

/-- the new line follows the line printed by object `o`; nothing else moves -/
def insertAfterKey (o : Nat) (n : Line τ) : List (Line τ) → Option (List (Line τ))
  | [] => none
  | l :: r => if l.key = some o then some (l :: n :: r) else (insertAfterKey o n r).map (l :: ·)

/-- the line printed by object `o` disappears; nothing else does -/
def deleteKey (o : Nat) : List (Line τ) → Option (List (Line τ))
  | [] => none
  | l :: r => if l.key = some o then some r else (deleteKey o r).map (l :: ·)

/-- the line printed by object `o` is exchanged for `n` -/
def replaceKey (o : Nat) (n : Line τ) : List (Line τ) → Option (List (Line τ))
  | [] => none
  | l :: r => if l.key = some o then some (n :: r) else (replaceKey o n r).map (l :: ·)

/-- what object `o` prints now reads `t`; every other line is untouched -/
def setKey (o : Nat) (t : List τ) (ls : List (Line τ)) : List (Line τ) :=
  ls.map fun l => if l.key = some o then { l with toks := t } else l

/-- abstract edits -/
inductive AOp (τ : Type) where
  | insertAt (p : Nat) (t : List τ)
  | insertAfter (o : Nat) (t : List τ)
  | delete (o : Nat)
  | replace (o : Nat) (t : List τ)
  | setObj (o : Nat) (t : List τ)
  | insertObjAfter (u n : Nat) (t : List τ)
deriving Repr, DecidableEq

def absStep (ls : List (Line τ)) : AOp τ → Option (List (Line τ))
  | .insertAt p t => some (insertAt p ⟨none, t⟩ ls)
  | .insertAfter o t => insertAfterKey o ⟨none, t⟩ ls
  | .delete o => deleteKey o ls
  | .replace o t => replaceKey o ⟨none, t⟩ ls
  | .setObj o t => some (setKey o t ls)
  | .insertObjAfter u n t => insertAfterKey u ⟨some n, t⟩ (setKey n t ls)

def absRun (ls : List (Line τ)) : List (AOp τ) → Option (List (Line τ))
  | [] => some ls
  | a :: r => (absStep ls a).bind fun ls' => absRun ls' r

/-- number of written lines among the first `n` list entries (entries skipped on write do not count) -/
def visCount (h : Nat → List τ) : Nat → List (Item τ) → Nat
  | 0, _ => 0
  | _ + 1, [] => 0
  | n + 1, it :: r => (match vis h it with | none => 0 | some _ => 1) + visCount h n r

/-- the abstract edit an API call stands for. Only `add_line` with a bare list index needs the state:
    "after list entry `i`" means "after the last written line at or before entry `i`". -/
def absOf (s : St τ) : Op τ → AOp τ
  | .addLine i t => .insertAt (visCount s.heap (i + 1) s.res) t
  | .insertAfter o t => .insertAfter o t
  | .delete o => .delete o
  | .replace o t => .replace o t
  | .setObj o t => .setObj o t
  | .insertObjAfter u n t => .insertObjAfter u n t

/-- the abstract history that a history of API calls stands for (stops where a call raises) -/
def absTrace [DecidableEq τ] (s : St τ) : List (Op τ) → List (AOp τ)
  | [] => []
  | op :: r => absOf s op :: match step s op with
    | none => []
    | some s' => absTrace s' r

end Shelx.C04

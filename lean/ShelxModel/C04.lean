/- C04 — model and specification (stub; see HACKING.md) -/
namespace Shelx.C04

end Shelx.C04

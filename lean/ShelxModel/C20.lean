/-
  C20 — the quaternion fit returns the optimal proper rotation and places fragments.

  Model of shelxfile/fit/quatfit.py (generic in the number type `K`; driver: `Float`, theorems: `ℝ`, witnesses: `Rat`):
    qtrfit (the nine correlation sums and the ten entries of the 4×4 form)  -> `corrStep`, `corr`, `qformOf`, `qform`
    jacobi                                                                  -> `jacobiRot`, `rotIf`, `sweep`, `jacobiLoop`, `sortEig`, `jacobi`
    q2mat                                                                   -> `q2mat`
    transpose                                                               -> `transpose`
    rotmol                                                                  -> `rotPoint`, `rotmol`
    qtrfit (whole)                                                          -> `qtrfit`
    centroid                                                                -> `centroid`
    matrix_minus_vect / matrix_plus_vect                                    -> `minusVect`, `plusVect`
    rmsd                                                                    -> `ssd`, `rmsd`
    fit_fragment (the repaired code, fixes/C20_1_*, C20_2_*)                -> `fitFragment`
    fit_fragment (as found in the snapshot; kept for the witness theorems)  -> `fitFragmentOld`
    fit_fragment on the caller's objects (rows as mutable cells, lists of references; deepcopy / append allocate,
      rotmol writes in place), histories of in-place changes and fits   -> `Heap`, `fitFragmentH`, `Step`, `runH`; spec `specH`
  Specification (code independent): `ssdDirect` (Σ‖R xᵢ − yᵢ‖² for an arbitrary 3×3 matrix applied the ordinary
  way), `IsProper` (RᵀR = 1, RRᵀ = 1, det R = 1), `quad` (qᵀNq), `sumSq`, `pivots` (LDLᵀ pivots of μ·1 − N: all positive
  iff μ is above every eigenvalue — Sylvester), `placeSpec` (R(p − p̄) + t̄).

  Conventions found in the code (they matter for Horn's identity):
    * `q2mat(q)[r][c]` is the TRANSPOSE of the textbook rotation matrix of `q`;
    * `qtrfit` returns `transpose(q2mat(q))`;
    * `rotmol(x, U)` computes `y_c = Σ_r U[r][c]·x_r`, i.e. applies `Uᵀ`;
    so `rotmol(x, qtrfit(..)[1])` applies `q2mat(q)` as an ordinary (left) matrix: `y = q2mat(q)·x`;
    * the off-diagonal first row of the 4×4 form has the opposite sign of Horn's N (it is the form of the conjugate
      quaternion), which matches the transposed `q2mat`.
-/
namespace Shelx.C20

structure P3 (K : Type) where
  x : K
  y : K
  z : K
deriving Repr, BEq, DecidableEq

structure Q4 (K : Type) where
  q0 : K
  q1 : K
  q2 : K
  q3 : K
deriving Repr

/-- 3×3 matrix, `mRC` = `m[R][C]` of the Python nested list -/
structure M3 (K : Type) where
  m00 : K
  m01 : K
  m02 : K
  m10 : K
  m11 : K
  m12 : K
  m20 : K
  m21 : K
  m22 : K
deriving Repr

/-- upper triangle (with diagonal) of the symmetric 4×4 matrix `matrix` of `qtrfit` -/
structure S4 (K : Type) where
  n00 : K
  n01 : K
  n02 : K
  n03 : K
  n11 : K
  n12 : K
  n13 : K
  n22 : K
  n23 : K
  n33 : K
deriving Repr

/-- the nine running sums `xxyx … xzyz` of `qtrfit` -/
structure Acc9 (K : Type) where
  xxyx : K
  xxyy : K
  xxyz : K
  xyyx : K
  xyyy : K
  xyyz : K
  xzyx : K
  xzyy : K
  xzyz : K
deriving Repr

section ring
variable {K : Type} [Add K] [Sub K] [Mul K] [OfNat K 0] [OfNat K 2]

/-! ### Model: algebraic kernels -/

/-- one pass of the loop `for i, _ in enumerate(source_xyz)` (quatfit.py:242-251); `p = (source[i], target[i])` -/
def corrStep (a : Acc9 K) (p : P3 K × P3 K) : Acc9 K :=
  { xxyx := a.xxyx + p.1.x * p.2.x
    xxyy := a.xxyy + p.1.x * p.2.y
    xxyz := a.xxyz + p.1.x * p.2.z
    xyyx := a.xyyx + p.1.y * p.2.x
    xyyy := a.xyyy + p.1.y * p.2.y
    xyyz := a.xyyz + p.1.y * p.2.z
    xzyx := a.xzyx + p.1.z * p.2.x
    xzyy := a.xzyy + p.1.z * p.2.y
    xzyz := a.xzyz + p.1.z * p.2.z }

def acc0 : Acc9 K := ⟨0, 0, 0, 0, 0, 0, 0, 0, 0⟩

def corr (l : List (P3 K × P3 K)) : Acc9 K := l.foldl corrStep acc0

/-- the ten assignments `matrix[0][0] = … matrix[3][3] = …` (quatfit.py:253-262) -/
def qformOf (a : Acc9 K) : S4 K :=
  { n00 := a.xxyx + a.xyyy + a.xzyz
    n01 := a.xzyy - a.xyyz
    n11 := a.xxyx - a.xyyy - a.xzyz
    n02 := a.xxyz - a.xzyx
    n12 := a.xxyy + a.xyyx
    n22 := a.xyyy - a.xzyz - a.xxyx
    n03 := a.xyyx - a.xxyy
    n13 := a.xzyx + a.xxyz
    n23 := a.xyyz + a.xzyy
    n33 := a.xzyz - a.xxyx - a.xyyy }

/-- the quadratic form of `qtrfit` for index-paired points -/
def qformPairs (l : List (P3 K × P3 K)) : S4 K := qformOf (corr l)

/-- `qtrfit`'s matrix; `none` is the IndexError of `target_xyz[i]` when the target list is shorter -/
def qform (src tgt : List (P3 K)) : Option (S4 K) :=
  if src.length ≤ tgt.length then some (qformPairs (src.zip tgt)) else none

/-- `q2mat` (quatfit.py:168-179), entry by entry -/
def q2mat (q : Q4 K) : M3 K :=
  { m00 := q.q0 * q.q0 + q.q1 * q.q1 - q.q2 * q.q2 - q.q3 * q.q3
    m10 := 2 * (q.q1 * q.q2 - q.q0 * q.q3)
    m20 := 2 * (q.q1 * q.q3 + q.q0 * q.q2)
    m01 := 2 * (q.q2 * q.q1 + q.q0 * q.q3)
    m11 := q.q0 * q.q0 - q.q1 * q.q1 + q.q2 * q.q2 - q.q3 * q.q3
    m21 := 2 * (q.q2 * q.q3 - q.q0 * q.q1)
    m02 := 2 * (q.q3 * q.q1 - q.q0 * q.q2)
    m12 := 2 * (q.q3 * q.q2 + q.q0 * q.q1)
    m22 := q.q0 * q.q0 - q.q1 * q.q1 - q.q2 * q.q2 + q.q3 * q.q3 }

/-- `transpose` = `list(zip(*a))` on a 3×3 list -/
def transpose (u : M3 K) : M3 K :=
  { m00 := u.m00, m01 := u.m10, m02 := u.m20
    m10 := u.m01, m11 := u.m11, m12 := u.m21
    m20 := u.m02, m21 := u.m12, m22 := u.m22 }

/-- body of `rotmol`'s loop: `y_c = rotmat[0][c]·x + rotmat[1][c]·y + rotmat[2][c]·z` (applies the transpose) -/
def rotPoint (u : M3 K) (p : P3 K) : P3 K :=
  { x := u.m00 * p.x + u.m10 * p.y + u.m20 * p.z
    y := u.m01 * p.x + u.m11 * p.y + u.m21 * p.z
    z := u.m02 * p.x + u.m12 * p.y + u.m22 * p.z }

def rotmol (pts : List (P3 K)) (u : M3 K) : List (P3 K) := pts.map (rotPoint u)

def minusVect (pts : List (P3 K)) (v : P3 K) : List (P3 K) := pts.map fun p => ⟨p.x - v.x, p.y - v.y, p.z - v.z⟩
def plusVect (pts : List (P3 K)) (v : P3 K) : List (P3 K) := pts.map fun p => ⟨p.x + v.x, p.y + v.y, p.z + v.z⟩

/-- one pass of `rmsd`'s loop: `rmsd += sum([(v[i] - w[i]) ** 2.0 for i in range(3)])` (`sum` starts at 0) -/
def ssdStep (acc : K) (p : P3 K × P3 K) : K :=
  acc + (0 + (p.1.x - p.2.x) * (p.1.x - p.2.x) + (p.1.y - p.2.y) * (p.1.y - p.2.y) + (p.1.z - p.2.z) * (p.1.z - p.2.z))

/-- the sum of squared deviations accumulated by `rmsd` over `zip(vect1, vect2)` -/
def ssd (l : List (P3 K × P3 K)) : K := l.foldl ssdStep 0

/-! ### Specification side (code independent) -/

/-- an ordinary matrix–vector product `R·p` -/
def mulVec (r : M3 K) (p : P3 K) : P3 K :=
  { x := r.m00 * p.x + r.m01 * p.y + r.m02 * p.z
    y := r.m10 * p.x + r.m11 * p.y + r.m12 * p.z
    z := r.m20 * p.x + r.m21 * p.y + r.m22 * p.z }

def dist2 (a b : P3 K) : K := (a.x - b.x) * (a.x - b.x) + (a.y - b.y) * (a.y - b.y) + (a.z - b.z) * (a.z - b.z)

/-- Σᵢ ‖R·xᵢ − yᵢ‖² -/
def ssdDirect (r : M3 K) : List (P3 K × P3 K) → K
  | [] => 0
  | p :: t => dist2 (mulVec r p.1) p.2 + ssdDirect r t

def norm2 (a : P3 K) : K := a.x * a.x + a.y * a.y + a.z * a.z

def sumSq : List (P3 K) → K
  | [] => 0
  | p :: t => norm2 p + sumSq t

def qnorm2 (q : Q4 K) : K := q.q0 * q.q0 + q.q1 * q.q1 + q.q2 * q.q2 + q.q3 * q.q3

/-- `N·q` for the symmetric matrix whose upper triangle is `n` -/
def mulQ (n : S4 K) (q : Q4 K) : Q4 K :=
  { q0 := n.n00 * q.q0 + n.n01 * q.q1 + n.n02 * q.q2 + n.n03 * q.q3
    q1 := n.n01 * q.q0 + n.n11 * q.q1 + n.n12 * q.q2 + n.n13 * q.q3
    q2 := n.n02 * q.q0 + n.n12 * q.q1 + n.n22 * q.q2 + n.n23 * q.q3
    q3 := n.n03 * q.q0 + n.n13 * q.q1 + n.n23 * q.q2 + n.n33 * q.q3 }

def dotQ (a b : Q4 K) : K := a.q0 * b.q0 + a.q1 * b.q1 + a.q2 * b.q2 + a.q3 * b.q3

/-- `qᵀ N q` -/
def quad (n : S4 K) (q : Q4 K) : K := dotQ q (mulQ n q)

def det3 (r : M3 K) : K :=
  r.m00 * (r.m11 * r.m22 - r.m12 * r.m21) - r.m01 * (r.m10 * r.m22 - r.m12 * r.m20) + r.m02 * (r.m10 * r.m21 - r.m11 * r.m20)

/-- `AᵀB` -/
def mulT (a b : M3 K) : M3 K :=
  { m00 := a.m00 * b.m00 + a.m10 * b.m10 + a.m20 * b.m20
    m01 := a.m00 * b.m01 + a.m10 * b.m11 + a.m20 * b.m21
    m02 := a.m00 * b.m02 + a.m10 * b.m12 + a.m20 * b.m22
    m10 := a.m01 * b.m00 + a.m11 * b.m10 + a.m21 * b.m20
    m11 := a.m01 * b.m01 + a.m11 * b.m11 + a.m21 * b.m21
    m12 := a.m01 * b.m02 + a.m11 * b.m12 + a.m21 * b.m22
    m20 := a.m02 * b.m00 + a.m12 * b.m10 + a.m22 * b.m20
    m21 := a.m02 * b.m01 + a.m12 * b.m11 + a.m22 * b.m21
    m22 := a.m02 * b.m02 + a.m12 * b.m12 + a.m22 * b.m22 }

end ring

def M3.one {K : Type} [OfNat K 0] [OfNat K 1] : M3 K := ⟨1, 0, 0, 0, 1, 0, 0, 0, 1⟩

/-- proper rotation: columns orthonormal, rows orthonormal, determinant +1 -/
def IsProper {K : Type} [Add K] [Sub K] [Mul K] [OfNat K 0] [OfNat K 1] [OfNat K 2] (r : M3 K) : Prop :=
  mulT r r = M3.one ∧ mulT (transpose r) (transpose r) = M3.one ∧ det3 r = 1

section field
variable {K : Type} [Add K] [Sub K] [Mul K] [Div K] [Neg K] [OfNat K 0] [OfNat K 1] [OfNat K 2]

/-! ### Model: centroid, rmsd -/

/-- `centroid`: component sums and the running count `num`; `none` is the ZeroDivisionError of an empty list.
    (`num` is a Python int; counting in `K` is exact for every list that fits in memory.) -/
def centroid (isZero : K → Bool) (pts : List (P3 K)) : Option (P3 K) :=
  let r := pts.foldl (fun (a : P3 K × K) p => (⟨a.1.x + p.x, a.1.y + p.y, a.1.z + p.z⟩, a.2 + 1)) ((⟨0, 0, 0⟩ : P3 K), (0 : K))
  if isZero r.2 then none else some ⟨r.1.x / r.2, r.1.y / r.2, r.1.z / r.2⟩

/-- `len(v)` as a number of type `K` -/
def lenK {α : Type} (l : List α) : K := l.foldl (fun n _ => n + 1) 0

/-- `rmsd(vect1, vect2)` = `sqrt(Σ_zip … / len(vect1))`; `none` is the IndexError of `vect1[0]` on an empty list -/
def rmsd (sqrt : K → K) (v w : List (P3 K)) : Option K :=
  match v with
  | [] => none
  | _ => some (sqrt (ssd (v.zip w) / lenK v))

/-! ### Model: `jacobi` (quatfit.py:79-153)

  `matrix` and `eigenvect` are 4×4 nested lists, `eigenval` a list of 4; here functions of the indices with point
  updates. Only the strict upper triangle of `matrix` is read after the initial copy of the diagonal. -/

/-- wrapped in structures so that compiled code evaluates an updated value once, at the update -/
structure Mat (K : Type) where
  f : Nat → Nat → K

structure Vec (K : Type) where
  f : Nat → K

instance : CoeFun (Mat K) (fun _ => Nat → Nat → K) := ⟨Mat.f⟩
instance : CoeFun (Vec K) (fun _ => Nat → K) := ⟨Vec.f⟩

def upd (m : Mat K) (r c : Nat) (v : K) : Mat K := ⟨fun r' c' => if r' = r ∧ c' = c then v else m r' c'⟩
def updV (d : Vec K) (i : Nat) (v : K) : Vec K := ⟨fun i' => if i' = i then v else d i'⟩

structure JState (K : Type) where
  a : Mat K
  v : Mat K
  d : Vec K

/-- the body of `if fabs(b) > 0.0:` after `c` and `s` are known (quatfit.py:118-137) -/
def jacobiRot (i j : Nat) (c s b : K) (st : JState K) : JState K :=
  let a := upd st.a i j 0
  let a := (List.range i).foldl (fun a k =>
    let atemp := c * a k i - s * a k j
    let a := upd a k j (s * a k i + c * a k j)
    upd a k i atemp) a
  let a := (List.range' (i + 1) (j - (i + 1))).foldl (fun a k =>
    let atemp := c * a i k - s * a k j
    let a := upd a k j (s * a i k + c * a k j)
    upd a i k atemp) a
  let a := (List.range' (j + 1) (4 - (j + 1))).foldl (fun a k =>
    let atemp := c * a i k - s * a j k
    let a := upd a j k (s * a i k + c * a j k)
    upd a i k atemp) a
  let v := (List.range 4).foldl (fun v k =>
    let vtemp := c * v k i - s * v k j
    let v := upd v k j (s * v k i + c * v k j)
    upd v k i vtemp) st.v
  let dtemp := c * c * st.d i + s * s * st.d j - 2 * c * s * b
  let d := updV st.d j (s * s * st.d i + c * c * st.d j + 2 * c * s * b)
  let d := updV d i dtemp
  { a := a, v := v, d := d }

/-- what `jacobi` needs beyond ring operations -/
structure JOps (K : Type) where
  abs : K → K
  sqrt : K → K
  lt : K → K → Bool
  le : K → K → Bool
  isZero : K → Bool
  half : K
  eps : K

/-- one `(i, j)` step of a sweep (quatfit.py:106-137): choose the rotation, then apply it -/
def rotIf (ops : JOps K) (i j : Nat) (st : JState K) : JState K :=
  let b := st.a i j
  if ops.lt 0 (ops.abs b) then
    let dma := st.d j - st.d i
    let t :=
      if ops.le (ops.abs dma + ops.abs b) (ops.abs dma) then b / dma
      else
        let q := ops.half * dma / b
        let t := 1 / (ops.abs q + ops.sqrt (1 + q * q))
        if ops.lt q 0 then -t else t
    let c := 1 / ops.sqrt (t * t + 1)
    let s := t * c
    jacobiRot i j c s b st
  else st

/-- `for j in range(1, 4): for i in range(j): …` -/
def sweep (ops : JOps K) (st : JState K) : JState K :=
  (List.range' 1 3).foldl (fun st j => (List.range j).foldl (fun st i => rotIf ops i j st) st) st

/-- `dnorm`, `onorm` of the convergence test, accumulated in the code's order -/
def norms (ops : JOps K) (st : JState K) : K × K :=
  (List.range 4).foldl (fun (acc : K × K) j =>
    let dn := acc.1 + ops.abs (st.d j)
    let on := (List.range j).foldl (fun on i => on + ops.abs (st.a i j)) acc.2
    (dn, on)) ((0 : K), (0 : K))

/-- `for m in range(maxsweeps)` with the `break` as it was before fixes/C20_3: `if onorm / dnorm <= 1e-12`;
    `none` is the ZeroDivisionError of `onorm / dnorm` when the diagonal is all zero (kept for the witness theorem) -/
def jacobiLoopOld (ops : JOps K) : Nat → JState K → Option (JState K)
  | 0, st => some st
  | fuel + 1, st =>
    let n := norms ops st
    if ops.isZero n.1 then none
    else if ops.le (n.2 / n.1) ops.eps then some st
    else jacobiLoopOld ops fuel (sweep ops st)

/-- `for m in range(maxsweeps)` with the `break` (repaired, fixes/C20_3): `if onorm <= 1e-12 * dnorm` — no division,
    so no exception; always `some` (the `Option` is kept for the callers' shape) -/
def jacobiLoop (ops : JOps K) : Nat → JState K → Option (JState K)
  | 0, st => some st
  | fuel + 1, st =>
    let n := norms ops st
    if ops.le n.2 (ops.eps * n.1) then some st
    else jacobiLoop ops fuel (sweep ops st)

/-- the selection sort of the eigenvalues with the column swaps of `eigenvect` (quatfit.py:139-152) -/
def sortEig (ops : JOps K) (st : JState K) : JState K :=
  (List.range 3).foldl (fun st j =>
    let kd := (List.range' (j + 1) (4 - (j + 1))).foldl (fun (kd : Nat × K) i =>
      if ops.lt (st.d i) kd.2 then (i, st.d i) else kd) (j, st.d j)
    let k := kd.1
    let dtemp := kd.2
    if k > j then
      let d := updV st.d k (st.d j)
      let d := updV d j dtemp
      let v := (List.range 4).foldl (fun v i =>
        let t := v i k
        let v := upd v i k (v i j)
        upd v i j t) st.v
      { st with d := d, v := v }
    else st) st

def matOfS4 (n : S4 K) : Mat K := ⟨fun r c =>
  match r, c with
  | 0, 0 => n.n00 | 0, 1 => n.n01 | 0, 2 => n.n02 | 0, 3 => n.n03
  | 1, 1 => n.n11 | 1, 2 => n.n12 | 1, 3 => n.n13
  | 2, 2 => n.n22 | 2, 3 => n.n23
  | 3, 3 => n.n33
  | _, _ => 0⟩

/-- `jacobi(matrix, maxsweeps)`: eigenvectors (columns), eigenvalues (ascending) -/
def jacobi (ops : JOps K) (n : S4 K) (maxsweeps : Nat) : Option (JState K) :=
  let a := matOfS4 n
  let st : JState K := { a := a, v := ⟨fun r c => if r = c then 1 else 0⟩, d := ⟨fun j => a j j⟩ }
  (jacobiLoop ops maxsweeps st).map (sortEig ops)

/-- `jacobi` before fixes/C20_3 -/
def jacobiOld (ops : JOps K) (n : S4 K) (maxsweeps : Nat) : Option (JState K) :=
  let a := matOfS4 n
  let st : JState K := { a := a, v := ⟨fun r c => if r = c then 1 else 0⟩, d := ⟨fun j => a j j⟩ }
  (jacobiLoopOld ops maxsweeps st).map (sortEig ops)

/-- `qtrfit`: quaternion = last column of the sorted eigenvectors, rotation = `transpose(q2mat(q))` -/
def qtrfit (ops : JOps K) (src tgt : List (P3 K)) (maxsweeps : Nat) : Option (Q4 K × M3 K) :=
  match qform src tgt with
  | none => none
  | some n =>
    match jacobi ops n maxsweeps with
    | none => none
    | some st =>
      let q : Q4 K := ⟨st.v 0 3, st.v 1 3, st.v 2 3, st.v 3 3⟩
      some (q, transpose (q2mat q))

/-! ### Model: `fit_fragment`

  Both versions take the rotation finder as a parameter (`fit p q` = the matrix `U` that `qtrfit(p, q, 30)` returns),
  so that the placement theorems hold for whatever `qtrfit` returns and the driver plugs in the Jacobi model. -/

/-- `fit_fragment` as repaired: the fragment is centred on the source centroid before it is rotated, and the
    reported value is the deviation of the rotated source atoms from the targets. -/
def fitFragment (isZero : K → Bool) (sqrt : K → K) (fit : List (P3 K) → List (P3 K) → Option (M3 K))
    (frag src tgt : List (P3 K)) : Option (List (P3 K) × K) :=
  match centroid isZero src, centroid isZero tgt with
  | some pc, some qc =>
    let p := minusVect src pc
    let q := minusVect tgt qc
    match fit p q with
    | none => none
    | some u =>
      let rotated := plusVect (rotmol (minusVect frag pc) u) qc
      match rmsd sqrt q (rotmol p u) with
      | none => none
      | some rms => some (rotated, rms)
  | _, _ => none

/-- `fit_fragment` as found (snapshot b553572): rotates the uncentred fragment, reports `rmsd(q_target, p_source)`
    of the centred but unrotated sets. -/
def fitFragmentOld (isZero : K → Bool) (sqrt : K → K) (fit : List (P3 K) → List (P3 K) → Option (M3 K))
    (frag src tgt : List (P3 K)) : Option (List (P3 K) × K) :=
  match centroid isZero src, centroid isZero tgt with
  | some pc, some qc =>
    let p := minusVect src pc
    let q := minusVect tgt qc
    match fit p q with
    | none => none
    | some u =>
      let rotated := plusVect (rotmol frag u) qc
      match rmsd sqrt q p with
      | none => none
      | some rms => some (rotated, rms)
  | _, _ => none

/-! ### Model: the caller's objects — rows as mutable cells, lists as lists of references

  A Python list of atoms is a list of references to rows `[x, y, z]`. Two lists can hold the same row
  (`source_atoms = [fragment_atoms[0], fragment_atoms[1], fragment_atoms[10]]` in the library's own example), the caller can
  assign to the elements of a row between two fits, and `rotmol` itself assigns to the elements of the rows it is
  given. `Heap` makes this explicit: `cell a` = the numbers in the row at address `a`, addresses below `next` are in
  use. The functions below follow `fit_fragment` statement by statement (what is allocated, what is written in place);
  the theorems `fitFragmentH_*` (ShelxProps) then show that, whatever rows the three argument lists share, the result
  is `fitFragment` of the numbers the rows hold at the call and that no row of the caller is written. -/

structure Heap (K : Type) where
  cell : Nat → P3 K
  next : Nat

/-- the numbers a list of rows holds now -/
def Heap.read (h : Heap K) (l : List Nat) : List (P3 K) := l.map h.cell

/-- new rows holding `ps` (every `result.append([…])`, every row made by `copy.deepcopy`): the heap after, and the new list -/
def Heap.alloc (h : Heap K) (ps : List (P3 K)) : Heap K × List Nat :=
  (⟨fun a => if h.next ≤ a then (match ps[a - h.next]? with | some p => p | none => h.cell a) else h.cell a, h.next + ps.length⟩,
   List.range' h.next ps.length)

/-- `row[0] = …; row[1] = …; row[2] = …` on the row at `a` -/
def Heap.write (h : Heap K) (a : Nat) (p : P3 K) : Heap K := ⟨fun a' => if a' = a then p else h.cell a', h.next⟩

/-- `rotmol(frag_atoms, rotmat)`: IN PLACE, row after row (a row that occurs twice in the list is turned twice); the
    list returned is the list given -/
def Heap.rotmol (h : Heap K) (l : List Nat) (u : M3 K) : Heap K :=
  l.foldl (fun h a => h.write a (rotPoint u (h.cell a))) h

/-- `fit_fragment(fragment_atoms, source_atoms, target_atoms)` on the caller's objects: heap after the call, the returned
    list, the returned RMSD. (`copy.deepcopy` is modelled as one new row per entry; CPython's memo would keep a row that
    occurs twice in the argument shared in the copy too — the copies are only read, so the numbers read are the same.) -/
def fitFragmentH (isZero : K → Bool) (sqrt : K → K) (fit : List (P3 K) → List (P3 K) → Option (M3 K))
    (h : Heap K) (frag src tgt : List Nat) : Option (Heap K × List Nat × K) :=
  let a1 := h.alloc (h.read src)                        -- p_source = copy.deepcopy(source_atoms)
  let a2 := a1.1.alloc (a1.1.read tgt)                  -- q_target = copy.deepcopy(target_atoms)
  match centroid isZero (a2.1.read a1.2), centroid isZero (a2.1.read a2.2) with
  | some pc, some qc =>
    let a3 := a2.1.alloc (minusVect (a2.1.read a1.2) pc)   -- p_source = matrix_minus_vect(p_source, pcentroid)
    let a4 := a3.1.alloc (minusVect (a3.1.read a2.2) qc)   -- q_target = matrix_minus_vect(q_target, qcentroid)
    match fit (a4.1.read a3.2) (a4.1.read a4.2) with       -- qtrfit(p_source, q_target, 30): reads only
    | none => none
    | some u =>
      let a5 := a4.1.alloc (minusVect (a4.1.read src) pc)  -- source_atoms = matrix_minus_vect(source_atoms, pcentroid)  (not read again)
      let a6 := a5.1.alloc (minusVect (a5.1.read frag) pc) -- matrix_minus_vect(fragment_atoms, pcentroid)
      let h6 := a6.1.rotmol a6.2 u                         -- rotmol(…, U): in place on the new rows
      let a7 := h6.alloc (plusVect (h6.read a6.2) qc)      -- matrix_plus_vect(rotated_fragment, qcentroid)
      let h8 := a7.1.rotmol a3.2 u                         -- rotmol(p_source, U): in place on the centred copy
      match rmsd sqrt (h8.read a4.2) (h8.read a3.2) with
      | none => none
      | some rms => some (h8, a7.2, rms)
  | _, _ => none

/-- what a caller does between and with the fits -/
inductive Step (K : Type) where
  | write (a : Nat) (p : P3 K)                 -- assigns new numbers to one of its rows
  | fit (frag src tgt : List Nat)              -- fit_fragment on three of its lists
deriving Repr

/-- a history on one interpreter: per `fit` step what came back (`none` = an exception; nothing of the caller's is
    written before it is raised — see `fitFragmentH_frame` —, so the history goes on from the same heap) -/
def runH (isZero : K → Bool) (sqrt : K → K) (fit : List (P3 K) → List (P3 K) → Option (M3 K)) :
    Heap K → List (Step K) → List (Option (List (P3 K) × K))
  | _, [] => []
  | h, .write a p :: t => runH isZero sqrt fit (h.write a p) t
  | h, .fit f s g :: t =>
    match fitFragmentH isZero sqrt fit h f s g with
    | none => none :: runH isZero sqrt fit h t
    | some r => some (r.1.read r.2.1, r.2.2) :: runH isZero sqrt fit r.1 t

/-- Specification of a history: every fit is `fitFragment` of the numbers the caller's rows hold at that moment -/
def specH (isZero : K → Bool) (sqrt : K → K) (fit : List (P3 K) → List (P3 K) → Option (M3 K)) :
    (Nat → P3 K) → List (Step K) → List (Option (List (P3 K) × K))
  | _, [] => []
  | c, .write a p :: t => specH isZero sqrt fit (fun a' => if a' = a then p else c a') t
  | c, .fit f s g :: t => fitFragment isZero sqrt fit (f.map c) (s.map c) (g.map c) :: specH isZero sqrt fit c t

/-! ### Specification: placement, certificate -/

/-- where a rigidly placed atom has to be: `R·(p − p̄) + t̄` -/
def placeSpec (r : M3 K) (pc qc : P3 K) (p : P3 K) : P3 K :=
  let m := mulVec r ⟨p.x - pc.x, p.y - pc.y, p.z - pc.z⟩
  ⟨m.x + qc.x, m.y + qc.y, m.z + qc.z⟩

/-- pivots of the LDLᵀ elimination (no pivoting) of `μ·1 − N`. All four positive ⇔ `μ·1 − N` is positive
    definite ⇔ `μ` exceeds every eigenvalue of `N` (Sylvester's criterion). -/
def pivots (n : S4 K) (mu : K) : List K :=
  let a00 := mu - n.n00
  let a01 := -n.n01
  let a02 := -n.n02
  let a03 := -n.n03
  let a11 := mu - n.n11
  let a12 := -n.n12
  let a13 := -n.n13
  let a22 := mu - n.n22
  let a23 := -n.n23
  let a33 := mu - n.n33
  let d0 := a00
  let l10 := a01 / d0
  let l20 := a02 / d0
  let l30 := a03 / d0
  let b11 := a11 - l10 * a01
  let b12 := a12 - l10 * a02
  let b13 := a13 - l10 * a03
  let b22 := a22 - l20 * a02
  let b23 := a23 - l20 * a03
  let b33 := a33 - l30 * a03
  let d1 := b11
  let m21 := b12 / d1
  let m31 := b13 / d1
  let c22 := b22 - m21 * b12
  let c23 := b23 - m21 * b13
  let c33 := b33 - m31 * b13
  let d2 := c22
  let k32 := c23 / d2
  let d3 := c33 - k32 * c23
  [d0, d1, d2, d3]

end field

end Shelx.C20

/- C20 — model and specification (stub; see HACKING.md) -/
namespace Shelx.C20

end Shelx.C20

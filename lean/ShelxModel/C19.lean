/-
  C19 — "a refinement run never loses the user's model, whatever SHELXL does".

  MODEL: the protocol of `Shelxfile.refine` (shelx.py) and `ShelxlRefine` (refine/refine.py) as a state machine
  over an abstract atomic file system.  Everything the protocol does not look into is abstract:

    * `B`  — file contents (bytes).  The protocol only copies them, asks for their size and hands them to the parser.
    * `R`  — everything of the in-memory object except ACTA and the L.S./CGLS cycle number.
    * `Codec B R` — `text` (write_shelx_file of an object whose delete_on_write bookkeeping is intact),
      `garbled` (legacy: write_shelx_file before C04_1 with delete_on_write indices off by one line, see `Mem.skew`),
      `parse` (read_file: document + "some delete_on_write index lies behind UNIT"), `size` (st_size).
      No assumption on any of the four is needed by the theorems.
    * the external program is a value `Outcome B`: exit status, what it did to <name>.res, what kind of <name>.lst it left.

  `Fix` switches between the code as it was found (`Fix.none`) and the repaired code (`Fix.all`, fixes/C19_*.patch);
  the model of the tree under test is `refine Fix.all`.  The original behaviour is kept for the witness theorems.

  SPEC: `specStep` — the statement of the property for one call, written from the property text only
  (restore on failure, reload + ACTA after UNIT on success, .ins = model − ACTA with the requested cycles,
  no content in .res that is neither the pre-run file nor what SHELXL left).
-/
namespace Shelx.C19

/-- exception classes that can leave `refine()` -/
inductive PyErr
  | SystemExit | FileNotFoundError | IndexError
  deriving DecidableEq, Repr

/-- an ACTA card: its text (an id) and its line offset from UNIT (`index(acta) - index(unit)`) -/
structure Acta where
  text : Nat
  off  : Int
  deriving DecidableEq, Repr

/-- the document: what the user's model says -/
structure Doc (R : Type) where
  acta   : Option Acta
  cycles : Int
  rest   : R
  deriving DecidableEq, Repr

/-- the in-memory object: the document plus the bookkeeping `write_shelx_file` depends on.
    `dow`  — some `delete_on_write` index lies behind the UNIT line (second FVAR line, …);
    `skew` — (position of those lines) − (index recorded for them): 0 after parsing, −1 after `del _reslist[acta]`,
             +1 after `_reslist.insert(unit.index + 1, …)`. -/
structure Mem (R : Type) where
  doc  : Doc R
  dow  : Bool
  skew : Int
  deriving DecidableEq, Repr

structure FS (B : Type) where
  res   : Option B        -- <name>.res
  ins   : Option B        -- <name>.ins
  bak   : Option B        -- <name>.shx-bak
  hkl   : Bool            -- <name>.hkl exists
  saves : List B          -- shxsaves/<name>_<timestamp>.res, newest first
  deriving DecidableEq, Repr

structure St (B R : Type) where
  fs  : FS B
  mem : Mem R
  deriving DecidableEq, Repr

structure Codec (B R : Type) where
  text    : Doc R → B
  garbled : Doc R → B
  parse   : B → Doc R × Bool
  size    : B → Nat

/-- what the external program did to <name>.res -/
inductive ResOut (B : Type)
  | wrote (b : B) | removed | untouched
  deriving DecidableEq, Repr

/-- the <name>.lst it left, by what `check_refinement_results` does with it:
    `raises` = malformed so that the diagnostics raise (IndexError), `quiet` = malformed but swallowed -/
inductive LstOut
  | good | missing | raises | quiet
  deriving DecidableEq, Repr

/-- what it printed (stdout and stderr reach `pretty_shx_output` line by line through one pipe), by what the filter of
    the tree as found does with it: `plain` = shown or dropped; `raises` = an exception leaves the reading loop (a byte
    that is not UTF-8 in text-mode `Popen`, an ` R1` line with fewer than three words: IndexError); `nohkl` = the line
    'CANNOT OPEN FILE …hkl', on which the filter itself calls `sys.exit()` -/
inductive ConOut
  | plain | raises | nohkl
  deriving DecidableEq, Repr

structure Outcome (B : Type) where
  exit : Int
  res  : ResOut B
  lst  : LstOut
  con  : ConOut
  deriving DecidableEq, Repr

/-- one `refine(cycles, backup_before)` call together with what SHELXL will do in it -/
structure Call (B : Type) where
  cycles : Option Int
  backup : Bool
  out    : Outcome B
  deriving DecidableEq, Repr

structure Result (B R : Type) where
  st  : St B R
  exc : Option PyErr      -- `none` = `refine()` returned True
  deriving DecidableEq, Repr

/-- which repairs are present in the code that is modelled -/
structure Fix where
  stat  : Bool   -- C19_1: a missing .res counts as failure (no bare `os.stat` on it)
  lst   : Bool   -- C19_2: the .lst diagnostics cannot abort the protocol
  stale : Bool   -- C19_3: restore only from a backup taken in this run
  acta  : Bool   -- C19_4: a run that does not complete gives the in-memory model its ACTA back
  dow   : Bool   -- C04_1: the parser no longer records absorbed FVAR/SFAC/SYMM lines by absolute index in
                 --        `delete_on_write` (they are blanked in place), so deleting/inserting ACTA cannot shift anything
  con   : Bool   -- C19_5: what SHELXL prints cannot abort the protocol (undecodable bytes replaced, errors of the display
                 --        filter ignored, 'cannot open hkl' counts as a failed run instead of leaving on the spot)
  deriving DecidableEq, Repr

def Fix.all : Fix := ⟨true, true, true, true, true, true⟩
def Fix.none : Fix := ⟨false, false, false, false, false, false⟩

variable {B R : Type}

/-! ### model -/

/-- `write_shelx_file`.  Before C04_1 lines whose index was in `delete_on_write` were skipped — the right ones only
    if `skew = 0`; since C04_1 nothing is recorded by index and the text is always that of the document. -/
def write (f : Fix) (c : Codec B R) (m : Mem R) : B :=
  if !f.dow && m.dow && m.skew != 0 then c.garbled m.doc else c.text m.doc

/-- `ShelxlRefine.remove_acta_card`: `del _reslist[index_of(acta)]`, `shx.acta = None`; the text is kept -/
def removeActa (m : Mem R) : Mem R × Option Acta :=
  match m.doc.acta with
  | none => (m, none)
  | some a => ({ m with doc := { m.doc with acta := none }, skew := m.skew - 1 }, some a)

/-- `ShelxlRefine.restore_acta_card`: insert at `unit.index + 1` -/
def restoreActa (saved : Option Acta) (m : Mem R) : Mem R :=
  match saved with
  | none => m
  | some a => { m with doc := { m.doc with acta := some { a with off := 1 } }, skew := m.skew + 1 }

/-- content of <name>.res when the program has ended -/
def left (pre : Option B) : ResOut B → Option B
  | .wrote b => some b
  | .removed => none
  | .untouched => pre

/-- `backup_shx_file` (only with `backup_before`): `copyfile` of a missing file → `sys.exit()` (`none`) -/
def backupStep (backup : Bool) (fs : FS B) : Option (FS B) :=
  if backup then
    match fs.res with
    | none => none
    | some r => some { fs with bak := some r, saves := r :: fs.saves }
  else some fs

/-- `restore_shx_file`: copy <name>.shx-bak over <name>.res (IOError printed if there is none), delete it -/
def restoreStep (f : Fix) (backup : Bool) (fs : FS B) : FS B :=
  if f.stale && !backup then fs
  else match fs.bak with
    | none => fs
    | some k => { fs with res := some k, bak := none }

/-- `ShelxlRefine.run_shelxl` -/
def runShelxl (f : Fix) (c : Codec B R) (fs : FS B) (call : Call B) : FS B × Option PyErr :=
  if !fs.hkl then (fs, some .SystemExit)                       -- 'You need a proper hkl file' / sys.exit()
  else match backupStep call.backup fs with
    | none => (fs, some .SystemExit)                           -- 'Unable to make backup file' / sys.exit()
    | some fs1 =>
      let fs2 := { fs1 with res := left fs1.res call.out.res } -- the external program runs
      if call.out.con == .raises && !f.con then (fs2, some .IndexError)   -- reading/filtering its output raises
      else if call.out.con == .nohkl && !f.con then (fs2, some .SystemExit)  -- pretty_shx_output: sys.exit() on the spot
      else if call.out.lst == .raises && !f.lst then (fs2, some .IndexError)   -- check_refinement_results
      else match fs2.res with
        | none =>
          if f.stat then (restoreStep f call.backup fs2, some .SystemExit)
          else (fs2, some .FileNotFoundError)                  -- os.stat(resfile)
        | some b =>
          -- repaired: 'cannot open hkl' sets status = False and the evaluation below still takes place
          if call.out.exit != 0 || c.size b < 10 || call.out.con == .nohkl then
            (restoreStep f call.backup fs2, some .SystemExit)
          else (fs2, none)

/-- `self.cycles.number = cycles` when a number is given -/
def setCycles (n : Option Int) (m : Mem R) : Mem R :=
  match n with
  | some n => { m with doc := { m.doc with cycles := n } }
  | none => m

/-- what follows `run_shelxl` in `Shelxfile.refine`: an exception passes through (the repaired code puts ACTA back
    first); otherwise `reload()` and `restore_acta_card()` -/
def finish (f : Fix) (c : Codec B R) (saved : Option Acta) (m1 : Mem R) : FS B × Option PyErr → Result B R
  | (fs2, some e) => ⟨⟨fs2, if f.acta then restoreActa saved m1 else m1⟩, some e⟩
  | (fs2, none) =>
    match fs2.res with
    | none => ⟨⟨fs2, m1⟩, some .FileNotFoundError⟩             -- reload() of a missing file (not reachable)
    | some b => ⟨⟨fs2, restoreActa saved ⟨(c.parse b).1, (c.parse b).2, 0⟩⟩, none⟩

/-- `Shelxfile.refine`: set cycles, drop ACTA, write .ins, run, reload, restore ACTA -/
def refine (f : Fix) (c : Codec B R) (st : St B R) (call : Call B) : Result B R :=
  let m1 := (removeActa (setCycles call.cycles st.mem)).1
  let saved := (removeActa (setCycles call.cycles st.mem)).2
  finish f c saved m1 (runShelxl f c { st.fs with ins := some (write f c m1) } call)

/-- repeated calls; the caller survives the exceptions (they are ordinary Python exceptions / SystemExit) -/
def trace (f : Fix) (c : Codec B R) : St B R → List (Call B) → List (Call B × Result B R)
  | _, [] => []
  | st, call :: t => (call, refine f c st call) :: trace f c (refine f c st call).st t

def run (f : Fix) (c : Codec B R) : St B R → List (Call B) → St B R
  | st, [] => st
  | st, call :: t => run f c (refine f c st call).st t

/-- what can happen on one `Shelxfile` object between two `refine()` calls: the user re-reads the model —
    `reload()` / `read_file()` of the .res as it is (`load none`), or after the file has been rewritten by hand or by
    another program (`load (some b)`).  This is also how a model gains, loses or changes its ACTA card. -/
inductive Step (B : Type)
  | call (k : Call B)
  | load (w : Option B)
  deriving DecidableEq, Repr

/-- `read_file`: the object is rebuilt from the file and from nothing else (`none`: no file, FileNotFoundError) -/
def load (c : Codec B R) (st : St B R) (w : Option B) : Option (St B R) :=
  let fs : FS B := match w with
    | some b => { st.fs with res := some b }
    | none => st.fs
  match fs.res with
  | some b => some ⟨fs, ⟨(c.parse b).1, (c.parse b).2, 0⟩⟩
  | none => none

/-- a history of calls and re-reads on one object: for every `refine()` call the state before it and its result.
    There is nothing else a call could depend on: `ShelxlRefine` (and the ACTA text it keeps) lives for one call. -/
def traceSteps (f : Fix) (c : Codec B R) : St B R → List (Step B) → List (St B R × Call B × Result B R)
  | _, [] => []
  | st, .call k :: t => (st, k, refine f c st k) :: traceSteps f c (refine f c st k).st t
  | st, .load w :: t =>
    match load c st w with
    | some st' => traceSteps f c st' t
    | none => []

/-! ### the line list (`_reslist`) as far as the ACTA handling looks at it

  `Doc.acta.off` above is a number the abstract model sets to 1 when ACTA is put back. Here is where that number comes
  from: the list of lines in memory. The list BEFORE the run and the list AFTER the reload are different lists of different
  lengths — `write_shelx_file` does not write the entries that print as nothing (a blank line of the user's file, the
  place of a continuation line, of a second SFAC or FVAR line), SHELXL adds lines of its own — so a position means
  something in one of them only. -/

/-- one entry of `_reslist`: the UNIT card (`shx.unit`), the ACTA card (`shx.acta`; id of its text), an entry that
    `write_shelx_file` does not write (`gap`), any other line (`tag`: its keyword) -/
inductive Line (T : Type)
  | unit | acta (text : Nat) | gap | other (tag : T)
  deriving DecidableEq, Repr

section Lines
variable {T : Type}

@[simp] def Line.isActa : Line T → Bool
  | .acta _ => true
  | .unit => false
  | .gap => false
  | .other _ => false

@[simp] def Line.isUnit : Line T → Bool
  | .unit => true
  | .acta _ => false
  | .gap => false
  | .other _ => false

@[simp] def Line.isGap : Line T → Bool
  | .gap => true
  | .unit => false
  | .acta _ => false
  | .other _ => false

/-- `shx.acta` (the text of the card) -/
def actaText : List (Line T) → Option Nat
  | [] => none
  | .acta n :: _ => some n
  | _ :: t => actaText t

/-- `del self.shx._reslist[self.shx.index_of(acta_card)]` -/
def delActa : List (Line T) → List (Line T)
  | [] => []
  | .acta _ :: t => t
  | x :: t => x :: delActa t

/-- `_reslist.insert(unit.index + 1, ' ')`, `_reslist[unit.index + 1] = ACTA(…)` — `unit.index` is looked up in the list
    as it is NOW. `none`: the list has no UNIT (`None.index`: AttributeError). -/
def putActa (n : Nat) : List (Line T) → Option (List (Line T))
  | [] => none
  | .unit :: t => some (.unit :: .acta n :: t)
  | x :: t => (putActa n t).map (x :: ·)

/-- `_reslist.insert(i, ACTA(…))` at a given position (what a position taken from ANOTHER list amounts to) -/
def putAt (i n : Nat) (l : List (Line T)) : List (Line T) :=
  l.take i ++ .acta n :: l.drop i

/-- `index_of`: position of the first entry with the property -/
def idxOf (p : Line T → Bool) : List (Line T) → Option Nat
  | [] => none
  | x :: t => if p x then some 0 else (idxOf p t).map (· + 1)

/-- `shx.acta` as the document sees it: its text and `index_of(acta) − index_of(unit)` -/
def docActa (l : List (Line T)) : Option Acta :=
  match actaText l, idxOf Line.isActa l, idxOf Line.isUnit l with
  | some n, some i, some u => some ⟨n, (i : Int) - (u : Int)⟩
  | _, _, _ => none

/-- what `write_shelx_file` writes, and what any reader of that file finds: the entries that print as nothing are gone -/
def squeeze (l : List (Line T)) : List (Line T) :=
  l.filter fun x => !x.isGap

/-- the user's card (if the model has one) goes into the list -/
def putUser (user : Option Nat) (base : List (Line T)) : Option (List (Line T)) :=
  match user with
  | none => some base
  | some n => putActa n base

/-- the list a call leaves in memory. `lnew` = the list `reload()` built from the new result (the run succeeded) or
    `none` (an exception left `run_shelxl`: the list is the one ACTA was taken out of). -/
def linesAfter (l : List (Line T)) (lnew : Option (List (Line T))) : Option (List (Line T)) :=
  putUser (actaText l) (match lnew with
    | some ln => ln
    | none => delActa l)

/-! line-level specification -/

/-- the entry that follows UNIT -/
def afterUnit : List (Line T) → Option (Line T)
  | [] => none
  | .unit :: t => t.head?
  | _ :: t => afterUnit t

/-- all lines but ACTA cards -/
def sansActa (l : List (Line T)) : List (Line T) :=
  l.filter fun x => !x.isActa

/-- after the call the lines in memory are those of `base` (the new result after a good run; the lines the object had
    otherwise) and, when the user's model has an ACTA card, exactly that one card, directly after UNIT -/
def specLines [DecidableEq T] (user : Option Nat) (base l' : List (Line T)) : Bool :=
  match user with
  | none => l' == base
  | some n => afterUnit l' == some (.acta n) && sansActa l' == sansActa base &&
      (l'.filter Line.isActa).length == (base.filter Line.isActa).length + 1

end Lines

/-! ### specification (from the property text, not from the code) -/

/-- the external run failed: non-zero exit status, or an empty or missing result file -/
def failed (c : Codec B R) (pre : Option B) (o : Outcome B) : Bool :=
  o.exit != 0 ||
  match left pre o.res with
  | none => true
  | some b => c.size b == 0

/-- SHELXL is started at all: reflections are there, and the backup that was asked for could be taken -/
def started (st : St B R) (call : Call B) : Bool :=
  st.fs.hkl && (!call.backup || st.fs.res.isSome)

/-- the document SHELXL has to be given -/
def insDoc (st : St B R) (call : Call B) : Doc R :=
  { acta := none
    cycles := match call.cycles with | some n => n | none => st.mem.doc.cycles
    rest := st.mem.doc.rest }

/-- the document after a successful run: what the result file says, ACTA of the user directly after UNIT -/
def reloaded (c : Codec B R) (st : St B R) (b : B) : Doc R :=
  match st.mem.doc.acta with
  | none => (c.parse b).1
  | some a => { (c.parse b).1 with acta := some { text := a.text, off := 1 } }

/-- .ins = the current model without ACTA and with the requested number of cycles -/
def specIns (c : Codec B R) [DecidableEq B] (st : St B R) (call : Call B) (r : Result B R) : Bool :=
  r.st.fs.ins == some (c.text (insDoc st call))

/-- <name>.res afterwards -/
def specRes (c : Codec B R) [DecidableEq B] (st : St B R) (call : Call B) (r : Result B R) : Bool :=
  if !started st call then r.st.fs.res == st.fs.res
  else if failed c st.fs.res call.out then
    if call.backup then r.st.fs.res == st.fs.res                                   -- restored byte-identically
    else r.st.fs.res == st.fs.res || r.st.fs.res == left st.fs.res call.out.res    -- nothing stale
  else r.st.fs.res == left st.fs.res call.out.res

/-- the backup taken before the run: kept in shxsaves/, and still beside the result after a good run -/
def specBak [DecidableEq B] (c : Codec B R) (st : St B R) (call : Call B) (r : Result B R) : Bool :=
  if started st call && call.backup then
    (match st.fs.res, r.st.fs.saves with
     | some b, s :: _ => s == b
     | _, _ => false) &&
    (failed c st.fs.res call.out || r.st.fs.bak == st.fs.res)
  else true

/-- the in-memory model afterwards, and how the call ended -/
def specMem (c : Codec B R) [DecidableEq R] (st : St B R) (call : Call B) (r : Result B R) : Bool :=
  if started st call && !failed c st.fs.res call.out then
    r.exc.isNone &&
    (match left st.fs.res call.out.res with
     | some b => r.st.mem.doc == reloaded c st b
     | none => false)
  else
    r.exc.isSome && r.st.mem.doc.rest == st.mem.doc.rest &&
    r.st.mem.doc.acta.isSome == st.mem.doc.acta.isSome &&
    (match st.mem.doc.acta, r.st.mem.doc.acta with
     | some a, some a' => a.text == a'.text
     | _, _ => true)

def specStep (c : Codec B R) [DecidableEq B] [DecidableEq R] (st : St B R) (call : Call B) (r : Result B R) : Bool :=
  specIns c st call r && specRes c st call r && specBak c st call r && specMem c st call r

def traceSpec (c : Codec B R) [DecidableEq B] [DecidableEq R] : St B R → List (Call B × Result B R) → Bool
  | _, [] => true
  | st, (call, r) :: t => specStep c st call r && traceSpec c r.st t

/-- the result file the user ends up with when every call takes a backup:
    the one of the last successful run, or the initial one -/
def lastGood (c : Codec B R) (r0 : Option B) : List (Call B) → Option B
  | [] => r0
  | call :: t => lastGood c (if failed c r0 call.out then r0 else left r0 call.out.res) t

/-! ### domain predicates (hypotheses of the theorems, all decidable) -/

/-- the outcomes the property's split into "failed" and "succeeded" applies to.
    (1) result files are empty or real: the code calls a .res of fewer than 10 bytes a failure, the property says
    "empty"; 1–9 bytes are neither an empty nor a usable SHELXL file.
    (2) a program that reports that it cannot open the reflection file has failed in the property's sense (status ≠ 0
    or no usable result): the code counts that report as a failure (restores, raises) — a run that prints it and still
    delivers a result with status 0 would be a success by the property's wording. Real code at the excluded point:
    <name>.res restored from the backup, SystemExit. -/
def plausible (c : Codec B R) (pre : Option B) (o : Outcome B) : Bool :=
  (match left pre o.res with
   | none => true
   | some b => c.size b == 0 || 10 ≤ c.size b) &&
  (o.con != .nohkl || failed c pre o)

/-- (legacy, code before C04_1 only) the object's `delete_on_write` bookkeeping fits its lines once ACTA is taken out -/
def inSync (m : Mem R) : Bool :=
  !m.dow || m.skew == (if m.doc.acta.isSome then 1 else 0)

/-- hypotheses on a whole history, evaluated along the run -/
def history (c : Codec B R) : St B R → List (Call B) → Bool
  | _, [] => true
  | st, call :: t =>
    plausible c st.fs.res call.out && history c (refine Fix.all c st call).st t

/-- `plausible` at every call of a history with re-reads -/
def stepsPlausible (c : Codec B R) : St B R → List (Step B) → Bool
  | _, [] => true
  | st, .call k :: t => plausible c st.fs.res k.out && stepsPlausible c (refine Fix.all c st k).st t
  | st, .load w :: t =>
    match load c st w with
    | some st' => stepsPlausible c st' t
    | none => true

end Shelx.C19

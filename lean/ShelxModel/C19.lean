/- C19 — model and specification (stub; see HACKING.md) -/
namespace Shelx.C19

end Shelx.C19

import ShelxModel.JsonUtil
import ShelxModel.C18
open Lean Shelx.J

namespace Shelx.Drv.C18
open Shelx.C18

/-- an exact rational sent as `[numerator, denominator]` (arbitrary-precision JSON integers or strings) -/
def bigInt (j : Json) : Except String Int :=
  match j with
  | .str s => match s.toInt? with
    | some i => .ok i
    | none => .error s!"expected integer string, got {s}"
  | _ => int j

def ratPair (j : Json) : Except String Rat := do
  match ← arr j with
  | [n, d] =>
    let n ← bigInt n
    let d ← bigInt d
    if d ≤ 0 then err "denominator" else return mkRat n d.toNat
  | _ => err "expected [num, den]"

def optStr (o : Option (List Char)) : Json :=
  match o with
  | none => Json.null
  | some s => Json.str (String.ofList s)

def compJson (c : Comp) : Json :=
  Json.mkObj [("c", ofInts [c.cx, c.cy, c.cz]), ("t", ofRat c.t)]

def optOp (o : Option Op) : Json :=
  match o with
  | none => Json.null
  | some op => Json.arr #[compJson op.r1, compJson op.r2, compJson op.r3]

def compOf (row : Json) (t : Json) : Except String Comp := do
  match ← ints row with
  | [a, b, c] => return ⟨a, b, c, ← ratPair t⟩
  | _ => err "row: expected three integers"

def valJson : Val → Json
  | .num r => ofRat r
  | .str s => Json.str s
  | .unknown => Json.null

def errName : PyErr → String
  | .AttributeError => "AttributeError"
  | .IndexError => "IndexError"
  | .KeyError => "KeyError"
  | .TypeError => "TypeError"

def items (l : List (String × Val)) : Json := Json.mkObj (l.map fun (k, v) => (k, valJson v))

def optRat (j : Json) (k : String) : Except String (Option Rat) :=
  match fieldOpt j k with
  | none => pure none
  | some v => do return some (← rat v)

def srcOf (j : Json) : Except String Src := do
  let cell ← field j "cell" >>= rats
  match cell with
  | [wl, a, b, c, al, be, ga] =>
    let size ← match fieldOpt j "size" with
      | none => pure none
      | some v => do
        match ← rats v with
        | [x, y, z] => pure (some (⟨x, y, z⟩ : Size))
        | _ => err "size: expected three numbers"
    return { titl := ← field j "titl" >>= strs, sumFormula := ← strField j "sum_formula", formulaWeight := 0,
             wavelength := wl, a := a, b := b, c := c, alpha := al, beta := be, gamma := ga, volume := 0,
             zerr := ← optRat j "zerr", temp := ← optRat j "temp", size := size,
             r1 := ← optRat j "r1", wr2 := ← optRat j "wr2", goof := ← optRat j "goof",
             spaceGroup := match fieldOpt j "space_group" with | some (.str s) => some s | _ => none }
  | _ => err "cell: expected seven numbers"

def atomOf (j : Json) : Except String AtomS := do
  let xyz ← field j "xyz" >>= rats
  let u ← field j "u" >>= rats
  match xyz, u with
  | [x, y, z], [u11, u22, u33, u23, u13, u12] =>
    return { name := ← strField j "name", resinum := ← intField j "resi", element := ← strField j "el",
             x := x, y := y, z := z, u11 := u11, u22 := u22, u33 := u33, u23 := u23, u13 := u13, u12 := u12,
             occ := ← ratField j "occ", part := ← intField j "part", qpeak := ← boolField j "q" }
  | _, _ => err "atom: xyz needs 3 and u 6 numbers"

def rowJson (r : Row) : Json :=
  Json.mkObj [("label", Json.str r.label), ("el", Json.str r.element), ("xyz", ofRats [r.x, r.y, r.z]),
              ("aniso", Json.bool r.aniso), ("occ", ofRat r.occ), ("part", ofInt r.part)]

def adpJson (r : AdpRow) : Json := Json.mkObj [("label", Json.str r.label), ("u", ofRats r.u)]

def handle (j : Json) : Except String Json := do
  let op ← strField j "op"
  match op with
  | "symop" =>
    -- rows: 3x3 integers, trans: three exact values of the doubles, tstr: Python's str() of them,
    -- impl: the string the implementation wrote for this operator
    let rows ← arrField j "rows"
    let trans ← arrField j "trans"
    let tstr ← field j "tstr" >>= strs
    match rows, trans, tstr with
    | [r1, r2, r3], [t1, t2, t3], [s1, s2, s3] =>
      let o : Op := ⟨← compOf r1 t1, ← compOf r2 t2, ← compOf r3 t3⟩
      let text := toCif (s1.toList, s2.toList, s3.toList) o
      let impl ← strField j "impl"
      return Json.mkObj [("model", optStr text), ("model_denotes", optOp (text.bind denoteCif)),
                         ("impl_denotes", optOp (denoteCif impl.toList)),
                         ("mode", ofNat Shelx.Extracted.C18.opMode)]
    | _, _, _ => err "symop: need three rows, translations and strings"
  | "denote" =>
    let s ← strField j "s"
    return Json.mkObj [("spec", optOp (denoteCif s.toList))]
  | "values" =>
    let s ← srcOf j
    let model := match cifItems s with
      | .ok l => items l
      | .error e => Json.mkObj [("raise", Json.str (errName e))]
    return Json.mkObj [("model", model), ("spec", items (specItems s)), ("temp_k", ofRat (tempKOf s.temp))]
  | "loops" =>
    let atoms ← (← arrField j "atoms").mapM atomOf
    return Json.mkObj [("model_atoms", Json.arr ((atomLoop atoms).map rowJson).toArray),
                       ("model_adp", Json.arr ((adpLoop atoms).map adpJson).toArray),
                       ("spec_atoms", Json.arr ((specAtomLoop atoms).map rowJson).toArray),
                       ("spec_adp", Json.arr ((specAdpLoop atoms).map adpJson).toArray)]
  | "repr" =>
    return Json.arr (reprTable.map fun (k, s) => Json.arr #[ofInt k, Json.str s]).toArray
  | "doubles" =>
    return Json.arr (doubleTable.map fun (k, n, d) => Json.arr #[ofInt k, Json.str (toString n), Json.str (toString d)]).toArray
  | _ => err s!"C18: unknown op {op}"

end Shelx.Drv.C18

import ShelxModel.JsonUtil
import ShelxModel.C18
open Lean Shelx.J

namespace Shelx.Drv.C18

def handle (j : Json) : Except String Json := do
  let op ← strField j "op"
  err s!"C18: unknown op {op}"

end Shelx.Drv.C18

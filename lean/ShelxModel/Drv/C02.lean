import ShelxModel.JsonUtil
import ShelxModel.C02
open Lean Shelx.J

namespace Shelx.Drv.C02

def handle (j : Json) : Except String Json := do
  let op ← strField j "op"
  err s!"C02: unknown op {op}"

end Shelx.Drv.C02

import ShelxModel.JsonUtil
import ShelxModel.C02
import ShelxModel.Extracted.C02Dispatch
open Lean Shelx.J

namespace Shelx.Drv.C02
open Shelx.C02

def kindStr : Kind → String
  | .enum => "enum" | .int => "int" | .num => "num" | .big => "big" | .dnum => "dnum" | .word => "word" | .sym => "sym"

def kindOf (s : String) : Except String Kind :=
  match s with
  | "enum" => .ok .enum | "int" => .ok .int | "num" => .ok .num | "big" => .ok .big | "dnum" => .ok .dnum
  | "word" => .ok .word | "sym" => .ok .sym
  | _ => err s!"C02: unknown token kind {s}"

def modeOf (s : String) : Except String Mode :=
  match s with
  | "quiet" => .ok .quiet | "verbose" => .ok .verbose | "debug" => .ok .debug
  | _ => err s!"C02: unknown mode {s}"

def errStr : Err → String
  | .IndexError => "IndexError" | .ValueError => "ValueError" | .NameError => "NameError"
  | .AttributeError => "AttributeError" | .KeyError => "KeyError" | .ParseError => "ParseError" | .Other => "Other"

def optErr : Option Err → Json
  | none => Json.null
  | some e => Json.str (errStr e)

def slotStr : Slot → String
  | .titl => "titl" | .cell => "cell" | .zerr => "zerr" | .latt => "latt" | .symm => "symm" | .neut => "neut"
  | .sfac => "sfac" | .disp => "disp" | .unit => "unit" | .body => "body" | .fvar => "fvar" | .hklf => "hklf"
  | .endd => "end" | .tail => "tail" | .frag => "frag" | .fend => "fend"

def kindsJson (l : List Kind) : Json := Json.arr (l.map fun k => Json.str (kindStr k)).toArray

def formOf (j : Json) : Except String Form := do
  let kw ← strField j "kw"
  let toks ← (← field j "toks" >>= strs).mapM kindOf
  return { kw := kw, toks := toks }

def ctxOf (j : Json) : Except String Ctx := do
  let last ← strField j "last"
  let flags ← field j "flags" >>= strs
  return { last := last, flags := flags }

def testStr : Test → String
  | .wordEq k _ => s!"word=={k}" | .wordIn ks _ => s!"word in {ks}" | .starts p _ => s!"startswith {p}"
  | .isAtom => "is_atom" | .otherwise => "else"

def T : Tables := Shelx.C02.Extracted.tables

def handle (j : Json) : Except String Json := do
  let op ← strField j "op"
  match op with
  | "table" =>
    -- the specification's syntax table, so that generator and theorems share one table
    let rows := syntaxTable.map fun s => Json.mkObj [
      ("kw", Json.str s.kw), ("slot", Json.str (slotStr s.slot)), ("documented", Json.bool s.documented),
      ("suffix", Json.bool s.suffix), ("forms", Json.arr (s.forms.eraseDups.map fun f => kindsJson f.toks).toArray)]
    -- the header grammar of the specification (which slot may follow which; where body instructions may be interspersed)
    let hslots : List Slot := [.titl, .cell, .zerr, .latt, .symm, .neut, .sfac, .disp, .unit]
    let gram := hslots.map fun s => Json.mkObj [
      ("slot", Json.str (slotStr s)), ("next", Json.arr (s.next.map fun n => Json.str (slotStr n)).toArray),
      ("pre", Json.bool s.allowsPre)]
    return Json.mkObj [("syntax", Json.arr rows.toArray), ("grammar", Json.arr gram.toArray),
                       ("atoms", Json.arr (atomForms.map fun f => kindsJson f.toks).toArray),
                       ("branches", Json.num (JsonNumber.fromNat T.dispatch.length)),
                       ("cards", Json.num (JsonNumber.fromNat T.cards.length))]
  | "accepts" =>
    let f ← formOf j
    let c ← ctxOf j
    let m ← strField j "mode" >>= modeOf
    let br := match selectBranch T f with | some b => testStr b.test | none => "none"
    match stepLine T m c f with
    | .ok c' => return Json.mkObj [("ok", Json.bool true), ("err", Json.null), ("branch", Json.str br),
                                   ("last", Json.str c'.last), ("atom", Json.bool (lineIsAtom T f))]
    | .error e => return Json.mkObj [("ok", Json.bool false), ("err", Json.str (errStr e)), ("branch", Json.str br),
                                     ("last", Json.str c.last), ("atom", Json.bool (lineIsAtom T f))]
  | "file" =>
    let m ← strField j "mode" >>= modeOf
    let lines ← (← arrField j "lines").mapM formOf
    let o := parseAll T m lines
    return Json.mkObj [("lastLine", Json.num (JsonNumber.fromNat o.lastLine)), ("consumed", Json.num (JsonNumber.fromNat o.consumed)),
                       ("innerErr", optErr o.innerErr), ("raised", optErr o.raised), ("n", Json.num (JsonNumber.fromNat lines.length))]
  | _ => err s!"C02: unknown op {op}"

end Shelx.Drv.C02

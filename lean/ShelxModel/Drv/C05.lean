import ShelxModel.JsonUtil
import ShelxModel.C05
open Lean Shelx.J

namespace Shelx.Drv.C05

def handle (j : Json) : Except String Json := do
  let op ← strField j "op"
  err s!"C05: unknown op {op}"

end Shelx.Drv.C05

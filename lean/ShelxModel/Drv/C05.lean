import ShelxModel.JsonUtil
import ShelxModel.C05
open Lean Shelx.J

namespace Shelx.Drv.C05
open Shelx.C05

def ofLine (l : List Char) : Json := Json.str (String.ofList l)
def ofToks (t : List (List Char)) : Json := Json.arr (t.map ofLine).toArray

def ofModel (r : Except PyErr (List (Nat × Line))) : Json :=
  match r with
  | .error _ => Json.mkObj [("raise", Json.str "IndexError")]
  | .ok l => Json.mkObj [("lines", Json.arr (l.map fun (i, g) =>
      Json.mkObj [("start", ofNat i), ("spline", ofToks (classify g).spline)]).toArray)]

def ofNorm (r : Option (List (List Token))) : Json :=
  match r with
  | none => Json.null
  | some l => Json.arr (l.map ofToks).toArray

def handle (j : Json) : Except String Json := do
  let op ← strField j "op"
  match op with
  | "lines" =>
    -- {"lines": [physical lines]}  ->  model (repaired code), spec   (only what the harness compares: the answer is large)
    let ls ← field j "lines" >>= strs
    let f := ls.map String.toList
    return Json.mkObj [("model", ofModel (modelLogicalLines f)), ("spec", ofNorm (norm f))]
  | "lines_old" =>
    -- the code as it was before fixes/C05_1, C05_2
    let ls ← field j "lines" >>= strs
    return Json.mkObj [("old", ofModel (modelLogicalLinesOld (ls.map String.toList)))]
  | "mt" =>
    let l := (← strField j "line").toList
    return Json.mkObj [("model", Json.bool (mtNew l)), ("old", Json.bool (mtOld l)), ("spec", Json.bool (isContLine l))]
  | "class" =>
    -- {"resis": [[class, number], ...], "suffix": s}
    let rs ← (← arrField j "resis").mapM fun r => do
      let a ← arr r
      match a with
      | [c, n] => pure ((← str c).toList, ← int n)
      | _ => err "resis entry"
    let s := (← strField j "suffix").toList
    return Json.mkObj [("model", ofInts (classNumbers keyNew rs s)), ("old", ofInts (classNumbers keyOld rs s)),
                       ("spec", ofInts (specClassNumbers rs s))]
  | _ => err s!"C05: unknown op {op}"

end Shelx.Drv.C05

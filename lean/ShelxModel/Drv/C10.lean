import ShelxModel.JsonUtil
import ShelxModel.C10
open Lean Shelx.J

namespace Shelx.Drv.C10

def handle (j : Json) : Except String Json := do
  let op ← strField j "op"
  err s!"C10: unknown op {op}"

end Shelx.Drv.C10

import ShelxModel.JsonUtil
import ShelxModel.C10
open Lean Shelx.J

namespace Shelx.Drv.C10
open Shelx.C10

def errName : Err → String
  | .valueError => "ValueError"
  | .syntaxError => "SyntaxError"
  | .zeroDivision => "ZeroDivisionError"
  | .noneTranslation => "NoneTranslation"
  | .unmodelled => "Unmodelled"
  | .badIndex => "BadIndex"

def coefJson (c : Coef) : Json := ofInts [c.1, c.2.1, c.2.2]

def rowJson (r : Row) : Json := Json.mkObj [("m", coefJson r.c), ("t", ofRat r.t)]

def parsedJson : Except Err (Coef × Rat) → Json
  | .ok p => Json.mkObj [("ok", Json.bool true), ("m", coefJson p.1), ("t", ofRat p.2)]
  | .error e => Json.mkObj [("ok", Json.bool false), ("err", Json.str (errName e))]

def digitsOf (j : Json) : Except String (List Digit) := do
  let l ← ints j
  l.mapM fun i => if h : 0 ≤ i ∧ i.toNat < 10 then .ok ⟨i.toNat, h.2⟩ else err s!"not a digit: {i}"

def signOf (s : String) : Except String Sign :=
  match s with
  | "" => .ok .none
  | "+" => .ok .plus
  | "-" => .ok .minus
  | _ => err s!"bad sign {s}"

def axisOf (s : String) : Except String Axis :=
  match s with
  | "x" => .ok .x
  | "y" => .ok .y
  | "z" => .ok .z
  | _ => err s!"bad axis {s}"

def numeralOf (j : Json) : Except String Numeral := do
  match ← strField j "t" with
  | "frac" => return .frac (← field j "n" >>= digitsOf) (← field j "d" >>= digitsOf)
  | "int" => return .int (← field j "ip" >>= digitsOf)
  | "dec" => return .dec (← field j "ip" >>= digitsOf) (← field j "fp" >>= digitsOf)
  | t => err s!"bad numeral {t}"

def itemOf (j : Json) : Except String Item := do
  let s ← strField j "s" >>= signOf
  match ← strField j "k" with
  | "t" => return .term s (← strField j "a" >>= axisOf)
  | "n" => return .num s (← field j "num" >>= numeralOf)
  | k => err s!"bad item {k}"

/-- exact rational sent as {"n": int, "d": nat} -/
def qOf (j : Json) : Except String Rat := do
  let n ← intField j "n"
  let d ← natField j "d"
  if d = 0 then err "zero denominator" else return mkRat n d

def rowOf (j : Json) : Except String Row := do
  let m ← field j "m" >>= ints
  match m with
  | [a, b, c] => return ⟨(a, b, c), ← field j "t" >>= qOf⟩
  | _ => err "row: three coefficients expected"

def opOf (j : Json) : Except String Op := do
  match ← arr j >>= fun l => l.mapM rowOf with
  | [a, b, c] => return ⟨a, b, c⟩
  | _ => err "op: three rows expected"

def opJson (o : Op) : Json := Json.arr (o.rows.map rowJson).toArray

def compOf (j : Json) : Except String Component := arr j >>= fun l => l.mapM itemOf

/-- one step of a history: the call as the model sees it (texts) and as the specification sees it (grammar terms) -/
def stepOf (j : Json) : Except String (Step × SStep × Bool) := do
  match ← strField j "k" with
  | "parse" =>
    let ts ← field j "s" >>= strs
    let cen ← boolField j "centric"
    match ← arrField j "items" >>= fun l => l.mapM compOf with
    | [c0, c1, c2] =>
      let inGrammar := ts.length = 3 ∧ (ts.zip [c0, c1, c2]).all fun (t, c) => Valid c && (normalise t.toList = print c)
      return (.parse (ts.map String.toList) cen, .parse c0 c1 c2 cen, inGrammar)
    | _ => err "hist: three components expected"
  | "given" =>
    let o ← field j "rows" >>= opOf
    return (.given o, .given o, true)
  | "latt" =>
    let i ← natField j "i"
    let k ← natField j "j"
    return (.latt i k, .latt i k, true)
  | "reparse" =>
    let i ← natField j "i"
    return (.reparse i, .reparse i, true)
  | "observe" =>
    let i ← natField j "i"
    return (.observe i, .observe i, true)
  | k => err s!"hist: unknown step {k}"

def eqMatrix (f : Op → Op → Bool) (pool : List Op) : Json :=
  Json.arr (pool.map fun a => Json.arr (pool.map fun b => Json.bool (f a b)).toArray).toArray

def handle (j : Json) : Except String Json := do
  let op ← strField j "op"
  match op with
  | "parse" =>
    -- one component string as given to the implementation (+ optionally the grammar term it was printed from)
    let s ← strField j "s"
    let model := parseComp s.toList
    match fieldOpt j "items" with
    | none => return Json.mkObj [("model", parsedJson model)]
    | some its =>
      let c ← arr its >>= fun l => l.mapM itemOf
      let d := denote c
      return Json.mkObj [("model", parsedJson model), ("print", Json.str (String.ofList (print c))),
                         ("valid", Json.bool (Valid c)), ("shelxl", Json.bool (Shelxl c)),
                         ("in_layout", Json.bool (normalise s.toList = print c)),
                         ("spec", Json.mkObj [("m", coefJson d.1), ("t", ofRat d.2)])]
  | "card" =>
    -- a whole SYMM line: the component strings the card hands to SymmetryElement, each parsed
    let line ← strField j "line"
    let comps := symmCard line.toList
    return Json.mkObj [("comps", ofStrs (comps.map String.ofList)),
                       ("model", Json.arr (comps.map fun c => parsedJson (parseComp c)).toArray)]
  | "print" =>
    -- to_shelxl of an operator (translations with finite decimal expansion), and the model's parse of it
    let o ← field j "rows" >>= opOf
    let txt := toShelxl fmtDec o.rows
    let back := (splitComma txt).map fun c => parsedJson (parseComp c)
    return Json.mkObj [("text", Json.str (String.ofList txt)), ("back", Json.arr back.toArray)]
  | "eq" =>
    let a ← field j "a" >>= opOf
    let b ← field j "b" >>= opOf
    return Json.mkObj [("model", Json.bool (eqModel tolPy a b)), ("spec", Json.bool (latticeEqB a b))]
  | "hist" =>
    -- a history of calls on a pool of operator objects: the model's pool, the specification's pool, `==` on all pairs
    let steps ← arrField j "steps" >>= fun l => l.mapM stepOf
    let model := runModel fmtFrac [] (steps.map fun s => s.1)
    let spec := specRun [] (steps.map fun s => s.2.1)
    let modelJson := match model with
      | .ok pool => Json.mkObj [("ok", Json.bool true), ("pool", Json.arr (pool.map opJson).toArray),
                                ("eq", eqMatrix (eqModel tolPy) pool)]
      | .error e => Json.mkObj [("ok", Json.bool false), ("err", Json.str (errName e))]
    let specJson := match spec with
      | some pool => Json.mkObj [("ok", Json.bool true), ("pool", Json.arr (pool.map opJson).toArray),
                                 ("eq", eqMatrix latticeEqB pool)]
      | none => Json.mkObj [("ok", Json.bool false)]
    return Json.mkObj [("model", modelJson), ("spec", specJson), ("in_grammar", Json.bool (steps.all fun s => s.2.2))]
  | _ => err s!"C10: unknown op {op}"

end Shelx.Drv.C10

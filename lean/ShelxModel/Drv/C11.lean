import ShelxModel.JsonUtil
import ShelxModel.C11
open Lean Shelx.J

namespace Shelx.Drv.C11

def handle (j : Json) : Except String Json := do
  let op ← strField j "op"
  err s!"C11: unknown op {op}"

end Shelx.Drv.C11

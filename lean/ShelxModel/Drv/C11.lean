import ShelxModel.JsonUtil
import ShelxModel.C11
import ShelxModel.C11Table
open Lean Shelx.J

/-
  C11 driver.
    {"p":"C11","op":"table"}                       -> the tabulated settings [{name, N, S, order}]
    {"p":"C11","op":"expand","N":n|null,"params":[…]?,"S":[op…]} -> {model: [op…] | null, spec: [op…], valid, mult, N}
    {"p":"C11","op":"shift","N":n,"S":[op…],"u":[[num,den]×3]} -> {N, S: the setting referred to an origin moved by u
                                                      (`shiftSetting`), group: the operators of LATT n / SYMM S moved (`shiftOp`)}
  An operator travels as {"m":[9 ints, row by row],"t":[[num,den],[num,den],[num,den]]} (exact).
-/
namespace Shelx.Drv.C11
open Shelx.C11

def ratPair (j : Json) : Except String Rat := do
  match ← ints j with
  | [n, d] => if d = 0 then err "zero denominator" else return mkRat n d.natAbs * (if d < 0 then -1 else 1)
  | _ => err s!"expected [num, den], got {j.compress}"

def opOf (j : Json) : Except String Op := do
  let m ← field j "m" >>= ints
  let t ← (← arrField j "t").mapM ratPair
  match m, t with
  | [a, b, c, d, e, f, g, h, i], [x, y, z] => return ⟨⟨a, b, c, d, e, f, g, h, i⟩, ⟨x, y, z⟩⟩
  | _, _ => err s!"bad operator {j.compress}"

def ofOp (o : Op) : Json :=
  Json.mkObj [("m", ofInts [o.m.a11, o.m.a12, o.m.a13, o.m.a21, o.m.a22, o.m.a23, o.m.a31, o.m.a32, o.m.a33]),
              ("t", ofRats [o.t.x, o.t.y, o.t.z])]

def ofOps (l : List Op) : Json := Json.arr (l.map ofOp).toArray

def handle (j : Json) : Except String Json := do
  let op ← strField j "op"
  match op with
  | "table" =>
    return Json.arr (settings.map fun s =>
      Json.mkObj [("name", Json.str s.name), ("N", ofInt s.N), ("S", ofOps s.S), ("order", ofNat s.order)]).toArray
  | "expand" =>
    -- "N": the number written on the LATT line (null when it is omitted); "params": every numerical parameter of
    -- the line as the code sees it (optional; default: [N] or [])
    let nopt : Option Int ← match fieldOpt j "N" with | none => pure none | some v => (some <$> int v)
    let n := lattOf nopt
    let params : List Rat ← match fieldOpt j "params" with
      | none => pure (match nopt with | none => [] | some k => [(k : Rat)])
      | some v => rats v
    let s ← (← arrField j "S").mapM opOf
    let model := match expandLine params s with | none => Json.null | some l => ofOps l
    let spec := fullGroup n s
    return Json.mkObj [("model", model), ("spec", ofOps spec),
                       ("valid", Json.bool (validB n s)),
                       ("mult", ofNat (mult n)), ("N", ofInt n)]
  | "shift" =>
    let n ← field j "N" >>= int
    let s ← (← arrField j "S").mapM opOf
    let u ← (← arrField j "u").mapM ratPair
    match u with
    | [x, y, z] =>
      let r := shiftSetting ⟨x, y, z⟩ n s
      return Json.mkObj [("N", ofInt r.1), ("S", ofOps r.2), ("group", ofOps ((fullGroup n s).map (shiftOp ⟨x, y, z⟩)))]
    | _ => err "C11 shift: u needs three components"
  | _ => err s!"C11: unknown op {op}"

end Shelx.Drv.C11

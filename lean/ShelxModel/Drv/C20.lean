import ShelxModel.JsonUtil
import ShelxModel.C20
open Lean Shelx.J

namespace Shelx.Drv.C20

def handle (j : Json) : Except String Json := do
  let op ← strField j "op"
  err s!"C20: unknown op {op}"

end Shelx.Drv.C20

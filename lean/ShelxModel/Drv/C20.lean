import ShelxModel.JsonUtil
import ShelxModel.C20
open Lean Shelx.J

namespace Shelx.Drv.C20
open Shelx.C20

/-- the `Float` instance of what `jacobi` needs (`fabs`, `sqrt`, comparisons, `0.5`, `1.0e-12`) -/
def fops : JOps Float :=
  { abs := Float.abs, sqrt := Float.sqrt, lt := fun a b => a < b, le := fun a b => a ≤ b,
    isZero := fun a => a == 0.0, half := 0.5, eps := 1.0e-12 }

def pt (j : Json) : Except String (P3 Float) := do
  match ← floats j with
  | [x, y, z] => return ⟨x, y, z⟩
  | _ => err "expected [x,y,z]"

def pts (j : Json) (k : String) : Except String (List (P3 Float)) := do
  (← arrField j k).mapM pt

def quat (j : Json) : Except String (Q4 Float) := do
  match ← floats j with
  | [a, b, c, d] => return ⟨a, b, c, d⟩
  | _ => err "expected [q0,q1,q2,q3]"

def ofP (p : P3 Float) : Json := ofFloats [p.x, p.y, p.z]
def ofPs (l : List (P3 Float)) : Json := Json.arr (l.map ofP).toArray
def ofM (u : M3 Float) : Json := ofFloats [u.m00, u.m01, u.m02, u.m10, u.m11, u.m12, u.m20, u.m21, u.m22]
def ofS (n : S4 Float) : Json := ofFloats [n.n00, n.n01, n.n02, n.n03, n.n11, n.n12, n.n13, n.n22, n.n23, n.n33]
def ofQ (q : Q4 Float) : Json := ofFloats [q.q0, q.q1, q.q2, q.q3]

def fitU (p q : List (P3 Float)) : Option (M3 Float) := (qtrfit fops p q 30).map (·.2)

def fragJson : Option (List (P3 Float) × Float) → Json
  | none => Json.null
  | some (l, r) => Json.mkObj [("coords", ofPs l), ("rms", ofFloat r)]

def handle (j : Json) : Except String Json := do
  let op ← strField j "op"
  match op with
  | "fit" =>
    -- model of qtrfit(src, tgt, sweeps): the 4×4 form, the Jacobi result, quaternion and returned matrix
    let src ← pts j "src"
    let tgt ← pts j "tgt"
    let sweeps ← natField j "sweeps"
    match qform src tgt with
    | none => return Json.mkObj [("ok", Json.bool false), ("why", Json.str "IndexError")]
    | some n =>
      match jacobi fops n sweeps with
      | none => return Json.mkObj [("ok", Json.bool false), ("why", Json.str "ZeroDivisionError"), ("N", ofS n)]
      | some st =>
        let q : Q4 Float := ⟨st.v 0 3, st.v 1 3, st.v 2 3, st.v 3 3⟩
        return Json.mkObj [("ok", Json.bool true), ("N", ofS n), ("q", ofQ q), ("U", ofM (transpose (q2mat q))),
                           ("evals", ofFloats [st.d 0, st.d 1, st.d 2, st.d 3])]
  | "cert" =>
    -- specification side for a quaternion `q` handed in (the implementation's): Rayleigh quotient, residual,
    -- Sylvester pivots of (λ+δ)·1 − N, both sides of Horn's identity, qᵀNq for sample quaternions
    let src ← pts j "src"
    let tgt ← pts j "tgt"
    let q ← field j "q" >>= quat
    let delta ← floatField j "delta"
    let samples ← (← arrField j "samples").mapM quat
    let pairs := src.zip tgt
    let n := qformPairs pairs
    let lam := quad n q
    let nq := mulQ n q
    let r : Q4 Float := ⟨nq.q0 - lam * q.q0, nq.q1 - lam * q.q1, nq.q2 - lam * q.q2, nq.q3 - lam * q.q3⟩
    let sx := sumSq (pairs.map (·.1))
    let sy := sumSq (pairs.map (·.2))
    let u := transpose (q2mat q)
    return Json.mkObj [
      ("N", ofS n), ("lam", ofFloat lam), ("qnorm2", ofFloat (qnorm2 q)), ("resid2", ofFloat (qnorm2 r)),
      ("pivots", ofFloats (pivots n (lam + delta))),
      ("ssd_horn", ofFloat (qnorm2 q * qnorm2 q * sx + sy - 2 * lam)),
      ("ssd_direct", ofFloat (ssdDirect (q2mat q) pairs)),
      ("ssd_model", ofFloat (ssd ((rotmol (pairs.map (·.1)) u).zip (pairs.map (·.2))))),
      ("det", ofFloat (det3 u)), ("utu", ofM (mulT u u)),
      ("sample_quads", ofFloats (samples.map fun s => quad n s))]
  | "rot" =>
    -- model of rotmol(pts, U) and of centroid / rmsd
    let p ← pts j "pts"
    let w ← pts j "other"
    let u ← floats (← field j "U")
    match u with
    | [a, b, c, d, e, f, g, h, i] =>
      let m : M3 Float := ⟨a, b, c, d, e, f, g, h, i⟩
      let cen := match centroid fops.isZero p with | none => Json.null | some c => ofP c
      let rm := match rmsd Float.sqrt p w with | none => Json.null | some r => ofFloat r
      return Json.mkObj [("rot", ofPs (rotmol p m)), ("spec_rot", ofPs (p.map (mulVec (transpose m)))),
                         ("centroid", cen), ("rmsd", rm)]
    | _ => err "expected 9 entries in U"
  | "frag" =>
    let frag ← pts j "frag"
    let src ← pts j "src"
    let tgt ← pts j "tgt"
    return Json.mkObj [("model", fragJson (fitFragment fops.isZero Float.sqrt fitU frag src tgt)),
                       ("old", fragJson (fitFragmentOld fops.isZero Float.sqrt fitU frag src tgt))]
  | "hist" =>
    -- a history on the caller's own objects: `rows` = the rows that exist (address = position), `steps` = assignments to
    -- a row (`{"w": address, "p": [x,y,z]}`) and fits on lists of addresses (`{"frag": […], "src": […], "tgt": […]}`);
    -- model = `runH` (fit_fragment statement by statement on the heap), spec = `specH` (fitFragment of the current numbers)
    let rows ← pts j "rows"
    let steps ← (← arrField j "steps").mapM fun (st : Json) => do
      match fieldOpt st "w" with
      | some a => return Step.write (← nat a) (← field st "p" >>= pt)
      | none =>
        let addrs := fun (k : String) => do (← arrField st k).mapM nat
        return Step.fit (← addrs "frag") (← addrs "src") (← addrs "tgt")
    let heap : Heap Float := ⟨fun a => match rows[a]? with | some p => p | none => ⟨0.0, 0.0, 0.0⟩, rows.length⟩
    let out := fun (l : List (Option (List (P3 Float) × Float))) => Json.arr (l.map fragJson).toArray
    return Json.mkObj [("model", out (runH fops.isZero Float.sqrt fitU heap steps)),
                       ("spec", out (specH fops.isZero Float.sqrt fitU heap.cell steps))]
  | _ => err s!"C20: unknown op {op}"

end Shelx.Drv.C20

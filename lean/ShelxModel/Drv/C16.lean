import ShelxModel.JsonUtil
import ShelxModel.C16
import ShelxModel.Extracted.C16Slots
open Lean Shelx.J

namespace Shelx.Drv.C16
open Shelx.C16 Shelx.Extracted

def ofVal : Val → Json
  | .none => Json.null
  | .num r => ofRat r
  | .nums l => ofRats l
  | .other s => Json.mkObj [("other", Json.str s)]

def ofGot : Option Val → Json
  | none => Json.mkObj [("unset", Json.bool true)]
  | some v => ofVal v

def ofSpecVal : SpecVal → Json
  | .given v => Json.mkObj [("given", ofVal v)]
  | .omitted v => Json.mkObj [("omitted", ofVal v)]

def errName : PyErr → String
  | .IndexError => "IndexError" | .AttributeError => "AttributeError" | .ValueError => "ValueError"
  | .TypeError => "TypeError" | .ParseError => "ParseError"

def classOf (name : String) : Option CardSlots := slotTable.find? (fun c => c.name == name)

/-- model of `Class(shx, spline)` for every class the check models: table-shaped ones through the regenerated
    table, the residual ones through the hand-written functions -/
def modelObj (cls : String) (e : Env) : Option (Except PyErr Obj) :=
  match cls with
  | "PART" => some (.ok (partModel e.ps))
  | "LATT" => some (.ok (lattModel e.ps))
  | "TWIN" => some (twinModel e.ps)
  | "HTAB" => some (.ok (htabModel e.ps))
  | "SUMP" => some (sumpModel e.ps)
  | "LSCycles" =>
    if e.ps.all isInt then
      some (match lsInit false (e.ps.map pyInt) with
        | .ok l => .ok [("number", .num l.cycles), ("_nrf", match l.nrf with | some x => .num x | none => .none),
                        ("_nextra", match l.nextra with | some x => .num x | none => .none)]
        | .error x => .error x)
    else none
  | _ => (classOf cls).map fun c => fill defsTable c e

/-- as `modelObj`, but a restraint looks its DEFS rules up under the name derived from the codeword as written
    (`nameOf`: upper-cased, residue suffix split off) -/
def modelObjCw (cls : String) (cw : Option String) (e : Env) : Option (Except PyErr Obj) :=
  match cw, classOf cls with
  | some w, some c => some (fill defsTable { c with name := String.ofList (nameOf w.toList) } e)
  | _, _ => modelObj cls e

def suffixOf (j : Json) : Except String Suffix :=
  match j with
  | .null => .ok .none
  | .str "*" => .ok .star
  | .str s => .ok (.cls s)
  | .num _ => (nat j).map Suffix.num
  | _ => err "C16: bad suffix"

def resiOf (j : Json) : Except String (String × Nat) := do
  match j with
  | .arr #[c, n] => return (← str c, ← nat n)
  | _ => err "C16: bad resi"

def ofResidue (r : String × List Nat) : Json := Json.mkObj [("cls", Json.str r.1), ("nums", Json.arr (r.2.map ofNat).toArray)]

def defsCard : Option CardSlots := classOf "DEFS"

def attrsOp (j : Json) : Except String Json := do
  let kw ← strField j "kw"
  let ps ← field j "ps" >>= rats
  let qs : Option (List Rat) ← match fieldOpt j "defs" with
    | none => pure none
    | some d => (rats d).map some
  let some sp := syntaxOf kw | err s!"C16: no syntax entry for {kw}"
  -- the DEFS object, as the model builds it
  let dobj : Option Obj := match qs, defsCard with
    | some qs, some dc => match fill defsTable dc ⟨qs, none⟩ with
      | .ok o => some o
      | .error _ => none
    | _, _ => none
  let env : Env := ⟨ps, dobj⟩
  let cw : Option String := match fieldOpt j "codeword" with
    | some (.str w) => if (classOf sp.cls).any (fun c => c.base == "Restraint") then some w else none
    | _ => none
  let modelObj := fun (cls : String) (e : Env) => modelObjCw cls cw e
  let sfx ← match fieldOpt j "suffix" with
    | none => pure Suffix.none
    | some x => suffixOf x
  let resi ← match fieldOpt j "resi" with
    | none => pure []
    | some x => do (← arr x).mapM resiOf
  let model : Json := match modelObj sp.cls env with
    | none => Json.null
    | some (.error x) => Json.mkObj [("raise", Json.str (errName x))]
    | some (.ok o) => Json.mkObj (sp.params.map fun p => (p.attr, ofGot (o.get p.attr)))
  let eff := effDefs qs
  let spec := Json.mkObj (sp.positions.map fun pk => (pk.1.attr, ofSpecVal (specVal eff pk.1 pk.2 ps)))
  let modelOk : Json := match modelObj sp.cls env with
    | some (.ok o) => Json.bool (sp.positions.all fun pk => accepts (o.get pk.1.attr) (specVal eff pk.1 pk.2 ps))
    | _ => Json.bool false
  return Json.mkObj [("cls", Json.str sp.cls), ("table", Json.bool (classOf sp.cls).isSome), ("model", model), ("spec", spec),
                     ("model_meets_spec", modelOk),
                     ("model_res", ofResidue (modelResidue resi sfx)), ("spec_res", ofResidue (specResidue resi sfx)),
                     ("form_ok", Json.bool ((formLens sp).contains ps.length || !sp.finite)),
                     ("ints_ok", Json.bool (intsOK sp ps))]

def ofDflt : Dflt → Json
  | .req => Json.str "req"
  | .notGiven => Json.str "notGiven"
  | .const v => Json.mkObj [("const", ofVal v)]
  | .defs f m => Json.mkObj [("defs", Json.str f), ("mult", ofRat m)]

def ofParam (p : Param) : Json :=
  Json.mkObj [("doc", Json.str p.doc), ("attr", Json.str p.attr), ("width", ofNat p.width),
              ("int", Json.bool (p.kind == .int)), ("dflt", ofDflt p.dflt)]

def ofMismatch : Option (Nat × Bool × String) → Json
  | none => Json.null
  | some (n, hd, a) => Json.mkObj [("n", ofNat n), ("defs", Json.bool hd), ("attr", Json.str a)]

def confOf (sp : Shelx.C16.Syntax) : Json :=
  match classOf sp.cls with
  | none => Json.null
  | some c =>
    if sp.finite then
      Json.mkObj [("conforms", Json.bool (conforms defsTable c sp)), ("first_mismatch", ofMismatch (firstMismatch defsTable c sp))]
    else Json.null

/-- the syntax table (for the harness generator) and, per entry, whether the regenerated slot table conforms -/
def syntaxOp : Json :=
  Json.arr (syntaxTable.map fun sp =>
    Json.mkObj [("kw", Json.str sp.kw), ("cls", Json.str sp.cls), ("names", Json.bool sp.names), ("finite", Json.bool sp.finite),
                ("forms", Json.arr ((formLens sp).map ofNat).toArray), ("table", confOf sp),
                ("params", Json.arr (sp.params.map ofParam).toArray)]).toArray

def optInt : Option Int → Json
  | none => Json.null
  | some i => ofInt i

def lsOp (j : Json) : Except String Json := do
  let cgls ← boolField j "cgls"
  let ps ← field j "ps" >>= ints
  let n ← intField j "n"
  match lsInit cgls ps with
  | .error x => return Json.mkObj [("raise", Json.str (errName x))]
  | .ok l =>
    let toks := lsTokens { l with cycles := n }
    let spec := (n, l.nrf.getD 0, l.nextra.getD 0)
    return Json.mkObj [("tokens", ofInts toks), ("spec", ofInts [spec.1, spec.2.1, spec.2.2]),
                       ("model_denotes", match lsDenotes toks with
                         | some (a, b, c) => ofInts [a, b, c]
                         | none => Json.null)]

def wOf (l : List Rat) : Except String W :=
  match l with
  | [a, b, c, d, e, f] => .ok ⟨a, b, c, d, e, f⟩
  | _ => err "C16: wght needs six values"

def wghtOp (j : Json) : Except String Json := do
  let cur ← (field j "cur" >>= rats) >>= wOf
  let sug ← (field j "sug" >>= rats) >>= wOf
  let w := updateWeight cur sug
  return Json.mkObj [("tokens", ofRats (wghtTokens w)), ("spec", ofRats [sug.a, sug.b, sug.c, sug.d, sug.e, sug.f]),
                     ("model_denotes", match wghtDenotes (wghtTokens w) with
                       | some x => ofRats [x.a, x.b, x.c, x.d, x.e, x.f]
                       | none => Json.null)]

def handle (j : Json) : Except String Json := do
  let op ← strField j "op"
  match op with
  | "attrs" => attrsOp j
  | "syntax" => return syntaxOp
  | "residual" => return Json.arr (residualClasses.map fun (n, r) => Json.mkObj [("cls", Json.str n), ("stmts", ofStrs r)]).toArray
  | "lex" =>
    let toks ← field j "toks" >>= strs
    return Json.arr (toks.map fun t => Json.mkObj [("spec", Json.bool (isFreeNumber t.toList)), ("model", Json.bool (cmdIsNum t.toList))]).toArray
  | "ls_set" => lsOp j
  | "wght" => wghtOp j
  | _ => err s!"C16: unknown op {op}"

end Shelx.Drv.C16

import ShelxModel.JsonUtil
import ShelxModel.C16
open Lean Shelx.J

namespace Shelx.Drv.C16

def handle (j : Json) : Except String Json := do
  let op ← strField j "op"
  err s!"C16: unknown op {op}"

end Shelx.Drv.C16

import ShelxModel.JsonUtil
import ShelxModel.C17
open Lean Shelx.J

namespace Shelx.Drv.C17

def handle (j : Json) : Except String Json := do
  let op ← strField j "op"
  err s!"C17: unknown op {op}"

end Shelx.Drv.C17

import ShelxModel.JsonUtil
import ShelxModel.C17
open Lean Shelx.J

namespace Shelx.Drv.C17
open Shelx.C17

def s2j (s : Str) : Json := Json.str (String.ofList s)

def pairs (l : List (Str × Nat)) : Json :=
  Json.arr (l.map fun (k, v) => Json.arr #[s2j k, ofNat v]).toArray

def atomOf (j : Json) : Except String AtomE := do
  match ← arr j with
  | [n, r] => return { name := (← str n).toList, resi := ← nat r }
  | _ => err "C17: atom is [name, residue]"

def resiOf (j : Json) : Except String ResiE := do
  match ← arr j with
  | [c, r] => return { cls := (← str c).toList, num := ← nat r }
  | _ => err "C17: residue is [class, number]"

def opOf (j : Json) : Except String Op := do
  match ← arr j with
  | [k] =>
    match ← str k with
    | "check" => return .check
    | "lookup" => return .lookup
    | _ => err "C17: op"
  | [k, a] =>
    match ← str k with
    | "delItem" => return .delItem (← nat a)
    | "delete" => return .delete (← nat a)
    | "add" => return .add (← str a).toList
    | _ => err "C17: op"
  | [k, a, b] =>
    match ← str k with
    | "rename" => return .rename (← nat a) (← str b).toList
    | "setResi" => return .setResi (← nat a) (← nat b)
    | _ => err "C17: op"
  | _ => err "C17: op"

def outcome (o : Except PyErr Outcome) : Json :=
  match o with
  | .error .valueError => Json.mkObj [("err", Json.str "ValueError")]
  | .ok o => Json.mkObj [("err", Json.null), ("bad", Json.arr (o.bad.map s2j).toArray), ("reported", pairs (named o)),
                         ("printed", Json.arr ((printed o.bad).map s2j).toArray),
                         ("classMsg", Json.bool o.classMsg), ("anyMessage", Json.bool o.anyMessage)]

/-- {"op":"check","atoms":[[name,resi]…],"resis":[[class,num]…],"kw":"SADI_CCF3","toks":[…]} →
    model (the code with fixes C17_1..4), legacy (the code before them), spec.
    With "lines":[physical lines of the restraint…] and "numeric":[the tokens that are numbers…] the model starts at the
    physical lines (`assignLines`: continuation loop, split, Restraint.__init__) and the spec restraint is the one the
    layout denotes (`restrOfLines`, C05.norm); "kw"/"toks" are then not read. -/
def handle (j : Json) : Except String Json := do
  let op ← strField j "op"
  match op with
  | "check" =>
    let atoms ← (← arrField j "atoms").mapM atomOf
    let resis ← (← arrField j "resis").mapM resiOf
    let ops ← match fieldOpt j "ops" with
      | some o => (← arr o).mapM opOf
      | none => pure []
    -- the state after the history (no ops: the freshly parsed file, cache empty)
    let f : File := run { atoms, resis } ops
    let lines : Option (List (List Char)) ← match fieldOpt j "lines" with
      | some o => do pure (some ((← strs o).map String.toList))
      | none => pure none
    let nums : List Str ← match fieldOpt j "numeric" with
      | some o => do pure ((← strs o).map String.toList)
      | none => pure []
    let isNum : Str → Bool := fun t => nums.contains t
    let r : Restr ← match lines with
      | some ls =>
        match restrOfLines isNum ls 0 with
        | some r => pure r
        | none => err "C17: the physical lines are no valid layout of an instruction (C05.norm)"
      | none => pure { kw := (← strField j "kw").toList, atoms := (← field j "toks" >>= strs).map String.toList }
    let modelOut : Json := match lines with
      | some ls =>
        match assignLines isNum f ls 0 with
        | some e => outcome e
        | none => Json.mkObj [("err", Json.str "no-restraint")]
      | none => outcome (assign f r)
    let spec := Json.mkObj [
      ("missing", pairs (missing f r)),
      ("wf", Json.bool (decide (WellFormed f r))),
      ("wfData", Json.bool (wfFile f && wfKw r.kw && r.atoms.all wfTok)),
      ("kw", s2j r.kw), ("toks", Json.arr (r.atoms.map s2j).toArray),
      ("coherent", Json.bool (coherent f)),
      ("apiOnly", Json.bool (ops.all Op.keepsIndex)),
      ("atomsAfter", Json.arr (f.atoms.map fun a => Json.arr #[s2j a.name, ofNat a.resi]).toArray),
      ("classKnown", match kwSfx r.kw with
                      | .cls _ => Json.bool (!(classUnknown f r))
                      | _ => Json.null),
      ("addressed", Json.arr (r.atoms.map fun t =>
          if addressable t then ofNats (addressed f r t) else Json.null).toArray)]
    -- look-ups `get_atom_by_name('NAME_n')` on the state after the history (before the evaluation rebuilds the index)
    let probes ← match fieldOpt j "probe" with
      | some o => (← arr o).mapM atomOf
      | none => pure []
    let lookup := Json.mkObj [
      ("model", Json.arr (probes.map fun a => Json.bool (getAtomByName f (a.name ++ '_' :: natStr a.resi))).toArray),
      ("spec", Json.arr (probes.map fun a => Json.bool (atomExists f (upper a.name) a.resi)).toArray)]
    return Json.mkObj [("model", modelOut), ("legacy", outcome (Legacy.assign f r)), ("spec", spec), ("lookup", lookup)]
  | "report" =>
    -- a name as printed after 'Atom list has no -->' read back as (NAME, residue)
    let names ← field j "names" >>= strs
    return Json.mkObj [("pairs", pairs (names.map fun s => parseReport s.toList))]
  | _ => err s!"C17: unknown op {op}"
where
  ofNats (l : List Nat) : Json := Json.arr (l.map ofNat).toArray

end Shelx.Drv.C17

import ShelxModel.JsonUtil
import ShelxModel.C01
open Lean Shelx.J

namespace Shelx.Drv.C01

def handle (j : Json) : Except String Json := do
  let op ← strField j "op"
  err s!"C01: unknown op {op}"

end Shelx.Drv.C01

import ShelxModel.JsonUtil
import ShelxModel.C01
open Lean Shelx.J

namespace Shelx.Drv.C01
open Shelx.C01 Shelx.C01.Ext

/-- exact value of a double (decoded from its bit pattern) -/
def floatToRat (f : Float) : Rat :=
  let b : Nat := f.toBits.toNat
  let neg : Bool := b / 2 ^ 63 == 1
  let e : Nat := (b / 2 ^ 52) % 2048
  let m : Nat := b % 2 ^ 52
  let n : Nat := 2 ^ 52 + m
  let mag : Rat :=
    if e = 0 then (m : Rat) / ((2 ^ 1074 : Nat) : Rat)
    else if e ≥ 1075 then ((n * 2 ^ (e - 1075) : Nat) : Rat)
    else (n : Rat) / ((2 ^ (1075 - e) : Nat) : Rat)
  if neg then -mag else mag

def s2t (s : String) : Tok := s.toList
def t2s (t : List Char) : String := String.mk t

def optStr : Option (List Char) → Json
  | none => Json.null
  | some t => Json.str (t2s t)

def lines (ls : List (List Char)) : Json := Json.arr (ls.map fun l => Json.str (t2s l)).toArray

def pairsPr (ps : List (Rat × Tok)) (x : Rat) : Tok :=
  match ps.find? (·.1 = x) with
  | some p => p.2
  | none => "?".toList

def defaultReprs : List (Rat × Tok) :=
  [(1 / 100, s2t "0.01"), (1 / 10, s2t "0.1"), (0, s2t "0.0"), (33333 / 100000, s2t "0.33333")]

def handle (j : Json) : Except String Json := do
  let op ← strField j "op"
  match op with
  | "atom" =>
    let kind ← strField j "kind"
    let name := s2t (← strField j "name")
    let sfac ← natField j "sfac"
    let vals := (← field j "vals" >>= floats).map floatToRat
    let xyz := ((vals.take 3).map coordSplit).map coordJoin      -- parse, then print: slot by slot
    let sof := (vals.drop 3).headD 0
    let us := vals.drop 4
    let a : AtomV :=
      if kind = "qpeak" then ⟨name, sfac, xyz, sof, us ++ [0, 0, 0, 0], true, (us.drop 1).headD 0⟩
      else if kind = "iso" then ⟨name, sfac, xyz, sof, us ++ [0, 0, 0, 0, 0], false, 0⟩
      else ⟨name, sfac, xyz, sof, us, false, 0⟩
    let line := renderAtom a
    let want := xyz.map (fun v => (v, tolCoord)) ++ [(sof, tolU)] ++ us.map (fun v => (v, tolU))
    let specOk := match line with
      | none => false
      | some l => specAtomLine (splitWs l) name sfac want
    -- hypotheses of atom_render_close: the fields do not fuse, the kind the printer chooses is the kind of the input,
    -- and (open finding) a Q-peak's U is the constant the printer writes
    let fmt := if kind = "aniso" then anisFmt else if kind = "qpeak" then qpeakFmt else isoFmt
    let head := [Val.str a.name, Val.int a.sfac] ++ a.xyz.map Val.num ++ [Val.num a.sof]
    let vs := if kind = "qpeak" then head ++ [Val.num ((qpeakUConst.getD (us.headD 0))), Val.num a.height] else head ++ a.us.map Val.num
    let sepOk := match chunksOf fmt vs with | some cs => sep false cs | none => false
    let kindOk := if kind = "aniso" then isAniso a.us else if kind = "iso" then !isAniso a.us else
      (match qpeakUConst with | some c => decide (absR (c - us.headD 0) ≤ 1 / 100000) | none => true)
        && decide (absR (roundHalfEven (a.height * 100) / 100 - a.height) ≤ 1 / 100000)
        && xyz.all fun x => decide (absR (roundHalfEven (x * 10000) / 10000 - x) ≤ 1 / 1000000)
    return Json.mkObj [("model", optStr line), ("spec_ok", Json.bool specOk), ("hyp", Json.bool (sepOk && kindOk)),
                       ("sep", Json.bool sepOk)]
  | "sfac" =>
    let ents ← (← arrField j "entries").mapM fun e => do
      let el ← strField e "el"
      match fieldOpt e "c" with
      | some c => do
        let cs ← strs c
        return SfEntry.expl (s2t el :: cs.map s2t)
      | none => return SfEntry.plain (s2t el)
    match renderSfac ents with
    | none => return Json.mkObj [("model", Json.null), ("spec_ok", Json.bool false), ("hyp", Json.bool false)]
    | some ls =>
      let texts := ls.map sfacLineText
      let back := readSfac (texts.map fun t => (splitWs t).tail)
      let old := match renderSfacOld ents with
        | some lo => readSfac ((lo.map sfacLineText).map fun t => (splitWs t).tail) == ents
        | none => false
      return Json.mkObj [("model", lines texts), ("spec_ok", Json.bool (back == ents)), ("hyp", Json.bool true),
                         ("old_printer_ok", Json.bool old)]
  | "fvar" =>
    let rs := (← field j "reprs" >>= strs).map s2t
    let ls := renderFvar rs
    let texts := ls.map fun l => fvarLineText l.tail
    let back := readFvar (texts.map splitWs)
    return Json.mkObj [("model", lines texts), ("spec_ok", Json.bool (back == rs)), ("hyp", Json.bool (decide (1 ≤ fvarChunk)))]
  | "unit" =>
    let vals ← field j "vals" >>= rats
    let rs := (← field j "reprs" >>= strs).map s2t
    let pr := pairsPr (vals.zip rs)
    let toks := renderUnit pr vals
    let text := "UNIT ".toList ++ joinBl 1 toks.tail
    let back := (splitWs text).tail.map parseDec
    let ok := back.length = vals.length && (back.zip vals).all fun (b, v) => (b == some v) || v.den ≠ 1
    return Json.mkObj [("model", Json.str (t2s text)), ("spec_ok", Json.bool ok), ("hyp", Json.bool true)]
  | "card" =>
    let kw ← strField j "kw"
    let toks := (← field j "toks" >>= strs).map s2t
    match kw with
    | "default" | "raw" =>
      let text := joinBl 0 toks
      return Json.mkObj [("model", Json.str (t2s text)), ("spec_ok", Json.bool (splitWs text == toks)), ("hyp", Json.bool true)]
    | "SYMM" =>
      let comps := parseSymm toks.tail
      let text := renderSymm comps
      return Json.mkObj [("model", Json.str (t2s text)), ("spec_ok", Json.bool (normSymm text == parseSymm toks.tail)),
                         ("hyp", Json.bool (toks.tail.all fun t => !t.contains ' '))]
    | _ =>
      let vals ← field j "vals" >>= rats
      let rs := (← field j "reprs" >>= strs).map s2t
      let words := (← field j "words" >>= strs).map s2t
      let pr := pairsPr (vals.zip rs ++ defaultReprs)
      let out : List Tok := match kw with
        | "SIZE" => renderSize pr vals
        | "ACTA" => renderActa pr vals words
        | "STIR" => renderStir pr vals
        | _ => renderWght pr vals
      let text := joinBl 0 out
      return Json.mkObj [("model", Json.str (t2s text)), ("hyp", Json.bool true)]
  | _ => err s!"C01: unknown op {op}"

end Shelx.Drv.C01

import ShelxModel.JsonUtil
import ShelxModel.C15
open Lean Shelx.J

namespace Shelx.Drv.C15

def handle (j : Json) : Except String Json := do
  let op ← strField j "op"
  err s!"C15: unknown op {op}"

end Shelx.Drv.C15

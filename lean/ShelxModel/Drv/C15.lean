import ShelxModel.JsonUtil
import ShelxModel.C15
open Lean Shelx.J

namespace Shelx.Drv.C15
open Shelx.C15

def pi : Float := 3.141592653589793

/-- CPython: `math.degrees(x) = x * (180.0 / pi)`, `math.radians(x) = x * (pi / 180.0)`;
    `round(x, 9)` is modelled to the last-but-one bit only (observations are compared with a tolerance) -/
def floatTrans : Trans Float where
  sqrt := Float.sqrt
  acos := Float.acos
  deg := fun x => x * (180.0 / pi)
  round9 := fun x => Float.round (x * 1000000000.0) / 1000000000.0
  atan2 := Float.atan2

def radians (x : Float) : Float := x * (pi / 180.0)

def v3 (j : Json) : Except String (V3 Float) := do
  match ← floats j with
  | [x, y, z] => return ⟨x, y, z⟩
  | _ => err "expected 3 numbers"

/-- `CELL`: a b c alpha beta gamma (degrees) -> what `OrthogonalMatrix`/`atomic_distance` compute from it -/
def cellOf (j : Json) : Except String (Cell Float) := do
  match ← floats j with
  | [a, b, c, al, be, ga] =>
    let ca := Float.cos (radians al)
    let cb := Float.cos (radians be)
    let cg := Float.cos (radians ga)
    -- vol_unitcell: a * b * c * sqrt(1 + 2 ca cb cg - ca**2 - cb**2 - cg**2)
    let v := a * b * c * Float.sqrt (1 + 2 * ca * cb * cg - ca * ca - cb * cb - cg * cg)
    return { a, b, c, ca, cb, cg, sb := Float.sin (radians be), sg := Float.sin (radians ga), v }
  | _ => err "expected 6 cell parameters"

def atomOf (j : Json) : Except String (AtomN Float) := do
  return { frac := ← field j "f" >>= v3, part := ← intField j "part", qpeak := ← boolField j "q" }

def optNats : Option (List Nat) → Json
  | none => Json.null
  | some l => Json.arr (l.map ofNat).toArray

def sgn (x : Float) : Int := if x > 0 then 1 else if x < 0 then -1 else 0

def handle (j : Json) : Except String Json := do
  let op ← strField j "op"
  let T := floatTrans
  match op with
  | "angle" =>
    match ← (← arrField j "pts").mapM v3 with
    | [p1, p2, p3] =>
      return Json.mkObj [("model", ofFloat (angleModel T p1 p2 p3)), ("spec", ofFloat (specAngle T p1 p2 p3)),
                         ("cos", ofFloat (angleCos T p1 p2 p3))]
    | _ => err "angle: expected 3 points"
  | "torsion" =>
    match ← (← arrField j "pts").mapM v3 with
    | [p1, p2, p3, p4] =>
      return Json.mkObj [("model", ofFloat (torsionModel T p1 p2 p3 p4)), ("spec", ofFloat (specTorsion T p1 p2 p3 p4)),
                         ("cos", ofFloat (torsionCos T p1 p2 p3 p4)),
                         ("dir", ofInt (sgn (direction p1 p2 p3 p4))),
                         ("dir_typo", ofInt (sgn (directionTypo (p2.sub p1) (p3.sub p2) (p4.sub p3)))),
                         ("triple", ofInt (sgn (triple (p2.sub p1) (p3.sub p2) (p4.sub p3))))]
    | _ => err "torsion: expected 4 points"
  | "dist" =>
    let C ← field j "cell" >>= cellOf
    match ← (← arrField j "fracs").mapM v3 with
    | [f1, f2] =>
      return Json.mkObj [("model", ofFloat (namedDistance T C f1 f2)), ("spec", ofFloat (specDistance T C f1 f2)),
                         ("metric", ofFloat (metricDist T C f1 f2))]
    | _ => err "dist: expected 2 sites"
  | "cart" =>
    let C ← field j "cell" >>= cellOf
    let fs ← (← arrField j "fracs").mapM v3
    return Json.arr (fs.map fun f => let p := cart C f; ofFloats [p.x, p.y, p.z]).toArray
  | "geomfrac" =>
    -- four atoms given by fractional coordinates and by the way they entered the model
    let C ← field j "cell" >>= cellOf
    let fs ← (← arrField j "fracs").mapM v3
    let rs ← (← arrField j "added").mapM bool
    match fs, rs with
    | [f1, f2, f3, f4], [r1, r2, r3, r4] =>
      let p1 := cartVia T C r1 f1
      let p2 := cartVia T C r2 f2
      let p3 := cartVia T C r3 f3
      let p4 := cartVia T C r4 f4
      let q1 := cart C f1
      let q2 := cart C f2
      let q3 := cart C f3
      let q4 := cart C f4
      let two (m s : Float) : Json := Json.mkObj [("model", ofFloat m), ("spec", ofFloat s)]
      return Json.mkObj [("ang", two (angleModel T p1 p2 p3) (specAngle T q1 q2 q3)),
                         ("ang2", two (angleModel T p2 p3 p4) (specAngle T q2 q3 q4)),
                         ("tor", two (torsionModel T p1 p2 p3 p4) (specTorsion T q1 q2 q3 q4)),
                         ("d12", two (distanceVia T C r1 r2 f1 f2) (specDistance T C f1 f2)),
                         ("d34", two (distanceVia T C r3 r4 f3 f4) (specDistance T C f3 f4)),
                         ("d14", two (distanceVia T C r1 r4 f1 f4) (specDistance T C f1 f4))]
    | _, _ => err "geomfrac: expected 4 sites and 4 flags"
  | "around" =>
    let C ← field j "cell" >>= cellOf
    let atoms ← (← arrField j "atoms").mapM atomOf
    let i ← natField j "i"
    let d ← floatField j "d"
    let part ← intField j "part"
    return Json.mkObj [("model", optNats (findAround T C atoms i d part)), ("spec", optNats (specAround T C atoms i d part))]
  | _ => err s!"C15: unknown op {op}"

end Shelx.Drv.C15

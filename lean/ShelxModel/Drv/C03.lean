import ShelxModel.JsonUtil
import ShelxModel.C03
open Lean Shelx.J

namespace Shelx.Drv.C03
open Shelx.C03

/-- `["part", n, sof] | ["afix", mn] | ["resi", cls, num] | ["atom", tag, sfac, sof, [u…]] | ["frag", np] | ["fend"] |
    ["hklf", np] | ["end"] | ["other"]` (np = number of parameters written on the line) -/
def lineOf (j : Json) : Except String Line := do
  let l ← arr j
  match l with
  | [] => err "empty line"
  | k :: args =>
    let k ← str k
    match k, args with
    | "part", [n, f] => return .part (← int n) (← rat f)
    | "afix", [mn] => return .afix (← int mn)
    | "resi", [c, n] => return .resi (← str c) (← int n)
    | "atom", [t, sf, f, u] => return .atom { tag := ← nat t, sfac := ← int sf, sof := ← rat f, u := ← rats u }
    | "frag", [np] => return .frag (← nat np)
    | "frag", [] => return .frag 7          -- (replays written before the forms were distinguished)
    | "fend", [] => return .fend
    | "hklf", [np] => return .hklf (← nat np)
    | "hklf", [] => return .hklf 1
    | "end", [] => return .fin
    | "other", [] => return .other
    | _, _ => err s!"bad line {j.compress}"

/-- `["elems", [..]] | ["explicit", el]` -/
def sfacInstrOf (j : Json) : Except String SfacInstr := do
  match ← arr j with
  | [k, v] =>
    match ← str k with
    | "elems" => return .elems (← strs v)
    | "explicit" => return .explicit (← str v)
    | _ => err "bad SFAC instruction"
  | _ => err "bad SFAC instruction"

/-- `table` = (model table, spec table) -/
def elJson (table : List String × List String) (o : AtomObs) : Json :=
  Json.mkObj [("el", Json.str (sfac2elem table.1 o.sfac)),
    ("el_spec", match specElement table.2 o.sfac with | some e => Json.str e | none => Json.null)]

def obsJson (table : List String × List String) (o : AtomObs) : Json :=
  Json.mkObj [("tag", ofNat o.tag), ("sfac", ofInt o.sfac), ("sof", ofRat o.sof), ("u", ofRats o.uvals),
    ("part", ofInt o.part), ("afix", ofInt o.afix), ("rnum", ofInt o.resiNum), ("rcls", Json.str o.resiCls),
    ("q", Json.bool o.qpeak)] |>.mergeObj (elJson table o)

def optObs (table : List String × List String) : Option AtomObs → Json
  | some o => obsJson table o
  | none => Json.null

def tags (l : List ViewAtom) : Json := Json.arr (l.map fun a => ofNat a.obs.tag).toArray

def viewsJson (table : List String) (classes : List String) (atoms : List AtomObs) : Json :=
  let va := viewAtoms table atoms
  Json.mkObj [("hydrogens", tags (View.hydrogenAtoms va)), ("qpeaks", tags (View.qPeaks va)),
    ("riding", tags (View.ridingAtoms va)), ("residues", ofInts (View.residues va)),
    ("n_aniso", ofNat (View.nAniso va)), ("n_iso", ofNat (View.nIso va)),
    ("n_aniso_spec", ofNat (View.specNAniso va)), ("n_iso_spec", ofNat (View.specNIso va)),
    ("in_class", Json.arr (classes.map fun c => Json.arr ((View.atomsInClass va c).map ofNat).toArray).toArray)]

def rtokOf (s : String) : Except String RTok :=
  if s.any Char.isAlpha then
    if s.contains ':' then
      match s.splitOn ":" with
      | c :: n :: _ => match n.toInt? with
        | some i => .ok (.chainNum c i)
        | none => err s!"bad chain token {s}"
      | _ => err s!"bad chain token {s}"
    else .ok (.word s)
  else match s.toInt? with
    | some i => .ok (.num i)
    | none => err s!"bad numeric token {s}"

def optInt : Option Int → Json | some i => ofInt i | none => Json.null
def optStr : Option String → Json | some s => Json.str s | none => Json.null

def resiJson (d : ResiDef) : Json :=
  Json.mkObj [("cls", Json.str d.cls), ("num", ofInt d.num), ("alias", optInt d.alias), ("chain", optStr d.chain)]

def itemOf (j : Json) : Except String Item := do
  match ← arr j with
  | [k, v] =>
    match ← str k with
    | "l" => return .line (← nat v)
    | "i" => return .inc (← str v)
    | _ => err "bad item"
  | _ => err "bad item"

def itemJson : Item → Json
  | .line t => Json.arr #[Json.str "l", ofNat t]
  | .inc n => Json.arr #[Json.str "i", Json.str n]

def itemsJson (l : List Item) : Json := Json.arr (l.map itemJson).toArray

def handle (j : Json) : Except String Json := do
  let op ← strField j "op"
  match op with
  | "file" =>
    let lines ← (← arrField j "lines").mapM lineOf
    let instrs ← (← arrField j "sfac_lines").mapM sfacInstrOf
    let table := (sfacTable instrs, specSfacTable instrs)
    let classes ← field j "classes" >>= strs
    let m := observe (run lines)
    -- "brief": the answer without the (large, only informative) result of the code before the fixes
    let brief := match fieldOpt j "brief" with | some (Json.bool true) => true | _ => false
    let b := if brief then [] else observe (runBug lines)
    let sp := specAtoms lines
    let mOk := m.filterMap id
    return Json.mkObj [("valid", Json.bool (valid lines)),
      ("model", Json.arr (m.map (optObs table)).toArray),
      ("spec", Json.arr (sp.map (obsJson table)).toArray),
      ("before_fix", Json.arr (b.map (optObs table)).toArray),
      ("model_views", viewsJson table.1 classes mOk),
      ("spec_views", viewsJson table.2 classes sp)]
  | "resi" =>
    let toks ← (← field j "toks" >>= strs).mapM rtokOf
    return Json.mkObj [("model", resiJson (resiDecode toks)), ("spec", resiJson (resiSpec toks)),
      ("form_ok", Json.bool (resiFormOK toks))]
  | "splice" =>
    let main ← (← arrField j "main").mapM itemOf
    let fsj ← arrField j "fs"
    let fs : FS ← fsj.mapM fun e => do
      let n ← strField e "name"
      let c ← (← arrField e "items").mapM itemOf
      return (n, c)
    let total := main.length + (fs.map (·.2.length)).sum + fs.length + 1
    let m := splice fs total [] main
    return Json.mkObj [("model", match m with | some l => itemsJson l | none => Json.null),
      ("spec", itemsJson (spliceSpec fs (fs.length + 1) main)),
      ("in_domain", Json.bool (deepOK fs (fs.length + 1) main && decide (incNames (spliceSpec fs (fs.length + 1) main)).Nodup))]
  | _ => err s!"C03: unknown op {op}"

end Shelx.Drv.C03

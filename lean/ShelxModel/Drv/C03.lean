import ShelxModel.JsonUtil
import ShelxModel.C03
open Lean Shelx.J

namespace Shelx.Drv.C03

def handle (j : Json) : Except String Json := do
  let op ← strField j "op"
  err s!"C03: unknown op {op}"

end Shelx.Drv.C03

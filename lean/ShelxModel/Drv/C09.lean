import ShelxModel.JsonUtil
import ShelxModel.C09
open Lean Shelx.J

namespace Shelx.Drv.C09
open Shelx.C09

def optRat : Option Rat → Json
  | none => Json.null
  | some r => ofRat r

def pairs (l : List (String × Rat)) : Json :=
  Json.arr (l.map fun (k, v) => Json.arr #[Json.str k, ofRat v]).toArray

def atomOf (j : Json) : Except String AtomS := do
  return { element := ← strField j "el", qpeak := ← boolField j "q", sof := ← ratField j "sof" }

def handle (j : Json) : Except String Json := do
  let op ← strField j "op"
  match op with
  | "occ" =>
    let c ← ratField j "code"
    let fv ← field j "fvars" >>= rats
    let mp := splitCode c
    let sp := decode c
    return Json.mkObj [("m", ofInt mp.1), ("p", ofRat mp.2), ("occ", ofRat (occupancy fv c)),
                       ("spec_m", ofInt sp.1), ("spec_p", ofRat sp.2), ("spec", optRat (specOcc fv c))]
  | "sum" =>
    let fv ← field j "fvars" >>= rats
    let els ← field j "els" >>= strs
    let atoms ← (← arrField j "atoms").mapM atomOf
    let specOccF := fun c => match specOcc fv c with | some r => r | none => occupancy fv c
    return Json.mkObj [("model", pairs (sumExact fv els atoms)), ("spec", pairs (specSum specOccF els atoms))]
  | "unit" =>
    let els ← field j "els" >>= strs
    let unit ← field j "unit" >>= rats
    let z ← ratField j "z"
    let m := match unitFormula els unit z with | none => Json.null | some l => pairs l
    return Json.mkObj [("model", m), ("spec", pairs (specUnit els unit z))]
  | _ => err s!"C09: unknown op {op}"

end Shelx.Drv.C09

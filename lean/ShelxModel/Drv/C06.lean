import ShelxModel.JsonUtil
import ShelxModel.C06
open Lean Shelx.J

namespace Shelx.Drv.C06
open Shelx.C06

def ofChars (l : List Char) : Json := Json.str (String.ofList l)
def ofLines (ls : List (List Char)) : Json := Json.arr (ls.map ofChars).toArray
def ofBool (b : Bool) : Json := Json.bool b

def ofLogical : Option (List (List Char)) → Json
  | none => Json.null
  | some ls => Json.arr (ls.map fun l => ofLines (tokens l)).toArray

/-- the specification evaluated on a written text -/
def specOf (out : List Char) : Json :=
  let pls := physLines out
  Json.mkObj [("phys", ofLines pls), ("maxlen", ofNat (maxLen pls)), ("shape", ofBool (shapeOk pls)),
              ("logical", ofLogical (logical out)), ("logicalC", ofLogical (logicalC out)),
              ("bad_cont", ofNat (badContinuations false pls).length),
              ("nonblank", match logical out with | some ls => ofLines (ls.map nonblank) | none => Json.null)]

def cfgOf (j : Json) : Except String Cfg := do
  match fieldOpt j "cfg" with
  | none => return Cfg.extracted
  | some c =>
    return { shortMax := ← natField c "short", width := ← natField c "width", indent := (← strField c "indent").toList,
             suffix := (← strField c "suffix").toList, sep := (← strField c "sep").toList }

def handle (j : Json) : Except String Json := do
  let op ← strField j "op"
  match op with
  | "consts" =>
    let c := Cfg.extracted
    return Json.mkObj [("short", ofNat c.shortMax), ("width", ofNat c.width), ("indent", ofChars c.indent),
                       ("suffix", ofChars c.suffix), ("sep", ofChars c.sep),
                       ("drop_whitespace", ofBool Extracted.Wrap.dropWhitespace),
                       ("break_on_hyphens", ofBool Extracted.Wrap.breakOnHyphens),
                       ("break_long_words", ofBool Extracted.Wrap.breakLongWords),
                       ("fvar_chunk", ofNat Extracted.Wrap.fvarChunk), ("fvar_prefix", ofChars Extracted.Wrap.fvarPrefix),
                       ("fvar_sep", ofChars Extracted.Wrap.fvarSep), ("sfac_prefix", ofChars Extracted.Wrap.sfacPrefix),
                       ("sfac_sep", ofChars Extracted.Wrap.sfacSep)]
  | "wrap" =>
    -- s: the instruction; out (optional): what the implementation wrote for it
    let cfg ← cfgOf j
    let s := (← strField j "s").toList
    let m := writeItem cfg s
    let hyp := Json.mkObj [("noNL", ofBool (noNL s)), ("endOk", ofBool (endOk s)),
                           ("noLongTok", ofBool (noLongTok (cfg.width - cfg.indent.length) s))]
    let base := [("model", ofChars m), ("model_spec", specOf m), ("hyp", hyp),
                 ("tokens", ofLines (tokens s)), ("nonblank", ofChars (nonblank s)),
                 ("parts", Json.arr ((splitOnC '\n' s).map fun p => ofLines (tokens p)).toArray),
                 ("code_tokens", ofLines (tokens (code s))),
                 ("cont", ofBool (match (splitOnC '\n' s).getLast? with | some p => flaggedC p | none => false))]
    match fieldOpt j "out" with
    | none => return Json.mkObj base
    | some o => return Json.mkObj (base ++ [("impl_spec", specOf (← str o).toList)])
  | "lex" =>
    -- the comment-aware lexer on a text: written file, or the unwrapped item texts joined with '\n'
    let t := (← strField j "text").toList
    let pls := physLines t
    let lg := logicalC t
    return Json.mkObj [("maxlen", ofNat (maxLen pls)),
                       ("long", ofLines (pls.filter (·.length > 80))),
                       ("logical", ofLogical lg),
                       ("blank_lines", ofNat ((pls.dropLast.filter allBlank).length)),
                       ("classes", Json.arr ((lineClasses false pls.dropLast).map fun (c, pl) =>
                          Json.arr #[Json.str c, ofChars pl]).toArray),
                       ("bad_cont", Json.arr ((badContinuations false pls.dropLast).map fun (a, b) =>
                          Json.arr #[ofChars a, match b with | some q => ofChars q | none => Json.null]).toArray),
                       ("bare", match lg with | some ls => ofLines (ls.filter bareLine) | none => Json.null)]
  | "file" =>
    -- text: a complete written file; the specification only
    let t := (← strField j "text").toList
    let pls := physLines t
    let lg := logical t
    return Json.mkObj [("maxlen", ofNat (maxLen pls)),
                       ("long", ofLines (pls.filter (·.length > 80))),
                       ("logical", ofLogical lg),
                       ("bare", match lg with | some ls => ofLines (ls.filter bareLine) | none => Json.null)]
  | "fvar" =>
    let vals := (← field j "vals" >>= strs).map String.toList
    let lines := fvarLines Extracted.Wrap.fvarChunk Extracted.Wrap.fvarPrefix Extracted.Wrap.fvarSep vals
    return Json.mkObj [("model", ofChars (renderFvars Extracted.Wrap.fvarChunk Extracted.Wrap.fvarPrefix Extracted.Wrap.fvarSep vals)),
                       ("lines_ok", ofBool (lines.all (keywordWithParams "FVAR".toList)))]
  | "sfac" =>
    let els := (← field j "els" >>= strs).map String.toList
    let ln := sfacLine Extracted.Wrap.sfacPrefix Extracted.Wrap.sfacSep els
    return Json.mkObj [("model", ofChars ln), ("line_ok", ofBool (keywordWithParams "SFAC".toList ln))]
  | _ => err s!"C06: unknown op {op}"

end Shelx.Drv.C06

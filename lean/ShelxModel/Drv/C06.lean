import ShelxModel.JsonUtil
import ShelxModel.C06
open Lean Shelx.J

namespace Shelx.Drv.C06

def handle (j : Json) : Except String Json := do
  let op ← strField j "op"
  err s!"C06: unknown op {op}"

end Shelx.Drv.C06

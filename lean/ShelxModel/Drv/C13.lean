import ShelxModel.JsonUtil
import ShelxModel.C13
open Lean Shelx.J

namespace Shelx.Drv.C13

def handle (j : Json) : Except String Json := do
  let op ← strField j "op"
  err s!"C13: unknown op {op}"

end Shelx.Drv.C13

import ShelxModel.JsonUtil
import ShelxModel.C13
open Lean Shelx.J

/-
  C13 driver: one request = one structure.
    {"p":"C13","op":"sdm","cell":[a,b,c],"cos":[cosal,cosbe,cosga],
     "ops":[[m00,m01,m02,m10,…,m22,t0,t1,t2],…]      the operator list as the library holds it (matrix rows, trans)
     "sops":[[R00,…,R22,tau0,tau1,tau2],…]            the operators of the specification (x ↦ R x + τ)
     "atoms":[{"xyz":[x,y,z],"el":"C","part":0},…],"box":3,"tiny":1e-6}
  Answer: model items / molindex (Float instance of the model, thresholds and radii from the extracted
  tables) and the specification (brute force, rule, components).
-/
namespace Shelx.Drv.C13
open Shelx.C13

def ratToFloat (r : Rat) : Float := Float.ofInt r.num / Float.ofNat r.den

def constsF : Consts Float :=
  { cut := ratToFloat Extracted.cutQ, bias := ratToFloat Extracted.biasQ, eps := ratToFloat Extracted.epsQ,
    factor := ratToFloat Extracted.factorQ, half := ratToFloat Extracted.halfQ, big := ratToFloat Extracted.bigQ,
    nobond := ratToFloat Extracted.nobondQ }

def v3 (l : List Float) (k : Nat) : Except String (V3 Float) :=
  match l.drop k with
  | x :: y :: z :: _ => .ok ⟨x, y, z⟩
  | _ => err "C13: vector of 3 numbers expected"

def opOf (j : Json) : Except String (Op Float) := do
  let l ← floats j
  if l.length ≠ 12 then err "C13: operator needs 12 numbers"
  return { r0 := ← v3 l 0, r1 := ← v3 l 3, r2 := ← v3 l 6, t := ← v3 l 9 }

def sopOf (j : Json) : Except String (SOp Float) := do
  let l ← floats j
  if l.length ≠ 12 then err "C13: operator needs 12 numbers"
  return { r0 := ← v3 l 0, r1 := ← v3 l 3, r2 := ← v3 l 6, tau := ← v3 l 9 }

def radiusOf (el : String) : Except String Float :=
  match Extracted.covRadius.find? (·.1 = el) with
  | some (_, r) => .ok (ratToFloat r)
  | none => err s!"C13: no covalent radius for {el}"

def atomOf (j : Json) : Except String (AtomM Float) := do
  let xyz ← field j "xyz" >>= floats
  let el ← strField j "el"
  return { pos := ← v3 xyz 0, hyd := Extracted.hydrogenElements.contains el, part := ← intField j "part",
           radius := ← radiusOf el }

def intRange (b : Nat) : List Float := (List.range (2 * b + 1)).map fun (k : Nat) => Float.ofInt (Int.ofNat k - Int.ofNat b)

def boxOf (b : Nat) : List (V3 Float) :=
  (intRange b).flatMap fun x => (intRange b).flatMap fun y => (intRange b).map fun z => ⟨x, y, z⟩

def optNat : Option Nat → Json
  | none => Json.null
  | some n => ofNat n

def handle (j : Json) : Except String Json := do
  let op ← strField j "op"
  match op with
  | "sdm" =>
    let cl ← field j "cell" >>= floats
    let cs ← field j "cos" >>= floats
    let (a, b, c) ← match cl with | [a, b, c] => pure (a, b, c) | _ => err "C13: cell needs a b c"
    let (ca, cb, cg) ← match cs with | [a, b, c] => pure (a, b, c) | _ => err "C13: cos needs 3 numbers"
    let ops ← (← arrField j "ops").mapM opOf
    let sops ← (← arrField j "sops").mapM sopOf
    let atoms ← (← arrField j "atoms").mapM atomOf
    let boxN ← natField j "box"
    -- input guard: the work is (atoms² × operators × (2·box+1)³); refuse requests far outside the property's domain
    if boxN > 4 then err "C13: box > 4 refused"
    if atoms.length > 64 then err "C13: more than 64 atoms refused"
    if ops.length > 200 || sops.length > 200 then err "C13: more than 200 operators refused"
    let box := boxOf boxN
    let tiny ← floatField j "tiny"
    let cell : Cell Float := Cell.ofLengths a b c ca cb cg
    -- model
    let items := calcSdm Float.floor Float.sqrt constsF cell ops atoms
    let n := atoms.length
    let hydF := fun i => match atoms[i]? with | some a => a.hyd | none => false
    let bonds := items.map fun it => ({ a1 := it.a1, a2 := it.a2, covalent := it.covalent } : Bond)
    let mol := match calcMolindex hydF n bonds with
      | none => Json.null
      | some (m, mx) => Json.mkObj [("mol", ofInts ((List.range n).map m)), ("maxmol", ofInt mx)]
    let itemsJ := Json.arr (items.map fun it =>
      Json.arr #[ofNat it.a1, ofNat it.a2, ofFloat it.dist, ofNat it.sym, Json.bool it.covalent]).toArray
    -- specification
    let msq := metricSq a b c ca cb cg
    let ea := enum atoms
    let pairs := ea.flatMap fun (i, a1) => ea.map fun (j, a2) =>
      let r := specPair msq (tiny * tiny) sops box a1.pos a2.pos
      let bonded := match r with
        | none => false
        | some (d2, _) => ruleBonded (ratToFloat statementFactor) a1.radius a2.radius (Float.sqrt d2) a1.hyd a2.hyd a1.part a2.part
      (i, j, r, bonded)
    let bondedF := fun i j => pairs.any fun (i', j', _, b) => i' == i && j' == j && i != j && b
    let labels := specLabels n bondedF
    let pairsJ := Json.arr (pairs.map fun (i, j, r, b) =>
      match r with
      | none => Json.arr #[ofNat i, ofNat j, Json.null, Json.null, Json.bool b]
      | some (d2, k) => Json.arr #[ofNat i, ofNat j, ofFloat (Float.sqrt d2), ofNat k, Json.bool b]).toArray
    return Json.mkObj [("items", itemsJ), ("molindex", mol), ("spec_pairs", pairsJ),
                       ("spec_labels", Json.arr (labels.map ofNat).toArray)]
  | "consts" =>
    return Json.mkObj [("cut", ofFloat constsF.cut), ("bias", ofFloat constsF.bias), ("eps", ofFloat constsF.eps),
                       ("factor", ofFloat constsF.factor), ("half", ofFloat constsF.half),
                       ("hydrogen", ofStrs Extracted.hydrogenElements)]
  | _ => err s!"C13: unknown op {op}"

end Shelx.Drv.C13

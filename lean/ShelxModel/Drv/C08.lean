import ShelxModel.JsonUtil
import ShelxModel.C08
open Lean Shelx.J

namespace Shelx.Drv.C08

def handle (j : Json) : Except String Json := do
  let op ← strField j "op"
  err s!"C08: unknown op {op}"

end Shelx.Drv.C08

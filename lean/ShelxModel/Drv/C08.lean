import ShelxModel.JsonUtil
import ShelxModel.C08
open Lean Shelx.J

/-
  C08 driver.  {"p":"C08","op":"replay","cfg":"repaired"|"snapshot","file":[LINE…],"ops":[OP…]}
    LINE = ["r",t] | ["a",t,name] | ["c",t]
    OP   = ["delId",k] | ["delete",a] | ["insert",pos,t] | ["rename",a,name,t] | ["retext",u,t] | ["lookup"] | ["read",[LINE…]]
  Answer: {"steps":[SNAP…]} — one snapshot after the initial read and one after every op. The harness looks at the
  object graph after every step (which goes through `atomsdict`), so the replay applies `lookup` after each snapshot.
    SNAP = {"raised":b, "atoms":[[uid,atomid,index|null]…], "cards":[[uid,index|null]…], "byname":[[uid,found|null]…],
            "res":[[kind,x]…], "gone":[uid…], "model":[six clause verdicts of Inv8 on the model state], "spec":true}
-/
namespace Shelx.Drv.C08
open Shelx.C08

def lineOf (j : Json) : Except String Line := do
  let a ← arr j
  match a with
  | [k, t] =>
    let k ← str k
    let t ← nat t
    if k == "r" then return .raw t else if k == "c" then return .card t else err s!"C08: bad line kind {k}"
  | [k, t, n] =>
    let k ← str k
    if k != "a" then err s!"C08: bad line kind {k}"
    return .atom (← nat t) (← nat n)
  | _ => err "C08: bad line"

def opOf (j : Json) : Except String Op := do
  let a ← arr j
  match a with
  | [] => err "C08: empty op"
  | k :: args =>
    let k ← str k
    match k, args with
    | "delId", [x] => return .delId (← nat x)
    | "delete", [x] => return .delete (← nat x)
    | "insert", [p, t] => return .insertAfter (← nat p) (← nat t)
    | "rename", [a, n, t] => return .rename (← nat a) (← nat n) (← nat t)
    | "retext", [u, t] => return .retext (← nat u) (← nat t)
    | "lookup", [] => return .lookup
    | "read", [f] => return .read (← (← arr f).mapM lineOf)
    | _, _ => err s!"C08: bad op {k}"

def optNat : Option Nat → Json
  | none => Json.null
  | some n => ofNat n

def entryJson : Entry → Json
  | .raw t => Json.arr #[Json.str "r", ofNat t]
  | .atom u => Json.arr #[Json.str "a", ofNat u]
  | .card u => Json.arr #[Json.str "c", ofNat u]

def snap (c : Cfg) (s : St) (raised : Bool) : Json :=
  Json.mkObj [
    ("raised", Json.bool raised),
    ("atoms", Json.arr (s.atoms.map fun a => Json.arr #[ofNat a, ofNat (atomid c s a), optNat (indexOf c s (.atom a))]).toArray),
    ("cards", Json.arr (s.cards.map fun k => Json.arr #[ofNat k, optNat (indexOf c s (.card k))]).toArray),
    ("byname", Json.arr (s.atoms.map fun a => Json.arr #[ofNat a, optNat (byName s (s.name a))]).toArray),
    ("res", Json.arr (s.res.map entryJson).toArray),
    ("gone", Json.arr (s.gone.map ofNat).toArray),
    ("model", Json.arr ((clauses c s).map Json.bool).toArray),
    -- the theorem's right-hand side: after any history of the repaired code every clause holds (history_inv)
    ("spec", Json.bool true)]

def replay (c : Cfg) : List Op → St → List Json → List Json
  | [], _, acc => acc.reverse
  | op :: ops, s, acc =>
    let (s', r) := step c op s
    replay c ops (warm s') (snap c s' r :: acc)

def handle (j : Json) : Except String Json := do
  let op ← strField j "op"
  match op with
  | "replay" =>
    let cfg ← strField j "cfg"
    let c ← if cfg == "repaired" then pure repaired else if cfg == "snapshot" then pure snapshot else err s!"C08: bad cfg {cfg}"
    let f ← (← arrField j "file").mapM lineOf
    let ops ← (← arrField j "ops").mapM opOf
    return Json.mkObj [("steps", Json.arr (replay c (.read f :: ops) init []).toArray)]
  | _ => err s!"C08: unknown op {op}"

end Shelx.Drv.C08

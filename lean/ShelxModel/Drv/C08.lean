import ShelxModel.JsonUtil
import ShelxModel.C08
open Lean Shelx.J

/-
  C08 driver.  {"p":"C08","op":"replay","cfg":"repaired"|"snapshot","file":[LINE…],"ops":[OP…]}
    LINE = ["r",t] | ["r",t,k] | ["a",t,name] | ["c",t] | ["c",t,k]        (k: the attribute the line assigns)
    OP   = ["delId",k] | ["delete",a] | ["insert",pos,t] | ["rename",a,name,t] | ["retext",u,t] | ["lookup"] | ["read",[LINE…]]
  Answer: {"steps":[SNAP…]} — one snapshot after the initial read and one after every op. The harness looks at the
  object graph after every step (which goes through `atomsdict`), so the replay applies `lookup` after each snapshot.
    SNAP = {"raised":b, "atoms":[[uid,atomid,index|null]…], "cards":[[uid,index|null]…], "byname":[[uid,found|null]…],
            "res":[[kind,x]…], "gone":[uid…], "slots":[[attribute,uid]…] (attributes that hold an instruction object),
            "specslots": the same from the specification (last instruction of the file read last),
            "model":[seven clause verdicts of Inv8 on the model state], "spec":true}
-/
namespace Shelx.Drv.C08
open Shelx.C08

def lineOf (j : Json) : Except String Line := do
  let a ← arr j
  match a with
  | [k, t] =>
    let k ← str k
    let t ← nat t
    if k == "r" then return .raw t none else if k == "c" then return .card t none else err s!"C08: bad line kind {k}"
  | [k, t, n] =>
    let k ← str k
    if k == "a" then return .atom (← nat t) (← nat n)
    else if k == "r" then return .raw (← nat t) (some (← nat n))
    else if k == "c" then return .card (← nat t) (some (← nat n))
    else err s!"C08: bad line kind {k}"
  | _ => err "C08: bad line"

def opOf (j : Json) : Except String Op := do
  let a ← arr j
  match a with
  | [] => err "C08: empty op"
  | k :: args =>
    let k ← str k
    match k, args with
    | "delId", [x] => return .delId (← nat x)
    | "delete", [x] => return .delete (← nat x)
    | "insert", [p, t] => return .insertAfter (← nat p) (← nat t)
    | "rename", [a, n, t] => return .rename (← nat a) (← nat n) (← nat t)
    | "retext", [u, t] => return .retext (← nat u) (← nat t)
    | "lookup", [] => return .lookup
    | "read", [f] => return .read (← (← arr f).mapM lineOf)
    | _, _ => err s!"C08: bad op {k}"

def optNat : Option Nat → Json
  | none => Json.null
  | some n => ofNat n

def entryJson : Entry → Json
  | .raw t => Json.arr #[Json.str "r", ofNat t]
  | .atom u => Json.arr #[Json.str "a", ofNat u]
  | .card u => Json.arr #[Json.str "c", ofNat u]

def pairsJson (l : List (Nat × Nat)) : Json :=
  Json.arr (l.map fun p => Json.arr #[ofNat p.1, ofNat p.2]).toArray

def snap (c : Cfg) (s : St) (f : List Line) (raised : Bool) : Json :=
  Json.mkObj [
    ("raised", Json.bool raised),
    ("atoms", Json.arr (s.atoms.map fun a => Json.arr #[ofNat a, ofNat (atomid c s a), optNat (indexOf c s (.atom a))]).toArray),
    ("cards", Json.arr (s.cards.map fun k => Json.arr #[ofNat k, optNat (indexOf c s (.card k))]).toArray),
    ("byname", Json.arr (s.atoms.map fun a => Json.arr #[ofNat a, optNat (byName s (s.name a))]).toArray),
    ("res", Json.arr (s.res.map entryJson).toArray),
    ("gone", Json.arr (s.gone.map ofNat).toArray),
    ("slots", pairsJson (slotTable s)),
    -- slot_history: after any history the attributes are those of the file read last
    ("specslots", pairsJson ((s.slots.map (·.1)).eraseDups.filterMap fun k => (specSlot f k).map fun u => (k, u))),
    ("model", Json.arr ((clauses c s).map Json.bool).toArray),
    -- the theorem's right-hand side: after any history of the repaired code every clause holds (history_inv)
    ("spec", Json.bool true)]

def replay (c : Cfg) : List Op → St → List Line → List Json → List Json
  | [], _, _, acc => acc.reverse
  | op :: ops, s, f, acc =>
    let (s', r) := step c op s
    let f' := lastFile f [op]
    replay c ops (warm s') f' (snap c s' f' r :: acc)

def handle (j : Json) : Except String Json := do
  let op ← strField j "op"
  match op with
  | "replay" =>
    let cfg ← strField j "cfg"
    let c ← if cfg == "repaired" then pure repaired else if cfg == "snapshot" then pure snapshot else err s!"C08: bad cfg {cfg}"
    let f ← (← arrField j "file").mapM lineOf
    let ops ← (← arrField j "ops").mapM opOf
    return Json.mkObj [("steps", Json.arr (replay c (.read f :: ops) init [] []).toArray)]
  | _ => err s!"C08: unknown op {op}"

end Shelx.Drv.C08

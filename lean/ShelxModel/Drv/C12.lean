import ShelxModel.JsonUtil
import ShelxModel.C12
open Lean Shelx.J

/-
  C12 driver.  One request = one cell with points, point pairs and U tensors:
    {"p":"C12","op":"cell","cell":[a,b,c,al,be,ga],"pts":[[x,y,z]…],"pairs":[[[x,y,z],[x,y,z]]…],"us":[[U11,U22,U33,U23,U13,U12]…]}
  Answer: model (Float instance of the mirrored code) and spec (metric-tensor reference in Float; the
  positive-definiteness decisions exactly in Rat on the decimal file values).
-/
namespace Shelx.Drv.C12
open Shelx.C12

/-- `math.radians`: `x * (pi / 180)` -/
def radians (x : Float) : Float := x * (3.141592653589793 / 180.0)

def cellOf (l : List Float) : Except String (Cell Float) :=
  match l with
  | [a, b, c, al, be, ga] =>
    .ok { a := a, b := b, c := c,
          ca := Float.cos (radians al), cb := Float.cos (radians be), cg := Float.cos (radians ga),
          sa := Float.sin (radians al), sb := Float.sin (radians be), sg := Float.sin (radians ga) }
  | _ => err "C12: cell needs six numbers"

def v3Of (l : List Float) : Except String (V3 Float) :=
  match l with
  | [x, y, z] => .ok ⟨x, y, z⟩
  | _ => err "C12: point needs three numbers"

def u6Of {K} (l : List K) : Except String (U6 K) :=
  match l with
  | [a, b, c, d, e, f] => .ok ⟨a, b, c, d, e, f⟩
  | _ => err "C12: U needs six numbers"

def ofV3 (v : V3 Float) : Json := ofFloats [v.x, v.y, v.z]
def ofM3 (m : M3 Float) : Json := Json.arr #[ofV3 m.r0, ofV3 m.r1, ofV3 m.r2]
def ofOptV3 : Option (V3 Float) → Json
  | none => Json.null
  | some v => ofV3 v

def fsqrt : Float → Float := Float.sqrt
def fzero (x : Float) : Bool := x == 0.0

def ratAbs (x : Rat) : Rat := if x < 0 then -x else x

def handle (j : Json) : Except String Json := do
  let op ← strField j "op"
  match op with
  | "cell" =>
    let cl ← field j "cell" >>= floats
    let c ← cellOf cl
    let pts ← (← arrField j "pts").mapM (fun p => floats p >>= v3Of)
    let pairs ← (← arrField j "pairs").mapM (fun p => do
      match ← arr p with
      | [p1, p2] => return (← floats p1 >>= v3Of, ← floats p2 >>= v3Of)
      | _ => err "C12: pair needs two points")
    let usF ← (← arrField j "us").mapM (fun p => floats p >>= u6Of)
    let usQ ← (← arrField j "us").mapM (fun p => rats p >>= u6Of)
    -- model ---------------------------------------------------------------------------------------
    let m := orthoM fsqrt c
    let mi := inversed m
    let n := nMat fsqrt c
    let rc := recip fsqrt c
    -- spec ----------------------------------------------------------------------------------------
    let g := metric c
    let r := cholUpper fsqrt g
    let rsq := recipSqSpec g
    let nS : V3 Float := ⟨fsqrt rsq.x, fsqrt rsq.y, fsqrt rsq.z⟩
    let ptJ := pts.map fun p =>
      let xc := mulVec m p
      let xm := fracToCartMisc fsqrt c p
      Json.mkObj [("cart", ofV3 xc), ("cart_misc", ofV3 xm),
                  ("back_inv", ofV3 (mulVec mi xc)), ("back_misc", ofV3 (cartToFracMisc fsqrt c xm)),
                  ("spec_cart", ofV3 (mulVec r p)), ("spec_len", ofFloat (fsqrt (quad g p)))]
    let pairJ := pairs.map fun (p1, p2) =>
      Json.mkObj [("dist", ofFloat (atomicDistance fsqrt c p1 p2)),
                  ("spec", ofFloat (fsqrt (quad g (vsub p1 p2))))]
    let uJ := (usF.zip usQ).map fun (u, q) =>
      let uc := ucart m n (ucif u)
      let ev := eigenvals fsqrt fzero 100 uc
      let npdOld : Json := match ev with
        | none => Json.str "ZeroDivisionError"
        | some e => Json.bool (e.x <= 0.0 || e.y <= 0.0 || e.z <= 0.0)
      let mn := npdMinors uc
      let npd : Bool := !((principalMinors uc).all fun x => x > 0.0)
      let scale := (ratAbs q.u11 + ratAbs q.u22 + ratAbs q.u33) / 3
      let delta : Rat := scale / 1000000000
      let d := minors q
      Json.mkObj [("ucart", ofM3 uc), ("ueq_aniso", ofFloat (ueqAniso fsqrt c u)),
                  ("ueq_old", ofFloat (ueqAnisoOld fsqrt c u)), ("ucart_old", ofM3 (ucartOld m n (ucif u))),
                  ("iso_branch", Json.bool (isoBranch q)), ("iso_branch_old", Json.bool (isoBranchOld q)),
                  ("eig_old", ofOptV3 ev), ("npd_old", npdOld), ("npd", Json.bool npd), ("npd_minors", ofV3 mn),
                  ("spec_ueq", ofFloat (ueqSpec g nS u)),
                  ("spec_pd", Json.bool (sylvesterPD q)),
                  ("spec_pd_lo", Json.bool (sylvesterPD (shiftU q (-delta)))),
                  ("spec_pd_hi", Json.bool (sylvesterPD (shiftU q delta))),
                  ("minors", ofRats [d.x, d.y, d.z])]
    return Json.mkObj [
      ("V", ofFloat (volume fsqrt c)), ("M", ofM3 m), ("Minv", ofM3 mi), ("det", ofFloat (det m)),
      ("metric_code", ofM3 (metricCode fsqrt c)), ("recip", ofV3 rc),
      ("spec_G", ofM3 g), ("spec_V", ofFloat (fsqrt (gramDet g))), ("spec_M", ofM3 r), ("spec_recip", ofV3 nS),
      ("pts", Json.arr ptJ.toArray), ("pairs", Json.arr pairJ.toArray), ("us", Json.arr uJ.toArray)]
  | "hist" =>
    -- one atom of a Shelxfile object under a history of edits:
    -- {"cell", "xyz", "u", "new": bool, "edits": [{"op": "uvals"|"set_uvals"|"item"|"frac"|"cell"|"ask", …}]}
    let cl ← field j "cell" >>= floats
    let c ← cellOf cl
    let p ← field j "xyz" >>= floats >>= v3Of
    let u ← field j "u" >>= floats >>= u6Of
    let isNew ← boolField j "new"
    let steps ← (← arrField j "edits").mapM (fun e => do
      match ← strField e "op" with
      | "uvals" => return Step.edit (FEdit.atomEdit (Edit.assignUvals (← field e "u" >>= floats >>= u6Of)))
      | "set_uvals" => return Step.edit (FEdit.atomEdit (Edit.setUvals (← field e "u" >>= floats >>= u6Of)))
      | "item" => return Step.edit (FEdit.atomEdit (Edit.setItem (← natField e "k") (← floatField e "v")))
      | "frac" => return Step.edit (FEdit.atomEdit (Edit.setFrac (← field e "xyz" >>= floats >>= v3Of)))
      | "cell" => return Step.edit (FEdit.setCell (← field e "cell" >>= floats >>= cellOf))
      | "ask" => return Step.askInverse            -- cell.o.inversed / shx.orthogonal_matrix.inversed evaluated here
      | o => err s!"C12: unknown edit {o}")
    let es := stepEdits steps
    let m := orthoM fsqrt c
    let a0 := if isNew then newAtom fsqrt c p u else parseAtom m p u
    let sm := stepHistory fsqrt (readFresh fsqrt c a0) steps
    let s := sm.file
    let so := fileHistoryOld fsqrt (readFile fsqrt c a0) es
    let ofU (u : U6 Float) : Json := ofFloats [u.u11, u.u22, u.u33, u.u23, u.u13, u.u12]
    return Json.mkObj [("frac", ofV3 s.atom.frac), ("cart", ofV3 s.atom.cart), ("uvals", ofU s.atom.uvals),
                       ("cart_shx", ofV3 (mulVec s.om s.atom.frac)),
                       ("back_inv", ofV3 (mulVec (answerInverse fsqrt sm) s.atom.cart)),
                       ("ueq_aniso", ofFloat (ueqAniso fsqrt s.cell s.atom.uvals)),
                       ("cart_old", ofV3 so.atom.cart), ("cart_shx_old", ofV3 (mulVec so.om so.atom.frac)),
                       ("spec_frac", ofV3 (specFrac p (atomEdits es))), ("spec_uvals", ofU (specUvals u (atomEdits es))),
                       ("spec_V", ofFloat (fsqrt (gramDet (metric (specCell c es)))))]
  | "body" =>
    -- the atoms of a file body with other instructions between them:
    -- {"cell", "lines": [{"k": "move", "params": [...]} | {"k": "other"} | {"k": "atom", "xyz", "u"}]}
    let c ← field j "cell" >>= floats >>= cellOf
    let ls ← (← arrField j "lines").mapM (fun e => do
      match ← strField e "k" with
      | "move" => return BodyLine.move (← field e "params" >>= floats)
      | "other" => return BodyLine.other
      | "atom" => return BodyLine.atom (← field e "xyz" >>= floats >>= v3Of) (← field e "u" >>= floats >>= u6Of)
      | o => err s!"C12: unknown body line {o}")
    let st := parseBody (orthoM fsqrt c) ls
    let ch := cholUpper fsqrt (metric c)
    return Json.mkObj [("atoms", Json.arr (st.atoms.map (fun a => Json.mkObj [("frac", ofV3 a.frac), ("cart", ofV3 a.cart)])).toArray),
                       ("spec", Json.arr ((specBody ls).map (fun (p, _) =>
                          Json.mkObj [("frac", ofV3 p), ("cart", ofV3 (mulVec ch p))])).toArray)]
  | _ => err s!"C12: unknown op {op}"

end Shelx.Drv.C12

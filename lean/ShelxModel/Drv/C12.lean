import ShelxModel.JsonUtil
import ShelxModel.C12
open Lean Shelx.J

namespace Shelx.Drv.C12

def handle (j : Json) : Except String Json := do
  let op ← strField j "op"
  err s!"C12: unknown op {op}"

end Shelx.Drv.C12

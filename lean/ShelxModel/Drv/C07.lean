import ShelxModel.JsonUtil
import ShelxModel.C07
open Lean Shelx.J

namespace Shelx.Drv.C07
open Shelx.C07

/-- text of a line printed by the skeleton printer (no input line contains a NUL) -/
def printedMark : String := "\x00"

def P : Printer String :=
  let sk := skeletonPrinter kwString
  { card := fun l => (sk.card l).map fun x => { x with text := printedMark },
    table := fun t vs => (sk.table t vs).map fun g => g.map fun x => { x with text := printedMark } }

def clsName : Cls → String
  | .raw => "raw"
  | .obj => "obj"
  | .atom => "atom"
  | .tab .sfac => "sfac"
  | .tab .fvar => "fvar"

/-- one physical line of the written file as the model knows it -/
def outLine (l : PLine String) : Json :=
  if l.text = printedMark then
    Json.mkObj [("kw", Json.str l.key.1), ("tok", Json.str l.key.2), ("cls", Json.str (clsName l.cls)), ("vals", ofStrs l.vals)]
  else Json.mkObj [("raw", Json.str l.text)]

def optStr : Option String → Json
  | none => Json.null
  | some s => Json.str s

def keysJson (ks : List (String × Option String)) : Json :=
  Json.arr (ks.map fun k => Json.arr #[Json.str k.1, optStr k.2]).toArray

def keyOfJson (j : Json) : Except String (String × Option String) := do
  let a ← arr j
  match a with
  | [k, .null] => return (← str k, none)
  | [k, t] => return (← str k, some (← str t))
  | _ => err "key: expected [kw, tok]"

/-- what was parsed in one read: atoms, keywords of the instruction objects, and the written file -/
def readStats (items : List (Item String)) : Nat × List String :=
  (items.foldl (fun n it => match it with | .card l => if l.cls = .atom then n + 1 else n | _ => n) 0,
   items.filterMap fun it => match it with | .card l => if l.cls = .obj then some l.key.1 else none | _ => none)

def cycles (splice : List (PLine String) → List (PLine String)) : Nat → List (PLine String) → List Json
  | 0, _ => []
  | n + 1, f =>
    let items := parse (splice f)
    let out := write P items
    let st := readStats items
    Json.mkObj [("atoms", ofNat st.1), ("objs", ofStrs st.2), ("heads", ofNat (logicalHeads false out).length),
                ("lines", ofNat out.length)] :: cycles splice n out

def handle (j : Json) : Except String Json := do
  let op ← strField j "op"
  match op with
  | "cycle" =>
    let lines ← field j "lines" >>= strs
    let n ← natField j "n"
    let fsJ ← field j "fs"
    let names ← match fsJ with
      | .obj kvs => pure (kvs.toList.map (·.1))
      | _ => err "fs: expected object"
    let files ← names.mapM fun nm => do
      let ls ← field fsJ nm >>= strs
      pure (nm, lexFile ls)
    let fs : FS String := fun nm => (files.find? (·.1 = nm)).map (·.2)
    let f := lexFile lines
    let k := files.length + 1
    let spl := spliceNew fs k f
    let dangling := ((spl.foldl (fun s l => (step s l).2) ({} : St)).mode != .top)
    let dup := !(decide (includeNames spl).Nodup)
    let out := cycle P spl
    return Json.mkObj [
      ("out", Json.arr (out.map outLine).toArray),
      ("out2_same", Json.bool (cycle P (spliceNew fs k out) == out)),
      ("keys_in", keysJson (keySeq kwString f)),
      ("spec", keysJson (coalesce kwString (keySeq kwString f))),
      ("model_keys", keysJson (coalesce kwString (keySeq kwString out))),
      ("cycles", Json.arr (cycles (spliceNew fs k) n f).toArray),
      ("cycles_old", Json.arr (cycles (spliceOld fs) n f).toArray),
      ("tables", Json.mkObj [("sfac", ofStrs (tableVals .sfac (parse spl))), ("fvar", ofStrs (tableVals .fvar (parse spl)))]),
      ("dangling", Json.bool dangling), ("dup", Json.bool dup)]
  | "coalesce" =>
    -- the specification on key sequences produced by the harness's own lexer
    let a ← (← arrField j "a").mapM keyOfJson
    let b ← (← arrField j "b").mapM keyOfJson
    return Json.mkObj [("a", keysJson (coalesce kwString a)), ("b", keysJson (coalesce kwString b))]
  | "fmt" =>
    -- fixed-precision printing: digits of x, and digits of the value read back
    let x := mkRat (← intField j "num") (← natField j "den")
    let nd ← natField j "nd"
    let k := fmtFixed nd x
    return Json.mkObj [("digits", ofInt k), ("again", ofInt (fmtFixed nd (readFixed nd k)))]
  | _ => err s!"C07: unknown op {op}"

end Shelx.Drv.C07

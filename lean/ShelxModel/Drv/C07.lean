import ShelxModel.JsonUtil
import ShelxModel.C07
open Lean Shelx.J

namespace Shelx.Drv.C07

def handle (j : Json) : Except String Json := do
  let op ← strField j "op"
  err s!"C07: unknown op {op}"

end Shelx.Drv.C07

import ShelxModel.JsonUtil
import ShelxModel.C04
open Lean Shelx.J

namespace Shelx.Drv.C04

def handle (j : Json) : Except String Json := do
  let op ← strField j "op"
  err s!"C04: unknown op {op}"

end Shelx.Drv.C04

import ShelxModel.JsonUtil
import ShelxModel.C04
open Lean Shelx.J

namespace Shelx.Drv.C04
open Shelx.C04

def srcOf (j : Json) : Except String (Src String) := do
  let k ← strField j "k"
  let kind ← match k with
    | "sfac" => pure SrcKind.sfac
    | "fvar" => pure SrcKind.fvar
    | "other" => pure SrcKind.other
    | _ => err s!"C04: unknown source kind {k}"
  return { kind := kind, nphys := ← natField j "n", toks := ← field j "t" >>= strs }

def opOf (j : Json) : Except String (Op String) := do
  let k ← strField j "k"
  match k with
  | "addLine" => return .addLine (← natField j "i") (← field j "t" >>= strs)
  | "insertAfter" => return .insertAfter (← natField j "o") (← field j "t" >>= strs)
  | "delete" => return .delete (← natField j "o")
  | "replace" => return .replace (← natField j "o") (← field j "t" >>= strs)
  | "setObj" => return .setObj (← natField j "o") (← field j "t" >>= strs)
  | "insertObjAfter" => return .insertObjAfter (← natField j "u") (← natField j "o") (← field j "t" >>= strs)
  | _ => err s!"C04: unknown op kind {k}"

def aopOf (j : Json) : Except String (AOp String) := do
  let k ← strField j "k"
  match k with
  | "insertAt" => return .insertAt (← natField j "p") (← field j "t" >>= strs)
  | "insertAfter" => return .insertAfter (← natField j "o") (← field j "t" >>= strs)
  | "delete" => return .delete (← natField j "o")
  | "replace" => return .replace (← natField j "o") (← field j "t" >>= strs)
  | "setObj" => return .setObj (← natField j "o") (← field j "t" >>= strs)
  | "insertObjAfter" => return .insertObjAfter (← natField j "u") (← natField j "o") (← field j "t" >>= strs)
  | _ => err s!"C04: unknown abstract op kind {k}"

def lineJ (l : Line String) : Json :=
  Json.arr #[(match l.key with | none => Json.null | some k => ofNat k), ofStrs l.toks]

def linesJ : Option (List (Line String)) → Json
  | none => Json.null
  | some ls => Json.arr (ls.map lineJ).toArray

/-- one harness step = the list of model operations one API call stands for -/
structure StepReq where
  ops : List (Op String)
  aops : List (AOp String)

def stepOf (j : Json) : Except String StepReq := do
  return { ops := ← (← arrField j "ops").mapM opOf, aops := ← (← arrField j "aops").mapM aopOf }

def handle (j : Json) : Except String Json := do
  let op ← strField j "op"
  match op with
  | "hist" =>
    let src ← (← arrField j "src").mapM srcOf
    let steps ← (← arrField j "steps").mapM stepOf
    let s0 := load src
    let a0 := loadAbs src
    let mut m : Option (St String) := some s0          -- the model (repaired scheme)
    let mut old : Option (St String) := some a0        -- the scheme with absolute indices
    let mut sp : Option (List (Line String)) := some (written s0)   -- the specification
    let mut out : Array Json := #[]
    for st in steps do
      -- does the harness' abstract edit agree with the one the model derives (`absTrace`)?
      let agree := match m with
        | none => true
        | some s => decide (absTrace s st.ops = st.aops) || (run s st.ops).isNone
      m := m.bind fun s => run s st.ops
      old := old.bind fun s => run s st.ops
      sp := sp.bind fun ls => absRun ls st.aops
      out := out.push (Json.mkObj [("model", linesJ (m.map written)), ("spec", linesJ sp),
                                   ("old", linesJ (old.map written)), ("absof", Json.bool agree)])
    return Json.mkObj [("init", linesJ (some (written s0))), ("init_old", linesJ (some (written a0))),
                       ("steps", Json.arr out)]
  | _ => err s!"C04: unknown op {op}"

end Shelx.Drv.C04

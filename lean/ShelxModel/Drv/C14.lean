import ShelxModel.JsonUtil
import ShelxModel.C14
open Lean Shelx.J

namespace Shelx.Drv.C14

def handle (j : Json) : Except String Json := do
  let op ← strField j "op"
  err s!"C14: unknown op {op}"

end Shelx.Drv.C14

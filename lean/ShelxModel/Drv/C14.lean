import ShelxModel.JsonUtil
import ShelxModel.C14
import ShelxModel.Extracted.C14Consts
open Lean Shelx.J

namespace Shelx.Drv.C14
open Shelx.C14

/-- `SDM.vector_length` in doubles, operation by operation -/
def vlenF (asq bsq csq aga bbe cal : Float) (x y z : Float) : Float :=
  let A := 2.0 * (x * y * aga + x * z * bbe + y * z * cal)
  Float.sqrt (x * x * asq + y * y * bsq + z * z * csq + A)

def kernelF (j : Json) : Except String (Kernel Float) := do
  let asq ← floatField j "asq"
  let bsq ← floatField j "bsq"
  let csq ← floatField j "csq"
  let aga ← floatField j "aga"
  let bbe ← floatField j "bbe"
  let cal ← floatField j "cal"
  return { ofInt := Float.ofInt, floor := fun x => x.floor.toInt64.toInt, vlen := vlenF asq bsq csq aga bbe cal,
           half := 0.5, dupLim := Consts.dupLimF, window := Consts.windowF, eps := Consts.epsF, hh := Consts.hhF,
           molLow := Consts.molLow, molLimit := Consts.molLimit }

def v3F (j : Json) : Except String (V3 Float) := do
  match ← floats j with
  | [x, y, z] => return ⟨x, y, z⟩
  | _ => err "expected 3 numbers"

def v3I (j : Json) : Except String (V3 Int) := do
  match ← ints j with
  | [x, y, z] => return ⟨x, y, z⟩
  | _ => err "expected 3 ints"

def opOf (j : Json) : Except String (Op Float) := do
  match ← arrField j "R" with
  | [a, b, c] => return { r1 := ← v3I a, r2 := ← v3I b, r3 := ← v3I c, t := ← field j "t" >>= v3F }
  | _ => err "expected 3 rows"

def atomOf (j : Json) : Except String (Atom Float) := do
  return { src := ← natField j "src", sfac := ← natField j "sfac", pos := ← field j "pos" >>= v3F, part := ← intField j "part",
           sof := ← floatField j "sof", u := ← field j "u" >>= floats, qpeak := ← boolField j "q", mol := ← intField j "mol",
           an := ← natField j "an", isH := ← boolField j "h",
           symmgen := ← (match fieldOpt j "symmgen" with | some b => bool b | none => pure false) }

def needOf (j : Json) : Except String Need := do
  match ← ints j with
  | [n, h, k, l, g] => return ⟨n, h, k, l, g⟩
  | _ => err "expected 5 ints"

def sdmOf (atoms : List (Atom Float)) (j : Json) : Except String (SdmItem Float) := do
  match ← arr j with
  | [a1, a2, d, c] =>
    let i ← nat a1
    let k ← nat a2
    match atoms[i]?, atoms[k]? with
    | some x, some y => return { atom1 := x, atom2 := y, dist := ← float d, covalent := ← bool c }
    | _, _ => err "sdm item: atom index out of range"
  | _ => err "expected [a1, a2, dist, covalent]"

def atomJson (a : Atom Float) : Json :=
  Json.mkObj [("src", ofNat a.src), ("sfac", ofNat a.sfac), ("pos", ofFloats [a.pos.x, a.pos.y, a.pos.z]), ("part", ofInt a.part),
              ("sof", ofFloat a.sof), ("u", ofFloats a.u), ("q", Json.bool a.qpeak), ("symmgen", Json.bool a.symmgen)]

def needJson (e : Need) : Json := ofInts [e.n, e.h, e.k, e.l, e.group]

instance : BEq Float := ⟨fun a b => a == b⟩

def handle (j : Json) : Except String Json := do
  let op ← strField j "op"
  match op with
  | "grow" =>
    let ker ← field j "kern" >>= kernelF
    let ops ← (← arrField j "ops").mapM opOf
    let atoms ← (← arrField j "atoms").mapM atomOf
    let need ← (← arrField j "need").mapM needOf
    let sdm ← (← arrField j "sdm").mapM (sdmOf atoms)
    let withQ ← boolField j "with_q"
    let res := packer ker ops atoms need withQ
    let collected := collectNeeded ker ops sdm
    let nOrig := (shownOriginals withQ atoms).length
    let spec := match res with
      | none => Json.mkObj []
      | some r => Json.mkObj [("prefix", Json.bool (checkPrefix withQ atoms r)),
                              ("images", Json.bool (checkImages ker ops need withQ atoms r)),
                              ("no_coincide", Json.bool (checkNoCoincide ker nOrig r))]
    return Json.mkObj [("packer", match res with | none => Json.null | some r => Json.arr (r.map atomJson).toArray),
                       ("need", Json.arr (collected.map needJson).toArray),
                       ("spec", spec)]
  | _ => err s!"C14: unknown op {op}"

end Shelx.Drv.C14

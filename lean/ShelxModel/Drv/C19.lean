import ShelxModel.JsonUtil
import ShelxModel.C19
open Lean Shelx.J

namespace Shelx.Drv.C19

def handle (j : Json) : Except String Json := do
  let op ← strField j "op"
  err s!"C19: unknown op {op}"

end Shelx.Drv.C19

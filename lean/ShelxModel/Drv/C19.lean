import ShelxModel.JsonUtil
import ShelxModel.C19
open Lean Shelx.J

/-
  C19 driver.  One request = one history:

    {"p":"C19","op":"seq","fix":{"stat":b,"lst":b,"stale":b,"acta":b,"dow":b?}?,          -- default: all repairs present
     "table":[{"label":s,"size":n,"doc":DOC,"dow":b}],                          -- what the parser says about raw contents
     "init":STATE,
     "steps":[{"cycles":n|null,"backup":b,"exit":n,"res":{"wrote":s}|"removed"|"untouched","lst":"good|missing|raises|quiet",
               "obs":{"st":STATE,"raised":b}}                                   -- what the implementation did
              | {"op":"load","write":s?,"obs":{"st":STATE}}]}                   -- reload()/read_file() between calls

  File contents are symbolic (`Sym`): `raw label` — bytes the harness knows by hash (initial .res, an old .shx-bak, what
  the stand-in wrote); `written d` — what `write_shelx_file` produces for document `d` (the harness parses the real .ins
  back to a document to compare); `garbled d` — legacy only (`fix.dow = false`): shifted delete_on_write bookkeeping.

  Answer: the model's own trace (from `init`, each call from the model's previous state), `specStep` clause by clause
  evaluated on the OBSERVED states (pre = previous observation), the hypotheses of the theorems at each step, and
  `specStep` on the model's trace (must be true inside the hypotheses: theorem `history_meets_spec`).
-/
namespace Shelx.Drv.C19
open Shelx.C19

inductive Sym
  | raw (label : String)
  | written (d : Doc String)
  | garbled (d : Doc String)
  deriving DecidableEq

structure Entry where
  label : String
  size : Nat
  doc : Doc String
  dow : Bool

def codec (t : List Entry) : Codec Sym String where
  text := .written
  garbled := .garbled
  parse
    | .raw l => match t.find? (·.label == l) with
      | some e => (e.doc, e.dow)
      | none => (⟨none, -1, "unknown:" ++ l⟩, false)
    | .written d => (d, false)
    | .garbled d => (⟨none, -1, "garbled:" ++ d.rest⟩, false)
  size
    | .raw l => match t.find? (·.label == l) with
      | some e => e.size
      | none => 0
    | _ => 1000

def docOf (j : Json) : Except String (Doc String) := do
  let acta ← match fieldOpt j "acta" with
    | none => pure none
    | some a => do pure (some (⟨← natField a "text", ← intField a "off"⟩ : Acta))
  return ⟨acta, ← intField j "cycles", ← strField j "rest"⟩

def symOf (j : Json) : Except String Sym := do
  match fieldOpt j "raw", fieldOpt j "written", fieldOpt j "garbled" with
  | some l, _, _ => return .raw (← str l)
  | _, some d, _ => return .written (← docOf d)
  | _, _, some d => return .garbled (← docOf d)
  | _, _, _ => err s!"C19: bad content {j.compress}"

def optSym (j : Json) (k : String) : Except String (Option Sym) :=
  match fieldOpt j k with
  | none => pure none
  | some v => do pure (some (← symOf v))

def stOf (j : Json) : Except String (St Sym String) := do
  let f ← field j "fs"
  let m ← field j "mem"
  let saves ← (← arrField f "saves").mapM symOf
  return ⟨⟨← optSym f "res", ← optSym f "ins", ← optSym f "bak", ← boolField f "hkl", saves⟩,
          ⟨← field m "doc" >>= docOf, ← boolField m "dow", ← intField m "skew"⟩⟩

def callOf (j : Json) : Except String (Call Sym) := do
  let cycles ← match fieldOpt j "cycles" with
    | none => pure none
    | some v => do pure (some (← int v))
  let res ← field j "res"
  let ro : ResOut Sym ← match res with
    | .str "removed" => pure .removed
    | .str "untouched" => pure .untouched
    | v => do pure (.wrote (.raw (← strField v "wrote")))
  let lst ← match ← strField j "lst" with
    | "good" => pure LstOut.good
    | "missing" => pure LstOut.missing
    | "raises" => pure LstOut.raises
    | "quiet" => pure LstOut.quiet
    | s => err s!"C19: bad lst {s}"
  return ⟨cycles, ← boolField j "backup", ⟨← intField j "exit", ro, lst⟩⟩

def fixOf (j : Json) : Except String Fix :=
  match fieldOpt j "fix" with
  | none => pure Fix.all
  | some f => do
    let dow ← match fieldOpt f "dow" with
      | none => pure true
      | some v => bool v
    pure ⟨← boolField f "stat", ← boolField f "lst", ← boolField f "stale", ← boolField f "acta", dow⟩

def ofDoc (d : Doc String) : Json :=
  Json.mkObj [("acta", match d.acta with
                 | none => Json.null
                 | some a => Json.mkObj [("text", ofNat a.text), ("off", ofInt a.off)]),
              ("cycles", ofInt d.cycles), ("rest", Json.str d.rest)]

def ofSym : Sym → Json
  | .raw l => Json.mkObj [("raw", Json.str l)]
  | .written d => Json.mkObj [("written", ofDoc d)]
  | .garbled d => Json.mkObj [("garbled", ofDoc d)]

def ofOptSym : Option Sym → Json
  | none => Json.null
  | some s => ofSym s

def ofSt (st : St Sym String) : Json :=
  Json.mkObj [("fs", Json.mkObj [("res", ofOptSym st.fs.res), ("ins", ofOptSym st.fs.ins), ("bak", ofOptSym st.fs.bak),
                                ("hkl", Json.bool st.fs.hkl), ("saves", Json.arr (st.fs.saves.map ofSym).toArray)]),
              ("mem", Json.mkObj [("doc", ofDoc st.mem.doc), ("dow", Json.bool st.mem.dow), ("skew", ofInt st.mem.skew)])]

def excName : Option PyErr → Json
  | none => Json.null
  | some .SystemExit => Json.str "SystemExit"
  | some .FileNotFoundError => Json.str "FileNotFoundError"
  | some .IndexError => Json.str "IndexError"

def handle (j : Json) : Except String Json := do
  let op ← strField j "op"
  match op with
  | "seq" =>
    let fix ← fixOf j
    let table ← (← arrField j "table").mapM fun e => do
      return (⟨← strField e "label", ← natField e "size", ← field e "doc" >>= docOf, ← boolField e "dow"⟩ : Entry)
    let c := codec table
    let init ← field j "init" >>= stOf
    let steps ← arrField j "steps"
    let mut mst := init          -- model state
    let mut ost := init          -- observed state
    let mut model : Array Json := #[]
    let mut spec : Array Json := #[]
    for s in steps do
      if let some (.str "load") := fieldOpt s "op" then
        -- the user re-reads the model between two calls (`reload()` / `read_file()`, optionally of a rewritten file)
        let w ← match fieldOpt s "write" with
          | none => pure none
          | some l => do pure (some (Sym.raw (← str l)))
        match load c mst w with
        | some st' =>
          mst := st'
          model := model.push (Json.mkObj [("st", ofSt mst), ("exc", Json.null), ("op", Json.str "load")])
        | none =>
          model := model.push (Json.mkObj [("st", ofSt mst), ("exc", Json.str "FileNotFoundError"), ("op", Json.str "load")])
        spec := spec.push Json.null
        if let some o := fieldOpt s "obs" then
          ost ← field o "st" >>= stOf
        continue
      let call ← callOf s
      let r := refine fix c mst call
      let hyp := Json.mkObj [("plausible", Json.bool (plausible c mst.fs.res call.out))]
      model := model.push (Json.mkObj [("st", ofSt r.st), ("exc", excName r.exc), ("hyp", hyp),
                                       ("meets_spec", Json.bool (specStep c mst call r))])
      mst := r.st
      match fieldOpt s "obs" with
      | none => spec := spec.push Json.null
      | some o =>
        let post ← field o "st" >>= stOf
        let raised ← boolField o "raised"
        let obs : Result Sym String := ⟨post, if raised then some .SystemExit else none⟩
        spec := spec.push (Json.mkObj [
          ("ins", Json.bool (specIns c ost call obs)), ("res", Json.bool (specRes c ost call obs)),
          ("bak", Json.bool (specBak c ost call obs)), ("mem", Json.bool (specMem c ost call obs)),
          ("started", Json.bool (started ost call)), ("failed", Json.bool (failed c ost.fs.res call.out)),
          ("plausible", Json.bool (plausible c ost.fs.res call.out)),
          ("want_ins", ofDoc (insDoc ost call)),
          ("want_doc", match left ost.fs.res call.out.res with
                       | some b => ofDoc (reloaded c ost b)
                       | none => Json.null)])
        ost := post
    return Json.mkObj [("model", Json.arr model), ("spec", Json.arr spec)]
  | _ => err s!"C19: unknown op {op}"

end Shelx.Drv.C19

import ShelxModel.JsonUtil
import ShelxModel.C19
open Lean Shelx.J

/-
  C19 driver.  One request = one history:

    {"p":"C19","op":"seq","fix":{"stat":b,"lst":b,"stale":b,"acta":b,"dow":b?,"con":b?}?, -- default: all repairs present
     "table":[{"label":s,"size":n,"doc":DOC,"dow":b,"lay":LAY?}],               -- what the parser says about raw contents
     "init":STATE,
     "steps":[{"cycles":n|null,"backup":b,"exit":n,"res":{"wrote":s}|"removed"|"untouched","lst":"good|missing|raises|quiet",
               "con":"plain|raises|nohkl"?,
               "obs":{"st":STATE,"raised":b}}                                   -- what the implementation did
              | {"op":"load","write":s?,"obs":{"st":STATE}}]}                   -- reload()/read_file() between calls

  LAY (optional, in a table entry and in STATE.mem): the line list by keyword — "@UNIT" the UNIT card, "@ACTA:<id>" the
  ACTA card, "" an entry that prints as nothing, anything else the keyword of another line. With it the answer carries
  the list-level model (`linesAfter`) and `specLines` on the observed lists (compared without the empty entries).

  File contents are symbolic (`Sym`): `raw label` — bytes the harness knows by hash (initial .res, an old .shx-bak, what
  the stand-in wrote); `written d` — what `write_shelx_file` produces for document `d` (the harness parses the real .ins
  back to a document to compare); `garbled d` — legacy only (`fix.dow = false`): shifted delete_on_write bookkeeping.

  Answer: the model's own trace (from `init`, each call from the model's previous state), `specStep` clause by clause
  evaluated on the OBSERVED states (pre = previous observation), the hypotheses of the theorems at each step, and
  `specStep` on the model's trace (must be true inside the hypotheses: theorem `history_meets_spec`).
-/
namespace Shelx.Drv.C19
open Shelx.C19

inductive Sym
  | raw (label : String)
  | written (d : Doc String)
  | garbled (d : Doc String)
  deriving DecidableEq

structure Entry where
  label : String
  size : Nat
  doc : Doc String
  dow : Bool
  lay : Option (List (Line String))

def lineOf (s : String) : Line String :=
  if s == "@UNIT" then .unit
  else if s.startsWith "@ACTA:" then .acta (s.drop 6).toNat!
  else if s == "" then .gap
  else .other s

def ofLine : Line String → Json
  | .unit => Json.str "@UNIT"
  | .acta n => Json.str s!"@ACTA:{n}"
  | .gap => Json.str ""
  | .other s => Json.str s

def layOpt (j : Json) : Except String (Option (List (Line String))) :=
  match fieldOpt j "lay" with
  | none => pure none
  | some v => do
    let a ← arr v
    let ss ← a.mapM str
    pure (some (ss.map lineOf))

def ofLay : Option (List (Line String)) → Json
  | none => Json.null
  | some l => Json.arr (l.map ofLine).toArray

/-- the line list the parser builds from a content (known for raw contents only) -/
def layOfSym (t : List Entry) : Option Sym → Option (List (Line String))
  | some (.raw l) => (t.find? (·.label == l)).bind (·.lay)
  | _ => none

def codec (t : List Entry) : Codec Sym String where
  text := .written
  garbled := .garbled
  parse
    | .raw l => match t.find? (·.label == l) with
      | some e => (e.doc, e.dow)
      | none => (⟨none, -1, "unknown:" ++ l⟩, false)
    | .written d => (d, false)
    | .garbled d => (⟨none, -1, "garbled:" ++ d.rest⟩, false)
  size
    | .raw l => match t.find? (·.label == l) with
      | some e => e.size
      | none => 0
    | _ => 1000

def docOf (j : Json) : Except String (Doc String) := do
  let acta ← match fieldOpt j "acta" with
    | none => pure none
    | some a => do pure (some (⟨← natField a "text", ← intField a "off"⟩ : Acta))
  return ⟨acta, ← intField j "cycles", ← strField j "rest"⟩

def symOf (j : Json) : Except String Sym := do
  match fieldOpt j "raw", fieldOpt j "written", fieldOpt j "garbled" with
  | some l, _, _ => return .raw (← str l)
  | _, some d, _ => return .written (← docOf d)
  | _, _, some d => return .garbled (← docOf d)
  | _, _, _ => err s!"C19: bad content {j.compress}"

def optSym (j : Json) (k : String) : Except String (Option Sym) :=
  match fieldOpt j k with
  | none => pure none
  | some v => do pure (some (← symOf v))

def stOf (j : Json) : Except String (St Sym String) := do
  let f ← field j "fs"
  let m ← field j "mem"
  let saves ← (← arrField f "saves").mapM symOf
  return ⟨⟨← optSym f "res", ← optSym f "ins", ← optSym f "bak", ← boolField f "hkl", saves⟩,
          ⟨← field m "doc" >>= docOf, ← boolField m "dow", ← intField m "skew"⟩⟩

def callOf (j : Json) : Except String (Call Sym) := do
  let cycles ← match fieldOpt j "cycles" with
    | none => pure none
    | some v => do pure (some (← int v))
  let res ← field j "res"
  let ro : ResOut Sym ← match res with
    | .str "removed" => pure .removed
    | .str "untouched" => pure .untouched
    | v => do pure (.wrote (.raw (← strField v "wrote")))
  let lst ← match ← strField j "lst" with
    | "good" => pure LstOut.good
    | "missing" => pure LstOut.missing
    | "raises" => pure LstOut.raises
    | "quiet" => pure LstOut.quiet
    | s => err s!"C19: bad lst {s}"
  let con ← match fieldOpt j "con" with
    | none => pure ConOut.plain
    | some (.str "plain") => pure ConOut.plain
    | some (.str "raises") => pure ConOut.raises
    | some (.str "nohkl") => pure ConOut.nohkl
    | some v => err s!"C19: bad con {v.compress}"
  return ⟨cycles, ← boolField j "backup", ⟨← intField j "exit", ro, lst, con⟩⟩

def fixOf (j : Json) : Except String Fix :=
  match fieldOpt j "fix" with
  | none => pure Fix.all
  | some f => do
    let dow ← match fieldOpt f "dow" with
      | none => pure true
      | some v => bool v
    let con ← match fieldOpt f "con" with
      | none => pure true
      | some v => bool v
    pure ⟨← boolField f "stat", ← boolField f "lst", ← boolField f "stale", ← boolField f "acta", dow, con⟩

def ofDoc (d : Doc String) : Json :=
  Json.mkObj [("acta", match d.acta with
                 | none => Json.null
                 | some a => Json.mkObj [("text", ofNat a.text), ("off", ofInt a.off)]),
              ("cycles", ofInt d.cycles), ("rest", Json.str d.rest)]

def ofSym : Sym → Json
  | .raw l => Json.mkObj [("raw", Json.str l)]
  | .written d => Json.mkObj [("written", ofDoc d)]
  | .garbled d => Json.mkObj [("garbled", ofDoc d)]

def ofOptSym : Option Sym → Json
  | none => Json.null
  | some s => ofSym s

def ofSt (st : St Sym String) : Json :=
  Json.mkObj [("fs", Json.mkObj [("res", ofOptSym st.fs.res), ("ins", ofOptSym st.fs.ins), ("bak", ofOptSym st.fs.bak),
                                ("hkl", Json.bool st.fs.hkl), ("saves", Json.arr (st.fs.saves.map ofSym).toArray)]),
              ("mem", Json.mkObj [("doc", ofDoc st.mem.doc), ("dow", Json.bool st.mem.dow), ("skew", ofInt st.mem.skew)])]

def excName : Option PyErr → Json
  | none => Json.null
  | some .SystemExit => Json.str "SystemExit"
  | some .FileNotFoundError => Json.str "FileNotFoundError"
  | some .IndexError => Json.str "IndexError"

def handle (j : Json) : Except String Json := do
  let op ← strField j "op"
  match op with
  | "seq" =>
    let fix ← fixOf j
    let table ← (← arrField j "table").mapM fun e => do
      return (⟨← strField e "label", ← natField e "size", ← field e "doc" >>= docOf, ← boolField e "dow", ← layOpt e⟩ : Entry)
    let c := codec table
    let init ← field j "init" >>= stOf
    let steps ← arrField j "steps"
    let mut mst := init          -- model state
    let mut ost := init          -- observed state
    let lay0 ← field j "init" >>= (field · "mem") >>= layOpt
    let mut mlay := lay0         -- model line list
    let mut olay := lay0         -- observed line list
    let mut model : Array Json := #[]
    let mut spec : Array Json := #[]
    for s in steps do
      if let some (.str "load") := fieldOpt s "op" then
        -- the user re-reads the model between two calls (`reload()` / `read_file()`, optionally of a rewritten file)
        let w ← match fieldOpt s "write" with
          | none => pure none
          | some l => do pure (some (Sym.raw (← str l)))
        match load c mst w with
        | some st' =>
          mst := st'
          mlay := layOfSym table mst.fs.res
          model := model.push (Json.mkObj [("st", ofSt mst), ("exc", Json.null), ("op", Json.str "load"), ("lay", ofLay mlay)])
        | none =>
          model := model.push (Json.mkObj [("st", ofSt mst), ("exc", Json.str "FileNotFoundError"), ("op", Json.str "load"),
                                           ("lay", ofLay mlay)])
        spec := spec.push Json.null
        if let some o := fieldOpt s "obs" then
          ost ← field o "st" >>= stOf
          olay ← field o "st" >>= (field · "mem") >>= layOpt
        continue
      let call ← callOf s
      let r := refine fix c mst call
      let hyp := Json.mkObj [("plausible", Json.bool (plausible c mst.fs.res call.out))]
      -- list level: the list `reload()` builds from the result after a good run, else the list ACTA was taken out of
      mlay := match mlay with
        | none => none
        | some l =>
          if r.exc.isNone then
            match layOfSym table r.st.fs.res with
            | some ln => linesAfter l (some ln)
            | none => none
          else linesAfter l none
      model := model.push (Json.mkObj [("st", ofSt r.st), ("exc", excName r.exc), ("hyp", hyp),
                                       ("meets_spec", Json.bool (specStep c mst call r)), ("lay", ofLay mlay)])
      mst := r.st
      match fieldOpt s "obs" with
      | none => spec := spec.push Json.null
      | some o =>
        let post ← field o "st" >>= stOf
        let raised ← boolField o "raised"
        let obs : Result Sym String := ⟨post, if raised then some .SystemExit else none⟩
        let postLay ← field o "st" >>= (field · "mem") >>= layOpt
        -- `specLines` on the observed lists, without the entries that print as nothing
        let ok := started ost call && !failed c ost.fs.res call.out
        let lines : Json := match olay, postLay with
          | some l, some l' =>
            let base := if ok then layOfSym table (left ost.fs.res call.out.res) else some (sansActa l)
            match base with
            | some b => Json.bool (specLines (actaText l) (squeeze b) (squeeze l'))
            | none => Json.null
          | _, _ => Json.null
        olay := postLay
        spec := spec.push (Json.mkObj [
          ("lines", lines),
          ("ins", Json.bool (specIns c ost call obs)), ("res", Json.bool (specRes c ost call obs)),
          ("bak", Json.bool (specBak c ost call obs)), ("mem", Json.bool (specMem c ost call obs)),
          ("started", Json.bool (started ost call)), ("failed", Json.bool (failed c ost.fs.res call.out)),
          ("plausible", Json.bool (plausible c ost.fs.res call.out)),
          ("want_ins", ofDoc (insDoc ost call)),
          ("want_doc", match left ost.fs.res call.out.res with
                       | some b => ofDoc (reloaded c ost b)
                       | none => Json.null)])
        ost := post
    return Json.mkObj [("model", Json.arr model), ("spec", Json.arr spec)]
  | _ => err s!"C19: unknown op {op}"

end Shelx.Drv.C19

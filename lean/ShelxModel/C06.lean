/- C06 — model and specification (stub; see HACKING.md) -/
namespace Shelx.C06

end Shelx.C06

/-
  C06 — written files are well-formed SHELXL: bounded line length, sound continuation.

  Model of (text as `List Char`; the only white space in the domain is the blank):
    misc.wrap_line                          (misc.py)   -> `wrapLine`
      textwrap.wrap(text, width, subsequent_indent=…, drop_whitespace=False, replace_whitespace=False,
                    break_on_hyphens=False)  (CPython)   -> `chunks`, `fill`, `lineStep`, `wrapLoop`, `pieces`
      `ln += ' =\n'`, `' '.join(newline)`                -> `joinPieces`
    Shelxfile.write_shelx_file per item     (shelx.py)  -> `writeItem`  (wrap every '\n'-separated part)
    FVARs.__str__  (groups of seven)        (cards.py)  -> `groups`, `fvarLines`, `renderFvars`
    SFACTable._extend_sfac_text             (cards.py)  -> `sfacLine`
  The constants (width, indent, suffix, separator, the length below which a line is returned unchanged, the FVAR
  group size and prefixes) are NOT written here: they come from `ShelxModel/Extracted/Wrap.lean`, which the
  translator regenerates from the source on every run (`Cfg.extracted`).

  Specification (code independent): `physLines` (split at '\n'), `flagged`/`body` (a physical line whose last
  non-blank character is '=' is continued on the next physical line), `unwrapLines` (the continuation-joining
  lexer), `tokens` (split at blanks), `nonblank`, `endsWithEq`, `startsBlank`, `shapeOk`.
-/
import ShelxModel.Extracted.Wrap

namespace Shelx.C06

/-! ### generic helpers (used by model and spec) -/

/-- split at every occurrence of `s` (like `str.split(s)`): never empty, keeps empty fields -/
def splitOnC (s : Char) : List Char → List (List Char)
  | [] => [[]]
  | c :: cs =>
    if c = s then [] :: splitOnC s cs
    else match splitOnC s cs with
      | h :: t => (c :: h) :: t
      | [] => [[c]]

/-- `sep.join(parts)` -/
def joinWith (sep : List Char) : List (List Char) → List Char
  | [] => []
  | [p] => p
  | p :: q :: ps => p ++ sep ++ joinWith sep (q :: ps)

/-! ### Model -/

structure Cfg where
  /-- `wrap_line` returns a line of at most this many characters unchanged -/
  shortMax : Nat
  /-- `textwrap.wrap(width=…)` -/
  width : Nat
  /-- `subsequent_indent` -/
  indent : List Char
  /-- appended to every piece but the last (`' =\n'`) -/
  suffix : List Char
  /-- the string the pieces are joined with (`' '`) -/
  sep : List Char
deriving Repr

/-- the constants the code has now -/
def Cfg.extracted : Cfg :=
  { shortMax := Extracted.Wrap.shortMax, width := Extracted.Wrap.width, indent := Extracted.Wrap.indent,
    suffix := Extracted.Wrap.suffix, sep := Extracted.Wrap.sep }

/-- `wordsep_simple_re.split(text)` without the empty strings: the maximal runs of blanks and of non-blanks -/
def chunks : List Char → List (List Char)
  | [] => []
  | c :: cs =>
    match chunks cs with
    | [] => [[c]]
    | [] :: rest => [c] :: rest
    | (d :: ds) :: rest => if (c == ' ') = (d == ' ') then (c :: d :: ds) :: rest else [c] :: (d :: ds) :: rest

/-- the inner `while chunks:` loop of `_wrap_chunks`: whole chunks are taken while `cur_len + len(chunk) <= width`.
    Returns the text taken and the chunks left. -/
def fill (width : Nat) : Nat → List (List Char) → List Char × List (List Char)
  | _, [] => ([], [])
  | cur, ch :: rest =>
    if cur + ch.length ≤ width then
      let r := fill width (cur + ch.length) rest
      (ch ++ r.1, r.2)
    else ([], ch :: rest)

/-- one iteration of the outer loop of `_wrap_chunks` (without the indent): fill, then `_handle_long_word`
    (`break_long_words=True`, `break_on_hyphens=False`) when the next chunk does not fit on any line -/
def lineStep (width : Nat) (chs : List (List Char)) : List Char × List (List Char) :=
  let r := fill width 0 chs
  match r.2 with
  | [] => (r.1, [])
  | ch :: rest =>
    if ch.length > width then
      let space := if width < 1 then 1 else width - r.1.length
      (r.1 ++ ch.take space, ch.drop space :: rest)
    else (r.1, ch :: rest)

/-- the outer loop; `w` is the width available on this line, `w'` on every later line. The fuel is the number of
    characters + 1 (every iteration consumes at least one character: `wrapLoop_flatten`). -/
def wrapLoop (w' : Nat) : Nat → Nat → List (List Char) → List (List Char)
  | 0, _, _ => []
  | _, _, [] => []
  | fuel + 1, w, ch :: chs =>
    let r := lineStep w (ch :: chs)
    r.1 :: wrapLoop w' fuel w' r.2

/-- the line contents chosen by `textwrap.wrap`, before the indent is put in front -/
def rawPieces (cfg : Cfg) (l : List Char) : List (List Char) :=
  wrapLoop (cfg.width - cfg.indent.length) (l.length + 1) cfg.width (chunks l)

def addIndent (indent : List Char) : List (List Char) → List (List Char)
  | [] => []
  | p :: ps => p :: ps.map (indent ++ ·)

/-- `textwrap.wrap(line, width, subsequent_indent=indent, drop_whitespace=False, …)` -/
def pieces (cfg : Cfg) (l : List Char) : List (List Char) := addIndent cfg.indent (rawPieces cfg l)

/-- `ln += ' =\n'` for all but the last piece, then `' '.join(newline)` -/
def joinPieces (cfg : Cfg) : List (List Char) → List Char
  | [] => []
  | [p] => p
  | p :: q :: ps => p ++ cfg.suffix ++ cfg.sep ++ joinPieces cfg (q :: ps)

/-- `misc.wrap_line` -/
def wrapLine (cfg : Cfg) (l : List Char) : List Char :=
  if l.length ≤ cfg.shortMax then l else joinPieces cfg (pieces cfg l)

/-- `"\n".join([wrap_line(x) for x in str(item).split("\n")])` of `write_shelx_file` -/
def writeItem (cfg : Cfg) (text : List Char) : List Char :=
  joinWith ['\n'] ((splitOnC '\n' text).map (wrapLine cfg))

/-- `misc.chunks(l, n)`: `[l[i:i+n] for i in range(0, len(l), n)]` (fuel = `len(l)`) -/
def groupsAux {α} (n : Nat) : Nat → List α → List (List α)
  | 0, _ => []
  | _, [] => []
  | fuel + 1, a :: l => (a :: l).take n :: groupsAux n fuel ((a :: l).drop n)

def groups {α} (n : Nat) (l : List α) : List (List α) := groupsAux n l.length l

/-- the lines of `FVARs.__str__`: `prefix + sep.join(group)` per group of `n` values -/
def fvarLines (n : Nat) (pre sep : List Char) (vals : List (List Char)) : List (List Char) :=
  (groups n vals).map fun g => pre ++ joinWith sep g

def renderFvars (n : Nat) (pre sep : List Char) (vals : List (List Char)) : List Char :=
  joinWith ['\n'] (fvarLines n pre sep vals)

/-- `SFAC ` + `'  '.join(elements)` -/
def sfacLine (pre sep : List Char) (els : List (List Char)) : List Char := pre ++ joinWith sep els

/-! ### Specification -/

/-- physical lines of a text -/
def physLines (t : List Char) : List (List Char) := splitOnC '\n' t

/-- the token sequence of a line: the non-empty fields between blanks -/
def tokens (l : List Char) : List (List Char) := (splitOnC ' ' l).filter (· ≠ [])

/-- the non-blank characters of a line, in order -/
def nonblank (l : List Char) : List Char := l.filter (· ≠ ' ')

/-- last non-blank character -/
def lastNB (l : List Char) : Option Char := l.reverse.find? (· ≠ ' ')

/-- SHELXL: a line whose last non-blank character is '=' is continued on the next line -/
def flagged (pl : List Char) : Bool := lastNB pl == some '='

/-- the text of a flagged line in front of the '=' -/
def body (pl : List Char) : List Char := ((pl.reverse.dropWhile (· = ' ')).drop 1).reverse

/-- the continuation-joining lexer: physical lines -> logical lines (`none`: the last line is flagged, i.e. the
    continuation runs into whatever follows) -/
def unwrapLines : List (List Char) → Option (List (List Char))
  | [] => some []
  | pl :: rest =>
    if flagged pl then
      match rest, unwrapLines rest with
      | [], _ => none
      | _ :: _, some (h :: t) => some ((body pl ++ h) :: t)
      | _ :: _, _ => none
    else (unwrapLines rest).map (pl :: ·)

/-- logical lines of a written text -/
def logical (t : List Char) : Option (List (List Char)) := unwrapLines (physLines t)

def endsWithEq (pl : List Char) : Bool := pl.reverse.take 2 == ['=', ' ']

def startsBlank (pl : List Char) : Bool := pl.head? == some ' '

/-- every physical line but the last ends in " =", every physical line but the first begins with a blank -/
def shapeOk (pls : List (List Char)) : Bool := pls.dropLast.all endsWithEq && pls.tail.all startsBlank

def maxLen (pls : List (List Char)) : Nat := pls.foldl (fun m p => max m p.length) 0

/-- hypotheses of the theorems, as decidable predicates -/
def noNL (l : List Char) : Bool := !l.contains '\n'

/-- the instruction itself does not end in a continuation mark -/
def endOk (l : List Char) : Bool := !flagged l

/-- no token is longer than what fits on a continuation line -/
def noLongTok (W : Nat) (l : List Char) : Bool := (tokens l).all (·.length ≤ W)

/-- a SHELX parameter / keyword: non-empty, no blank, no newline -/
def isTok (t : List Char) : Bool := t ≠ [] && !t.contains ' ' && !t.contains '\n'

/-- second half of the property, per logical line: the line is an instruction with at least one parameter -/
def keywordWithParams (kw : List Char) (l : List Char) : Bool :=
  match tokens l with
  | k :: _ :: _ => k == kw
  | _ => false

/-- a line that is no instruction, atom, comment or include: empty, or its first token begins like a number -/
def bareLine (l : List Char) : Bool :=
  match tokens l with
  | [] => true
  | (c :: _) :: _ => c.isDigit || c == '.' || c == '-' || c == '='
  | [] :: _ => true

/-! ### comment-aware lexer (SHELXL: everything behind '!' is ignored; `REM` lines are never continued -- except DSR commands, `isDsr` --; a line that
    begins with a blank and does not continue an instruction is a comment line) -/

/-- the part of a physical line in front of the first '!' -/
def code (pl : List Char) : List Char := pl.takeWhile (· ≠ '!')

def isRem (pl : List Char) : Bool := (pl.take 3).map Char.toUpper == ['R', 'E', 'M']

/-- a DSR command: `REM DSR PUT …` / `REM DSR REPLACE …` (any case). DSR, the fragment-fitting program, writes its command
    as a remark and -- unlike an ordinary remark, in which a '=' at the end is text -- continues it with ' =' like an
    instruction; a reader of res files that knows DSR joins these lines. Recognised on the FIRST physical line: `REM` at
    column 1, then the tokens `DSR` and `PUT…`/`REPLACE…`. -/
def isDsr (pl : List Char) : Bool :=
  match (tokens (code pl)).map (·.map Char.toUpper) with
  | r :: d :: c :: _ => isRem pl && r == ['R', 'E', 'M'] && d == ['D', 'S', 'R'] &&
      (c.take 3 == ['P', 'U', 'T'] || c.take 7 == ['R', 'E', 'P', 'L', 'A', 'C', 'E'])
  | _ => false

/-- the physical line is continued on the next one (an ordinary `REM` never is; a DSR command is) -/
def flaggedC (pl : List Char) : Bool := (!isRem pl || isDsr pl) && flagged (code pl)

def allBlank (pl : List Char) : Bool := pl.all (· == ' ')

/-- `cur`: the instruction collected so far (`none`: between instructions). Result: the code parts of the logical
    lines, `none` when the file ends inside a continued instruction. -/
def unwrapC : Option (List Char) → List (List Char) → Option (List (List Char))
  | none, [] => some []
  | some _, [] => none
  | none, pl :: rest =>
    if startsBlank pl || allBlank pl then unwrapC none rest            -- comment line / empty line
    else if flaggedC pl then unwrapC (some (body (code pl))) rest
    else (unwrapC none rest).map (code pl :: ·)
  | some c, pl :: rest =>
    if flaggedC pl then unwrapC (some (c ++ body (code pl))) rest
    else (unwrapC none rest).map ((c ++ code pl) :: ·)

def logicalC (t : List Char) : Option (List (List Char)) := unwrapC none (physLines t)

/-- pairs (flagged line of an instruction, following line) where the following line does not begin with a blank; a
    flagged last line is paired with nothing. `inside`: the previous line was flagged (comment lines are skipped as in
    `unwrapC`). -/
def badContinuations : Bool → List (List Char) → List (List Char × Option (List Char))
  | _, [] => []
  | inside, pl :: rest =>
    if !inside && (startsBlank pl || allBlank pl) then badContinuations false rest
    else if flaggedC pl then
      match rest with
      | [] => [(pl, none)]
      | q :: _ => (if startsBlank q then [] else [(pl, some q)]) ++ badContinuations true rest
    else badContinuations false rest

/-! ### what kind of line is it? (second half of the property: every written line is an instruction, a comment or a
    continuation) -/

/-- the instruction names of SHELXL (manual, including the instructions of SHELXL-2019 `BEDE`, `LONE` and the
    instructions the program accepts without documenting them: `TIME`, `HOPE`, `MOLE`, `CHAN`, `FLAP`, `RNUM`, `SOCC`,
    `RANG`, `TANG`, `ADDA`, `STAG`, `REST`, `NOTR`; SHELXL compares the first four characters, case-insensitively) -/
def keywords : List String :=
  ["ABIN", "ACTA", "AFIX", "ANIS", "ANSC", "ANSR", "BASF", "BIND", "BLOC", "BOND", "BUMP", "CELL", "CGLS", "CHIV", "CONF", "CONN", "DAMP", "DANG", "DEFS", "DELU", "DFIX", "DISP", "EADP", "END", "EQIV", "EXTI", "EXYZ", "FEND", "FLAT", "FMAP", "FRAG", "FREE", "FVAR", "GRID", "HFIX", "HKLF", "HOPE", "HTAB", "ISOR", "LATT", "LAUE", "LIST", "L.S.", "MERG", "MOLE", "MORE", "MOVE", "MPLA", "NCSY", "NEUT", "OMIT", "PART", "PLAN", "PRIG", "REM", "RESI", "RIGU", "RTAB", "SADI", "SAME", "SFAC", "SHEL", "SIMU", "SIZE", "SLIM", "SPEC", "STIR", "SUMP", "SWAT", "SYMM", "TEMP", "TIME", "TITL", "TWIN", "TWST", "UNIT", "WGHT", "WIGL", "WPDB", "XNPD", "ZERR",
   "BEDE", "LONE", "CHAN", "FLAP", "RNUM", "SOCC", "RANG", "TANG", "ADDA", "STAG", "REST", "NOTR"]

/-- the keyword a token stands for: upper case, residue suffix (`SADI_CCF3`, `ANIS_*`) removed, four characters -/
def keywordOf (t : List Char) : String := String.ofList (((t.takeWhile (· ≠ '_')).map Char.toUpper).take 4)

def isNumberTok (t : List Char) : Bool :=
  match t with
  | [] => false
  | c :: cs =>
    let body := if c == '-' || c == '+' then cs else c :: cs
    body.any Char.isDigit && body.all (fun x => x.isDigit || x == '.' || x == 'e' || x == 'E' || x == '-' || x == '+')

/-- `name sfac x y z …` -/
def isAtomLine (toks : List (List Char)) : Bool :=
  match toks with
  | name :: rest => (match name with | c :: _ => c.isAlpha | [] => false) && rest.length ≥ 4 && (rest.take 4).all isNumberTok
  | [] => false

/-- the code of the logical line that begins with the physical line `pl`: the code parts of `pl` and of the lines that
    continue it, joined as the continuation-joining lexer joins them -/
def logicalCode (pl : List Char) : List (List Char) → List Char
  | [] => if flaggedC pl then body (code pl) else code pl
  | q :: rest => if flaggedC pl then body (code pl) ++ logicalCode q rest else code pl

/-- class of one physical line; `inside`: the previous line of the instruction was flagged as continued; `whole`: the code
    of the whole logical line that begins here (an atom may be continued anywhere, even directly behind its name) -/
def lineClass (inside : Bool) (pl : List Char) (whole : List Char := code pl) : String :=
  if inside then (if startsBlank pl then "continuation" else "continuation-not-blank")
  else if allBlank pl then "blank"
  else if startsBlank pl then "comment"
  else match tokens pl with
    | [] => "blank"
    | t :: _ =>
      if t.head? == some '!' then "comment"
      else if t.head? == some '+' && !isNumberTok t then "include"
      else if keywords.contains (keywordOf t) then (if keywordOf t == "REM" then "comment" else "instruction")
      else if isAtomLine (tokens whole) then "atom"
      else "unknown"

/-- the classes of the physical lines of a file, read as SHELXL reads them -/
def lineClasses : Bool → List (List Char) → List (String × List Char)
  | _, [] => []
  | inside, pl :: rest =>
    let c := lineClass inside pl (logicalCode pl rest)
    let next := (inside || !(c == "comment" || c == "blank") || isDsr pl) && flaggedC pl
    (c, pl) :: lineClasses next rest

end Shelx.C06

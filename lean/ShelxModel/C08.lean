/-
  C08 — the object model stays self-consistent over any history of reads and edits.

  MODEL (mirrors the Python; the variant is chosen by `Cfg`):
    `Shelxfile._reslist`                         `St.res   : List Entry`   (raw string | Atom object | other object)
    `Atoms.all_atoms`                            `St.atoms : List Nat`     (object identities, list order)
    instruction objects held by API attributes   `St.cards : List Nat`
    `str(obj)` / `atom.fullname.upper()`          `St.text`, `St.name`      (texts and names are interned:
                                                                            equal numbers = equal strings)
    `Atoms._atomsdict`                           `St.cache`                ([] = "not built", as `if not self._atomsdict`)
    attributes that `__init__` sets to `None` / a default and `_parse_cards` assigns only when it meets the
    instruction (`self.plan = self._assign_card(PLAN(…))`, `self.temp_in_kelvin = …` under `word == 'TEMP'`)
                                                 `St.slots` (object-valued), `St.vals` (scalars), `slotGet`, `valGet`
    `Shelxfile.index_of`, `Atom.index`, `Command.index/position`, `FVARs.position`   `indexOf`
    `Atom.atomid`                                `atomid`     (ValueError -> 0, as the code does)
    `Atoms.get_atom_by_id`, `get_atom_by_name`   `byId`, `byName`
    `Atoms.__delitem__` (loop that deletes from the list it iterates over), `Atom.delete`,
    `add_line`, `Atom.name = …`, element/`to_isotropic`/`Command.set`/`LSCycles.number` (text changes, identity kept),
    `read_string/read_file/reload` (`self.__init__()` then parse)                     `step`
  Parsing only ADDS to what the object holds (`load`: appends atoms and instruction objects to the lists, assigns the
  attributes whose instruction occurs, leaves every other attribute alone); that a read starts from nothing is the work
  of the constructor re-run alone (`reinit`).  A file without `TEMP`/`PLAN`/… therefore shows whether `reinit` is
  complete: `read_attrs_spec`, `load_alone_keeps_old_attr` in ShelxProps/C08.lean.

  `list.index(v)` is evaluated as CPython does: first slot whose item `is v` or `item == v`; `==` between an
  `Atom` and anything compares the two `__str__` texts (atom.py `__eq__`, also as the reflected operand when the
  item is a `str` or an object without `__eq__`); between two non-atoms it is identity (no `__eq__` in cards.py).
    `snapshot` : the code as of the snapshot (search by `==`, rename leaves `_atomsdict` alone)
    `repaired` : after fixes/C08_1 (identity search in index_of/atomid/__delitem__) and fixes/C08_2 (rename clears the cache)

  SPEC: `Inv8` — stated on the observers only (what a user of the API sees), no reference to how they search.
  Core Lean only (linked into the driver).
-/
namespace Shelx.C08

/-- one slot of `_reslist` -/
inductive Entry where
  | raw  (t : Nat)      -- a plain string with text `t`
  | atom (u : Nat)      -- an `Atom` object with identity `u`
  | card (u : Nat)      -- any other object (Command, Restraint, SFACTable, FVARs, SYMM)
deriving DecidableEq, Repr, Inhabited

/-- one line of an input file, as `_parse_cards` classifies it -/
inductive Line where
  | raw  (t : Nat) (k : Option Nat) -- stays a string (TITL, END, blank, continuation, unknown …); `some k`: the parser
                                    --   also computes the scalar attribute `k` from it (TEMP, LIST, EXTI, TITL …)
  | atom (t : Nat) (name : Nat)     -- becomes an Atom; `t` = its printed line, `name` = NAME_RESINUM upper-cased
  | card (t : Nat) (k : Option Nat) -- becomes an instruction object; `some k`: the object is also assigned to the
                                    --   attribute `k` of the Shelxfile (`shx.plan`, `shx.cell` …), `none`: appended to a list
deriving DecidableEq, Repr, Inhabited

structure Cfg where
  identSearch  : Bool     -- positions are searched by identity (`is`) instead of `==`
  renameClears : Bool     -- the name setter clears `_atomsdict`
deriving DecidableEq, Repr

def snapshot : Cfg := { identSearch := false, renameClears := false }
def repaired : Cfg := { identSearch := true, renameClears := true }

structure St where
  res   : List Entry
  atoms : List Nat
  cards : List Nat
  text  : Nat → Nat
  name  : Nat → Nat
  cache : List (Nat × Nat)      -- (name, atom) in insertion order; later entries win (dict semantics)
  gone  : List Nat              -- ghost: atoms removed from `all_atoms` since the last read (never read by the model)
  slots : List (Nat × Nat)      -- assignments `self.<k> = <instruction object u>` in the order they were executed;
                                --   the attribute hands out the last one (`slotGet`), `None` when there is none
  vals  : List (Nat × Nat)      -- assignments `self.<k> = <scalar computed from the line with text t>`, same order

def init : St := { res := [], atoms := [], cards := [], text := fun _ => 0, name := fun _ => 0, cache := [], gone := [],
                   slots := [], vals := [] }

/-! ### model: positions -/

def Entry.isAtom : Entry → Bool
  | .atom _ => true
  | _ => false

def textOf (s : St) : Entry → Nat
  | .raw t => t
  | .atom u => s.text u
  | .card u => s.text u

/-- `item is value or item == value` inside `list.index(value)` -/
def pyEq (c : Cfg) (s : St) (value item : Entry) : Bool :=
  item == value || (!c.identSearch && (item.isAtom || value.isAtom) && textOf s item == textOf s value)

def firstIdx (p : Entry → Bool) : List Entry → Option Nat
  | [] => none
  | x :: xs => if p x then some 0 else (firstIdx p xs).map (· + 1)

/-- `shx.index_of(v)`; `none` = ValueError -/
def indexOf (c : Cfg) (s : St) (v : Entry) : Option Nat := firstIdx (pyEq c s v) s.res

/-- `Atom.atomid` -/
def atomid (c : Cfg) (s : St) (u : Nat) : Nat :=
  match indexOf c s (.atom u) with
  | some i => i
  | none => 0          -- `except ValueError: return 0`

/-- `Atoms.get_atom_by_id` -/
def byId (c : Cfg) (s : St) (k : Nat) : Option Nat := s.atoms.find? fun a => atomid c s a == k

/-! ### model: the name index -/

def build (s : St) : List (Nat × Nat) := s.atoms.map fun a => (s.name a, a)

/-- `Atoms.atomsdict`: rebuilt when empty -/
def effCache (s : St) : List (Nat × Nat) := if s.cache.isEmpty then build s else s.cache

def dictGet (n : Nat) : List (Nat × Nat) → Option Nat
  | [] => none
  | (k, v) :: r =>
    match dictGet n r with
    | some w => some w
    | none => if k == n then some v else none

/-- `shx.<k>` for an object-valued attribute: the object assigned last; `none` = the constructor's `None` -/
def slotGet (s : St) (k : Nat) : Option Nat := dictGet k s.slots

/-- `shx.<k>` for a scalar attribute: the text of the line it was computed from; `none` = the constructor's default -/
def valGet (s : St) (k : Nat) : Option Nat := dictGet k s.vals

/-- `Atoms.get_atom_by_name` (on the upper-cased NAME_RESINUM) -/
def byName (s : St) (n : Nat) : Option Nat := dictGet n (effCache s)

/-- the state after any call that went through `atomsdict` -/
def warm (s : St) : St := { s with cache := effCache s }

/-! ### model: edits -/

/-- `list.insert(i, x)` (an index beyond the end appends) -/
def pyInsert : List Entry → Nat → Entry → List Entry
  | l, 0, x => x :: l
  | [], _ + 1, x => [x]
  | y :: ys, i + 1, x => y :: pyInsert ys i x

/-- body of the `if key == at.atomid:` branch of `__delitem__`; the Bool says "ValueError raised" -/
def removeAt (c : Cfg) (s : St) (n a : Nat) : St × Bool :=
  let s1 := { s with atoms := s.atoms.eraseIdx n, gone := a :: s.gone }      -- del self.all_atoms[n]
  match indexOf c s (.atom a) with                                            -- self.shx._reslist.index(at)
  | some i => ({ s1 with res := s.res.eraseIdx i, cache := [] }, false)
  | none => (s1, true)

/-- `for n, at in enumerate(self.all_atoms)` over the list that is being shortened; `fuel` ≥ remaining length -/
def delLoop (c : Cfg) (key : Nat) : Nat → Nat → St → St × Bool
  | 0, _, s => (s, false)
  | fuel + 1, n, s =>
    match s.atoms[n]? with
    | none => (s, false)
    | some a =>
      if atomid c s a == key then
        match removeAt c s n a with
        | (s', true) => (s', true)
        | (s', false) => delLoop c key fuel (n + 1) s'
      else delLoop c key fuel (n + 1) s

/-- `del shx.atoms[key]` -/
def delItem (c : Cfg) (key : Nat) (s : St) : St × Bool := delLoop c key (s.atoms.length + 1) 0 s

inductive Op where
  | delId (k : Nat)                         -- del shx.atoms[k]
  | delete (a : Nat)                        -- a.delete()  for an atom object the caller holds
  | insertAfter (pos : Nat) (t : Nat)       -- shx.add_line(pos, text)
  | rename (a : Nat) (name text : Nat)      -- a.name = …   (changes the printed line too)
  | retext (u : Nat) (text : Nat)           -- element / to_isotropic / Command.set / cycles.number: same object, new text
  | lookup                                  -- any call that goes through `atomsdict`
  | read (f : List Line)                    -- read_string / read_file / reload
deriving Repr, Inhabited

def resOf : Nat → List Line → List Entry
  | _, [] => []
  | i, .raw t _ :: ls => .raw t :: resOf (i + 1) ls
  | i, .atom _ _ :: ls => .atom i :: resOf (i + 1) ls
  | i, .card _ _ :: ls => .card i :: resOf (i + 1) ls

def atomsOf : Nat → List Line → List Nat
  | _, [] => []
  | i, .atom _ _ :: ls => i :: atomsOf (i + 1) ls
  | i, _ :: ls => atomsOf (i + 1) ls

def cardsOf : Nat → List Line → List Nat
  | _, [] => []
  | i, .card _ _ :: ls => i :: cardsOf (i + 1) ls
  | i, _ :: ls => cardsOf (i + 1) ls

/-- the assignments `self.<k> = self._assign_card(…)` that parsing the file executes, in file order -/
def slotsOf : Nat → List Line → List (Nat × Nat)
  | _, [] => []
  | i, .card _ (some k) :: ls => (k, i) :: slotsOf (i + 1) ls
  | i, _ :: ls => slotsOf (i + 1) ls

/-- the assignments of scalar attributes that parsing the file executes, in file order -/
def valsOf : List Line → List (Nat × Nat)
  | [] => []
  | .raw t (some k) :: ls => (k, t) :: valsOf ls
  | _ :: ls => valsOf ls

def textAt (f : List Line) (u : Nat) : Nat :=
  match f[u]? with
  | some (.raw t _) => t
  | some (.atom t _) => t
  | some (.card t _) => t
  | none => 0

def nameAt (f : List Line) (u : Nat) : Nat :=
  match f[u]? with
  | some (.atom _ n) => n
  | _ => 0

/-- `self.__init__(…)`: the constructor assigns every field again -/
def reinit (s : St) : St :=
  { s with res := [], atoms := [], cards := [], text := fun _ => 0, name := fun _ => 0, cache := [], gone := [],
           slots := [], vals := [] }

/-- `self._reslist = text.splitlines()` + `_parse_cards`: objects are created per line (identity = line number) and
stored in their slot; atoms and instruction objects are APPENDED to the lists the object has, attributes are assigned
where the file has the instruction and keep what they hold where it has not -/
def load (f : List Line) (s : St) : St :=
  { s with res := resOf 0 f, atoms := s.atoms ++ atomsOf 0 f, cards := s.cards ++ cardsOf 0 f,
           slots := s.slots ++ slotsOf 0 f, vals := s.vals ++ valsOf f, text := textAt f, name := nameAt f }

def read (f : List Line) (s : St) : St := load f (reinit s)

/-- one API call; the Bool says that it raised (the state is what the exception left behind) -/
def step (c : Cfg) (op : Op) (s : St) : St × Bool :=
  match op with
  | .delId k => delItem c k s
  | .delete a =>
    match indexOf c s (.atom a) with
    | none => (s, true)                                        -- `self.index` raises ValueError
    | some k =>
      match delItem c k s with
      | (s', true) => (s', true)
      | (s', false) => ({ s' with cache := [] }, false)
  | .insertAfter pos t => ({ s with res := pyInsert s.res (pos + 1) (.raw t) }, false)
  | .rename a n t =>
    ({ s with name := fun u => if u = a then n else s.name u,
              text := fun u => if u = a then t else s.text u,
              cache := if c.renameClears then [] else s.cache }, false)
  | .retext u t => ({ s with text := fun v => if v = u then t else s.text v }, false)
  | .lookup => (warm s, false)
  | .read f => (read f s, false)

def run (c : Cfg) : List Op → St → St
  | [], s => s
  | op :: ops, s => run c ops (step c op s).1

/-! ### spec -/

/-- the object reports a position, and the file holds that very object there -/
def holdsAt (c : Cfg) (s : St) (e : Entry) : Prop :=
  (indexOf c s e).bind (fun i => s.res[i]?) = some e

/-- the property, after any step (the last clause: an instruction object that an attribute of the Shelxfile hands
out — `shx.plan`, `shx.cell`, `shx.wght` … — is an object of the file) -/
def Inv8 (c : Cfg) (s : St) : Prop :=
  (∀ a ∈ s.atoms, holdsAt c s (.atom a)) ∧
  (∀ k ∈ s.cards, holdsAt c s (.card k)) ∧
  (s.atoms.Nodup ∧ ∀ a ∈ s.atoms, ∀ b ∈ s.atoms, atomid c s a = atomid c s b → a = b) ∧
  (∀ a ∈ s.atoms, byId c s (atomid c s a) = some a) ∧
  (∀ a ∈ s.atoms, (∀ b ∈ s.atoms, s.name b = s.name a → b = a) → byName s (s.name a) = some a) ∧
  (∀ g ∈ s.gone, g ∉ s.atoms ∧ Entry.atom g ∉ s.res ∧ g ∉ (effCache s).map (·.2)) ∧
  (∀ p ∈ s.slots, ∀ u ∈ slotGet s p.1, holdsAt c s (.card u))

instance (c : Cfg) (s : St) (e : Entry) : Decidable (holdsAt c s e) := by unfold holdsAt; infer_instance
instance (c : Cfg) (s : St) : Decidable (Inv8 c s) := by unfold Inv8; infer_instance

/-- the clauses one by one (for the driver's report) -/
def clauses (c : Cfg) (s : St) : List Bool :=
  [ decide (∀ a ∈ s.atoms, holdsAt c s (.atom a)),
    decide (∀ k ∈ s.cards, holdsAt c s (.card k)),
    decide (s.atoms.Nodup ∧ ∀ a ∈ s.atoms, ∀ b ∈ s.atoms, atomid c s a = atomid c s b → a = b),
    decide (∀ a ∈ s.atoms, byId c s (atomid c s a) = some a),
    decide (∀ a ∈ s.atoms, (∀ b ∈ s.atoms, s.name b = s.name a → b = a) → byName s (s.name a) = some a),
    decide (∀ g ∈ s.gone, g ∉ s.atoms ∧ Entry.atom g ∉ s.res ∧ g ∉ (effCache s).map (·.2)),
    decide (∀ p ∈ s.slots, ∀ u ∈ slotGet s p.1, holdsAt c s (.card u)) ]

/-- the attributes that hold an object, with the object (for the driver's report) -/
def slotTable (s : St) : List (Nat × Nat) :=
  (s.slots.map (·.1)).eraseDups.filterMap fun k => (slotGet s k).map fun u => (k, u)

/-! ### spec of the attributes: a function of the file that was read last, of nothing else -/

/-- does line `l` put an object into attribute `k`? -/
def Line.setsSlot (k : Nat) : Line → Bool
  | .card _ (some k') => k' == k
  | _ => false

/-- does line `l` compute the scalar attribute `k`? -/
def Line.setsVal (k : Nat) : Line → Option Nat
  | .raw t (some k') => if k' == k then some t else none
  | _ => none

/-- the position of the LAST line of the file that satisfies `p` (positions count from `i`) -/
def lastPos (p : Line → Bool) : Nat → List Line → Option Nat
  | _, [] => none
  | i, l :: ls =>
    match lastPos p (i + 1) ls with
    | some j => some j
    | none => if p l then some i else none

/-- what `shx.<k>` has to hand out after reading `f`: the object of the last instruction `k` of THIS file;
nothing if the file has no such instruction -/
def specSlot (f : List Line) (k : Nat) : Option Nat := lastPos (Line.setsSlot k) 0 f

/-- what the scalar attribute `k` has to be after reading `f`: computed from the last line of THIS file that sets it;
the default if the file has none -/
def specVal : List Line → Nat → Option Nat
  | [], _ => none
  | l :: ls, k =>
    match specVal ls k with
    | some t => some t
    | none => l.setsVal k

/-- the file that the object holds after a history: the one read last -/
def lastFile (f : List Line) : List Op → List Line
  | [] => f
  | .read g :: ops => lastFile g ops
  | _ :: ops => lastFile f ops

/-- the views that are filters of `all_atoms` (hydrogen_atoms, riding_atoms, q_peaks) -/
def view (p : Nat → Bool) (s : St) : List Nat := s.atoms.filter p

end Shelx.C08

/- C08 — model and specification (stub; see HACKING.md) -/
namespace Shelx.C08

end Shelx.C08

/-
  C11 — LATT + SYMM expand to the complete space group, each operator exactly once.

  Operators are pairs (3×3 integer matrix, rational translation); equality is taken modulo ℤ³ (`cls`).

  Model of (exact arithmetic, `Rat`; the code that exists after fixes C11_1 and C11_2):
    LATT.__init__ (`int(p[0])`, default)     (cards.py)    -> `decodeLatt`  (no number: N = 1; `int()` truncates)
    LATT.__init__ / LATT.lattdict            (cards.py)    -> `centring` (table REGENERATED: Extracted/Latt.lean)
    SymmetryElement.__eq__                   (dsrmath.py)  -> `opEq`        (`% 1` on the translations)
    SymmetryElement.apply_latt_symm          (dsrmath.py)  -> `applyLatt`
    SymmetryElement(…, centric=True)         (dsrmath.py)  -> `inv`
    SymmCards.__init__                       (cards.py)    -> `[ident]`
    SymmCards.set_latt_ops                   (cards.py)    -> `setLattOps`  (centred copies of the identity)
    SymmCards.set_centric                    (cards.py)    -> `setCentric`  (inversion and its centred copies)
    SymmCards.append                         (cards.py)    -> `append`      (with the `not in` test)
    Shelxfile._parse_cards, LATT/SYMM branch (shelx.py)    -> `expandWith`, `expand`
  The operators, the specification (`comp`, `specCentring` — the SHELXL manual's LATT table —, `fullGroup`,
  `ValidSetting`, `Closed`) and the executable checkers are in ShelxModel/C11Core.lean, which does not import the
  regenerated table (so the kernel checks over the tabulated settings are not redone when only `lattdict` changes).
-/
import ShelxModel.C11Core
import ShelxModel.Extracted.Latt

namespace Shelx.C11

/-! ### Model -/

/-- `LATT.lattdict[abs(self.N)]`; `none` is Python's KeyError -/
def lookupLatt (tbl : List (Nat × List (Rat × Rat × Rat))) (n : Nat) : Option (List Vec) :=
  match tbl with
  | [] => none
  | (k, vs) :: rest => if k = n then some (vs.map Vec.ofTriple) else lookupLatt rest n

def centring (N : Int) : Option (List Vec) := lookupLatt Shelx.Extracted.lattTable N.natAbs

/-- `SymmetryElement.__eq__`: same matrix and the same translations after `% 1` -/
def opEq (a b : Op) : Bool := decide (a.m = b.m) && decide (fractV a.t = fractV b.t)

/-- `x not in self._symmcards` -/
def notIn (x : Op) (L : List Op) : Bool := !(L.any fun y => opEq y x)

/-- `SymmetryElement.apply_latt_symm`: a copy translated by the centring vector -/
def applyLatt (s : Op) (c : Vec) : Op := ⟨s.m, s.t.add c⟩

/-- `SymmetryElement(symm_data, centric=True)`: matrix and translation times -1 -/
def inv (s : Op) : Op := ⟨s.m.neg, s.t.neg⟩

/-- `for symm in latt_ops: c = s.apply_latt_symm(symm); if c not in L: L.append(c)` -/
def addCentredChecked (C : List Vec) (s : Op) (L : List Op) : List Op :=
  C.foldl (fun L c => if notIn (applyLatt s c) L then L ++ [applyLatt s c] else L) L

/-- `for symm in latt_ops: L.append(s.apply_latt_symm(symm))` -/
def addCentred (C : List Vec) (s : Op) (L : List Op) : List Op :=
  C.foldl (fun L c => L ++ [applyLatt s c]) L

/-- `SymmCards.set_latt_ops` (called when LATT is read): centred copies of the identity -/
def setLattOps (C : List Vec) (L : List Op) : List Op := addCentredChecked C ident L

/-- `SymmCards.set_centric` (called when LATT is read and N > 0): the inversion and its centred copies -/
def setCentric (C : List Vec) (L : List Op) : List Op := addCentred C (inv ident) (L ++ [inv ident])

/-- `SymmCards.append` (one SYMM line) -/
def append (C : List Vec) (centric : Bool) (L : List Op) (s : Op) : List Op :=
  let L1 := addCentredChecked C s (L ++ [s])
  if centric then addCentred C (inv s) (L1 ++ [inv s]) else L1

/-- the LATT line -/
def lattStep (C : List Vec) (centric : Bool) : List Op :=
  let L0 := setLattOps C [ident]
  if centric then setCentric C L0 else L0

/-- LATT, then the SYMM lines in file order -/
def expandWith (C : List Vec) (centric : Bool) (S : List Op) : List Op :=
  S.foldl (append C centric) (lattStep C centric)

/-- `Shelxfile.symmcards` after `LATT N` and the `SYMM` lines `S` -/
def expand (N : Int) (S : List Op) : Option (List Op) :=
  (centring N).map fun C => expandWith C (centricOf N) S

/-! ### the LATT line itself -/

/-- Python's `int(x)` of a float: truncation towards zero -/
def truncInt (x : Rat) : Int := if 0 ≤ x then x.floor else -((-x).floor)

/-- `LATT.__init__`: the numerical parameters `p` of the line (`Command._parse_line`, floats);
    `self.N = int(p[0])`, `IndexError` (no number) gives the documented default `LATT N[1]`, further numbers are ignored -/
def decodeLatt (p : List Rat) : Int :=
  match p with
  | [] => 1
  | x :: _ => truncInt x

/-- `Shelxfile.symmcards` after the LATT line with numerical parameters `p` and the `SYMM` lines `S` -/
def expandLine (p : List Rat) (S : List Op) : Option (List Op) := expand (decodeLatt p) S

/-! ### what the kernel evaluates on the model side for each tabulated setting (with the REGENERATED centring table;
    the `decide +kernel` runs are in ShelxProps/Lemmas/C11Mod*.lean, one piece of the table per file) -/

/-- the expansion exists, has the number of operators International Tables A give for the group, and no class twice -/
def modelOK (e : Setting) : Bool :=
  match expand e.N e.S with
  | none => false
  | some L => L.length == e.order && nodupB L

end Shelx.C11

/- C11 — model and specification (stub; see HACKING.md) -/
namespace Shelx.C11

end Shelx.C11

/-
  C11 — LATT + SYMM expand to the complete space group, each operator exactly once.

  Operators are pairs (3×3 integer matrix, rational translation); equality is taken modulo ℤ³ (`cls`).

  Model of (exact arithmetic, `Rat`; the code that exists after fixes C11_1 and C11_2):
    LATT.__init__ / LATT.lattdict            (cards.py)    -> `centring` (table REGENERATED: Extracted/Latt.lean)
    SymmetryElement.__eq__                   (dsrmath.py)  -> `opEq`        (`% 1` on the translations)
    SymmetryElement.apply_latt_symm          (dsrmath.py)  -> `applyLatt`
    SymmetryElement(…, centric=True)         (dsrmath.py)  -> `inv`
    SymmCards.__init__                       (cards.py)    -> `[ident]`
    SymmCards.set_latt_ops                   (cards.py)    -> `setLattOps`  (centred copies of the identity)
    SymmCards.set_centric                    (cards.py)    -> `setCentric`  (inversion and its centred copies)
    SymmCards.append                         (cards.py)    -> `append`      (with the `not in` test)
    Shelxfile._parse_cards, LATT/SYMM branch (shelx.py)    -> `expandWith`, `expand`
  Specification (code independent): `comp`, `specCentring` (the SHELXL manual's LATT table), `fullGroup`,
  `ValidSetting`, `Closed`.
-/
import ShelxModel.Extracted.Latt

namespace Shelx.C11

/-! ### operators -/

structure Mat where
  a11 : Int
  a12 : Int
  a13 : Int
  a21 : Int
  a22 : Int
  a23 : Int
  a31 : Int
  a32 : Int
  a33 : Int
deriving DecidableEq, Repr

structure Vec where
  x : Rat
  y : Rat
  z : Rat
deriving DecidableEq, Repr

/-- `x' = m x + t` -/
structure Op where
  m : Mat
  t : Vec
deriving DecidableEq, Repr

def Mat.one : Mat := ⟨1, 0, 0, 0, 1, 0, 0, 0, 1⟩
def Mat.neg (a : Mat) : Mat := ⟨-a.a11, -a.a12, -a.a13, -a.a21, -a.a22, -a.a23, -a.a31, -a.a32, -a.a33⟩
def Mat.mul (a b : Mat) : Mat :=
  ⟨a.a11 * b.a11 + a.a12 * b.a21 + a.a13 * b.a31, a.a11 * b.a12 + a.a12 * b.a22 + a.a13 * b.a32, a.a11 * b.a13 + a.a12 * b.a23 + a.a13 * b.a33,
   a.a21 * b.a11 + a.a22 * b.a21 + a.a23 * b.a31, a.a21 * b.a12 + a.a22 * b.a22 + a.a23 * b.a32, a.a21 * b.a13 + a.a22 * b.a23 + a.a23 * b.a33,
   a.a31 * b.a11 + a.a32 * b.a21 + a.a33 * b.a31, a.a31 * b.a12 + a.a32 * b.a22 + a.a33 * b.a32, a.a31 * b.a13 + a.a32 * b.a23 + a.a33 * b.a33⟩
def Mat.mulVec (a : Mat) (v : Vec) : Vec :=
  ⟨a.a11 * v.x + a.a12 * v.y + a.a13 * v.z, a.a21 * v.x + a.a22 * v.y + a.a23 * v.z, a.a31 * v.x + a.a32 * v.y + a.a33 * v.z⟩

def Vec.zero : Vec := ⟨0, 0, 0⟩
def Vec.add (u v : Vec) : Vec := ⟨u.x + v.x, u.y + v.y, u.z + v.z⟩
def Vec.neg (u : Vec) : Vec := ⟨-u.x, -u.y, -u.z⟩
def Vec.ofTriple (p : Rat × Rat × Rat) : Vec := ⟨p.1, p.2.1, p.2.2⟩

/-- fractional part, Python's `v % 1` (result in [0, 1) for either sign) -/
def fract (x : Rat) : Rat := x - x.floor
def fractV (v : Vec) : Vec := ⟨fract v.x, fract v.y, fract v.z⟩

/-- the representative of an operator modulo integer translations -/
def cls (o : Op) : Op := ⟨o.m, fractV o.t⟩

def ident : Op := ⟨Mat.one, Vec.zero⟩

/-! ### Model -/

/-- `LATT.lattdict[abs(self.N)]`; `none` is Python's KeyError -/
def lookupLatt (tbl : List (Nat × List (Rat × Rat × Rat))) (n : Nat) : Option (List Vec) :=
  match tbl with
  | [] => none
  | (k, vs) :: rest => if k = n then some (vs.map Vec.ofTriple) else lookupLatt rest n

def centring (N : Int) : Option (List Vec) := lookupLatt Shelx.Extracted.lattTable N.natAbs

/-- `LATT.centric`: `self.N > 0` -/
def centricOf (N : Int) : Bool := decide (N > 0)

/-- `SymmetryElement.__eq__`: same matrix and the same translations after `% 1` -/
def opEq (a b : Op) : Bool := decide (a.m = b.m) && decide (fractV a.t = fractV b.t)

/-- `x not in self._symmcards` -/
def notIn (x : Op) (L : List Op) : Bool := !(L.any fun y => opEq y x)

/-- `SymmetryElement.apply_latt_symm`: a copy translated by the centring vector -/
def applyLatt (s : Op) (c : Vec) : Op := ⟨s.m, s.t.add c⟩

/-- `SymmetryElement(symm_data, centric=True)`: matrix and translation times -1 -/
def inv (s : Op) : Op := ⟨s.m.neg, s.t.neg⟩

/-- `for symm in latt_ops: c = s.apply_latt_symm(symm); if c not in L: L.append(c)` -/
def addCentredChecked (C : List Vec) (s : Op) (L : List Op) : List Op :=
  C.foldl (fun L c => if notIn (applyLatt s c) L then L ++ [applyLatt s c] else L) L

/-- `for symm in latt_ops: L.append(s.apply_latt_symm(symm))` -/
def addCentred (C : List Vec) (s : Op) (L : List Op) : List Op :=
  C.foldl (fun L c => L ++ [applyLatt s c]) L

/-- `SymmCards.set_latt_ops` (called when LATT is read): centred copies of the identity -/
def setLattOps (C : List Vec) (L : List Op) : List Op := addCentredChecked C ident L

/-- `SymmCards.set_centric` (called when LATT is read and N > 0): the inversion and its centred copies -/
def setCentric (C : List Vec) (L : List Op) : List Op := addCentred C (inv ident) (L ++ [inv ident])

/-- `SymmCards.append` (one SYMM line) -/
def append (C : List Vec) (centric : Bool) (L : List Op) (s : Op) : List Op :=
  let L1 := addCentredChecked C s (L ++ [s])
  if centric then addCentred C (inv s) (L1 ++ [inv s]) else L1

/-- the LATT line -/
def lattStep (C : List Vec) (centric : Bool) : List Op :=
  let L0 := setLattOps C [ident]
  if centric then setCentric C L0 else L0

/-- LATT, then the SYMM lines in file order -/
def expandWith (C : List Vec) (centric : Bool) (S : List Op) : List Op :=
  S.foldl (append C centric) (lattStep C centric)

/-- `Shelxfile.symmcards` after `LATT N` and the `SYMM` lines `S` -/
def expand (N : Int) (S : List Op) : Option (List Op) :=
  (centring N).map fun C => expandWith C (centricOf N) S

/-! ### Specification -/

/-- composition: `(comp a b) x = a (b x)` -/
def comp (a b : Op) : Op := ⟨a.m.mul b.m, (a.m.mulVec b.t).add a.t⟩

def transl (c : Vec) : Op := ⟨Mat.one, c⟩
def inversion : Op := ⟨Mat.one.neg, Vec.zero⟩

/-- the SHELXL manual: LATT 1=P, 2=I, 3=rhombohedral obverse on hexagonal axes, 4=F, 5=A, 6=B, 7=C -/
def specCentringNat (n : Nat) : List Vec :=
  match n with
  | 2 => [⟨1/2, 1/2, 1/2⟩]
  | 3 => [⟨2/3, 1/3, 1/3⟩, ⟨1/3, 2/3, 2/3⟩]
  | 4 => [⟨0, 1/2, 1/2⟩, ⟨1/2, 0, 1/2⟩, ⟨1/2, 1/2, 0⟩]
  | 5 => [⟨0, 1/2, 1/2⟩]
  | 6 => [⟨1/2, 0, 1/2⟩]
  | 7 => [⟨1/2, 1/2, 0⟩]
  | _ => []

def specCentring (N : Int) : List Vec := specCentringNat N.natAbs

/-- number of lattice points per cell -/
def mult (N : Int) : Nat := 1 + (specCentring N).length

def signs (centric : Bool) : List Op := if centric then [ident, inversion] else [ident]

/-- `[ c ∘ i ∘ s | s ∈ id :: S, c ∈ 0 :: C, i ∈ [+] or [+, −] ]` -/
def fullGroupWith (C : List Vec) (centric : Bool) (S : List Op) : List Op :=
  (ident :: S).flatMap fun s => (Vec.zero :: C).flatMap fun c => (signs centric).map fun i => comp (transl c) (comp i s)

def fullGroup (N : Int) (S : List Op) : List Op := fullGroupWith (specCentring N) (centricOf N) S

/-- a valid LATT number, and the SYMM operators are pairwise distinct (and distinct from the identity) modulo
    centring, inversion (when N > 0) and integer translations: the spec list has no class twice -/
def ValidSetting (N : Int) (S : List Op) : Prop :=
  (1 ≤ N.natAbs ∧ N.natAbs ≤ 7) ∧ ((fullGroup N S).map cls).Nodup

instance (N : Int) (S : List Op) : Decidable (ValidSetting N S) := by unfold ValidSetting; infer_instance

/-- closed under composition modulo ℤ³ -/
def Closed (G : List Op) : Prop := ∀ a ∈ G, ∀ b ∈ G, cls (comp a b) ∈ G.map cls

instance (G : List Op) : Decidable (Closed G) := by unfold Closed; infer_instance

/-! ### executable checkers (Bool, arranged so that the kernel evaluates every class once; their soundness with
    respect to `Nodup`, `Closed` is proved in ShelxProps/C11.lean) -/

/-- forces `n` to a literal before it is passed on (kernel evaluation is by name) -/
def strict {β : Type} (n : Nat) (f : Nat → β) : β :=
  match n with
  | 0 => f 0
  | k + 1 => f (k + 1)

/-- any function would do: a hit is confirmed by structural equality -/
def hashOp (o : Op) : Nat :=
  let m := o.m
  let h := [m.a11, m.a12, m.a13, m.a21, m.a22, m.a23, m.a31, m.a32, m.a33].foldl (fun h a => h * 3 + (a + 1).toNat) 0
  [o.t.x, o.t.y, o.t.z].foldl (fun h q => (h * 64 + q.num.toNat) * 64 + q.den) h

/-- the classes of `G`, each with its (forced) hash, handed to `k` -/
def withKeys {β : Type} (G : List Op) (k : List (Nat × Op) → β) : β :=
  match G with
  | [] => k []
  | o :: l => strict (hashOp (cls o)) fun h => withKeys l fun K => k ((h, cls o) :: K)

def memK (K : List (Nat × Op)) (h : Nat) (p : Op) : Bool := K.any fun e => e.1 == h && decide (e.2 = p)

def nodupK : List (Nat × Op) → Bool
  | [] => true
  | e :: K => !memK K e.1 e.2 && nodupK K

/-- no class twice -/
def nodupB (G : List Op) : Bool := withKeys G nodupK

/-- every `g ∘ b` (g ∈ gens, b ∈ G) is in `G` modulo ℤ³ -/
def leftClosedB (gens G : List Op) : Bool :=
  withKeys G fun K => gens.all fun g => G.all fun b => strict (hashOp (cls (comp g b))) fun h => memK K h (cls (comp g b))

/-- generators of the group of a setting: the SYMM operators, the centring translations, the inversion if N > 0 -/
def gensOf (N : Int) (S : List Op) : List Op :=
  S ++ (specCentring N).map transl ++ (if centricOf N then [inversion] else [])

def validB (N : Int) (S : List Op) : Bool :=
  decide (1 ≤ N.natAbs) && decide (N.natAbs ≤ 7) && nodupB (fullGroup N S)

/-! ### Tabulated settings (SYMM lines as SHELXL lists them; `order` = point-group order × lattice points,
    from International Tables A) -/

structure Setting where
  name : String
  N : Int
  S : List Op
  order : Nat
deriving Repr

end Shelx.C11

/-
  Line-protocol driver (DESIGN.md 2.3). One JSON request per input line, one JSON answer per output line.
  Requests carry "p" (property id) and "op"; each property's handler lives in ShelxModel/Drv/<ID>.lean.
  Imports ShelxModel only (no Mathlib), so it links as a `lean_exe`.
-/
import ShelxModel.JsonUtil
import ShelxModel.Drv.C01
import ShelxModel.Drv.C02
import ShelxModel.Drv.C03
import ShelxModel.Drv.C04
import ShelxModel.Drv.C05
import ShelxModel.Drv.C06
import ShelxModel.Drv.C07
import ShelxModel.Drv.C08
import ShelxModel.Drv.C09
import ShelxModel.Drv.C10
import ShelxModel.Drv.C11
import ShelxModel.Drv.C12
import ShelxModel.Drv.C13
import ShelxModel.Drv.C14
import ShelxModel.Drv.C15
import ShelxModel.Drv.C16
import ShelxModel.Drv.C17
import ShelxModel.Drv.C18
import ShelxModel.Drv.C19
import ShelxModel.Drv.C20
open Lean

def dispatch (j : Json) : Except String Json := do
  let p ← Shelx.J.strField j "p"
  match p with
  | "C01" => Shelx.Drv.C01.handle j
  | "C02" => Shelx.Drv.C02.handle j
  | "C03" => Shelx.Drv.C03.handle j
  | "C04" => Shelx.Drv.C04.handle j
  | "C05" => Shelx.Drv.C05.handle j
  | "C06" => Shelx.Drv.C06.handle j
  | "C07" => Shelx.Drv.C07.handle j
  | "C08" => Shelx.Drv.C08.handle j
  | "C09" => Shelx.Drv.C09.handle j
  | "C10" => Shelx.Drv.C10.handle j
  | "C11" => Shelx.Drv.C11.handle j
  | "C12" => Shelx.Drv.C12.handle j
  | "C13" => Shelx.Drv.C13.handle j
  | "C14" => Shelx.Drv.C14.handle j
  | "C15" => Shelx.Drv.C15.handle j
  | "C16" => Shelx.Drv.C16.handle j
  | "C17" => Shelx.Drv.C17.handle j
  | "C18" => Shelx.Drv.C18.handle j
  | "C19" => Shelx.Drv.C19.handle j
  | "C20" => Shelx.Drv.C20.handle j
  | _ => .error s!"unknown property {p}"

partial def loop (hin : IO.FS.Stream) (hout : IO.FS.Stream) : IO Unit := do
  let line ← hin.getLine
  if line.isEmpty then return ()
  let ans : Json :=
    match Json.parse line with
    | .error e => Json.mkObj [("driver_error", Json.str s!"parse: {e}")]
    | .ok j => match dispatch j with
      | .ok r => r
      | .error e => Json.mkObj [("driver_error", Json.str e)]
  hout.putStrLn ans.compress
  loop hin hout

def main : IO Unit := do
  let hin ← IO.getStdin
  let hout ← IO.getStdout
  loop hin hout
  hout.flush

/-
  Line-protocol driver (DESIGN.md 2.3). One JSON request per input line, one JSON answer per output line.
  Requests carry "p" (property id) and "op"; each property's handler lives in ShelxModel/Drv/<ID>.lean.
  Imports ShelxModel only (no Mathlib), so it links as a `lean_exe`.
-/
import ShelxModel.JsonUtil
import ShelxModel.Drv.C09
open Lean

def dispatch (j : Json) : Except String Json := do
  let p ← Shelx.J.strField j "p"
  match p with
  | "C09" => Shelx.Drv.C09.handle j
  | _ => .error s!"unknown property {p}"

partial def loop (hin : IO.FS.Stream) (hout : IO.FS.Stream) : IO Unit := do
  let line ← hin.getLine
  if line.isEmpty then return ()
  let ans : Json :=
    match Json.parse line with
    | .error e => Json.mkObj [("driver_error", Json.str s!"parse: {e}")]
    | .ok j => match dispatch j with
      | .ok r => r
      | .error e => Json.mkObj [("driver_error", Json.str e)]
  hout.putStrLn ans.compress
  loop hin hout

def main : IO Unit := do
  let hin ← IO.getStdin
  let hout ← IO.getStdout
  loop hin hout
  hout.flush

/-
  C20 — property theorems (model: ShelxModel/C20.lean), over exact real arithmetic.
-/
import ShelxModel.C20
import ShelxModel.Extracted.C20Src
import ShelxProps.Lemmas.C20Jacobi
import ShelxProps.Lemmas.C20Heap
import Mathlib.Tactic.Ring
import Mathlib.Tactic.Linarith
import Mathlib.Tactic.LinearCombination
import Mathlib.Tactic.NormNum
import Mathlib.Tactic.FieldSimp
import Mathlib.Data.Real.Basic
import Mathlib.Analysis.Real.Sqrt

namespace Shelx.C20

/-! ### q2mat gives a proper rotation -/

/-- what `q2mat` does without the unit-norm assumption: `RᵀR = RRᵀ = (Σq²)²·1`, `det R = (Σq²)³` -/
theorem q2mat_general (q : Q4 ℝ) :
    mulT (q2mat q) (q2mat q) = ⟨qnorm2 q ^ 2, 0, 0, 0, qnorm2 q ^ 2, 0, 0, 0, qnorm2 q ^ 2⟩ ∧
    det3 (q2mat q) = qnorm2 q ^ 3 := by
  refine ⟨?_, ?_⟩
  · simp only [mulT, q2mat, qnorm2, M3.mk.injEq]
    refine ⟨?_, ?_, ?_, ?_, ?_, ?_, ?_, ?_, ?_⟩ <;> ring
  · simp only [det3, q2mat, qnorm2]; ring

/-- **q2mat_proper**: for a unit quaternion the nine literal entries of `q2mat` form a proper rotation -/
theorem q2mat_proper (q : Q4 ℝ) (h : qnorm2 q = 1) : IsProper (q2mat q) := by
  have h' : q.q0 * q.q0 + q.q1 * q.q1 + q.q2 * q.q2 + q.q3 * q.q3 = 1 := h
  refine ⟨?_, ?_, ?_⟩
  · simp only [mulT, q2mat, M3.one, M3.mk.injEq]
    refine ⟨?_, ?_, ?_, ?_, ?_, ?_, ?_, ?_, ?_⟩ <;>
      first
        | ring1
        | linear_combination (q.q0 * q.q0 + q.q1 * q.q1 + q.q2 * q.q2 + q.q3 * q.q3 + 1) * h'
  · simp only [mulT, transpose, q2mat, M3.one, M3.mk.injEq]
    refine ⟨?_, ?_, ?_, ?_, ?_, ?_, ?_, ?_, ?_⟩ <;>
      first
        | ring1
        | linear_combination (q.q0 * q.q0 + q.q1 * q.q1 + q.q2 * q.q2 + q.q3 * q.q3 + 1) * h'
  · simp only [det3, q2mat]
    linear_combination ((q.q0 * q.q0 + q.q1 * q.q1 + q.q2 * q.q2 + q.q3 * q.q3) ^ 2
      + (q.q0 * q.q0 + q.q1 * q.q1 + q.q2 * q.q2 + q.q3 * q.q3) + 1) * h'

/-- the matrix `qtrfit` returns is `transpose (q2mat q)`; it is proper as well -/
theorem qtrfit_matrix_proper (q : Q4 ℝ) (h : qnorm2 q = 1) : IsProper (transpose (q2mat q)) := by
  obtain ⟨h1, h2, h3⟩ := q2mat_proper q h
  refine ⟨h2, ?_, ?_⟩
  · simpa [transpose] using h1
  · rw [← h3]; simp only [det3, transpose]; ring

example : IsProper (q2mat (⟨1/2, 1/2, 1/2, 1/2⟩ : Q4 ℝ)) := q2mat_proper _ (by norm_num [qnorm2])

/-! ### rotmol applies the transpose; the model's fold is the plain sum of squared distances -/

theorem rotPoint_transpose (u : M3 ℝ) (p : P3 ℝ) : rotPoint (transpose u) p = mulVec u p := by
  simp [rotPoint, transpose, mulVec]

theorem ssd_foldl (l : List (P3 ℝ × P3 ℝ)) (acc : ℝ) :
    l.foldl ssdStep acc = acc + (l.map fun p => dist2 p.1 p.2).sum := by
  induction l generalizing acc with
  | nil => simp
  | cons p t ih =>
    simp only [List.foldl_cons, List.map_cons, List.sum_cons]
    rw [ih]; simp only [ssdStep, dist2]; ring

/-- the accumulated value of `rmsd` over `zip(rotmol(x, Uᵀ… ), y)` is `Σ‖R xᵢ − yᵢ‖²` -/
theorem ssd_rotmol (r : M3 ℝ) (l : List (P3 ℝ × P3 ℝ)) :
    ssd ((rotmol (l.map (·.1)) (transpose r)).zip (l.map (·.2))) = ssdDirect r l := by
  unfold ssd
  rw [ssd_foldl]
  induction l with
  | nil => simp [rotmol, ssdDirect]
  | cons p t ih =>
    simp only [rotmol, List.map_cons, List.zip_cons_cons, List.sum_cons, ssdDirect, rotPoint_transpose] at ih ⊢
    linarith

/-! ### Horn's identity for the matrix the code builds -/

/-- one point pair: `‖R(q)x − y‖² = (Σq²)²‖x‖² + ‖y‖² − 2 qᵀ N(x,y) q` with the code's `q2mat` and the code's form -/
theorem horn_pair (q : Q4 ℝ) (x y : P3 ℝ) :
    dist2 (mulVec (q2mat q) x) y
      = qnorm2 q ^ 2 * norm2 x + norm2 y - 2 * quad (qformOf (corrStep acc0 (x, y))) q := by
  simp only [dist2, mulVec, q2mat, qnorm2, norm2, quad, dotQ, mulQ, qformOf, corrStep, acc0]
  ring

theorem quad_corrStep (q : Q4 ℝ) (a : Acc9 ℝ) (p : P3 ℝ × P3 ℝ) :
    quad (qformOf (corrStep a p)) q = quad (qformOf a) q + quad (qformOf (corrStep acc0 p)) q := by
  simp only [quad, dotQ, mulQ, qformOf, corrStep, acc0]
  ring

theorem quad_corr_foldl (q : Q4 ℝ) (l : List (P3 ℝ × P3 ℝ)) (a : Acc9 ℝ) :
    quad (qformOf (l.foldl corrStep a)) q
      = quad (qformOf a) q + (l.map fun p => quad (qformOf (corrStep acc0 p)) q).sum := by
  induction l generalizing a with
  | nil => simp
  | cons p t ih =>
    simp only [List.foldl_cons, List.map_cons, List.sum_cons]
    rw [ih, quad_corrStep]; ring

theorem quad_acc0 (q : Q4 ℝ) : quad (qformOf (acc0 : Acc9 ℝ)) q = 0 := by
  simp only [quad, dotQ, mulQ, qformOf, acc0]; ring

/-- **horn_identity** (general form, no norm assumption): for the form `N` that `qtrfit` builds from the paired
    points, `Σ‖q2mat(q)·xᵢ − yᵢ‖² = (Σq²)²·Σ‖xᵢ‖² + Σ‖yᵢ‖² − 2 qᵀNq`. -/
theorem horn_identity_general (q : Q4 ℝ) (l : List (P3 ℝ × P3 ℝ)) :
    ssdDirect (q2mat q) l
      = qnorm2 q ^ 2 * sumSq (l.map (·.1)) + sumSq (l.map (·.2)) - 2 * quad (qformPairs l) q := by
  unfold qformPairs corr
  rw [quad_corr_foldl, quad_acc0]
  induction l with
  | nil => simp [ssdDirect, sumSq]
  | cons p t ih =>
    simp only [ssdDirect, List.map_cons, sumSq, List.sum_cons]
    rw [ih, horn_pair]; ring

/-- **horn_identity**: for a unit quaternion, what `rmsd` accumulates after `rotmol(x, qtrfit-matrix)` is
    `Σ‖xᵢ‖² + Σ‖yᵢ‖² − 2 qᵀNq` (`N` = the code's 4×4 matrix, rotation applied the way the code applies it). -/
theorem horn_identity (q : Q4 ℝ) (h : qnorm2 q = 1) (l : List (P3 ℝ × P3 ℝ)) :
    ssd ((rotmol (l.map (·.1)) (transpose (q2mat q))).zip (l.map (·.2)))
      = sumSq (l.map (·.1)) + sumSq (l.map (·.2)) - 2 * quad (qformPairs l) q := by
  rw [ssd_rotmol, horn_identity_general, h]; ring

/-- a half turn about x maps (1,2,3) onto (1,-2,-3): the right-hand side of the identity is 0 -/
example : qnorm2 (⟨0, 1, 0, 0⟩ : Q4 ℝ) = 1 ∧
    sumSq ([((⟨1, 2, 3⟩ : P3 ℝ), (⟨1, -2, -3⟩ : P3 ℝ))].map (·.1)) + sumSq ([((⟨1, 2, 3⟩ : P3 ℝ), (⟨1, -2, -3⟩ : P3 ℝ))].map (·.2))
      - 2 * quad (qformPairs [((⟨1, 2, 3⟩ : P3 ℝ), (⟨1, -2, -3⟩ : P3 ℝ))]) ⟨0, 1, 0, 0⟩ = 0 := by
  norm_num [qnorm2, sumSq, norm2, quad, dotQ, mulQ, qformPairs, corr, qformOf, corrStep, acc0]

/-! ### optimality of the top eigenvector -/

/-- `N v = λ v` and `‖v‖ = 1` give `vᵀNv = λ` -/
theorem quad_of_eigen (n : S4 ℝ) (v : Q4 ℝ) (lam : ℝ) (hv : qnorm2 v = 1)
    (he : mulQ n v = ⟨lam * v.q0, lam * v.q1, lam * v.q2, lam * v.q3⟩) : quad n v = lam := by
  unfold quad; rw [he]
  simp only [dotQ]
  have : v.q0 * v.q0 + v.q1 * v.q1 + v.q2 * v.q2 + v.q3 * v.q3 = 1 := hv
  linear_combination lam * this

/-- **top_eigvec_optimal**: if `v` is a unit eigenvector of the code's form for an eigenvalue `λ` that bounds the
    form on the unit sphere, then the rotation the code makes of `v` has the least sum of squared deviations
    (hence the least RMSD) among the rotations made of any unit quaternion. -/
theorem top_eigvec_optimal (l : List (P3 ℝ × P3 ℝ)) (v : Q4 ℝ) (lam : ℝ) (hv : qnorm2 v = 1)
    (he : mulQ (qformPairs l) v = ⟨lam * v.q0, lam * v.q1, lam * v.q2, lam * v.q3⟩)
    (htop : ∀ u : Q4 ℝ, qnorm2 u = 1 → quad (qformPairs l) u ≤ lam)
    (u : Q4 ℝ) (hu : qnorm2 u = 1) :
    ssd ((rotmol (l.map (·.1)) (transpose (q2mat v))).zip (l.map (·.2)))
      ≤ ssd ((rotmol (l.map (·.1)) (transpose (q2mat u))).zip (l.map (·.2))) := by
  rw [horn_identity v hv, horn_identity u hu, quad_of_eigen _ v lam hv he]
  have := htop u hu
  linarith

/-- the same against every proper rotation `R` applied the ordinary way, given that each proper rotation is the
    matrix of some unit quaternion (`hsurj`; true — Euler/Rodrigues — but not proved here, hence a hypothesis). -/
theorem optimal_among_proper_rotations (l : List (P3 ℝ × P3 ℝ)) (v : Q4 ℝ) (lam : ℝ) (hv : qnorm2 v = 1)
    (he : mulQ (qformPairs l) v = ⟨lam * v.q0, lam * v.q1, lam * v.q2, lam * v.q3⟩)
    (htop : ∀ u : Q4 ℝ, qnorm2 u = 1 → quad (qformPairs l) u ≤ lam)
    (hsurj : ∀ r : M3 ℝ, IsProper r → ∃ u : Q4 ℝ, qnorm2 u = 1 ∧ q2mat u = r)
    (r : M3 ℝ) (hr : IsProper r) :
    ssd ((rotmol (l.map (·.1)) (transpose (q2mat v))).zip (l.map (·.2))) ≤ ssdDirect r l := by
  obtain ⟨u, hu, rfl⟩ := hsurj r hr
  rw [← ssd_rotmol]
  exact top_eigvec_optimal l v lam hv he htop u hu

/-! ### RMSD level; exact copies -/

theorem lenK_foldl {α : Type} (l : List α) (acc : ℝ) : l.foldl (fun n _ => n + 1) acc = acc + (l.length : ℝ) := by
  induction l generalizing acc with
  | nil => simp
  | cons a t ih => simp only [List.foldl_cons, List.length_cons]; rw [ih]; push_cast; ring

theorem lenK_eq {α : Type} (l : List α) : (lenK l : ℝ) = (l.length : ℝ) := by
  unfold lenK; rw [lenK_foldl]; simp

theorem dist2_nonneg (a b : P3 ℝ) : 0 ≤ dist2 a b := by
  unfold dist2; nlinarith [mul_self_nonneg (a.x - b.x), mul_self_nonneg (a.y - b.y), mul_self_nonneg (a.z - b.z)]

theorem ssd_nonneg (l : List (P3 ℝ × P3 ℝ)) : 0 ≤ ssd l := by
  unfold ssd; rw [ssd_foldl]
  induction l with
  | nil => simp
  | cons p t ih =>
    simp only [List.map_cons, List.sum_cons] at ih ⊢
    have := dist2_nonneg p.1 p.2
    linarith

theorem dist2_eq_zero (a b : P3 ℝ) (h : dist2 a b = 0) : a = b := by
  unfold dist2 at h
  have hx : (a.x - b.x) * (a.x - b.x) = 0 := by
    nlinarith [mul_self_nonneg (a.x - b.x), mul_self_nonneg (a.y - b.y), mul_self_nonneg (a.z - b.z)]
  have hy : (a.y - b.y) * (a.y - b.y) = 0 := by
    nlinarith [mul_self_nonneg (a.x - b.x), mul_self_nonneg (a.y - b.y), mul_self_nonneg (a.z - b.z)]
  have hz : (a.z - b.z) * (a.z - b.z) = 0 := by
    nlinarith [mul_self_nonneg (a.x - b.x), mul_self_nonneg (a.y - b.y), mul_self_nonneg (a.z - b.z)]
  cases a; cases b
  simp only [P3.mk.injEq]
  simp only [mul_self_eq_zero, sub_eq_zero] at hx hy hz
  exact ⟨hx, hy, hz⟩

/-- a vanishing sum of squared deviations means that every pair coincides -/
theorem ssd_eq_zero (l : List (P3 ℝ × P3 ℝ)) (h : ssd l = 0) : ∀ p ∈ l, p.1 = p.2 := by
  unfold ssd at h; rw [ssd_foldl] at h
  induction l with
  | nil => simp
  | cons p t ih =>
    simp only [List.map_cons, List.sum_cons, zero_add] at h ih
    have h1 := dist2_nonneg p.1 p.2
    have h2 : 0 ≤ (t.map fun p => dist2 p.1 p.2).sum := by
      have := ssd_nonneg t; unfold ssd at this; rw [ssd_foldl] at this; simpa using this
    intro x hx
    rcases List.mem_cons.mp hx with rfl | hx
    · exact dist2_eq_zero _ _ (by linarith)
    · exact ih (by linarith) x hx

theorem ssdDirect_exact (r : M3 ℝ) (l : List (P3 ℝ × P3 ℝ)) (h : ∀ p ∈ l, p.2 = mulVec r p.1) : ssdDirect r l = 0 := by
  induction l with
  | nil => rfl
  | cons p t ih =>
    simp only [ssdDirect]
    rw [ih (fun x hx => h x (List.mem_cons_of_mem _ hx)), h p (List.mem_cons_self ..)]
    simp [dist2]

/-- **rmsd_optimal**: the RMSD helper applied after the fit is minimal (any monotone `sqrt`) -/
theorem rmsd_optimal (sqrt : ℝ → ℝ) (hmono : ∀ a b, a ≤ b → sqrt a ≤ sqrt b)
    (l : List (P3 ℝ × P3 ℝ)) (hl : l ≠ []) (v : Q4 ℝ) (lam : ℝ) (hv : qnorm2 v = 1)
    (he : mulQ (qformPairs l) v = ⟨lam * v.q0, lam * v.q1, lam * v.q2, lam * v.q3⟩)
    (htop : ∀ u : Q4 ℝ, qnorm2 u = 1 → quad (qformPairs l) u ≤ lam)
    (u : Q4 ℝ) (hu : qnorm2 u = 1) :
    ∃ a b, rmsd sqrt (rotmol (l.map (·.1)) (transpose (q2mat v))) (l.map (·.2)) = some a ∧
           rmsd sqrt (rotmol (l.map (·.1)) (transpose (q2mat u))) (l.map (·.2)) = some b ∧ a ≤ b := by
  obtain ⟨p, t, rfl⟩ := List.exists_cons_of_ne_nil hl
  refine ⟨_, _, rfl, rfl, ?_⟩
  apply hmono
  have h := top_eigvec_optimal (p :: t) v lam hv he htop u hu
  have hn : (0 : ℝ) < lenK (rotmol ((p :: t).map (·.1)) (transpose (q2mat v))) := by
    rw [lenK_eq]; simp [rotmol]; positivity
  have e : (lenK (rotmol ((p :: t).map (·.1)) (transpose (q2mat u))) : ℝ)
      = lenK (rotmol ((p :: t).map (·.1)) (transpose (q2mat v))) := by
    rw [lenK_eq, lenK_eq]; simp [rotmol]
  rw [e]
  exact div_le_div_of_nonneg_right h hn.le

/-- **exact_copy_zero_rmsd**: if the target is an exactly rotated copy of the source (by the rotation of a unit
    quaternion `u₀`), the deviation after fitting with a top eigenvector is zero and the fitted points are the targets. -/
theorem exact_copy_zero_rmsd (sqrt : ℝ → ℝ) (h0 : sqrt 0 = 0)
    (l : List (P3 ℝ × P3 ℝ)) (hl : l ≠ []) (u0 : Q4 ℝ) (hu0 : qnorm2 u0 = 1)
    (hcopy : ∀ p ∈ l, p.2 = mulVec (q2mat u0) p.1)
    (v : Q4 ℝ) (lam : ℝ) (hv : qnorm2 v = 1)
    (he : mulQ (qformPairs l) v = ⟨lam * v.q0, lam * v.q1, lam * v.q2, lam * v.q3⟩)
    (htop : ∀ u : Q4 ℝ, qnorm2 u = 1 → quad (qformPairs l) u ≤ lam) :
    rmsd sqrt (rotmol (l.map (·.1)) (transpose (q2mat v))) (l.map (·.2)) = some 0 ∧
    rotmol (l.map (·.1)) (transpose (q2mat v)) = l.map (·.2) := by
  have hle := top_eigvec_optimal l v lam hv he htop u0 hu0
  rw [ssd_rotmol (q2mat u0), ssdDirect_exact _ _ hcopy] at hle
  have hz : ssd ((rotmol (l.map (·.1)) (transpose (q2mat v))).zip (l.map (·.2))) = 0 :=
    le_antisymm hle (ssd_nonneg _)
  constructor
  · obtain ⟨p, t, rfl⟩ := List.exists_cons_of_ne_nil hl
    simp only [rmsd, rotmol, List.map_cons] at hz ⊢
    rw [hz]; simp [h0]
  · have hall := ssd_eq_zero _ hz
    apply List.ext_getElem
    · simp [rotmol]
    · intro i h1 h2
      have hm : ((rotmol (l.map (·.1)) (transpose (q2mat v)))[i], (l.map (·.2))[i])
          ∈ (rotmol (l.map (·.1)) (transpose (q2mat v))).zip (l.map (·.2)) := by
        have hi : i < ((rotmol (l.map (·.1)) (transpose (q2mat v))).zip (l.map (·.2))).length := by
          simp [rotmol] at h1 ⊢; exact h1
        have := List.getElem_mem hi
        simpa [List.getElem_zip] using this
      exact hall _ hm

/-! ### fit_fragment (as repaired) -/

theorem ssd_eq_sum (l : List (P3 ℝ × P3 ℝ)) : ssd l = (l.map fun p => dist2 p.1 p.2).sum := by
  unfold ssd; rw [ssd_foldl]; simp

/-- deviations do not change when both sets are moved together: centred target vs rotated centred source is the
    same as target vs placed source -/
theorem ssd_place (u : M3 ℝ) (pc qc : P3 ℝ) (src tgt : List (P3 ℝ)) :
    ssd ((minusVect tgt qc).zip (rotmol (minusVect src pc) u))
      = ssd (tgt.zip (src.map (placeSpec (transpose u) pc qc))) := by
  rw [ssd_eq_sum, ssd_eq_sum]
  simp only [minusVect, rotmol, List.map_map]
  rw [List.zip_map, List.zip_map_right, List.map_map, List.map_map]
  congr 1
  apply List.map_congr_left
  intro p _
  simp only [Function.comp, Prod.map, dist2, placeSpec, rotPoint, mulVec, transpose, id]
  ring

/-- **fit_fragment_places**: whatever rotation `U` the fit returns, the repaired `fit_fragment` moves EVERY atom `p`
    of the fragment (wherever the fragment lies) to `Uᵀ(p − p̄) + t̄` (`p̄`, `t̄` = what `centroid` returns for the source
    and target atoms), and the value it reports is the `rmsd` between the targets and the source atoms at their new
    places, i.e. the deviation after the fit. -/
theorem fit_fragment_places (isZero : ℝ → Bool) (sqrt : ℝ → ℝ)
    (fit : List (P3 ℝ) → List (P3 ℝ) → Option (M3 ℝ)) (frag src tgt out : List (P3 ℝ)) (rms : ℝ)
    (h : fitFragment isZero sqrt fit frag src tgt = some (out, rms)) :
    ∃ pc qc u, centroid isZero src = some pc ∧ centroid isZero tgt = some qc ∧
      fit (minusVect src pc) (minusVect tgt qc) = some u ∧
      out = frag.map (placeSpec (transpose u) pc qc) ∧
      rmsd sqrt tgt (src.map (placeSpec (transpose u) pc qc)) = some rms := by
  unfold fitFragment at h
  split at h
  · rename_i pc qc hpc hqc
    simp only at h
    split at h
    · exact absurd h (by simp)
    · rename_i u hu
      split at h
      · exact absurd h (by simp)
      · rename_i r hr
        simp only [Option.some.injEq, Prod.mk.injEq] at h
        obtain ⟨hout, hrms⟩ := h
        refine ⟨pc, qc, u, hpc, hqc, hu, ?_, ?_⟩
        · rw [← hout]
          simp only [plusVect, rotmol, minusVect, List.map_map]
          apply List.map_congr_left
          intro p _
          simp [Function.comp, placeSpec, rotPoint, mulVec, transpose]
        · cases tgt with
          | nil => simp [minusVect, rmsd] at hr
          | cons t ts =>
            simp only [minusVect, List.map_cons, rmsd, Option.some.injEq] at hr
            simp only [rmsd, Option.some.injEq]
            rw [← hrms, ← hr]
            have := ssd_place u pc qc src (t :: ts)
            simp only [minusVect, List.map_cons] at this
            rw [this]
            congr 1
            rw [lenK_eq, lenK_eq]; simp
  · exact absurd h (by simp)

/-! `centroid` returns the mean -/

theorem centroid_foldl (pts : List (P3 ℝ)) (a : P3 ℝ × ℝ) :
    pts.foldl (fun (a : P3 ℝ × ℝ) p => ((⟨a.1.x + p.x, a.1.y + p.y, a.1.z + p.z⟩ : P3 ℝ), a.2 + 1)) a
      = (⟨a.1.x + (pts.map (·.x)).sum, a.1.y + (pts.map (·.y)).sum, a.1.z + (pts.map (·.z)).sum⟩, a.2 + pts.length) := by
  induction pts generalizing a with
  | nil => simp
  | cons p t ih =>
    simp only [List.foldl_cons, List.map_cons, List.sum_cons, List.length_cons]
    rw [ih]; push_cast
    simp only [Prod.mk.injEq, P3.mk.injEq]
    refine ⟨⟨?_, ?_, ?_⟩, ?_⟩ <;> ring

/-- **centroid_mean**: on a non-empty list `centroid` returns the component-wise mean -/
theorem centroid_mean (isZero : ℝ → Bool) (hz : ∀ x, isZero x = true ↔ x = 0) (pts : List (P3 ℝ)) (hne : pts ≠ []) :
    centroid isZero pts = some ⟨(pts.map (·.x)).sum / pts.length, (pts.map (·.y)).sum / pts.length,
                               (pts.map (·.z)).sum / pts.length⟩ := by
  unfold centroid
  rw [centroid_foldl]
  have hpos : (0 : ℝ) < pts.length := by
    have : 0 < pts.length := List.length_pos_iff.mpr hne
    exact_mod_cast this
  have hnz : ¬ (isZero (pts.length : ℝ) = true) := by
    rw [hz]; linarith
  simp [hnz]

/-! ### one Jacobi rotation (convergence of the sweeps is NOT proved; each run certifies the result instead)

  `jacobiRot i j c s b` is the body of the innermost `if` of `jacobi` once `c`, `s` are chosen. Lemmas
  `jacobiRot_v`, `jacobiRot_a`, `givens_orth` (ShelxProps/Lemmas/C20Jacobi.lean) show that the in-place index loops
  compute `V·G` and `Gᵀ·A·G` for the Givens matrix `G`; hence the invariant below. -/

/-- the invariant of the Jacobi iteration: `Vᵀ N₀ V` is the matrix held in `matrix`/`eigenval`, and `VᵀV = 1` -/
def JInv (n0 : Nat → Nat → ℝ) (st : JState ℝ) : Prop :=
  (∀ r k, r < 4 → k < 4 → mul4 (tr4 (fun p q => st.v p q)) (mul4 n0 (fun p q => st.v p q)) r k = symOf st.a st.d r k) ∧
  (∀ r k, r < 4 → k < 4 → mul4 (tr4 (fun p q => st.v p q)) (fun p q => st.v p q) r k = delta4 r k)

theorem jacobi_step_invariant (n0 : Nat → Nat → ℝ) (i j : Nat) (hij : i < j) (hj : j < 4) (c s : ℝ) (st : JState ℝ)
    (hcs : c * c + s * s = 1)
    (hzero : (c * c - s * s) * st.a i j - c * s * (st.d j - st.d i) = 0)
    (hinv : JInv n0 st) : JInv n0 (jacobiRot i j c s (st.a i j) st) := by
  obtain ⟨hA, hO⟩ := hinv
  have hv := jacobiRot_v i j hij hj c s (st.a i j) st
  have ha := jacobiRot_a i j hij hj c s st hzero
  have hg := givens_orth i j hij hj c s hcs
  constructor
  · intro r k hr hk
    rw [ha r k hr hk]
    have e : mul4 (tr4 (fun p q => (jacobiRot i j c s (st.a i j) st).v p q)) (mul4 n0 (fun p q => (jacobiRot i j c s (st.a i j) st).v p q)) r k
        = mul4 (tr4 (mul4 (fun p q => st.v p q) (givens i j c s))) (mul4 n0 (mul4 (fun p q => st.v p q) (givens i j c s))) r k := by
      simp only [mul4, tr4, hv 0 r (by omega) hr, hv 1 r (by omega) hr, hv 2 r (by omega) hr, hv 3 r (by omega) hr, hv 0 k (by omega) hk, hv 1 k (by omega) hk, hv 2 k (by omega) hk, hv 3 k (by omega) hk]
    rw [e, mul4_assoc3]
    generalize mul4 (tr4 (fun p q => st.v p q)) (mul4 n0 (fun p q => st.v p q)) = X at hA
    simp only [mul4, tr4, hA 0 0 (by omega) (by omega), hA 0 1 (by omega) (by omega), hA 0 2 (by omega) (by omega), hA 0 3 (by omega) (by omega), hA 1 0 (by omega) (by omega), hA 1 1 (by omega) (by omega), hA 1 2 (by omega) (by omega), hA 1 3 (by omega) (by omega), hA 2 0 (by omega) (by omega), hA 2 1 (by omega) (by omega), hA 2 2 (by omega) (by omega), hA 2 3 (by omega) (by omega), hA 3 0 (by omega) (by omega), hA 3 1 (by omega) (by omega), hA 3 2 (by omega) (by omega), hA 3 3 (by omega) (by omega)]
  · intro r k hr hk
    have e : mul4 (tr4 (fun p q => (jacobiRot i j c s (st.a i j) st).v p q)) (fun p q => (jacobiRot i j c s (st.a i j) st).v p q) r k
        = mul4 (tr4 (mul4 (fun p q => st.v p q) (givens i j c s))) (mul4 (fun p q => st.v p q) (givens i j c s)) r k := by
      simp only [mul4, tr4, hv 0 r (by omega) hr, hv 1 r (by omega) hr, hv 2 r (by omega) hr, hv 3 r (by omega) hr, hv 0 k (by omega) hk, hv 1 k (by omega) hk, hv 2 k (by omega) hk, hv 3 k (by omega) hk]
    rw [e, mul4_assoc2, ← hg r k hr hk]
    generalize mul4 (tr4 (fun p q => st.v p q)) (fun p q => st.v p q) = X at hO
    simp only [mul4, tr4, hO 0 0 (by omega) (by omega), hO 0 1 (by omega) (by omega), hO 0 2 (by omega) (by omega), hO 0 3 (by omega) (by omega), hO 1 0 (by omega) (by omega), hO 1 1 (by omega) (by omega), hO 1 2 (by omega) (by omega), hO 1 3 (by omega) (by omega), hO 2 0 (by omega) (by omega), hO 2 1 (by omega) (by omega), hO 2 2 (by omega) (by omega), hO 2 3 (by omega) (by omega), hO 3 0 (by omega) (by omega), hO 3 1 (by omega) (by omega), hO 3 2 (by omega) (by omega), hO 3 3 (by omega) (by omega)]
    simp only [delta4]
    norm_num

/-- the `c`, `s` that `jacobi` computes (`t` a root of `b t² + (d_j − d_i) t − b = 0` — over ℝ the code's
    `t = sgn(q)/(|q| + sqrt(1 + q²))`, `q = (d_j − d_i)/(2b)` is one —, `c = 1/sqrt(t² + 1)`, `s = t·c`) meet the two
    hypotheses of `jacobi_step_invariant`; `r` stands for `sqrt(t·t + 1)` -/
theorem rot_params_ok (b dma t r : ℝ) (hr : r * r = t * t + 1) (hr0 : r ≠ 0) (ht : b * t * t + dma * t - b = 0) :
    (1 / r) * (1 / r) + (t * (1 / r)) * (t * (1 / r)) = 1 ∧
    ((1 / r) * (1 / r) - (t * (1 / r)) * (t * (1 / r))) * b - (1 / r) * (t * (1 / r)) * dma = 0 := by
  have h2 : (1 / r) * (1 / r) * (t * t + 1) = 1 := by rw [← hr]; field_simp
  constructor
  · linear_combination h2
  · linear_combination (-((1 / r) * (1 / r))) * ht

example : ((3:ℝ)/5) * (3/5) + (4/5) * (4/5) = 1 ∧ (((3:ℝ)/5) * (3/5) - (4/5) * (4/5)) * 12 - (3/5) * (4/5) * (-7) = 0 := by
  norm_num

/-! ### the whole Jacobi iteration, with the rotation parameters the code computes (all inputs)

  `jacobi_step_invariant` asks for `c² + s² = 1` and for the annihilation equation. Below they are discharged for the
  `t`, `c`, `s` that `jacobi` itself computes, in EVERY branch: `fabs(b) > 0` false (no rotation), the `b / dma` branch (over
  the reals never taken when `|b| > 0`), `q < 0`, `q > 0` and `q = 0` (equal diagonal elements: `t = +1`, a turn by 45
  degrees — with `t = 0` there the element would be dropped without a rotation and the invariant would break).
  Hence the invariant holds after any number of sweeps, the final column sort keeps `VᵀV = 1`, and `qtrfit` returns a
  unit quaternion and a proper rotation for all inputs. `sqrt` is a parameter; only `sqrt x ≥ 0`, `sqrt x · sqrt x = x`
  (for `x ≥ 0`) is used. -/

noncomputable def rops (sqrt : ℝ → ℝ) : JOps ℝ :=
  { abs := fun x => |x|, sqrt := sqrt, lt := fun a b => decide (a < b), le := fun a b => decide (a ≤ b),
    isZero := fun a => decide (a = 0), half := 1 / 2, eps := 1 / 1000000000000 }

def IsSqrt (sqrt : ℝ → ℝ) : Prop := ∀ x, 0 ≤ x → 0 ≤ sqrt x ∧ sqrt x * sqrt x = x

theorem tangent_aux (a r : ℝ) (ha : 0 ≤ a) (hr : 0 < r) (hrr : r * r = 1 + a * a) :
    (1 / (a + r)) * (1 / (a + r)) + 2 * a * (1 / (a + r)) - 1 = 0 := by
  have hD : a + r ≠ 0 := by positivity
  field_simp
  nlinarith

theorem code_tangent_root (sqrt : ℝ → ℝ) (hs : IsSqrt sqrt) (b dma : ℝ) (hb : b ≠ 0) :
    b * (if 1 / 2 * dma / b < 0 then -(1 / (|1 / 2 * dma / b| + sqrt (1 + 1 / 2 * dma / b * (1 / 2 * dma / b))))
          else 1 / (|1 / 2 * dma / b| + sqrt (1 + 1 / 2 * dma / b * (1 / 2 * dma / b))))
      * (if 1 / 2 * dma / b < 0 then -(1 / (|1 / 2 * dma / b| + sqrt (1 + 1 / 2 * dma / b * (1 / 2 * dma / b))))
          else 1 / (|1 / 2 * dma / b| + sqrt (1 + 1 / 2 * dma / b * (1 / 2 * dma / b))))
      + dma * (if 1 / 2 * dma / b < 0 then -(1 / (|1 / 2 * dma / b| + sqrt (1 + 1 / 2 * dma / b * (1 / 2 * dma / b))))
          else 1 / (|1 / 2 * dma / b| + sqrt (1 + 1 / 2 * dma / b * (1 / 2 * dma / b)))) - b = 0 := by
  generalize hqd : 1 / 2 * dma / b = q
  have hq : dma = 2 * q * b := by rw [← hqd]; field_simp
  obtain ⟨hr0, hrr⟩ := hs (1 + q * q) (by nlinarith [mul_self_nonneg q])
  generalize sqrt (1 + q * q) = r at hr0 hrr
  have hrpos : 0 < r := by
    rcases lt_or_eq_of_le hr0 with h | h
    · exact h
    · rw [← h] at hrr; nlinarith [mul_self_nonneg q]
  have h0 := tangent_aux |q| r (abs_nonneg q) hrpos (by rw [hrr, abs_mul_abs_self])
  by_cases hneg : q < 0
  · rw [if_pos hneg, hq]
    rw [abs_of_neg hneg] at h0 ⊢
    linear_combination b * h0
  · rw [if_neg hneg, hq]
    rw [abs_of_nonneg (not_lt.mp hneg)] at h0 ⊢
    linear_combination b * h0

theorem rotIf_invariant (sqrt : ℝ → ℝ) (hs : IsSqrt sqrt) (n0 : Nat → Nat → ℝ) (i j : Nat) (hij : i < j) (hj : j < 4)
    (st : JState ℝ) (hinv : JInv n0 st) : JInv n0 (rotIf (rops sqrt) i j st) := by
  unfold rotIf
  simp only [rops, decide_eq_true_eq]
  by_cases hb : (0:ℝ) < |st.a i j|
  · have hb0 : st.a i j ≠ 0 := abs_pos.mp hb
    have hbranch : ¬ (|st.d j - st.d i| + |st.a i j| ≤ |st.d j - st.d i|) := by linarith
    rw [if_pos hb, if_neg hbranch]
    have ht := code_tangent_root sqrt hs (st.a i j) (st.d j - st.d i) hb0
    generalize (if 1 / 2 * (st.d j - st.d i) / st.a i j < 0 then
        -(1 / (|1 / 2 * (st.d j - st.d i) / st.a i j| + sqrt (1 + 1 / 2 * (st.d j - st.d i) / st.a i j * (1 / 2 * (st.d j - st.d i) / st.a i j))))
      else 1 / (|1 / 2 * (st.d j - st.d i) / st.a i j| + sqrt (1 + 1 / 2 * (st.d j - st.d i) / st.a i j * (1 / 2 * (st.d j - st.d i) / st.a i j)))) = t at ht
    obtain ⟨hr0, hrr⟩ := hs (t * t + 1) (by nlinarith [mul_self_nonneg t])
    have hrne : sqrt (t * t + 1) ≠ 0 := by
      intro h; rw [h] at hrr; nlinarith [mul_self_nonneg t]
    obtain ⟨h1, h2⟩ := rot_params_ok (st.a i j) (st.d j - st.d i) t (sqrt (t * t + 1)) hrr hrne ht
    exact jacobi_step_invariant n0 i j hij hj _ _ st h1 h2 hinv
  · rw [if_neg hb]; exact hinv


theorem foldl_inv {α β : Type} (P : β → Prop) (f : β → α → β) (l : List α) (b : β)
    (h : ∀ x ∈ l, ∀ s, P s → P (f s x)) (hb : P b) : P (l.foldl f b) := by
  induction l generalizing b with
  | nil => exact hb
  | cons x t ih =>
    simp only [List.foldl_cons]
    exact ih _ (fun y hy s hs => h y (List.mem_cons_of_mem _ hy) s hs) (h x (List.mem_cons_self ..) b hb)

theorem sweep_invariant (sqrt : ℝ → ℝ) (hs : IsSqrt sqrt) (n0 : Nat → Nat → ℝ) (st : JState ℝ) (hinv : JInv n0 st) :
    JInv n0 (sweep (rops sqrt) st) := by
  unfold sweep
  apply foldl_inv (JInv n0) _ _ _ _ hinv
  intro j hjm s hsI
  have hj : j < 4 := by
    have := List.mem_range'_1.mp hjm; omega
  apply foldl_inv (JInv n0) _ _ _ _ hsI
  intro i him s' hs'
  exact rotIf_invariant sqrt hs n0 i j (List.mem_range.mp him) hj s' hs'

theorem jacobiLoop_invariant (sqrt : ℝ → ℝ) (hs : IsSqrt sqrt) (n0 : Nat → Nat → ℝ) (fuel : Nat) (st st' : JState ℝ)
    (hinv : JInv n0 st) (h : jacobiLoop (rops sqrt) fuel st = some st') : JInv n0 st' := by
  induction fuel generalizing st with
  | zero => simp only [jacobiLoop, Option.some.injEq] at h; exact h ▸ hinv
  | succ n ih =>
    unfold jacobiLoop at h
    simp only at h
    split at h
    · simp only [Option.some.injEq] at h; exact h ▸ hinv
    · exact ih _ (sweep_invariant sqrt hs n0 st hinv) h

/-- the start of `jacobi`: `eigenvect` = unit matrix, `eigenval` = the diagonal -/
theorem jacobi_init_invariant (n : S4 ℝ) :
    JInv (symOf (matOfS4 n) ⟨fun j => matOfS4 n j j⟩)
      { a := matOfS4 n, v := ⟨fun r c => if r = c then 1 else 0⟩, d := ⟨fun j => matOfS4 n j j⟩ } := by
  constructor
  · intro r k hr hk
    interval_cases r <;> interval_cases k <;> simp [mul4, tr4]
  · intro r k hr hk
    interval_cases r <;> interval_cases k <;> simp [mul4, tr4, delta4]


/-- `VᵀV = 1` -/
def Orth (v : Mat ℝ) : Prop := ∀ r k, r < 4 → k < 4 → mul4 (tr4 (fun p q => v p q)) (fun p q => v p q) r k = delta4 r k

theorem swapCols_orth (v : Mat ℝ) (k j : Nat) (hjk : j < k) (hk : k < 4) (h : Orth v) : Orth (swapCols v k j) := by
  intro r c hr hc
  have e : ∀ p, p < 4 → ∀ x, x < 4 → swapCols v k j p x = v p (if x = k then j else if x = j then k else x) :=
    fun p hp x hx => swapCols_entry v k j hjk hk p x hp hx
  simp only [mul4, tr4, e 0 (by omega) r hr, e 1 (by omega) r hr, e 2 (by omega) r hr, e 3 (by omega) r hr,
    e 0 (by omega) c hc, e 1 (by omega) c hc, e 2 (by omega) c hc, e 3 (by omega) c hc]
  have hj4 : j < 4 := by omega
  have := h (if r = k then j else if r = j then k else r) (if c = k then j else if c = j then k else c)
    (by split <;> [omega; (split <;> omega)]) (by split <;> [omega; (split <;> omega)])
  simp only [mul4, tr4] at this
  rw [this]
  simp only [delta4]
  split_ifs <;> first | rfl | omega


theorem sortEig_orth (ops : JOps ℝ) (st : JState ℝ) (h : Orth st.v) : Orth (sortEig ops st).v := by
  unfold sortEig
  apply foldl_inv (fun s : JState ℝ => Orth s.v) _ _ _ _ h
  intro j hjm s hs
  have hj : j < 3 := List.mem_range.mp hjm
  have hk : ((List.range' (j + 1) (4 - (j + 1))).foldl (fun (kd : Nat × ℝ) i =>
      if ops.lt (s.d i) kd.2 then (i, s.d i) else kd) (j, s.d j)).1 < 4 := by
    apply foldl_inv (fun kd : Nat × ℝ => kd.1 < 4)
    · intro i him kd hkd
      have := List.mem_range'_1.mp him
      split
      · show i < 4; omega
      · exact hkd
    · show j < 4; omega
  simp only
  split
  · rename_i hgt
    exact swapCols_orth s.v _ j hgt hk hs
  · exact hs

/-- **jacobi_orthonormal**: for EVERY symmetric 4×4 input and every sweep limit the matrix of eigenvectors that `jacobi`
    returns is orthogonal — whatever the branch taken at each element (equal diagonal elements, q = 0, included) -/
theorem jacobi_orthonormal (sqrt : ℝ → ℝ) (hs : IsSqrt sqrt) (n : S4 ℝ) (maxsweeps : Nat) (st : JState ℝ)
    (h : jacobi (rops sqrt) n maxsweeps = some st) : Orth st.v := by
  unfold jacobi at h
  simp only [Option.map_eq_some_iff] at h
  obtain ⟨st0, h0, rfl⟩ := h
  exact sortEig_orth _ _ (jacobiLoop_invariant sqrt hs _ maxsweeps _ st0 (jacobi_init_invariant n) h0).2

/-- **qtrfit_proper**: over the reals `qtrfit` returns a unit quaternion and a proper rotation for ALL inputs
    (any two point lists, any number of sweeps) -/
theorem qtrfit_proper (sqrt : ℝ → ℝ) (hs : IsSqrt sqrt) (src tgt : List (P3 ℝ)) (maxsweeps : Nat) (q : Q4 ℝ) (u : M3 ℝ)
    (h : qtrfit (rops sqrt) src tgt maxsweeps = some (q, u)) : qnorm2 q = 1 ∧ IsProper u := by
  unfold qtrfit at h
  split at h
  · exact absurd h (by simp)
  · rename_i n _
    split at h
    · exact absurd h (by simp)
    · rename_i st hst
      simp only [Option.some.injEq, Prod.mk.injEq] at h
      obtain ⟨rfl, rfl⟩ := h
      have ho := jacobi_orthonormal sqrt hs n maxsweeps st hst 3 3 (by omega) (by omega)
      have hq : qnorm2 (⟨st.v 0 3, st.v 1 3, st.v 2 3, st.v 3 3⟩ : Q4 ℝ) = 1 := by
        simp only [mul4, tr4, delta4] at ho
        simp only [qnorm2]
        simpa using ho
      exact ⟨hq, qtrfit_matrix_proper _ hq⟩

/-! ### the unit of length does not matter (all inputs)

  The property is invariant under a change of the unit of length. For the model this is a theorem: every comparison
  `jacobi` makes — `fabs(b) > 0`, `fabs(dma) + fabs(b) <= fabs(dma)`, `q < 0`, the convergence test
  `onorm <= 1e-12 * dnorm`, the comparisons of the final sort — is homogeneous, so multiplying the 4×4 form by `k > 0`
  multiplies `matrix`/`eigenval` by `k` in every state and leaves `eigenvect` as it is. (A convergence test with an absolute
  floor, `1e-12 * max(dnorm, 1.0)`, is not homogeneous and would not pass `jacobiLoop_sc`.) -/

def scM (k : ℝ) (a : Mat ℝ) : Mat ℝ := ⟨fun r c => k * a r c⟩
def scV (k : ℝ) (d : Vec ℝ) : Vec ℝ := ⟨fun i => k * d i⟩
def scSt (k : ℝ) (st : JState ℝ) : JState ℝ := { a := scM k st.a, v := st.v, d := scV k st.d }

theorem upd_sc (k : ℝ) (a : Mat ℝ) (r c : Nat) (x y : ℝ) (h : y = k * x) : upd (scM k a) r c y = scM k (upd a r c x) := by
  subst h
  simp only [upd, scM]
  congr 1
  funext r' c'
  split <;> rfl

theorem updV_sc (k : ℝ) (d : Vec ℝ) (i : Nat) (x y : ℝ) (h : y = k * x) : updV (scV k d) i y = scV k (updV d i x) := by
  subst h
  simp only [updV, scV]
  congr 1
  funext i'
  split <;> rfl

theorem foldl_comm {α β : Type} (g : β → β) (f : β → α → β) (l : List α) (b : β)
    (h : ∀ s x, f (g s) x = g (f s x)) : l.foldl f (g b) = g (l.foldl f b) := by
  induction l generalizing b with
  | nil => rfl
  | cons x t ih => simp only [List.foldl_cons]; rw [h, ih]

theorem scM_apply (k : ℝ) (a : Mat ℝ) (r c : Nat) : (scM k a) r c = k * a r c := rfl
theorem scV_apply (k : ℝ) (d : Vec ℝ) (i : Nat) : (scV k d) i = k * d i := rfl

theorem jacobiRot_sc (k : ℝ) (i j : Nat) (c s b : ℝ) (st : JState ℝ) :
    jacobiRot i j c s (k * b) (scSt k st) = scSt k (jacobiRot i j c s b st) := by
  unfold jacobiRot
  simp only [scSt]
  have h0 : upd (scM k st.a) i j 0 = scM k (upd st.a i j 0) := upd_sc k _ _ _ _ _ (by ring)
  rw [h0]
  congr 1
  · rw [foldl_comm (scM k), foldl_comm (scM k), foldl_comm (scM k)] <;>
    · intro a x
      simp only [scM, upd, Mat.mk.injEq]
      funext r' c'
      split_ifs <;> ring
  · simp only [scV_apply]
    rw [updV_sc k st.d j (s * s * st.d i + c * c * st.d j + 2 * c * s * b) _ (by ring)]
    rw [updV_sc k _ i (c * c * st.d i + s * s * st.d j - 2 * c * s * b) _ (by ring)]


theorem rotIf_sc (sqrt : ℝ → ℝ) (k : ℝ) (hk : 0 < k) (i j : Nat) (st : JState ℝ) :
    rotIf (rops sqrt) i j (scSt k st) = scSt k (rotIf (rops sqrt) i j st) := by
  have hk0 : k ≠ 0 := ne_of_gt hk
  have hd : (scSt k st).d j - (scSt k st).d i = k * (st.d j - st.d i) := by
    show k * st.d j - k * st.d i = _; ring
  have hb : (scSt k st).a i j = k * st.a i j := rfl
  have habs : ∀ x : ℝ, |k * x| = k * |x| := fun x => by rw [abs_mul, abs_of_pos hk]
  unfold rotIf
  simp only [rops, decide_eq_true_eq, hd, hb, habs]
  have e1 : (0 < k * |st.a i j|) ↔ (0 < |st.a i j|) := by
    constructor
    · intro h; by_contra h'; nlinarith [abs_nonneg (st.a i j)]
    · intro h; positivity
  have e2 : (k * |st.d j - st.d i| + k * |st.a i j| ≤ k * |st.d j - st.d i|) ↔
      (|st.d j - st.d i| + |st.a i j| ≤ |st.d j - st.d i|) := by
    constructor
    · intro h; nlinarith
    · intro h; nlinarith
  have e3 : k * st.a i j / (k * (st.d j - st.d i)) = st.a i j / (st.d j - st.d i) := mul_div_mul_left _ _ hk0
  have e4 : 1 / 2 * (k * (st.d j - st.d i)) / (k * st.a i j) = 1 / 2 * (st.d j - st.d i) / st.a i j := by
    rw [mul_left_comm, mul_div_mul_left _ _ hk0]
  simp only [e1, e2, e3, e4]
  split
  · exact jacobiRot_sc k i j _ _ _ st
  · rfl

theorem sweep_sc (sqrt : ℝ → ℝ) (k : ℝ) (hk : 0 < k) (st : JState ℝ) :
    sweep (rops sqrt) (scSt k st) = scSt k (sweep (rops sqrt) st) := by
  unfold sweep
  apply foldl_comm
  intro s j
  apply foldl_comm
  intro s' i
  exact rotIf_sc sqrt k hk i j s'

theorem norms_sc (sqrt : ℝ → ℝ) (k : ℝ) (hk : 0 < k) (st : JState ℝ) :
    norms (rops sqrt) (scSt k st) = (k * (norms (rops sqrt) st).1, k * (norms (rops sqrt) st).2) := by
  have habs : ∀ x : ℝ, |k * x| = k * |x| := fun x => by rw [abs_mul, abs_of_pos hk]
  have inner : ∀ (l : List Nat) (j : Nat) (on : ℝ),
      l.foldl (fun on i => on + (rops sqrt).abs ((scSt k st).a i j)) (k * on)
        = k * l.foldl (fun on i => on + (rops sqrt).abs (st.a i j)) on := by
    intro l j
    induction l with
    | nil => intro on; rfl
    | cons x t ih =>
      intro on
      simp only [List.foldl_cons]
      rw [← ih]
      congr 1
      show k * on + |k * st.a x j| = k * (on + |st.a x j|)
      rw [habs]; ring
  have outer : ∀ (l : List Nat) (acc : ℝ × ℝ),
      l.foldl (fun (acc : ℝ × ℝ) j =>
          (acc.1 + (rops sqrt).abs ((scSt k st).d j),
           (List.range j).foldl (fun on i => on + (rops sqrt).abs ((scSt k st).a i j)) acc.2)) (k * acc.1, k * acc.2)
        = (k * (l.foldl (fun (acc : ℝ × ℝ) j =>
          (acc.1 + (rops sqrt).abs (st.d j),
           (List.range j).foldl (fun on i => on + (rops sqrt).abs (st.a i j)) acc.2)) acc).1,
           k * (l.foldl (fun (acc : ℝ × ℝ) j =>
          (acc.1 + (rops sqrt).abs (st.d j),
           (List.range j).foldl (fun on i => on + (rops sqrt).abs (st.a i j)) acc.2)) acc).2) := by
    intro l
    induction l with
    | nil => intro acc; rfl
    | cons x t ih =>
      intro acc
      simp only [List.foldl_cons]
      rw [← ih]
      congr 2
      · show k * acc.1 + |k * st.d x| = k * (acc.1 + |st.d x|)
        rw [habs]; ring
      · exact inner _ _ _
  have := outer (List.range 4) (0, 0)
  simp only [mul_zero] at this
  exact this


theorem jacobiLoop_sc (sqrt : ℝ → ℝ) (k : ℝ) (hk : 0 < k) (fuel : Nat) (st : JState ℝ) :
    jacobiLoop (rops sqrt) fuel (scSt k st) = (jacobiLoop (rops sqrt) fuel st).map (scSt k) := by
  induction fuel generalizing st with
  | zero => rfl
  | succ n ih =>
    unfold jacobiLoop
    simp only [norms_sc sqrt k hk]
    have e : (rops sqrt).le (k * (norms (rops sqrt) st).2) ((rops sqrt).eps * (k * (norms (rops sqrt) st).1))
        = (rops sqrt).le (norms (rops sqrt) st).2 ((rops sqrt).eps * (norms (rops sqrt) st).1) := by
      show decide _ = decide _
      apply decide_eq_decide.mpr
      rw [mul_left_comm]
      exact mul_le_mul_iff_right₀ hk
    rw [e]
    split
    · rfl
    · rw [sweep_sc sqrt k hk, ih]

theorem sortEig_sc (sqrt : ℝ → ℝ) (k : ℝ) (hk : 0 < k) (st : JState ℝ) :
    sortEig (rops sqrt) (scSt k st) = scSt k (sortEig (rops sqrt) st) := by
  unfold sortEig
  apply foldl_comm
  intro s j
  have sel : ∀ (l : List Nat) (kd : Nat × ℝ),
      l.foldl (fun (kd : Nat × ℝ) i => if (rops sqrt).lt ((scSt k s).d i) kd.2 then (i, (scSt k s).d i) else kd) (kd.1, k * kd.2)
        = ((l.foldl (fun (kd : Nat × ℝ) i => if (rops sqrt).lt (s.d i) kd.2 then (i, s.d i) else kd) kd).1,
           k * (l.foldl (fun (kd : Nat × ℝ) i => if (rops sqrt).lt (s.d i) kd.2 then (i, s.d i) else kd) kd).2) := by
    intro l
    induction l with
    | nil => intro kd; rfl
    | cons x t ih =>
      intro kd
      simp only [List.foldl_cons]
      have e : (rops sqrt).lt ((scSt k s).d x) (k * kd.2) = (rops sqrt).lt (s.d x) kd.2 := by
        show decide (k * s.d x < k * kd.2) = decide (s.d x < kd.2)
        exact decide_eq_decide.mpr (mul_lt_mul_iff_right₀ hk)
      rw [e]
      split
      · exact ih (x, s.d x)
      · exact ih kd
  have := sel (List.range' (j + 1) (4 - (j + 1))) (j, s.d j)
  simp only
  rw [show ((j, (scSt k s).d j) : Nat × ℝ) = (j, k * s.d j) from rfl, this]
  simp only
  split
  · simp only [scSt, JState.mk.injEq, true_and]
    rw [updV_sc k s.d _ (s.d j) ((scV k s.d).f j) rfl, updV_sc k _ j _ _ rfl]
  · rfl


def scS (k : ℝ) (n : S4 ℝ) : S4 ℝ :=
  ⟨k * n.n00, k * n.n01, k * n.n02, k * n.n03, k * n.n11, k * n.n12, k * n.n13, k * n.n22, k * n.n23, k * n.n33⟩

/-- the same points in another unit of length -/
def scP (k : ℝ) (p : P3 ℝ) : P3 ℝ := ⟨k * p.x, k * p.y, k * p.z⟩

theorem matOfS4_sc (k : ℝ) (n : S4 ℝ) : matOfS4 (scS k n) = scM k (matOfS4 n) := by
  simp only [matOfS4, scM, Mat.mk.injEq]
  funext r c
  split <;> simp [scS]

theorem jacobi_sc (sqrt : ℝ → ℝ) (k : ℝ) (hk : 0 < k) (n : S4 ℝ) (m : Nat) :
    jacobi (rops sqrt) (scS k n) m = (jacobi (rops sqrt) n m).map (scSt k) := by
  unfold jacobi
  simp only [matOfS4_sc]
  have := jacobiLoop_sc sqrt k hk m
    { a := matOfS4 n, v := ⟨fun r c => if r = c then 1 else 0⟩, d := ⟨fun j => matOfS4 n j j⟩ }
  simp only [scSt] at this
  rw [show (⟨fun j => (scM k (matOfS4 n)) j j⟩ : Vec ℝ) = scV k ⟨fun j => matOfS4 n j j⟩ from rfl, this]
  simp only [Option.map_map]
  congr 1
  funext st
  exact sortEig_sc sqrt k hk st

theorem corr_sc (k : ℝ) (l : List (P3 ℝ × P3 ℝ)) (a : Acc9 ℝ) :
    qformOf ((l.map fun p => (scP k p.1, scP k p.2)).foldl corrStep
      ⟨k * k * a.xxyx, k * k * a.xxyy, k * k * a.xxyz, k * k * a.xyyx, k * k * a.xyyy, k * k * a.xyyz, k * k * a.xzyx, k * k * a.xzyy, k * k * a.xzyz⟩)
      = scS (k * k) (qformOf (l.foldl corrStep a)) := by
  induction l generalizing a with
  | nil => simp only [List.map_nil, List.foldl_nil, qformOf, scS, S4.mk.injEq]; refine ⟨?_, ?_, ?_, ?_, ?_, ?_, ?_, ?_, ?_, ?_⟩ <;> ring
  | cons p t ih =>
    simp only [List.map_cons, List.foldl_cons]
    rw [← ih]
    congr 2
    simp only [corrStep, scP, Acc9.mk.injEq]
    refine ⟨?_, ?_, ?_, ?_, ?_, ?_, ?_, ?_, ?_⟩ <;> ring

theorem qform_sc (k : ℝ) (src tgt : List (P3 ℝ)) :
    qform (src.map (scP k)) (tgt.map (scP k)) = (qform src tgt).map (scS (k * k)) := by
  unfold qform
  simp only [List.length_map]
  split
  · simp only [Option.map_some, Option.some.injEq, qformPairs, corr]
    have := corr_sc k (src.zip tgt) acc0
    simp only [acc0, mul_zero] at this
    rw [List.zip_map]
    exact this
  · rfl

/-- **qtrfit_scale_invariant**: the fit does not depend on the unit of length — for every `k > 0`, `qtrfit` on the
    point sets multiplied by `k` returns the SAME quaternion and the SAME matrix (all inputs, all sweep limits; every
    comparison `jacobi` makes is homogeneous, in particular the convergence test `onorm <= 1e-12 * dnorm`) -/
theorem qtrfit_scale_invariant (sqrt : ℝ → ℝ) (k : ℝ) (hk : 0 < k) (src tgt : List (P3 ℝ)) (m : Nat) :
    qtrfit (rops sqrt) (src.map (scP k)) (tgt.map (scP k)) m = qtrfit (rops sqrt) src tgt m := by
  unfold qtrfit
  rw [qform_sc]
  cases qform src tgt with
  | none => rfl
  | some n =>
    simp only [Option.map_some]
    rw [jacobi_sc sqrt (k * k) (by positivity)]
    cases jacobi (rops sqrt) n m with
    | none => rfl
    | some st => rfl


/-! fit_fragment in another unit of length -/

theorem sqrt_scale (sqrt : ℝ → ℝ) (hs : IsSqrt sqrt) (k x : ℝ) (hk : 0 ≤ k) (hx : 0 ≤ x) : sqrt (k * k * x) = k * sqrt x := by
  obtain ⟨h1, h2⟩ := hs x hx
  obtain ⟨h3, h4⟩ := hs (k * k * x) (by positivity)
  generalize sqrt (k * k * x) = b at h3 h4 ⊢
  generalize sqrt x = a at h1 h2 ⊢
  have h5 : 0 ≤ k * a := mul_nonneg hk h1
  have h6 : (b - k * a) * (b + k * a) = 0 := by
    have : (k * a) * (k * a) = k * k * x := by rw [← h2]; ring
    linear_combination h4 - this
  rcases mul_eq_zero.mp h6 with h | h
  · linarith
  · have e1 : b = 0 := by linarith
    have e2 : k * a = 0 := by linarith
    rw [e1, e2]

theorem centroid_foldl_sc (k : ℝ) (pts : List (P3 ℝ)) (a : P3 ℝ × ℝ) :
    (pts.map (scP k)).foldl (fun (a : P3 ℝ × ℝ) p => ((⟨a.1.x + p.x, a.1.y + p.y, a.1.z + p.z⟩ : P3 ℝ), a.2 + 1)) (scP k a.1, a.2)
      = (scP k (pts.foldl (fun (a : P3 ℝ × ℝ) p => ((⟨a.1.x + p.x, a.1.y + p.y, a.1.z + p.z⟩ : P3 ℝ), a.2 + 1)) a).1,
         (pts.foldl (fun (a : P3 ℝ × ℝ) p => ((⟨a.1.x + p.x, a.1.y + p.y, a.1.z + p.z⟩ : P3 ℝ), a.2 + 1)) a).2) := by
  induction pts generalizing a with
  | nil => rfl
  | cons p t ih =>
    simp only [List.map_cons, List.foldl_cons]
    rw [← ih]
    congr 2
    simp only [scP, P3.mk.injEq]
    refine ⟨?_, ?_, ?_⟩ <;> ring

theorem centroid_sc (isZero : ℝ → Bool) (k : ℝ) (pts : List (P3 ℝ)) :
    centroid isZero (pts.map (scP k)) = (centroid isZero pts).map (scP k) := by
  unfold centroid
  have := centroid_foldl_sc k pts (⟨0, 0, 0⟩, 0)
  simp only [scP, mul_zero] at this
  simp only [this]
  split
  · rfl
  · simp only [Option.map_some, Option.some.injEq, scP, P3.mk.injEq]
    refine ⟨?_, ?_, ?_⟩ <;> ring

theorem minusVect_sc (k : ℝ) (l : List (P3 ℝ)) (v : P3 ℝ) : minusVect (l.map (scP k)) (scP k v) = (minusVect l v).map (scP k) := by
  simp only [minusVect, List.map_map]
  apply List.map_congr_left
  intro p _
  simp only [Function.comp, scP, P3.mk.injEq]
  refine ⟨?_, ?_, ?_⟩ <;> ring

theorem plusVect_sc (k : ℝ) (l : List (P3 ℝ)) (v : P3 ℝ) : plusVect (l.map (scP k)) (scP k v) = (plusVect l v).map (scP k) := by
  simp only [plusVect, List.map_map]
  apply List.map_congr_left
  intro p _
  simp only [Function.comp, scP, P3.mk.injEq]
  refine ⟨?_, ?_, ?_⟩ <;> ring

theorem rotmol_sc (k : ℝ) (l : List (P3 ℝ)) (u : M3 ℝ) : rotmol (l.map (scP k)) u = (rotmol l u).map (scP k) := by
  simp only [rotmol, List.map_map]
  apply List.map_congr_left
  intro p _
  simp only [Function.comp, scP, rotPoint, P3.mk.injEq]
  refine ⟨?_, ?_, ?_⟩ <;> ring

theorem sum_map_scale {α : Type} (c : ℝ) (f g : α → ℝ) (l : List α) (h : ∀ x, g x = c * f x) :
    (l.map g).sum = c * (l.map f).sum := by
  induction l with
  | nil => simp
  | cons x t ih => simp only [List.map_cons, List.sum_cons, ih, h]; ring

theorem ssd_sc (k : ℝ) (v w : List (P3 ℝ)) : ssd ((v.map (scP k)).zip (w.map (scP k))) = k * k * ssd (v.zip w) := by
  rw [ssd_eq_sum, ssd_eq_sum, List.zip_map, List.map_map]
  apply sum_map_scale
  intro p
  simp only [Function.comp, Prod.map, scP, dist2]
  ring

theorem rmsd_sc (sqrt : ℝ → ℝ) (hs : IsSqrt sqrt) (k : ℝ) (hk : 0 ≤ k) (v w : List (P3 ℝ)) :
    rmsd sqrt (v.map (scP k)) (w.map (scP k)) = (rmsd sqrt v w).map (k * ·) := by
  cases v with
  | nil => rfl
  | cons p t =>
    simp only [rmsd, List.map_cons, Option.map_some, Option.some.injEq]
    have := ssd_sc k (p :: t) w
    simp only [List.map_cons] at this
    rw [this, lenK_eq, lenK_eq]
    simp only [List.length_cons, List.length_map]
    rw [mul_div_assoc]
    apply sqrt_scale sqrt hs k _ hk
    exact div_nonneg (ssd_nonneg _) (by positivity)

/-- **fit_fragment_scale_equivariant**: `fit_fragment` in another unit of length (every coordinate multiplied by
    `k > 0`) returns the same placement in that unit and `k` times the RMSD — for any rotation finder that is itself
    independent of the unit (`qtrfit` is: `qtrfit_scale_invariant`). This is why the check may judge every deviation
    relative to the size of the point set, from 1e-10 to 1e+6. -/
theorem fit_fragment_scale_equivariant (isZero : ℝ → Bool) (sqrt : ℝ → ℝ) (hs : IsSqrt sqrt)
    (fit : List (P3 ℝ) → List (P3 ℝ) → Option (M3 ℝ)) (k : ℝ) (hk : 0 < k)
    (hfit : ∀ p q, fit (p.map (scP k)) (q.map (scP k)) = fit p q) (frag src tgt : List (P3 ℝ)) :
    fitFragment isZero sqrt fit (frag.map (scP k)) (src.map (scP k)) (tgt.map (scP k))
      = (fitFragment isZero sqrt fit frag src tgt).map fun r => (r.1.map (scP k), k * r.2) := by
  unfold fitFragment
  rw [centroid_sc, centroid_sc]
  cases centroid isZero src with
  | none => rfl
  | some pc =>
    cases centroid isZero tgt with
    | none => rfl
    | some qc =>
      simp only [Option.map_some]
      rw [minusVect_sc, minusVect_sc, minusVect_sc, hfit]
      cases fit (minusVect src pc) (minusVect tgt qc) with
      | none => rfl
      | some u =>
        simp only
        rw [rotmol_sc, rotmol_sc, plusVect_sc, rmsd_sc sqrt hs k hk.le]
        cases rmsd sqrt (minusVect tgt qc) (rotmol (minusVect src pc) u) with
        | none => rfl
        | some r => rfl

/-- the rotation finder `fit_fragment` uses: `qtrfit(p, q, 30)[1]` -/
noncomputable def fitR (sqrt : ℝ → ℝ) (p q : List (P3 ℝ)) : Option (M3 ℝ) := (qtrfit (rops sqrt) p q 30).map (·.2)

theorem fit_fragment_unit_free (isZero : ℝ → Bool) (sqrt : ℝ → ℝ) (hs : IsSqrt sqrt) (k : ℝ) (hk : 0 < k)
    (frag src tgt : List (P3 ℝ)) :
    fitFragment isZero sqrt (fitR sqrt) (frag.map (scP k)) (src.map (scP k)) (tgt.map (scP k))
      = (fitFragment isZero sqrt (fitR sqrt) frag src tgt).map fun r => (r.1.map (scP k), k * r.2) :=
  fit_fragment_scale_equivariant isZero sqrt hs (fitR sqrt) k hk
    (fun p q => by simp only [fitR, qtrfit_scale_invariant sqrt k hk]) frag src tgt

/-- **fit_fragment_rigid**: for ALL inputs on which it returns, `fit_fragment` moves the fragment by a proper rigid
    motion `p ↦ R(p − p̄) + t̄` (`R` proper, `p̄`/`t̄` the centroids of the source/target atoms) -/
theorem fit_fragment_rigid (isZero : ℝ → Bool) (sqrt : ℝ → ℝ) (hs : IsSqrt sqrt) (frag src tgt out : List (P3 ℝ)) (rms : ℝ)
    (h : fitFragment isZero sqrt (fitR sqrt) frag src tgt = some (out, rms)) :
    ∃ pc qc r, centroid isZero src = some pc ∧ centroid isZero tgt = some qc ∧ IsProper r ∧
      out = frag.map (placeSpec r pc qc) ∧ rmsd sqrt tgt (src.map (placeSpec r pc qc)) = some rms := by
  obtain ⟨pc, qc, u, hpc, hqc, hu, hout, hrms⟩ := fit_fragment_places isZero sqrt (fitR sqrt) frag src tgt out rms h
  refine ⟨pc, qc, transpose u, hpc, hqc, ?_, hout, hrms⟩
  simp only [fitR, Option.map_eq_some_iff] at hu
  obtain ⟨⟨q, u'⟩, hq, rfl⟩ := hu
  have hp := (qtrfit_proper sqrt hs _ _ 30 q u' hq).2
  obtain ⟨h1, h2, h3⟩ := hp
  refine ⟨h2, ?_, ?_⟩
  · simpa [transpose] using h1
  · rw [← h3]; simp only [det3, transpose]; ring

/-- the hypothesis `IsSqrt` is met by the real square root -/
theorem isSqrt_real : IsSqrt Real.sqrt := fun x hx => ⟨Real.sqrt_nonneg x, Real.mul_self_sqrt hx⟩

example (src tgt : List (P3 ℝ)) (q : Q4 ℝ) (u : M3 ℝ) (h : qtrfit (rops Real.sqrt) src tgt 30 = some (q, u)) : IsProper u :=
  (qtrfit_proper Real.sqrt isSqrt_real src tgt 30 q u h).2

example (src tgt : List (P3 ℝ)) : qtrfit (rops Real.sqrt) (src.map (scP (1 / 10000000000))) (tgt.map (scP (1 / 10000000000))) 30
    = qtrfit (rops Real.sqrt) src tgt 30 := qtrfit_scale_invariant Real.sqrt _ (by norm_num) src tgt 30

/-! ### the code as found (snapshot b553572): witness of the two defects, exact arithmetic over `Rat`

  Four atoms whose centroid is (5/2, 1/2, 1/2); the targets are the atoms turned by 90° about z and shifted by
  (10, 0, 0). `fit90` hands both versions the correct rotation (the matrix `qtrfit` returns for this turn), `id`
  stands for `sqrt` (so the second component is the mean-square deviation). -/

def wSrc : List (P3 Rat) := [⟨2, 0, 0⟩, ⟨4, 0, 0⟩, ⟨2, 2, 0⟩, ⟨2, 0, 2⟩]
def wTgt : List (P3 Rat) := wSrc.map fun p => ⟨-p.y + 10, p.x, p.z⟩
def wU : M3 Rat := ⟨0, 1, 0, -1, 0, 0, 0, 0, 1⟩
def fit90 : List (P3 Rat) → List (P3 Rat) → Option (M3 Rat) := fun _ _ => some wU
def isZeroQ (x : Rat) : Bool := x == 0

/-- `wU` is what the fit has to return here: applied by `rotmol` it maps the centred atoms onto the centred targets -/
theorem witness_rotation_correct :
    rotmol (minusVect wSrc ⟨5/2, 1/2, 1/2⟩) wU = minusVect wTgt ⟨19/2, 5/2, 1/2⟩ := by decide +kernel

/-- the repaired `fit_fragment` puts the atoms on their targets and reports deviation 0 -/
theorem fitFragment_ok_on : fitFragment isZeroQ id fit90 wSrc wSrc wTgt = some (wTgt, 0) := by decide +kernel

/-- the code as found: given the correct rotation it puts the atoms elsewhere (off by `R·p̄`) and reports 3 (mean square) where the deviation of what it returns is different and that of a correct placement 0 -/
theorem fitFragmentOld_fails_on :
    fitFragmentOld isZeroQ id fit90 wSrc wSrc wTgt
      = some ([⟨19/2, 9/2, 1/2⟩, ⟨19/2, 13/2, 1/2⟩, ⟨15/2, 9/2, 1/2⟩, ⟨19/2, 9/2, 5/2⟩], 3) := by decide +kernel

/-- … so the statement of `fit_fragment_places`/`exact copy` is false for it -/
theorem fitFragmentOld_not_places :
    ¬ (∀ out rms, fitFragmentOld isZeroQ id fit90 wSrc wSrc wTgt = some (out, rms) → out = wTgt ∧ rms = 0) := by
  intro h
  have := h _ _ fitFragmentOld_fails_on
  revert this
  decide +kernel

/-! ## the convergence test of `jacobi` (fixes/C20_3)

  `if onorm / dnorm <= 1e-12` divided by the sum of the absolute diagonal elements, which is zero whenever the three
  diagonal correlation sums Σxᵢxᵢ', Σyᵢyᵢ', Σzᵢzᵢ' vanish — e.g. an octahedral fragment whose target is the copy rotated by
  120° about (1,1,1): a non-degenerate point set on which `qtrfit` raised ZeroDivisionError. The repaired test
  `onorm <= 1e-12 * dnorm` never raises. -/

/-- the repaired loop returns a state for every matrix and every sweep limit -/
theorem jacobiLoop_total {K : Type} [Add K] [Sub K] [Mul K] [Div K] [Neg K] [OfNat K 0] [OfNat K 1] [OfNat K 2]
    (ops : JOps K) (fuel : Nat) (st : JState K) : (jacobiLoop ops fuel st).isSome = true := by
  induction fuel generalizing st with
  | zero => rfl
  | succ n ih =>
    unfold jacobiLoop
    simp only
    split
    · rfl
    · exact ih _

/-- so `jacobi` (hence `qtrfit` on lists of equal length) always returns -/
theorem jacobi_total {K : Type} [Add K] [Sub K] [Mul K] [Div K] [Neg K] [OfNat K 0] [OfNat K 1] [OfNat K 2]
    (ops : JOps K) (n : S4 K) (maxsweeps : Nat) : (jacobi ops n maxsweeps).isSome = true := by
  unfold jacobi
  simp only [Option.isSome_map]
  exact jacobiLoop_total ops maxsweeps _

def opsQ : JOps Rat :=
  { abs := fun x => if x < 0 then -x else x, sqrt := id, lt := fun a b => decide (a < b), le := fun a b => decide (a ≤ b),
    isZero := fun x => x == 0, half := 1 / 2, eps := 1 / 1000000000000 }

/-- the octahedron (±1,0,0), (0,±2,0), (0,0,±3) and its image under (x,y,z) ↦ (z,x,y) -/
def octaSrc : List (P3 Rat) := [⟨1, 0, 0⟩, ⟨-1, 0, 0⟩, ⟨0, 2, 0⟩, ⟨0, -2, 0⟩, ⟨0, 0, 3⟩, ⟨0, 0, -3⟩]
def octaTgt : List (P3 Rat) := octaSrc.map fun p => ⟨p.z, p.x, p.y⟩

/-- on this pair the quadratic form has a zero diagonal and the code before fixes/C20_3 raised (model: `none`) -/
theorem jacobi_old_fails_on :
    (qform octaSrc octaTgt).map (fun n => (jacobiOld opsQ n 30).isSome) = some false := by decide +kernel

/-! ## the caller's objects: shared rows, in-place changes, histories

  `fitFragment` is a function of three lists of numbers. The code works on lists of references to rows, which the
  caller may share between the fragment and the source list, change in place between two fits, and which `rotmol`
  changes in place. `fitFragmentH` (ShelxModel/C20.lean) follows `fit_fragment` on such a heap statement by statement; the
  theorems say that the difference cannot be observed: the result is `fitFragment` of the numbers at the call
  (`fitFragmentH_eq`), no row that existed is written (`fitFragmentH_frame`), and over any history of in-place changes and
  fits every fit sees exactly the current numbers (`history_reads_current`). A version that keeps anything from an
  earlier call and trusts it later has no model of this form. -/

section heap
variable {K : Type} [Add K] [Sub K] [Mul K] [Div K] [OfNat K 0] [OfNat K 1]

/-- **fitFragmentH_eq**: whatever rows the caller's three lists share (with each other or within themselves), what
    `fit_fragment` returns is `fitFragment` of the numbers those rows hold at the call. `hf hs ht`: the lists refer to
    rows that exist (a dangling reference cannot occur in Python). Holds for every number type (no law of arithmetic
    is used), hence for the floats the code computes with. -/
theorem fitFragmentH_eq (isZero : K → Bool) (sqrt : K → K) (fit : List (P3 K) → List (P3 K) → Option (M3 K))
    (h : Heap K) (frag src tgt : List Nat) (hf : Below frag h.next) (hs : Below src h.next) (ht : Below tgt h.next) :
    (fitFragmentH isZero sqrt fit h frag src tgt).map (fun r => (r.1.read r.2.1, r.2.2))
      = fitFragment isZero sqrt fit (h.read frag) (h.read src) (h.read tgt) := by
  unfold fitFragmentH fitFragment
  rcases hA1 : h.alloc (h.read src) with ⟨h1, l1⟩
  obtain ⟨n1, b1, ab1, nd1, rd1, old1, -⟩ := alloc_spec _ _ _ _ hA1
  simp only []
  rw [old1 tgt ht]
  rcases hA2 : h1.alloc (h.read tgt) with ⟨h2, l2⟩
  obtain ⟨n2, b2, ab2, nd2, rd2, old2, -⟩ := alloc_spec _ _ _ _ hA2
  simp only []
  rw [old2 l1 b1, rd1, rd2]
  cases hpc : centroid isZero (h.read src) with
  | none => rfl
  | some pc =>
    cases hqc : centroid isZero (h.read tgt) with
    | none => rfl
    | some qc =>
      simp only []
      rcases hA3 : h2.alloc (minusVect (h.read src) pc) with ⟨h3, l3⟩
      obtain ⟨n3, b3, ab3, nd3, rd3, old3, -⟩ := alloc_spec _ _ _ _ hA3
      simp only []
      rw [old3 l2 b2, rd2]
      rcases hA4 : h3.alloc (minusVect (h.read tgt) qc) with ⟨h4, l4⟩
      obtain ⟨n4, b4, ab4, nd4, rd4, old4, -⟩ := alloc_spec _ _ _ _ hA4
      simp only []
      rw [old4 l3 b3, rd3, rd4]
      cases hu : fit (minusVect (h.read src) pc) (minusVect (h.read tgt) qc) with
      | none => rfl
      | some u =>
        simp only []
        have le1 : h.next ≤ h1.next := by omega
        have le2 : h1.next ≤ h2.next := by omega
        have le3 : h2.next ≤ h3.next := by omega
        have le4 : h3.next ≤ h4.next := by omega
        have rs4 : ∀ l, Below l h.next → h4.read l = h.read l := fun l hl => by
          rw [old4 _ (below_mono hl (by omega)), old3 _ (below_mono hl (by omega)), old2 _ (below_mono hl (by omega)), old1 _ hl]
        rw [rs4 src hs]
        rcases hA5 : h4.alloc (minusVect (h.read src) pc) with ⟨h5, l5⟩
        obtain ⟨n5, -, -, -, -, old5, -⟩ := alloc_spec _ _ _ _ hA5
        simp only []
        have le5 : h4.next ≤ h5.next := by omega
        rw [old5 _ (below_mono hf (by omega)), rs4 frag hf]
        rcases hA6 : h5.alloc (minusVect (h.read frag) pc) with ⟨h6, l6⟩
        obtain ⟨n6, b6, ab6, nd6, rd6, old6, -⟩ := alloc_spec _ _ _ _ hA6
        simp only []
        have le6 : h5.next ≤ h6.next := by omega
        rw [rotmol_read h6 l6 u nd6, rd6]
        rcases hA7 : (h6.rotmol l6 u).alloc (plusVect (rotmol (minusVect (h.read frag) pc) u) qc) with ⟨h7, l7⟩
        obtain ⟨n7, b7, ab7, nd7, rd7, old7, -⟩ := alloc_spec _ _ _ _ hA7
        simp only []
        rw [rotmol_next] at n7 ab7 old7
        -- the rows of the centred source (l3) lie below those of the centred target (l4), of the fragment copy (l6)
        -- and of the result (l7)
        have d43 : ∀ a ∈ l4, a ∉ l3 := fun a ha hm => by have := ab4 a ha; have := b3 a hm; omega
        have d73 : ∀ a ∈ l7, a ∉ l3 := fun a ha hm => by have := ab7 a ha; have := b3 a hm; omega
        have d36 : ∀ a ∈ l3, a ∉ l6 := fun a ha hm => by have := ab6 a hm; have := b3 a ha; omega
        have d46 : ∀ a ∈ l4, a ∉ l6 := fun a ha hm => by have := ab6 a hm; have := b4 a ha; omega
        have r3 : h7.read l3 = minusVect (h.read src) pc := by
          rw [old7 _ (below_mono b3 (by omega)), read_rotmol_disjoint _ _ _ _ d36, old6 _ (below_mono b3 (by omega)),
            old5 _ (below_mono b3 (by omega)), old4 _ b3, rd3]
        have r4 : h7.read l4 = minusVect (h.read tgt) qc := by
          rw [old7 _ (below_mono b4 (by omega)), read_rotmol_disjoint _ _ _ _ d46, old6 _ (below_mono b4 (by omega)),
            old5 _ b4, rd4]
        rw [read_rotmol_disjoint _ _ _ _ d43, r4, rotmol_read h7 l3 u nd3, r3]
        cases hr : rmsd sqrt (minusVect (h.read tgt) qc) (rotmol (minusVect (h.read src) pc) u) with
        | none => rfl
        | some rms =>
          simp only [Option.map_some, Option.some.injEq, Prod.mk.injEq, and_true]
          rw [read_rotmol_disjoint _ _ _ _ d73, rd7]

/-- **fitFragmentH_frame**: `fit_fragment` writes to no row that existed before the call (so the caller's fragment,
    source and target lists hold the same numbers afterwards, whatever they share), and the list it returns consists of
    new rows. -/
theorem fitFragmentH_frame (isZero : K → Bool) (sqrt : K → K) (fit : List (P3 K) → List (P3 K) → Option (M3 K))
    (h : Heap K) (frag src tgt : List Nat) :
    ∀ r, fitFragmentH isZero sqrt fit h frag src tgt = some r →
      Ext h r.1 ∧ (∀ a ∈ r.2.1, h.next ≤ a) ∧ Below r.2.1 r.1.next := by
  unfold fitFragmentH
  rcases hA1 : h.alloc (h.read src) with ⟨h1, l1⟩
  have x1 := ext_alloc h _ _ _ _ hA1 (ext_refl h)
  simp only []
  rcases hA2 : h1.alloc (h1.read tgt) with ⟨h2, l2⟩
  have x2 := ext_alloc h _ _ _ _ hA2 x1
  simp only []
  split
  · rcases hA3 : h2.alloc (minusVect (h2.read l1) _) with ⟨h3, l3⟩
    have x3 := ext_alloc h _ _ _ _ hA3 x2
    obtain ⟨-, -, ab3, -, -, -, -⟩ := alloc_spec _ _ _ _ hA3
    simp only []
    rcases hA4 : h3.alloc (minusVect (h3.read l2) _) with ⟨h4, l4⟩
    have x4 := ext_alloc h _ _ _ _ hA4 x3
    simp only []
    split
    · intro r hr; exact absurd hr (by simp)
    · rename_i u _
      rcases hA5 : h4.alloc (minusVect (h4.read src) _) with ⟨h5, l5⟩
      have x5 := ext_alloc h _ _ _ _ hA5 x4
      simp only []
      rcases hA6 : h5.alloc (minusVect (h5.read frag) _) with ⟨h6, l6⟩
      have x6 := ext_alloc h _ _ _ _ hA6 x5
      obtain ⟨-, -, ab6, -, -, -, -⟩ := alloc_spec _ _ _ _ hA6
      simp only []
      have x6' := ext_rotmol h h6 l6 u (fun a ha => by have := ab6 a ha; have := x5.1; omega) x6
      rcases hA7 : (h6.rotmol l6 u).alloc (plusVect ((h6.rotmol l6 u).read l6) _) with ⟨h7, l7⟩
      have x7 := ext_alloc h _ _ _ _ hA7 x6'
      obtain ⟨-, b7, ab7, -, -, -, -⟩ := alloc_spec _ _ _ _ hA7
      simp only []
      have x8 := ext_rotmol h h7 l3 u (fun a ha => by have := ab3 a ha; have := x2.1; omega) x7
      split
      · intro r hr; exact absurd hr (by simp)
      · intro r hr
        simp only [Option.some.injEq] at hr
        subst hr
        refine ⟨x8, fun a ha => ?_, ?_⟩
        · have := ab7 a ha; rw [rotmol_next] at this; have := x6.1; omega
        · show Below l7 (h7.rotmol l3 u).next
          rw [rotmol_next]; exact b7
  · intro r hr; exact absurd hr (by simp)

/-- the caller refers to rows that existed when the history began (`n` of them) -/
def StepOk (n : Nat) : Step K → Prop
  | .write a _ => a < n
  | .fit f s g => Below f n ∧ Below s n ∧ Below g n

/-- **history_reads_current**: over ANY history of assignments to the caller's rows and fits on lists of those rows
    (sharing rows in any way), every `fit_fragment` returns `fitFragment` of the numbers the rows hold at that moment:
    nothing is remembered from earlier calls, every in-place change is seen, and the fits change no row of the caller. -/
theorem history_reads_current (isZero : K → Bool) (sqrt : K → K) (fit : List (P3 K) → List (P3 K) → Option (M3 K))
    (steps : List (Step K)) (h : Heap K) (c : Nat → P3 K) (n : Nat) (hn : n ≤ h.next) (hc : ∀ a, a < n → h.cell a = c a)
    (hok : ∀ st ∈ steps, StepOk n st) :
    runH isZero sqrt fit h steps = specH isZero sqrt fit c steps := by
  induction steps generalizing h c with
  | nil => rfl
  | cons st t ih =>
    have hok' : ∀ st ∈ t, StepOk n st := fun s hs => hok s (List.mem_cons_of_mem _ hs)
    cases st with
    | write a p =>
      simp only [runH, specH]
      apply ih _ _ (by rw [write_next]; exact hn) _ hok'
      intro a' ha'
      simp only [Heap.write]
      split
      · rfl
      · exact hc a' ha'
    | fit f s g =>
      obtain ⟨bf, bs, bg⟩ : Below f n ∧ Below s n ∧ Below g n := hok _ (List.mem_cons_self ..)
      have rd : ∀ l, Below l n → h.read l = l.map c := fun l hl => List.map_congr_left (fun a ha => hc a (hl a ha))
      have e := fitFragmentH_eq isZero sqrt fit h f s g (below_mono bf hn) (below_mono bs hn) (below_mono bg hn)
      rw [rd f bf, rd s bs, rd g bg] at e
      simp only [runH, specH]
      cases hr : fitFragmentH isZero sqrt fit h f s g with
      | none =>
        rw [hr] at e
        simp only [Option.map_none] at e
        rw [← e]
        simp only [List.cons.injEq, true_and]
        exact ih h c hn hc hok'
      | some r =>
        rw [hr] at e
        simp only [Option.map_some] at e
        rw [← e]
        simp only [List.cons.injEq, true_and]
        obtain ⟨x, -, -⟩ := fitFragmentH_frame isZero sqrt fit h f s g r hr
        exact ih r.1 c (Nat.le_trans hn x.1) (fun a ha => by rw [x.2 a (Nat.lt_of_lt_of_le ha hn)]; exact hc a ha) hok'

end heap

/-- a history that meets the hypotheses: the witness atoms `wSrc` are rows 0–3 (fragment AND source list: the same rows),
    their targets rows 4–7; fit, move atom 0 in place, fit again — the second fit sees the moved atom -/
def wHeap : Heap Rat := ⟨fun a => ((wSrc ++ wTgt)[a]?).getD ⟨0, 0, 0⟩, 8⟩
def wHist : List (Step Rat) := [.fit [0, 1, 2, 3] [0, 1, 2, 3] [4, 5, 6, 7], .write 0 ⟨3, 0, 0⟩, .fit [0, 1, 2, 3] [0, 1, 2, 3] [4, 5, 6, 7]]

theorem wHist_ok : ∀ st ∈ wHist, StepOk 8 st := by
  intro st hst
  simp only [wHist, List.mem_cons, List.not_mem_nil, or_false] at hst
  rcases hst with rfl | rfl | rfl <;> simp [StepOk, Below]

example : runH isZeroQ id fit90 wHeap wHist = specH isZeroQ id fit90 wHeap.cell wHist :=
  history_reads_current isZeroQ id fit90 wHist wHeap wHeap.cell 8 (Nat.le_refl _) (fun _ _ => rfl) wHist_ok

/-- … and what comes out: deviation 0 first, then (atom 0 moved by 1 along x) a mean-square deviation of 3/16 -/
theorem wHist_result : (runH isZeroQ id fit90 wHeap wHist).map (fun o => o.map (·.2)) = [some 0, some (3/16)] := by decide +kernel

/-! ## the tie to the traced source (`ShelxModel/Extracted/C20Src.lean`, regenerated on every run)

  `extract/trace_c20.py` runs quatfit.py's own functions on symbolic numbers (`extract/symtrace.py`); what CPython
  computed is written out as the straight-line definitions `Src.…`. Each `src_…` theorem: for ALL real inputs that
  program IS the model function the theorems above are about (`q2mat`, `transpose`, `rotmol`, the quadratic form
  handed to `jacobi` — captured at the call — for one and for three point pairs, `centroid`, `matrix_minus/plus_vect`,
  `rmsd`). The loops are unrolled by the trace, so the list-valued targets are instances (1, 2 or 3 points) of the
  model's folds; the fold itself (any number of points) is the hand-written part validated by the correspondence.
  The Jacobi iteration branches on its numbers and is not traced.
-/
def flatP {K : Type} (p : P3 K) : List K := [p.x, p.y, p.z]
def flatPs {K : Type} (ps : List (P3 K)) : List K := ps.flatMap flatP
def flatM3 {K : Type} (m : M3 K) : List K := [m.m00, m.m01, m.m02, m.m10, m.m11, m.m12, m.m20, m.m21, m.m22]
def flatS4 {K : Type} (n : S4 K) : List K := [n.n00, n.n01, n.n02, n.n03, n.n11, n.n12, n.n13, n.n22, n.n23, n.n33]

syntax "src_tie" "[" Lean.Parser.Tactic.simpLemma,* "]" : tactic
macro_rules
  | `(tactic| src_tie [$ls,*]) => `(tactic| (simp only [$ls,*] <;> try ring_nf))

theorem src_q2mat (q : Q4 ℝ) : Src.q2mat q.q0 q.q1 q.q2 q.q3 = flatM3 (q2mat q) := by
  src_tie [Src.q2mat, q2mat, flatM3]

theorem src_transpose (u : M3 ℝ) :
    Src.transpose u.m00 u.m01 u.m02 u.m10 u.m11 u.m12 u.m20 u.m21 u.m22 = flatM3 (transpose u) := by
  src_tie [Src.transpose, transpose, flatM3]

theorem src_rotmol1 (u : M3 ℝ) (p : P3 ℝ) :
    Src.rotmol1 u.m00 u.m01 u.m02 u.m10 u.m11 u.m12 u.m20 u.m21 u.m22 p.x p.y p.z = flatPs (rotmol [p] u) := by
  src_tie [Src.rotmol1, rotmol, rotPoint, flatPs, flatP, List.map, List.flatMap_cons, List.flatMap_nil, List.append_nil, List.cons_append, List.nil_append]

theorem src_rotmol2 (u : M3 ℝ) (p1 p2 : P3 ℝ) :
    Src.rotmol2 u.m00 u.m01 u.m02 u.m10 u.m11 u.m12 u.m20 u.m21 u.m22 p1.x p1.y p1.z p2.x p2.y p2.z
      = flatPs (rotmol [p1, p2] u) := by
  src_tie [Src.rotmol2, rotmol, rotPoint, flatPs, flatP, List.map, List.flatMap_cons, List.flatMap_nil, List.append_nil, List.cons_append, List.nil_append]

theorem src_qform1 (s t : P3 ℝ) :
    Src.qform1 s.x s.y s.z t.x t.y t.z = flatS4 (qformPairs [(s, t)]) := by
  src_tie [Src.qform1, qformPairs, qformOf, corr, corrStep, acc0, List.foldl, flatS4]

theorem src_qform3 (s1 s2 s3 t1 t2 t3 : P3 ℝ) :
    Src.qform3 s1.x s1.y s1.z s2.x s2.y s2.z s3.x s3.y s3.z t1.x t1.y t1.z t2.x t2.y t2.z t3.x t3.y t3.z
      = flatS4 (qformPairs [(s1, t1), (s2, t2), (s3, t3)]) := by
  src_tie [Src.qform3, qformPairs, qformOf, corr, corrStep, acc0, List.foldl, flatS4]

theorem src_minusVect2 (p1 p2 v : P3 ℝ) :
    Src.minusVect2 p1.x p1.y p1.z p2.x p2.y p2.z v.x v.y v.z = flatPs (minusVect [p1, p2] v) := by
  src_tie [Src.minusVect2, minusVect, flatPs, flatP, List.map, List.flatMap_cons, List.flatMap_nil, List.append_nil, List.cons_append, List.nil_append]

theorem src_plusVect2 (p1 p2 v : P3 ℝ) :
    Src.plusVect2 p1.x p1.y p1.z p2.x p2.y p2.z v.x v.y v.z = flatPs (plusVect [p1, p2] v) := by
  src_tie [Src.plusVect2, plusVect, flatPs, flatP, List.map, List.flatMap_cons, List.flatMap_nil, List.append_nil, List.cons_append, List.nil_append]

theorem src_centroid3 (isZero : ℝ → Bool) (hz : ∀ x, isZero x = true ↔ x = 0) (p1 p2 p3 : P3 ℝ) :
    (centroid isZero [p1, p2, p3]).map flatP
      = some (Src.centroid3 p1.x p1.y p1.z p2.x p2.y p2.z p3.x p3.y p3.z) := by
  have h3 : isZero ((0 : ℝ) + 1 + 1 + 1) = false := by
    cases h : isZero ((0 : ℝ) + 1 + 1 + 1) with
    | false => rfl
    | true => exact absurd ((hz _).mp h) (by norm_num)
  simp only [centroid, List.foldl, h3, Src.centroid3, flatP, Option.map, Bool.false_eq_true, if_false]
  norm_num

theorem src_rmsd2 (sqrt : ℝ → ℝ) (v1 v2 w1 w2 : P3 ℝ) :
    rmsd sqrt [v1, v2] [w1, w2]
      = some (Src.rmsd2 sqrt v1.x v1.y v1.z v2.x v2.y v2.z w1.x w1.y w1.z w2.x w2.y w2.z) := by
  simp only [rmsd, ssd, ssdStep, lenK, List.zip_cons_cons, List.zip_nil_right, List.foldl, Src.rmsd2]
  congr 2
  ring_nf

end Shelx.C20

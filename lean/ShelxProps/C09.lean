/-
  C09 — property theorems (model: ShelxModel/C09.lean).

  Quantified over ALL occupation codes `c : Rat` (no bound on m), ALL free-variable lists, ALL atom lists.
  The only hypothesis on codes is `Dec8 c` (the code is a decimal number with at most 8 decimals — SHELXL
  files carry 5 or 6), under which Python's `round(value, 8)` is the identity on the exact value.
-/
import ShelxModel.C09
import ShelxModel.Extracted.C09Src
import Mathlib.Tactic.NormNum
import Mathlib.Tactic.Ring
import Mathlib.Tactic.Linarith
import Mathlib.Tactic.FieldSimp
import Mathlib.Tactic.Push

namespace Shelx.C09

/-- the code has at most eight decimals -/
def Dec8 (c : Rat) : Prop := ∃ k : Int, c * 100000000 = (k : Rat)

/-! ### decoding -/

theorem decode_sound (c : Rat) :
    c = 10 * ((decode c).1 : Rat) + (decode c).2 ∧ -5 ≤ (decode c).2 ∧ (decode c).2 < 5 := by
  have h1 := Rat.floor_le ((c + 5) / 10)
  have h2 := Rat.lt_floor_add_one ((c + 5) / 10)
  simp only [decode]
  push_cast at h2
  refine ⟨by ring, ?_, ?_⟩ <;> linarith

/-- `decode` is the only decomposition `c = 10 m + p` with `-5 ≤ p < 5` -/
theorem decode_unique (c : Rat) (m : Int) (p : Rat) (h : c = 10 * (m : Rat) + p) (h1 : -5 ≤ p) (h2 : p < 5) :
    decode c = (m, p) := by
  have hm : ((c + 5) / 10).floor = m := by
    apply Int.le_antisymm
    · have : ((c + 5) / 10).floor < m + 1 := by
        rw [Rat.floor_lt_iff]; push_cast; linarith
      omega
    · rw [Rat.le_floor_iff]; linarith
  simp only [decode, hm]
  congr 1
  linarith

theorem roundHalfEven_int (k : Int) : roundHalfEven (k : Rat) = k := by
  simp [roundHalfEven, Rat.floor_intCast]

theorem round8_id (x : Rat) (h : Dec8 x) : round8 x = x := by
  obtain ⟨k, hk⟩ := h
  unfold round8
  rw [hk, roundHalfEven_int]
  rw [← hk]; ring

theorem dec8_sub_int (c : Rat) (m : Int) (h : Dec8 c) : Dec8 (c - 10 * (m : Rat)) := by
  obtain ⟨k, hk⟩ := h
  refine ⟨k - 1000000000 * m, ?_⟩
  push_cast
  rw [← hk]; ring

/-- the code's decoder computes the SHELXL decomposition -/
theorem splitCode_eq_decode (c : Rat) (h : Dec8 c) : splitCode c = decode c := by
  simp only [splitCode, decode]
  rw [round8_id _ (dec8_sub_int c _ h)]

/-! ### the free-variable rule -/

theorem fvGet_eq_fvOfList (fv : List Rat) (m : Int) (hm : m > 1) : fvGet fv m = fvOfList fv m := by
  have : m ≥ 1 := by omega
  simp only [fvGet, fvOfList, this, if_true]
  congr 1
  omega

theorem fvGet_eq_fvOfList_neg (fv : List Rat) (m : Int) (hm : m < -1) : fvGet fv m = fvOfList fv (-m) := by
  have : -m ≥ 1 := by omega
  simp only [fvGet, fvOfList, this, if_true]
  congr 1
  omega

/-- **occ_eq_rule**: wherever the rule of the statement prescribes a value, `Atom.occupancy` returns it -/
theorem occ_eq_rule (fv : List Rat) (c : Rat) (h : Dec8 c) (r : Rat) (hr : specOcc fv c = some r) :
    occupancy fv c = r := by
  unfold occupancy
  rw [splitCode_eq_decode c h]
  unfold specOcc ruleOcc at hr
  generalize decode c = mp at hr ⊢
  obtain ⟨m, p⟩ := mp
  simp only at hr ⊢
  by_cases h01 : m = 0 ∨ m = 1
  · have : m.natAbs ≤ 1 := by omega
    simp only [h01, if_true] at hr
    simp only [this, if_true]
    exact Option.some.inj hr
  · simp only [h01, if_false] at hr
    by_cases hpos : m > 1
    · have hn : ¬ m.natAbs ≤ 1 := by omega
      simp only [hpos, if_true] at hr
      simp only [hn, if_false]
      rw [fvGet_eq_fvOfList fv m hpos]
      cases hv : fvOfList fv m with
      | none => simp [hv] at hr
      | some v =>
        simp only [hv, Option.map_some, Option.some.injEq] at hr
        have : m > 0 := by omega
        simp only [this, if_true]
        rw [← hr]; ring
    · simp only [hpos, if_false] at hr
      by_cases hneg : m < -1
      · have hn : ¬ m.natAbs ≤ 1 := by omega
        simp only [hneg, if_true] at hr
        simp only [hn, if_false]
        rw [fvGet_eq_fvOfList_neg fv m hneg]
        cases hv : fvOfList fv (-m) with
        | none => simp [hv] at hr
        | some v =>
          simp only [hv, Option.map_some, Option.some.injEq] at hr
          have : ¬ m > 0 := by omega
          simp only [this, if_false]
          exact hr
      · simp [hneg] at hr

theorem dec8_neg (c : Rat) (h : Dec8 c) : Dec8 (-c) := by
  obtain ⟨k, hk⟩ := h
  exact ⟨-k, by push_cast; rw [← hk]; ring⟩

theorem decode_neg (c : Rat) (hp : (decode c).2 ≠ -5) : decode (-c) = (-(decode c).1, -(decode c).2) := by
  obtain ⟨h0, h1, h2⟩ := decode_sound c
  apply decode_unique
  · push_cast; linarith
  · linarith
  · have : (decode c).2 > -5 := lt_of_le_of_ne h1 (Ne.symm hp)
    linarith

/-- **pair_sums_to_p**: codes `10m+p` and `-(10m+p)` (|m| > 1, free variable defined) sum to `p` -/
theorem pair_sums_to_p (fv : List Rat) (c : Rat) (h : Dec8 c) (hm : 1 < (decode c).1)
    (hp : (decode c).2 ≠ -5) (v : Rat) (hv : fvOfList fv (decode c).1 = some v) :
    occupancy fv c + occupancy fv (-c) = (decode c).2 := by
  have e1 : occupancy fv c = (decode c).2 * v := by
    apply occ_eq_rule fv c h
    have : ¬ ((decode c).1 = 0 ∨ (decode c).1 = 1) := by omega
    simp [specOcc, ruleOcc, this, hm, hv]
  have e2 : occupancy fv (-c) = (-(decode c).2) * (v - 1) := by
    apply occ_eq_rule fv (-c) (dec8_neg c h)
    have hd := decode_neg c hp
    have h1 : ¬ (-(decode c).1 = 0 ∨ -(decode c).1 = 1) := by omega
    have h2 : ¬ (-(decode c).1 > 1) := by omega
    have h3 : -(decode c).1 < -1 := by omega
    simp only [specOcc, ruleOcc, hd, h1, h2, h3, if_false, if_true]
    simp [hv]
  rw [e1, e2]; ring

/-- **pair_occupancies_in_range**: for a disorder pair `10m+p` / `-(10m+p)` with `0 ≤ p` and a free variable
    `0 ≤ v ≤ 1`, both occupancies the code computes are fractions of `p` (between 0 and `p`): the two components of a
    disordered site never get a negative occupancy or more than the site's multiplicity factor. -/
theorem pair_occupancies_in_range (fv : List Rat) (c : Rat) (h : Dec8 c) (hm : 1 < (decode c).1)
    (hp0 : 0 ≤ (decode c).2) (v : Rat) (hv : fvOfList fv (decode c).1 = some v)
    (hv0 : 0 ≤ v) (hv1 : v ≤ 1) :
    0 ≤ occupancy fv c ∧ occupancy fv c ≤ (decode c).2 ∧ 0 ≤ occupancy fv (-c) ∧ occupancy fv (-c) ≤ (decode c).2 := by
  have hp : (decode c).2 ≠ -5 := by intro e; rw [e] at hp0; norm_num at hp0
  have hsum := pair_sums_to_p fv c h hm hp v hv
  have e1 : occupancy fv c = (decode c).2 * v := by
    apply occ_eq_rule fv c h
    have : ¬ ((decode c).1 = 0 ∨ (decode c).1 = 1) := by omega
    simp [specOcc, ruleOcc, this, hm, hv]
  have hA : 0 ≤ (decode c).2 * v := mul_nonneg hp0 hv0
  have hB : (decode c).2 * v ≤ (decode c).2 := by nlinarith
  rw [e1] at hsum ⊢
  refine ⟨hA, hB, ?_, ?_⟩ <;> linarith

example : Dec8 (20.5 : Rat) ∧ 1 < (decode (20.5 : Rat)).1 ∧ 0 ≤ (decode (20.5 : Rat)).2 ∧ (decode (20.5 : Rat)).2 ≤ 1
    ∧ fvOfList [1, 3/4] (decode (20.5 : Rat)).1 = some (3/4) := by
  refine ⟨⟨2050000000, by norm_num⟩, ?_, ?_, ?_, ?_⟩ <;> decide +kernel

/-! ### sum formulae -/

theorem dictAdd_dictAdd (d : List (String × Rat)) (k : String) (x y : Rat) :
    dictAdd (dictAdd d k x) k y = dictAdd d k (x + y) := by
  induction d with
  | nil => simp [dictAdd]
  | cons hd tl ih =>
    obtain ⟨k', v'⟩ := hd
    by_cases hk : k' = k
    · simp [dictAdd, hk, add_assoc]
    · simp [dictAdd, hk, ih]

theorem dictAdd_fresh (d : List (String × Rat)) (k : String) (x : Rat) (h : k ∉ d.map (·.1)) :
    dictAdd d k x = d ++ [(k, x)] := by
  induction d with
  | nil => simp [dictAdd]
  | cons hd tl ih =>
    obtain ⟨k', v'⟩ := hd
    simp only [List.map_cons, List.mem_cons, not_or] at h
    have hk : ¬ k' = k := fun e => h.1 e.symm
    simp [dictAdd, hk, ih h.2]

theorem dictHas_iff_mem (d : List (String × Rat)) (k : String) : dictHas d k = true ↔ k ∈ d.map (·.1) := by
  simp only [dictHas, List.any_eq_true, decide_eq_true_eq, List.mem_map]

theorem foldl_dictAdd (d : List (String × Rat)) (k : String) (x : Rat) (l : List Rat) :
    l.foldl (fun d v => dictAdd d k v) (dictAdd d k x) = dictAdd d k (x + l.sum) := by
  induction l generalizing x with
  | nil => simp
  | cons y t ih => simp only [List.foldl_cons, dictAdd_dictAdd, ih, List.sum_cons]; congr 1; ring

/-- the inner loop only ever touches the key `el`: it adds the occupancies of the matching atoms one by one -/
theorem sumInner_eq (fv : List Rat) (el : String) (atoms : List AtomS) (d : List (String × Rat)) :
    sumInner fv el atoms d =
      ((atoms.filter fun a => a.element = el && !a.qpeak).map fun a => occupancy fv a.sof).foldl
        (fun d v => dictAdd d el v) d := by
  induction atoms generalizing d with
  | nil => simp [sumInner]
  | cons a t ih =>
    simp only [sumInner, List.foldl_cons] at ih ⊢
    by_cases hc : (decide (a.element = el) && !a.qpeak) = true
    · simp only [hc, if_true, List.filter_cons, List.map_cons, List.foldl_cons]; exact ih _
    · have hc' : (decide (a.element = el) && !a.qpeak) = false := by simpa using hc
      simp only [hc', Bool.false_eq_true, if_false, List.filter_cons]; exact ih _

/-- one iteration of the outer loop on a key not yet present appends `(el, Σ occupancies)` -/
theorem outer_step (fv : List Rat) (el : String) (atoms : List AtomS) (d : List (String × Rat))
    (h : el ∉ d.map (·.1)) :
    (let d' := sumInner fv el atoms d; if dictHas d' el then d' else d' ++ [(el, 0)]) =
      d ++ [(el, ((atoms.filter fun a => a.element = el && !a.qpeak).map fun a => occupancy fv a.sof).sum)] := by
  simp only [sumInner_eq]
  generalize ((atoms.filter fun a => a.element = el && !a.qpeak).map fun a => occupancy fv a.sof) = l
  cases l with
  | nil =>
    have : dictHas d el = false := by
      cases hh : dictHas d el with
      | false => rfl
      | true => exact absurd ((dictHas_iff_mem d el).mp hh) h
    simp [this]
  | cons x t =>
    simp only [List.foldl_cons, foldl_dictAdd, List.sum_cons]
    rw [dictAdd_fresh d el _ h]
    have : dictHas (d ++ [(el, x + t.sum)]) el = true := by
      rw [dictHas_iff_mem]; simp
    simp [this]

/-- **sum_exact_spec**: with a duplicate-free SFAC element list the 'exact' sum formula is, element by
    element in SFAC order, the sum of the occupancies of the non-Q-peak atoms of that element. -/
theorem sum_exact_spec (fv : List Rat) (els : List String) (atoms : List AtomS) (hnd : els.Nodup) :
    sumExact fv els atoms = specSum (occupancy fv) els atoms := by
  suffices H : ∀ (els pre : List String) (d : List (String × Rat)), (pre ++ els).Nodup → d.map (·.1) = pre →
      els.foldl (fun d el =>
        let d' := sumInner fv el atoms d
        if dictHas d' el then d' else d' ++ [(el, 0)]) d = d ++ specSum (occupancy fv) els atoms by
    have := H els [] [] (by simpa using hnd) rfl
    simpa [sumExact] using this
  intro els
  induction els with
  | nil => intro pre d _ _; simp [specSum]
  | cons el t ih =>
    intro pre d hnd hk
    have hnotin : el ∉ d.map (·.1) := by
      rw [hk]; intro hin
      exact (List.nodup_append.mp hnd).2.2 el hin el (by simp) rfl
    rw [List.foldl_cons, outer_step fv el atoms d hnotin]
    rw [ih (pre ++ [el]) _ (by simpa [List.append_assoc] using hnd) (by simp [hk])]
    simp [specSum, List.append_assoc]

/-- the hypothesis is needed: a repeated SFAC element is counted twice by the code -/
example : sumExact [] ["C", "C"] [⟨"C", false, 11⟩] ≠ specSum (occupancy []) ["C", "C"] [⟨"C", false, 11⟩] := by
  decide +kernel

/-- **unit_formula_spec**: the UNIT-based formula is UNIT divided by Z, in SFAC order -/
theorem unit_formula_spec (els : List String) (unit : List Rat) (z : Rat)
    (hl : els.length = unit.length) (hz : z ≠ 0) :
    unitFormula els unit z = some (specUnit els unit z) := by
  simp [unitFormula, specUnit, hl, hz]

/-! ### non-vacuity: concrete instances meet the hypotheses -/

example : Dec8 (-30.5) := ⟨-3050000000, by norm_num⟩
example : occupancy [1, 0.6, 0.7] (-30.5) = 0.15 := by
  apply occ_eq_rule _ _ ⟨-3050000000, by norm_num⟩
  decide +kernel
example : decode (-30.5) = (-3, -0.5) := by decide +kernel
example : decode 9.5 = (1, -0.5) := by decide +kernel
example : occupancy [1, 0.6, 0.7] 30.5 + occupancy [1, 0.6, 0.7] (-30.5) = 0.5 := by decide +kernel

/-! ## the tie to the traced source (`ShelxModel/Extracted/C09Src.lean`, regenerated on every run)

  `extract/trace_c09.py` reads a file whose occupation code and free variables are symbolic through
  `Shelxfile.read_string` and traces `Atom.occupancy` / `sum_formula_exact_as_dict`. `floor((code + 5) / 10)` is a branch
  event: each traced program is the occupancy on the branch `m` its sample selects, and the theorem carries that branch
  condition as hypothesis. For ALL codes on the branch and ALL free-variable values the traced program is the model
  function `occupancy` (and hence, by `occ_eq_rule`, the SHELXL rule). -/

theorem src_occM3 (sof fv1 fv2 fv3 : Rat) (h : ((sof + 5) / 10).floor = 3) :
    Src.occM3 round8 sof fv3 = occupancy [fv1, fv2, fv3] sof := by
  simp [Src.occM3, occupancy, splitCode, fvGet, h]; norm_num

theorem src_occM2 (sof fv1 fv2 fv3 : Rat) (h : ((sof + 5) / 10).floor = 2) :
    Src.occM2 round8 sof fv2 = occupancy [fv1, fv2, fv3] sof := by
  simp [Src.occM2, occupancy, splitCode, fvGet, h]; norm_num

theorem src_occMm3 (sof fv1 fv2 fv3 : Rat) (h : ((sof + 5) / 10).floor = -3) :
    Src.occMm3 round8 sof fv3 = occupancy [fv1, fv2, fv3] sof := by
  simp [Src.occMm3, occupancy, splitCode, fvGet, h]; norm_num

theorem src_occMm2 (sof fv1 fv2 fv3 : Rat) (h : ((sof + 5) / 10).floor = -2) :
    Src.occMm2 round8 sof fv2 = occupancy [fv1, fv2, fv3] sof := by
  simp [Src.occMm2, occupancy, splitCode, fvGet, h]; norm_num

theorem src_occM1 (sof : Rat) (fv : List Rat) (h : ((sof + 5) / 10).floor = 1) :
    Src.occM1 round8 sof = occupancy fv sof := by
  simp [Src.occM1, occupancy, splitCode, h]

theorem src_occM0 (sof : Rat) (fv : List Rat) (h : ((sof + 5) / 10).floor = 0) :
    Src.occM0 round8 sof = occupancy fv sof := by
  simp [Src.occM0, occupancy, splitCode, h]

theorem src_occMm1 (sof : Rat) (fv : List Rat) (h : ((sof + 5) / 10).floor = -1) :
    Src.occMm1 round8 sof = occupancy fv sof := by
  simp [Src.occMm1, occupancy, splitCode, h]

/-- the branch hypotheses are satisfiable: the sample codes of the targets -/
example : (((30.75 : Rat) + 5) / 10).floor = 3 ∧ (((-30.75 : Rat) + 5) / 10).floor = -3 ∧ (((10.5 : Rat) + 5) / 10).floor = 1 := by
  decide +kernel

theorem src_sumExactCCO (s1 s2 s3 fv1 fv2 fv3 : Rat)
    (h1 : ((s1 + 5) / 10).floor = 2) (h2 : ((s2 + 5) / 10).floor = -2) (h3 : ((s3 + 5) / 10).floor = 3) :
    Src.sumExactCCO round8 s1 s2 s3 fv2 fv3
      = (sumExact [fv1, fv2, fv3] ["C", "H", "O"] [⟨"C", false, s1⟩, ⟨"C", false, s2⟩, ⟨"O", false, s3⟩]).map (·.2) := by
  simp [Src.sumExactCCO, sumExact, sumInner, dictAdd, dictHas, occupancy, splitCode, fvGet, h1, h2, h3]; norm_num

end Shelx.C09

/-
  C18 — property theorems (model: ShelxModel/C18.lean, tables: ShelxModel/Extracted/C18.lean, regenerated).

  (a) operators   `cif_ops_denote`   every operator whose rows have coefficients in {-1,0,1} (not all zero) and a
                                     translation k/12, -24 ≤ k ≤ 24 (1/2, 1/3, 2/3, 1/4, 3/4, 1/6, 5/6, their
                                     negatives and everything a centring adds), is printed as a string that the
                                     independent CIF reader `denoteCif` reads back as exactly that operator.
                                     Finite table, `decide +kernel`, for the printing mode READ OFF THE SOURCE
                                     (`Extracted.C18.opMode`): with the original text replacement this file does
                                     not compile (see `legacy_third_is_mangled`).
  (b) data items  `cif_total`, `cif_values_eq_model`, `temp_spec`, `temp_absent`, `template_tags_covered`,
                  `dict_keys_are_model_keys` — for EVERY record `Src` (all combinations of absent ZERR, TEMP,
                  SIZE, residuals, title).
  (c) loops       `cif_atoms_nonq`, `cif_adp_aniso`, `adp_labels_are_the_uani_rows` — all atom lists.
-/
import ShelxModel.C18
import ShelxProps.Lemmas.C18Table
import ShelxProps.Lemmas.C18Doubles
import Mathlib.Tactic.Linarith
import Mathlib.Tactic.Push

namespace Shelx.C18

/-! ## (a) operators -/

/-- `c` is a row of the quantifier with translation `k/12` -/
def RowK (k : Int) (c : Comp) : Prop :=
  k ∈ ks ∧ c.cx ∈ sg ∧ c.cy ∈ sg ∧ c.cz ∈ sg ∧ (c.cx ≠ 0 ∨ c.cy ≠ 0 ∨ c.cz ≠ 0) ∧ c.t = (k : Rat) / 12

theorem compGood_spec {ts : List Char} {c : Comp} (h : compGood ts c = true) :
    ∃ s, compToCif ts c = some s ∧ ',' ∉ s ∧ denoteComp s = some c := by
  unfold compGood at h
  cases hc : compToCif ts c with
  | none => simp [hc] at h
  | some s =>
    simp only [hc, Bool.and_eq_true, Bool.not_eq_true', decide_eq_true_eq] at h
    refine ⟨s, rfl, ?_, h.2⟩
    intro hm
    have : s.contains ',' = true := by simpa using hm
    rw [this] at h
    exact Bool.noConfusion h.1

theorem row_good {k : Int} {c : Comp} (h : RowK k c) :
    ∃ s, compToCif (reprOf k) c = some s ∧ ',' ∉ s ∧ denoteComp s = some c := by
  obtain ⟨hk, hx, hy, hz, hne, ht⟩ := h
  have := comp_table k hk c.cx hx c.cy hy c.cz hz hne
  have hc : compOfK k c.cx c.cy c.cz = c := by
    cases c; simp only [compOfK] at *; simp [ht]
  rw [hc] at this
  exact compGood_spec this

theorem splitComma_ne_nil (s : List Char) : splitComma s ≠ [] := by
  cases s with
  | nil => simp [splitComma]
  | cons c s =>
    simp only [splitComma]
    cases splitComma s with
    | nil => simp
    | cons h t => by_cases hc : c = ',' <;> simp [hc]

theorem splitComma_nocomma (s : List Char) (h : ',' ∉ s) : splitComma s = [s] := by
  induction s with
  | nil => rfl
  | cons c s ih =>
    simp only [List.mem_cons, not_or] at h
    have hc : ¬ c = ',' := fun e => h.1 e.symm
    simp [splitComma, ih h.2, hc]

theorem splitComma_append (a rest : List Char) (h : ',' ∉ a) :
    splitComma (a ++ ',' :: rest) = a :: splitComma rest := by
  induction a with
  | nil =>
    simp only [List.nil_append, splitComma]
    cases hr : splitComma rest with
    | nil => exact absurd hr (splitComma_ne_nil rest)
    | cons x t => simp
  | cons c a ih =>
    simp only [List.mem_cons, not_or] at h
    have hc : ¬ c = ',' := fun e => h.1 e.symm
    simp [splitComma, ih h.2, hc]

theorem denoteComp_blank (s : List Char) : denoteComp (' ' :: s) = denoteComp s := by
  simp [denoteComp, List.filter]

/-- **cif_ops_denote** — the string written for an operator of the quantifier denotes exactly that operator. -/
theorem cif_ops_denote (op : Op) (k1 k2 k3 : Int) (h1 : RowK k1 op.r1) (h2 : RowK k2 op.r2) (h3 : RowK k3 op.r3) :
    (toCif (reprOf k1, reprOf k2, reprOf k3) op).bind denoteCif = some op := by
  obtain ⟨a, ha, hca, hda⟩ := row_good h1
  obtain ⟨b, hb, hcb, hdb⟩ := row_good h2
  obtain ⟨c, hc, hcc, hdc⟩ := row_good h3
  have hb' : ',' ∉ ' ' :: b := by simpa using hcb
  have hc' : ',' ∉ ' ' :: c := by simpa using hcc
  have hsplit : splitComma (join3 a b c) = [a, ' ' :: b, ' ' :: c] := by
    unfold join3
    rw [splitComma_append a _ hca]
    have : ' ' :: (b ++ ',' :: ' ' :: c) = (' ' :: b) ++ ',' :: (' ' :: c) := by simp
    rw [this, splitComma_append _ _ hb', splitComma_nocomma _ hc']
  cases op with
  | mk r1 r2 r3 =>
    simp only at ha hb hc hda hdb hdc
    simp [toCif, ha, hb, hc, denoteCif, hsplit, denoteComp_blank, hda, hdb, hdc]

/-- non-vacuity: the 6₁ screw axis `x-y, x, z+1/6` and an R-centred image of a glide `…+7/6` are in the domain -/
example : RowK 2 ⟨0, 0, 1, 1 / 6⟩ := by
  refine ⟨by decide, by decide, by decide, by decide, by decide, by norm_num⟩
example : RowK 14 ⟨1, -1, 0, 7 / 6⟩ := by
  refine ⟨by decide, by decide, by decide, by decide, by decide, by norm_num⟩
example : (toCif ([], [], []) ⟨⟨1, -1, 0, 0⟩, ⟨1, 0, 0, 0⟩, ⟨0, 0, 1, 1 / 6⟩⟩).bind denoteCif
    = some ⟨⟨1, -1, 0, 0⟩, ⟨1, 0, 0, 0⟩, ⟨0, 0, 1, 1 / 6⟩⟩ := by decide +kernel

/-- the reader is not a rubber stamp: a truncated decimal is not the fraction -/
example : denoteComp "0.6666666666666666+z".toList ≠ some ⟨0, 0, 1, 2 / 3⟩ := by decide +kernel
example : denoteComp "z+2/3".toList = some ⟨0, 0, 1, 2 / 3⟩ := by decide +kernel
example : denoteComp " -X + y - 0.25".toList = some ⟨-1, 1, 0, -1 / 4⟩ := by decide +kernel
example : denoteComp "x+-1/2".toList = none := by decide +kernel

/-! ### the code before repair `fix: write CIF symmetry operators with exact fractions` (history) -/

/-- the replacement list of the original `_replace_float_values` -/
def legacyRepl : List (List Char × List Char) :=
  [("1.25".toList, "5/4".toList), ("0.75".toList, "3/4".toList), ("0.5".toList, "1/2".toList),
   ("0.33".toList, "1/3".toList), ("0.25".toList, "1/4".toList), ("0.125".toList, "1/6".toList)]

/-- '0.33' is replaced inside the repr of the double 1/3 -/
theorem legacy_third_is_mangled :
    compLegacy legacyRepl (reprOf 4) ⟨0, 0, 1, 1 / 3⟩ = some "1/333333333333333+z".toList := by decide +kernel

theorem legacy_ops_fail_on :
    (compLegacy legacyRepl (reprOf 4) ⟨0, 0, 1, 1 / 3⟩).bind denoteComp ≠ some ⟨0, 0, 1, 1 / 3⟩ ∧
    (compLegacy legacyRepl (reprOf 8) ⟨0, 0, 1, 2 / 3⟩).bind denoteComp ≠ some ⟨0, 0, 1, 2 / 3⟩ ∧
    (compLegacy legacyRepl (reprOf 2) ⟨0, 0, 1, 1 / 6⟩).bind denoteComp ≠ some ⟨0, 0, 1, 1 / 6⟩ ∧
    (compLegacy legacyRepl (reprOf 10) ⟨0, 0, 1, 5 / 6⟩).bind denoteComp ≠ some ⟨0, 0, 1, 5 / 6⟩ ∧
    (compLegacy legacyRepl "0.125".toList ⟨0, 0, 1, 1 / 8⟩).bind denoteComp = some ⟨0, 0, 1, 1 / 6⟩ := by
  decide +kernel

/-- halves and quarters were right -/
theorem legacy_ok_on_halves :
    (compLegacy legacyRepl (reprOf (-6)) ⟨0, -1, 0, -1 / 2⟩).bind denoteComp = some ⟨0, -1, 0, -1 / 2⟩ := by
  decide +kernel

/-! ### `limit_denominator` over exact values -/

/-- a value whose denominator is within the bound is returned unchanged (first branch of CPython's function) -/
theorem limitDen_exact (N : Nat) (x : Rat) (h : x.den ≤ N) : limitDen N x = some x := by
  simp [limitDen, h]

/-- the double nearest to k/12 is snapped to k/12, for every translation of the quantifier (the bound is the one
    read off the source) -/
theorem double_table_snaps :
    ∀ e ∈ doubleTable, limitDen Extracted.C18.fracLimit (mkRat e.2.1 e.2.2) = some ((e.1 : Rat) / 12) :=
  double_table_snaps_tbl

/-- … and the row printed from the double denotes the row with the exact translation -/
theorem double_rows_denote : ∀ e ∈ doubleTable, ∀ cx ∈ sg, ∀ cy ∈ sg, ∀ cz ∈ sg, (cx ≠ 0 ∨ cy ≠ 0 ∨ cz ≠ 0) →
    (compToCif (reprOf e.1) ⟨cx, cy, cz, mkRat e.2.1 e.2.2⟩).bind denoteComp = some (compOfK e.1 cx cy cz) :=
  double_rows_denote_tbl

/-- a double next to a fraction is snapped to it (the doubles nearest to 1/3 and to 5/6 + 2/3) -/
example : limitDen 1000 (mkRat 6004799503160661 18014398509481984) = some (1 / 3) := by decide +kernel
example : limitDen 1000 (mkRat 6755399441055743 4503599627370496) = some (3 / 2) := by decide +kernel

/-! ## (b) data items -/

/-- the model's dictionary has the keys `modelKeys`, whatever the record -/
theorem cifDict_keys (s : Src) : (match cifDict s with | .ok d => d.map (·.1) | .error _ => []) = modelKeys := rfl

/-- the keys of the source's `_cif_dict` (regenerated) are the model's keys plus the text parts -/
theorem dict_keys_are_model_keys :
    (∀ k ∈ Extracted.C18.dictKeys, k ∈ modelKeys ∨ k ∈ textKeys) ∧ (∀ k ∈ modelKeys ++ textKeys, k ∈ Extracted.C18.dictKeys) := by
  decide +kernel

/-- every `${placeholder}` of the template (regenerated) has a key: `Template.substitute` cannot raise KeyError -/
theorem template_tags_covered : ∀ t ∈ Extracted.C18.templateTags, t ∈ modelKeys ∨ t ∈ textKeys := by
  decide +kernel

/-- **cif_total** — a CIF is produced for every record: with or without ZERR, TEMP, SIZE, residuals, title text.
    (`rfl` here is a computation through the REGENERATED template and the dictionary for a symbolic record: no
    branch of `cifDict` raises and every placeholder finds its key; it stops compiling when a key or a placeholder
    is renamed on one side only.) -/
theorem cif_total (s : Src) : isOk (cifItems s) = true := rfl

/-- **cif_values_eq_model** — cell, Z, wavelength and sum formula in the CIF are the model's.
    `hw` excludes a wavelength of exactly 0 (`CELL 0 …`, for which the code's `wavelength or '?'` writes `?`). -/
theorem cif_values_eq_model (s : Src) (hw : s.wavelength ≠ 0) :
    ∀ p ∈ specItems s, itemOf s p.1 = some p.2 := by
  intro p hp
  simp only [specItems, List.mem_cons, List.mem_nil_iff, or_false] at hp
  have hwl : itemOf s "_diffrn_radiation_wavelength" = some (.num s.wavelength) := by
    show some (orUnknown s.wavelength) = _
    simp [orUnknown, hw]
  rcases hp with h | h | h | h | h | h | h | h | h <;> subst h
  · rfl
  · rfl
  · rfl
  · rfl
  · rfl
  · rfl
  · rfl
  · exact hwl
  · rfl

/-- Z in the CIF is the Z of ZERR (when it is a proper Z ≥ 1) -/
theorem z_is_zerr (s : Src) (z : Rat) (hz : s.zerr = some z) (h1 : 1 ≤ z) :
    itemOf s "_cell_formula_units_Z" = some (.num z) := by
  show some (Val.num (zOf s.zerr)) = _
  have : ¬ z < 1 := by linarith
  simp [hz, zOf, this]

theorem roundHalfEven_close (y : Rat) : (roundHalfEven y : Rat) - 1 / 2 ≤ y ∧ y ≤ (roundHalfEven y : Rat) + 1 / 2 := by
  have h1 := Rat.floor_le y
  have h2 := Rat.lt_floor_add_one y
  push_cast at h2
  unfold roundHalfEven
  simp only
  split
  · constructor <;> linarith
  · split
    · push_cast; constructor <;> linarith
    · split
      · constructor <;> linarith
      · push_cast; constructor <;> linarith

theorem round3_close (x : Rat) : round3 x - 1 / 2000 ≤ x ∧ x ≤ round3 x + 1 / 2000 := by
  obtain ⟨h1, h2⟩ := roundHalfEven_close (x * 1000)
  unfold round3
  constructor <;> linarith

/-- the temperature is above 0.0005 K (everything physical; at -273.15 °C the code's `or '?'` writes `?`) -/
def AboveZeroK (t : Rat) : Prop := 1 / 2000 < t + 273.15

/-- **temp_spec** — with `TEMP t` the CIF gives t + 273.15 K to the template's three decimals -/
theorem temp_spec (s : Src) (t : Rat) (ht : s.temp = some t) (hz : AboveZeroK t) :
    ∃ v, itemOf s "_cell_measurement_temperature" = some (.num v) ∧ v - 1 / 2000 ≤ t + 273.15 ∧ t + 273.15 ≤ v + 1 / 2000 := by
  refine ⟨round3 (t + 273.15), ?_, round3_close _⟩
  show some (orUnknown (round3 (tempKOf s.temp))) = _
  have hpos : round3 (t + 273.15) ≠ 0 := by
    have := (round3_close (t + 273.15)).2
    unfold AboveZeroK at hz
    intro h0
    rw [h0] at this
    linarith
  simp [ht, tempKOf, orUnknown, hpos]

/-- without TEMP no temperature is stated -/
theorem temp_absent (s : Src) (ht : s.temp = none) : itemOf s "_cell_measurement_temperature" = some .unknown := by
  show some (orUnknown (round3 (tempKOf s.temp))) = _
  rw [ht]
  decide +kernel

/-- without SIZE the three dimensions are `?` -/
theorem size_absent (s : Src) (h : s.size = none) :
    itemOf s "_exptl_crystal_size_max" = some .unknown ∧ itemOf s "_exptl_crystal_size_mid" = some .unknown ∧
    itemOf s "_exptl_crystal_size_min" = some .unknown := by
  refine ⟨?_, ?_, ?_⟩
  · show some ((match s.size with
      | none => ((.unknown, .unknown, .unknown) : Val × Val × Val)
      | some z => (orUnknown (max3 z.dx z.dy z.dz), orUnknown (mid3 z.dx z.dy z.dz), orUnknown (min3 z.dx z.dy z.dz))).1) = _
    rw [h]
  · show some ((match s.size with
      | none => ((.unknown, .unknown, .unknown) : Val × Val × Val)
      | some z => (orUnknown (max3 z.dx z.dy z.dz), orUnknown (mid3 z.dx z.dy z.dz), orUnknown (min3 z.dx z.dy z.dz))).2.1) = _
    rw [h]
  · show some ((match s.size with
      | none => ((.unknown, .unknown, .unknown) : Val × Val × Val)
      | some z => (orUnknown (max3 z.dx z.dy z.dz), orUnknown (mid3 z.dx z.dy z.dz), orUnknown (min3 z.dx z.dy z.dz))).2.2) = _
    rw [h]

/-- non-vacuity: a record without ZERR, TEMP, SIZE, residuals and title text -/
def bare : Src :=
  { titl := [], sumFormula := "C2 H6 O1", formulaWeight := 46.07, wavelength := 0.71073, a := 10, b := 11, c := 12,
    alpha := 90, beta := 95, gamma := 90, volume := 1315, zerr := none, temp := none, size := none,
    r1 := none, wr2 := none, goof := none, spaceGroup := none }

example : isOk (cifItems bare) = true := rfl
example : bare.wavelength ≠ 0 := by decide +kernel
example : itemOf bare "_cell_formula_units_Z" = some (.num 1) := by decide +kernel
example : AboveZeroK (-173.18) := by unfold AboveZeroK; norm_num
example : itemOf { bare with temp := some (-173.18) } "_cell_measurement_temperature" = some (.num 99.97) := by
  decide +kernel

/-! ### the code before the repairs (history): attribute access on `None`, `[0]` of an empty list -/

theorem legacy_raises_without_size : cifDictLegacy { bare with titl := ["x"], zerr := some 4 } = .error .AttributeError := rfl
theorem legacy_raises_without_zerr : cifDictLegacy { bare with titl := ["x"], size := some ⟨1, 2, 3⟩ } = .error .AttributeError := rfl
theorem legacy_raises_on_empty_title : cifDictLegacy { bare with zerr := some 4, size := some ⟨1, 2, 3⟩ } = .error .IndexError := rfl

/-! ## (c) loops -/

theorem foldl_append_filter_map {α β : Type} (p : α → Bool) (f : α → β) (l : List α) (init : List β) :
    l.foldl (fun acc a => if p a then acc ++ [f a] else acc) init = init ++ (l.filter p).map f := by
  induction l generalizing init with
  | nil => simp
  | cons a t ih =>
    simp only [List.foldl_cons]
    by_cases h : p a = true
    · simp [h, ih]
    · have h' : p a = false := by simpa using h
      simp [h', ih]

theorem isIso_eq (a : AtomS) : isIso a = !specAniso a := by
  simp [isIso, specAniso, List.any, Bool.or_assoc]

theorem rowOf_eq (a : AtomS) : rowOf a = specRow a := by
  simp [rowOf, specRow, isIso_eq]

/-- **cif_atoms_nonq** — the atom loop is, in order, one row per atom that is not a Q-peak, carrying the atom's
    label, element, coordinates, occupancy and disorder group; anisotropic iff one of U22…U12 is given. -/
theorem cif_atoms_nonq (atoms : List AtomS) : atomLoop atoms = specAtomLoop atoms := by
  unfold atomLoop specAtomLoop
  have := foldl_append_filter_map (fun a : AtomS => !a.qpeak) rowOf atoms []
  simp only [List.nil_append] at this
  rw [this]
  congr 1
  funext a
  exact rowOf_eq a

/-- **cif_adp_aniso** — the ADP loop is, in order, the six Uij of the anisotropic atoms that are not Q-peaks -/
theorem cif_adp_aniso (atoms : List AtomS) : adpLoop atoms = specAdpLoop atoms := by
  unfold adpLoop specAdpLoop
  have := foldl_append_filter_map (fun a : AtomS => !a.qpeak && !isIso a) adpOf atoms []
  simp only [List.nil_append] at this
  rw [this]
  congr 2
  funext a
  simp [isIso_eq]

/-- the ADP loop has exactly the labels of the rows marked `Uani` in the atom loop, in the same order -/
theorem adp_labels_are_the_uani_rows (atoms : List AtomS) :
    (adpLoop atoms).map (·.label) = ((atomLoop atoms).filter (·.aniso)).map (·.label) := by
  rw [cif_adp_aniso, cif_atoms_nonq]
  unfold specAdpLoop specAtomLoop
  induction atoms with
  | nil => rfl
  | cons a t ih =>
    by_cases hq : a.qpeak = true
    · simpa [List.filter_cons, hq] using ih
    · have hq' : a.qpeak = false := by simpa using hq
      by_cases ha : specAniso a = true
      · simpa [List.filter_cons, hq', ha, specRow, adpOf] using ih
      · have ha' : specAniso a = false := by simpa using ha
        simpa [List.filter_cons, hq', ha', specRow] using ih

/-- Q-peaks are in neither loop -/
theorem no_qpeak_rows (atoms : List AtomS) (h : ∀ a ∈ atoms, a.qpeak = true) : atomLoop atoms = [] ∧ adpLoop atoms = [] := by
  rw [cif_atoms_nonq, cif_adp_aniso]
  unfold specAtomLoop specAdpLoop
  constructor
  · simp only [List.map_eq_nil_iff, List.filter_eq_nil_iff]
    intro a ha; simp [h a ha]
  · simp only [List.map_eq_nil_iff, List.filter_eq_nil_iff]
    intro a ha; simp [h a ha]

/-- non-vacuity / history: Uij that cancel — anisotropic by the specification and by the repaired code, isotropic for
    the original `sum(uvals[1:]) == 0` -/
def cancelling : AtomS :=
  { name := "C1", resinum := 0, element := "C", x := 0.1, y := 0.2, z := 0.3, u11 := 0.02, u22 := 0.01, u33 := 0.01,
    u23 := -0.01, u13 := -0.005, u12 := -0.005, occ := 1, part := 0, qpeak := false }

/-- labels of atoms in residues with negative and large numbers keep their suffix (RESI -999 … 9999) -/
example : label { cancelling with resinum := -3 } = "C1_-3" ∧ label { cancelling with resinum := 9999 } = "C1_9999" ∧
    label cancelling = "C1" := by decide +kernel

example : specAniso cancelling = true ∧ isIso cancelling = false := by decide +kernel
theorem legacy_isotropic_fails_on : isIsoLegacy cancelling = true ∧ specAniso cancelling = true := by decide +kernel
example : (atomLoop [cancelling, { cancelling with name := "Q1", qpeak := true }]).map (·.label) = ["C1"] := by decide +kernel

/-! ## (d) histories on one object -/

theorem exportCif_eq_spec (o : Obj) : exportCif o = specCif o := by
  simp [exportCif, specCif, cif_atoms_nonq, cif_adp_aniso]

/-- **hist_export_reflects_current** — for EVERY history of reads, API edits and exports on one object and every
    position `k` that is an export: the CIF written there (the `countExports (steps.take k)`-th one) is the CIF of
    the state the steps before `k` leave the object in — whatever was read, edited or exported earlier. -/
theorem hist_export_reflects_current (o : Obj) (steps : List Step) (k : Nat) (hk : steps[k]? = some .write) :
    (runHist o steps)[countExports (steps.take k)]? = some (specCif ((steps.take k).foldl step o)) := by
  induction steps generalizing o k with
  | nil => simp at hk
  | cons s t ih =>
    cases k with
    | zero =>
      simp only [List.getElem?_cons_zero, Option.some.injEq] at hk
      subst hk
      simp [runHist, countExports, exportCif_eq_spec]
    | succ k =>
      simp only [List.getElem?_cons_succ] at hk
      cases s with
      | write =>
        simpa [runHist, countExports, step] using ih o k hk
      | read o' =>
        simpa [runHist, countExports, step] using ih o' k hk
      | edit f =>
        simpa [runHist, countExports, step] using ih (f o) k hk

/-- non-vacuity: read, export, read another structure, export — the second CIF is the second structure's -/
example (a b : Obj) :
    (runHist a [.write, .read b, .write])[1]? = some (specCif b) :=
  hist_export_reflects_current a [.write, .read b, .write] 2 rfl

/-- … and an edit of Z between two exports shows in the second one -/
example : ((runHist ⟨bare, []⟩ [.write, .edit (fun o => { o with src := { o.src with zerr := some 4 } }), .write])[1]?).map
    (fun c => match c.items with | .ok l => lookup "_cell_formula_units_Z" l | .error _ => none) = some (some (.num 4)) := by
  decide +kernel

end Shelx.C18

/-
  C16 — property theorems (model and spec: ShelxModel/C16.lean; regenerated table: ShelxModel/Extracted/C16Slots.lean).
-/
import ShelxModel.C16
import ShelxModel.Extracted.C16Slots
import Mathlib.Data.Rat.Defs

namespace Shelx.C16
open Shelx.Extracted

def classOfName (n : String) : Option CardSlots := slotTable.find? (fun c => c.name == n)

/-! ### the attribute store -/

theorem get_set (o : Obj) (a b : String) (v : Val) :
    (Obj.set o a v).get b = if a == b then some v else o.get b := by
  unfold Obj.get Obj.set
  rw [List.find?_cons]
  by_cases h : (a == b) = true
  · simp [h]
  · simp [h]

/-- the value a slot writes when its guard passes -/
def slotVal (e : Env) (s : Slot) : Option Val :=
  match readSrc e s.src with
  | .ok v => some (s.conv.app v)
  | .error _ => none

/-- **fill_attr** (generic interpretation lemma): if every statement whose guard passes can read its source, the
    constructor returns an object, and each attribute is what the LAST passing assignment to it wrote (or the
    previous content). Proved once, by induction over the statement list, for every table-shaped class. -/
theorem run_get (e : Env) (l : List Slot) (o : Obj)
    (hsafe : ∀ s ∈ l, s.guard.passes e = true → ∃ v, readSrc e s.src = .ok v) :
    ∃ o', run e l o = .ok o' ∧ ∀ a, o'.get a =
      match l.reverse.find? (fun s => s.attr == a && s.guard.passes e) with
      | some s => slotVal e s
      | none => o.get a := by
  induction l generalizing o with
  | nil => exact ⟨o, rfl, fun a => by simp⟩
  | cons s t ih =>
    have hsafe' : ∀ s' ∈ t, s'.guard.passes e = true → ∃ v, readSrc e s'.src = .ok v :=
      fun s' hs' => hsafe s' (List.mem_cons_of_mem _ hs')
    by_cases hp : s.guard.passes e = true
    · obtain ⟨v, hv⟩ := hsafe s (List.mem_cons_self) hp
      obtain ⟨o', hrun, hget⟩ := ih (o.set s.attr (s.conv.app v)) hsafe'
      refine ⟨o', ?_, ?_⟩
      · simp [run, stepSlot, hp, hv, hrun]
      · intro a
        rw [hget a, List.reverse_cons, List.find?_append]
        cases hf : t.reverse.find? (fun s => s.attr == a && s.guard.passes e) with
        | some s' => simp
        | none =>
          simp only [Option.none_or, List.find?_cons, List.find?_nil, hp, Bool.and_true]
          rw [get_set]
          by_cases ha : (s.attr == a) = true
          · simp [ha, slotVal, hv]
          · simp [ha]
    · have hp' : s.guard.passes e = false := by simpa using hp
      obtain ⟨o', hrun, hget⟩ := ih o hsafe'
      refine ⟨o', ?_, ?_⟩
      · simp [run, stepSlot, hp', hrun]
      · intro a
        rw [hget a, List.reverse_cons, List.find?_append]
        cases hf : t.reverse.find? (fun s => s.attr == a && s.guard.passes e) with
        | some s' => simp
        | none => simp [hp']

/-! ### from the decidable conformance check to the property -/

/-- the DEFS object exists exactly when a DEFS line `qs` preceded, and exposes the five effective values -/
def DefsOK (dobj : Option Obj) (qs : Option (List Rat)) : Prop :=
  dobj.isSome = qs.isSome ∧ ∀ d, dobj = some d → ∀ f ∈ defsFields, d.get f = some (.num (effDefs qs f))

theorem passes_eq (e : Env) (g : Guard) : g.passes e = g.passesN e.ps.length e.defs.isSome := by
  cases g <;> rfl

theorem pyInt_of_isInt (r : Rat) (h : isInt r = true) : ((pyInt r : Int) : Rat) = r := by
  have hd : r.den = 1 := by simpa [isInt] using h
  unfold pyInt
  rw [hd]
  have : r.num.tdiv ((1 : Nat) : Int) = r.num := by simp
  rw [this]
  exact Rat.coe_int_num_of_den_eq_one hd

theorem conforms_unpack {rules : List DefsRule} {c : CardSlots} {sp : Syntax} (h : conforms rules c sp = true)
    {n : Nat} (hn : n ∈ formLens sp) (hd : Bool) :
    sp.finite = true ∧
    (∀ s ∈ stmtsOf rules c, s.guard.passesN n hd = true → s.src.safeN n hd = true) ∧
    (∀ pk ∈ sp.positions, winnerOK pk.1 pk.2 n hd (winner (stmtsOf rules c) n hd pk.1.attr) = true) := by
  simp only [conforms, Bool.and_eq_true, List.all_eq_true] at h
  obtain ⟨⟨hfin, _⟩, hall⟩ := h
  have := hall n hn hd (by cases hd <;> simp)
  refine ⟨hfin, ?_, this.2⟩
  intro s hs hp
  have := this.1 s hs
  simpa [hp] using this

theorem safe_reads (e : Env) (qs : Option (List Rat)) (hd : DefsOK e.defs qs) (s : Slot)
    (hs : s.src.safeN e.ps.length e.defs.isSome = true) : ∃ v, readSrc e s.src = .ok v := by
  cases hsrc : s.src with
  | idx j =>
    rw [hsrc] at hs
    have hj : j < e.ps.length := by simpa [Src.safeN] using hs
    exact ⟨.num e.ps[j], by simp [readSrc, List.getElem?_eq_getElem hj]⟩
  | slice a b => exact ⟨_, rfl⟩
  | const v => exact ⟨_, rfl⟩
  | defs f m =>
    rw [hsrc] at hs
    simp only [Src.safeN, Bool.and_eq_true, List.contains_iff_mem] at hs
    obtain ⟨hsome, hf⟩ := hs
    obtain ⟨d, hdd⟩ := Option.isSome_iff_exists.mp hsome
    exact ⟨.num (effDefs qs f * m), by simp [readSrc, hdd, hd.2 d hdd f hf]⟩

theorem positionsFrom_mem {k : Nat} {l : List Param} {pk : Param × Nat} (h : pk ∈ positionsFrom k l) : pk.1 ∈ l := by
  induction l generalizing k with
  | nil => simp [positionsFrom] at h
  | cons p t ih =>
    simp only [positionsFrom, List.mem_cons] at h
    rcases h with h | h
    · simp [h]
    · exact List.mem_cons_of_mem _ (ih h)

theorem specVal_given1 (eff : String → Rat) (P : Param) (pos : Nat) (ps : List Rat) (h1 : P.width = 1)
    (hle : pos < ps.length) : specVal eff P pos ps = .given (.num ps[pos]) := by
  have : pos + 1 ≤ ps.length := hle
  simp [specVal, h1, this, List.getElem?_eq_getElem hle]

theorem specVal_givenW (eff : String → Rat) (P : Param) (pos : Nat) (ps : List Rat) (h0 : P.width ≠ 0) (h1 : P.width ≠ 1)
    (hle : pos + P.width ≤ ps.length) : specVal eff P pos ps = .given (.nums ((ps.drop pos).take P.width)) := by
  simp [specVal, h0, h1, hle]

theorem specVal_omitted (eff : String → Rat) (P : Param) (pos : Nat) (ps : List Rat) (h0 : P.width ≠ 0)
    (hle : ¬ pos + P.width ≤ ps.length) : specVal eff P pos ps = .omitted (dfltVal eff P.dflt) := by
  simp [specVal, h0, hle]

theorem conv_nums (cv : Conv) (l : List Rat) : cv.app (.nums l) = .nums l := by
  cases cv <;> rfl

/-- **table_attr_spec**: for a class whose (regenerated) slot table conforms to a syntax entry, for ALL parameter lists
    `ps` of a legal form, with or without a preceding DEFS: the constructor succeeds (no IndexError) and every
    parameter's attribute is the value written at the parameter's position, or — omitted — its documented default
    (for restraints the DEFS-dependent one) or `None`.
    Hypotheses: `intsOK` — integer-kind parameters (mn, N, npeaks …) are integers (Python's `int()` truncates
    anything else: `AFIX 43.7` gives mn = 43); `hi2` — classes parsed with `intnums=True` see only integers (`int('1.5')`
    raises ValueError); `DefsOK` — the DEFS object carries the five effective values. -/
theorem table_attr_spec (rules : List DefsRule) (c : CardSlots) (sp : Syntax)
    (hc : conforms rules c sp = true) (ps : List Rat) (qs : Option (List Rat)) (dobj : Option Obj)
    (hdefs : DefsOK dobj qs) (hn : ps.length ∈ formLens sp) (hi : intsOK sp ps = true)
    (hi2 : c.intnums = true → ps.all isInt = true) :
    ∃ o, fill rules c ⟨ps, dobj⟩ = .ok o ∧
      ∀ pk ∈ sp.positions, accepts (o.get pk.1.attr) (specVal (effDefs qs) pk.1 pk.2 ps) = true := by
  obtain ⟨hfin, hsafe, hwin⟩ := conforms_unpack hc hn dobj.isSome
  have hs : ∀ s ∈ stmtsOf rules c, s.guard.passes ⟨ps, dobj⟩ = true → ∃ v, readSrc ⟨ps, dobj⟩ s.src = .ok v := by
    intro s hs hp
    rw [passes_eq] at hp
    exact safe_reads ⟨ps, dobj⟩ qs hdefs s (hsafe s hs hp)
  obtain ⟨o, hrun, hget⟩ := run_get ⟨ps, dobj⟩ (stmtsOf rules c) [] hs
  refine ⟨o, ?_, ?_⟩
  · unfold fill
    have : (c.intnums && !(ps.all isInt)) = false := by
      cases hci : c.intnums with
      | false => simp
      | true => simp [hi2 hci]
    simp only [this]
    exact hrun
  · intro pk hpk
    have hw := hwin pk hpk
    have hwidth : pk.1.width ≠ 0 := by
      have hmem := positionsFrom_mem hpk
      have := (List.all_eq_true.mp hfin) pk.1 hmem
      have : pk.1.width ≥ 1 := by simpa using this
      omega
    rw [hget pk.1.attr]
    have hfun : (fun s : Slot => s.attr == pk.1.attr && s.guard.passes ⟨ps, dobj⟩) =
        (fun s : Slot => s.attr == pk.1.attr && s.guard.passesN ps.length dobj.isSome) := by
      funext s; rw [passes_eq]
    rw [hfun]
    unfold winner at hw
    cases hfind : (stmtsOf rules c).reverse.find? (fun s => s.attr == pk.1.attr && s.guard.passesN ps.length dobj.isSome) with
    | none => rw [hfind] at hw; simp [winnerOK] at hw
    | some s =>
      rw [hfind] at hw
      simp only [winnerOK] at hw
      by_cases hgiven : pk.2 + pk.1.width ≤ ps.length
      · simp only [hgiven, if_true, Bool.and_eq_true] at hw
        obtain ⟨hsrc, hconv⟩ := hw
        by_cases h1 : pk.1.width = 1
        · -- scalar, given
          have hlt : pk.2 < ps.length := by omega
          have hsrc' : s.src = .idx pk.2 := by simpa [h1] using hsrc
          rw [specVal_given1 _ _ _ _ h1 hlt]
          have hint : s.conv = .id ∨ isInt ps[pk.2] = true := by
            rcases (Bool.or_eq_true _ _).mp hconv with h | h
            · exact Or.inl (by simpa using h)
            · right
              have hk : pk.1.kind = .int := by simpa using h
              have := (List.all_eq_true.mp hi) pk hpk
              simp only [hk, h1, bne_self_eq_false, Bool.false_or, Nat.max_self] at this
              have hd1 : (ps.drop pk.2).take 1 = [ps[pk.2]] := by
                rw [List.drop_eq_getElem_cons hlt, List.take_succ_cons, List.take_zero]
              rw [hd1] at this
              simpa using this
          have hval : slotVal ⟨ps, dobj⟩ s = some (.num ps[pk.2]) := by
            simp only [slotVal, hsrc', readSrc, List.getElem?_eq_getElem hlt]
            rcases hint with h | h
            · simp [h, Conv.app]
            · cases hcv : s.conv with
              | id => simp [Conv.app]
              | int => simp [Conv.app, pyInt_of_isInt _ h]
          simp [accepts, hval]
        · -- group, given
          rw [specVal_givenW _ _ _ _ hwidth h1 hgiven]
          have h1' : (pk.1.width == 1) = false := by simpa using h1
          simp only [h1', Bool.false_eq_true, if_false, Bool.or_eq_true, Bool.and_eq_true, beq_iff_eq] at hsrc
          have hval : slotVal ⟨ps, dobj⟩ s = some (.nums ((ps.drop pk.2).take pk.1.width)) := by
            rcases hsrc with h | ⟨h, hlen⟩
            · simp [slotVal, h, readSrc, pySlice, conv_nums]
            · have : (ps.drop pk.2).take pk.1.width = ps.drop pk.2 := by
                apply List.take_of_length_le
                simp only [List.length_drop]; omega
              simp [slotVal, h, readSrc, pySlice, conv_nums, this]
          simp [accepts, hval]
      · -- omitted
        simp only [hgiven, if_false, Bool.and_eq_true] at hw
        obtain ⟨hdf, hconv⟩ := hw
        have hconv' : s.conv = .id := by simpa using hconv
        rw [specVal_omitted _ _ _ _ hwidth hgiven]
        unfold defaultOK at hdf
        cases hsrc : s.src with
        | idx j => simp [hsrc] at hdf
        | slice a b => simp [hsrc] at hdf
        | const v =>
          have hval : slotVal ⟨ps, dobj⟩ s = some v := by simp [slotVal, hsrc, readSrc, hconv', Conv.app]
          cases hdflt : pk.1.dflt with
          | req => simp [hsrc, hdflt] at hdf
          | notGiven =>
            have : v = .none := by simpa [hsrc, hdflt] using hdf
            simp [accepts, hval, dfltVal, this]
          | const d =>
            have : v = d ∨ v = .none := by simpa [hsrc, hdflt] using hdf
            rcases this with h | h <;> simp [accepts, hval, dfltVal, h]
          | defs f m =>
            have hh : dobj.isSome = false ∧ v = .num (defsDoc f * m) := by simpa [hsrc, hdflt] using hdf
            have hq : qs = none := by
              have := hdefs.1; rw [hh.1] at this
              cases qs with
              | none => rfl
              | some q => simp at this
            simp [accepts, hval, dfltVal, hh.2, hq, effDefs]
        | defs f' m' =>
          cases hdflt : pk.1.dflt with
          | req => simp [hsrc, hdflt] at hdf
          | notGiven => simp [hsrc, hdflt] at hdf
          | const d => simp [hsrc, hdflt] at hdf
          | defs f m =>
            have hh : dobj.isSome = true ∧ f' = f ∧ m' = m := by simpa [hsrc, hdflt, and_assoc] using hdf
            obtain ⟨d, hdd⟩ := Option.isSome_iff_exists.mp hh.1
            -- the slot passed its guard, hence is safe, hence f is one of the five fields
            have hsmem : s ∈ stmtsOf rules c := by
              have := List.mem_of_find?_eq_some hfind
              simpa using this
            have hpass : s.guard.passesN ps.length dobj.isSome = true := by
              have := List.find?_some hfind
              simp only [Bool.and_eq_true] at this
              exact this.2
            have hsf := hsafe s hsmem hpass
            rw [hsrc] at hsf
            simp only [Src.safeN, Bool.and_eq_true, List.contains_iff_mem] at hsf
            have hfield := hdefs.2 d hdd f' hsf.2
            have hval : slotVal ⟨ps, dobj⟩ s = some (.num (effDefs qs f' * m')) := by
              simp [slotVal, hsrc, readSrc, hdd, hfield, hconv', Conv.app]
            simp [accepts, hval, dfltVal, hh.2.1, hh.2.2]

/-! ### the regenerated table conforms to the code-independent syntax table (re-checked on every run) -/

/-- keywords whose class must be table shaped; a class that stops fitting the recogniser (or a moved index, a
    changed default, a dropped guard) makes `slots_match_syntax` fail — the scope cannot shrink silently -/
def tableKws : List String :=
  ["ABIN", "AFIX", "BLOC", "CELL", "ZERR", "FMAP", "GRID", "HKLF", "MERG", "MORE", "MOVE", "MPLA", "PLAN", "PRIG", "SHEL",
   "SIZE", "SPEC", "STIR", "TWST", "WGHT", "WIGL", "WPDB", "XNPD", "DAMP", "SWAT",
   "DEFS", "DFIX", "DANG", "SADI", "SAME", "FLAT", "CHIV", "DELU", "SIMU", "RIGU", "ISOR", "NCSY", "BUMP", "EADP", "EXYZ", "BOND"]

def tableOK (kw : String) : Bool :=
  match syntaxOf kw with
  | none => false
  | some sp =>
    match slotTable.find? (fun c => c.name == sp.cls) with
    | none => false
    | some c => conforms defsTable c sp

/-- **slots_match_syntax**: every table-shaped class of the CURRENT cards.py conforms to its syntax entry: in every
    legal form, with and without DEFS, each `p[j]` read is guarded, each parameter's attribute is decided by the read
    at the parameter's own position, and each omitted parameter by its documented default (restraints: the DEFS rule)
    or `None`. -/
theorem slots_match_syntax : ∀ kw ∈ tableKws, tableOK kw = true := by decide +kernel

/-- **instruction_attrs**: the property for the table-shaped instructions, all parameter lists, with/without DEFS -/
theorem instruction_attrs (kw : String) (hk : kw ∈ tableKws) :
    ∃ sp c, syntaxOf kw = some sp ∧ c ∈ slotTable ∧ c.name = sp.cls ∧
      ∀ (ps : List Rat) (qs : Option (List Rat)) (dobj : Option Obj), DefsOK dobj qs → ps.length ∈ formLens sp →
        intsOK sp ps = true → (c.intnums = true → ps.all isInt = true) →
        ∃ o, fill defsTable c ⟨ps, dobj⟩ = .ok o ∧
          ∀ pk ∈ sp.positions, accepts (o.get pk.1.attr) (specVal (effDefs qs) pk.1 pk.2 ps) = true := by
  have h := slots_match_syntax kw hk
  unfold tableOK at h
  cases hsp : syntaxOf kw with
  | none => simp [hsp] at h
  | some sp =>
    simp only [hsp] at h
    cases hc : slotTable.find? (fun c => c.name == sp.cls) with
    | none => simp [hc] at h
    | some c =>
      simp only [hc] at h
      refine ⟨sp, c, rfl, List.mem_of_find?_eq_some hc, ?_, ?_⟩
      · simpa using List.find?_some hc
      · intro ps qs dobj hd hn hi hi2
        exact table_attr_spec defsTable c sp h ps qs dobj hd hn hi hi2

/-- the hypotheses are met by concrete non-trivial inputs: a full ZERR line, and DANG after `DEFS 0.05` -/
example : ((classOfName "ZERR").map fun c => (fill defsTable c ⟨[4, 0.001, 0.002, 0.003, 0.01, 0.02, 0.03], none⟩).toOption.bind
    (fun o => o.get "esd_a")) = some (some (.num 0.001)) := by decide +kernel

example : ((classOfName "DANG").map fun c => (fill defsTable c ⟨[1.5], some [("sd", .num 0.05)]⟩).toOption.bind
    (fun o => o.get "s")) = some (some (.num 0.1)) := by decide +kernel

/-! ### tokens: numbers first, then names -/

/-- **parseLine_numbers_then_names**: on a line written as the syntax says (numeric parameters, then atom names) the
    parameter list is exactly the numbers and the atom list exactly the names, both in file order -/
theorem parseLine_names (names : List String) : parseLine (names.map Tok.word) = ([], names) := by
  induction names with
  | nil => rfl
  | cons a t ih =>
    simp only [parseLine, List.map_cons, List.filterMap_cons] at ih ⊢
    simp only [Prod.mk.injEq] at ih
    simp [ih.1, ih.2]

theorem parseLine_numbers_then_names (nums : List Rat) (names : List String) :
    parseLine (nums.map Tok.num ++ names.map Tok.word) = (nums, names) := by
  induction nums with
  | nil => simpa using parseLine_names names
  | cons a t ih =>
    simp only [parseLine, List.map_cons, List.cons_append, List.filterMap_cons] at ih ⊢
    simp only [Prod.mk.injEq] at ih
    simp [ih.1, ih.2]

example : parseLine [.num 1.5, .num 0.03, .word "C1", .word "C2"] = ([1.5, 0.03], ["C1", "C2"]) := by decide +kernel

/-! ### lexical layer -/

/-- **free_number_is_numeric**: every token that is a number in SHELXL's free format (sign, leading '.', trailing '.',
    exponent notation …) is classified as a numeric parameter by `Command._parse_line`, for all tokens.
    (The value it denotes is computed by CPython's `float()`, trusted base; `Restraint._parse_line` classifies with
    `float()` itself — both are compared with the spec by the harness on every spelling class, not proved.) -/
theorem free_number_is_numeric (x : List Char) (h : isFreeNumber x = true) : cmdIsNum x = true := by
  cases x with
  | nil => simp [isFreeNumber] at h
  | cons c t =>
    by_cases hs : (c == '+' || c == '-') = true
    · rcases (Bool.or_eq_true _ _).mp hs with h1 | h1 <;> simp [cmdIsNum, h1]
    · simp only [isFreeNumber, hs, Bool.false_eq_true, if_false] at h
      by_cases hd : c.isDigit = true
      · simp [cmdIsNum, hd]
      · simp only [unsignedOK, hd, Bool.false_eq_true, if_false, Bool.and_eq_true] at h
        obtain ⟨hdot, hrest⟩ := h
        cases t with
        | nil => simp at hrest
        | cons d r =>
          simp only [Bool.and_eq_true] at hrest
          simp [cmdIsNum, hdot, hrest.1]

example : isFreeNumber "1.5E-2".toList = true ∧ isFreeNumber ".015".toList = true ∧ isFreeNumber "+.5".toList = true ∧
    isFreeNumber "4.".toList = true ∧ isFreeNumber "-1.2e+1".toList = true ∧ isFreeNumber "007".toList = true := by decide +kernel
example : isFreeNumber "C1".toList = false ∧ isFreeNumber "$1".toList = false ∧ isFreeNumber "1.5E".toList = false ∧
    isFreeNumber ".".toList = false ∧ cmdIsNum "C1".toList = false ∧ cmdIsNum ">".toList = false := by decide +kernel

/-! ### residue suffix on the codeword -/

/-- **nameOf_suffix_free**: the name a restraint is looked up under (DEFS rules) does not depend on a residue suffix:
    for every codeword `kw` without '_' and every suffix text, `KW_suffix` and `KW` give the same name -/
theorem nameOf_suffix_free (kw sfx : List Char) (h : ∀ c ∈ kw, c.toUpper ≠ '_') :
    nameOf (kw ++ '_' :: sfx) = kw.map Char.toUpper ∧ nameOf kw = kw.map Char.toUpper := by
  unfold nameOf
  induction kw with
  | nil => constructor <;> simp [List.takeWhile]
  | cons a t ih =>
    have ha : (a.toUpper != '_') = true := by simpa using h a (by simp)
    have ht : ∀ c ∈ t, c.toUpper ≠ '_' := fun c hc => h c (by simp [hc])
    obtain ⟨i1, i2⟩ := ih ht
    constructor
    · simp only [List.cons_append, List.map_cons, List.takeWhile_cons, ha, if_true]
      rw [i1]
    · simp only [List.map_cons, List.takeWhile_cons, ha, if_true]
      rw [i2]

/-- restraint keywords in the case variants SHELXL accepts: the looked-up name is the upper-case keyword -/
def restraintKws : List String :=
  ["DFIX", "DANG", "SADI", "SAME", "FLAT", "CHIV", "DELU", "SIMU", "RIGU", "ISOR", "NCSY", "BUMP", "DEFS", "EADP", "EXYZ"]

theorem restraint_names_case_and_suffix : ∀ kw ∈ restraintKws, ∀ sfx ∈ ["", "_2", "_CCF3", "_ccf3", "_*"],
    nameOf (kw ++ sfx).toList = kw.toList ∧ nameOf (kw.toLower ++ sfx).toList = kw.toList ∧
    nameOf (kw.capitalize ++ sfx).toList = kw.toList := by decide +kernel

theorem dictGet_dictAppend (d : List (String × List Nat)) (k k' : String) (v : Nat) :
    dictGet (dictAppend d k v) k' = if k = k' then some ((dictGet d k).getD [] ++ [v]) else dictGet d k' := by
  induction d with
  | nil =>
    by_cases h : k = k'
    · simp [dictAppend, dictGet, h]
    · simp [dictAppend, dictGet, h]
  | cons hd tl ih =>
    obtain ⟨k0, vs⟩ := hd
    by_cases h0 : k0 = k
    · subst h0
      by_cases h : k0 = k'
      · simp [dictAppend, dictGet, h]
      · simp [dictAppend, dictGet, h]
    · have e0 : (k0 == k) = false := by rw [beq_eq_false_iff_ne]; exact h0
      by_cases h : k = k'
      · subst h
        simp only [dictAppend, e0, Bool.false_eq_true, if_false, if_true] at ih ⊢
        simp only [dictGet, List.find?_cons, e0] at ih ⊢
        simpa using ih
      · simp only [dictAppend, e0, Bool.false_eq_true, h, if_false] at ih ⊢
        by_cases h1 : k0 = k'
        · simp [dictGet, h1]
        · have e1 : (k0 == k') = false := by rw [beq_eq_false_iff_ne]; exact h1
          simp only [dictGet, List.find?_cons, e1] at ih ⊢
          simpa using ih

def filt (res : List (String × Nat)) (k : String) : List Nat := (res.filter (fun r => r.1 == k)).map (·.2)

def ext (o : Option (List Nat)) (l : List Nat) : Option (List Nat) := if l = [] then o else some (o.getD [] ++ l)

theorem fold_classDict (res : List (String × Nat)) (d : List (String × List Nat)) (k : String) (hk : k ≠ "") :
    dictGet (res.foldl (fun d r => if r.1 == "" then d else dictAppend d r.1 r.2) d) k = ext (dictGet d k) (filt res k) := by
  induction res generalizing d with
  | nil => simp [ext, filt]
  | cons r t ih =>
    obtain ⟨c, n⟩ := r
    simp only [List.foldl_cons]
    by_cases hc : c = ""
    · subst hc
      have : ("" == k) = false := by rw [beq_eq_false_iff_ne]; exact fun h => hk h.symm
      rw [ih]
      simp [filt, List.filter_cons, this]
    · have hc' : (c == "") = false := by simpa using hc
      simp only [hc', Bool.false_eq_true, if_false]
      rw [ih, dictGet_dictAppend]
      by_cases h : c = k
      · subst h
        simp only [if_true, filt, List.filter_cons, beq_self_eq_true, List.map_cons]
        unfold ext
        by_cases he : List.map (fun x => x.2) (List.filter (fun r => r.1 == c) t) = []
        · simp [he]
        · simp [he, List.append_assoc]
      · have : (c == k) = false := by simpa using h
        simp [h, filt, List.filter_cons, this]

theorem fold_classDict_empty (res : List (String × Nat)) (d : List (String × List Nat)) (hd : dictGet d "" = none) :
    dictGet (res.foldl (fun d r => if r.1 == "" then d else dictAppend d r.1 r.2) d) "" = none := by
  induction res generalizing d with
  | nil => simpa using hd
  | cons r t ih =>
    obtain ⟨c, n⟩ := r
    simp only [List.foldl_cons]
    by_cases hc : c = ""
    · subst hc; simpa using ih d hd
    · have hc' : (c == "") = false := by simpa using hc
      simp only [hc', Bool.false_eq_true, if_false]
      apply ih
      rw [dictGet_dictAppend]
      simp [hc, hd]

theorem dedup_nodup (l : List Nat) (h : l.Nodup) : dedup l = l := by
  induction l with
  | nil => rfl
  | cons a t ih =>
    have hn := List.nodup_cons.mp h
    rw [dedup, ih hn.2]
    congr 1
    apply List.filter_eq_self.mpr
    intro b hb
    have : b ≠ a := fun e => hn.1 (e ▸ hb)
    simpa using this

/-- **residue_spec**: the residue class and the resolved residue numbers a restraint reports are those its codeword
    suffix addresses, for ALL lists of RESI instructions (class, number) and every suffix kind.
    Hypotheses: residue numbers are pairwise different (`_*` goes through a dict keyed by number); an addressed class
    is not empty-named and has at least one residue (for an unknown class the code reports residue 0). -/
theorem residue_spec (res : List (String × Nat)) (sfx : Suffix) (hnd : (res.map (·.2)).Nodup)
    (hcls : ∀ s, sfx = .cls s → s ≠ "" ∧ ∃ r ∈ res, r.1 = s) :
    modelResidue res sfx = specResidue res sfx := by
  cases sfx with
  | none =>
    simp only [modelResidue, specResidue, classDict]
    rw [fold_classDict_empty res [] (by simp [dictGet])]
    rfl
  | num n => rfl
  | star => simp [modelResidue, specResidue, dedup_nodup _ hnd]
  | cls s =>
    obtain ⟨hs, r, hr, hrs⟩ := hcls s rfl
    simp only [modelResidue, specResidue, classDict]
    rw [fold_classDict res [] s hs]
    have hne : filt res s ≠ [] := by
      unfold filt
      intro he
      have : r ∈ res.filter (fun r => r.1 == s) := List.mem_filter.mpr ⟨hr, by simp [hrs]⟩
      rw [List.map_eq_nil_iff] at he
      simp [he] at this
    unfold filt at hne
    simp [ext, hne, dictGet, filt]

example : modelResidue [("CCF3", 1), ("TOL", 4), ("CCF3", 2), ("", 7)] (.cls "CCF3") = ("CCF3", [1, 2]) := by decide +kernel

/-! ### setter round trips -/

/-- **ls_setter_roundtrip**: `cycles.number = n` (re-parse of the printed text) yields an object whose text denotes
    exactly (n, nrf, nextra) of the line it came from — for every legal L.S./CGLS line and every n -/
theorem ls_setter_roundtrip (cgls : Bool) (ps : List Int) (l : LS) (n : Int) (h : lsInit cgls ps = .ok l)
    (hlen : ps.length ≤ 3) :
    lsDenotes (lsTokens { l with cycles := n }) = some (n, l.nrf.getD 0, l.nextra.getD 0) ∧
    ∃ l', lsSetNumber l n = .ok l' ∧ l'.denotes = (n, l.nrf.getD 0, l.nextra.getD 0) ∧ l'.cgls = cgls := by
  match ps, hlen with
  | [], _ => simp [lsInit] at h
  | [a], _ =>
    simp only [lsInit, Except.ok.injEq] at h
    subst h
    simp [lsTokens, lsDenotes, lsSetNumber, lsInit, LS.denotes]
  | [a, b], _ =>
    simp only [lsInit, Except.ok.injEq] at h
    subst h
    simp [lsTokens, lsDenotes, lsSetNumber, lsInit, LS.denotes]
  | [a, b, c], _ =>
    simp only [lsInit, Except.ok.injEq] at h
    subst h
    simp [lsTokens, lsDenotes, lsSetNumber, lsInit, LS.denotes]
  | _ :: _ :: _ :: _ :: _, h' => simp at h'

/-- the case the unrepaired printer lost: nrf = 0 in front of nextra -/
example : lsDenotes (lsTokens { (⟨false, 25, some 0, some 50⟩ : LS) with cycles := 4 }) = some (4, 0, 50) := by decide +kernel

/-- **wght_roundtrip**: after `update_weight()` the printed WGHT line denotes exactly the suggested scheme
    (all six parameters, with the documented defaults for the ones the short form omits) -/
theorem wght_roundtrip (cur sug : W) : wghtDenotes (wghtTokens (updateWeight cur sug)) = some sug := by
  obtain ⟨a, b, c, d, e, f⟩ := sug
  unfold updateWeight wghtTokens
  by_cases h : (c, d, e, f) = ((0 : Rat), (0 : Rat), (0 : Rat), (0.33333 : Rat))
  · simp only [Prod.mk.injEq] at h
    obtain ⟨rfl, rfl, rfl, rfl⟩ := h
    simp [wghtDenotes]
  · simp [h, wghtDenotes]

example : wghtDenotes (wghtTokens (updateWeight ⟨0.05, 0.7, 0, 0, 0, 0.33333⟩ ⟨0.06, 0.8, 0, 0, 0.1, 0.23333⟩))
    = some ⟨0.06, 0.8, 0, 0, 0.1, 0.23333⟩ := by decide +kernel

/-! ### hand-modelled classes against the syntax table -/

def specOf (kw : String) (ps : List Rat) : List (String × SpecVal) :=
  match syntaxOf kw with
  | none => []
  | some sp => sp.positions.map fun pk => (pk.1.attr, specVal (effDefs none) pk.1 pk.2 ps)

def meets (o : Obj) (spec : List (String × SpecVal)) : Bool := spec.all fun av => accepts (o.get av.1) av.2

/-- **part_attr_spec**: `PART n` / `PART n sof`, n an integer -/
theorem part_attr_spec (n sof : Rat) (hn : isInt n = true) :
    meets (partModel [n]) (specOf "PART" [n]) = true ∧ meets (partModel [n, sof]) (specOf "PART" [n, sof]) = true := by
  have e := pyInt_of_isInt n hn
  constructor <;>
    simp [meets, specOf, syntaxOf, syntaxTable, Syntax.positions, positionsFrom, specVal, accepts, partModel, Obj.get, Obj.set,
      rq, df, dfltVal, e]

/-- **latt_attr_spec**: `LATT N` with N an integer, and the bare form -/
theorem latt_attr_spec (n : Rat) (hn : isInt n = true) :
    meets (lattModel [n]) (specOf "LATT" [n]) = true ∧ meets (lattModel []) (specOf "LATT" []) = true := by
  have e := pyInt_of_isInt n hn
  constructor <;>
    simp [meets, specOf, syntaxOf, syntaxTable, Syntax.positions, positionsFrom, specVal, accepts, lattModel, Obj.get,
      df, dfltVal, e]

/-- **htab_attr_spec** -/
theorem htab_attr_spec (dh : Rat) :
    meets (htabModel [dh]) (specOf "HTAB" [dh]) = true ∧ meets (htabModel []) (specOf "HTAB" []) = true := by
  constructor <;>
    simp [meets, specOf, syntaxOf, syntaxTable, Syntax.positions, positionsFrom, specVal, accepts, htabModel, Obj.get, df, dfltVal]

end Shelx.C16

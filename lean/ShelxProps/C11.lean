/-
  C11 — property theorems.
    spec, operators, checkers : ShelxModel/C11Core.lean       model of the code : ShelxModel/C11.lean
    tabulated settings        : ShelxModel/C11Table.lean      helper lemmas     : ShelxProps/Lemmas/C11Closed.lean
    kernel evaluations over the table, in pieces that build in parallel: ShelxProps/Lemmas/C11Tab*.lean (spec), C11Mod*.lean (model)
    centring table of the code: ShelxModel/Extracted/Latt.lean (REGENERATED from cards.py on every run)

  expand_perm    ∀ N S, ValidSetting N S → the list the code builds is a permutation (mod ℤ³) of the space group
  expand_card    … and has (1 + |S|) · mult N · (2 if N > 0) members
  expand_nodup   … each class once
  expand_closed  … and is closed under composition whenever the setting is (ClosedSetting)
  expand_shifted ∀ u, … the same for the setting referred to an origin moved by u (`shiftSetting`): translations t + (1 − R) u
                 of ANY denominator; the list the code builds is the moved group
  lattTable_matches_manual   the regenerated `lattdict` is the SHELXL manual's LATT table (decide, every run)
  tabulated_settings_shifted            … and the same at every origin (∀ u : ℚ³)
  tabulated_settings_valid_and_closed   43 real settings (P I R F A B C, centric/acentric, all crystal systems):
                 valid, closed, model expansion = the group with the order International Tables A give
-/
import ShelxModel.C11
import ShelxModel.C11Table
import ShelxProps.Lemmas.C11Closed
import ShelxProps.Lemmas.C11Shift
import ShelxProps.Lemmas.C11ModA
import ShelxProps.Lemmas.C11ModB
import ShelxProps.Lemmas.C11ModC
import ShelxProps.Lemmas.C11ModD
import Mathlib.Tactic.Ring
import Mathlib.Tactic.Linarith
import Mathlib.Tactic.Push
import Mathlib.Data.List.Perm.Basic

namespace Shelx.C11
open List

/-! ### the model's comparison is equality of classes -/

theorem opEq_iff (a b : Op) : opEq a b = true ↔ cls a = cls b := by
  cases a; cases b
  simp [opEq, cls]

theorem notIn_iff (x : Op) (L : List Op) : notIn x L = true ↔ cls x ∉ L.map cls := by
  simp only [notIn, Bool.not_eq_true', ← Bool.not_eq_true, List.any_eq_true, opEq_iff, List.mem_map]

/-! ### the unchecked loops -/

theorem addCentred_eq (C : List Vec) (s : Op) (L : List Op) : addCentred C s L = L ++ C.map (applyLatt s) := by
  unfold addCentred
  induction C generalizing L with
  | nil => simp
  | cons c C ih => simp [List.foldl_cons, ih]

theorem addCentredChecked_eq (C : List Vec) (s : Op) (L : List Op)
    (h : ((L ++ C.map (applyLatt s)).map cls).Nodup) : addCentredChecked C s L = L ++ C.map (applyLatt s) := by
  unfold addCentredChecked
  induction C generalizing L with
  | nil => simp
  | cons c C ih =>
    have hn : notIn (applyLatt s c) L = true := by
      rw [notIn_iff]
      intro hm
      simp only [List.map_cons, List.map_append, List.nodup_append, List.nodup_cons] at h
      exact h.2.2 _ hm _ (List.mem_cons_self ..) rfl
    simp only [List.foldl_cons, hn, if_true]
    have h' : ((L ++ [applyLatt s c] ++ C.map (applyLatt s)).map cls).Nodup := by
      simpa [List.append_assoc] using h
    have := ih (L ++ [applyLatt s c]) h'
    simpa [List.append_assoc] using this

/-! ### the expansion without the `not in` test, one block per operator -/

/-- what one SYMM line (or the identity, when LATT is read) contributes -/
def block (C : List Vec) (centric : Bool) (s : Op) : List Op :=
  (s :: C.map (applyLatt s)) ++ (if centric then inv s :: C.map (applyLatt (inv s)) else [])

def expandU (C : List Vec) (centric : Bool) (S : List Op) : List Op := (ident :: S).flatMap (block C centric)

theorem append_eq (C : List Vec) (centric : Bool) (L : List Op) (s : Op)
    (h : ((L ++ block C centric s).map cls).Nodup) : append C centric L s = L ++ block C centric s := by
  have h1 : (((L ++ [s]) ++ C.map (applyLatt s)).map cls).Nodup := by
    have : (L ++ [s]) ++ C.map (applyLatt s) <+ L ++ block C centric s := by
      rw [List.append_assoc]
      refine List.Sublist.append_left ?_ L
      simp only [block, List.singleton_append]
      exact List.sublist_append_left _ _
    exact h.sublist (this.map cls)
  unfold append
  simp only [addCentredChecked_eq C s (L ++ [s]) h1, addCentred_eq]
  cases centric <;> simp [block, List.append_assoc]

theorem lattStep_eq (C : List Vec) (centric : Bool) (h : ((block C centric ident).map cls).Nodup) :
    lattStep C centric = block C centric ident := by
  have h1 : ((([ident] : List Op) ++ C.map (applyLatt ident)).map cls).Nodup := by
    have : [ident] ++ C.map (applyLatt ident) <+ block C centric ident := by
      simp only [block, List.singleton_append]
      exact List.sublist_append_left _ _
    exact h.sublist (this.map cls)
  unfold lattStep setLattOps setCentric
  simp only [addCentredChecked_eq C ident [ident] h1, addCentred_eq]
  cases centric <;> simp [block, List.append_assoc]

theorem foldl_append_eq (C : List Vec) (centric : Bool) (S : List Op) (L : List Op)
    (h : ((L ++ S.flatMap (block C centric)).map cls).Nodup) :
    S.foldl (append C centric) L = L ++ S.flatMap (block C centric) := by
  induction S generalizing L with
  | nil => simp
  | cons s S ih =>
    simp only [List.flatMap_cons, ← List.append_assoc] at h
    have h1 : ((L ++ block C centric s).map cls).Nodup :=
      h.sublist ((List.sublist_append_left _ _).map cls)
    simp only [List.foldl_cons, append_eq C centric L s h1]
    have := ih (L ++ block C centric s) h
    simpa [List.flatMap_cons, List.append_assoc] using this

/-- under the hypothesis that no class occurs twice, the `not in` test never fires -/
theorem expandWith_eq_expandU (C : List Vec) (centric : Bool) (S : List Op)
    (h : ((expandU C centric S).map cls).Nodup) : expandWith C centric S = expandU C centric S := by
  unfold expandU at h ⊢
  simp only [List.flatMap_cons] at h ⊢
  have h0 : ((block C centric ident).map cls).Nodup := h.sublist ((List.sublist_append_left _ _).map cls)
  unfold expandWith
  rw [lattStep_eq C centric h0]
  exact foldl_append_eq C centric S _ h

/-! ### the blocks are the spec's cosets -/

theorem comp_transl_ident (c : Vec) (s : Op) : comp (transl c) (comp ident s) = applyLatt s c := by
  cases s with | mk m t =>
  cases m; cases t; cases c
  simp [comp, transl, ident, applyLatt, Mat.mul, Mat.mulVec, Mat.one, Vec.add, Vec.zero]

theorem comp_transl_inversion (c : Vec) (s : Op) : comp (transl c) (comp inversion s) = applyLatt (inv s) c := by
  cases s with | mk m t =>
  cases m; cases t; cases c
  simp [comp, transl, inversion, applyLatt, inv, Mat.mul, Mat.mulVec, Mat.one, Mat.neg, Vec.add, Vec.zero, Vec.neg]

theorem applyLatt_zero (s : Op) : applyLatt s Vec.zero = s := by
  cases s with | mk m t =>
  cases t
  simp [applyLatt, Vec.add, Vec.zero]

theorem perm_flatMap_pair {α β : Type} (f g : α → β) (l : List α) :
    l.flatMap (fun c => [f c, g c]) ~ l.map f ++ l.map g := by
  induction l with
  | nil => simp
  | cons a l ih =>
    simp only [List.flatMap_cons, List.map_cons, List.cons_append, List.nil_append]
    refine List.Perm.cons _ ?_
    refine (List.Perm.cons _ ih).trans ?_
    exact (List.perm_middle).symm

theorem flatMap_single {α β : Type} (f : α → β) (l : List α) : l.flatMap (fun c => [f c]) = l.map f := by
  induction l with
  | nil => rfl
  | cons a l ih => simp [List.flatMap_cons, ih]

theorem block_perm (C : List Vec) (centric : Bool) (s : Op) :
    block C centric s ~ (Vec.zero :: C).flatMap fun c => (signs centric).map fun i => comp (transl c) (comp i s) := by
  cases centric with
  | false =>
    have : ((Vec.zero :: C).flatMap fun c => (signs false).map fun i => comp (transl c) (comp i s))
        = (Vec.zero :: C).map (applyLatt s) := by
      simp [signs, comp_transl_ident, flatMap_single]
    rw [this]
    simp [block, applyLatt_zero]
  | true =>
    have : ((Vec.zero :: C).flatMap fun c => (signs true).map fun i => comp (transl c) (comp i s))
        = (Vec.zero :: C).flatMap fun c => [applyLatt s c, applyLatt (inv s) c] := by
      simp [signs, comp_transl_ident, comp_transl_inversion]
    rw [this]
    refine List.Perm.trans ?_ (perm_flatMap_pair _ _ _).symm
    simp [block, applyLatt_zero]

theorem expandU_perm (C : List Vec) (centric : Bool) (S : List Op) : expandU C centric S ~ fullGroupWith C centric S := by
  unfold expandU fullGroupWith
  exact List.Perm.flatMap_left _ fun s _ => block_perm C centric s

/-- **the expansion loop produces the spec list**, for any centring list -/
theorem expandWith_perm (C : List Vec) (centric : Bool) (S : List Op)
    (h : ((fullGroupWith C centric S).map cls).Nodup) :
    (expandWith C centric S).map cls ~ (fullGroupWith C centric S).map cls := by
  have hp := (expandU_perm C centric S).map cls
  rw [expandWith_eq_expandU C centric S (hp.nodup_iff.mpr h)]
  exact hp

/-! ### the tie to the regenerated centring table -/

/-- entry `n` of the table regenerated from `LATT.lattdict` holds the manual's centring vectors (in any order) -/
def tieB (n : Nat) : Bool :=
  match lookupLatt Shelx.Extracted.lattTable n with
  | some C => C.isPerm (specCentringNat n)
  | none => false

/-- re-checked against cards.py on every run: an edited, added or dropped vector breaks this `decide` -/
theorem lattTable_matches_manual : ∀ n ∈ [1, 2, 3, 4, 5, 6, 7], tieB n = true := by decide +kernel

theorem centring_spec (N : Int) (h1 : 1 ≤ N.natAbs) (h7 : N.natAbs ≤ 7) :
    ∃ C, centring N = some C ∧ C ~ specCentring N := by
  have hm : N.natAbs ∈ [1, 2, 3, 4, 5, 6, 7] := by
    simp only [List.mem_cons, List.not_mem_nil, or_false]; omega
  have := lattTable_matches_manual _ hm
  unfold tieB at this
  unfold centring specCentring
  cases hl : lookupLatt Shelx.Extracted.lattTable N.natAbs with
  | none => simp [hl] at this
  | some C =>
    simp only [hl, List.isPerm_iff] at this
    exact ⟨C, rfl, this⟩

theorem fullGroupWith_perm_centring {C C' : List Vec} (h : C ~ C') (centric : Bool) (S : List Op) :
    fullGroupWith C centric S ~ fullGroupWith C' centric S := by
  unfold fullGroupWith
  exact List.Perm.flatMap_left _ fun s _ => List.Perm.flatMap_right _ (List.Perm.cons _ h)

/-! ### the property -/

/-- **expand_perm** — for every LATT number N in ±1..±7 and every SYMM list S whose operators are pairwise
    distinct modulo centring, inversion and ℤ³ (`ValidSetting`, decidable), the operator list the code builds is,
    class by class, a permutation of the space group `fullGroup N S`: every operator exactly once, nothing else.
    `ValidSetting` excludes SYMM lines that repeat an operator already generated (for those the code appends the
    line itself unconditionally and the list has a duplicate) and LATT numbers outside the table (KeyError). -/
theorem expand_perm (N : Int) (S : List Op) (h : ValidSetting N S) :
    ∃ L, expand N S = some L ∧ L.map cls ~ (fullGroup N S).map cls := by
  obtain ⟨⟨h1, h7⟩, hnd⟩ := h
  obtain ⟨C, hC, hperm⟩ := centring_spec N h1 h7
  refine ⟨expandWith C (centricOf N) S, by simp [expand, hC], ?_⟩
  have hp := (fullGroupWith_perm_centring hperm (centricOf N) S).map cls
  have hnd' : ((fullGroupWith C (centricOf N) S).map cls).Nodup := hp.nodup_iff.mpr hnd
  exact (expandWith_perm C (centricOf N) S hnd').trans hp

theorem length_flatMap_const {α β : Type} (f : α → List β) (k : Nat) (l : List α) (h : ∀ a, (f a).length = k) :
    (l.flatMap f).length = l.length * k := by
  induction l with
  | nil => simp
  | cons a l ih => simp [List.flatMap_cons, ih, h, Nat.succ_mul, Nat.add_comm]

theorem fullGroup_length (N : Int) (S : List Op) :
    (fullGroup N S).length = (1 + S.length) * mult N * (if N > 0 then 2 else 1) := by
  unfold fullGroup fullGroupWith
  rw [length_flatMap_const _ (mult N * (if N > 0 then 2 else 1))]
  · simp [Nat.add_comm, Nat.mul_assoc]
  · intro s
    rw [length_flatMap_const _ (if N > 0 then 2 else 1)]
    · simp [mult, Nat.add_comm]
    · intro c
      by_cases hN : N > 0 <;> simp [signs, centricOf, hN]

/-- **expand_card** — (1 + number of SYMM lines) × lattice points × (2 if centrosymmetric) operators -/
theorem expand_card (N : Int) (S : List Op) (h : ValidSetting N S) :
    ∃ L, expand N S = some L ∧ L.length = (1 + S.length) * mult N * (if N > 0 then 2 else 1) := by
  obtain ⟨L, hL, hp⟩ := expand_perm N S h
  refine ⟨L, hL, ?_⟩
  have := hp.length_eq
  simpa [fullGroup_length] using this

/-- every class exactly once -/
theorem expand_nodup (N : Int) (S : List Op) (h : ValidSetting N S) :
    ∃ L, expand N S = some L ∧ (L.map cls).Nodup := by
  obtain ⟨L, hL, hp⟩ := expand_perm N S h
  exact ⟨L, hL, hp.nodup_iff.mpr h.2⟩

/-! ### the LATT line: omitted number, numbers written as floats -/

theorem truncInt_intCast (n : Int) : truncInt (n : Rat) = n := by
  unfold truncInt
  split
  · exact Rat.floor_intCast n
  · have : (-(n : Rat)) = ((-n : Int) : Rat) := by push_cast; rfl
    rw [this, Rat.floor_intCast]; omega

/-- **decodeLatt_spec** — the code reads the LATT line as the manual says: the number written (also when it is written
    as `1.0`, `+1`, `01`; further parameters ignored), and N = 1 when no number is given -/
theorem decodeLatt_spec (n : Option Int) (rest : List Rat) :
    decodeLatt (match n with | none => [] | some k => (k : Rat) :: rest) = lattOf n := by
  cases n with
  | none => rfl
  | some k => simp [decodeLatt, lattOf, truncInt_intCast]

/-- **expand_perm_line** — `expand_perm` for the line as written: `LATT` without a number is LATT 1 -/
theorem expand_perm_line (n : Option Int) (rest : List Rat) (S : List Op) (h : ValidSetting (lattOf n) S) :
    ∃ L, expandLine (match n with | none => [] | some k => (k : Rat) :: rest) S = some L ∧
      L.map cls ~ (fullGroup (lattOf n) S).map cls := by
  unfold expandLine
  rw [decodeLatt_spec]
  exact expand_perm _ S h

/-- bare `LATT` + `SYMM -X, 1/2+Y, 1/2-Z` is P2(1)/c: four operators -/
example : ∃ L, expandLine [] [mkOp (-1) 0 0 0 1 0 0 0 (-1) 0 (1/2) (1/2)] = some L ∧ L.length = 4 := by
  refine ⟨_, rfl, ?_⟩
  decide +kernel

/-- the setting describes a group: its spec list is closed under composition modulo ℤ³ (decidable) -/
def ClosedSetting (N : Int) (S : List Op) : Prop := Closed (fullGroup N S)

instance (N : Int) (S : List Op) : Decidable (ClosedSetting N S) := by unfold ClosedSetting; infer_instance

/-- **expand_closed** — for a closed valid setting the code's list is closed under composition modulo ℤ³ -/
theorem expand_closed (N : Int) (S : List Op) (h : ValidSetting N S) (hc : ClosedSetting N S) :
    ∃ L, expand N S = some L ∧ Closed L := by
  obtain ⟨L, hL, hp⟩ := expand_perm N S h
  exact ⟨L, hL, closed_of_perm hp hc⟩

/-! ### concrete inputs meet the hypotheses; the hypothesis is needed -/

/-- P2(1)/c: LATT 1, SYMM -X, 1/2+Y, 1/2-Z -/
example : ValidSetting 1 [mkOp (-1) 0 0 0 1 0 0 0 (-1) 0 (1/2) (1/2)] ∧ ClosedSetting 1 [mkOp (-1) 0 0 0 1 0 0 0 (-1) 0 (1/2) (1/2)] := by
  decide +kernel

/-- C2/c: LATT 7, SYMM -X, Y, 1/2-Z (centred and centrosymmetric) -/
example : ValidSetting 7 [mkOp (-1) 0 0 0 1 0 0 0 (-1) 0 0 (1/2)] ∧ ClosedSetting 7 [mkOp (-1) 0 0 0 1 0 0 0 (-1) 0 0 (1/2)] := by
  decide +kernel

/-- a valid setting that is no group (the theorems `expand_perm`, `expand_card` do not need closure) -/
example : ValidSetting (-3) [mkOp 0 (-1) 0 1 (-1) 0 0 0 1 0 0 (1/6)] := by decide +kernel

/-- why `ValidSetting` is there: a SYMM line that repeats an operator the lattice already generates (here the
    I-centring translation itself) is appended unconditionally by `SymmCards.append`, and the list has that class
    twice (the real code does the same: LATT -2 / SYMM 1/2+X, 1/2+Y, 1/2+Z gives 4 operators, two pairs) -/
theorem expand_duplicates_outside_valid :
    ∃ L, expand (-2) [mkOp 1 0 0 0 1 0 0 0 1 (1/2) (1/2) (1/2)] = some L ∧ ¬ (L.map cls).Nodup := by
  refine ⟨[ident, applyLatt ident ⟨1/2, 1/2, 1/2⟩, mkOp 1 0 0 0 1 0 0 0 1 (1/2) (1/2) (1/2)], by decide +kernel, by decide +kernel⟩

/-! ### the tabulated settings -/

/-- model side, evaluated in the kernel with the REGENERATED centring table (`modelOK`, ShelxModel/C11.lean: the
    expansion exists, has the number of operators International Tables A give for the group, and no class twice);
    the pieces `tabA … tabF` (ShelxProps/Lemmas/C11Mod*.lean) exhaust the table -/
theorem settings_modelOK : ∀ e ∈ settings, modelOK e = true := by
  intro e he
  rcases mem_take_or_drop 30 he with h | h
  · exact List.all_eq_true.mp tabA_modelOK e h
  rcases mem_take_or_drop 7 h with h | h
  · exact List.all_eq_true.mp tabB_modelOK e h
  rw [List.drop_drop] at h
  rcases mem_take_or_drop 3 h with h | h
  · exact List.all_eq_true.mp tabC_modelOK e h
  rw [List.drop_drop] at h
  rcases mem_take_or_drop 1 h with h | h
  · exact List.all_eq_true.mp tabD_modelOK e h
  rw [List.drop_drop] at h
  rcases mem_take_or_drop 1 h with h | h
  · exact List.all_eq_true.mp tabE_modelOK e h
  rw [List.drop_drop] at h
  exact List.all_eq_true.mp tabF_modelOK e h

/-- **tabulated_settings_valid_and_closed** — for each of the 43 tabulated space-group settings: it is a valid
    setting; its spec list is closed under composition mod ℤ³ and has the order of the group (ITA); the model's
    expansion exists, has exactly that many operators, each class once, is closed under composition mod ℤ³ and is a
    permutation of the spec list (so: it *is* the group generated by SYMM, centring and inversion). -/
theorem tabulated_settings_valid_and_closed : ∀ e ∈ settings,
    ValidSetting e.N e.S ∧ ClosedSetting e.N e.S ∧
    ∃ L, expand e.N e.S = some L ∧ L.length = e.order ∧ (L.map cls).Nodup ∧ Closed L ∧
      L.map cls ~ (fullGroup e.N e.S).map cls := by
  intro e he
  obtain ⟨hv, hc, _⟩ := settings_spec e he
  obtain ⟨L, hL, hp⟩ := expand_perm e.N e.S hv
  have hm := settings_modelOK e he
  simp only [modelOK, hL, Bool.and_eq_true, beq_iff_eq] at hm
  exact ⟨hv, hc, L, hL, hm.1, nodupB_sound L hm.2, closed_of_perm hp hc, hp⟩

/-! ### every origin -/

/-- **expand_shifted** — a valid closed setting referred to ANY other origin (`shiftSetting u N S`: for N < 0 the SYMM
    operators moved, `t + (1 − R) u`; for N > 0 LATT −N with the off-origin inversion and the inverted operators as SYMM
    lines): the list the code builds from those LATT/SYMM lines exists, has no class twice, is closed under composition
    modulo ℤ³, has as many operators as the group, and is, class by class, the group of `LATT N / SYMM S` with every
    operator referred to the new origin. No hypothesis on `u`: the translations may have any denominator. -/
theorem expand_shifted (u : Vec) (N : Int) (S : List Op) (h : ValidSetting N S) (hc : ClosedSetting N S) :
    ∃ L, expand (shiftSetting u N S).1 (shiftSetting u N S).2 = some L ∧ (L.map cls).Nodup ∧ Closed L ∧
      L.length = (fullGroup N S).length ∧ L.map cls ~ ((fullGroup N S).map (shiftOp u)).map cls := by
  obtain ⟨hv', hc'⟩ := shiftSetting_valid_closed u N S h hc
  obtain ⟨L, hL, hp⟩ := expand_perm _ _ hv'
  have hp2 := hp.trans ((fullGroup_shiftSetting_perm u N S).map cls)
  refine ⟨L, hL, hp.nodup_iff.mpr hv'.2, closed_of_perm hp hc', ?_, hp2⟩
  simpa using hp2.length_eq

/-- C2/c (LATT 7, SYMM -X, Y, 1/2-Z) with the origin moved by (1/8, 0, 1/16) is LATT -7 with
    SYMM 1/4-X, -Y, 1/8-Z / 1/4-X, Y, 5/8-Z / X, -Y, -1/2+Z -/
example : shiftSetting ⟨1/8, 0, 1/16⟩ 7 [mkOp (-1) 0 0 0 1 0 0 0 (-1) 0 0 (1/2)] =
    (-7, [mkOp (-1) 0 0 0 (-1) 0 0 0 (-1) (1/4) 0 (1/8), mkOp (-1) 0 0 0 1 0 0 0 (-1) (1/4) 0 (5/8),
          mkOp 1 0 0 0 (-1) 0 0 0 1 0 0 (-1/2)]) := by decide +kernel

/-- … and the code's list for it has the 8 operators of C2/c, closed under composition -/
example : ∃ L, expand (-7) [mkOp (-1) 0 0 0 (-1) 0 0 0 (-1) (1/4) 0 (1/8), mkOp (-1) 0 0 0 1 0 0 0 (-1) (1/4) 0 (5/8),
      mkOp 1 0 0 0 (-1) 0 0 0 1 0 0 (-1/2)] = some L ∧ L.length = 8 ∧ Closed L := by
  have hv : ValidSetting 7 [mkOp (-1) 0 0 0 1 0 0 0 (-1) 0 0 (1/2)] ∧ ClosedSetting 7 [mkOp (-1) 0 0 0 1 0 0 0 (-1) 0 0 (1/2)] := by
    decide +kernel
  obtain ⟨L, hL, _, hcl, hlen, _⟩ := expand_shifted ⟨1/8, 0, 1/16⟩ 7 _ hv.1 hv.2
  have e : shiftSetting ⟨1/8, 0, 1/16⟩ 7 [mkOp (-1) 0 0 0 1 0 0 0 (-1) 0 0 (1/2)] =
      (-7, [mkOp (-1) 0 0 0 (-1) 0 0 0 (-1) (1/4) 0 (1/8), mkOp (-1) 0 0 0 1 0 0 0 (-1) (1/4) 0 (5/8),
            mkOp 1 0 0 0 (-1) 0 0 0 1 0 0 (-1/2)]) := by decide +kernel
  rw [e] at hL
  exact ⟨L, hL, by rw [hlen]; decide +kernel, hcl⟩

/-- **tabulated_settings_shifted** — each of the tabulated space-group settings, referred to ANY origin (u ∈ ℚ³):
    from the LATT/SYMM lines of the moved setting the model builds a list that has the order International Tables A
    give, each class once, is closed under composition mod ℤ³ and is the moved group. -/
theorem tabulated_settings_shifted : ∀ e ∈ settings, ∀ u : Vec,
    ∃ L, expand (shiftSetting u e.N e.S).1 (shiftSetting u e.N e.S).2 = some L ∧ L.length = e.order ∧
      (L.map cls).Nodup ∧ Closed L ∧ L.map cls ~ ((fullGroup e.N e.S).map (shiftOp u)).map cls := by
  intro e he u
  obtain ⟨hv, hc, hl⟩ := settings_spec e he
  obtain ⟨L, hL, hnd, hcl, hlen, hp⟩ := expand_shifted u e.N e.S hv hc
  exact ⟨L, hL, by rw [hlen, hl], hnd, hcl, hp⟩

theorem settings_count : settings.length = 43 := by decide

end Shelx.C11

/-
  C15 — property theorems (model and specification: ShelxModel/C15.lean).

  Algebraic statements are proved over an arbitrary field `K` (so in particular over ℝ and ℚ), the ones that need
  an order over ℝ.  `sqrt`, `acos`, `degrees`, `round(., 9)` are arbitrary functions `T : Trans K`; wherever a
  theorem needs one of their defining relations it is an explicit hypothesis (DESIGN 2.1/5).  Theorems without such a
  hypothesis hold for *every* choice of these functions, in particular for the floating point ones up to the
  rounding of `+ - * /`.
-/
import ShelxModel.C15
import ShelxModel.Extracted.C15Src
import Mathlib.Tactic.Ring
import Mathlib.Tactic.Linarith
import Mathlib.Tactic.FieldSimp
import Mathlib.Tactic.LinearCombination
import Mathlib.Tactic.NormNum
import Mathlib.Data.Real.Basic

namespace Shelx.C15

/-! ### rigid motions -/

structure M3 (K : Type) where
  a11 : K
  a12 : K
  a13 : K
  a21 : K
  a22 : K
  a23 : K
  a31 : K
  a32 : K
  a33 : K

section algebra
variable {K : Type} [Field K]

def M3.apply (R : M3 K) (v : V3 K) : V3 K :=
  ⟨R.a11 * v.x + R.a12 * v.y + R.a13 * v.z, R.a21 * v.x + R.a22 * v.y + R.a23 * v.z, R.a31 * v.x + R.a32 * v.y + R.a33 * v.z⟩

def M3.det (R : M3 K) : K :=
  R.a11 * (R.a22 * R.a33 - R.a23 * R.a32) - R.a12 * (R.a21 * R.a33 - R.a23 * R.a31) + R.a13 * (R.a21 * R.a32 - R.a22 * R.a31)

/-- `Rᵀ R = 1` -/
structure IsOrtho (R : M3 K) : Prop where
  h11 : R.a11 * R.a11 + R.a21 * R.a21 + R.a31 * R.a31 = 1
  h22 : R.a12 * R.a12 + R.a22 * R.a22 + R.a32 * R.a32 = 1
  h33 : R.a13 * R.a13 + R.a23 * R.a23 + R.a33 * R.a33 = 1
  h12 : R.a11 * R.a12 + R.a21 * R.a22 + R.a31 * R.a32 = 0
  h13 : R.a11 * R.a13 + R.a21 * R.a23 + R.a31 * R.a33 = 0
  h23 : R.a12 * R.a13 + R.a22 * R.a23 + R.a32 * R.a33 = 0

/-- the motion `p ↦ R p + t` -/
def rigid (R : M3 K) (t p : V3 K) : V3 K :=
  ⟨(R.apply p).x + t.x, (R.apply p).y + t.y, (R.apply p).z + t.z⟩

theorem sub_rigid (R : M3 K) (t p q : V3 K) : (rigid R t p).sub (rigid R t q) = R.apply (p.sub q) := by
  simp only [rigid, V3.sub, M3.apply, V3.mk.injEq]
  refine ⟨by ring, by ring, by ring⟩

/-! ### the sign expression is the triple product -/

/-- **direction_eq_triple**: the hand-expanded polynomial of `torsion_angle` (as repaired) is `v1 · (v2 × v3)` -/
theorem direction_eq_triple (v1 v2 v3 : V3 K) : directionCode v1 v2 v3 = triple v1 v2 v3 := by
  simp only [directionCode, triple]; ring

/-- the expression with the typo term `v1[2]*v1[1]*v3[0]` is *not* the triple product: on
    `v1 = (0,1,2), v2 = (0,0,1), v3 = (1,0,0)` it is `-1` where the triple product is `+1`
    (atoms at (0,-1,-2), (0,0,0), (0,0,1), (1,0,1): a torsion angle of +90° was reported as -90°) -/
theorem direction_typo_ne_triple :
    ¬ ∀ v1 v2 v3 : V3 ℚ, directionTypo v1 v2 v3 = triple v1 v2 v3 := by
  intro h
  have := h ⟨0, 1, 2⟩ ⟨0, 0, 1⟩ ⟨1, 0, 0⟩
  simp only [directionTypo, triple] at this
  norm_num at this

theorem direction_typo_wrong_sign :
    directionTypo (⟨0, 1, 2⟩ : V3 ℚ) ⟨0, 0, 1⟩ ⟨1, 0, 0⟩ < 0 ∧ 0 < triple (⟨0, 1, 2⟩ : V3 ℚ) ⟨0, 0, 1⟩ ⟨1, 0, 0⟩ := by
  simp only [directionTypo, triple]; norm_num

theorem direction_eq (p1 p2 p3 p4 : V3 K) :
    direction p1 p2 p3 p4 = triple (p2.sub p1) (p3.sub p2) (p4.sub p3) := direction_eq_triple _ _ _

/-! ### products under orthogonal maps -/

/-- **cross_dot_cross** (Binet–Cauchy): `(a × b) · (c × d) = (a·c)(b·d) − (a·d)(b·c)` -/
theorem cross_dot_cross (a b c d : V3 K) :
    sdot (a.cross b) (c.cross d) = sdot a c * sdot b d - sdot a d * sdot b c := by
  simp only [sdot, V3.cross]; ring

/-- **dot_rot**: `RᵀR = 1 → (R a) · (R b) = a · b` -/
theorem dot_rot (R : M3 K) (h : IsOrtho R) (a b : V3 K) : sdot (R.apply a) (R.apply b) = sdot a b := by
  obtain ⟨h11, h22, h33, h12, h13, h23⟩ := h
  simp only [sdot, M3.apply]
  linear_combination (a.x * b.x) * h11 + (a.y * b.y) * h22 + (a.z * b.z) * h33 + (a.x * b.y + a.y * b.x) * h12
    + (a.x * b.z + a.z * b.x) * h13 + (a.y * b.z + a.z * b.y) * h23

/-- **triple_rot**: `[R a, R b, R c] = det R · [a, b, c]` (any matrix) -/
theorem triple_rot (R : M3 K) (a b c : V3 K) :
    triple (R.apply a) (R.apply b) (R.apply c) = R.det * triple a b c := by
  simp only [triple, M3.apply, M3.det]; ring


/-! ### what `angle` and `torsion_angle` compute, written with dot products of the bond vectors -/

theorem sdot_comm (a b : V3 K) : sdot a b = sdot b a := by simp only [sdot]; ring

theorem dot_eq_sdot (a b : V3 K) : a.dot b = sdot a b := by simp only [V3.dot, sdot]; ring

theorem normSq_eq_sdot (a : V3 K) : a.normSq = sdot a a := by simp only [V3.normSq, sdot]; ring

/-- numerator of cos φ from the bond vectors -/
def tNum (v1 v2 v3 : V3 K) : K := sdot v1 v2 * sdot v2 v3 - sdot v1 v3 * sdot v2 v2

/-- `|v × w|²` (Lagrange) -/
def nSq (v w : V3 K) : K := sdot v v * sdot w w - sdot v w * sdot v w

theorem sq3_cross (v w : V3 K) : sq3 (v.cross w) = nSq v w := by
  show sdot (v.cross w) (v.cross w) = _
  rw [cross_dot_cross, sdot_comm w v]; rfl

theorem torsionNum_eq (p1 p2 p3 p4 : V3 K) :
    torsionNum p1 p2 p3 p4 = tNum (p2.sub p1) (p3.sub p2) (p4.sub p3) := by
  show sdot ((p2.sub p1).cross (p3.sub p2)) ((p3.sub p2).cross (p4.sub p3)) = _
  rw [cross_dot_cross]; rfl

/-- **cos_torsion_eq**: the `acos` argument of `torsion_angle` is `(n1·n2)/(|n1||n2|)`, a function of the six dot
    products of the bond vectors only -/
theorem torsionCos_dots (T : Trans K) (p1 p2 p3 p4 : V3 K) :
    torsionCos T p1 p2 p3 p4 = tNum (p2.sub p1) (p3.sub p2) (p4.sub p3)
      / (T.sqrt (nSq (p2.sub p1) (p3.sub p2)) * T.sqrt (nSq (p3.sub p2) (p4.sub p3))) := by
  show torsionNum p1 p2 p3 p4 / (T.sqrt (sq3 ((p2.sub p1).cross (p3.sub p2))) * T.sqrt (sq3 ((p3.sub p2).cross (p4.sub p3)))) = _
  rw [torsionNum_eq, sq3_cross, sq3_cross]

theorem vecCos_dots (T : Trans K) (v w : V3 K) :
    vecCos T v w = sdot v w / (T.sqrt (sdot v v) * T.sqrt (sdot w w)) := by
  simp only [vecCos, dot_eq_sdot, normSq_eq_sdot]

theorem tNum_rot (R : M3 K) (h : IsOrtho R) (v1 v2 v3 : V3 K) :
    tNum (R.apply v1) (R.apply v2) (R.apply v3) = tNum v1 v2 v3 := by
  simp only [tNum, dot_rot R h]

theorem nSq_rot (R : M3 K) (h : IsOrtho R) (v w : V3 K) : nSq (R.apply v) (R.apply w) = nSq v w := by
  simp only [nSq, dot_rot R h]

/-- the cosine is the same after any isometry `p ↦ R p + t`, `RᵀR = 1` (proper or not) -/
theorem torsionCos_rigid (T : Trans K) (R : M3 K) (t : V3 K) (h : IsOrtho R) (p1 p2 p3 p4 : V3 K) :
    torsionCos T (rigid R t p1) (rigid R t p2) (rigid R t p3) (rigid R t p4) = torsionCos T p1 p2 p3 p4 := by
  simp only [torsionCos_dots, sub_rigid, tNum_rot R h, nSq_rot R h]

/-- the sign expression is multiplied by `det R` -/
theorem direction_rigid (R : M3 K) (t : V3 K) (p1 p2 p3 p4 : V3 K) :
    direction (rigid R t p1) (rigid R t p2) (rigid R t p3) (rigid R t p4) = R.det * direction p1 p2 p3 p4 := by
  simp only [direction_eq, sub_rigid, triple_rot]

section order
variable [LT K] [∀ a b : K, Decidable (a < b)]

/-- **torsion_rigid**: the torsion angle is the same after a proper rigid motion (rotation `R`, `det R = 1`,
    and translation `t`) of all four atoms — for every `sqrt`, `acos`, `degrees` -/
theorem torsion_rigid (T : Trans K) (R : M3 K) (t : V3 K) (h : IsOrtho R) (hdet : R.det = 1) (p1 p2 p3 p4 : V3 K) :
    torsionModel T (rigid R t p1) (rigid R t p2) (rigid R t p3) (rigid R t p4) = torsionModel T p1 p2 p3 p4 := by
  simp only [torsionModel, torsionCos_rigid T R t h, direction_rigid, hdet, one_mul]

/-- **torsion_reverse**: D–C–B–A has the torsion angle of A–B–C–D — for every `sqrt`, `acos`, `degrees` -/
theorem torsion_reverse (T : Trans K) (p1 p2 p3 p4 : V3 K) :
    torsionModel T p4 p3 p2 p1 = torsionModel T p1 p2 p3 p4 := by
  have hc : torsionCos T p4 p3 p2 p1 = torsionCos T p1 p2 p3 p4 := by
    have e1 : tNum (p3.sub p4) (p2.sub p3) (p1.sub p2) = tNum (p2.sub p1) (p3.sub p2) (p4.sub p3) := by
      simp only [tNum, sdot, V3.sub]; ring
    have e2 : nSq (p3.sub p4) (p2.sub p3) = nSq (p3.sub p2) (p4.sub p3) := by
      simp only [nSq, sdot, V3.sub]; ring
    have e3 : nSq (p2.sub p3) (p1.sub p2) = nSq (p2.sub p1) (p3.sub p2) := by
      simp only [nSq, sdot, V3.sub]; ring
    rw [torsionCos_dots, torsionCos_dots, e1, e2, e3, mul_comm]
  have hd : direction p4 p3 p2 p1 = direction p1 p2 p3 p4 := by
    simp only [direction, directionCode, V3.sub]; ring
  simp only [torsionModel, hc, hd]

end order

/-! ### the bond angle -/

/-- **angle_symm**: the angle is symmetric in its end atoms — for every `sqrt`, `acos`, `degrees`, `round` -/
theorem angle_symm (T : Trans K) (p1 p2 p3 : V3 K) : angleModel T p1 p2 p3 = angleModel T p3 p2 p1 := by
  simp only [angleModel, vecAngle, vecCos_dots, sdot_comm (p2.sub p1) (p2.sub p3),
    mul_comm (T.sqrt (sdot (p2.sub p1) (p2.sub p1)))]

/-- **angle_rigid**: the angle is the same after any isometry of all three atoms -/
theorem angle_rigid (T : Trans K) (R : M3 K) (t : V3 K) (h : IsOrtho R) (p1 p2 p3 : V3 K) :
    angleModel T (rigid R t p1) (rigid R t p2) (rigid R t p3) = angleModel T p1 p2 p3 := by
  simp only [angleModel, vecAngle, vecCos_dots, sub_rigid, dot_rot R h]


/-! ### model and specification describe the same point of the unit circle -/

/-- **torsion_circle** (Lagrange): `(n1·n2)² + |b2|² [b1,b2,b3]² = |n1|² |n2|²` — the pair
    `(n1·n2, |b2|·[b1,b2,b3]) / (|n1||n2|)` is a point of the unit circle; its first coordinate is the model's
    `acos` argument, the sign of the second is the model's `direction`: the model's angle is the `atan2` of the
    specification -/
theorem torsion_circle (v1 v2 v3 : V3 K) :
    tNum v1 v2 v3 * tNum v1 v2 v3 + sdot v2 v2 * (triple v1 v2 v3 * triple v1 v2 v3) = nSq v1 v2 * nSq v2 v3 := by
  simp only [tNum, nSq, sdot, triple]; ring

theorem spec_x_eq (p1 p2 p3 p4 : V3 K) : specTorsionX p1 p2 p3 p4 = torsionNum p1 p2 p3 p4 := rfl

/-- the specification's `(x, y)` has radius `|n1||n2|`, whatever `sqrt` is as long as `sqrt(b2·b2)² = b2·b2` -/
theorem spec_circle (T : Trans K) (p1 p2 p3 p4 : V3 K)
    (hs : T.sqrt (sdot (p3.sub p2) (p3.sub p2)) * T.sqrt (sdot (p3.sub p2) (p3.sub p2)) = sdot (p3.sub p2) (p3.sub p2)) :
    specTorsionX p1 p2 p3 p4 * specTorsionX p1 p2 p3 p4 + specTorsionY T p1 p2 p3 p4 * specTorsionY T p1 p2 p3 p4
      = sq3 ((p2.sub p1).cross (p3.sub p2)) * sq3 ((p3.sub p2).cross (p4.sub p3)) := by
  rw [spec_x_eq, torsionNum_eq, sq3_cross, sq3_cross, ← torsion_circle]
  simp only [specTorsionY]
  linear_combination (triple (p2.sub p1) (p3.sub p2) (p4.sub p3) * triple (p2.sub p1) (p3.sub p2) (p4.sub p3)) * hs

/-! ### the convention: positive = clockwise looking down the central bond -/

/-- **torsion_canonical**.  Put the central bond B→C on the +z axis with B at the origin and A over the +x axis:
    `A = (r1, 0, h1), B = 0, C = (0, 0, L), D = (r2 c, r2 s, L + h2)`.  The viewer at B looking towards C looks along
    +z and sees the rotation +x → +y as *clockwise*; D is reached from the direction of A by the clockwise turn of
    angle φ with `(cos φ, sin φ) = (c, s)`.  In this frame the code's quantities are
    `direction = r1 r2 L s`, `n1·n2 = r1 r2 L² c`, `|n1|² = (r1 L)²`, `|n2|² = (r2 L)² (c² + s²)`,
    so for `r1, r2, L > 0` the sign of the result is the sign of `sin φ` and the `acos` argument is `cos φ`. -/
theorem torsion_canonical (r1 h1 L r2 h2 c s : K) :
    let A : V3 K := ⟨r1, 0, h1⟩
    let B : V3 K := ⟨0, 0, 0⟩
    let C : V3 K := ⟨0, 0, L⟩
    let D : V3 K := ⟨r2 * c, r2 * s, L + h2⟩
    direction A B C D = r1 * r2 * L * s ∧ torsionNum A B C D = r1 * r2 * (L * L) * c
      ∧ sq3 ((B.sub A).cross (C.sub B)) = (r1 * L) * (r1 * L)
      ∧ sq3 ((C.sub B).cross (D.sub C)) = (r2 * L) * (r2 * L) * (c * c + s * s) := by
  simp only [direction, directionCode, torsionNum, sq3, V3.sub, V3.cross]
  refine ⟨by ring, by ring, by ring, by ring⟩

end algebra

/-- the witness of the convention: atoms at (1,0,0), (0,0,0), (0,0,1), (0,1,1) — looking from B=(0,0,0) to C=(0,0,1),
    A lies towards +x and D towards +y: a clockwise quarter turn, +90°.  The code's `direction` is positive and its
    cosine numerator zero; the typo expression agreed here, which is why a fixture with this shape passes. -/
example : 0 < direction (⟨1, 0, 0⟩ : V3 ℚ) ⟨0, 0, 0⟩ ⟨0, 0, 1⟩ ⟨0, 1, 1⟩
    ∧ torsionNum (⟨1, 0, 0⟩ : V3 ℚ) ⟨0, 0, 0⟩ ⟨0, 0, 1⟩ ⟨0, 1, 1⟩ = 0
    ∧ 0 < triple ((⟨0, 0, 0⟩ : V3 ℚ).sub ⟨1, 0, 0⟩) ((⟨0, 0, 1⟩ : V3 ℚ).sub ⟨0, 0, 0⟩) ((⟨0, 1, 1⟩ : V3 ℚ).sub ⟨0, 0, 1⟩) := by
  simp only [direction, directionCode, torsionNum, triple, V3.sub, V3.cross]; norm_num

/-- a rotation by 90° about z followed by a translation is a proper rigid motion (hypotheses of `torsion_rigid`) -/
example : IsOrtho (⟨0, -1, 0, 1, 0, 0, 0, 0, 1⟩ : M3 ℚ) ∧ (⟨0, -1, 0, 1, 0, 0, 0, 0, 1⟩ : M3 ℚ).det = 1 := by
  refine ⟨⟨?_, ?_, ?_, ?_, ?_, ?_⟩, ?_⟩ <;> simp only [M3.det] <;> norm_num

/-- the mirror `z ↦ -z` is orthogonal with determinant -1 (hypotheses of `torsion_mirror`) -/
example : IsOrtho (⟨1, 0, 0, 0, 1, 0, 0, 0, -1⟩ : M3 ℚ) ∧ (⟨1, 0, 0, 0, 1, 0, 0, 0, -1⟩ : M3 ℚ).det = -1 := by
  refine ⟨⟨?_, ?_, ?_, ?_, ?_, ?_⟩, ?_⟩ <;> simp only [M3.det] <;> norm_num


/-! ### order: mirror image, ranges (over ℝ) -/

section real

/-- **torsion_mirror**: in the mirror image (`RᵀR = 1`, `det R = -1`, any translation) the `acos` argument is the same
    (`torsionCos_rigid`) and the result has the opposite sign.  Hypotheses: `degrees` is odd; `direction ≠ 0` — a planar
    arrangement is its own mirror image, there the code returns the same value `degrees(-ang)` for both. -/
theorem torsion_mirror (T : Trans ℝ) (hdeg : ∀ x, T.deg (-x) = -T.deg x) (R : M3 ℝ) (t : V3 ℝ) (h : IsOrtho R)
    (hdet : R.det = -1) (p1 p2 p3 p4 : V3 ℝ) (hd : direction p1 p2 p3 p4 ≠ 0) :
    torsionModel T (rigid R t p1) (rigid R t p2) (rigid R t p3) (rigid R t p4) = -torsionModel T p1 p2 p3 p4 := by
  simp only [torsionModel, torsionCos_rigid T R t h, direction_rigid, hdet]
  rcases lt_or_gt_of_ne hd with hneg | hpos
  · have h1 : (0 : ℝ) < -1 * direction p1 p2 p3 p4 := by linarith
    have h2 : ¬ (0 : ℝ) < direction p1 p2 p3 p4 := by linarith
    rw [if_pos h1, if_neg h2, hdeg, neg_neg]
  · have h1 : ¬ (0 : ℝ) < -1 * direction p1 p2 p3 p4 := by linarith
    rw [if_neg h1, if_pos hpos, hdeg]

example : direction (⟨1, 0, 0⟩ : V3 ℝ) ⟨0, 0, 0⟩ ⟨0, 0, 1⟩ ⟨0, 1, 1⟩ ≠ 0 := by
  simp only [direction, directionCode, V3.sub]; norm_num

/-- what is assumed of `math.sqrt` -/
structure SqrtOK (T : Trans ℝ) : Prop where
  nonneg : ∀ x, 0 ≤ x → 0 ≤ T.sqrt x
  sq : ∀ x, 0 ≤ x → T.sqrt x * T.sqrt x = x

/-- what is assumed of `math.acos` and `math.degrees` (`pi` is the number π) -/
structure AcosOK (T : Trans ℝ) (pi : ℝ) : Prop where
  pi_pos : 0 < pi
  range : ∀ x, -1 ≤ x → x ≤ 1 → 0 ≤ T.acos x ∧ T.acos x ≤ pi
  top : ∀ x, -1 ≤ x → x ≤ 1 → T.acos x = pi → x = -1
  deg : ∀ x, T.deg x = x * (180 / pi)

/-- what is assumed of `round(., 9)` -/
structure RoundOK (T : Trans ℝ) : Prop where
  mono : ∀ x y, x ≤ y → T.round9 x ≤ T.round9 y
  zero : T.round9 0 = 0
  top : T.round9 180 = 180

theorem sdot_self_nonneg (v : V3 ℝ) : 0 ≤ sdot v v :=
  add_nonneg (add_nonneg (mul_self_nonneg _) (mul_self_nonneg _)) (mul_self_nonneg _)

/-- Cauchy–Schwarz, from Lagrange's identity -/
theorem cauchy_schwarz (v w : V3 ℝ) : sdot v w * sdot v w ≤ sdot v v * sdot w w := by
  have h := cross_dot_cross v w v w
  have h0 := sdot_self_nonneg (v.cross w)
  rw [sdot_comm w v] at h
  linarith

theorem sqrt_pos_of_pos (T : Trans ℝ) (hs : SqrtOK T) (x : ℝ) (hx : 0 < x) : 0 < T.sqrt x := by
  have h1 := hs.nonneg x hx.le
  have h2 := hs.sq x hx.le
  rcases h1.lt_or_eq with h | h
  · exact h
  · rw [← h] at h2; linarith

theorem quot_range (n s : ℝ) (hs : 0 < s) (h : n * n ≤ s * s) : -1 ≤ n / s ∧ n / s ≤ 1 := by
  have h1 : n ≤ s := by
    by_contra hc
    have hc' := not_le.mp hc
    nlinarith
  have h2 : -s ≤ n := by
    by_contra hc
    have hc' := not_le.mp hc
    nlinarith
  constructor
  · rw [le_div_iff₀ hs]; linarith
  · rw [div_le_one hs]; exact h1

/-- the quotient handed to `acos` is a cosine: it lies in `[-1, 1]` whenever both vectors are non-zero -/
theorem cos_range (T : Trans ℝ) (hs : SqrtOK T) (a b : V3 ℝ) (ha : 0 < sdot a a) (hb : 0 < sdot b b) :
    -1 ≤ sdot a b / (T.sqrt (sdot a a) * T.sqrt (sdot b b)) ∧ sdot a b / (T.sqrt (sdot a a) * T.sqrt (sdot b b)) ≤ 1 := by
  apply quot_range
  · exact mul_pos (sqrt_pos_of_pos T hs _ ha) (sqrt_pos_of_pos T hs _ hb)
  · have h1 := hs.sq _ ha.le
    have h2 := hs.sq _ hb.le
    have h3 := cauchy_schwarz a b
    calc sdot a b * sdot a b ≤ sdot a a * sdot b b := h3
      _ = (T.sqrt (sdot a a) * T.sqrt (sdot a a)) * (T.sqrt (sdot b b) * T.sqrt (sdot b b)) := by rw [h1, h2]
      _ = _ := by ring

theorem sdot_sub_pos_of_ne (p q : V3 ℝ) (h : p ≠ q) : 0 < sdot (q.sub p) (q.sub p) := by
  rcases (sdot_self_nonneg (q.sub p)).lt_or_eq with h1 | h1
  · exact h1
  · exfalso
    apply h
    simp only [sdot, V3.sub] at h1
    have hx : q.x - p.x = 0 := by nlinarith [mul_self_nonneg (q.x - p.x), mul_self_nonneg (q.y - p.y), mul_self_nonneg (q.z - p.z)]
    have hy : q.y - p.y = 0 := by nlinarith [mul_self_nonneg (q.x - p.x), mul_self_nonneg (q.y - p.y), mul_self_nonneg (q.z - p.z)]
    have hz : q.z - p.z = 0 := by nlinarith [mul_self_nonneg (q.x - p.x), mul_self_nonneg (q.y - p.y), mul_self_nonneg (q.z - p.z)]
    cases p; cases q
    simp only [V3.mk.injEq]
    simp only at hx hy hz
    refine ⟨by linarith, by linarith, by linarith⟩

/-- **angle_cos_range**: for three atoms with `p1 ≠ p2 ≠ p3` the argument of `acos` in `Atoms.angle` lies in `[-1, 1]`
    (Cauchy–Schwarz), so `acos` is defined -/
theorem angle_cos_range (T : Trans ℝ) (hs : SqrtOK T) (p1 p2 p3 : V3 ℝ) (h12 : p1 ≠ p2) (h32 : p3 ≠ p2) :
    -1 ≤ angleCos T p1 p2 p3 ∧ angleCos T p1 p2 p3 ≤ 1 := by
  simp only [angleCos, vecCos_dots]
  exact cos_range T hs _ _ (sdot_sub_pos_of_ne p1 p2 h12) (sdot_sub_pos_of_ne p3 p2 h32)

theorem deg_range (T : Trans ℝ) (pi : ℝ) (ha : AcosOK T pi) (x : ℝ) (h0 : 0 ≤ x) (h1 : x ≤ pi) :
    0 ≤ T.deg x ∧ T.deg x ≤ 180 := by
  have hp := ha.pi_pos
  rw [ha.deg]
  have hk : 0 < 180 / pi := div_pos (by norm_num) hp
  constructor
  · exact mul_nonneg h0 hk.le
  · calc x * (180 / pi) ≤ pi * (180 / pi) := mul_le_mul_of_nonneg_right h1 hk.le
      _ = 180 := by field_simp

/-- **angle_range**: `Atoms.angle` lies in `[0, 180]` -/
theorem angle_range (T : Trans ℝ) (pi : ℝ) (hs : SqrtOK T) (ha : AcosOK T pi) (hr : RoundOK T) (p1 p2 p3 : V3 ℝ)
    (h12 : p1 ≠ p2) (h32 : p3 ≠ p2) : 0 ≤ angleModel T p1 p2 p3 ∧ angleModel T p1 p2 p3 ≤ 180 := by
  obtain ⟨c1, c2⟩ := angle_cos_range T hs p1 p2 p3 h12 h32
  obtain ⟨a1, a2⟩ := ha.range _ c1 c2
  obtain ⟨d1, d2⟩ := deg_range T pi ha _ a1 a2
  have e : angleModel T p1 p2 p3 = T.round9 (T.deg (T.acos (angleCos T p1 p2 p3))) := rfl
  rw [e]
  constructor
  · rw [← hr.zero]; exact hr.mono _ _ d1
  · rw [← hr.top]; exact hr.mono _ _ d2

example : (⟨1, 0, 0⟩ : V3 ℝ) ≠ ⟨0, 0, 0⟩ := by simp

/-- three atoms that are not on one line: `|b1 × b2|² > 0` (the property's "bounded away from collinearity") -/
def NonCollinear (p1 p2 p3 : V3 ℝ) : Prop := 0 < sq3 ((p2.sub p1).cross (p3.sub p2))

theorem clamp_id (x : ℝ) (h1 : -1 ≤ x) (h2 : x ≤ 1) : clampUnit x = x := by
  unfold clampUnit
  rcases h2.lt_or_eq with h | h
  · rw [if_pos h]
    rcases h1.lt_or_eq with h' | h'
    · simp only [if_pos h']
    · simp only [← h']; norm_num
  · subst h; norm_num

/-- **torsion_cos_range**: for non-collinear A,B,C and B,C,D the argument of `acos` lies in `[-1, 1]`; the clamp of
    fixes/C15_3 is then the identity (it only acts on rounding excess) -/
theorem torsion_cos_range (T : Trans ℝ) (hs : SqrtOK T) (p1 p2 p3 p4 : V3 ℝ) (h1 : NonCollinear p1 p2 p3)
    (h2 : NonCollinear p2 p3 p4) :
    (-1 ≤ torsionCos T p1 p2 p3 p4 ∧ torsionCos T p1 p2 p3 p4 ≤ 1)
      ∧ clampUnit (torsionCos T p1 p2 p3 p4) = torsionCos T p1 p2 p3 p4 := by
  have h := cos_range T hs ((p2.sub p1).cross (p3.sub p2)) ((p3.sub p2).cross (p4.sub p3)) h1 h2
  have e : torsionCos T p1 p2 p3 p4 = sdot ((p2.sub p1).cross (p3.sub p2)) ((p3.sub p2).cross (p4.sub p3))
      / (T.sqrt (sdot ((p2.sub p1).cross (p3.sub p2)) ((p2.sub p1).cross (p3.sub p2)))
        * T.sqrt (sdot ((p3.sub p2).cross (p4.sub p3)) ((p3.sub p2).cross (p4.sub p3)))) := rfl
  rw [e]
  exact ⟨h, clamp_id _ h.1 h.2⟩

/-- the trans-planar arrangement: the four atoms lie in one plane (`direction = 0`) with A and D on opposite sides
    of the central bond (`n1·n2 < 0`), torsion angle 180° -/
def TransPlanar (p1 p2 p3 p4 : V3 ℝ) : Prop := direction p1 p2 p3 p4 = 0 ∧ torsionNum p1 p2 p3 p4 < 0

/-- the full-strength range statement of the property.  It is FALSE for the code as it is (`torsion_range_fails_on`):
    known finding `C15|torsion|range|trans-planar|-180`. -/
def TorsionRangeStatement : Prop :=
  ∀ (T : Trans ℝ) (pi : ℝ), SqrtOK T → AcosOK T pi → ∀ p1 p2 p3 p4 : V3 ℝ, NonCollinear p1 p2 p3 → NonCollinear p2 p3 p4 →
    -180 < torsionModel T p1 p2 p3 p4 ∧ torsionModel T p1 p2 p3 p4 ≤ 180

/-- **torsion_range_partial**: the torsion angle lies in `(-180, 180]` for every non-degenerate quadruple that is not
    trans-planar.  The extra hypothesis excludes exactly the class of the known finding: there `direction = 0` is not
    `> 0` and the code returns `degrees(-π) = -180`. -/
theorem torsion_range_partial (T : Trans ℝ) (pi : ℝ) (hs : SqrtOK T) (ha : AcosOK T pi) (p1 p2 p3 p4 : V3 ℝ)
    (h1 : NonCollinear p1 p2 p3) (h2 : NonCollinear p2 p3 p4) (hntp : ¬ TransPlanar p1 p2 p3 p4) :
    -180 < torsionModel T p1 p2 p3 p4 ∧ torsionModel T p1 p2 p3 p4 ≤ 180 := by
  obtain ⟨⟨c1, c2⟩, hcl⟩ := torsion_cos_range T hs p1 p2 p3 p4 h1 h2
  obtain ⟨a1, a2⟩ := ha.range _ c1 c2
  obtain ⟨d1, d2⟩ := deg_range T pi ha _ a1 a2
  have hp := ha.pi_pos
  have hk : 0 < 180 / pi := div_pos (by norm_num) hp
  simp only [torsionModel, hcl]
  by_cases hdir : 0 < direction p1 p2 p3 p4
  · rw [if_pos hdir]; exact ⟨by linarith, d2⟩
  · rw [if_neg hdir, ha.deg]
    rw [ha.deg] at d1 d2
    refine ⟨?_, by linarith⟩
    -- ang < pi, because ang = pi forces the trans-planar arrangement
    have hlt : T.acos (torsionCos T p1 p2 p3 p4) < pi := by
      rcases a2.lt_or_eq with h | h
      · exact h
      · exfalso
        have hc := ha.top _ c1 c2 h
        apply hntp
        -- cos = -1: numerator = -(s1 s2), so n1·n2 < 0 and (n1·n2)² = |n1|²|n2|², hence the triple product vanishes
        set v1 := p2.sub p1
        set v2 := p3.sub p2
        set v3 := p4.sub p3
        have hn1 : 0 < nSq v1 v2 := by rw [← sq3_cross]; exact h1
        have hn2 : 0 < nSq v2 v3 := by rw [← sq3_cross]; exact h2
        have s1 := sqrt_pos_of_pos T hs _ hn1
        have s2 := sqrt_pos_of_pos T hs _ hn2
        have q1 := hs.sq _ hn1.le
        have q2 := hs.sq _ hn2.le
        rw [torsionCos_dots] at hc
        have hnum : tNum v1 v2 v3 = -(T.sqrt (nSq v1 v2) * T.sqrt (nSq v2 v3)) := by
          have hne : T.sqrt (nSq v1 v2) * T.sqrt (nSq v2 v3) ≠ 0 := (mul_pos s1 s2).ne'
          have := (div_eq_iff hne).mp hc
          linarith
        have hcirc := torsion_circle v1 v2 v3
        have hsq : tNum v1 v2 v3 * tNum v1 v2 v3 = nSq v1 v2 * nSq v2 v3 := by
          have e : tNum v1 v2 v3 * tNum v1 v2 v3
              = (T.sqrt (nSq v1 v2) * T.sqrt (nSq v1 v2)) * (T.sqrt (nSq v2 v3) * T.sqrt (nSq v2 v3)) := by
            rw [hnum]; ring
          rw [e, q1, q2]
        have hv2 : 0 < sdot v2 v2 := by
          rcases (sdot_self_nonneg v2).lt_or_eq with h' | h'
          · exact h'
          · exfalso
            have : nSq v1 v2 = -(sdot v1 v2 * sdot v1 v2) := by simp only [nSq, ← h']; ring
            nlinarith [mul_self_nonneg (sdot v1 v2)]
        have htri : triple v1 v2 v3 * triple v1 v2 v3 = 0 := by
          have : sdot v2 v2 * (triple v1 v2 v3 * triple v1 v2 v3) = 0 := by linarith
          rcases mul_eq_zero.mp this with h' | h'
          · linarith
          · exact h'
        have htri0 : triple v1 v2 v3 = 0 := mul_self_eq_zero.mp htri
        refine ⟨by rw [direction_eq]; exact htri0, ?_⟩
        rw [torsionNum_eq, hnum]
        have := mul_pos s1 s2
        linarith
    have : -(T.acos (torsionCos T p1 p2 p3 p4)) * (180 / pi) > -(pi * (180 / pi)) := by nlinarith
    have e : pi * (180 / pi) = 180 := by field_simp
    linarith

/-- **torsion_range_fails_on**: atoms at (1,0,0), (0,0,0), (0,0,1), (-1,0,1) (trans-planar).  For *every* admissible
    `sqrt`, `acos`, `degrees` with `acos(-1) = π` the code's result is `-180`, outside `(-180, 180]`.
    (Replayed on the implementation in every run: `WITNESS` in harness/props/c15.py.) -/
theorem torsion_range_fails_on (T : Trans ℝ) (pi : ℝ) (hs : SqrtOK T) (ha : AcosOK T pi) (hpi : T.acos (-1) = pi) :
    NonCollinear ⟨1, 0, 0⟩ ⟨0, 0, 0⟩ ⟨0, 0, 1⟩ ∧ NonCollinear ⟨0, 0, 0⟩ ⟨0, 0, 1⟩ ⟨-1, 0, 1⟩
      ∧ TransPlanar ⟨1, 0, 0⟩ ⟨0, 0, 0⟩ ⟨0, 0, 1⟩ ⟨-1, 0, 1⟩
      ∧ torsionModel T ⟨1, 0, 0⟩ ⟨0, 0, 0⟩ ⟨0, 0, 1⟩ ⟨-1, 0, 1⟩ = -180 := by
  have hs1 : T.sqrt 1 = 1 := by
    have h1 := hs.nonneg 1 (by norm_num)
    have h2 := hs.sq 1 (by norm_num)
    nlinarith
  refine ⟨?_, ?_, ⟨?_, ?_⟩, ?_⟩
  · simp only [NonCollinear, sq3, V3.sub, V3.cross]; norm_num
  · simp only [NonCollinear, sq3, V3.sub, V3.cross]; norm_num
  · simp only [direction, directionCode, V3.sub]; norm_num
  · simp only [torsionNum, V3.sub, V3.cross]; norm_num
  · have hp := ha.pi_pos
    simp only [torsionModel, torsionCos, torsionNum, sq3, direction, directionCode, clampUnit, V3.sub, V3.cross]
    norm_num [hs1, hpi, ha.deg]
    field_simp

/-- the specification's `y` has the sign of the code's `direction` (for `sqrt(b2·b2) > 0`) -/
theorem spec_sign (T : Trans ℝ) (p1 p2 p3 p4 : V3 ℝ) (hs : 0 < T.sqrt (sdot (p3.sub p2) (p3.sub p2))) :
    0 < specTorsionY T p1 p2 p3 p4 ↔ 0 < direction p1 p2 p3 p4 := by
  rw [direction_eq]
  simp only [specTorsionY]
  constructor
  · intro h
    by_contra hc
    have := mul_nonpos_of_nonneg_of_nonpos hs.le (not_lt.mp hc)
    linarith
  · intro h; exact mul_pos hs h

/-- the quadruple of the convention witness meets the hypotheses of `torsion_range_partial` -/
example : NonCollinear ⟨1, 0, 0⟩ ⟨0, 0, 0⟩ ⟨0, 0, 1⟩ ∧ NonCollinear ⟨0, 0, 0⟩ ⟨0, 0, 1⟩ ⟨0, 1, 1⟩
    ∧ ¬ TransPlanar ⟨1, 0, 0⟩ ⟨0, 0, 0⟩ ⟨0, 0, 1⟩ ⟨0, 1, 1⟩ := by
  refine ⟨?_, ?_, ?_⟩
  · simp only [NonCollinear, sq3, V3.sub, V3.cross]; norm_num
  · simp only [NonCollinear, sq3, V3.sub, V3.cross]; norm_num
  · rintro ⟨h, _⟩
    simp only [direction, directionCode, V3.sub] at h
    norm_num at h

end real


/-! ### distances -/

section distance
variable {K : Type} [Field K]

/-- what is assumed of the cell: non-zero `a`, `b`, `sin γ`; `sin²γ + cos²γ = 1`; and `V` is the cell volume,
    `V² = a²b²c²(1 + 2 cos α cos β cos γ − cos²α − cos²β − cos²γ)` (`vol_unitcell`) -/
structure CellOK (C : Cell K) : Prop where
  a_ne : C.a ≠ 0
  b_ne : C.b ≠ 0
  sg_ne : C.sg ≠ 0
  sg_cg : C.sg * C.sg + C.cg * C.cg = 1
  vol : C.v * C.v = C.a * C.a * (C.b * C.b) * (C.c * C.c)
    * (1 + 2 * C.ca * C.cb * C.cg - C.ca * C.ca - C.cb * C.cb - C.cg * C.cg)

/-- the orthogonalisation matrix of the code realises the metric tensor: `|M f1 − M f2|² = Δᵀ G Δ` -/
theorem cart_metric (C : Cell K) (h : CellOK C) (f1 f2 : V3 K) :
    sq3 ((cart C f1).sub (cart C f2)) = metricForm C (f1.sub f2) := by
  obtain ⟨ha, hb, hsg, hsc, hvol⟩ := h
  have e12 : C.c * (C.ca - C.cb * C.cg) / C.sg * C.sg = C.c * (C.ca - C.cb * C.cg) := div_mul_cancel₀ _ hsg
  have hden : C.a * C.b * C.sg ≠ 0 := mul_ne_zero (mul_ne_zero ha hb) hsg
  have e22 : C.v / (C.a * C.b * C.sg) * (C.a * C.b * C.sg) = C.v := div_mul_cancel₀ _ hden
  simp only [sq3, cart, V3.sub, metricForm]
  generalize C.c * (C.ca - C.cb * C.cg) / C.sg = m12 at e12 ⊢
  generalize C.v / (C.a * C.b * C.sg) = m22 at e22 ⊢
  -- m12² + m22² = c² (1 − cos²β)
  have hk : (m12 * m12 + m22 * m22) * ((C.a * C.b * C.sg) * (C.a * C.b * C.sg))
      = C.c * C.c * (1 - C.cb * C.cb) * ((C.a * C.b * C.sg) * (C.a * C.b * C.sg)) := by
    linear_combination (C.a * C.b * (C.a * C.b) * (m12 * C.sg + C.c * (C.ca - C.cb * C.cg))) * e12
      + (m22 * (C.a * C.b * C.sg) + C.v) * e22 + hvol
      - (C.a * C.a * (C.b * C.b) * (C.c * C.c) * (1 - C.cb * C.cb)) * hsc
  have hsum : m12 * m12 + m22 * m22 = C.c * C.c * (1 - C.cb * C.cb) :=
    mul_right_cancel₀ (mul_ne_zero hden hden) hk
  linear_combination (C.b * C.b * ((f1.y - f2.y) * (f1.y - f2.y))) * hsc + ((f1.z - f2.z) * (f1.z - f2.z)) * hsum
    + (2 * C.b * (f1.y - f2.y) * (f1.z - f2.z)) * e12

/-- **named_distance_euclid**: `Atoms.distance` (Euclidean distance of the stored Cartesian coordinates) is the
    distance of the two sites in the crystal, `sqrt(Δᵀ G Δ)` -/
theorem named_distance_euclid (T : Trans K) (C : Cell K) (h : CellOK C) (f1 f2 : V3 K) :
    namedDistance T C f1 f2 = specDistance T C f1 f2 := by
  have e : namedDistance T C f1 f2 = T.sqrt (sq3 ((cart C f1).sub (cart C f2))) := rfl
  rw [e, cart_metric C h]; rfl

/-- the expression of `atomic_distance(p1, p2, cell)` is the same quadratic form (no hypothesis on the cell) -/
theorem metric_dist_eq (T : Trans K) (C : Cell K) (f1 f2 : V3 K) : metricDist T C f1 f2 = specDistance T C f1 f2 := by
  simp only [metricDist, specDistance]
  congr 1
  simp only [metricRadicand, metricForm, V3.sub]; ring

/-- both routes to a distance in the code agree: by name (Cartesian) and in the neighbour search (fractional) -/
theorem named_eq_metric (T : Trans K) (C : Cell K) (h : CellOK C) (f1 f2 : V3 K) :
    namedDistance T C f1 f2 = metricDist T C f1 f2 := by
  rw [named_distance_euclid T C h, metric_dist_eq]

end distance

/-- a monoclinic-type cell that meets `CellOK`: a=3, b=4, c=5, cos γ = 3/5, sin γ = 4/5, cos α = cos β = 0, V = 48 -/
example : CellOK ({ a := 3, b := 4, c := 5, ca := 0, cb := 0, cg := 3 / 5, sb := 1, sg := 4 / 5, v := 48 } : Cell ℚ) := by
  refine ⟨?_, ?_, ?_, ?_, ?_⟩ <;> norm_num


/-! ### the second fractional → Cartesian route (`misc.frac_to_cart`: `add_atom`, grown atoms) -/

section routes

/-- what is assumed of the cell for the `cos α*` route in addition to `CellOK`: positive lengths, sines and volume,
    `sin²β + cos²β = 1` -/
structure CellPos (C : Cell ℝ) : Prop where
  a_pos : 0 < C.a
  b_pos : 0 < C.b
  c_pos : 0 < C.c
  sb_pos : 0 < C.sb
  sg_pos : 0 < C.sg
  v_pos : 0 < C.v
  sb_cb : C.sb * C.sb + C.cb * C.cb = 1

/-- **frac_to_cart_agrees**: `misc.frac_to_cart` (the `cos α*` formulae) and the orthogonal matrix give the *same*
    Cartesian coordinates, so an atom made by `add_atom()`/`grow()` and an atom parsed from the file text live in
    one frame and every angle, torsion angle and named distance theorem applies to any mixture of them. -/
theorem frac_to_cart_agrees (T : Trans ℝ) (hs : SqrtOK T) (C : Cell ℝ) (h : CellOK C) (hp : CellPos C) (f : V3 ℝ) :
    cartAstar T C f = cart C f := by
  obtain ⟨ha, hb, hsg, hsc, hvol⟩ := h
  obtain ⟨pa, pb, pc, psb, psg, pv, hsb⟩ := hp
  have hden : C.sb * C.sg ≠ 0 := (mul_pos psb psg).ne'
  -- y component: -c sin β cos α* = c (cos α − cos β cos γ) / sin γ
  have ey : -C.c * C.sb * ((C.cb * C.cg - C.ca) / (C.sb * C.sg)) = C.c * (C.ca - C.cb * C.cg) / C.sg := by
    field_simp
    ring
  -- z component: c sin β sin α* = V / (a b sin γ): both are positive and have the same square
  set cs := (C.cb * C.cg - C.ca) / (C.sb * C.sg) with hcs
  have hcs' : cs * (C.sb * C.sg) = C.cb * C.cg - C.ca := div_mul_cancel₀ _ hden
  have hab : 0 < C.a * C.b * C.sg := mul_pos (mul_pos pa pb) psg
  set w := C.v / (C.a * C.b * C.sg) with hw
  have hw' : w * (C.a * C.b * C.sg) = C.v := div_mul_cancel₀ _ hab.ne'
  have hwpos : 0 < w := div_pos pv hab
  -- (c sb)² (1 − cs²) = w²
  have hsq : (C.c * C.sb) * (C.c * C.sb) * (1 - cs * cs) = w * w := by
    have h1 : ((C.c * C.sb) * (C.c * C.sb) * (1 - cs * cs)) * ((C.a * C.b * C.sg) * (C.a * C.b * C.sg))
        = (w * w) * ((C.a * C.b * C.sg) * (C.a * C.b * C.sg)) := by
      linear_combination (-(C.c * C.c * (C.a * C.b) * (C.a * C.b)) * (cs * (C.sb * C.sg) + (C.cb * C.cg - C.ca))) * hcs'
        - (w * (C.a * C.b * C.sg) + C.v) * hw' - hvol
        + (C.c * C.c * (C.a * C.b) * (C.a * C.b) * C.sg * C.sg) * hsb
        + (C.c * C.c * (C.a * C.b) * (C.a * C.b) * (1 - C.cb * C.cb)) * hsc
    exact mul_right_cancel₀ (mul_ne_zero hab.ne' hab.ne') h1
  have hcsb : 0 < C.c * C.sb := mul_pos pc psb
  have hrad : 0 ≤ 1 - cs * cs := by
    have : 0 ≤ (C.c * C.sb) * (C.c * C.sb) * (1 - cs * cs) := by rw [hsq]; exact mul_self_nonneg w
    by_contra hneg
    have hneg' := not_le.mp hneg
    have := mul_neg_of_pos_of_neg (mul_pos hcsb hcsb) hneg'
    linarith
  have hsn := hs.nonneg _ hrad
  have hss := hs.sq _ hrad
  have ez : C.c * C.sb * T.sqrt (1 - cs * cs) = w := by
    have hx : 0 ≤ C.c * C.sb * T.sqrt (1 - cs * cs) := mul_nonneg hcsb.le hsn
    have hxx : (C.c * C.sb * T.sqrt (1 - cs * cs)) * (C.c * C.sb * T.sqrt (1 - cs * cs)) = w * w := by
      have e : (C.c * C.sb * T.sqrt (1 - cs * cs)) * (C.c * C.sb * T.sqrt (1 - cs * cs))
          = (C.c * C.sb) * (C.c * C.sb) * (T.sqrt (1 - cs * cs) * T.sqrt (1 - cs * cs)) := by ring
      rw [e, hss, hsq]
    nlinarith
  simp only [cartAstar, cart, V3.mk.injEq]
  rw [← hcs, ey, ez]
  refine ⟨by ring, by ring, by ring⟩

/-- whichever way an atom entered the model, its Cartesian coordinates are `M · frac` -/
theorem cartVia_eq (T : Trans ℝ) (hs : SqrtOK T) (C : Cell ℝ) (h : CellOK C) (hp : CellPos C) (r : Bool) (f : V3 ℝ) :
    cartVia T C r f = cart C f := by
  cases r
  · rfl
  · exact frac_to_cart_agrees T hs C h hp f

/-- **named_distance_any_route**: `Atoms.distance` is the crystal distance `sqrt(Δᵀ G Δ)` for atoms of any origin -/
theorem named_distance_any_route (T : Trans ℝ) (hs : SqrtOK T) (C : Cell ℝ) (h : CellOK C) (hp : CellPos C)
    (r1 r2 : Bool) (f1 f2 : V3 ℝ) : distanceVia T C r1 r2 f1 f2 = specDistance T C f1 f2 := by
  simp only [distanceVia, cartVia_eq T hs C h hp]
  exact named_distance_euclid T C h f1 f2

end routes

/-- a cell with oblique γ that meets `CellOK` and `CellPos` -/
example : CellPos ({ a := 3, b := 4, c := 5, ca := 0, cb := 0, cg := 3 / 5, sb := 1, sg := 4 / 5, v := 48 } : Cell ℝ) := by
  refine ⟨?_, ?_, ?_, ?_, ?_, ?_, ?_⟩ <;> norm_num

/-! ### neighbour search -/

section neighbours
variable {K : Type} [Field K] [LT K] [∀ a b : K, Decidable (a < b)]

theorem findAroundLoop_eq (T : Trans K) (C : Cell K) (self : AtomN K) (i : Nat) (dist : K) (part : Int)
    (l : List (AtomN K)) (k : Nat) :
    findAroundLoop T C self i dist part l k
      = filterIdx (fun j a => decide (j ≠ i) && !a.qpeak && decide (a.part = part)
          && decide (specDistance T C self.frac a.frac < dist)) l k := by
  induction l generalizing k with
  | nil => rfl
  | cons a rest ih =>
    have hiff : (metricDist T C self.frac a.frac < dist ∧ i ≠ k ∧ a.part = part ∧ a.qpeak = false)
        ↔ ((decide (k ≠ i) && !a.qpeak && decide (a.part = part)
            && decide (specDistance T C self.frac a.frac < dist)) = true) := by
      rw [metric_dist_eq]
      simp only [Bool.and_eq_true, decide_eq_true_eq, Bool.not_eq_true', ne_eq]
      constructor
      · rintro ⟨h1, h2, h3, h4⟩; exact ⟨⟨⟨fun e => h2 e.symm, h4⟩, h3⟩, h1⟩
      · rintro ⟨⟨⟨h2, h4⟩, h3⟩, h1⟩; exact ⟨h1, fun e => h2 e.symm, h3, h4⟩
    simp only [findAroundLoop, filterIdx, ih, hiff]

/-- **neighbours_spec**: `find_atoms_around(dist, only_part)` of the atom at position `i` returns exactly the positions
    of the *other* atoms that are no Q-peaks, belong to PART `only_part` and lie closer than `dist` — for every atom
    list, every cell, every `sqrt`.  (With `self != at`, as the code stood, this needed the hypothesis that no other
    atom prints the same line; fixes/C15_2 removes it.) -/
theorem neighbours_spec (T : Trans K) (C : Cell K) (atoms : List (AtomN K)) (i : Nat) (dist : K) (part : Int) :
    findAround T C atoms i dist part = specAround T C atoms i dist part := by
  simp only [findAround, specAround]
  cases atoms[i]? with
  | none => rfl
  | some self => simp only [Option.map_some, findAroundLoop_eq]

end neighbours

/-- positions returned by `filterIdx` are exactly the positions that satisfy the predicate (so `specAround` is the
    set the property describes, in file order, each once) -/
theorem mem_filterIdx {α : Type} (p : Nat → α → Bool) (l : List α) (k j : Nat) :
    j ∈ filterIdx p l k ↔ ∃ a, k ≤ j ∧ l[j - k]? = some a ∧ p j a = true := by
  induction l generalizing k with
  | nil => simp [filterIdx]
  | cons a rest ih =>
    simp only [filterIdx]
    by_cases hp : p k a = true
    · simp only [hp, if_true, List.mem_cons, ih]
      constructor
      · rintro (rfl | ⟨b, hk, hb, hpb⟩)
        · exact ⟨a, le_refl _, by simp, hp⟩
        · refine ⟨b, by omega, ?_, hpb⟩
          have : j - k = (j - (k + 1)) + 1 := by omega
          rw [this, List.getElem?_cons_succ]; exact hb
      · rintro ⟨b, hk, hb, hpb⟩
        by_cases hjk : j = k
        · left; exact hjk
        · right
          refine ⟨b, by omega, ?_, hpb⟩
          have : j - k = (j - (k + 1)) + 1 := by omega
          rw [this, List.getElem?_cons_succ] at hb; exact hb
    · simp only [hp, Bool.false_eq_true, if_false, ih]
      constructor
      · rintro ⟨b, hk, hb, hpb⟩
        refine ⟨b, by omega, ?_, hpb⟩
        have : j - k = (j - (k + 1)) + 1 := by omega
        rw [this, List.getElem?_cons_succ]; exact hb
      · rintro ⟨b, hk, hb, hpb⟩
        have hjk : j ≠ k := by
          rintro rfl
          simp only [Nat.sub_self, List.getElem?_cons_zero, Option.some.injEq] at hb
          subst hb; exact hp hpb
        refine ⟨b, by omega, ?_, hpb⟩
        have : j - k = (j - (k + 1)) + 1 := by omega
        rw [this, List.getElem?_cons_succ] at hb; exact hb


/-! ## the tie to the traced source (`ShelxModel/Extracted/C15Src.lean`, regenerated on every run)

  `extract/trace_c15.py` reads a file with `Shelxfile.read_string` whose numbers are placeholders and calls
  `Atoms.torsion_angle`, `Atoms.angle`, `Atoms.distance`, `Atom.cart_coords` (parsed atom, atom moved with the
  `frac_coords` setter, atom made by `add_atom`) and `Atom.find_atoms_around` of the working tree on the parsed objects.
  What CPython computed is written out as the straight-line definitions `Src.…`; every comparison of a symbolic number
  made on the way is captured with the expressions compared and evaluated to a *region mask* (on which part of the real
  line the traced path is the one taken).  Each `src_…` theorem says: for ALL inputs the traced program IS the
  hand-written model function the property theorems above are about.  Helpers the code was moved into, renamed locals,
  loops over index tables, re-ordered or re-associated sums, `0 < d` for `d > 0`, `-degrees(x)` for `degrees(-x)` all
  yield the same statements (ring normalisation inside `sqrt`/`acos`/`degrees`; `degrees` odd where stated).  A changed
  term of the sign polynomial, `>=` for `>`, a further branch, a different distance formula break them.
  Outside these theorems: rounding, and the two closed ends `cos φ = ±1` of the clamp (reached by rounding only; sampled
  by the harness in its planar mode). -/

-- the traced definitions change with the source: a tactic that has nothing left to do for one spelling closes the goal for another
set_option linter.unusedTactic false
set_option linter.unreachableTactic false
set_option linter.unnecessarySeqFocus false
set_option linter.unusedVariables false

def flatV {K : Type} (v : V3 K) : List K := [v.x, v.y, v.z]

/-- unfold the traced definition and the model, normalise as commutative-ring expressions (inside the arguments of the
    opaque functions too), and — where `degrees` is known to be odd — pull signs out of it -/
syntax "src_tie" "[" Lean.Parser.Tactic.simpLemma,* "]" : tactic
macro_rules
  | `(tactic| src_tie [$ls,*]) => `(tactic| (simp only [$ls,*] <;> try ring_nf))

section src
variable {K : Type} [Field K]

/-- **src_torsionDir**: the expression whose comparison with 0 decides the sign of `Atoms.torsion_angle` in the working
    tree is the model's `direction` of the four atoms' Cartesian positions -/
theorem src_torsionDir (p1 p2 p3 p4 : V3 K) :
    Src.torsionDir p1.x p1.y p1.z p2.x p2.y p2.z p3.x p3.y p3.z p4.x p4.y p4.z = direction p1 p2 p3 p4 := by
  simp only [Src.torsionDir, direction, directionCode, V3.sub] <;> ring

/-- **src_torsionDir_eq_triple**: the sign expression *as the source has it now* is the triple product of the bond
    vectors.  An edit of any term of the hand-expanded polynomial breaks this proof. -/
theorem src_torsionDir_eq_triple (p1 p2 p3 p4 : V3 K) :
    Src.torsionDir p1.x p1.y p1.z p2.x p2.y p2.z p3.x p3.y p3.z p4.x p4.y p4.z
      = triple (p2.sub p1) (p3.sub p2) (p4.sub p3) := by
  simp only [Src.torsionDir, triple, V3.sub] <;> ring

/-- the same expression decides on the second traced path -/
theorem src_torsionDirNeg (p1 p2 p3 p4 : V3 K) :
    Src.torsionDirNeg p1.x p1.y p1.z p2.x p2.y p2.z p3.x p3.y p3.z p4.x p4.y p4.z = direction p1 p2 p3 p4 := by
  simp only [Src.torsionDirNeg, direction, directionCode, V3.sub] <;> ring

/-- **src_torsionPos**: what `torsion_angle` returns on the path of a positive sign expression (clamp not acting) -/
theorem src_torsionPos (T : Trans K) (p1 p2 p3 p4 : V3 K) :
    Src.torsionPos T.acos T.deg T.sqrt p1.x p1.y p1.z p2.x p2.y p2.z p3.x p3.y p3.z p4.x p4.y p4.z
      = T.deg (T.acos (torsionCos T p1 p2 p3 p4)) := by
  src_tie [Src.torsionPos, torsionCos, torsionNum, sq3, V3.sub, V3.cross]

/-- **src_torsionNeg**: … and on the other path.  `degrees` odd: the source may negate before or after it. -/
theorem src_torsionNeg (T : Trans K) (hdeg : ∀ x, T.deg (-x) = -T.deg x) (p1 p2 p3 p4 : V3 K) :
    Src.torsionNeg T.acos T.deg T.sqrt p1.x p1.y p1.z p2.x p2.y p2.z p3.x p3.y p3.z p4.x p4.y p4.z
      = T.deg (-(T.acos (torsionCos T p1 p2 p3 p4))) := by
  simp only [Src.torsionNeg, torsionCos, torsionNum, sq3, V3.sub, V3.cross] <;> (try ring_nf) <;> (try simp only [hdeg])
    <;> (try ring_nf)

/-- **src_angle**: `Atoms.angle` of the working tree is `angleModel` -/
theorem src_angle (T : Trans K) (p1 p2 p3 : V3 K) :
    Src.angle T.acos T.deg T.round9 T.sqrt p1.x p1.y p1.z p2.x p2.y p2.z p3.x p3.y p3.z = angleModel T p1 p2 p3 := by
  src_tie [Src.angle, angleModel, vecAngle, vecCos, V3.dot, V3.normSq, V3.sub]

/-- **src_namedDistance**: `Atoms.distance` of the working tree is the Euclidean distance of the stored positions -/
theorem src_namedDistance (T : Trans K) (p q : V3 K) :
    Src.namedDistance T.sqrt p.x p.y p.z q.x q.y q.z = euclid T p q := by
  src_tie [Src.namedDistance, euclid, V3.sub]

/-- the cell of the model with the volume the source's matrix uses: `a b c · w`, `w` the one square root it takes -/
def cellOfRoot (C : Cell K) (w : K) : Cell K := { C with v := C.a * C.b * C.c * w }

/-- **src_atomCart**: the Cartesian coordinates of an atom parsed from the file text are `cart` (`M · frac`) -/
theorem src_atomCart (C : Cell K) (w : K) (f : V3 K) :
    Src.atomCart C.a C.b C.c C.ca C.cb C.cg C.sg w f.x f.y f.z = flatV (cart (cellOfRoot C w) f) := by
  src_tie [Src.atomCart, cart, cellOfRoot, flatV]

/-- **src_movedCart**: … and so are those of an atom moved with the `frac_coords` setter -/
theorem src_movedCart (C : Cell K) (w : K) (f : V3 K) :
    Src.movedCart C.a C.b C.c C.ca C.cb C.cg C.sg w f.x f.y f.z = flatV (cart (cellOfRoot C w) f) := by
  src_tie [Src.movedCart, cart, cellOfRoot, flatV]

/-- **src_volRadicand**: the radicand of that square root; with `w² =` this, `cellOfRoot C w` meets `CellOK.vol` -/
theorem src_volRadicand (C : Cell K) :
    Src.volRadicand C.a C.b C.c C.ca C.cb C.cg = 1 + 2 * C.ca * C.cb * C.cg - C.ca * C.ca - C.cb * C.cb - C.cg * C.cg := by
  simp only [Src.volRadicand] <;> ring

theorem cellOfRoot_vol (C : Cell K) (w : K) (hw : w * w = Src.volRadicand C.a C.b C.c C.ca C.cb C.cg) :
    (cellOfRoot C w).v * (cellOfRoot C w).v = C.a * C.a * (C.b * C.b) * (C.c * C.c)
      * (1 + 2 * C.ca * C.cb * C.cg - C.ca * C.ca - C.cb * C.cb - C.cg * C.cg) := by
  rw [← src_volRadicand, ← hw]; simp only [cellOfRoot]; ring

/-- **src_addedCart**: the Cartesian coordinates of an atom made by `Shelxfile.add_atom` are `cartAstar` -/
theorem src_addedCart (T : Trans K) (C : Cell K) (f : V3 K) :
    Src.addedCart T.sqrt C.a C.b C.c C.ca C.cb C.cg C.sb C.sg f.x f.y f.z = flatV (cartAstar T C f) := by
  src_tie [Src.addedCart, cartAstar, flatV]

/-- **src_aroundDist**: the number `find_atoms_around` compares with `dist` is `metricDist` of the two atoms -/
theorem src_aroundDist (T : Trans K) (C : Cell K) (f1 f2 : V3 K) :
    Src.aroundDist T.sqrt C.a C.b C.c C.ca C.cb C.cg f1.x f1.y f1.z f2.x f2.y f2.z = metricDist T C f1 f2 := by
  src_tie [Src.aroundDist, metricDist, metricRadicand, V3.sub]

end src

/-- region masks of the comparisons on the traced paths (extract/trace_c15.py `regions`): for the sign expression bit 0
    is `< 0`, bit 1 `= 0`, bit 2 `> 0`; for the `acos` argument bit 2 is the open interval `(-1, 1)` -/
def torsionPathsOK : List Nat → Bool
  | [pos, neg, cpos, cneg] => pos == 4 && neg == 3 && cpos &&& 4 == 4 && cneg &&& 4 == 4
  | _ => false

/-- **src_torsionPaths**: the first traced path of `torsion_angle` is taken exactly when the sign expression is `> 0`,
    the second exactly when it is `= 0` or `< 0` (the model's `if 0 < direction … else …`; `>=` for `>` would give
    `[6, 1, …]`), and both are valid for every `acos` argument strictly between -1 and 1 -/
theorem src_torsionPaths : torsionPathsOK (Src.torsionPaths (K := Nat)) = true := by decide

/-- **src_aroundPaths**: an atom passes the distance test of `find_atoms_around` exactly when the compared number is
    `< dist` (mask 1), and fails it when it is `= dist` or `> dist` (mask 6) -/
theorem src_aroundPaths : Src.aroundPaths (K := Nat) = [1, 6] := by decide

/-- the program the traced paths and their path conditions describe -/
noncomputable def srcTorsion (T : Trans ℝ) (p1 p2 p3 p4 : V3 ℝ) : ℝ :=
  if 0 < Src.torsionDir p1.x p1.y p1.z p2.x p2.y p2.z p3.x p3.y p3.z p4.x p4.y p4.z
  then Src.torsionPos T.acos T.deg T.sqrt p1.x p1.y p1.z p2.x p2.y p2.z p3.x p3.y p3.z p4.x p4.y p4.z
  else Src.torsionNeg T.acos T.deg T.sqrt p1.x p1.y p1.z p2.x p2.y p2.z p3.x p3.y p3.z p4.x p4.y p4.z

/-- **src_torsion**: `Atoms.torsion_angle` of the working tree, as traced, is `torsionModel` on every quadruple whose
    `acos` argument lies strictly inside `(-1, 1)` (every non-planar, non-degenerate one: `torsion_cos_range`) -/
theorem src_torsion (T : Trans ℝ) (hdeg : ∀ x, T.deg (-x) = -T.deg x) (p1 p2 p3 p4 : V3 ℝ)
    (h1 : -1 < torsionCos T p1 p2 p3 p4) (h2 : torsionCos T p1 p2 p3 p4 < 1) :
    srcTorsion T p1 p2 p3 p4 = torsionModel T p1 p2 p3 p4 := by
  simp only [srcTorsion, torsionModel, src_torsionDir, src_torsionPos, src_torsionNeg T hdeg, clamp_id _ h1.le h2.le]

/-- hence the model's `direction` is the source's expression -/
theorem direction_eq_src {K : Type} [Field K] (p1 p2 p3 p4 : V3 K) :
    direction p1 p2 p3 p4 = Src.torsionDir p1.x p1.y p1.z p2.x p2.y p2.z p3.x p3.y p3.z p4.x p4.y p4.z :=
  (src_torsionDir p1 p2 p3 p4).symm

end Shelx.C15

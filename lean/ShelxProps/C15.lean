/-
  C15 — property theorems (model and specification: ShelxModel/C15.lean).

  Algebraic statements are proved over an arbitrary field `K` (so in particular over ℝ and ℚ), the ones that need
  an order over ℝ.  `sqrt`, `acos`, `degrees`, `round(., 9)` are arbitrary functions `T : Trans K`; wherever a
  theorem needs one of their defining relations it is an explicit hypothesis (DESIGN 2.1/5).  Theorems without such a
  hypothesis hold for *every* choice of these functions, in particular for the floating point ones up to the
  rounding of `+ - * /`.
-/
import ShelxModel.C15
import Mathlib.Tactic.Ring
import Mathlib.Tactic.Linarith
import Mathlib.Tactic.FieldSimp
import Mathlib.Tactic.LinearCombination
import Mathlib.Tactic.NormNum
import Mathlib.Data.Real.Basic

namespace Shelx.C15

/-! ### rigid motions -/

structure M3 (K : Type) where
  a11 : K
  a12 : K
  a13 : K
  a21 : K
  a22 : K
  a23 : K
  a31 : K
  a32 : K
  a33 : K

section algebra
variable {K : Type} [Field K]

def M3.apply (R : M3 K) (v : V3 K) : V3 K :=
  ⟨R.a11 * v.x + R.a12 * v.y + R.a13 * v.z, R.a21 * v.x + R.a22 * v.y + R.a23 * v.z, R.a31 * v.x + R.a32 * v.y + R.a33 * v.z⟩

def M3.det (R : M3 K) : K :=
  R.a11 * (R.a22 * R.a33 - R.a23 * R.a32) - R.a12 * (R.a21 * R.a33 - R.a23 * R.a31) + R.a13 * (R.a21 * R.a32 - R.a22 * R.a31)

/-- `Rᵀ R = 1` -/
structure IsOrtho (R : M3 K) : Prop where
  h11 : R.a11 * R.a11 + R.a21 * R.a21 + R.a31 * R.a31 = 1
  h22 : R.a12 * R.a12 + R.a22 * R.a22 + R.a32 * R.a32 = 1
  h33 : R.a13 * R.a13 + R.a23 * R.a23 + R.a33 * R.a33 = 1
  h12 : R.a11 * R.a12 + R.a21 * R.a22 + R.a31 * R.a32 = 0
  h13 : R.a11 * R.a13 + R.a21 * R.a23 + R.a31 * R.a33 = 0
  h23 : R.a12 * R.a13 + R.a22 * R.a23 + R.a32 * R.a33 = 0

/-- the motion `p ↦ R p + t` -/
def rigid (R : M3 K) (t p : V3 K) : V3 K :=
  ⟨(R.apply p).x + t.x, (R.apply p).y + t.y, (R.apply p).z + t.z⟩

theorem sub_rigid (R : M3 K) (t p q : V3 K) : (rigid R t p).sub (rigid R t q) = R.apply (p.sub q) := by
  simp only [rigid, V3.sub, M3.apply, V3.mk.injEq]
  refine ⟨by ring, by ring, by ring⟩

/-! ### the sign expression is the triple product -/

/-- **direction_eq_triple**: the hand-expanded polynomial of `torsion_angle` (as repaired) is `v1 · (v2 × v3)` -/
theorem direction_eq_triple (v1 v2 v3 : V3 K) : directionCode v1 v2 v3 = triple v1 v2 v3 := by
  simp only [directionCode, triple]; ring

/-- the expression with the typo term `v1[2]*v1[1]*v3[0]` is *not* the triple product: on
    `v1 = (0,1,2), v2 = (0,0,1), v3 = (1,0,0)` it is `-1` where the triple product is `+1`
    (atoms at (0,-1,-2), (0,0,0), (0,0,1), (1,0,1): a torsion angle of +90° was reported as -90°) -/
theorem direction_typo_ne_triple :
    ¬ ∀ v1 v2 v3 : V3 ℚ, directionTypo v1 v2 v3 = triple v1 v2 v3 := by
  intro h
  have := h ⟨0, 1, 2⟩ ⟨0, 0, 1⟩ ⟨1, 0, 0⟩
  simp only [directionTypo, triple] at this
  norm_num at this

theorem direction_typo_wrong_sign :
    directionTypo (⟨0, 1, 2⟩ : V3 ℚ) ⟨0, 0, 1⟩ ⟨1, 0, 0⟩ < 0 ∧ 0 < triple (⟨0, 1, 2⟩ : V3 ℚ) ⟨0, 0, 1⟩ ⟨1, 0, 0⟩ := by
  simp only [directionTypo, triple]; norm_num

theorem direction_eq (p1 p2 p3 p4 : V3 K) :
    direction p1 p2 p3 p4 = triple (p2.sub p1) (p3.sub p2) (p4.sub p3) := direction_eq_triple _ _ _

/-! ### products under orthogonal maps -/

/-- **cross_dot_cross** (Binet–Cauchy): `(a × b) · (c × d) = (a·c)(b·d) − (a·d)(b·c)` -/
theorem cross_dot_cross (a b c d : V3 K) :
    sdot (a.cross b) (c.cross d) = sdot a c * sdot b d - sdot a d * sdot b c := by
  simp only [sdot, V3.cross]; ring

/-- **dot_rot**: `RᵀR = 1 → (R a) · (R b) = a · b` -/
theorem dot_rot (R : M3 K) (h : IsOrtho R) (a b : V3 K) : sdot (R.apply a) (R.apply b) = sdot a b := by
  obtain ⟨h11, h22, h33, h12, h13, h23⟩ := h
  simp only [sdot, M3.apply]
  linear_combination (a.x * b.x) * h11 + (a.y * b.y) * h22 + (a.z * b.z) * h33 + (a.x * b.y + a.y * b.x) * h12
    + (a.x * b.z + a.z * b.x) * h13 + (a.y * b.z + a.z * b.y) * h23

/-- **triple_rot**: `[R a, R b, R c] = det R · [a, b, c]` (any matrix) -/
theorem triple_rot (R : M3 K) (a b c : V3 K) :
    triple (R.apply a) (R.apply b) (R.apply c) = R.det * triple a b c := by
  simp only [triple, M3.apply, M3.det]; ring


/-! ### what `angle` and `torsion_angle` compute, written with dot products of the bond vectors -/

theorem sdot_comm (a b : V3 K) : sdot a b = sdot b a := by simp only [sdot]; ring

theorem dot_eq_sdot (a b : V3 K) : a.dot b = sdot a b := by simp only [V3.dot, sdot]; ring

theorem normSq_eq_sdot (a : V3 K) : a.normSq = sdot a a := by simp only [V3.normSq, sdot]; ring

/-- numerator of cos φ from the bond vectors -/
def tNum (v1 v2 v3 : V3 K) : K := sdot v1 v2 * sdot v2 v3 - sdot v1 v3 * sdot v2 v2

/-- `|v × w|²` (Lagrange) -/
def nSq (v w : V3 K) : K := sdot v v * sdot w w - sdot v w * sdot v w

theorem sq3_cross (v w : V3 K) : sq3 (v.cross w) = nSq v w := by
  show sdot (v.cross w) (v.cross w) = _
  rw [cross_dot_cross, sdot_comm w v]; rfl

theorem torsionNum_eq (p1 p2 p3 p4 : V3 K) :
    torsionNum p1 p2 p3 p4 = tNum (p2.sub p1) (p3.sub p2) (p4.sub p3) := by
  show sdot ((p2.sub p1).cross (p3.sub p2)) ((p3.sub p2).cross (p4.sub p3)) = _
  rw [cross_dot_cross]; rfl

/-- **cos_torsion_eq**: the `acos` argument of `torsion_angle` is `(n1·n2)/(|n1||n2|)`, a function of the six dot
    products of the bond vectors only -/
theorem torsionCos_dots (T : Trans K) (p1 p2 p3 p4 : V3 K) :
    torsionCos T p1 p2 p3 p4 = tNum (p2.sub p1) (p3.sub p2) (p4.sub p3)
      / (T.sqrt (nSq (p2.sub p1) (p3.sub p2)) * T.sqrt (nSq (p3.sub p2) (p4.sub p3))) := by
  show torsionNum p1 p2 p3 p4 / (T.sqrt (sq3 ((p2.sub p1).cross (p3.sub p2))) * T.sqrt (sq3 ((p3.sub p2).cross (p4.sub p3)))) = _
  rw [torsionNum_eq, sq3_cross, sq3_cross]

theorem vecCos_dots (T : Trans K) (v w : V3 K) :
    vecCos T v w = sdot v w / (T.sqrt (sdot v v) * T.sqrt (sdot w w)) := by
  simp only [vecCos, dot_eq_sdot, normSq_eq_sdot]

theorem tNum_rot (R : M3 K) (h : IsOrtho R) (v1 v2 v3 : V3 K) :
    tNum (R.apply v1) (R.apply v2) (R.apply v3) = tNum v1 v2 v3 := by
  simp only [tNum, dot_rot R h]

theorem nSq_rot (R : M3 K) (h : IsOrtho R) (v w : V3 K) : nSq (R.apply v) (R.apply w) = nSq v w := by
  simp only [nSq, dot_rot R h]

/-- the cosine is the same after any isometry `p ↦ R p + t`, `RᵀR = 1` (proper or not) -/
theorem torsionCos_rigid (T : Trans K) (R : M3 K) (t : V3 K) (h : IsOrtho R) (p1 p2 p3 p4 : V3 K) :
    torsionCos T (rigid R t p1) (rigid R t p2) (rigid R t p3) (rigid R t p4) = torsionCos T p1 p2 p3 p4 := by
  simp only [torsionCos_dots, sub_rigid, tNum_rot R h, nSq_rot R h]

/-- the sign expression is multiplied by `det R` -/
theorem direction_rigid (R : M3 K) (t : V3 K) (p1 p2 p3 p4 : V3 K) :
    direction (rigid R t p1) (rigid R t p2) (rigid R t p3) (rigid R t p4) = R.det * direction p1 p2 p3 p4 := by
  simp only [direction_eq, sub_rigid, triple_rot]

section order
variable [LT K] [∀ a b : K, Decidable (a < b)]

/-- **torsion_rigid**: the torsion angle is the same after a proper rigid motion (rotation `R`, `det R = 1`,
    and translation `t`) of all four atoms — for every `sqrt`, `acos`, `degrees` -/
theorem torsion_rigid (T : Trans K) (R : M3 K) (t : V3 K) (h : IsOrtho R) (hdet : R.det = 1) (p1 p2 p3 p4 : V3 K) :
    torsionModel T (rigid R t p1) (rigid R t p2) (rigid R t p3) (rigid R t p4) = torsionModel T p1 p2 p3 p4 := by
  simp only [torsionModel, torsionCos_rigid T R t h, direction_rigid, hdet, one_mul]

/-- **torsion_reverse**: D–C–B–A has the torsion angle of A–B–C–D — for every `sqrt`, `acos`, `degrees` -/
theorem torsion_reverse (T : Trans K) (p1 p2 p3 p4 : V3 K) :
    torsionModel T p4 p3 p2 p1 = torsionModel T p1 p2 p3 p4 := by
  have hc : torsionCos T p4 p3 p2 p1 = torsionCos T p1 p2 p3 p4 := by
    have e1 : tNum (p3.sub p4) (p2.sub p3) (p1.sub p2) = tNum (p2.sub p1) (p3.sub p2) (p4.sub p3) := by
      simp only [tNum, sdot, V3.sub]; ring
    have e2 : nSq (p3.sub p4) (p2.sub p3) = nSq (p3.sub p2) (p4.sub p3) := by
      simp only [nSq, sdot, V3.sub]; ring
    have e3 : nSq (p2.sub p3) (p1.sub p2) = nSq (p2.sub p1) (p3.sub p2) := by
      simp only [nSq, sdot, V3.sub]; ring
    rw [torsionCos_dots, torsionCos_dots, e1, e2, e3, mul_comm]
  have hd : direction p4 p3 p2 p1 = direction p1 p2 p3 p4 := by
    simp only [direction, directionCode, V3.sub]; ring
  simp only [torsionModel, hc, hd]

end order

/-! ### the bond angle -/

/-- **angle_symm**: the angle is symmetric in its end atoms — for every `sqrt`, `acos`, `degrees`, `round` -/
theorem angle_symm (T : Trans K) (p1 p2 p3 : V3 K) : angleModel T p1 p2 p3 = angleModel T p3 p2 p1 := by
  simp only [angleModel, vecAngle, vecCos_dots, sdot_comm (p2.sub p1) (p2.sub p3),
    mul_comm (T.sqrt (sdot (p2.sub p1) (p2.sub p1)))]

/-- **angle_rigid**: the angle is the same after any isometry of all three atoms -/
theorem angle_rigid (T : Trans K) (R : M3 K) (t : V3 K) (h : IsOrtho R) (p1 p2 p3 : V3 K) :
    angleModel T (rigid R t p1) (rigid R t p2) (rigid R t p3) = angleModel T p1 p2 p3 := by
  simp only [angleModel, vecAngle, vecCos_dots, sub_rigid, dot_rot R h]

end algebra
end Shelx.C15

/-
  C20 — helper lemmas about the heap model of the caller's objects (`Heap`, `alloc`, in-place `rotmol`): what one
  allocation and one in-place rotation do to the rows that existed, and to the rows just made.
-/
import ShelxModel.C20
import Mathlib.Tactic.Linarith
namespace Shelx.C20

section heap
variable {K : Type}

theorem alloc_next (h : Heap K) (ps : List (P3 K)) : (h.alloc ps).1.next = h.next + ps.length := rfl
theorem alloc_addrs (h : Heap K) (ps : List (P3 K)) : (h.alloc ps).2 = List.range' h.next ps.length := rfl

theorem alloc_cell_lt (h : Heap K) (ps : List (P3 K)) (a : Nat) (ha : a < h.next) : (h.alloc ps).1.cell a = h.cell a := by
  simp only [Heap.alloc]
  rw [if_neg (by omega)]

theorem alloc_cell_new (h : Heap K) (ps : List (P3 K)) (i : Nat) (hi : i < ps.length) :
    (h.alloc ps).1.cell (h.next + i) = ps[i] := by
  simp only [Heap.alloc]
  rw [if_pos (by omega)]
  simp [hi]

/-- the new list holds the numbers it was made of -/
theorem alloc_read_new (h : Heap K) (ps : List (P3 K)) : (h.alloc ps).1.read (h.alloc ps).2 = ps := by
  apply List.ext_getElem
  · simp [Heap.read, Heap.alloc]
  · intro i h1 h2
    simp only [Heap.read, alloc_addrs, List.getElem_map, List.getElem_range', Nat.one_mul]
    exact alloc_cell_new h ps i h2

theorem read_congr (h h' : Heap K) (l : List Nat) (hl : ∀ a ∈ l, h'.cell a = h.cell a) : h'.read l = h.read l := by
  simp only [Heap.read]
  exact List.map_congr_left hl

theorem write_next (h : Heap K) (a : Nat) (p : P3 K) : (h.write a p).next = h.next := rfl

section rot
variable [Add K] [Mul K]

theorem rotmol_next (h : Heap K) (l : List Nat) (u : M3 K) : (h.rotmol l u).next = h.next := by
  unfold Heap.rotmol
  induction l generalizing h with
  | nil => rfl
  | cons a t ih => simp only [List.foldl_cons]; rw [ih]; rfl

/-- rows that are not in the list keep their numbers -/
theorem rotmol_cell_notin (h : Heap K) (l : List Nat) (u : M3 K) (a : Nat) (ha : a ∉ l) : (h.rotmol l u).cell a = h.cell a := by
  unfold Heap.rotmol
  induction l generalizing h with
  | nil => rfl
  | cons x t ih =>
    simp only [List.foldl_cons]
    rw [ih _ (fun hm => ha (List.mem_cons_of_mem _ hm))]
    simp only [Heap.write]
    rw [if_neg (fun (e : a = x) => ha (e ▸ List.mem_cons_self ..))]

/-- a row that occurs once in the list is turned once -/
theorem rotmol_cell_in (h : Heap K) (l : List Nat) (u : M3 K) (hnd : l.Nodup) (a : Nat) (ha : a ∈ l) :
    (h.rotmol l u).cell a = rotPoint u (h.cell a) := by
  unfold Heap.rotmol
  induction l generalizing h with
  | nil => simp at ha
  | cons x t ih =>
    simp only [List.foldl_cons]
    have hnd' := List.nodup_cons.mp hnd
    rcases List.mem_cons.mp ha with rfl | hm
    · have := rotmol_cell_notin (h.write a (rotPoint u (h.cell a))) t u a hnd'.1
      unfold Heap.rotmol at this
      rw [this]; simp [Heap.write]
    · rw [ih _ hnd'.2 hm]
      simp only [Heap.write]
      rw [if_neg (fun (e : a = x) => hnd'.1 (e ▸ hm))]

/-- on a list of distinct rows the in-place loop computes what the pure `rotmol` computes -/
theorem rotmol_read (h : Heap K) (l : List Nat) (u : M3 K) (hnd : l.Nodup) :
    (h.rotmol l u).read l = rotmol (h.read l) u := by
  simp only [Heap.read, rotmol, List.map_map]
  apply List.map_congr_left
  intro a ha
  exact rotmol_cell_in h l u hnd a ha

end rot



def Below (l : List Nat) (n : Nat) : Prop := ∀ a ∈ l, a < n

theorem below_mono {l : List Nat} {n m : Nat} (h : Below l n) (hnm : n ≤ m) : Below l m := fun a ha => Nat.lt_of_lt_of_le (h a ha) hnm

theorem below_range' (n m : Nat) : Below (List.range' n m) (n + m) := by
  intro a ha
  have := List.mem_range'_1.mp ha
  omega

theorem read_alloc_below (h : Heap K) (ps : List (P3 K)) (l : List Nat) (hl : Below l h.next) :
    (h.alloc ps).1.read l = h.read l :=
  read_congr _ _ _ (fun a ha => alloc_cell_lt h ps a (hl a ha))

section rot2
variable [Add K] [Mul K]

theorem read_rotmol_disjoint (h : Heap K) (l l' : List Nat) (u : M3 K) (hd : ∀ a ∈ l, a ∉ l') :
    (h.rotmol l' u).read l = h.read l :=
  read_congr _ _ _ (fun a ha => rotmol_cell_notin h l' u a (hd a ha))

end rot2

section main
variable [Add K] [Sub K] [Mul K] [Div K] [Neg K] [OfNat K 0] [OfNat K 1] [OfNat K 2]

omit [Add K] [Sub K] [Mul K] [Div K] [Neg K] [OfNat K 0] [OfNat K 1] [OfNat K 2] in
/-- everything the proofs below use about one allocation -/
theorem alloc_spec (h h1 : Heap K) (ps : List (P3 K)) (l1 : List Nat) (e : h.alloc ps = (h1, l1)) :
    h1.next = h.next + ps.length ∧ Below l1 h1.next ∧ (∀ a ∈ l1, h.next ≤ a) ∧ l1.Nodup ∧ h1.read l1 = ps ∧
    (∀ l, Below l h.next → h1.read l = h.read l) ∧ (∀ a, a < h.next → h1.cell a = h.cell a) := by
  have e1 : h1 = (h.alloc ps).1 := by rw [e]
  have e2 : l1 = (h.alloc ps).2 := by rw [e]
  subst e1 e2
  refine ⟨rfl, ?_, ?_, ?_, alloc_read_new h ps, fun l hl => read_alloc_below h ps l hl, fun a ha => alloc_cell_lt h ps a ha⟩
  · exact below_range' _ _
  · intro a ha; exact (List.mem_range'_1.mp ha).1
  · exact List.nodup_range' ..

/-- `h'` extends `h`: the rows that existed keep their numbers -/
def Ext (h h' : Heap K) : Prop := h.next ≤ h'.next ∧ ∀ a, a < h.next → h'.cell a = h.cell a

omit [Add K] [Sub K] [Mul K] [Div K] [Neg K] [OfNat K 0] [OfNat K 1] [OfNat K 2] in
theorem ext_refl (h : Heap K) : Ext h h := ⟨Nat.le_refl _, fun _ _ => rfl⟩

omit [Add K] [Sub K] [Mul K] [Div K] [Neg K] [OfNat K 0] [OfNat K 1] [OfNat K 2] in
theorem ext_alloc (h0 h h1 : Heap K) (ps : List (P3 K)) (l1 : List Nat) (e : h.alloc ps = (h1, l1)) (hx : Ext h0 h) : Ext h0 h1 := by
  obtain ⟨n1, -, -, -, -, -, c1⟩ := alloc_spec _ _ _ _ e
  exact ⟨by have := hx.1; omega, fun a ha => by rw [c1 a (by have := hx.1; omega), hx.2 a ha]⟩

omit [Sub K] [Div K] [Neg K] [OfNat K 0] [OfNat K 1] [OfNat K 2] in
theorem ext_rotmol (h0 h : Heap K) (l : List Nat) (u : M3 K) (hl : ∀ a ∈ l, h0.next ≤ a) (hx : Ext h0 h) : Ext h0 (h.rotmol l u) :=
  ⟨by rw [rotmol_next]; exact hx.1, fun a ha => by
    rw [rotmol_cell_notin h l u a (fun hm => by have := hl a hm; omega), hx.2 a ha]⟩

end main
end heap
end Shelx.C20

/-
  C11 — helper development: arithmetic modulo ℤ³, soundness of the executable checkers of ShelxModel/C11Core.lean,
  and the kernel checks over the tabulated settings (spec side only: nothing here depends on the table
  regenerated from cards.py).
-/
import ShelxModel.C11Core
import ShelxModel.C11Table
import Mathlib.Tactic.Ring
import Mathlib.Tactic.Linarith
import Mathlib.Tactic.Push
import Mathlib.Tactic.FieldSimp

namespace Shelx.C11
open List

/-! ### fractional parts -/

theorem floor_add_int (x : Rat) (n : Int) : (x + n).floor = x.floor + n := by
  apply Int.le_antisymm
  · have : (x + n).floor < x.floor + n + 1 := by
      rw [Rat.floor_lt_iff]; have := Rat.lt_floor_add_one x; push_cast at this ⊢; linarith
    omega
  · rw [Rat.le_floor_iff]; push_cast; have := Rat.floor_le x; linarith

theorem fract_add_int (x : Rat) (n : Int) : fract (x + n) = fract x := by
  unfold fract; rw [floor_add_int]; push_cast; ring

theorem exists_int_of_fract_eq {x y : Rat} (h : fract x = fract y) : ∃ k : Int, x = y + k :=
  ⟨x.floor - y.floor, by unfold fract at h; push_cast; linarith⟩

theorem fract_eq_of_eq_add_int {x y : Rat} (k : Int) (h : x = y + k) : fract x = fract y := by
  rw [h, fract_add_int]

/-- composition is compatible with equality modulo ℤ³ (the matrices are integral) -/
theorem cls_comp_congr {a a' b b' : Op} (ha : cls a = cls a') (hb : cls b = cls b') :
    cls (comp a b) = cls (comp a' b') := by
  obtain ⟨ma, ⟨ax, ay, az⟩⟩ := a
  obtain ⟨ma', ⟨ax', ay', az'⟩⟩ := a'
  obtain ⟨mb, ⟨bx, b_y, bz⟩⟩ := b
  obtain ⟨mb', ⟨bx', by', bz'⟩⟩ := b'
  simp only [cls, fractV, Op.mk.injEq, Vec.mk.injEq] at ha hb
  obtain ⟨rfl, hax, hay, haz⟩ := ha
  obtain ⟨rfl, hbx, hby, hbz⟩ := hb
  obtain ⟨kax, rfl⟩ := exists_int_of_fract_eq hax
  obtain ⟨kay, rfl⟩ := exists_int_of_fract_eq hay
  obtain ⟨kaz, rfl⟩ := exists_int_of_fract_eq haz
  obtain ⟨kbx, rfl⟩ := exists_int_of_fract_eq hbx
  obtain ⟨kby, rfl⟩ := exists_int_of_fract_eq hby
  obtain ⟨kbz, rfl⟩ := exists_int_of_fract_eq hbz
  simp only [cls, comp, fractV, Mat.mulVec, Vec.add, Op.mk.injEq, Vec.mk.injEq, true_and]
  refine ⟨?_, ?_, ?_⟩
  · exact fract_eq_of_eq_add_int (ma.a11 * kbx + ma.a12 * kby + ma.a13 * kbz + kax) (by push_cast; ring)
  · exact fract_eq_of_eq_add_int (ma.a21 * kbx + ma.a22 * kby + ma.a23 * kbz + kay) (by push_cast; ring)
  · exact fract_eq_of_eq_add_int (ma.a31 * kbx + ma.a32 * kby + ma.a33 * kbz + kaz) (by push_cast; ring)

theorem comp_assoc (a b c : Op) : comp (comp a b) c = comp a (comp b c) := by
  obtain ⟨⟨a11, a12, a13, a21, a22, a23, a31, a32, a33⟩, ⟨ax, ay, az⟩⟩ := a
  obtain ⟨⟨b11, b12, b13, b21, b22, b23, b31, b32, b33⟩, ⟨bx, b_y, bz⟩⟩ := b
  obtain ⟨⟨c11, c12, c13, c21, c22, c23, c31, c32, c33⟩, ⟨cx, cy, cz⟩⟩ := c
  simp only [comp, Mat.mul, Mat.mulVec, Vec.add, Op.mk.injEq, Mat.mk.injEq, Vec.mk.injEq]
  refine ⟨⟨?_, ?_, ?_, ?_, ?_, ?_, ?_, ?_, ?_⟩, ?_, ?_, ?_⟩ <;> (try push_cast) <;> ring

theorem comp_ident (b : Op) : comp ident b = b := by
  obtain ⟨⟨b11, b12, b13, b21, b22, b23, b31, b32, b33⟩, ⟨bx, b_y, bz⟩⟩ := b
  simp [comp, ident, Mat.mul, Mat.mulVec, Mat.one, Vec.add, Vec.zero]

/-! ### the forcing combinators are identities -/

theorem strict_eq {β : Type} (n : Nat) (f : Nat → β) : strict n f = f n := by cases n <;> rfl

theorem strictInt_eq {β : Type} (i : Int) (f : Int → β) : strictInt i f = f i := by
  cases i <;> simp [strictInt, strict_eq]

theorem forceS_eq {β : Type} (s : SOp) (k : SOp → β) : forceS s k = k s := by
  obtain ⟨⟨a11, a12, a13, a21, a22, a23, a31, a32, a33⟩, x, y, z⟩ := s
  simp [forceS, strictInt_eq]

theorem withS_eq {β : Type} (l : List SOp) (k : List (Nat × SOp) → β) :
    withS l k = k (l.map fun s => (hashS s, s)) := by
  induction l generalizing k with
  | nil => rfl
  | cons s l ih => simp [withS, forceS_eq, strict_eq, ih]

theorem withKeys_eq {β : Type} (G : List Op) (k : List (Nat × Op) → β) :
    withKeys G k = k (G.map fun o => (hashOp (cls o), cls o)) := by
  induction G generalizing k with
  | nil => rfl
  | cons o l ih => simp [withKeys, strict_eq, ih]

theorem memS_sound (K : List (Nat × SOp)) (h : Nat) (p : SOp) (hm : memS K h p = true) : p ∈ K.map (·.2) := by
  simp only [memS, List.any_eq_true, Bool.and_eq_true, decide_eq_true_eq] at hm
  obtain ⟨e, he, _, rfl⟩ := hm
  exact List.mem_map_of_mem he

theorem memK_keys (l : List Op) (p : Op) :
    memK (l.map fun o => (hashOp o, o)) (hashOp p) p = true ↔ p ∈ l := by
  simp only [memK, List.any_eq_true, Bool.and_eq_true, decide_eq_true_eq, List.mem_map]
  constructor
  · rintro ⟨e, ⟨o, ho, rfl⟩, _, rfl⟩; exact ho
  · intro hp; exact ⟨_, ⟨p, hp, rfl⟩, by simp, rfl⟩

theorem nodupK_sound (l : List Op) (h : nodupK (l.map fun o => (hashOp o, o)) = true) : l.Nodup := by
  induction l with
  | nil => exact List.nodup_nil
  | cons a l ih =>
    simp only [List.map_cons, nodupK, Bool.and_eq_true, Bool.not_eq_true'] at h
    refine List.nodup_cons.mpr ⟨?_, ih h.2⟩
    intro ha
    have := (memK_keys l a).mpr ha
    rw [this] at h
    exact absurd h.1 (by simp)

theorem nodupB_sound (G : List Op) (h : nodupB G = true) : (G.map cls).Nodup := by
  unfold nodupB at h
  rw [withKeys_eq] at h
  have : (G.map fun o => (hashOp (cls o), cls o)) = (G.map cls).map fun o => (hashOp o, o) := by simp
  rw [this] at h
  exact nodupK_sound _ h

/-! ### numerators over a common denominator -/

theorem comp_ofS (D : Nat) (a b : SOp) : comp (ofS D a) (ofS D b) = ofS D (compS a b) := by
  obtain ⟨⟨a11, a12, a13, a21, a22, a23, a31, a32, a33⟩, ax, ay, az⟩ := a
  obtain ⟨mb, bx, b_y, bz⟩ := b
  simp only [comp, ofS, compS, Mat.mulVec, Vec.add, Op.mk.injEq, Vec.mk.injEq, true_and]
  refine ⟨?_, ?_, ?_⟩ <;> push_cast <;> ring

theorem fract_emod (D : Nat) (hD : 0 < D) (n : Int) : fract (((n % (D : Int) : Int) : Rat) / D) = fract ((n : Rat) / D) := by
  have hD' : (D : Rat) ≠ 0 := by exact_mod_cast (Nat.pos_iff_ne_zero.mp hD)
  symm
  apply fract_eq_of_eq_add_int (n / (D : Int))
  have h : n % (D : Int) + (D : Int) * (n / (D : Int)) = n := by
    have := Int.mul_ediv_add_emod n (D : Int); omega
  have h2 : (n : Rat) = ((n % (D : Int) : Int) : Rat) + (D : Rat) * ((n / (D : Int) : Int) : Rat) := by
    exact_mod_cast h.symm
  field_simp
  linarith

theorem cls_ofS_normS (D : Nat) (hD : 0 < D) (s : SOp) : cls (ofS D (normS D s)) = cls (ofS D s) := by
  obtain ⟨m, x, y, z⟩ := s
  simp only [cls, ofS, normS, fractV, Op.mk.injEq, Vec.mk.injEq, true_and]
  exact ⟨fract_emod D hD x, fract_emod D hD y, fract_emod D hD z⟩

/-- left closure under the generators, modulo ℤ³ -/
def LeftClosed (gens G : List Op) : Prop := ∀ g ∈ gens, ∀ b ∈ G, cls (comp g b) ∈ G.map cls

theorem leftClosedSB_sound (D : Nat) (gens G : List Op) (h : leftClosedSB D gens G = true) : LeftClosed gens G := by
  unfold leftClosedSB at h
  simp only [withS_eq, forceS_eq, strict_eq, Bool.and_eq_true, decide_eq_true_eq, List.all_eq_true, List.mem_map,
    forall_exists_index, and_imp] at h
  obtain ⟨⟨⟨hD, hg⟩, hb⟩, hc⟩ := h
  intro g hgm b hbm
  have key := hc _ (toS D g) g hgm rfl rfl _ (normS D (toS D b)) b hbm rfl rfl
  have hmem := memS_sound _ _ _ key
  simp only [List.map_map, List.mem_map, Function.comp] at hmem
  obtain ⟨b2, hb2, e⟩ := hmem
  refine List.mem_map.mpr ⟨b2, hb2, ?_⟩
  -- cls b2 = cls (ofS (normS (toS b2))) = cls (ofS (normS (compS gs bs))) = cls (comp g b)
  have e1 : cls b2 = cls (ofS D (normS D (toS D b2))) := by rw [cls_ofS_normS D hD, hb b2 hb2]
  have e2 : cls (comp g b) = cls (comp (ofS D (toS D g)) (ofS D (normS D (toS D b)))) := by
    apply cls_comp_congr
    · rw [hg g hgm]
    · rw [cls_ofS_normS D hD, hb b hbm]
  rw [e1, e2, comp_ofS, ← cls_ofS_normS D hD (compS _ _)]
  exact congrArg (fun s => cls (ofS D s)) e

/-! ### from closure under the generators to closure of the whole list -/

/-- left multiplication by `g` maps `G` into itself modulo ℤ³ -/
def LeftOK (G : List Op) (g : Op) : Prop := ∀ b ∈ G, ∃ b' ∈ G, cls (comp g b) = cls b'

theorem leftOK_ident (G : List Op) : LeftOK G ident := fun b hb => ⟨b, hb, by rw [comp_ident]⟩

theorem leftOK_of_leftClosed {gens G : List Op} (h : LeftClosed gens G) {g : Op} (hg : g ∈ gens) : LeftOK G g := by
  intro b hb
  obtain ⟨b', hb', e⟩ := List.mem_map.mp (h g hg b hb)
  exact ⟨b', hb', e.symm⟩

theorem leftOK_comp {G : List Op} {g h : Op} (hg : LeftOK G g) (hh : LeftOK G h) : LeftOK G (comp g h) := by
  intro b hb
  obtain ⟨b1, hb1, e1⟩ := hh b hb
  obtain ⟨b2, hb2, e2⟩ := hg b1 hb1
  refine ⟨b2, hb2, ?_⟩
  rw [comp_assoc, ← e2]
  exact cls_comp_congr rfl e1

/-- the spec list is closed as soon as it is closed under its generators: each member is a product of them -/
theorem closed_fullGroup (N : Int) (S : List Op) (h : LeftClosed (gensOf N S) (fullGroup N S)) :
    Closed (fullGroup N S) := by
  intro a ha b hb
  have hok : LeftOK (fullGroup N S) a := by
    simp only [fullGroup, fullGroupWith, List.mem_flatMap, List.mem_map] at ha
    obtain ⟨s, hs, c, hc, i, hi, rfl⟩ := ha
    have hs' : LeftOK (fullGroup N S) s := by
      rcases List.mem_cons.mp hs with rfl | hs
      · exact leftOK_ident _
      · exact leftOK_of_leftClosed h (by simp [gensOf, hs])
    have hi' : LeftOK (fullGroup N S) i := by
      unfold signs at hi
      split at hi
      · rename_i hcen
        rcases List.mem_cons.mp hi with rfl | hi
        · exact leftOK_ident _
        · have : i = inversion := by simpa using hi
          subst this
          exact leftOK_of_leftClosed h (by simp [gensOf, hcen])
      · have : i = ident := by simpa using hi
        subst this
        exact leftOK_ident _
    have hc' : LeftOK (fullGroup N S) (transl c) := by
      rcases List.mem_cons.mp hc with rfl | hc
      · exact leftOK_ident _
      · exact leftOK_of_leftClosed h (by simp only [gensOf, List.mem_append, List.mem_map]; exact Or.inl (Or.inr ⟨c, hc, rfl⟩))
    exact leftOK_comp hc' (leftOK_comp hi' hs')
  obtain ⟨b', hb', e⟩ := hok b hb
  exact List.mem_map.mpr ⟨b', hb', e.symm⟩

/-- closure is a property of the multiset of classes -/
theorem closed_of_perm {L G : List Op} (hp : L.map cls ~ G.map cls) (hG : Closed G) : Closed L := by
  intro a ha b hb
  obtain ⟨a', ha', ea⟩ := List.mem_map.mp (hp.subset (List.mem_map_of_mem ha))
  obtain ⟨b', hb', eb⟩ := List.mem_map.mp (hp.subset (List.mem_map_of_mem hb))
  have := hG a' ha' b' hb'
  rw [cls_comp_congr ea eb] at this
  exact hp.symm.subset this

/-! ### the tabulated settings, spec side (kernel evaluation) -/

/-- valid setting, spec list closed under its generators (numerators over 24), and as many operators as
    International Tables A list for the group -/
def specOK (e : Setting) : Bool :=
  validB e.N e.S && leftClosedSB 24 (gensOf e.N e.S) (fullGroup e.N e.S) && ((fullGroup e.N e.S).length == e.order)

set_option maxRecDepth 100000 in
theorem settings_specOK_upto96 : (settings.filter fun e => decide (e.order ≤ 96)).all specOK = true := by decide +kernel

set_option maxRecDepth 100000 in
theorem settings_specOK_192 : (settings.filter fun e => decide (96 < e.order)).all specOK = true := by decide +kernel

theorem settings_specOK : ∀ e ∈ settings, specOK e = true := by
  intro e he
  by_cases h : e.order ≤ 96
  · exact List.all_eq_true.mp settings_specOK_upto96 e (List.mem_filter.mpr ⟨he, by simpa using h⟩)
  · exact List.all_eq_true.mp settings_specOK_192 e (List.mem_filter.mpr ⟨he, by simpa using h⟩)

theorem validB_sound (N : Int) (S : List Op) (h : validB N S = true) : ValidSetting N S := by
  simp only [validB, Bool.and_eq_true, decide_eq_true_eq] at h
  exact ⟨⟨h.1.1, h.1.2⟩, nodupB_sound _ h.2⟩

theorem specOK_sound (e : Setting) (h : specOK e = true) :
    ValidSetting e.N e.S ∧ Closed (fullGroup e.N e.S) ∧ (fullGroup e.N e.S).length = e.order := by
  simp only [specOK, Bool.and_eq_true, beq_iff_eq] at h
  exact ⟨validB_sound _ _ h.1.1, closed_fullGroup _ _ (leftClosedSB_sound _ _ _ h.1.2), h.2⟩

end Shelx.C11

/-
  C11 — helper development: arithmetic modulo ℤ³, soundness of the executable checkers of ShelxModel/C11Core.lean,
  and the kernel checks over the tabulated settings (spec side only: nothing here depends on the table
  regenerated from cards.py). The kernel evaluations themselves are in ShelxProps/Lemmas/C11Tab*.lean, one piece of
  the table (for the two largest groups: one slice of the generators) per file, so that they are checked in parallel;
  `settings_spec` below puts the pieces together for the whole table.
-/
import ShelxModel.C11Core
import ShelxModel.C11Table
import ShelxProps.Lemmas.C11TabA
import ShelxProps.Lemmas.C11TabB
import ShelxProps.Lemmas.C11TabC
import ShelxProps.Lemmas.C11TabD
import ShelxProps.Lemmas.C11TabV
import ShelxProps.Lemmas.C11TabE1
import ShelxProps.Lemmas.C11TabE2
import ShelxProps.Lemmas.C11TabF1
import ShelxProps.Lemmas.C11TabF2
import ShelxProps.Lemmas.C11TabF3
import ShelxProps.Lemmas.C11TabF4
import Mathlib.Tactic.Ring
import Mathlib.Tactic.Linarith
import Mathlib.Tactic.Push
import Mathlib.Tactic.FieldSimp

namespace Shelx.C11
open List

/-! ### fractional parts -/

theorem floor_add_int (x : Rat) (n : Int) : (x + n).floor = x.floor + n := by
  apply Int.le_antisymm
  · have : (x + n).floor < x.floor + n + 1 := by
      rw [Rat.floor_lt_iff]; have := Rat.lt_floor_add_one x; push_cast at this ⊢; linarith
    omega
  · rw [Rat.le_floor_iff]; push_cast; have := Rat.floor_le x; linarith

theorem fract_add_int (x : Rat) (n : Int) : fract (x + n) = fract x := by
  unfold fract; rw [floor_add_int]; push_cast; ring

theorem exists_int_of_fract_eq {x y : Rat} (h : fract x = fract y) : ∃ k : Int, x = y + k :=
  ⟨x.floor - y.floor, by unfold fract at h; push_cast; linarith⟩

theorem fract_eq_of_eq_add_int {x y : Rat} (k : Int) (h : x = y + k) : fract x = fract y := by
  rw [h, fract_add_int]

/-- composition is compatible with equality modulo ℤ³ (the matrices are integral) -/
theorem cls_comp_congr {a a' b b' : Op} (ha : cls a = cls a') (hb : cls b = cls b') :
    cls (comp a b) = cls (comp a' b') := by
  obtain ⟨ma, ⟨ax, ay, az⟩⟩ := a
  obtain ⟨ma', ⟨ax', ay', az'⟩⟩ := a'
  obtain ⟨mb, ⟨bx, b_y, bz⟩⟩ := b
  obtain ⟨mb', ⟨bx', by', bz'⟩⟩ := b'
  simp only [cls, fractV, Op.mk.injEq, Vec.mk.injEq] at ha hb
  obtain ⟨rfl, hax, hay, haz⟩ := ha
  obtain ⟨rfl, hbx, hby, hbz⟩ := hb
  obtain ⟨kax, rfl⟩ := exists_int_of_fract_eq hax
  obtain ⟨kay, rfl⟩ := exists_int_of_fract_eq hay
  obtain ⟨kaz, rfl⟩ := exists_int_of_fract_eq haz
  obtain ⟨kbx, rfl⟩ := exists_int_of_fract_eq hbx
  obtain ⟨kby, rfl⟩ := exists_int_of_fract_eq hby
  obtain ⟨kbz, rfl⟩ := exists_int_of_fract_eq hbz
  simp only [cls, comp, fractV, Mat.mulVec, Vec.add, Op.mk.injEq, Vec.mk.injEq, true_and]
  refine ⟨?_, ?_, ?_⟩
  · exact fract_eq_of_eq_add_int (ma.a11 * kbx + ma.a12 * kby + ma.a13 * kbz + kax) (by push_cast; ring)
  · exact fract_eq_of_eq_add_int (ma.a21 * kbx + ma.a22 * kby + ma.a23 * kbz + kay) (by push_cast; ring)
  · exact fract_eq_of_eq_add_int (ma.a31 * kbx + ma.a32 * kby + ma.a33 * kbz + kaz) (by push_cast; ring)

theorem comp_assoc (a b c : Op) : comp (comp a b) c = comp a (comp b c) := by
  obtain ⟨⟨a11, a12, a13, a21, a22, a23, a31, a32, a33⟩, ⟨ax, ay, az⟩⟩ := a
  obtain ⟨⟨b11, b12, b13, b21, b22, b23, b31, b32, b33⟩, ⟨bx, b_y, bz⟩⟩ := b
  obtain ⟨⟨c11, c12, c13, c21, c22, c23, c31, c32, c33⟩, ⟨cx, cy, cz⟩⟩ := c
  simp only [comp, Mat.mul, Mat.mulVec, Vec.add, Op.mk.injEq, Mat.mk.injEq, Vec.mk.injEq]
  refine ⟨⟨?_, ?_, ?_, ?_, ?_, ?_, ?_, ?_, ?_⟩, ?_, ?_, ?_⟩ <;> (try push_cast) <;> ring

theorem comp_ident (b : Op) : comp ident b = b := by
  obtain ⟨⟨b11, b12, b13, b21, b22, b23, b31, b32, b33⟩, ⟨bx, b_y, bz⟩⟩ := b
  simp [comp, ident, Mat.mul, Mat.mulVec, Mat.one, Vec.add, Vec.zero]

/-! ### the forcing combinators are identities -/

theorem strict_eq {β : Type} (n : Nat) (f : Nat → β) : strict n f = f n := by cases n <;> rfl

theorem strictInt_eq {β : Type} (i : Int) (f : Int → β) : strictInt i f = f i := by
  cases i <;> simp [strictInt, strict_eq]

theorem forceS_eq {β : Type} (s : SOp) (k : SOp → β) : forceS s k = k s := by
  obtain ⟨⟨a11, a12, a13, a21, a22, a23, a31, a32, a33⟩, x, y, z⟩ := s
  simp [forceS, strictInt_eq]

theorem withS_eq {β : Type} (l : List SOp) (k : List (Nat × SOp) → β) :
    withS l k = k (l.map fun s => (hashS s, s)) := by
  induction l generalizing k with
  | nil => rfl
  | cons s l ih => simp [withS, forceS_eq, strict_eq, ih]

theorem withKeys_eq {β : Type} (G : List Op) (k : List (Nat × Op) → β) :
    withKeys G k = k (G.map fun o => (hashOp (cls o), cls o)) := by
  induction G generalizing k with
  | nil => rfl
  | cons o l ih => simp [withKeys, strict_eq, ih]

theorem memS_sound (K : List (Nat × SOp)) (h : Nat) (p : SOp) (hm : memS K h p = true) : p ∈ K.map (·.2) := by
  simp only [memS, List.any_eq_true, Bool.and_eq_true, decide_eq_true_eq] at hm
  obtain ⟨e, he, _, rfl⟩ := hm
  exact List.mem_map_of_mem he

theorem memK_keys (l : List Op) (p : Op) :
    memK (l.map fun o => (hashOp o, o)) (hashOp p) p = true ↔ p ∈ l := by
  simp only [memK, List.any_eq_true, Bool.and_eq_true, decide_eq_true_eq, List.mem_map]
  constructor
  · rintro ⟨e, ⟨o, ho, rfl⟩, _, rfl⟩; exact ho
  · intro hp; exact ⟨_, ⟨p, hp, rfl⟩, by simp, rfl⟩

theorem nodupK_sound (l : List Op) (h : nodupK (l.map fun o => (hashOp o, o)) = true) : l.Nodup := by
  induction l with
  | nil => exact List.nodup_nil
  | cons a l ih =>
    simp only [List.map_cons, nodupK, Bool.and_eq_true, Bool.not_eq_true'] at h
    refine List.nodup_cons.mpr ⟨?_, ih h.2⟩
    intro ha
    have := (memK_keys l a).mpr ha
    rw [this] at h
    exact absurd h.1 (by simp)

theorem nodupB_sound (G : List Op) (h : nodupB G = true) : (G.map cls).Nodup := by
  unfold nodupB at h
  rw [withKeys_eq] at h
  have : (G.map fun o => (hashOp (cls o), cls o)) = (G.map cls).map fun o => (hashOp o, o) := by simp
  rw [this] at h
  exact nodupK_sound _ h

/-! ### numerators over a common denominator -/

theorem comp_ofS (D : Nat) (a b : SOp) : comp (ofS D a) (ofS D b) = ofS D (compS a b) := by
  obtain ⟨⟨a11, a12, a13, a21, a22, a23, a31, a32, a33⟩, ax, ay, az⟩ := a
  obtain ⟨mb, bx, b_y, bz⟩ := b
  simp only [comp, ofS, compS, Mat.mulVec, Vec.add, Op.mk.injEq, Vec.mk.injEq, true_and]
  refine ⟨?_, ?_, ?_⟩ <;> push_cast <;> ring

theorem fract_emod (D : Nat) (hD : 0 < D) (n : Int) : fract (((n % (D : Int) : Int) : Rat) / D) = fract ((n : Rat) / D) := by
  have hD' : (D : Rat) ≠ 0 := by exact_mod_cast (Nat.pos_iff_ne_zero.mp hD)
  symm
  apply fract_eq_of_eq_add_int (n / (D : Int))
  have h : n % (D : Int) + (D : Int) * (n / (D : Int)) = n := by
    have := Int.mul_ediv_add_emod n (D : Int); omega
  have h2 : (n : Rat) = ((n % (D : Int) : Int) : Rat) + (D : Rat) * ((n / (D : Int) : Int) : Rat) := by
    exact_mod_cast h.symm
  field_simp
  linarith

theorem cls_ofS_normS (D : Nat) (hD : 0 < D) (s : SOp) : cls (ofS D (normS D s)) = cls (ofS D s) := by
  obtain ⟨m, x, y, z⟩ := s
  simp only [cls, ofS, normS, fractV, Op.mk.injEq, Vec.mk.injEq, true_and]
  exact ⟨fract_emod D hD x, fract_emod D hD y, fract_emod D hD z⟩

/-- left closure under the generators, modulo ℤ³ -/
def LeftClosed (gens G : List Op) : Prop := ∀ g ∈ gens, ∀ b ∈ G, cls (comp g b) ∈ G.map cls

theorem leftClosedSB_sound (D : Nat) (gens G : List Op) (h : leftClosedSB D gens G = true) : LeftClosed gens G := by
  unfold leftClosedSB at h
  simp only [withS_eq, forceS_eq, strict_eq, Bool.and_eq_true, decide_eq_true_eq, List.all_eq_true, List.mem_map,
    forall_exists_index, and_imp] at h
  obtain ⟨⟨⟨hD, hg⟩, hb⟩, hc⟩ := h
  intro g hgm b hbm
  have key := hc _ (toS D g) g hgm rfl rfl _ (normS D (toS D b)) b hbm rfl rfl
  have hmem := memS_sound _ _ _ key
  simp only [List.map_map, List.mem_map, Function.comp] at hmem
  obtain ⟨b2, hb2, e⟩ := hmem
  refine List.mem_map.mpr ⟨b2, hb2, ?_⟩
  -- cls b2 = cls (ofS (normS (toS b2))) = cls (ofS (normS (compS gs bs))) = cls (comp g b)
  have e1 : cls b2 = cls (ofS D (normS D (toS D b2))) := by rw [cls_ofS_normS D hD, hb b2 hb2]
  have e2 : cls (comp g b) = cls (comp (ofS D (toS D g)) (ofS D (normS D (toS D b)))) := by
    apply cls_comp_congr
    · rw [hg g hgm]
    · rw [cls_ofS_normS D hD, hb b hbm]
  rw [e1, e2, comp_ofS, ← cls_ofS_normS D hD (compS _ _)]
  exact congrArg (fun s => cls (ofS D s)) e

/-! ### from closure under the generators to closure of the whole list -/

/-- left multiplication by `g` maps `G` into itself modulo ℤ³ -/
def LeftOK (G : List Op) (g : Op) : Prop := ∀ b ∈ G, ∃ b' ∈ G, cls (comp g b) = cls b'

theorem leftOK_ident (G : List Op) : LeftOK G ident := fun b hb => ⟨b, hb, by rw [comp_ident]⟩

theorem leftOK_of_leftClosed {gens G : List Op} (h : LeftClosed gens G) {g : Op} (hg : g ∈ gens) : LeftOK G g := by
  intro b hb
  obtain ⟨b', hb', e⟩ := List.mem_map.mp (h g hg b hb)
  exact ⟨b', hb', e.symm⟩

theorem leftOK_comp {G : List Op} {g h : Op} (hg : LeftOK G g) (hh : LeftOK G h) : LeftOK G (comp g h) := by
  intro b hb
  obtain ⟨b1, hb1, e1⟩ := hh b hb
  obtain ⟨b2, hb2, e2⟩ := hg b1 hb1
  refine ⟨b2, hb2, ?_⟩
  rw [comp_assoc, ← e2]
  exact cls_comp_congr rfl e1

/-- the spec list is closed as soon as it is closed under its generators: each member is a product of them -/
theorem closed_fullGroup (N : Int) (S : List Op) (h : LeftClosed (gensOf N S) (fullGroup N S)) :
    Closed (fullGroup N S) := by
  intro a ha b hb
  have hok : LeftOK (fullGroup N S) a := by
    simp only [fullGroup, fullGroupWith, List.mem_flatMap, List.mem_map] at ha
    obtain ⟨s, hs, c, hc, i, hi, rfl⟩ := ha
    have hs' : LeftOK (fullGroup N S) s := by
      rcases List.mem_cons.mp hs with rfl | hs
      · exact leftOK_ident _
      · exact leftOK_of_leftClosed h (by simp [gensOf, hs])
    have hi' : LeftOK (fullGroup N S) i := by
      unfold signs at hi
      split at hi
      · rename_i hcen
        rcases List.mem_cons.mp hi with rfl | hi
        · exact leftOK_ident _
        · have : i = inversion := by simpa using hi
          subst this
          exact leftOK_of_leftClosed h (by simp [gensOf, hcen])
      · have : i = ident := by simpa using hi
        subst this
        exact leftOK_ident _
    have hc' : LeftOK (fullGroup N S) (transl c) := by
      rcases List.mem_cons.mp hc with rfl | hc
      · exact leftOK_ident _
      · exact leftOK_of_leftClosed h (by simp only [gensOf, List.mem_append, List.mem_map]; exact Or.inl (Or.inr ⟨c, hc, rfl⟩))
    exact leftOK_comp hc' (leftOK_comp hi' hs')
  obtain ⟨b', hb', e⟩ := hok b hb
  exact List.mem_map.mpr ⟨b', hb', e.symm⟩

/-- closure is a property of the multiset of classes -/
theorem closed_of_perm {L G : List Op} (hp : L.map cls ~ G.map cls) (hG : Closed G) : Closed L := by
  intro a ha b hb
  obtain ⟨a', ha', ea⟩ := List.mem_map.mp (hp.subset (List.mem_map_of_mem ha))
  obtain ⟨b', hb', eb⟩ := List.mem_map.mp (hp.subset (List.mem_map_of_mem hb))
  have := hG a' ha' b' hb'
  rw [cls_comp_congr ea eb] at this
  exact hp.symm.subset this

/-! ### the tabulated settings, spec side (kernel evaluation in ShelxProps/Lemmas/C11Tab*.lean) -/

theorem validB_sound (N : Int) (S : List Op) (h : validB N S = true) : ValidSetting N S := by
  simp only [validB, Bool.and_eq_true, decide_eq_true_eq] at h
  exact ⟨⟨h.1.1, h.1.2⟩, nodupB_sound _ h.2⟩

/-- what is established for each tabulated setting -/
def SpecOK (e : Setting) : Prop :=
  ValidSetting e.N e.S ∧ Closed (fullGroup e.N e.S) ∧ (fullGroup e.N e.S).length = e.order

theorem validOK_sound (e : Setting) (h : validOK e = true) :
    ValidSetting e.N e.S ∧ (fullGroup e.N e.S).length = e.order := by
  simp only [validOK, Bool.and_eq_true, beq_iff_eq] at h
  exact ⟨validB_sound _ _ h.1, h.2⟩

theorem closedUnder_sound (gs : Setting → List Op) (e : Setting) (h : closedUnder gs e = true) :
    LeftClosed (gs e) (fullGroup e.N e.S) := leftClosedSB_sound _ _ _ h

theorem specOK_sound (e : Setting) (h : specOK e = true) : SpecOK e := by
  simp only [specOK, Bool.and_eq_true] at h
  obtain ⟨hv, hl⟩ := validOK_sound e h.1
  exact ⟨hv, closed_fullGroup _ _ (closedUnder_sound _ e h.2), hl⟩

/-- closure under a list of generators from closure under a first slice and under the rest -/
theorem leftClosed_of_take_drop (n : Nat) {gens G : List Op}
    (h1 : LeftClosed (gens.take n) G) (h2 : LeftClosed (gens.drop n) G) : LeftClosed gens G := by
  intro g hg
  rw [← List.take_append_drop n gens] at hg
  rcases List.mem_append.mp hg with h | h
  · exact h1 g h
  · exact h2 g h

theorem mem_take_or_drop {α : Type} (n : Nat) {l : List α} {a : α} (h : a ∈ l) : a ∈ l.take n ∨ a ∈ l.drop n := by
  rw [← List.take_append_drop n l] at h
  exact List.mem_append.mp h

theorem all_specOK_sound {l : List Setting} (h : l.all specOK = true) : ∀ e ∈ l, SpecOK e :=
  fun e he => specOK_sound e (List.all_eq_true.mp h e he)

/-- Ia-3d: validity and order from C11TabV, closure from two slices of the generators -/
theorem tabE_spec : ∀ e ∈ tabE, SpecOK e := by
  intro e he
  obtain ⟨hv, hl⟩ := validOK_sound e (List.all_eq_true.mp tabE_validOK e he)
  have c1 := closedUnder_sound _ e (List.all_eq_true.mp tabE_closed1 e he)
  have c2 := closedUnder_sound _ e (List.all_eq_true.mp tabE_closed2 e he)
  simp only [gensSlice, gensFrom, List.drop_zero] at c1 c2
  exact ⟨hv, closed_fullGroup _ _ (leftClosed_of_take_drop 13 c1 c2), hl⟩

/-- Fm-3m: validity and order from C11TabV, closure from four slices of the generators -/
theorem tabF_spec : ∀ e ∈ tabF, SpecOK e := by
  intro e he
  obtain ⟨hv, hl⟩ := validOK_sound e (List.all_eq_true.mp tabF_validOK e he)
  have c1 := closedUnder_sound _ e (List.all_eq_true.mp tabF_closed1 e he)
  have c2 := closedUnder_sound _ e (List.all_eq_true.mp tabF_closed2 e he)
  have c3 := closedUnder_sound _ e (List.all_eq_true.mp tabF_closed3 e he)
  have c4 := closedUnder_sound _ e (List.all_eq_true.mp tabF_closed4 e he)
  simp only [gensSlice, gensFrom, List.drop_zero] at c1 c2 c3 c4
  have c34 : LeftClosed ((gensOfSetting e).drop 14) (fullGroup e.N e.S) :=
    leftClosed_of_take_drop 7 c3 (by simpa [List.drop_drop] using c4)
  have c234 : LeftClosed ((gensOfSetting e).drop 7) (fullGroup e.N e.S) :=
    leftClosed_of_take_drop 7 c2 (by simpa [List.drop_drop] using c34)
  exact ⟨hv, closed_fullGroup _ _ (leftClosed_of_take_drop 7 c1 c234), hl⟩

/-- **every** tabulated setting (the pieces `tabA … tabF` exhaust `settings`, whatever its length): valid, spec
    list closed under composition mod ℤ³, order as in International Tables A -/
theorem settings_spec : ∀ e ∈ settings, SpecOK e := by
  intro e he
  rcases mem_take_or_drop 30 he with h | h
  · exact all_specOK_sound tabA_specOK e h
  rcases mem_take_or_drop 7 h with h | h
  · exact all_specOK_sound tabB_specOK e h
  rw [List.drop_drop] at h
  rcases mem_take_or_drop 3 h with h | h
  · exact all_specOK_sound tabC_specOK e h
  rw [List.drop_drop] at h
  rcases mem_take_or_drop 1 h with h | h
  · exact all_specOK_sound tabD_specOK e h
  rw [List.drop_drop] at h
  rcases mem_take_or_drop 1 h with h | h
  · exact tabE_spec e h
  rw [List.drop_drop] at h
  exact tabF_spec e h

end Shelx.C11

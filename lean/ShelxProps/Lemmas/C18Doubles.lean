/-
  C18 — the doubles nearest to k/12 (own module: built in parallel with the other tables, no Mathlib).
-/
import ShelxModel.C18

namespace Shelx.C18

/-- the double nearest to k/12 is snapped to k/12, for every translation of the quantifier (the bound is the one
    read off the source) -/
theorem double_table_snaps_tbl :
    ∀ e ∈ doubleTable, limitDen Extracted.C18.fracLimit (mkRat e.2.1 e.2.2) = some ((e.1 : Rat) / 12) := by
  decide +kernel

/-- … and the row printed from the double denotes the row with the exact translation -/
theorem double_rows_denote_tbl : ∀ e ∈ doubleTable, ∀ cx ∈ sg, ∀ cy ∈ sg, ∀ cz ∈ sg, (cx ≠ 0 ∨ cy ≠ 0 ∨ cz ≠ 0) →
    (compToCif (reprOf e.1) ⟨cx, cy, cz, mkRat e.2.1 e.2.2⟩).bind denoteComp = some (compOfK e.1 cx cy cz) := by
  decide +kernel

end Shelx.C18

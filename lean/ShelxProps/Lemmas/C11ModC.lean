/-
  C11 — kernel check of the MODEL's expansion (with the centring table regenerated from cards.py) on one piece of the
  table of space-group settings; put together by `settings_modelOK` in ShelxProps/C11.lean. No Mathlib import.
-/
import ShelxModel.C11
import ShelxModel.C11Table

namespace Shelx.C11

set_option maxRecDepth 100000 in
theorem tabE_modelOK : tabE.all modelOK = true := by decide +kernel

end Shelx.C11

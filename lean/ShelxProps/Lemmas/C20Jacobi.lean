/-
  C20 — helper lemmas about one Jacobi rotation of `quatfit.jacobi` (model `jacobiRot`): the in-place index loops
  of the code compute `V·G` and `Gᵀ·A·G` for the Givens matrix `G` (case analysis over the six index pairs).
-/
import ShelxModel.C20
import Mathlib.Tactic.Ring
import Mathlib.Tactic.LinearCombination
import Mathlib.Tactic.IntervalCases
import Mathlib.Tactic.Linarith
import Mathlib.Data.Real.Basic
namespace Shelx.C20

/-- the symmetric matrix that `matrix` (strict upper triangle) and `eigenval` (diagonal) stand for -/
def symOf (a : Mat ℝ) (d : Vec ℝ) : Nat → Nat → ℝ :=
  fun r c => if r = c then d r else if r < c then a r c else a c r

/-- the Givens rotation in the `(i, j)` plane -/
def givens (i j : Nat) (c s : ℝ) : Nat → Nat → ℝ :=
  fun p q => if p = q then (if p = i ∨ p = j then c else 1)
             else if p = i ∧ q = j then s else if p = j ∧ q = i then -s else 0

/-- 4×4 matrix product on index functions -/
def mul4 (A B : Nat → Nat → ℝ) : Nat → Nat → ℝ :=
  fun r c => A r 0 * B 0 c + A r 1 * B 1 c + A r 2 * B 2 c + A r 3 * B 3 c

set_option maxHeartbeats 400000 in
theorem jacobiRot_v (i j : Nat) (hij : i < j) (hj : j < 4) (c s b : ℝ) (st : JState ℝ) (r k : Nat) (hr : r < 4) (hk : k < 4) :
    (jacobiRot i j c s b st).v r k = mul4 (fun p q => st.v p q) (givens i j c s) r k := by
  interval_cases j <;> interval_cases i <;> interval_cases r <;> interval_cases k <;>
    simp [jacobiRot, upd, givens, mul4, List.range_succ] <;> ring

set_option maxHeartbeats 1000000 in
theorem jacobiRot_a (i j : Nat) (hij : i < j) (hj : j < 4) (c s : ℝ) (st : JState ℝ)
    (hzero : (c * c - s * s) * st.a i j - c * s * (st.d j - st.d i) = 0)
    (r k : Nat) (hr : r < 4) (hk : k < 4) :
    symOf (jacobiRot i j c s (st.a i j) st).a (jacobiRot i j c s (st.a i j) st).d r k
      = mul4 (fun p q => givens i j c s q p) (mul4 (symOf st.a st.d) (givens i j c s)) r k := by
  interval_cases j <;> interval_cases i <;> interval_cases r <;> interval_cases k <;>
    simp [jacobiRot, upd, updV, symOf, givens, mul4, List.range_succ, List.range'] at hzero ⊢ <;>
    first
      | ring1
      | linear_combination hzero
      | linear_combination (-1 : ℝ) * hzero
def tr4 (A : Nat → Nat → ℝ) : Nat → Nat → ℝ := fun r c => A c r
def delta4 : Nat → Nat → ℝ := fun r c => if r = c then 1 else 0

theorem givens_orth (i j : Nat) (hij : i < j) (hj : j < 4) (c s : ℝ) (h : c * c + s * s = 1) (r k : Nat) (hr : r < 4) (hk : k < 4) :
    mul4 (tr4 (givens i j c s)) (givens i j c s) r k = delta4 r k := by
  interval_cases j <;> interval_cases i <;> interval_cases r <;> interval_cases k <;>
    simp [givens, mul4, tr4, delta4] <;> first | ring1 | linear_combination h

set_option maxHeartbeats 2000000 in
theorem mul4_assoc3 (V G N : Nat → Nat → ℝ) (r k : Nat) :
    mul4 (tr4 (mul4 V G)) (mul4 N (mul4 V G)) r k = mul4 (tr4 G) (mul4 (mul4 (tr4 V) (mul4 N V)) G) r k := by
  simp only [mul4, tr4]; ring

set_option maxHeartbeats 1000000 in
theorem mul4_assoc2 (V G : Nat → Nat → ℝ) (r k : Nat) :
    mul4 (tr4 (mul4 V G)) (mul4 V G) r k = mul4 (tr4 G) (mul4 (mul4 (tr4 V) V) G) r k := by
  simp only [mul4, tr4]; ring

/-- the column swap of `jacobi`'s final sort -/
def swapCols (v : Mat ℝ) (k j : Nat) : Mat ℝ :=
  (List.range 4).foldl (fun v i =>
    let t := v i k
    let v := upd v i k (v i j)
    upd v i j t) v

theorem swapCols_entry (v : Mat ℝ) (k j : Nat) (hjk : j < k) (hk : k < 4) (r c : Nat) (hr : r < 4) (hc : c < 4) :
    swapCols v k j r c = v r (if c = k then j else if c = j then k else c) := by
  interval_cases k <;> interval_cases j <;> interval_cases r <;> interval_cases c <;>
    simp [swapCols, upd, List.range_succ]

end Shelx.C20

/-
  C11 — kernel check of one piece of the table of space-group settings (spec side only; see ShelxModel/C11Table.lean,
  "the table cut into pieces", and `settings_spec` in ShelxProps/Lemmas/C11Closed.lean). No Mathlib import.
  Here: validity and order of the two largest groups (their closure is checked in C11TabE*.lean, C11TabF*.lean).
-/
import ShelxModel.C11Table

namespace Shelx.C11

set_option maxRecDepth 100000 in
theorem tabE_validOK : tabE.all validOK = true := by decide +kernel

set_option maxRecDepth 100000 in
theorem tabF_validOK : tabF.all validOK = true := by decide +kernel

end Shelx.C11

/-
  C11 — helper development: the same group referred to another origin (`shiftOp`, `shiftSetting` of
  ShelxModel/C11Core.lean). Moving the origin is conjugation by a translation: it is compatible with composition and
  with equality modulo ℤ³, so validity (no class twice) and closure of a setting carry over to every origin, and the
  LATT/SYMM decomposition `shiftSetting` generates exactly the moved group.
-/
import ShelxModel.C11Core
import ShelxProps.Lemmas.C11Closed
import Mathlib.Tactic.Ring
import Mathlib.Tactic.Linarith
import Mathlib.Tactic.Push
import Mathlib.Data.List.Perm.Basic

namespace Shelx.C11
open List

/-! ### conjugation by a translation -/

theorem shiftOp_comp (u : Vec) (a b : Op) : shiftOp u (comp a b) = comp (shiftOp u a) (shiftOp u b) := by
  obtain ⟨⟨a11, a12, a13, a21, a22, a23, a31, a32, a33⟩, ⟨ax, ay, az⟩⟩ := a
  obtain ⟨⟨b11, b12, b13, b21, b22, b23, b31, b32, b33⟩, ⟨bx, b_y, bz⟩⟩ := b
  obtain ⟨ux, uy, uz⟩ := u
  simp only [shiftOp, comp, Mat.mul, Mat.mulVec, Vec.add, Vec.neg, Op.mk.injEq, Vec.mk.injEq, true_and]
  refine ⟨?_, ?_, ?_⟩ <;> push_cast <;> ring

theorem shiftOp_ident (u : Vec) : shiftOp u ident = ident := by
  obtain ⟨ux, uy, uz⟩ := u
  simp [shiftOp, ident, Mat.one, Mat.mulVec, Vec.add, Vec.neg, Vec.zero]

theorem shiftOp_transl (u c : Vec) : shiftOp u (transl c) = transl c := by
  obtain ⟨ux, uy, uz⟩ := u
  obtain ⟨cx, cy, cz⟩ := c
  simp [shiftOp, transl, Mat.one, Mat.mulVec, Vec.add, Vec.neg]

theorem shiftOp_neg_shiftOp (u : Vec) (a : Op) : shiftOp u.neg (shiftOp u a) = a := by
  obtain ⟨⟨a11, a12, a13, a21, a22, a23, a31, a32, a33⟩, ⟨ax, ay, az⟩⟩ := a
  obtain ⟨ux, uy, uz⟩ := u
  simp only [shiftOp, Mat.mulVec, Vec.add, Vec.neg, Op.mk.injEq, Vec.mk.injEq, true_and]
  refine ⟨?_, ?_, ?_⟩ <;> ring

/-- moving the origin is compatible with equality modulo ℤ³ -/
theorem cls_shiftOp_congr (u : Vec) {a b : Op} (h : cls a = cls b) : cls (shiftOp u a) = cls (shiftOp u b) := by
  obtain ⟨ma, ⟨ax, ay, az⟩⟩ := a
  obtain ⟨mb, ⟨bx, b_y, bz⟩⟩ := b
  obtain ⟨ux, uy, uz⟩ := u
  simp only [cls, fractV, Op.mk.injEq, Vec.mk.injEq] at h
  obtain ⟨rfl, hx, hy, hz⟩ := h
  obtain ⟨kx, rfl⟩ := exists_int_of_fract_eq hx
  obtain ⟨ky, rfl⟩ := exists_int_of_fract_eq hy
  obtain ⟨kz, rfl⟩ := exists_int_of_fract_eq hz
  simp only [cls, shiftOp, fractV, Mat.mulVec, Vec.add, Vec.neg, Op.mk.injEq, Vec.mk.injEq, true_and]
  refine ⟨?_, ?_, ?_⟩
  · exact fract_eq_of_eq_add_int kx (by ring)
  · exact fract_eq_of_eq_add_int ky (by ring)
  · exact fract_eq_of_eq_add_int kz (by ring)

/-- … and reflects it -/
theorem cls_eq_of_cls_shiftOp_eq (u : Vec) {a b : Op} (h : cls (shiftOp u a) = cls (shiftOp u b)) : cls a = cls b := by
  have := cls_shiftOp_congr u.neg h
  rwa [shiftOp_neg_shiftOp, shiftOp_neg_shiftOp] at this

/-- no class twice, at any origin -/
theorem nodup_map_shiftOp (u : Vec) {G : List Op} (h : (G.map cls).Nodup) : ((G.map (shiftOp u)).map cls).Nodup := by
  rw [List.map_map]
  unfold List.Nodup at h ⊢
  rw [List.pairwise_map] at h ⊢
  exact h.imp fun hne heq => hne (cls_eq_of_cls_shiftOp_eq u heq)

/-- closed under composition modulo ℤ³, at any origin -/
theorem closed_map_shiftOp (u : Vec) {G : List Op} (h : Closed G) : Closed (G.map (shiftOp u)) := by
  intro a' ha' b' hb'
  obtain ⟨a, ha, rfl⟩ := List.mem_map.mp ha'
  obtain ⟨b, hb, rfl⟩ := List.mem_map.mp hb'
  obtain ⟨g, hg, e⟩ := List.mem_map.mp (h a ha b hb)
  rw [← shiftOp_comp]
  exact List.mem_map.mpr ⟨shiftOp u g, List.mem_map_of_mem hg, cls_shiftOp_congr u e⟩

/-! ### the LATT/SYMM decomposition of the moved group -/

theorem flatMap_singleton' {α β : Type} (f : α → β) (l : List α) : l.flatMap (fun c => [f c]) = l.map f := by
  induction l with
  | nil => rfl
  | cons a l ih => simp [List.flatMap_cons, ih]

theorem perm_flatMap_pair' {α β : Type} (f g : α → β) (l : List α) :
    l.flatMap (fun c => [f c, g c]) ~ l.map f ++ l.map g := by
  induction l with
  | nil => simp
  | cons a l ih =>
    simp only [List.flatMap_cons, List.map_cons, List.cons_append, List.nil_append]
    refine List.Perm.cons _ ?_
    refine (List.Perm.cons _ ih).trans ?_
    exact (List.perm_middle).symm

/-- the centred copies of one operator -/
def centred (C : List Vec) (x : Op) : List Op := (Vec.zero :: C).map fun c => comp (transl c) x

theorem fullGroupWith_false (C : List Vec) (S : List Op) :
    fullGroupWith C false S = (ident :: S).flatMap (centred C) := by
  unfold fullGroupWith centred
  simp only [signs, Bool.false_eq_true, if_false, List.map_cons, List.map_nil, comp_ident, flatMap_singleton']

theorem fullGroupWith_true_perm (C : List Vec) (S : List Op) :
    fullGroupWith C true S ~ (ident :: S).flatMap fun s => centred C s ++ centred C (comp inversion s) := by
  unfold fullGroupWith centred
  refine List.Perm.flatMap_left _ fun s _ => ?_
  simp only [signs, if_true, List.map_cons, List.map_nil, comp_ident]
  exact perm_flatMap_pair' _ _ _

theorem map_shiftOp_centred (u : Vec) (C : List Vec) (x : Op) :
    (centred C x).map (shiftOp u) = centred C (shiftOp u x) := by
  unfold centred
  rw [List.map_map]
  refine List.map_congr_left fun c _ => ?_
  simp [shiftOp_comp, shiftOp_transl]

theorem comp_inversion_ident : comp inversion ident = inversion := by
  simp [comp, inversion, ident, Mat.mul, Mat.mulVec, Mat.one, Mat.neg, Vec.add, Vec.zero]

theorem specCentring_neg (N : Int) : specCentring (-N) = specCentring N := by
  unfold specCentring; rw [Int.natAbs_neg]

theorem centricOf_neg_of_centric {N : Int} (h : centricOf N = true) : centricOf (-N) = false := by
  simp only [centricOf, decide_eq_true_eq, decide_eq_false_iff_not] at h ⊢
  omega

/-- **the decomposition generates the moved group**: the spec list of `shiftSetting u N S` is a permutation of
    the spec list of `LATT N / SYMM S` with every operator referred to the new origin -/
theorem fullGroup_shiftSetting_perm (u : Vec) (N : Int) (S : List Op) :
    fullGroup (shiftSetting u N S).1 (shiftSetting u N S).2 ~ (fullGroup N S).map (shiftOp u) := by
  unfold shiftSetting
  cases hc : centricOf N with
  | false =>
    simp only [Bool.false_eq_true, if_false]
    unfold fullGroup
    rw [hc, fullGroupWith_false, fullGroupWith_false, List.map_flatMap]
    have : ident :: S.map (shiftOp u) = (ident :: S).map (shiftOp u) := by simp [shiftOp_ident]
    rw [this, List.flatMap_map]
    refine List.Perm.of_eq (List.flatMap_congr fun s _ => ?_)
    simp [map_shiftOp_centred]
  | true =>
    simp only [if_true]
    unfold fullGroup
    rw [hc, centricOf_neg_of_centric hc, specCentring_neg, fullGroupWith_false]
    refine List.Perm.trans ?_ ((fullGroupWith_true_perm (specCentring N) S).map (shiftOp u)).symm
    rw [List.map_flatMap]
    have : ident :: shiftOp u inversion :: (S.flatMap fun s => [shiftOp u s, shiftOp u (comp inversion s)])
        = (ident :: S).flatMap fun s => [shiftOp u s, shiftOp u (comp inversion s)] := by
      simp [List.flatMap_cons, shiftOp_ident, comp_inversion_ident]
    rw [this, List.flatMap_assoc]
    refine List.Perm.of_eq (List.flatMap_congr fun s _ => ?_)
    simp [List.flatMap_cons, map_shiftOp_centred]

theorem natAbs_shiftSetting (u : Vec) (N : Int) (S : List Op) : (shiftSetting u N S).1.natAbs = N.natAbs := by
  unfold shiftSetting
  split <;> simp

/-- **a valid, closed setting is valid and closed at every origin** -/
theorem shiftSetting_valid_closed (u : Vec) (N : Int) (S : List Op) (hv : ValidSetting N S) (hc : Closed (fullGroup N S)) :
    ValidSetting (shiftSetting u N S).1 (shiftSetting u N S).2 ∧
    Closed (fullGroup (shiftSetting u N S).1 (shiftSetting u N S).2) := by
  have hp := (fullGroup_shiftSetting_perm u N S).map cls
  refine ⟨⟨by rw [natAbs_shiftSetting]; exact hv.1, hp.nodup_iff.mpr (nodup_map_shiftOp u hv.2)⟩, ?_⟩
  exact closed_of_perm hp (closed_map_shiftOp u hc)

end Shelx.C11

/-
  C11 — kernel check of one piece of the table of space-group settings (spec side only; see ShelxModel/C11Table.lean,
  "the table cut into pieces", and `settings_spec` in ShelxProps/Lemmas/C11Closed.lean). No Mathlib import.
-/
import ShelxModel.C11Table

namespace Shelx.C11

set_option maxRecDepth 100000 in
theorem tabD_specOK : tabD.all specOK = true := by decide +kernel

end Shelx.C11

/-
  C18 — the finite table behind `cif_ops_denote` (own module: built in parallel with the other tables, no Mathlib).
-/
import ShelxModel.C18

namespace Shelx.C18

/-- the whole finite table of rows: 49 translations × 26 coefficient patterns (a row of an invertible matrix is
    not all zero; the all-zero row without translation would be printed as the empty string) -/
theorem comp_table : ∀ k ∈ ks, ∀ cx ∈ sg, ∀ cy ∈ sg, ∀ cz ∈ sg, (cx ≠ 0 ∨ cy ≠ 0 ∨ cz ≠ 0) →
    compGood (reprOf k) (compOfK k cx cy cz) = true := by
  decide +kernel

end Shelx.C18

/-
  C08 — property theorems (model and spec: ShelxModel/C08.lean).

  Quantified over ALL files (lists of lines of the three kinds), ALL histories (lists of `Op` with arbitrary arguments:
  ids, positions and handles that do not exist included; reads of the same or other files anywhere in the history) and
  ALL previous states of the object. No length bound: induction over the op list with the structural invariant `WF`.

  For the repaired code (`repaired`: fixes/C08_1 identity search, fixes/C08_2 rename clears the name cache):
    parse_establishes_inv     Inv8 (read f s)                                     for every f and every prior state s
    op_preserves_inv          WF s → WF (step op s) ∧ Inv8 (step op s)            for every op
    history_inv               Inv8 (run ops (read f s0))                          for every f, ops, s0
    delete_removes_requested  a.delete() / del atoms[a.atomid] removes exactly the atom asked for (so `gone` is not vacuous)
    gone_not_in_view          filtered views (hydrogen/riding/Q-peak lists) never show a deleted atom
    delLoop_fuel              the fuel of the modelled `for … enumerate(all_atoms)` loop is sufficient
  For both variants:
    reread_resets             (step (read f) (run ops s)) = read f init           the constructor re-run overwrites every field
    read_attrs_spec           attributes after a read = specSlot/specVal of that file (last instruction wins, none → default)
    attrs_history             … after any history: of the file read LAST, never of an earlier one
    load_alone_keeps_old_attr, parse_without_reinit_fails_on    witnesses: parsing without the constructor re-run keeps the
                              previous file's attribute where the new file lacks the instruction; Inv8's last clause sees it
    history_independent       run (before ++ read f :: after) s = run (read f :: after) init
  For the code as of the snapshot (`snapshot`), witnesses by `decide` (the harness replays them on the implementation):
    snapshot_twins_share_atomid, snapshot_delete_second_deletes_first, snapshot_raw_line_shadows_atom,
    snapshot_rename_stale, history_inv_fails_on_snapshot, history_inv_fails_without_{ident,rename}_fix
  No hypothesis restricts files or histories; the only restriction is the op alphabet itself (`Op`): `replace_line`,
  `add_atom`, `insert_frag_fend_entry` and assignments to `atom.resi` are not modelled.
-/
import ShelxModel.C08
import Mathlib.Data.List.Basic

namespace Shelx.C08

/-! ### list lemmas -/

theorem firstIdx_some_get {x : Entry} : ∀ {l : List Entry} {i : Nat},
    firstIdx (fun y => y == x) l = some i → l[i]? = some x := by
  intro l
  induction l with
  | nil => intro i h; simp [firstIdx] at h
  | cons y ys ih =>
    intro i h
    by_cases hy : y = x
    · subst hy; simp [firstIdx] at h; subst h; simp
    · have hb : (y == x) = false := by simpa using hy
      simp only [firstIdx, hb] at h
      cases hf : firstIdx (fun y => y == x) ys with
      | none => simp [hf] at h
      | some j =>
        simp [hf] at h; subst h
        simpa using ih hf

theorem firstIdx_of_mem {x : Entry} : ∀ {l : List Entry}, x ∈ l → ∃ i, firstIdx (fun y => y == x) l = some i := by
  intro l
  induction l with
  | nil => intro h; simp at h
  | cons y ys ih =>
    intro h
    by_cases hy : y = x
    · exact ⟨0, by simp [firstIdx, hy]⟩
    · have hb : (y == x) = false := by simpa using hy
      have : x ∈ ys := by
        rcases List.mem_cons.mp h with h | h
        · exact absurd h.symm hy
        · exact h
      obtain ⟨i, hi⟩ := ih this
      exact ⟨i + 1, by simp [firstIdx, hb, hi]⟩

theorem eraseIdx_firstIdx {x : Entry} : ∀ {l : List Entry} {i : Nat},
    firstIdx (fun y => y == x) l = some i → l.eraseIdx i = l.erase x := by
  intro l
  induction l with
  | nil => intro i h; simp [firstIdx] at h
  | cons y ys ih =>
    intro i h
    by_cases hy : y = x
    · subst hy; simp [firstIdx] at h; subst h; simp
    · have hb : (y == x) = false := by simpa using hy
      simp only [firstIdx, hb] at h
      cases hf : firstIdx (fun y => y == x) ys with
      | none => simp [hf] at h
      | some j =>
        simp [hf] at h; subst h
        simp [hb, ih hf]


@[simp] def atomOf : Entry → Option Nat
  | .atom u => some u
  | .raw _ => none
  | .card _ => none

theorem atomOf_eq_some {e : Entry} {a : Nat} : atomOf e = some a ↔ e = .atom a := by
  cases e <;> simp [atomOf]

theorem filterMap_erase_atom (a : Nat) : ∀ l : List Entry,
    (l.erase (.atom a)).filterMap atomOf = (l.filterMap atomOf).erase a := by
  intro l
  induction l with
  | nil => simp
  | cons y ys ih =>
    cases y with
    | raw t => simp [List.erase_cons, List.filterMap_cons, ih]
    | card u => simp [List.erase_cons, List.filterMap_cons, ih]
    | atom b =>
      by_cases hb : b = a
      · subst hb; simp [List.filterMap_cons]
      · have h1 : (Entry.atom b == Entry.atom a) = false := by simpa using hb
        have h2 : (b == a) = false := by simpa using hb
        simp [List.erase_cons, List.filterMap_cons, h1, h2, ih]

theorem eraseIdx_eq_erase_of_nodup {a : Nat} : ∀ {l : List Nat} {n : Nat},
    l.Nodup → l[n]? = some a → l.eraseIdx n = l.erase a := by
  intro l
  induction l with
  | nil => intro n _ h; simp at h
  | cons y ys ih =>
    intro n hn h
    cases n with
    | zero => simp at h; subst h; simp
    | succ n =>
      simp at h
      have hmem : a ∈ ys := List.mem_of_getElem? h
      have hne : y ≠ a := by
        intro e; subst e; exact (List.nodup_cons.mp hn).1 hmem
      have hb : (y == a) = false := by simpa using hne
      simp [List.erase_cons, hb, ih (List.nodup_cons.mp hn).2 h]

theorem filterMap_pyInsert_raw (t : Nat) : ∀ (l : List Entry) (i : Nat),
    (pyInsert l i (.raw t)).filterMap atomOf = l.filterMap atomOf := by
  intro l
  induction l with
  | nil => intro i; cases i <;> simp [pyInsert, List.filterMap_cons]
  | cons y ys ih =>
    intro i
    cases i with
    | zero => simp [pyInsert, List.filterMap_cons]
    | succ i => simp [pyInsert, List.filterMap_cons, ih]

theorem mem_pyInsert_of_mem {e x : Entry} : ∀ {l : List Entry} {i : Nat}, e ∈ l → e ∈ pyInsert l i x := by
  intro l
  induction l with
  | nil => intro i h; simp at h
  | cons y ys ih =>
    intro i h
    cases i with
    | zero => simp [pyInsert]; right; simpa using h
    | succ i =>
      simp only [pyInsert, List.mem_cons] at h ⊢
      rcases h with h | h
      · exact Or.inl h
      · exact Or.inr (ih h)


/-! ### the structural invariant behind `Inv8` (repaired code) -/

/-- what every reachable state of the repaired code satisfies: `all_atoms` is exactly the sequence of Atom objects
in `_reslist` (in file order, each once), every instruction object still sits in the list, the name cache is either
cleared or current, and nothing that was deleted is still listed. -/
structure WF (s : St) : Prop where
  atoms_eq : s.atoms = s.res.filterMap atomOf
  nodup : s.atoms.Nodup
  cards_in : ∀ k ∈ s.cards, Entry.card k ∈ s.res
  cache_ok : s.cache = [] ∨ s.cache = build s
  gone_out : ∀ g ∈ s.gone, g ∉ s.atoms
  slots_in : ∀ p ∈ s.slots, Entry.card p.2 ∈ s.res

theorem indexOf_repaired (s : St) (v : Entry) : indexOf repaired s v = firstIdx (fun y => y == v) s.res := by
  unfold indexOf
  congr
  funext item
  simp [pyEq, repaired]

theorem WF.atom_mem {s : St} (h : WF s) {a : Nat} (ha : a ∈ s.atoms) : Entry.atom a ∈ s.res := by
  rw [h.atoms_eq, List.mem_filterMap] at ha
  obtain ⟨e, he, hea⟩ := ha
  rw [atomOf_eq_some] at hea
  exact hea ▸ he

theorem WF.mem_atoms {s : St} (h : WF s) {a : Nat} (ha : Entry.atom a ∈ s.res) : a ∈ s.atoms := by
  rw [h.atoms_eq, List.mem_filterMap]
  exact ⟨_, ha, rfl⟩

theorem wf_removeAt {s : St} {n a : Nat} (h : WF s) (hn : s.atoms[n]? = some a) :
    WF (removeAt repaired s n a).1 ∧ (removeAt repaired s n a).2 = false ∧ a ∉ (removeAt repaired s n a).1.atoms := by
  have ha : a ∈ s.atoms := List.mem_of_getElem? hn
  obtain ⟨i, hi⟩ := firstIdx_of_mem (h.atom_mem ha)
  have e1 : s.atoms.eraseIdx n = s.atoms.erase a := eraseIdx_eq_erase_of_nodup h.nodup hn
  have e2 : s.res.eraseIdx i = s.res.erase (.atom a) := eraseIdx_firstIdx hi
  simp only [removeAt, indexOf_repaired, hi, e1, e2]
  refine ⟨⟨?_, ?_, ?_, ?_, ?_, ?_⟩, trivial, ?_⟩
  · simp only [filterMap_erase_atom, ← h.atoms_eq]
  · exact h.nodup.erase a
  · intro k hk
    exact (List.mem_erase_of_ne (by simp)).mpr (h.cards_in k hk)
  · exact Or.inl rfl
  · intro g hg
    rcases List.mem_cons.mp hg with hg | hg
    · subst hg; exact h.nodup.not_mem_erase
    · exact fun hm => h.gone_out g hg (List.mem_of_mem_erase hm)
  · intro p hp
    exact (List.mem_erase_of_ne (by simp)).mpr (h.slots_in p hp)
  · exact h.nodup.not_mem_erase

theorem wf_delLoop (key : Nat) : ∀ (fuel n : Nat) (s : St), WF s →
    WF (delLoop repaired key fuel n s).1 ∧ (delLoop repaired key fuel n s).2 = false := by
  intro fuel
  induction fuel with
  | zero => intro n s h; exact ⟨h, rfl⟩
  | succ fuel ih =>
    intro n s h
    simp only [delLoop]
    cases hn : s.atoms[n]? with
    | none => exact ⟨h, rfl⟩
    | some a =>
      simp only []
      by_cases hk : (atomid repaired s a == key) = true
      · obtain ⟨hw, hr, _⟩ := wf_removeAt h hn
        simp only [hk, if_true]
        rcases hra : removeAt repaired s n a with ⟨s', r⟩
        rw [hra] at hw hr
        simp only at hw hr
        subst hr
        exact ih (n + 1) s' hw
      · simp only [hk]
        exact ih (n + 1) s h

theorem wf_clear {s : St} (h : WF s) : WF { s with cache := [] } :=
  ⟨h.atoms_eq, h.nodup, h.cards_in, Or.inl rfl, h.gone_out, h.slots_in⟩

theorem atomsOf_eq : ∀ (f : List Line) (i : Nat), atomsOf i f = (resOf i f).filterMap atomOf := by
  intro f
  induction f with
  | nil => intro i; simp [atomsOf, resOf]
  | cons l ls ih =>
    intro i
    cases l <;> simp [atomsOf, resOf, List.filterMap_cons, ih]

theorem atomsOf_ge : ∀ (f : List Line) (i x : Nat), x ∈ atomsOf i f → i ≤ x := by
  intro f
  induction f with
  | nil => intro i x h; simp [atomsOf] at h
  | cons l ls ih =>
    intro i x h
    cases l with
    | raw t k => have := ih (i + 1) x (by simpa [atomsOf] using h); omega
    | card t k => have := ih (i + 1) x (by simpa [atomsOf] using h); omega
    | atom t n =>
      simp only [atomsOf, List.mem_cons] at h
      rcases h with h | h
      · omega
      · have := ih (i + 1) x h; omega

theorem atomsOf_nodup : ∀ (f : List Line) (i : Nat), (atomsOf i f).Nodup := by
  intro f
  induction f with
  | nil => intro i; simp [atomsOf]
  | cons l ls ih =>
    intro i
    cases l with
    | raw t k => simpa [atomsOf] using ih (i + 1)
    | card t k => simpa [atomsOf] using ih (i + 1)
    | atom t n =>
      simp only [atomsOf, List.nodup_cons]
      refine ⟨fun hm => ?_, ih (i + 1)⟩
      have := atomsOf_ge ls (i + 1) i hm
      omega

theorem cardsOf_mem : ∀ (f : List Line) (i k : Nat), k ∈ cardsOf i f → Entry.card k ∈ resOf i f := by
  intro f
  induction f with
  | nil => intro i k h; simp [cardsOf] at h
  | cons l ls ih =>
    intro i k h
    cases l with
    | raw t a => simp only [resOf, List.mem_cons]; exact Or.inr (ih (i + 1) k (by simpa [cardsOf] using h))
    | atom t n => simp only [resOf, List.mem_cons]; exact Or.inr (ih (i + 1) k (by simpa [cardsOf] using h))
    | card t a =>
      simp only [cardsOf, List.mem_cons] at h
      simp only [resOf, List.mem_cons]
      rcases h with h | h
      · exact Or.inl (by rw [h])
      · exact Or.inr (ih (i + 1) k h)

/-- an object that parsing assigns to an attribute was put into its line's slot of the file list -/
theorem slotsOf_mem : ∀ (f : List Line) (i : Nat) (p : Nat × Nat), p ∈ slotsOf i f → Entry.card p.2 ∈ resOf i f := by
  intro f
  induction f with
  | nil => intro i p h; simp [slotsOf] at h
  | cons l ls ih =>
    intro i p h
    cases l with
    | raw t a => simp only [resOf, List.mem_cons]; exact Or.inr (ih (i + 1) p (by simpa [slotsOf] using h))
    | atom t n => simp only [resOf, List.mem_cons]; exact Or.inr (ih (i + 1) p (by simpa [slotsOf] using h))
    | card t a =>
      cases a with
      | none => simp only [resOf, List.mem_cons]; exact Or.inr (ih (i + 1) p (by simpa [slotsOf] using h))
      | some k =>
        simp only [slotsOf, List.mem_cons] at h
        simp only [resOf, List.mem_cons]
        rcases h with h | h
        · exact Or.inl (by rw [h])
        · exact Or.inr (ih (i + 1) p h)

/-- what a read leaves in the lists and attributes is what parsing THIS file put there: the constructor re-run
emptied them first -/
theorem read_fields (f : List Line) (s : St) :
    (read f s).res = resOf 0 f ∧ (read f s).atoms = atomsOf 0 f ∧ (read f s).cards = cardsOf 0 f ∧
    (read f s).slots = slotsOf 0 f ∧ (read f s).vals = valsOf f ∧ (read f s).cache = [] ∧ (read f s).gone = [] := by
  simp [read, load, reinit]

theorem wf_read (f : List Line) (s : St) : WF (read f s) := by
  obtain ⟨h1, h2, h3, h4, _, h6, h7⟩ := read_fields f s
  refine ⟨?_, ?_, ?_, Or.inl h6, ?_, ?_⟩
  · rw [h1, h2]; exact atomsOf_eq f 0
  · rw [h2]; exact atomsOf_nodup f 0
  · rw [h1, h3]; exact cardsOf_mem f 0
  · intro g hg; rw [h7] at hg; simp at hg
  · rw [h1, h4]; exact slotsOf_mem f 0

/-- every API call of the alphabet keeps the structural invariant, and none of them raises on a consistent state
except `delete()` through a handle that is no longer in the file -/
theorem wf_step (op : Op) (s : St) (h : WF s) : WF (step repaired op s).1 := by
  cases op with
  | delId k => exact (wf_delLoop k _ 0 s h).1
  | delete a =>
    simp only [step]
    cases hi : indexOf repaired s (.atom a) with
    | none => exact h
    | some k =>
      obtain ⟨hw, hr⟩ := wf_delLoop k (s.atoms.length + 1) 0 s h
      simp only [delItem]
      rcases hd : delLoop repaired k (s.atoms.length + 1) 0 s with ⟨s', r⟩
      rw [hd] at hw hr
      simp only at hw hr
      subst hr
      exact wf_clear hw
  | insertAfter pos t =>
    exact ⟨by simp only [step, filterMap_pyInsert_raw]; exact h.atoms_eq, h.nodup,
           fun k hk => mem_pyInsert_of_mem (h.cards_in k hk), h.cache_ok, h.gone_out,
           fun p hp => mem_pyInsert_of_mem (h.slots_in p hp)⟩
  | rename a n t => exact ⟨h.atoms_eq, h.nodup, h.cards_in, Or.inl rfl, h.gone_out, h.slots_in⟩
  | retext u t => exact ⟨h.atoms_eq, h.nodup, h.cards_in, h.cache_ok, h.gone_out, h.slots_in⟩
  | lookup =>
    refine ⟨h.atoms_eq, h.nodup, h.cards_in, ?_, h.gone_out, h.slots_in⟩
    simp only [step, warm, effCache]
    by_cases he : s.cache.isEmpty = true
    · simp only [he, if_true]; exact Or.inr rfl
    · simp only [he]
      rcases h.cache_ok with hc | hc
      · simp [hc] at he
      · exact Or.inr hc
  | read f => exact wf_read f s

theorem wf_run : ∀ (ops : List Op) (s : St), WF s → WF (run repaired ops s) := by
  intro ops
  induction ops with
  | nil => intro s h; exact h
  | cons op ops ih => intro s h; exact ih _ (wf_step op s h)


/-! ### the structural invariant implies the property -/

theorem holdsAt_of_mem {s : St} {e : Entry} (h : e ∈ s.res) : holdsAt repaired s e := by
  obtain ⟨i, hi⟩ := firstIdx_of_mem h
  simp [holdsAt, indexOf_repaired, hi, firstIdx_some_get hi]

theorem atomid_inj {s : St} (h : WF s) {a b : Nat} (ha : a ∈ s.atoms) (hb : b ∈ s.atoms)
    (e : atomid repaired s a = atomid repaired s b) : a = b := by
  obtain ⟨i, hi⟩ := firstIdx_of_mem (h.atom_mem ha)
  obtain ⟨j, hj⟩ := firstIdx_of_mem (h.atom_mem hb)
  simp only [atomid, indexOf_repaired, hi, hj] at e
  subst e
  have h1 := firstIdx_some_get hi
  have h2 := firstIdx_some_get hj
  rw [h1] at h2
  simpa using h2

theorem dictGet_mem {n w : Nat} : ∀ {l : List (Nat × Nat)}, dictGet n l = some w → (n, w) ∈ l := by
  intro l
  induction l with
  | nil => intro h; simp [dictGet] at h
  | cons p r ih =>
    intro h
    obtain ⟨k, v⟩ := p
    simp only [dictGet] at h
    cases hd : dictGet n r with
    | some w' =>
      simp only [hd] at h
      exact List.mem_cons_of_mem _ (ih (by rw [hd, h]))
    | none =>
      simp only [hd] at h
      by_cases hk : (k == n) = true
      · simp only [hk, if_true, Option.some.injEq] at h
        have : k = n := by simpa using hk
        subst h; subst this; exact List.mem_cons_self
      · simp [hk] at h

theorem dictGet_build (name : Nat → Nat) (a : Nat) : ∀ (l : List Nat), a ∈ l →
    (∀ b ∈ l, name b = name a → b = a) → dictGet (name a) (l.map fun b => (name b, b)) = some a := by
  intro l
  induction l with
  | nil => intro h; simp at h
  | cons y ys ih =>
    intro ha hu
    simp only [List.map_cons, dictGet]
    cases hd : dictGet (name a) (ys.map fun b => (name b, b)) with
    | some w =>
      have hm := dictGet_mem hd
      rw [List.mem_map] at hm
      obtain ⟨b, hb, hbe⟩ := hm
      simp only [Prod.mk.injEq] at hbe
      have : b = a := hu b (List.mem_cons_of_mem _ hb) hbe.1
      simp only []
      rw [← hbe.2, this]
    | none =>
      simp only []
      have hay : a = y := by
        rcases List.mem_cons.mp ha with h | h
        · exact h
        · have := ih h (fun b hb => hu b (List.mem_cons_of_mem _ hb))
          rw [hd] at this; simp at this
      subst hay
      simp

theorem effCache_of_wf {s : St} (h : WF s) : effCache s = build s := by
  unfold effCache
  rcases h.cache_ok with hc | hc
  · simp [hc]
  · by_cases he : s.cache.isEmpty = true
    · simp [he]
    · simp [he, hc]

theorem inv8_of_wf {s : St} (h : WF s) : Inv8 repaired s := by
  refine ⟨fun a ha => holdsAt_of_mem (h.atom_mem ha), fun k hk => holdsAt_of_mem (h.cards_in k hk),
          ⟨h.nodup, fun a ha b hb e => atomid_inj h ha hb e⟩, ?_, ?_, ?_, ?_⟩
  · intro a ha
    unfold byId
    cases hf : s.atoms.find? (fun b => atomid repaired s b == atomid repaired s a) with
    | none =>
      have := List.find?_eq_none.mp hf a ha
      simp at this
    | some b =>
      have hp := List.find?_some hf
      have hb := List.mem_of_find?_eq_some hf
      have : b = a := atomid_inj h hb ha (by simpa using hp)
      rw [this]
  · intro a ha hu
    unfold byName
    rw [effCache_of_wf h]
    exact dictGet_build s.name a s.atoms ha hu
  · intro g hg
    refine ⟨h.gone_out g hg, fun hm => h.gone_out g hg (h.mem_atoms hm), ?_⟩
    rw [effCache_of_wf h]
    simp only [build, List.map_map]
    intro hm
    apply h.gone_out g hg
    simpa using hm
  · intro p _ u hu
    exact holdsAt_of_mem (h.slots_in (p.1, u) (dictGet_mem (Option.mem_def.mp hu)))

/-! ### the property theorems -/

/-- **parse_establishes_inv**: reading any file into an object in any previous state gives a consistent model. -/
theorem parse_establishes_inv (f : List Line) (s : St) : Inv8 repaired (read f s) :=
  inv8_of_wf (wf_read f s)

/-- **op_preserves_inv**: each API call of the alphabet (any argument values, including ids, positions and handles
that do not exist) leads from a consistent state to a state in which the property holds. `WF` is the inductive
strengthening of `Inv8`: `Inv8` alone does not say that `all_atoms` lists the file's atoms in file order. -/
theorem op_preserves_inv (op : Op) (s : St) (h : WF s) : WF (step repaired op s).1 ∧ Inv8 repaired (step repaired op s).1 :=
  ⟨wf_step op s h, inv8_of_wf (wf_step op s h)⟩

/-- **history_inv**: after ANY history of calls that starts with a read — whatever the object held before — the
property holds (all files, all op lists, no length bound). -/
theorem history_inv (f : List Line) (ops : List Op) (s0 : St) : Inv8 repaired (run repaired ops (read f s0)) :=
  inv8_of_wf (wf_run ops _ (wf_read f s0))

example : Inv8 repaired (run repaired [.lookup, .delete 3, .insertAfter 0 5, .rename 2 8 6, .lookup]
    (read [.raw 0 none, .card 7 (some 4), .atom 5 1, .atom 5 2, .raw 9 (some 3)] init)) :=
  history_inv _ _ _

/-- the views that are filters of the atom list cannot show a deleted atom -/
theorem gone_not_in_view {s : St} (h : WF s) (p : Nat → Bool) {g : Nat} (hg : g ∈ s.gone) : g ∉ view p s :=
  fun hm => h.gone_out g hg (List.mem_filter.mp hm).1

/-! ### re-reading resets all state -/

/-- **reread_resets**: the state after a read is the state a fresh object has after the same read — for both
variants of the code, after any history, for the same or another file. (`reinit` assigns every field of `St`; a field
that `__init__` did not assign would survive in `{ s with … }` and this would not be provable: `load` appends to the
lists and assigns attributes on top of what the state holds, see `load_alone_keeps_old_attr`.) -/
theorem reread_resets (c : Cfg) (f : List Line) (ops : List Op) (s : St) :
    (step c (.read f) (run c ops s)).1 = read f init := rfl

theorem run_append (c : Cfg) : ∀ (ops1 ops2 : List Op) (s : St), run c (ops1 ++ ops2) s = run c ops2 (run c ops1 s) := by
  intro ops1
  induction ops1 with
  | nil => intro ops2 s; rfl
  | cons op ops ih => intro ops2 s; exact ih ops2 _

/-- everything that happens after a read is independent of what happened before it -/
theorem history_independent (c : Cfg) (f : List Line) (before after : List Op) (s : St) :
    run c (before ++ .read f :: after) s = run c (.read f :: after) init := by
  rw [run_append]
  rfl


/-! ### attributes that are assigned only where the file has the instruction

`__init__` gives every attribute its default (`self.plan = None`, `self.temp_in_kelvin = 0.0` …); `_parse_cards`
assigns an attribute only when it meets the instruction. A file WITHOUT the instruction therefore leaves in the attribute
whatever was there before parsing started — the constructor's default if, and only if, the read re-ran the constructor
for that attribute. The theorems below say that after a read (and after any history) the attributes are a function of the
file read last alone; `load_alone_keeps_old_attr` / `parse_without_reinit_fails_on` show that this is the work of
`reinit` and that the last clause of `Inv8` notices when it is not done. -/

/-- two atoms with identical lines (uids 2 and 3; e.g. the same atom line in two residues), one instruction whose
object is assigned to attribute 4 (as `PLAN` to `shx.plan`), raw lines, the last of which sets the scalar attribute 3
(as `TEMP` sets `temp_in_kelvin`) -/
def twins : List Line := [.raw 0 none, .card 7 (some 4), .atom 5 1, .atom 5 2, .raw 9 (some 3)]

theorem dictGet_slotsOf (k : Nat) : ∀ (f : List Line) (i : Nat), dictGet k (slotsOf i f) = lastPos (Line.setsSlot k) i f := by
  intro f
  induction f with
  | nil => intro i; rfl
  | cons l ls ih =>
    intro i
    cases l with
    | raw t a => simp only [slotsOf, lastPos, Line.setsSlot, ih (i + 1)]; cases lastPos (Line.setsSlot k) (i + 1) ls <;> simp
    | atom t n => simp only [slotsOf, lastPos, Line.setsSlot, ih (i + 1)]; cases lastPos (Line.setsSlot k) (i + 1) ls <;> simp
    | card t a =>
      cases a with
      | none => simp only [slotsOf, lastPos, Line.setsSlot, ih (i + 1)]; cases lastPos (Line.setsSlot k) (i + 1) ls <;> simp
      | some k' =>
        simp only [slotsOf, dictGet, lastPos, Line.setsSlot, ih (i + 1)]
        cases lastPos (Line.setsSlot k) (i + 1) ls <;> rfl

theorem dictGet_valsOf (k : Nat) : ∀ (f : List Line), dictGet k (valsOf f) = specVal f k := by
  intro f
  induction f with
  | nil => rfl
  | cons l ls ih =>
    cases l with
    | raw t a =>
      cases a with
      | none => simp only [valsOf, specVal, Line.setsVal, ih]; cases specVal ls k <;> simp
      | some k' =>
        simp only [valsOf, dictGet, specVal, Line.setsVal, ih]
    | atom t n => simp only [valsOf, specVal, Line.setsVal, ih]; cases specVal ls k <;> simp
    | card t a => simp only [valsOf, specVal, Line.setsVal, ih]; cases specVal ls k <;> simp

/-- **read_attrs_spec**: after reading ANY file into an object in ANY previous state, every attribute is what the
specification computes from that file alone: the object of the last instruction `k` of the file (nothing if it has
none), the scalar of the last line that sets it (the default if none does). Both variants of the code. -/
theorem read_attrs_spec (c : Cfg) (f : List Line) (s : St) (k : Nat) :
    slotGet (step c (.read f) s).1 k = specSlot f k ∧ valGet (step c (.read f) s).1 k = specVal f k := by
  obtain ⟨_, _, _, h4, h5, _, _⟩ := read_fields f s
  exact ⟨by simp only [step, slotGet, specSlot, h4, dictGet_slotsOf], by simp only [step, valGet, h5, dictGet_valsOf]⟩

example : slotGet (read twins (read [.card 1 (some 4), .card 2 (some 5), .raw 6 (some 3)] init)) 5 = none ∧
    slotGet (read twins init) 4 = some 1 ∧ valGet (read twins (read [.raw 6 (some 2)] init)) 2 = none := by decide

theorem removeAt_attrs (c : Cfg) (s : St) (n a : Nat) :
    (removeAt c s n a).1.slots = s.slots ∧ (removeAt c s n a).1.vals = s.vals := by
  unfold removeAt
  cases indexOf c s (.atom a) <;> exact ⟨rfl, rfl⟩

theorem delLoop_attrs (c : Cfg) (key : Nat) : ∀ (fuel n : Nat) (s : St),
    (delLoop c key fuel n s).1.slots = s.slots ∧ (delLoop c key fuel n s).1.vals = s.vals := by
  intro fuel
  induction fuel with
  | zero => intro n s; exact ⟨rfl, rfl⟩
  | succ fuel ih =>
    intro n s
    simp only [delLoop]
    cases hn : s.atoms[n]? with
    | none => exact ⟨rfl, rfl⟩
    | some a =>
      simp only []
      by_cases hk : (atomid c s a == key) = true
      · simp only [hk, if_true]
        have hr := removeAt_attrs c s n a
        rcases hra : removeAt c s n a with ⟨s', r⟩
        rw [hra] at hr
        cases r with
        | true => exact hr
        | false =>
          have := ih (n + 1) s'
          exact ⟨this.1.trans hr.1, this.2.trans hr.2⟩
      · simp only [hk]
        exact ih (n + 1) s

/-- no edit of the alphabet touches an attribute: only a read does -/
theorem step_attrs (c : Cfg) (op : Op) (s : St) (h : ∀ g, op ≠ .read g) :
    (step c op s).1.slots = s.slots ∧ (step c op s).1.vals = s.vals := by
  cases op with
  | delId k => exact delLoop_attrs c k _ 0 s
  | delete a =>
    simp only [step]
    cases indexOf c s (.atom a) with
    | none => exact ⟨rfl, rfl⟩
    | some k =>
      have hd := delLoop_attrs c k (s.atoms.length + 1) 0 s
      simp only [delItem]
      rcases hdl : delLoop c k (s.atoms.length + 1) 0 s with ⟨s', r⟩
      rw [hdl] at hd
      cases r <;> exact hd
  | insertAfter pos t => exact ⟨rfl, rfl⟩
  | rename a n t => exact ⟨rfl, rfl⟩
  | retext u t => exact ⟨rfl, rfl⟩
  | lookup => exact ⟨rfl, rfl⟩
  | read g => exact absurd rfl (h g)

theorem run_attrs (c : Cfg) : ∀ (ops : List Op) (f : List Line) (s : St), s.slots = slotsOf 0 f → s.vals = valsOf f →
    (run c ops s).slots = slotsOf 0 (lastFile f ops) ∧ (run c ops s).vals = valsOf (lastFile f ops) := by
  intro ops
  induction ops with
  | nil => intro f s h1 h2; exact ⟨h1, h2⟩
  | cons op ops ih =>
    intro f s h1 h2
    by_cases hr : ∃ g, op = .read g
    · obtain ⟨g, rfl⟩ := hr
      obtain ⟨_, _, _, h4, h5, _, _⟩ := read_fields g s
      exact ih g _ h4 h5
    · have hne : ∀ g, op ≠ .read g := fun g e => hr ⟨g, e⟩
      have hs := step_attrs c op s hne
      have hl : lastFile f (op :: ops) = lastFile f ops := by
        cases op with
        | read g => exact absurd rfl (hne g)
        | _ => rfl
      rw [hl]
      exact ih f _ (hs.1.trans h1) (hs.2.trans h2)

/-- **attrs_history**: after ANY history that starts with a read — whatever the object held before, however many files
were read in between, whatever was edited — every attribute is what the specification computes from the file read LAST:
nothing of an earlier file is handed out, in particular not where the last file lacks the instruction. -/
theorem attrs_history (c : Cfg) (f : List Line) (ops : List Op) (s0 : St) (k : Nat) :
    slotGet (run c ops (read f s0)) k = specSlot (lastFile f ops) k ∧
    valGet (run c ops (read f s0)) k = specVal (lastFile f ops) k := by
  obtain ⟨_, _, _, h4, h5, _, _⟩ := read_fields f s0
  obtain ⟨r1, r2⟩ := run_attrs c ops f (read f s0) h4 h5
  exact ⟨by simp only [slotGet, specSlot, r1, dictGet_slotsOf], by simp only [valGet, r2, dictGet_valsOf]⟩

/-- a file with a PLAN-like (attribute 4) and a TEMP-like (attribute 3) instruction, then an edit, then a file without
either: both attributes are back at their defaults -/
example : slotGet (run repaired [.delete 2, .read [.raw 0 none, .atom 5 1], .rename 1 8 6] (read twins init)) 4 = none ∧
    valGet (run repaired [.delete 2, .read [.raw 0 none, .atom 5 1], .rename 1 8 6] (read twins init)) 3 = none :=
  ⟨(attrs_history _ _ _ _ 4).1, (attrs_history _ _ _ _ 3).2⟩

/-- the statement of `read_attrs_spec` for a read that parses without re-running the constructor -/
def AttrsSpecStatement (rd : List Line → St → St) : Prop :=
  ∀ (f : List Line) (s : St) (k : Nat), slotGet (rd f s) k = specSlot f k ∧ valGet (rd f s) k = specVal f k

theorem attrs_spec_read : AttrsSpecStatement read := fun f s k => read_attrs_spec repaired f s k

/-- parsing alone (`load`, no constructor re-run) keeps the scalar of the previous file when the new file lacks the
instruction: file A = `twins` (its last line sets attribute 3, as `TEMP` sets `temp_in_kelvin`), file B without it -/
theorem load_alone_keeps_old_attr : ¬ AttrsSpecStatement load := by
  intro h
  have := (h [.raw 0 none, .atom 5 1] (read twins init) 3).2
  revert this
  decide

/-- … and keeps handing out the instruction object of the previous file, which the new file does not hold: the last
clause of `Inv8` fails (object 9 of a 10-line file, then a 2-line file without the instruction) -/
theorem parse_without_reinit_fails_on : ¬ ∀ (f : List Line) (s : St), WF s → Inv8 repaired (load f s) := by
  intro h
  have := (h [.raw 0 none, .atom 5 1]
    (read [.raw 0 none, .raw 0 none, .raw 0 none, .raw 0 none, .raw 0 none, .raw 0 none, .raw 0 none, .raw 0 none,
           .raw 0 none, .card 7 (some 4)] init) (wf_read _ _)).2.2.2.2.2.2
  revert this
  decide


/-! ### the atom one asks to delete is the atom that goes -/

theorem gone_mono_removeAt (c : Cfg) (s : St) (n a g : Nat) (h : g ∈ s.gone) : g ∈ (removeAt c s n a).1.gone := by
  unfold removeAt
  cases indexOf c s (.atom a) <;> simp [h]

theorem gone_mono_delLoop (c : Cfg) (key g : Nat) : ∀ (fuel n : Nat) (s : St), g ∈ s.gone →
    g ∈ (delLoop c key fuel n s).1.gone := by
  intro fuel
  induction fuel with
  | zero => intro n s h; exact h
  | succ fuel ih =>
    intro n s h
    simp only [delLoop]
    cases hn : s.atoms[n]? with
    | none => exact h
    | some a =>
      simp only []
      by_cases hk : (atomid c s a == key) = true
      · simp only [hk, if_true]
        have hg := gone_mono_removeAt c s n a g h
        rcases hra : removeAt c s n a with ⟨s', r⟩
        rw [hra] at hg
        cases r
        · exact ih (n + 1) s' hg
        · exact hg
      · simp only [hk]
        exact ih (n + 1) s h

theorem delLoop_hits {a : Nat} : ∀ (fuel n m : Nat) (s : St), WF s → s.atoms[m]? = some a → n ≤ m → m < n + fuel →
    a ∈ (delLoop repaired (atomid repaired s a) fuel n s).1.gone := by
  intro fuel
  induction fuel with
  | zero => intro n m s _ _ h1 h2; omega
  | succ fuel ih =>
    intro n m s h hm h1 h2
    have ha : a ∈ s.atoms := List.mem_of_getElem? hm
    simp only [delLoop]
    cases hn : s.atoms[n]? with
    | none =>
      have : s.atoms.length ≤ n := by simpa using hn
      have : m < s.atoms.length := by
        rcases List.getElem?_eq_some_iff.mp hm with ⟨hl, _⟩; exact hl
      omega
    | some b =>
      simp only []
      by_cases hk : (atomid repaired s b == atomid repaired s a) = true
      · have hb : b ∈ s.atoms := List.mem_of_getElem? hn
        have hba : b = a := atomid_inj h hb ha (by simpa using hk)
        subst hba
        simp only [hk, if_true]
        have hg : b ∈ (removeAt repaired s n b).1.gone := by
          unfold removeAt
          cases indexOf repaired s (.atom b) <;> simp
        rcases hra : removeAt repaired s n b with ⟨s', r⟩
        rw [hra] at hg
        cases r
        · exact gone_mono_delLoop _ _ _ _ _ _ hg
        · exact hg
      · simp only [hk]
        have hne : n ≠ m := by
          intro e; subst e
          rw [hn] at hm
          have : b = a := by simpa using hm
          subst this
          simp at hk
        exact ih (n + 1) m s h hm (by omega) (by omega)

/-- **delete_removes_requested**: `a.delete()` on an atom of the file removes *that* atom: afterwards it is recorded
as deleted and (by `Inv8`) absent from the atom list, the file, the name index and every filtered view. -/
theorem delete_removes_requested {s : St} (h : WF s) {a : Nat} (ha : a ∈ s.atoms) :
    let s' := (step repaired (.delete a) s).1
    a ∈ s'.gone ∧ a ∉ s'.atoms ∧ Entry.atom a ∉ s'.res := by
  intro s'
  have hw : WF s' := wf_step _ s h
  have hg : a ∈ s'.gone := by
    obtain ⟨i, hi⟩ := firstIdx_of_mem (h.atom_mem ha)
    obtain ⟨m, hml, hm⟩ := List.getElem_of_mem ha
    have hm' : s.atoms[m]? = some a := by rw [List.getElem?_eq_getElem hml, hm]
    have hid : atomid repaired s a = i := by simp [atomid, indexOf_repaired, hi]
    have := delLoop_hits (s.atoms.length + 1) 0 m s h hm' (by omega) (by omega)
    rw [hid] at this
    show a ∈ (step repaired (.delete a) s).1.gone
    simp only [step, indexOf_repaired, hi, delItem]
    rcases hd : delLoop repaired i (s.atoms.length + 1) 0 s with ⟨s2, r⟩
    rw [hd] at this
    cases r <;> exact this
  exact ⟨hg, hw.gone_out a hg, fun hm => hw.gone_out a hg (hw.mem_atoms hm)⟩

/-- the same for `del shx.atoms[a.atomid]` -/
theorem delId_removes_requested {s : St} (h : WF s) {a : Nat} (ha : a ∈ s.atoms) :
    let s' := (step repaired (.delId (atomid repaired s a)) s).1
    a ∈ s'.gone ∧ a ∉ s'.atoms ∧ Entry.atom a ∉ s'.res := by
  intro s'
  have hw : WF s' := wf_step _ s h
  obtain ⟨m, hml, hm⟩ := List.getElem_of_mem ha
  have hm' : s.atoms[m]? = some a := by rw [List.getElem?_eq_getElem hml, hm]
  have hg : a ∈ s'.gone := delLoop_hits (s.atoms.length + 1) 0 m s h hm' (by omega) (by omega)
  exact ⟨hg, hw.gone_out a hg, fun hm => hw.gone_out a hg (hw.mem_atoms hm)⟩

/-! ### the fuel of the deletion loop is sufficient -/

theorem removeAt_atoms (c : Cfg) (s : St) (n a : Nat) : (removeAt c s n a).1.atoms = s.atoms.eraseIdx n := by
  unfold removeAt
  cases indexOf c s (.atom a) <;> rfl

/-- with more than `len(all_atoms) - n` steps of fuel the loop ends because the list is exhausted, never because the
fuel is: any two such amounts give the same result (both variants of the code). `delItem` starts with `len + 1`. -/
theorem delLoop_fuel (c : Cfg) (key : Nat) : ∀ (f1 f2 n : Nat) (s : St),
    s.atoms.length - n < f1 → s.atoms.length - n < f2 → delLoop c key f1 n s = delLoop c key f2 n s := by
  intro f1
  induction f1 with
  | zero => intro f2 n s h; omega
  | succ f1 ih =>
    intro f2 n s h1 h2
    cases f2 with
    | zero => omega
    | succ f2 =>
      simp only [delLoop]
      cases hn : s.atoms[n]? with
      | none => rfl
      | some a =>
        have hlt : n < s.atoms.length := by
          rcases List.getElem?_eq_some_iff.mp hn with ⟨hl, _⟩; exact hl
        simp only []
        by_cases hk : (atomid c s a == key) = true
        · simp only [hk, if_true]
          have hlen := removeAt_atoms c s n a
          rcases hra : removeAt c s n a with ⟨s', r⟩
          rw [hra] at hlen
          simp only at hlen
          cases r
          · have hl : s'.atoms.length = s.atoms.length - 1 := by rw [hlen, List.length_eraseIdx]; simp [hlt]
            exact ih f2 (n + 1) s' (by omega) (by omega)
          · rfl
        · simp only [hk]
          exact ih f2 (n + 1) s (by omega) (by omega)

/-! ### the code as of the snapshot: the property fails (witnesses, replayed on the implementation by the harness) -/


/-- full-strength statement for a variant `c` of the code -/
def HistoryInvStatement (c : Cfg) : Prop := ∀ (f : List Line) (ops : List Op) (s0 : St), Inv8 c (run c ops (read f s0))

theorem history_inv_repaired : HistoryInvStatement repaired := history_inv

/-- both twins report the position of the first one -/
theorem snapshot_twins_share_atomid :
    atomid snapshot (read twins init) 2 = 2 ∧ atomid snapshot (read twins init) 3 = 2 := by decide

/-- deleting the second twin removes the first object from the file and from the atom list -/
theorem snapshot_delete_second_deletes_first :
    (step snapshot (.delete 3) (read twins init)).1.atoms = [3] ∧
    (step snapshot (.delete 3) (read twins init)).1.res = [.raw 0, .card 1, .atom 3, .raw 9] := by decide

/-- after a look-up has filled the name cache, a renamed atom is not found under its new name (8) and is still
found under its old one (1) -/
theorem snapshot_rename_stale :
    byName (run snapshot [.lookup, .rename 2 8 6] (read twins init)) 8 = none ∧
    byName (run snapshot [.lookup, .rename 2 8 6] (read twins init)) 1 = some 2 := by decide

theorem history_inv_fails_on_snapshot : ¬ HistoryInvStatement snapshot := by
  intro h
  exact absurd (h twins [] init) (by decide)

/-- search by identity alone does not repair the stale name cache, and vice versa: each fix is needed -/
theorem history_inv_fails_without_rename_fix : ¬ HistoryInvStatement { identSearch := true, renameClears := false } := by
  intro h
  exact absurd (h twins [.lookup, .rename 2 8 6] init) (by decide)

theorem history_inv_fails_without_ident_fix : ¬ HistoryInvStatement { identSearch := false, renameClears := true } := by
  intro h
  exact absurd (h twins [] init) (by decide)

/-- on files without text-equal lines and histories without renames the snapshot code and the repaired code agree
on this input (the partial claim that held before the repairs): -/
example : Inv8 snapshot (run snapshot [.lookup, .delete 3, .insertAfter 0 4]
    (read [.raw 0 none, .card 7 (some 4), .atom 5 1, .atom 6 2, .raw 9 (some 3)] init)) := by decide

/-- a plain text line equal to an atom's line (`add_line(pos, str(atom))`) placed before the atom takes over the
atom's reported position in the snapshot code -/
theorem snapshot_raw_line_shadows_atom :
    indexOf snapshot (run snapshot [.insertAfter 0 5] (read [.raw 0 none, .card 7 (some 4), .atom 5 1, .atom 6 2, .raw 9 (some 3)] init)) (.atom 2)
      = some 1 ∧
    (run snapshot [.insertAfter 0 5] (read [.raw 0 none, .card 7 (some 4), .atom 5 1, .atom 6 2, .raw 9 (some 3)] init)).res[1]? = some (.raw 5) := by
  decide

example : Inv8 repaired (run repaired [.lookup, .rename 2 8 6, .delete 3] (read twins init)) := by decide

end Shelx.C08

/-
  C10 — property theorems (model and specification: ShelxModel/C10.lean).

  parse_denote        ∀ component c of the grammar (Valid c), ∀ text t that is `print c` with blanks anywhere and
                      letters in either case:  parseComp t = ok (denote c).   Numerals of ANY length (induction over
                      the item list; no bound on numerators/denominators/decimals).
  print_parse_id      ∀ operator with entries in {-1,0,1}, ∀ number formatter that writes each non-zero translation
                      as a numeral denoting it:  parseOp (split ',' (toShelxl op)) = ok op.
  fmtDec_ok / print_parse_id_dec   the model of `str(float)` is such a formatter for every number with ≤ 40 decimals.
  eq_iff_mod_lattice  eqModel tol a b ↔ same matrix ∧ every translation difference is a whole number, for translations
                      on a grid 1/N with tol ≤ 1/N (the repaired `__eq__`, tol = 1e-9).
  card_components     a SYMM line `kw t0, t1, t2` (blanks/tabs anywhere) gives the three denoted rows.
  literal_table_parsed   91 literal strings with values written by the harness' Python reference (`decide +kernel`).
  initOp_spec / reparse_spec / applyLatt_spec   operators the library makes from operators: `centric=True` is the denoted
                      operator followed by the inversion, `SymmetryElement(op.to_shelxl().split(','))` is `op`,
                      `apply_latt_symm` is the operator followed by the translation of its argument
                      (`act_inverted`, `act_shifted`, `act_ext`: stated on what the operators do to points).
  history_refines     ∀ history (any length) of parse(centric) / given / apply_latt_symm / re-parse / observe calls on a
                      pool of objects: the model's pool is the pool the property demands; every object has entries
                      in {-1,0,1}.  history_roundtrip: every object of every history survives print → parse.
                      history_eq: `==` on any two objects follows the lattice rule.  fmtFrac_ok: the hypothesis on the
                      number formatter has an instance for all numbers (history_refines_frac: no hypothesis left).
  eq_legacy_fails_on / eq_legacy_not_iff   the comparison before fix C10_2 (tuple rows never equal list rows) broke
                      both the equality clause and the round trip on every operator made with `centric=True`.

  Outside the grammar (nothing is claimed, the harness does not generate it): two signs in a row (`1/2+-X`: Python
  raises SyntaxError from `eval`), an axis twice, two translations, exponents, numerals such as `1.5/3`.
-/
import ShelxModel.C10
import Mathlib.Tactic.Ring
import Mathlib.Tactic.Linarith
import Mathlib.Tactic.FieldSimp
import Mathlib.Tactic.Push
import Mathlib.Tactic.NormNum

set_option linter.unnecessarySeqFocus false

namespace Shelx.C10

/-! ### characters -/

/-- the characters a numeral is written with -/
def isNumChar (c : Char) : Bool := (digitVal c).isSome || c = '.' || c = '/'

theorem digitVal_digitChar (d : Digit) : digitVal (digitChar d.val) = some d.val := by
  revert d; decide

theorem isNumChar_digit (d : Digit) : isNumChar (digitChar d.val) = true := by
  revert d; decide

theorem numChars_digits (ds : List Digit) : ∀ ch ∈ digitsChars ds, isNumChar ch = true := by
  intro ch h
  simp only [digitsChars, List.mem_map] at h
  obtain ⟨d, _, rfl⟩ := h
  exact isNumChar_digit d

theorem numChars_numeral (v : Numeral) : ∀ ch ∈ v.chars, isNumChar ch = true := by
  intro ch h
  cases v <;> simp only [Numeral.chars, List.mem_append, List.mem_singleton] at h
  · rcases h with (h | rfl) | h
    · exact numChars_digits _ _ h
    · decide
    · exact numChars_digits _ _ h
  · exact numChars_digits _ _ h
  · rcases h with (h | rfl) | h
    · exact numChars_digits _ _ h
    · decide
    · exact numChars_digits _ _ h

theorem numChar_ne {ch : Char} (h : isNumChar ch = true) :
    ch ≠ '+' ∧ ch ≠ '-' ∧ ch ≠ 'X' ∧ ch ≠ 'Y' ∧ ch ≠ 'Z' := by
  refine ⟨?_, ?_, ?_, ?_, ?_⟩ <;> (intro e; subst e; revert h; decide)

theorem axis_char_inj {a b : Axis} (h : a.char = b.char) : a = b := by
  cases a <;> cases b <;> first | rfl | (revert h; decide)

theorem axis_not_in_sign (a : Axis) (s : Sign) : a.char ∉ s.chars := by
  cases a <;> cases s <;> decide

theorem axis_not_in_numeral (a : Axis) (v : Numeral) : a.char ∉ v.chars := by
  intro h
  have := numChar_ne (numChars_numeral v _ h)
  cases a <;> simp [Axis.char] at this


/-! ### `str.partition` on printed components -/

theorem partitionAt_append_of_not_mem (c : Char) (w rest : List Char) (h : c ∉ w) :
    partitionAt c (w ++ rest) = (partitionAt c rest).map fun p => (w ++ p.1, p.2) := by
  induction w with
  | nil => simp only [List.nil_append]; cases partitionAt c rest <;> simp
  | cons x w ih =>
    have hx : x ≠ c := fun e => h (by simp [e])
    have hw : c ∉ w := fun e => h (by simp [e])
    simp only [List.cons_append, partitionAt, hx, if_false, ih hw]
    cases partitionAt c rest <;> simp

theorem print_append (p q : Component) : print (p ++ q) = print p ++ print q := by
  induction p with
  | nil => rfl
  | cons i r ih => simp [print, ih]

/-- first term with axis `a`: (items before, its sign, items after) -/
def splitItems (a : Axis) : Component → Option (Component × Sign × Component)
  | [] => none
  | .term s b :: r =>
    if b = a then some ([], s, r) else (splitItems a r).map fun t => (.term s b :: t.1, t.2.1, t.2.2)
  | .num s v :: r => (splitItems a r).map fun t => (.num s v :: t.1, t.2.1, t.2.2)

theorem partitionAt_print (a : Axis) (c : Component) :
    partitionAt a.char (print c) = (splitItems a c).map fun t => (print t.1 ++ t.2.1.chars, print t.2.2) := by
  induction c with
  | nil => rfl
  | cons i r ih =>
    cases i with
    | term s b =>
      by_cases hb : b = a
      · subst hb
        have : print (Item.term s b :: r) = s.chars ++ (b.char :: print r) := by simp [print, Item.chars]
        rw [this, partitionAt_append_of_not_mem _ _ _ (axis_not_in_sign b s)]
        simp [partitionAt, splitItems, print]
      · have hc : a.char ∉ s.chars ++ [b.char] := by
          intro h
          rcases List.mem_append.1 h with h | h
          · exact axis_not_in_sign a s h
          · exact hb (axis_char_inj (List.mem_singleton.1 h)).symm
        have : print (Item.term s b :: r) = (s.chars ++ [b.char]) ++ print r := by simp [print, Item.chars]
        rw [this, partitionAt_append_of_not_mem _ _ _ hc, ih]
        simp only [splitItems, hb, if_false]
        cases splitItems a r <;> simp [print, Item.chars]
    | num s v =>
      have hc : a.char ∉ s.chars ++ v.chars := by
        intro h
        rcases List.mem_append.1 h with h | h
        · exact axis_not_in_sign a s h
        · exact axis_not_in_numeral a v h
      have : print (Item.num s v :: r) = (s.chars ++ v.chars) ++ print r := by simp [print, Item.chars]
      rw [this, partitionAt_append_of_not_mem _ _ _ hc, ih]
      simp only [splitItems]
      cases splitItems a r <;> simp [print, Item.chars]

theorem splitItems_some {a : Axis} {c p q : Component} {s : Sign} (h : splitItems a c = some (p, s, q)) :
    c = p ++ .term s a :: q := by
  induction c generalizing p with
  | nil => simp [splitItems] at h
  | cons i r ih =>
    cases i with
    | term s' b =>
      by_cases hb : b = a
      · subst hb
        simp only [splitItems, if_true, Option.some.injEq, Prod.mk.injEq] at h
        obtain ⟨rfl, rfl, rfl⟩ := h
        rfl
      · simp only [splitItems, hb, if_false] at h
        cases hs : splitItems a r with
        | none => simp [hs] at h
        | some t =>
          obtain ⟨p', s'', q'⟩ := t
          simp only [hs, Option.map_some, Option.some.injEq, Prod.mk.injEq] at h
          obtain ⟨rfl, rfl, rfl⟩ := h
          rw [ih hs]; rfl
    | num s' v =>
      simp only [splitItems] at h
      cases hs : splitItems a r with
      | none => simp [hs] at h
      | some t =>
        obtain ⟨p', s'', q'⟩ := t
        simp only [hs, Option.map_some, Option.some.injEq, Prod.mk.injEq] at h
        obtain ⟨rfl, rfl, rfl⟩ := h
        rw [ih hs]; rfl

theorem splitItems_none {a : Axis} {c : Component} (h : splitItems a c = none) : axisCount a c = 0 := by
  induction c with
  | nil => rfl
  | cons i r ih =>
    cases i with
    | term s b =>
      by_cases hb : b = a
      · simp [splitItems, hb] at h
      · simp only [splitItems, hb, if_false, Option.map_eq_none_iff] at h
        simp [axisCount, hb, ih h]
    | num s v =>
      simp only [splitItems, Option.map_eq_none_iff] at h
      simp [axisCount, ih h]


/-! ### `_partition` on printed components, at the level of items -/

/-- a `+` that `.replace('+', '')` deletes -/
def stripPlus : Item → Item
  | .term .plus a => .term .none a
  | .num .plus v => .num .none v
  | i => i

/-- what `_partition` does to a printed component: the first term with axis `a` disappears;
    unless its sign is `-`, every `+` disappears too -/
def stepItems (a : Axis) (c : Component) : Int × Component :=
  match splitItems a c with
  | none => (0, c)
  | some (p, s, q) => if s = .minus then (-1, p ++ q) else (1, (p ++ q).map stripPlus)

theorem removePlus_append (u v : List Char) : removePlus (u ++ v) = removePlus u ++ removePlus v := by
  simp [removePlus]

theorem removePlus_of_numChars (w : List Char) (h : ∀ ch ∈ w, isNumChar ch = true) : removePlus w = w := by
  simp only [removePlus, List.filter_eq_self]
  intro ch hch
  simpa using (numChar_ne (h ch hch)).1

theorem removePlus_print (c : Component) : removePlus (print c) = print (c.map stripPlus) := by
  induction c with
  | nil => rfl
  | cons i r ih =>
    simp only [print, List.map_cons, removePlus_append, ih]
    congr 1
    cases i with
    | term s a => cases s <;> cases a <;> decide
    | num s v =>
      have hv := removePlus_of_numChars _ (numChars_numeral v)
      cases s
      · simpa [stripPlus, Item.chars, Sign.chars] using hv
      · show removePlus (['+'] ++ v.chars) = [] ++ v.chars
        rw [removePlus_append, hv]; rfl
      · show removePlus (['-'] ++ v.chars) = ['-'] ++ v.chars
        rw [removePlus_append, hv]; rfl

theorem numeral_chars_ne_nil {v : Numeral} (h : v.wf = true) : v.chars ≠ [] := by
  cases v <;> simp [Numeral.wf] at h <;> simp [Numeral.chars, digitsChars] <;> exact h

theorem getLast?_print_ne_minus (p : Component) (h : allWf p = true) : (print p).getLast? ≠ some '-' := by
  induction p with
  | nil => simp [print]
  | cons i r ih =>
    cases i with
    | term s a =>
      have hr := ih (by simpa [allWf] using h)
      simp only [print, Item.chars, List.getLast?_append, List.append_assoc]
      cases hl : (print r).getLast? with
      | some ch => intro e; simp [hl] at hr e; exact hr e
      | none => cases a <;> simp [Axis.char]
    | num s v =>
      simp only [allWf, Bool.and_eq_true] at h
      have hr := ih h.2
      simp only [print, Item.chars, List.getLast?_append, List.append_assoc]
      cases hl : (print r).getLast? with
      | some ch => intro e; simp [hl] at hr e; exact hr e
      | none =>
        have hne := numeral_chars_ne_nil h.1
        cases hv : v.chars.getLast? with
        | none => simp [List.getLast?_eq_none_iff] at hv; exact absurd hv hne
        | some ch =>
          have hm : ch ∈ v.chars := List.mem_of_getLast? hv
          have := (numChar_ne (numChars_numeral v ch hm)).2.1
          simp [this]

theorem allWf_append (p q : Component) : allWf (p ++ q) = (allWf p && allWf q) := by
  induction p with
  | nil => simp [allWf]
  | cons i r ih => cases i <;> simp [allWf, ih, Bool.and_assoc]

theorem partitionModel_print (a : Axis) (c : Component) (h : allWf c = true) :
    partitionModel (print c) a.char = ((stepItems a c).1, print (stepItems a c).2) := by
  unfold partitionModel stepItems
  rw [partitionAt_print]
  cases hs : splitItems a c with
  | none => rfl
  | some t =>
    obtain ⟨p, s, q⟩ := t
    have hc := splitItems_some hs
    have hp : allWf p = true := by
      rw [hc, allWf_append] at h
      exact (Bool.and_eq_true _ _ ▸ h).1
    cases s with
    | minus =>
      simp [Sign.chars, print_append]
    | plus =>
      simp [Sign.chars, print_append, ← removePlus_print, removePlus]
    | none =>
      simp only [Option.map_some, Sign.chars, List.append_nil]
      have hl := getLast?_print_ne_minus p hp
      cases hg : (print p).getLast? with
      | none => simp [print_append, ← removePlus_print, removePlus_append]
      | some ch =>
        have : ch ≠ '-' := by intro e; rw [hg, e] at hl; exact hl rfl
        simp [this, print_append, ← removePlus_print, removePlus_append]


/-! ### what a step keeps -/

theorem coef_append (a : Axis) (p q : Component) : coef a (p ++ q) = coef a p + coef a q := by
  induction p with
  | nil => simp [coef]
  | cons i r ih => cases i <;> simp [coef, ih, Int.add_assoc]

theorem axisCount_append (a : Axis) (p q : Component) : axisCount a (p ++ q) = axisCount a p + axisCount a q := by
  induction p with
  | nil => simp [axisCount]
  | cons i r ih => cases i <;> simp [axisCount, ih, Nat.add_assoc]

theorem numCount_append (p q : Component) : numCount (p ++ q) = numCount p + numCount q := by
  induction p with
  | nil => simp [numCount]
  | cons i r ih => cases i <;> simp [numCount, ih, Nat.add_assoc]

theorem transOf_append (p q : Component) : transOf (p ++ q) = transOf p + transOf q := by
  induction p with
  | nil => simp [transOf]
  | cons i r ih => cases i <;> simp [transOf, ih, Rat.add_assoc]

theorem coef_strip (a : Axis) (c : Component) : coef a (c.map stripPlus) = coef a c := by
  induction c with
  | nil => rfl
  | cons i r ih => cases i with
    | term s b => cases s <;> simp [stripPlus, coef, ih, Sign.toInt]
    | num s v => cases s <;> simp [stripPlus, coef, ih]

theorem axisCount_strip (a : Axis) (c : Component) : axisCount a (c.map stripPlus) = axisCount a c := by
  induction c with
  | nil => rfl
  | cons i r ih => cases i with
    | term s b => cases s <;> simp [stripPlus, axisCount, ih]
    | num s v => cases s <;> simp [stripPlus, axisCount, ih]

theorem numCount_strip (c : Component) : numCount (c.map stripPlus) = numCount c := by
  induction c with
  | nil => rfl
  | cons i r ih => cases i with
    | term s b => cases s <;> simp [stripPlus, numCount, ih]
    | num s v => cases s <;> simp [stripPlus, numCount, ih]

theorem transOf_strip (c : Component) : transOf (c.map stripPlus) = transOf c := by
  induction c with
  | nil => rfl
  | cons i r ih => cases i with
    | term s b => cases s <;> simp [stripPlus, transOf, ih]
    | num s v => cases s <;> simp [stripPlus, transOf, ih, Sign.toInt]

theorem allWf_strip (c : Component) : allWf (c.map stripPlus) = allWf c := by
  induction c with
  | nil => rfl
  | cons i r ih => cases i with
    | term s b => cases s <;> simp [stripPlus, allWf, ih]
    | num s v => cases s <;> simp [stripPlus, allWf, ih]

theorem coef_eq_zero (a : Axis) (c : Component) (h : axisCount a c = 0) : coef a c = 0 := by
  induction c with
  | nil => rfl
  | cons i r ih =>
    cases i with
    | term s b =>
      by_cases hb : b = a
      · simp [axisCount, hb] at h
      · simp only [axisCount, hb, if_false, Nat.zero_add] at h
        simp [coef, hb, ih h]
    | num s v => simpa [coef] using ih (by simpa [axisCount] using h)

/-- one `_partition` step returns the coefficient of its axis and leaves the rest of the meaning untouched -/
theorem stepItems_spec (a : Axis) (c : Component) (hwf : allWf c = true) (hcount : axisCount a c ≤ 1) :
    (stepItems a c).1 = coef a c ∧ allWf (stepItems a c).2 = true ∧ axisCount a (stepItems a c).2 = 0 ∧
    (∀ b, b ≠ a → axisCount b (stepItems a c).2 = axisCount b c ∧ coef b (stepItems a c).2 = coef b c) ∧
    numCount (stepItems a c).2 = numCount c ∧ transOf (stepItems a c).2 = transOf c := by
  unfold stepItems
  cases hs : splitItems a c with
  | none =>
    have h0 := splitItems_none hs
    simp [coef_eq_zero a c h0, hwf, h0]
  | some t =>
    obtain ⟨p, s, q⟩ := t
    have hc := splitItems_some hs
    subst hc
    simp only [axisCount_append, axisCount, if_true] at hcount
    have hp : axisCount a p = 0 := by omega
    have hq : axisCount a q = 0 := by omega
    have hwf' : allWf (p ++ q) = true := by
      simp only [allWf_append, allWf, Bool.and_eq_true] at hwf ⊢
      exact hwf
    have hcoef : coef a (p ++ Item.term s a :: q) = s.toInt := by
      simp [coef_append, coef, coef_eq_zero a p hp, coef_eq_zero a q hq]
    have hb : ∀ b, b ≠ a → axisCount b (p ++ q) = axisCount b (p ++ Item.term s a :: q) ∧
        coef b (p ++ q) = coef b (p ++ Item.term s a :: q) := by
      intro b hb
      have : ¬ a = b := fun e => hb e.symm
      simp [axisCount_append, axisCount, coef_append, coef, this]
    have hn : numCount (p ++ q) = numCount (p ++ Item.term s a :: q) := by
      simp [numCount_append, numCount]
    have ht : transOf (p ++ q) = transOf (p ++ Item.term s a :: q) := by
      simp [transOf_append, transOf]
    cases s with
    | minus =>
      simp only [if_true, hcoef]
      exact ⟨rfl, hwf', by simp [axisCount_append, hp, hq], hb, hn, ht⟩
    | plus =>
      simp only [reduceCtorEq, if_false, hcoef, allWf_strip, axisCount_strip, coef_strip, numCount_strip, transOf_strip]
      exact ⟨rfl, hwf', by simp [axisCount_append, hp, hq], hb, hn, ht⟩
    | none =>
      simp only [reduceCtorEq, if_false, hcoef, allWf_strip, axisCount_strip, coef_strip, numCount_strip, transOf_strip]
      exact ⟨rfl, hwf', by simp [axisCount_append, hp, hq], hb, hn, ht⟩


/-! ### `float()` / `eval` on printed numerals -/

def vals (ds : List Digit) : List Nat := ds.map fun d => d.val

theorem spanDigits_digits (ds : List Digit) (r : List Char) (hr : ∀ ch t, r = ch :: t → digitVal ch = none) :
    spanDigits (digitsChars ds ++ r) = (vals ds, r) := by
  induction ds with
  | nil =>
    cases r with
    | nil => rfl
    | cons ch t => simp [digitsChars, vals, spanDigits, hr ch t rfl]
  | cons d ds ih =>
    have : digitsChars (d :: ds) ++ r = digitChar d.val :: (digitsChars ds ++ r) := by simp [digitsChars]
    rw [this]
    simp only [spanDigits, digitVal_digitChar, ih]
    simp [vals]

theorem spanDigits_digits_nil (ds : List Digit) : spanDigits (digitsChars ds) = (vals ds, []) := by
  have := spanDigits_digits ds [] (by intro ch t h; cases h)
  simpa using this

theorem natOfDigits_vals (ds : List Digit) : natOfDigits (vals ds) = digitsVal ds := by
  simp [natOfDigits, digitsVal, vals, List.foldl_map]

theorem foldl_digits_acc (ds : List Digit) (acc : Nat) :
    ds.foldl (fun a d => 10 * a + d.val) acc = acc * 10 ^ ds.length + digitsVal ds := by
  induction ds generalizing acc with
  | nil => simp [digitsVal]
  | cons d ds ih =>
    simp only [List.foldl_cons, List.length_cons, digitsVal]
    rw [ih (10 * acc + d.val), ih (10 * 0 + d.val)]
    ring

theorem digitsVal_append (p q : List Digit) : digitsVal (p ++ q) = digitsVal p * 10 ^ q.length + digitsVal q := by
  simp only [digitsVal, List.foldl_append]
  exact foldl_digits_acc q _

theorem digitsVal_cons (d : Digit) (ds : List Digit) : digitsVal (d :: ds) = d.val * 10 ^ ds.length + digitsVal ds := by
  have := digitsVal_append [d] ds
  simpa [digitsVal] using this

theorem fracOfDigits_vals (fp : List Digit) :
    fracOfDigits (vals fp) = (digitsVal fp : Rat) / (10 : Rat) ^ fp.length := by
  induction fp with
  | nil => simp [vals, fracOfDigits, digitsVal]
  | cons d ds ih =>
    have h10 : ((10 : Rat) ^ ds.length) ≠ 0 := pow_ne_zero _ (by norm_num)
    simp only [vals, List.map_cons, fracOfDigits] at ih ⊢
    rw [ih, digitsVal_cons]
    push_cast
    rw [List.length_cons, pow_succ]
    field_simp

theorem digitVal_dot : digitVal '.' = none := by decide
theorem digitVal_slash : digitVal '/' = none := by decide

theorem vals_eq_nil {ds : List Digit} : vals ds = [] ↔ ds = [] := by simp [vals]

theorem pyFloatUnsigned_numeral (v : Numeral) (h : v.wf = true) :
    pyFloatUnsigned v.chars = match v with
      | .frac _ _ => none
      | _ => some v.value := by
  cases v with
  | frac n d =>
    have : spanDigits (digitsChars n ++ '/' :: digitsChars d) = (vals n, '/' :: digitsChars d) :=
      spanDigits_digits n _ (by intro ch t e; cases e; exact digitVal_slash)
    simp [pyFloatUnsigned, Numeral.chars, this]
  | int ip =>
    simp only [Numeral.wf, decide_eq_true_eq] at h
    simp [pyFloatUnsigned, Numeral.chars, spanDigits_digits_nil, vals_eq_nil, h, natOfDigits_vals, Numeral.value]
  | dec ip fp =>
    simp only [Numeral.wf, decide_eq_true_eq] at h
    have : spanDigits (digitsChars ip ++ '.' :: digitsChars fp) = (vals ip, '.' :: digitsChars fp) :=
      spanDigits_digits ip _ (by intro ch t e; cases e; exact digitVal_dot)
    have h10 : ((10 : Rat) ^ fp.length) ≠ 0 := pow_ne_zero _ (by norm_num)
    have hne : ¬ (ip = [] ∧ fp = []) := by
      intro hh; rcases h with h | h
      · exact h hh.1
      · exact h hh.2
    simp only [pyFloatUnsigned, Numeral.chars, List.append_assoc, List.singleton_append, this,
      spanDigits_digits_nil, vals_eq_nil, natOfDigits_vals, fracOfDigits_vals, Numeral.value, digitsVal_append]
    simp only [ne_eq, not_true_eq_false, if_false, hne]
    congr 1
    push_cast
    field_simp

theorem head_numeral_chars (v : Numeral) (h : v.wf = true) :
    ∃ ch t, v.chars = ch :: t ∧ isNumChar ch = true := by
  have hne := numeral_chars_ne_nil h
  cases hv : v.chars with
  | nil => exact absurd hv hne
  | cons ch t => exact ⟨ch, t, rfl, numChars_numeral v ch (by simp [hv])⟩

theorem pyFloat_unsigned {w : List Char} {ch : Char} {t : List Char} (hw : w = ch :: t)
    (hp : ch ≠ '+') (hm : ch ≠ '-') : pyFloat w = pyFloatUnsigned w := by
  subst hw
  unfold pyFloat
  split
  · rename_i e; cases e; exact absurd rfl hp
  · rename_i e; cases e; exact absurd rfl hm
  · rfl

theorem evalFrac_unsigned {w : List Char} {ch : Char} {t : List Char} (hw : w = ch :: t)
    (hp : ch ≠ '+') (hm : ch ≠ '-') : evalFrac w = evalFracUnsigned w := by
  subst hw
  unfold evalFrac
  split
  · rename_i e; cases e; exact absurd rfl hp
  · rename_i e; cases e; exact absurd rfl hm
  · rfl

theorem evalFracUnsigned_frac (n d : List Digit) (h : (Numeral.frac n d).wf = true) :
    evalFracUnsigned (Numeral.frac n d).chars = .ok (Numeral.frac n d).value := by
  simp only [Numeral.wf, decide_eq_true_eq] at h
  have : spanDigits (digitsChars n ++ '/' :: digitsChars d) = (vals n, '/' :: digitsChars d) :=
    spanDigits_digits n _ (by intro ch t e; cases e; exact digitVal_slash)
  simp [evalFracUnsigned, Numeral.chars, this, spanDigits_digits_nil, vals_eq_nil, h, natOfDigits_vals, Numeral.value]

/-- `_float` reads a signed numeral as the number it denotes -/
theorem floatModel_numeral (s : Sign) (v : Numeral) (h : v.wf = true) :
    floatModel (s.chars ++ v.chars) = .ok ((s.toInt : Rat) * v.value) := by
  obtain ⟨ch, t, hv, hch⟩ := head_numeral_chars v h
  obtain ⟨hp, hm, -⟩ := numChar_ne hch
  have hU := pyFloat_unsigned hv hp hm
  have hE := evalFrac_unsigned hv hp hm
  have hpf := pyFloatUnsigned_numeral v h
  cases v with
  | frac n d =>
    have hmem : '/' ∈ (Numeral.frac n d).chars := by simp [Numeral.chars]
    have hev := evalFracUnsigned_frac n d h
    simp only at hpf
    cases s with
    | none =>
      simp only [Sign.chars, List.nil_append, floatModel, hU, hpf, hmem, if_true, hE, hev, Sign.toInt]
      simp
    | plus =>
      simp only [Sign.chars, List.singleton_append, floatModel, pyFloat, hpf, List.mem_cons, hmem, or_true, if_true,
        evalFrac, hE, hev, Sign.toInt]
      simp
    | minus =>
      simp only [Sign.chars, List.singleton_append, floatModel, pyFloat, hpf, Option.map_none, List.mem_cons, hmem,
        or_true, if_true, evalFrac, hE, hev, Sign.toInt]
      simp [Except.map]
  | int ip =>
    simp only at hpf
    cases s with
    | none => simp [Sign.chars, floatModel, hU, hpf, Sign.toInt]
    | plus => simp [Sign.chars, floatModel, pyFloat, hpf, Sign.toInt]
    | minus => simp [Sign.chars, floatModel, pyFloat, hpf, Sign.toInt]
  | dec ip fp =>
    simp only at hpf
    cases s with
    | none => simp [Sign.chars, floatModel, hU, hpf, Sign.toInt]
    | plus => simp [Sign.chars, floatModel, pyFloat, hpf, Sign.toInt]
    | minus => simp [Sign.chars, floatModel, pyFloat, hpf, Sign.toInt]


/-! ### the parser on the grammar -/

theorem nil_of_counts (c : Component) (hx : axisCount .x c = 0) (hy : axisCount .y c = 0) (hz : axisCount .z c = 0)
    (hn : numCount c = 0) : c = [] := by
  cases c with
  | nil => rfl
  | cons i r =>
    cases i with
    | term s a => cases a <;> simp [axisCount] at hx hy hz
    | num s v => simp [numCount] at hn

theorem only_num (c : Component) (hx : axisCount .x c = 0) (hy : axisCount .y c = 0) (hz : axisCount .z c = 0)
    (hn : numCount c ≤ 1) : c = [] ∨ ∃ s v, c = [.num s v] := by
  cases c with
  | nil => exact Or.inl rfl
  | cons i r =>
    cases i with
    | term s a => cases a <;> simp [axisCount] at hx hy hz
    | num s v =>
      simp only [axisCount, numCount] at hx hy hz hn
      have : r = [] := nil_of_counts r hx hy hz (by omega)
      exact Or.inr ⟨s, v, by rw [this]⟩

/-- the parser applied to text that normalises to the printed component -/
theorem parseComp_of_normalise (c : Component) (h : Valid c = true) (t : List Char) (ht : normalise t = print c) :
    parseComp t = .ok (denote c) := by
  simp only [Valid, Bool.decide_and, Bool.and_eq_true, decide_eq_true_eq] at h
  obtain ⟨hx, hy, hz, hn, hwf⟩ := h
  obtain ⟨a1, w1, x1, o1, n1, t1⟩ := stepItems_spec .x c hwf hx
  have hy1 : axisCount .y (stepItems .x c).2 ≤ 1 := by rw [(o1 .y (by decide)).1]; exact hy
  obtain ⟨a2, w2, y2, o2, n2, t2⟩ := stepItems_spec .y (stepItems .x c).2 w1 hy1
  have hz2 : axisCount .z (stepItems .y (stepItems .x c).2).2 ≤ 1 := by
    rw [(o2 .z (by decide)).1, (o1 .z (by decide)).1]; exact hz
  obtain ⟨a3, w3, z3, o3, n3, t3⟩ := stepItems_spec .z (stepItems .y (stepItems .x c).2).2 w2 hz2
  generalize hc1 : (stepItems .x c).2 = c1 at *
  generalize hc2 : (stepItems .y c1).2 = c2 at *
  generalize hc3 : (stepItems .z c2).2 = c3 at *
  have e1 : partitionModel (print c) 'X' = (coef .x c, print c1) := by
    have := partitionModel_print .x c hwf
    rw [a1, hc1] at this; exact this
  have e2 : partitionModel (print c1) 'Y' = (coef .y c, print c2) := by
    have := partitionModel_print .y c1 w1
    rw [a2, hc2, (o1 .y (by decide)).2] at this; exact this
  have e3 : partitionModel (print c2) 'Z' = (coef .z c, print c3) := by
    have := partitionModel_print .z c2 w2
    rw [a3, hc3, (o2 .z (by decide)).2, (o1 .z (by decide)).2] at this; exact this
  have hx3 : axisCount .x c3 = 0 := by rw [(o3 .x (by decide)).1, (o2 .x (by decide)).1]; exact x1
  have hy3 : axisCount .y c3 = 0 := by rw [(o3 .y (by decide)).1]; exact y2
  have hn3 : numCount c3 ≤ 1 := by rw [n3, n2, n1]; exact hn
  have ht3 : transOf c3 = transOf c := by rw [t3, t2, t1]
  simp only [parseComp, ht, e1, e2, e3, denote]
  rcases only_num c3 hx3 hy3 z3 hn3 with rfl | ⟨s, v, rfl⟩
  · simp [print, ← ht3, transOf]
  · simp only [allWf, Bool.and_true] at w3
    have hne : print [Item.num s v] ≠ [] := by
      simp [print, Item.chars, numeral_chars_ne_nil w3]
    have hp : print [Item.num s v] = s.chars ++ v.chars := by simp [print, Item.chars]
    rw [hp] at hne
    simp only [hp, if_neg hne, floatModel_numeral s v w3, ← ht3, transOf]
    simp [Except.map]


/-! ### blanks and case -/

/-- a character that `upper()` leaves alone, whose lower-case form `upper()` brings back, and that is not a blank -/
def cleanChar (ch : Char) : Bool :=
  ch.toUpper = ch && ch ≠ ' ' && ch.toLower.toUpper = ch && ch.toLower ≠ ' '

theorem clean_digit (d : Digit) : cleanChar (digitChar d.val) = true := by
  revert d; decide

theorem clean_digits (ds : List Digit) : ∀ ch ∈ digitsChars ds, cleanChar ch = true := by
  intro ch h
  simp only [digitsChars, List.mem_map] at h
  obtain ⟨d, _, rfl⟩ := h
  exact clean_digit d

theorem clean_numeral (v : Numeral) : ∀ ch ∈ v.chars, cleanChar ch = true := by
  intro ch h
  cases v <;> simp only [Numeral.chars, List.mem_append, List.mem_singleton] at h
  · rcases h with (h | rfl) | h
    · exact clean_digits _ _ h
    · decide
    · exact clean_digits _ _ h
  · exact clean_digits _ _ h
  · rcases h with (h | rfl) | h
    · exact clean_digits _ _ h
    · decide
    · exact clean_digits _ _ h

theorem clean_sign (s : Sign) : ∀ ch ∈ s.chars, cleanChar ch = true := by
  cases s <;> decide

theorem clean_print (c : Component) : ∀ ch ∈ print c, cleanChar ch = true := by
  induction c with
  | nil => intro ch h; simp [print] at h
  | cons i r ih =>
    intro ch h
    simp only [print, List.mem_append] at h
    rcases h with h | h
    · cases i with
      | term s a =>
        simp only [Item.chars, List.mem_append, List.mem_singleton] at h
        rcases h with h | rfl
        · exact clean_sign s ch h
        · cases a <;> decide
      | num s v =>
        simp only [Item.chars, List.mem_append] at h
        rcases h with h | h
        · exact clean_sign s ch h
        · exact clean_numeral v ch h
    · exact ih ch h

theorem normalise_cons (ch : Char) (t : List Char) :
    normalise (ch :: t) = if ch.toUpper ≠ ' ' then ch.toUpper :: normalise t else normalise t := by
  simp only [normalise, List.map_cons, List.filter_cons]
  by_cases h : ch.toUpper = ' ' <;> simp [h]

/-- blanks anywhere and lower-case letters do not change what the parser sees -/
theorem normalise_relayout {s t : List Char} (hs : ∀ ch ∈ s, cleanChar ch = true) (h : Relayout s t) :
    normalise t = s := by
  induction h with
  | nil => rfl
  | blank _ ih => rw [normalise_cons]; simpa using ih hs
  | same ch _ ih =>
    have hc := hs ch (by simp)
    simp only [cleanChar, Bool.and_eq_true, decide_eq_true_eq] at hc
    rw [normalise_cons, hc.1.1.1]
    simp [hc.1.1.2, ih (fun x hx => hs x (by simp [hx]))]
  | lower ch _ ih =>
    have hc := hs ch (by simp)
    simp only [cleanChar, Bool.and_eq_true, decide_eq_true_eq] at hc
    rw [normalise_cons, hc.1.2]
    simp [hc.1.1.2, ih (fun x hx => hs x (by simp [hx]))]

/-- **parse_denote** — every component of the grammar (signed x, y, z in any order, each at most once; at most
    one translation `n/d`, integer or decimal with numerals of any length, anywhere among the terms; signs
    optional), written with blanks anywhere and in either case, is parsed to exactly the matrix row and the
    translation it denotes.
    `Valid` excludes: an axis twice (`X+X`), two translations (`1/2+X+1/4`), a numeral without digits or with
    denominator 0 (Python: the rest is not a number — `ValueError`/`SyntaxError`/`ZeroDivisionError`/`None`). -/
theorem parse_denote (c : Component) (h : Valid c = true) (t : List Char) (hl : Relayout (print c) t) :
    parseComp t = .ok (denote c) :=
  parseComp_of_normalise c h t (normalise_relayout (clean_print c) hl)

theorem relayout_refl (s : List Char) : Relayout s s := by
  induction s with
  | nil => exact .nil
  | cons c s ih => exact .same c ih

/-- the same without layout: the canonical spelling -/
theorem parse_print (c : Component) (h : Valid c = true) : parseComp (print c) = .ok (denote c) :=
  parse_denote c h _ (relayout_refl _)

/-- a concrete input inside the hypotheses: ` -y + x+ 11/12` -/
example : parseComp " -y + x+ 11/12".toList = .ok ((1, -1, 0), (11 : Rat) / 12) := by
  have h := parse_denote [.term .minus .y, .term .plus .x, .num .plus (.frac [1, 1] [1, 2])] (by decide)
    " -y + x+ 11/12".toList
    (by
      show Relayout ['-', 'Y', '+', 'X', '+', '1', '1', '/', '1', '2'] [' ', '-', 'y', ' ', '+', ' ', 'x', '+', ' ', '1', '1', '/', '1', '2']
      exact .blank (.same _ (.lower 'Y' (.blank (.same _ (.blank (.lower 'X' (.same _ (.blank (.same _ (.same _ (.same _ (.same _ (.same _ .nil))))))))))))))
  rw [h]
  simp [denote, coef, transOf, Sign.toInt, Numeral.value, digitsVal]


/-! ### equality modulo lattice translations -/

/-- `x` is a multiple of `1/N` -/
def Grid (N : Nat) (x : Rat) : Prop := ∃ m : Int, x * N = m

def Op.onGrid (N : Nat) (o : Op) : Prop := Grid N o.r0.t ∧ Grid N o.r1.t ∧ Grid N o.r2.t

theorem grid_sub {N : Nat} {x y : Rat} (hx : Grid N x) (hy : Grid N y) : Grid N (x - y) := by
  obtain ⟨m, hm⟩ := hx
  obtain ⟨n, hn⟩ := hy
  exact ⟨m - n, by push_cast; rw [← hm, ← hn]; ring⟩

theorem pyRound_int (k : Int) : pyRound (k : Rat) = k := by
  simp [pyRound, Rat.floor_intCast]

theorem nearInt_iff (tol d : Rat) (N : Nat) (hN : 0 < N) (h0 : 0 < tol) (hT : tol * N ≤ 1) (hg : Grid N d) :
    nearInt tol d = true ↔ ∃ k : Int, d = k := by
  constructor
  · intro h
    refine ⟨pyRound d, ?_⟩
    obtain ⟨m, hm⟩ := hg
    have hNq : (0 : Rat) < N := by exact_mod_cast hN
    simp only [nearInt, decide_eq_true_eq] at h
    -- e * N is the integer j, and |j| < 1
    have hj : (d - (pyRound d : Rat)) * N = ((m - pyRound d * N : Int) : Rat) := by
      push_cast; rw [← hm]; ring
    generalize hjd : (m - pyRound d * N : Int) = j at hj
    have habs : -(1 : Rat) < (j : Rat) ∧ (j : Rat) < 1 := by
      rw [← hj]
      split at h
      · rename_i hneg
        constructor
        · nlinarith
        · nlinarith
      · rename_i hpos
        push Not at hpos
        constructor
        · nlinarith
        · nlinarith
    have hj0 : j = 0 := by
      have h1 : (-1 : Int) < j := by exact_mod_cast habs.1
      have h2 : j < (1 : Int) := by exact_mod_cast habs.2
      omega
    rw [hj0] at hj
    have : d - (pyRound d : Rat) = 0 := by
      have hj' : (d - (pyRound d : Rat)) * N = 0 := by simpa using hj
      rcases mul_eq_zero.1 hj' with h | h
      · exact h
      · exact absurd h (ne_of_gt hNq)
    linarith
  · rintro ⟨k, rfl⟩
    simp [nearInt, pyRound_int, h0]

/-- **eq_iff_mod_lattice** — `==` on operators (repaired `__eq__`, tolerance `tol`) holds exactly when the
    matrices are the same and every translation difference is a whole number.
    Hypotheses: the translations of both operators are multiples of `1/N` and `tol ≤ 1/N` — a tolerance cannot
    tell a lattice translation from a translation closer than `tol` to one (`X+0.0000000001` == `X` in the
    real code); with `tol = 1e-9` this admits every `N ≤ 10⁹`, in particular all k/12 and all decimals with up
    to 9 places. -/
theorem eq_iff_mod_lattice (tol : Rat) (N : Nat) (a b : Op) (hN : 0 < N) (h0 : 0 < tol) (hT : tol * N ≤ 1)
    (ha : a.onGrid N) (hb : b.onGrid N) : eqModel tol a b = true ↔ LatticeEq a b := by
  have e0 := nearInt_iff tol (a.r0.t - b.r0.t) N hN h0 hT (grid_sub ha.1 hb.1)
  have e1 := nearInt_iff tol (a.r1.t - b.r1.t) N hN h0 hT (grid_sub ha.2.1 hb.2.1)
  have e2 := nearInt_iff tol (a.r2.t - b.r2.t) N hN h0 hT (grid_sub ha.2.2 hb.2.2)
  simp only [eqModel, LatticeEq, Bool.decide_and, Bool.and_eq_true, decide_eq_true_eq, e0, e1, e2]

/-- the tolerance of the code with all translations on the twelfths grid -/
theorem eq_iff_mod_lattice_twelfths (a b : Op) (ha : a.onGrid 12) (hb : b.onGrid 12) :
    eqModel tolPy a b = true ↔ LatticeEq a b :=
  eq_iff_mod_lattice tolPy 12 a b (by decide) (by simp [tolPy]) (by simp [tolPy]; norm_num) ha hb

/-- the executable form of the specification used by the driver says the same -/
theorem latticeEqB_iff (a b : Op) : latticeEqB a b = true ↔ LatticeEq a b := by
  have key : ∀ x : Rat, x.den = 1 ↔ ∃ k : Int, x = k := by
    intro x
    constructor
    · intro h; exact ⟨x.num, by rw [← Rat.num_div_den x, h]; simp⟩
    · rintro ⟨k, rfl⟩; simp
  simp only [latticeEqB, LatticeEq, Bool.decide_and, Bool.and_eq_true, decide_eq_true_eq, key]

/-- `1/3+X, Y, Z` and `4/3+X, Y, Z` (the pair the float `% 1` comparison got wrong) are equal, `1/3` and `1/2` are not -/
example : eqModel tolPy ⟨⟨(1,0,0), 1/3⟩, ⟨(0,1,0), 0⟩, ⟨(0,0,1), 0⟩⟩ ⟨⟨(1,0,0), 4/3⟩, ⟨(0,1,0), 0⟩, ⟨(0,0,1), 0⟩⟩ = true ∧
    eqModel tolPy ⟨⟨(1,0,0), 1/3⟩, ⟨(0,1,0), 0⟩, ⟨(0,0,1), 0⟩⟩ ⟨⟨(1,0,0), 1/2⟩, ⟨(0,1,0), 0⟩, ⟨(0,0,1), 0⟩⟩ = false := by
  decide +kernel


/-! ### printing an operator and parsing it again -/

/-- the items `to_shelxl` writes for one matrix entry -/
def axisItems (m : Int) (a : Axis) : Component :=
  if m = 0 then [] else if m < 0 then [.term .minus a] else [.term .plus a]

theorem axisText_eq (m : Int) (a : Axis) : axisText m a.char = print (axisItems m a) := by
  unfold axisText axisItems
  split_ifs <;> simp [print, Item.chars, Sign.chars]

/-- a matrix entry that `to_shelxl` can express: -1, 0 or 1 (it prints the sign only) -/
def unitEntry (m : Int) : Bool := m = -1 ∨ m = 0 ∨ m = 1

def Row.unit (r : Row) : Bool := unitEntry r.c.1 && unitEntry r.c.2.1 && unitEntry r.c.2.2

theorem coef_axisItems (m : Int) (a b : Axis) (hu : unitEntry m = true) :
    coef a (axisItems m b) = if b = a then m else 0 := by
  simp only [unitEntry, decide_eq_true_eq] at hu
  rcases hu with rfl | rfl | rfl <;> by_cases h : b = a <;> simp [axisItems, coef, Sign.toInt, h]

theorem axisCount_axisItems (m : Int) (a b : Axis) : axisCount a (axisItems m b) ≤ if b = a then 1 else 0 := by
  unfold axisItems
  split_ifs <;> simp_all [axisCount]

theorem numCount_axisItems (m : Int) (b : Axis) : numCount (axisItems m b) = 0 := by
  unfold axisItems; split_ifs <;> simp [numCount]

theorem transOf_axisItems (m : Int) (b : Axis) : transOf (axisItems m b) = 0 := by
  unfold axisItems; split_ifs <;> simp [transOf]

theorem allWf_axisItems (m : Int) (b : Axis) : allWf (axisItems m b) = true := by
  unfold axisItems; split_ifs <;> simp [allWf]

/-- `fmt x` is a numeral, possibly signed, that denotes `x` (what `str(float)` has to deliver) -/
def FmtOk (fmt : Rat → List Char) (x : Rat) : Prop :=
  ∃ (s : Sign) (v : Numeral), v.wf = true ∧ fmt x = s.chars ++ v.chars ∧ (s.toInt : Rat) * v.value = x

/-- one printed row is parsed back to the row (also behind the blank that `', '.join` … `.split(',')` leaves) -/
theorem parse_rowText (fmt : Rat → List Char) (r : Row) (hu : r.unit = true) (hf : r.t ≠ 0 → FmtOk fmt r.t)
    (t : List Char) (hl : Relayout (rowText fmt r) t) : parseComp t = .ok (r.c, r.t) := by
  obtain ⟨⟨cx, cy, cz⟩, tr⟩ := r
  simp only [Row.unit, Bool.and_eq_true] at hu
  obtain ⟨⟨ux, uy⟩, uz⟩ := hu
  -- the component that is printed
  have key : ∃ n : Component, (if tr = 0 then [] else fmt tr) = print n ∧ numCount n ≤ 1 ∧ allWf n = true ∧
      transOf n = tr ∧ (∀ a, axisCount a n = 0) ∧ (∀ a, coef a n = 0) := by
    by_cases h0 : tr = 0
    · exact ⟨[], by simp [h0, print], by simp [numCount], rfl, by simp [transOf, h0], fun a => rfl, fun a => rfl⟩
    · obtain ⟨s, v, hv, hfm, hval⟩ := hf h0
      refine ⟨[.num s v], by simp [h0, hfm, print, Item.chars], by simp [numCount], by simp [allWf, hv],
        by simp [transOf, hval], fun a => rfl, fun a => rfl⟩
  obtain ⟨n, hn, hn1, hnw, hnt, hna, hnc⟩ := key
  let c : Component := n ++ axisItems cx .x ++ axisItems cy .y ++ axisItems cz .z
  have hprint : rowText fmt ⟨(cx, cy, cz), tr⟩ = print c := by
    simp only [rowText, hn, c, print_append]
    rw [show 'X' = Axis.x.char from rfl, show 'Y' = Axis.y.char from rfl, show 'Z' = Axis.z.char from rfl,
      axisText_eq, axisText_eq, axisText_eq]
  have hvalid : Valid c = true := by
    simp only [Valid, Bool.decide_and, Bool.and_eq_true, decide_eq_true_eq, c, axisCount_append, numCount_append,
      allWf_append, hna, hnw, allWf_axisItems, numCount_axisItems]
    have h1 := axisCount_axisItems cx .x .x
    have h2 := axisCount_axisItems cy .x .y
    have h3 := axisCount_axisItems cz .x .z
    have h4 := axisCount_axisItems cx .y .x
    have h5 := axisCount_axisItems cy .y .y
    have h6 := axisCount_axisItems cz .y .z
    have h7 := axisCount_axisItems cx .z .x
    have h8 := axisCount_axisItems cy .z .y
    have h9 := axisCount_axisItems cz .z .z
    simp only [reduceCtorEq, if_false, if_true] at h1 h2 h3 h4 h5 h6 h7 h8 h9
    refine ⟨by omega, by omega, by omega, by omega, by simp⟩
  have hden : denote c = ((cx, cy, cz), tr) := by
    simp only [denote, c, coef_append, transOf_append, hnc, hnt, transOf_axisItems, coef_axisItems _ _ _ ux,
      coef_axisItems _ _ _ uy, coef_axisItems _ _ _ uz]
    simp
  rw [hprint] at hl
  rw [parse_denote c hvalid t hl, hden]

theorem print_forall (P : Char → Prop) (hp : P '+') (hm : P '-') (ha : ∀ a : Axis, P a.char)
    (hd : ∀ d : Digit, P (digitChar d.val)) (hdot : P '.') (hsl : P '/') (c : Component) : ∀ ch ∈ print c, P ch := by
  have hds : ∀ ds : List Digit, ∀ ch ∈ digitsChars ds, P ch := by
    intro ds ch h
    simp only [digitsChars, List.mem_map] at h
    obtain ⟨d, _, rfl⟩ := h
    exact hd d
  have hs : ∀ s : Sign, ∀ ch ∈ s.chars, P ch := by
    intro s ch h
    cases s <;> simp [Sign.chars] at h <;> (subst h; assumption)
  have hv : ∀ v : Numeral, ∀ ch ∈ v.chars, P ch := by
    intro v ch h
    cases v <;> simp only [Numeral.chars, List.mem_append, List.mem_singleton] at h
    · rcases h with (h | rfl) | h
      · exact hds _ _ h
      · exact hsl
      · exact hds _ _ h
    · exact hds _ _ h
    · rcases h with (h | rfl) | h
      · exact hds _ _ h
      · exact hdot
      · exact hds _ _ h
  induction c with
  | nil => intro ch h; simp [print] at h
  | cons i r ih =>
    intro ch h
    simp only [print, List.mem_append] at h
    rcases h with h | h
    · cases i with
      | term s a =>
        simp only [Item.chars, List.mem_append, List.mem_singleton] at h
        rcases h with h | rfl
        · exact hs s ch h
        · exact ha a
      | num s v =>
        simp only [Item.chars, List.mem_append] at h
        rcases h with h | h
        · exact hs s ch h
        · exact hv v ch h
    · exact ih ch h

theorem comma_not_in_print (c : Component) : ',' ∉ print c := by
  intro h
  exact print_forall (fun ch => ch ≠ ',') (by decide) (by decide) (by intro a; cases a <;> decide) (by decide)
    (by decide) (by decide) c ',' h rfl

theorem splitCommaAux_append (w rest cur : List Char) (h : ',' ∉ w) :
    splitCommaAux (w ++ rest) cur = splitCommaAux rest (w.reverse ++ cur) := by
  induction w generalizing cur with
  | nil => rfl
  | cons x w ih =>
    have hx : x ≠ ',' := fun e => h (by simp [e])
    have hw : ',' ∉ w := fun e => h (by simp [e])
    simp only [List.cons_append, splitCommaAux, hx, if_false, ih _ hw, List.reverse_cons, List.append_assoc,
      List.nil_append]

theorem splitCommaAux_piece (w rest : List Char) (h : ',' ∉ w) :
    splitCommaAux (w ++ ',' :: rest) [] = w :: splitCommaAux rest [] := by
  rw [splitCommaAux_append _ _ _ h]
  simp [splitCommaAux]

theorem splitCommaAux_last (w : List Char) (h : ',' ∉ w) : splitCommaAux w [] = [w] := by
  have := splitCommaAux_append w [] [] h
  simpa [splitCommaAux] using this

theorem splitComma_three (w0 w1 w2 : List Char) (h0 : ',' ∉ w0) (h1 : ',' ∉ w1) (h2 : ',' ∉ w2) :
    splitComma (joinCommaBlank [w0, w1, w2]) = [w0, ' ' :: w1, ' ' :: w2] := by
  have hb1 : ',' ∉ ' ' :: w1 := by simp [h1]
  have hb2 : ',' ∉ ' ' :: w2 := by simp [h2]
  have e : joinCommaBlank [w0, w1, w2] = w0 ++ (',' :: ((' ' :: w1) ++ (',' :: ((' ' :: w2) ++ [])))) := by
    simp [joinCommaBlank]
  rw [e, splitComma, splitCommaAux_piece _ _ h0, splitCommaAux_piece _ _ hb1, List.append_nil,
    splitCommaAux_last _ hb2]

def Op.unit (o : Op) : Bool := o.r0.unit && o.r1.unit && o.r2.unit

theorem comma_not_in_rowText (fmt : Rat → List Char) (r : Row) (hf : r.t ≠ 0 → FmtOk fmt r.t) :
    ',' ∉ rowText fmt r := by
  have hax : ∀ m (a : Axis), ',' ∉ axisText m a.char := by
    intro m a; rw [axisText_eq]; exact comma_not_in_print _
  have hnum : ',' ∉ (if r.t = 0 then [] else fmt r.t) := by
    by_cases h0 : r.t = 0
    · simp [h0]
    · obtain ⟨s, v, _, hfm, _⟩ := hf h0
      have := comma_not_in_print [.num s v]
      simpa [h0, hfm, print, Item.chars] using this
  have hx := hax r.c.1 .x
  have hy := hax r.c.2.1 .y
  have hz := hax r.c.2.2 .z
  simp only [rowText, List.mem_append, not_or]
  exact ⟨⟨⟨hnum, hx⟩, hy⟩, hz⟩

/-- **print_parse_id** — `SymmetryElement(op.to_shelxl().split(','))` is `op`: for every operator with matrix
    entries in {-1, 0, 1} and every number formatter that writes each non-zero translation as a (signed)
    numeral denoting it, parsing the printed text gives back exactly the rows of the operator.
    `Op.unit` excludes entries such as 2, which `to_shelxl` prints as `+X` (no parsed operator has them). -/
theorem print_parse_id (fmt : Rat → List Char) (o : Op) (hu : o.unit = true)
    (hf : ∀ r ∈ o.rows, r.t ≠ 0 → FmtOk fmt r.t) :
    parseOp (splitComma (toShelxl fmt o.rows)) = .ok o.rows := by
  simp only [Op.unit, Bool.and_eq_true] at hu
  obtain ⟨⟨u0, u1⟩, u2⟩ := hu
  have f0 := hf o.r0 (by simp [Op.rows])
  have f1 := hf o.r1 (by simp [Op.rows])
  have f2 := hf o.r2 (by simp [Op.rows])
  have hs := splitComma_three _ _ _ (comma_not_in_rowText fmt o.r0 f0) (comma_not_in_rowText fmt o.r1 f1)
    (comma_not_in_rowText fmt o.r2 f2)
  have p0 := parse_rowText fmt o.r0 u0 f0 _ (relayout_refl _)
  have p1 := parse_rowText fmt o.r1 u1 f1 _ (Relayout.blank (relayout_refl _))
  have p2 := parse_rowText fmt o.r2 u2 f2 _ (Relayout.blank (relayout_refl _))
  simp only [toShelxl, Op.rows, List.map_cons, List.map_nil, hs, parseOp, p0, p1, p2, Row.ofPair]


/-! ### `str(float)` for numbers with a finite decimal expansion -/

theorem natDigits_spec (n : Nat) : ∃ ds : List Digit, ds ≠ [] ∧ natDigits n = vals ds ∧ digitsVal ds = n := by
  induction n using Nat.strongRecOn with
  | _ n ih =>
    rw [natDigits]
    by_cases h : n < 10
    · exact ⟨[⟨n, h⟩], by simp, by simp [h, vals], by simp [digitsVal]⟩
    · obtain ⟨ds, hne, hd, hv⟩ := ih (n / 10) (by omega)
      refine ⟨ds ++ [⟨n % 10, by omega⟩], by simp, by simp [h, hd, vals], ?_⟩
      rw [digitsVal_append, hv]
      simp [digitsVal]
      omega

theorem fracDigits_spec (fuel : Nat) : ∀ (k : Nat) (r : Rat), k ≤ fuel → 0 ≤ r → r < 1 → (∃ m : Int, r * 10 ^ k = m) →
    ∃ ds : List Digit, fracDigits fuel r = vals ds ∧ (digitsVal ds : Rat) / (10 : Rat) ^ ds.length = r := by
  induction fuel with
  | zero =>
    intro k r hk h0 h1 ⟨m, hm⟩
    have hk0 : k = 0 := by omega
    subst hk0
    simp only [pow_zero, mul_one] at hm
    have : m = 0 := by
      have a : (0 : Rat) ≤ m := by rw [← hm]; exact h0
      have b : (m : Rat) < 1 := by rw [← hm]; exact h1
      have a' : (0 : Int) ≤ m := by exact_mod_cast a
      have b' : m < (1 : Int) := by exact_mod_cast b
      omega
    refine ⟨[], rfl, ?_⟩
    rw [hm, this]; simp [digitsVal]
  | succ fuel ih =>
    intro k r hk h0 h1 ⟨m, hm⟩
    by_cases hr : r = 0
    · exact ⟨[], by simp [fracDigits, hr, vals], by simp [digitsVal, hr]⟩
    · -- k ≥ 1, otherwise r would be an integer in [0, 1)
      have hk1 : 1 ≤ k := by
        by_contra hk0
        have hk0 : k = 0 := by omega
        subst hk0
        simp only [pow_zero, mul_one] at hm
        have a : (0 : Rat) ≤ m := by rw [← hm]; exact h0
        have b : (m : Rat) < 1 := by rw [← hm]; exact h1
        have a' : (0 : Int) ≤ m := by exact_mod_cast a
        have b' : m < (1 : Int) := by exact_mod_cast b
        have : m = 0 := by omega
        rw [this] at hm
        exact hr (by simpa using hm)
      -- the first decimal
      have hf0 : 0 ≤ (r * 10).floor := by rw [Rat.le_floor_iff]; simp; nlinarith
      have hf9 : (r * 10).floor < 10 := by rw [Rat.floor_lt_iff]; push_cast; nlinarith
      have hfle := Rat.floor_le (r * 10)
      have hflt := Rat.lt_floor_add_one (r * 10)
      push_cast at hflt
      have hcast : (((r * 10).floor.toNat : Nat) : Rat) = ((r * 10).floor : Rat) := by
        have : (((r * 10).floor.toNat : Nat) : Int) = (r * 10).floor := Int.toNat_of_nonneg hf0
        exact_mod_cast this
      have hd10 : (r * 10).floor.toNat < 10 := by omega
      have hr0 : 0 ≤ r * 10 - ((r * 10).floor.toNat : Nat) := by rw [hcast]; linarith
      have hr1 : r * 10 - ((r * 10).floor.toNat : Nat) < 1 := by rw [hcast]; linarith
      have hgrid : ∃ m' : Int, (r * 10 - ((r * 10).floor.toNat : Nat)) * 10 ^ (k - 1) = m' := by
        refine ⟨m - (r * 10).floor * 10 ^ (k - 1), ?_⟩
        rw [hcast]
        push_cast
        rw [← hm]
        have : (10 : Rat) ^ k = 10 ^ (k - 1) * 10 := by
          rw [← pow_succ]; congr 1; omega
        rw [this]; ring
      obtain ⟨ds, hds, hval⟩ := ih (k - 1) _ (by omega) hr0 hr1 hgrid
      refine ⟨⟨(r * 10).floor.toNat, hd10⟩ :: ds, by simp [fracDigits, hr, hds, vals], ?_⟩
      rw [digitsVal_cons, List.length_cons]
      have h10 : ((10 : Rat) ^ ds.length) ≠ 0 := pow_ne_zero _ (by norm_num)
      push_cast
      rw [pow_succ]
      have hv' : (digitsVal ds : Rat) = (r * 10 - ((r * 10).floor.toNat : Nat)) * 10 ^ ds.length := by
        rw [← hval]; field_simp
      rw [hv']
      field_simp
      ring

theorem digitChar_vals (ds : List Digit) : (vals ds).map digitChar = digitsChars ds := by
  simp [vals, digitsChars]

/-- `fmtDec` (the model of `str(float)`) writes a numeral that denotes the number, for every number with
    at most 40 decimals -/
theorem fmtDec_ok (x : Rat) (k : Nat) (hk : k ≤ 40) (hx : ∃ m : Int, x * 10 ^ k = m) : FmtOk fmtDec x := by
  -- |x|, its integer part and its decimals
  generalize ha : (if x < 0 then -x else x) = a
  have ha0 : 0 ≤ a := by rw [← ha]; split_ifs with h <;> linarith
  have hagrid : ∃ m : Int, a * 10 ^ k = m := by
    obtain ⟨m, hm⟩ := hx
    rw [← ha]; split_ifs
    · exact ⟨-m, by push_cast; rw [← hm]; ring⟩
    · exact ⟨m, hm⟩
  have hf0 : 0 ≤ a.floor := by rw [Rat.le_floor_iff]; simpa using ha0
  have hcast : ((a.floor.toNat : Nat) : Rat) = (a.floor : Rat) := by
    have : ((a.floor.toNat : Nat) : Int) = a.floor := Int.toNat_of_nonneg hf0
    exact_mod_cast this
  have hr0 : 0 ≤ a - (a.floor.toNat : Nat) := by rw [hcast]; linarith [Rat.floor_le a]
  have hr1 : a - (a.floor.toNat : Nat) < 1 := by
    have := Rat.lt_floor_add_one a
    push_cast at this
    rw [hcast]; linarith
  have hrgrid : ∃ m : Int, (a - (a.floor.toNat : Nat)) * 10 ^ k = m := by
    obtain ⟨m, hm⟩ := hagrid
    exact ⟨m - a.floor * 10 ^ k, by rw [hcast]; push_cast; rw [← hm]; ring⟩
  obtain ⟨ip, hipne, hip, hipv⟩ := natDigits_spec a.floor.toNat
  obtain ⟨fp, hfp, hfpv⟩ := fracDigits_spec 40 k _ hk hr0 hr1 hrgrid
  have h10 : ((10 : Rat) ^ fp.length) ≠ 0 := pow_ne_zero _ (by norm_num)
  -- the numeral that is written
  let fp' : List Digit := if fp = [] then [0] else fp
  have hchars : (if fracDigits 40 (a - (a.floor.toNat : Nat)) = [] then ['0'] else
      (fracDigits 40 (a - (a.floor.toNat : Nat))).map digitChar) = digitsChars fp' := by
    rw [hfp]
    by_cases he : fp = []
    · simp [fp', he, vals, digitsChars, digitChar]
    · simp [fp', he, vals_eq_nil, digitChar_vals]
  have hvalue : (Numeral.dec ip fp').value = a := by
    have key : (Numeral.dec ip fp').value = ((a.floor.toNat : Nat) : Rat) + (a - ((a.floor.toNat : Nat) : Rat)) := by
      by_cases he : fp = []
      · have hz : a - ((a.floor.toNat : Nat) : Rat) = 0 := by rw [← hfpv, he]; simp [digitsVal]
        simp only [Numeral.value, fp', he, if_true, digitsVal_append, hipv]
        rw [hz]
        simp [digitsVal]
      · simp only [Numeral.value, fp', he, if_false, digitsVal_append, hipv]
        rw [← hfpv]
        push_cast
        field_simp
    rw [key]; ring
  have hwf : (Numeral.dec ip fp').wf = true := by simp [Numeral.wf, hipne]
  by_cases hneg : x < 0
  · refine ⟨.minus, .dec ip fp', hwf, ?_, ?_⟩
    · simp only [fmtDec, hneg, if_true] at ha ⊢
      rw [ha, hip, hchars, digitChar_vals]
      simp [Sign.chars, Numeral.chars]
    · rw [hvalue, ← ha]; simp [hneg, Sign.toInt]
  · refine ⟨.none, .dec ip fp', hwf, ?_, ?_⟩
    · simp only [fmtDec, hneg, if_false] at ha ⊢
      rw [ha, hip, hchars, digitChar_vals]
      simp [Sign.chars, Numeral.chars]
    · rw [hvalue, ← ha]; simp [hneg, Sign.toInt]

/-- **print_parse_id** with the model of `str(float)`: exact for all operators whose translations have
    finitely many decimals (halves, quarters, eighths, any decimal that was typed) -/
theorem print_parse_id_dec (o : Op) (hu : o.unit = true)
    (hd : ∀ r ∈ o.rows, ∃ k : Nat, k ≤ 40 ∧ ∃ m : Int, r.t * 10 ^ k = m) :
    parseOp (splitComma (toShelxl fmtDec o.rows)) = .ok o.rows :=
  print_parse_id fmtDec o hu (fun r hr _ => by
    obtain ⟨k, hk, hm⟩ := hd r hr
    exact fmtDec_ok r.t k hk hm)

/-- a concrete operator inside the hypotheses: `-0.25-Y, +X-Y, 1.5+Z` -/
example : splitComma (toShelxl fmtDec [⟨(0, -1, 0), -1/4⟩, ⟨(1, -1, 0), 0⟩, ⟨(0, 0, 1), 3/2⟩]) =
    ["-0.25-Y".toList, " +X-Y".toList, " 1.5+Z".toList] := by
  decide +kernel

/-! ### the SYMM card -/

theorem flatten_splitWsAux (s cur : List Char) :
    (splitWsAux s cur).flatten = cur.reverse ++ s.filter (fun c => !isWs c) := by
  induction s generalizing cur with
  | nil => by_cases h : cur = [] <;> simp [splitWsAux, h]
  | cons c t ih =>
    by_cases hc : isWs c = true
    · by_cases h : cur = [] <;> simp [splitWsAux, hc, h, ih]
    · simp [splitWsAux, hc, ih]

theorem splitWsAux_append (w rest cur : List Char) (h : ∀ ch ∈ w, isWs ch = false) :
    splitWsAux (w ++ rest) cur = splitWsAux rest (w.reverse ++ cur) := by
  induction w generalizing cur with
  | nil => rfl
  | cons x w ih =>
    have hx : isWs x = false := h x (by simp)
    have hw : ∀ ch ∈ w, isWs ch = false := fun ch hch => h ch (by simp [hch])
    simp [splitWsAux, hx, ih _ hw]

/-- the card hands over what follows the keyword, blanks removed, split at the commas -/
theorem symmCard_eq (kw body : List Char) (hne : kw ≠ []) (hkw : ∀ ch ∈ kw, isWs ch = false) :
    symmCard (kw ++ ' ' :: body) = splitComma (body.filter (fun c => !isWs c)) := by
  have hr : kw.reverse ≠ [] := by simpa using hne
  have hsp : isWs ' ' = true := by decide
  simp only [symmCard, splitWs]
  rw [splitWsAux_append _ _ _ hkw]
  simp only [List.append_nil, splitWsAux, hsp, if_true, hr, if_false, List.reverse_reverse, List.tail_cons,
    flatten_splitWsAux]
  simp

/-- **card_components** — a SYMM line `kw  t0 , t1 , t2` (blanks and tabs anywhere after the keyword, the three
    components in any layout of valid grammar components) gives the operator the three components denote. -/
theorem card_components (kw body t0 t1 t2 : List Char) (c0 c1 c2 : Component)
    (hne : kw ≠ []) (hkw : ∀ ch ∈ kw, isWs ch = false)
    (hb : body.filter (fun c => !isWs c) = t0 ++ ',' :: (t1 ++ ',' :: t2))
    (n0 : ',' ∉ t0) (n1 : ',' ∉ t1) (n2 : ',' ∉ t2)
    (v0 : Valid c0 = true) (v1 : Valid c1 = true) (v2 : Valid c2 = true)
    (l0 : Relayout (print c0) t0) (l1 : Relayout (print c1) t1) (l2 : Relayout (print c2) t2) :
    parseOp (symmCard (kw ++ ' ' :: body)) = .ok [denoteRow c0, denoteRow c1, denoteRow c2] := by
  rw [symmCard_eq kw body hne hkw, hb, splitComma, splitCommaAux_piece _ _ n0, splitCommaAux_piece _ _ n1,
    splitCommaAux_last _ n2]
  simp only [parseOp, parse_denote c0 v0 t0 l0, parse_denote c1 v1 t1 l1, parse_denote c2 v2 t2 l2, denoteRow]

example : symmCard "symm  -x, 1/2 + y ,\t-z+ 1/3".toList = ["-x".toList, "1/2+y".toList, "-z+1/3".toList] := by
  decide +kernel


/-! ### a literal table (strings and values written by the Python reference of the harness, not by `print`/`denote`) -/

def parsesTo (s : String) (c : Coef) (t : Rat) : Bool :=
  match parseComp s.toList with
  | .ok p => p.1 = c && p.2 = t
  | .error _ => false

def literalTable : List (String × Coef × Int × Nat) := [
  ("1/2", (0, 0, 0), 1, 2),
  ("x+  1/3 ", (1, 0, 0), 1, 3),
  ("+9/12-y", (0, -1, 0), 3, 4),
  (" 1/4+Z ", (0, 0, 1), 1, 4),
  ("Z+3/2", (0, 0, 1), 3, 2),
  ("10/ 12+ X+ y ", (1, 1, 0), 5, 6),
  ("+x-5/8+y", (1, 1, 0), -5, 8),
  ("X  +Y  +2 /4 ", (1, 1, 0), 1, 2),
  ("+X-Y+0.6667", (1, -1, 0), 6667, 10000),
  ("  +3/2-  X +Z ", (-1, 0, 1), 3, 2),
  ("x+1/12+z", (1, 0, 1), 1, 12),
  ("+X -Z  + 1/6", (1, 0, -1), 1, 6),
  ("X+Z+0.0", (1, 0, 1), 0, 1),
  ("1 3  /  12+Y+  x", (1, 1, 0), 13, 12),
  ("+y-3/12+x", (1, 1, 0), -1, 4),
  ("Y+X+4/  6 ", (1, 1, 0), 2, 3),
  ("+Y-X+2", (-1, 1, 0), 2, 1),
  ("+.5-  y  +Z ", (0, -1, 1), 1, 2),
  ("y+6/12+z", (0, 1, 1), 1, 2),
  ("+  Y-Z+1/ 8", (0, 1, -1), 1, 8),
  ("Z+X", (1, 0, 1), 0, 1),
  (" 0.125+z+X ", (1, 0, 1), 1, 8),
  ("+z-8/12+x", (1, 0, 1), -2, 3),
  ("Z+  X  +4  / 8", (1, 0, 1), 1, 2),
  ("2/3+Z+Y", (0, 1, 1), 2, 3),
  ("+1  .5-Z+y", (0, 1, -1), 3, 2),
  ("z+11/12+y", (0, 1, 1), 11, 12),
  ("  +Z-Y+  6/8", (0, -1, 1), 3, 4),
  ("2/3+X+Y+Z", (1, 1, 1), 2, 3),
  ("-3  /1  2+  X  -y+Z", (1, -1, 1), -1, 4),
  ("+1.5-x+y+z", (-1, 1, 1), 3, 2),
  ("X-4  /  6-  Y+ Z ", (1, -1, 1), -2, 3),
  ("X+11/12+Y+Z", (1, 1, 1), 11, 12),
  (" - X  +2-y +Z", (-1, -1, 1), 2, 1),
  ("+x-y+6/8+z", (1, -1, 1), 3, 4),
  ("X  -Y-0 .  25  +  Z", (1, -1, 1), -1, 4),
  ("X+Y+Z+3/4", (1, 1, 1), 3, 4),
  (" -x+y-z+6/1 2 ", (-1, 1, -1), 1, 2),
  ("+x-y+z+0.16667", (1, -1, 1), 16667, 100000),
  ("-1/8+X - Z  +Y", (1, 1, -1), -1, 8),
  ("+4/3-X+Z+Y", (-1, 1, 1), 4, 3),
  ("x- 1/  2- z+y", (1, 1, -1), -1, 2),
  ("x+2/12+z+y", (1, 1, 1), 1, 6),
  ("- X+0.12  5-Z +Y", (-1, 1, -1), 1, 8),
  ("+X-Z+2/6+Y", (1, 1, -1), 1, 3),
  ("  x-z -9/  12  + Y", (1, 1, -1), -3, 4),
  ("x+z+1+y", (1, 1, 1), 1, 1),
  ("  -X +Z-Y+4 / 8", (-1, -1, 1), 1, 2),
  ("+X-Z+Y+0.5", (1, 1, -1), 1, 2),
  ("-  2  /3  +y  -x  +z", (-1, 1, 1), -2, 3),
  ("+4/12-y+x+z", (1, -1, 1), 1, 3),
  ("  0  .  3 33  3-Y-X+Z", (-1, -1, 1), 3333, 10000),
  ("Y+5/6+X+Z", (1, 1, 1), 5, 6),
  ("-Y+  11/ 12-  x+z", (-1, -1, 1), 11, 12),
  ("+y-1.0+x+z", (1, 1, 1), -1, 1),
  ("Y  -  X-  7/8+Z", (-1, 1, 1), -7, 8),
  ("Y+X+0.75+Z", (1, 1, 1), 3, 4),
  ("-Y+x -Z+3/4", (1, -1, -1), 3, 4),
  ("+y-x+z+7/12", (-1, 1, 1), 7, 12),
  ("Y-X-Z+ 0.83 333", (-1, 1, -1), 83333, 100000),
  ("+2/8-Y+Z+X", (1, -1, 1), 1, 4),
  (" 5/4  -Y-Z+X", (1, -1, -1), 5, 4),
  ("y+1/3+z+x", (1, 1, 1), 1, 3),
  ("- Y+2/1  2-  Z+  X", (1, -1, -1), 1, 6),
  ("+Y-0.375+Z+X", (1, 1, 1), -3, 8),
  ("Y-  z-  3/  6 +x", (1, 1, -1), -1, 2),
  ("y+z+10/12+x", (1, 1, 1), 5, 6),
  ("-Y+  Z-1+  X", (1, -1, 1), -1, 1),
  ("+Y-Z+X+5/8", (1, 1, -1), 5, 8),
  ("Y -z-x+.5 ", (-1, 1, -1), 1, 2),
  ("+1/4-z+x+y", (1, 1, -1), 1, 4),
  (" 5 /12-Z-  X+ Y ", (-1, 1, -1), 5, 12),
  ("0.6667+Z+X+Y", (1, 1, 1), 6667, 10000),
  ("- z  +5/6- x +  Y ", (-1, 1, -1), 5, 6),
  ("+z-3/2+x+y", (1, 1, 1), -3, 2),
  ("  Z-  0.05 -X +  Y", (-1, 1, 1), -1, 20),
  ("Z+X+1/12+Y", (1, 1, 1), 1, 12),
  (" -  z +x-0.75+Y", (1, 1, -1), -3, 4),
  ("+z-x+y+1/6", (-1, 1, 1), 1, 6),
  (" Z  -X-Y+8  /12", (-1, -1, 1), 2, 3),
  ("Z+X+Y+0.0", (1, 1, 1), 0, 1),
  ("3/8-z-  Y+X", (1, -1, -1), 3, 8),
  ("13/12+z+y+x", (1, 1, 1), 13, 12),
  ("  -Z+1  /  3- Y +X ", (1, -1, -1), 1, 3),
  ("+Z-3/12+Y+X", (1, 1, 1), -1, 4),
  ("  Z-1.5-Y+X", (1, -1, 1), -3, 2),
  ("z+y+4/6+x", (1, 1, 1), 2, 3),
  (" -Z+ Y  -10/12+ X ", (1, 1, -1), -5, 6),
  ("+Z-Y+2+X", (1, -1, 1), 2, 1),
  ("z-  y  -X+6/8", (-1, -1, 1), 3, 4),
  ("z+y+x+0.25", (1, 1, 1), 1, 4)
]

/-- every literal line of the table is parsed to the stated row and translation -/
theorem literal_table_parsed :
    literalTable.all (fun e => parsesTo e.1 e.2.1 (mkRat e.2.2.1 e.2.2.2)) = true := by
  decide +kernel


/-- outside the grammar: two signs in a row are not read (Python: `eval('1./2+.')` raises SyntaxError) -/
example : parsesTo "1/2+-X" (-1, 0, 0) (1/2) = false := by decide +kernel

/-! ### operators the library makes from operators; histories on a pool of operator objects -/

/-- a component of the grammar has coefficients -1, 0, 1 (every axis at most once) -/
theorem coef_unit (a : Axis) (c : Component) (h : axisCount a c ≤ 1) : unitEntry (coef a c) = true := by
  induction c with
  | nil => simp [coef, unitEntry]
  | cons i r ih =>
    cases i with
    | term s b =>
      by_cases hb : b = a
      · simp only [axisCount, hb, if_true] at h
        have h0 : axisCount a r = 0 := by omega
        have hc := coef_eq_zero a r h0
        cases s <;> simp [coef, hb, hc, Sign.toInt, unitEntry]
      · simp only [axisCount, hb, if_false, Nat.zero_add] at h
        simpa [coef, hb] using ih h
    | num s v =>
      simp only [axisCount] at h
      simpa [coef] using ih h

theorem denoteRow_unit (c : Component) (h : Valid c = true) : (denoteRow c).unit = true := by
  simp only [Valid, Bool.decide_and, Bool.and_eq_true, decide_eq_true_eq] at h
  obtain ⟨hx, hy, hz, _, _⟩ := h
  simp [denoteRow, Row.ofPair, denote, Row.unit, coef_unit _ _ hx, coef_unit _ _ hy, coef_unit _ _ hz]

theorem denoteOp_unit (c0 c1 c2 : Component) (h0 : Valid c0 = true) (h1 : Valid c1 = true) (h2 : Valid c2 = true) :
    (denoteOp c0 c1 c2).unit = true := by
  simp [denoteOp, Op.unit, denoteRow_unit, h0, h1, h2]

theorem timesMinusOne_eq (r : Row) : r.timesMinusOne = r.inverted := by
  simp [Row.timesMinusOne, Row.inverted]

theorem unitEntry_neg (m : Int) (h : unitEntry m = true) : unitEntry (-m) = true := by
  simp only [unitEntry, decide_eq_true_eq] at h ⊢
  omega

theorem inverted_unit (o : Op) (h : o.unit = true) : o.inverted.unit = true := by
  simp only [Op.unit, Row.unit, Bool.and_eq_true] at h
  obtain ⟨⟨⟨⟨a1, a2⟩, a3⟩, ⟨⟨b1, b2⟩, b3⟩⟩, ⟨⟨c1, c2⟩, c3⟩⟩ := h
  simp [Op.unit, Row.unit, Op.inverted, Row.inverted, unitEntry_neg, a1, a2, a3, b1, b2, b3, c1, c2, c3]

theorem shifted_unit (o : Op) (v : Point) (h : o.unit = true) : (o.shifted v).unit = true := by
  simpa [Op.unit, Row.unit, Op.shifted] using h

/-- the inverted operator sends every point to the opposite of where the operator sends it -/
theorem act_inverted (o : Op) (p : Point) :
    o.inverted.act p = (-(o.act p).1, -(o.act p).2.1, -(o.act p).2.2) := by
  simp only [Op.act, Op.inverted, Row.inverted]
  refine Prod.ext ?_ (Prod.ext ?_ ?_) <;> (push_cast; ring)

/-- the shifted operator sends every point to where the operator sends it, moved by `v` -/
theorem act_shifted (o : Op) (v p : Point) :
    (o.shifted v).act p = ((o.act p).1 + v.1, (o.act p).2.1 + v.2.1, (o.act p).2.2 + v.2.2) := by
  simp only [Op.act, Op.shifted]
  refine Prod.ext ?_ (Prod.ext ?_ ?_) <;> ring

theorem row_ext_of_act {c c' : Coef} {t t' : Rat}
    (h : ∀ p : Point, (c.1 : Rat) * p.1 + c.2.1 * p.2.1 + c.2.2 * p.2.2 + t = c'.1 * p.1 + c'.2.1 * p.2.1 + c'.2.2 * p.2.2 + t') :
    (⟨c, t⟩ : Row) = ⟨c', t'⟩ := by
  have h0 := h (0, 0, 0)
  have hx := h (1, 0, 0)
  have hy := h (0, 1, 0)
  have hz := h (0, 0, 1)
  simp only [mul_zero, mul_one, add_zero, zero_add] at h0 hx hy hz
  subst h0
  have ex : c.1 = c'.1 := by exact_mod_cast (add_right_cancel hx)
  have ey : c.2.1 = c'.2.1 := by exact_mod_cast (add_right_cancel hy)
  have ez : c.2.2 = c'.2.2 := by exact_mod_cast (add_right_cancel hz)
  obtain ⟨a, b, d⟩ := c
  obtain ⟨a', b', d'⟩ := c'
  simp only at ex ey ez
  subst ex ey ez
  rfl

/-- an operator is what it does to points: `act` determines matrix and translation (so `inverted` and `shifted`
    are the only operators with the actions stated in `act_inverted` / `act_shifted`) -/
theorem act_ext (a b : Op) (h : ∀ p, a.act p = b.act p) : a = b := by
  obtain ⟨⟨c0, t0⟩, ⟨c1, t1⟩, ⟨c2, t2⟩⟩ := a
  obtain ⟨⟨d0, u0⟩, ⟨d1, u1⟩, ⟨d2, u2⟩⟩ := b
  have e0 : (⟨c0, t0⟩ : Row) = ⟨d0, u0⟩ := row_ext_of_act fun p => by
    have := congrArg (fun q : Point => q.1) (h p); simpa [Op.act] using this
  have e1 : (⟨c1, t1⟩ : Row) = ⟨d1, u1⟩ := row_ext_of_act fun p => by
    have := congrArg (fun q : Point => q.2.1) (h p); simpa [Op.act] using this
  have e2 : (⟨c2, t2⟩ : Row) = ⟨d2, u2⟩ := row_ext_of_act fun p => by
    have := congrArg (fun q : Point => q.2.2) (h p); simpa [Op.act] using this
  rw [e0, e1, e2]

/-- **initOp_spec** — `SymmetryElement([t0, t1, t2], centric)` for three components of the grammar in any layout is the
    operator they denote, followed by the inversion when `centric` is set. -/
theorem initOp_spec (c0 c1 c2 : Component) (h0 : Valid c0 = true) (h1 : Valid c1 = true) (h2 : Valid c2 = true)
    (t0 t1 t2 : List Char) (l0 : Relayout (print c0) t0) (l1 : Relayout (print c1) t1) (l2 : Relayout (print c2) t2)
    (cen : Bool) :
    initOp [t0, t1, t2] cen = .ok (if cen then (denoteOp c0 c1 c2).inverted else denoteOp c0 c1 c2) := by
  simp only [initOp, parseOp, parse_denote c0 h0 t0 l0, parse_denote c1 h1 t1 l1, parse_denote c2 h2 t2 l2, opOfRows,
    timesMinusOne_eq]
  cases cen <;> simp [denoteOp, denoteRow, Op.inverted]

/-- **reparse_spec** — printing an operator and parsing the text gives the same operator (object level) -/
theorem reparse_spec (fmt : Rat → List Char) (o : Op) (hu : o.unit = true)
    (hf : ∀ r ∈ o.rows, r.t ≠ 0 → FmtOk fmt r.t) : reparse fmt o = .ok o := by
  have h := print_parse_id fmt o hu hf
  simp only [Op.rows] at h
  simp only [reparse, initOp, Op.rows, h, opOfRows]
  simp

/-- **applyLatt_spec** — `apply_latt_symm` gives the operator followed by the translation of its argument: the
    matrix survives the detour through the printed text, the translation is the sum. -/
theorem applyLatt_spec (fmt : Rat → List Char) (a l : Op) (hu : a.unit = true)
    (hf : ∀ r ∈ a.rows, r.t ≠ 0 → FmtOk fmt r.t) : applyLatt fmt a l = .ok (a.shifted l.trans) := by
  simp [applyLatt, reparse_spec fmt a hu hf, Op.shifted, Op.trans]

/-- the calls of a history as the model sees them (texts) and as the property sees them (grammar terms) -/
inductive HistRel : List Step → List SStep → Prop
  | nil : HistRel [] []
  | parse {ms ss} (c0 c1 c2 : Component) (t0 t1 t2 : List Char) (cen : Bool) :
      Valid c0 = true → Valid c1 = true → Valid c2 = true →
      Relayout (print c0) t0 → Relayout (print c1) t1 → Relayout (print c2) t2 → HistRel ms ss →
      HistRel (.parse [t0, t1, t2] cen :: ms) (.parse c0 c1 c2 cen :: ss)
  | given {ms ss} (o : Op) : o.unit = true → HistRel ms ss → HistRel (.given o :: ms) (.given o :: ss)
  | latt {ms ss} (i j : Nat) : HistRel ms ss → HistRel (.latt i j :: ms) (.latt i j :: ss)
  | reparse {ms ss} (i : Nat) : HistRel ms ss → HistRel (.reparse i :: ms) (.reparse i :: ss)
  | observe {ms ss} (i : Nat) : HistRel ms ss → HistRel (.observe i :: ms) (.observe i :: ss)

theorem specStep_sub {pool p : List Op} {s : SStep} (h : specStep pool s = some p) : ∀ o ∈ pool, o ∈ p := by
  intro o ho
  cases s with
  | parse c0 c1 c2 cen => simp only [specStep, Option.some.injEq] at h; subst h; simp [ho]
  | given g => simp only [specStep, Option.some.injEq] at h; subst h; simp [ho]
  | latt i j =>
    simp only [specStep] at h
    split at h
    · simp only [Option.some.injEq] at h; subst h; simp [ho]
    · exact absurd h (by simp)
  | reparse i =>
    simp only [specStep] at h
    split at h
    · simp only [Option.some.injEq] at h; subst h; simp [ho]
    · exact absurd h (by simp)
  | observe i =>
    simp only [specStep] at h
    split at h
    · simp only [Option.some.injEq] at h; subst h; exact ho
    · exact absurd h (by simp)

theorem specRun_sub {ss : List SStep} : ∀ {pool final : List Op}, specRun pool ss = some final → ∀ o ∈ pool, o ∈ final := by
  induction ss with
  | nil => intro pool final h o ho; simp only [specRun, Option.some.injEq] at h; subst h; exact ho
  | cons s r ih =>
    intro pool final h o ho
    simp only [specRun] at h
    split at h
    · exact absurd h (by simp)
    · rename_i p hp
      exact ih h o (specStep_sub hp o ho)

/-- **history_refines** — for every history of calls (parse with or without `centric`, operators handed in,
    `apply_latt_symm` of any object with any object, re-parse of the printed text, printing/comparing in between), of
    any length: the pool of objects the model ends with is the pool the property demands — each parsed object is the
    operator its strings denote (inverted when centric), each copy is its source followed by the translation of the
    argument, each re-parsed text is the operator that was printed, and nothing that is done later changes an object.
    Hypotheses: the strings are components of the grammar in any layout (`HistRel`), operators handed in have entries
    -1, 0, 1, indices refer to existing objects (`specRun … = some final`), and the number formatter writes every
    non-zero translation that occurs as a numeral denoting it (`FmtOk`; `fmtFrac_ok` shows an instance for all
    numbers, CPython's `str(float)`/`float()` pair is one on doubles). Also: every object has entries -1, 0, 1. -/
theorem history_refines (fmt : Rat → List Char) {ms : List Step} {ss : List SStep} (h : HistRel ms ss) :
    ∀ (pool final : List Op), (∀ o ∈ pool, o.unit = true) → specRun pool ss = some final →
      (∀ o ∈ final, ∀ r ∈ o.rows, r.t ≠ 0 → FmtOk fmt r.t) →
      runModel fmt pool ms = .ok final ∧ ∀ o ∈ final, o.unit = true := by
  induction h with
  | nil =>
    intro pool final hu hs _
    simp only [specRun, Option.some.injEq] at hs
    subst hs
    exact ⟨rfl, hu⟩
  | parse c0 c1 c2 t0 t1 t2 cen h0 h1 h2 l0 l1 l2 _ ih =>
    intro pool final hu hs hf
    simp only [specRun, specStep] at hs
    simp only [runModel, stepModel, initOp_spec c0 c1 c2 h0 h1 h2 t0 t1 t2 l0 l1 l2 cen]
    refine ih _ final ?_ hs hf
    intro o ho
    rcases List.mem_append.1 ho with ho | ho
    · exact hu o ho
    · simp only [List.mem_singleton] at ho
      subst ho
      cases cen
      · simpa using denoteOp_unit c0 c1 c2 h0 h1 h2
      · simpa using inverted_unit _ (denoteOp_unit c0 c1 c2 h0 h1 h2)
  | given g hg _ ih =>
    intro pool final hu hs hf
    simp only [specRun, specStep] at hs
    simp only [runModel, stepModel]
    refine ih _ final ?_ hs hf
    intro o ho
    rcases List.mem_append.1 ho with ho | ho
    · exact hu o ho
    · simp only [List.mem_singleton] at ho; subst ho; exact hg
  | latt i j _ ih =>
    intro pool final hu hs hf
    simp only [specRun, specStep] at hs
    split at hs
    · exact absurd hs (by simp)
    · rename_i p hp
      split at hp
      · rename_i a l ha hl
        simp only [Option.some.injEq] at hp
        subst hp
        have hmem : a ∈ pool := List.mem_of_getElem? ha
        have hfin : a ∈ final := specRun_sub hs a (by simp [hmem])
        simp only [runModel, stepModel, ha, hl, applyLatt_spec fmt a l (hu a hmem) (hf a hfin)]
        refine ih _ final ?_ hs hf
        intro o ho
        rcases List.mem_append.1 ho with ho | ho
        · exact hu o ho
        · simp only [List.mem_singleton] at ho; subst ho; exact shifted_unit _ _ (hu a hmem)
      · exact absurd hp (by simp)
  | reparse i _ ih =>
    intro pool final hu hs hf
    simp only [specRun, specStep] at hs
    split at hs
    · exact absurd hs (by simp)
    · rename_i p hp
      split at hp
      · rename_i a ha
        simp only [Option.some.injEq] at hp
        subst hp
        have hmem : a ∈ pool := List.mem_of_getElem? ha
        have hfin : a ∈ final := specRun_sub hs a (by simp [hmem])
        simp only [runModel, stepModel, ha, reparse_spec fmt a (hu a hmem) (hf a hfin)]
        refine ih _ final ?_ hs hf
        intro o ho
        rcases List.mem_append.1 ho with ho | ho
        · exact hu o ho
        · simp only [List.mem_singleton] at ho; rw [ho]; exact hu a hmem
      · exact absurd hp (by simp)
  | observe i _ ih =>
    intro pool final hu hs hf
    simp only [specRun, specStep] at hs
    split at hs
    · exact absurd hs (by simp)
    · rename_i p hp
      split at hp
      · rename_i hi
        simp only [Option.some.injEq] at hp
        subst hp
        simp only [runModel, stepModel, hi, if_true]
        exact ih _ final hu hs hf
      · exact absurd hp (by simp)

/-- **history_roundtrip** — every object of every such history survives print → parse: the printed text of each
    object in the final pool parses back to exactly that object's rows (whatever was printed, copied or compared
    before). -/
theorem history_roundtrip (fmt : Rat → List Char) {ms : List Step} {ss : List SStep} (h : HistRel ms ss)
    (final : List Op) (hs : specRun [] ss = some final)
    (hf : ∀ o ∈ final, ∀ r ∈ o.rows, r.t ≠ 0 → FmtOk fmt r.t) :
    runModel fmt [] ms = .ok final ∧
      ∀ o ∈ final, parseOp (splitComma (toShelxl fmt o.rows)) = .ok o.rows ∧ reparse fmt o = .ok o := by
  obtain ⟨hr, hu⟩ := history_refines fmt h [] final (by simp) hs hf
  exact ⟨hr, fun o ho => ⟨print_parse_id fmt o (hu o ho) (hf o ho), reparse_spec fmt o (hu o ho) (hf o ho)⟩⟩

/-- **history_eq** — `==` between any two objects of such a history follows the lattice rule on the operators the
    property assigns to them (translations on a grid 1/N, tol ≤ 1/N as in `eq_iff_mod_lattice`). -/
theorem history_eq (fmt : Rat → List Char) {ms : List Step} {ss : List SStep} (h : HistRel ms ss)
    (final : List Op) (hs : specRun [] ss = some final)
    (hf : ∀ o ∈ final, ∀ r ∈ o.rows, r.t ≠ 0 → FmtOk fmt r.t)
    (tol : Rat) (N : Nat) (hN : 0 < N) (h0 : 0 < tol) (hT : tol * N ≤ 1) (hg : ∀ o ∈ final, o.onGrid N) :
    ∃ pool, runModel fmt [] ms = .ok pool ∧ pool = final ∧
      ∀ a ∈ pool, ∀ b ∈ pool, (eqModel tol a b = true ↔ LatticeEq a b) := by
  obtain ⟨hr, _⟩ := history_refines fmt h [] final (by simp) hs hf
  exact ⟨final, hr, rfl, fun a ha b hb => eq_iff_mod_lattice tol N a b hN h0 hT (hg a ha) (hg b hb)⟩

/-- the exact formatter of the driver meets the hypothesis on the formatter for every number -/
theorem fmtFrac_ok (x : Rat) : FmtOk fmtFrac x := by
  obtain ⟨dn, hdn, hn, hnv⟩ := natDigits_spec x.num.natAbs
  obtain ⟨dd, hdd, hd, hdv⟩ := natDigits_spec x.den
  have hwf : (Numeral.frac dn dd).wf = true := by
    simp [Numeral.wf, hdn, hdd, hdv, x.den_nz]
  have hval : (Numeral.frac dn dd).value = (x.num.natAbs : Rat) / (x.den : Rat) := by
    simp [Numeral.value, hnv, hdv]
  have hxe : x = (x.num : Rat) / (x.den : Rat) := (Rat.num_div_den x).symm
  by_cases hneg : x < 0
  · refine ⟨.minus, .frac dn dd, hwf, ?_, ?_⟩
    · simp [fmtFrac, hneg, hn, hd, digitChar_vals, Sign.chars, Numeral.chars]
    · rw [hval]
      have hnum : x.num < 0 := Rat.num_neg.2 hneg
      have : ((x.num.natAbs : Nat) : Rat) = -(x.num : Rat) := by
        rw [Nat.cast_natAbs, abs_of_neg hnum]; push_cast; rfl
      rw [this]
      conv_rhs => rw [hxe]
      simp [Sign.toInt]
      ring
  · refine ⟨.none, .frac dn dd, hwf, ?_, ?_⟩
    · simp [fmtFrac, hneg, hn, hd, digitChar_vals, Sign.chars, Numeral.chars]
    · rw [hval]
      have hnum : 0 ≤ x.num := Rat.num_nonneg.2 (not_lt.1 hneg)
      have : ((x.num.natAbs : Nat) : Rat) = (x.num : Rat) := by
        rw [Nat.cast_natAbs, abs_of_nonneg hnum]
      rw [this]
      conv_rhs => rw [hxe]
      simp [Sign.toInt]

/-- `history_refines` with the exact formatter: no hypothesis on the formatter is left -/
theorem history_refines_frac {ms : List Step} {ss : List SStep} (h : HistRel ms ss) (final : List Op)
    (hs : specRun [] ss = some final) : runModel fmtFrac [] ms = .ok final :=
  (history_refines fmtFrac h [] final (by simp) hs (fun _ _ r _ _ => fmtFrac_ok r.t)).1

/-! a concrete history inside the hypotheses: `o0 = -X, 1/2+Y, 1/2-Z`; `o1 = 1/2, 1/2, 1/2`; print `o0`;
    `o2 = o0.apply_latt_symm(o1)`; `o3 =` the printed text of `o2`, parsed; `o4 = SymmetryElement(['x','y','z'], centric=True)` -/
section example_history

private def e0 : Component := [.term .minus .x]
private def e1 : Component := [.num .none (.frac [1] [2]), .term .plus .y]
private def e2 : Component := [.num .none (.frac [1] [2]), .term .minus .z]
private def eh : Component := [.num .none (.frac [1] [2])]
private def ex : Component := [.term .none .x]
private def ey : Component := [.term .none .y]
private def ez : Component := [.term .none .z]

private def exSpec : List SStep :=
  [.parse e0 e1 e2 false, .parse eh eh eh false, .observe 0, .latt 0 1, .reparse 2, .parse ex ey ez true]

private def exModel : List Step :=
  [.parse [print e0, print e1, print e2] false, .parse [print eh, print eh, print eh] false, .observe 0, .latt 0 1,
   .reparse 2, .parse [print ex, print ey, print ez] true]

private def exFinal : List Op :=
  [⟨⟨(-1, 0, 0), 0⟩, ⟨(0, 1, 0), 1/2⟩, ⟨(0, 0, -1), 1/2⟩⟩,
   ⟨⟨(0, 0, 0), 1/2⟩, ⟨(0, 0, 0), 1/2⟩, ⟨(0, 0, 0), 1/2⟩⟩,
   ⟨⟨(-1, 0, 0), 1/2⟩, ⟨(0, 1, 0), 1⟩, ⟨(0, 0, -1), 1⟩⟩,
   ⟨⟨(-1, 0, 0), 1/2⟩, ⟨(0, 1, 0), 1⟩, ⟨(0, 0, -1), 1⟩⟩,
   ⟨⟨(-1, 0, 0), 0⟩, ⟨(0, -1, 0), 0⟩, ⟨(0, 0, -1), 0⟩⟩]

example : runModel fmtFrac [] exModel = .ok exFinal := by
  have h : HistRel exModel exSpec :=
    .parse e0 e1 e2 _ _ _ false (by decide) (by decide) (by decide) (relayout_refl _) (relayout_refl _) (relayout_refl _)
      (.parse eh eh eh _ _ _ false (by decide) (by decide) (by decide) (relayout_refl _) (relayout_refl _) (relayout_refl _)
        (.observe 0 (.latt 0 1 (.reparse 2
          (.parse ex ey ez _ _ _ true (by decide) (by decide) (by decide) (relayout_refl _) (relayout_refl _) (relayout_refl _)
            .nil)))))
  exact history_refines_frac h exFinal (by decide +kernel)

end example_history

/-! ### before the repair of `Matrix.__eq__` (fixes/C10_2): witnesses that the old comparison broke the property -/

/-- `SymmetryElement(['-X','-Y','-Z'])` and `SymmetryElement(['X','Y','Z'], centric=True)` are the same operator,
    the old `==` (rows compared as tuple vs list) said they differ; and the printed text of the centric one, parsed,
    was not `==` to it. -/
def legacyWitness : Bool :=
  match initLegacy ["-X".toList, "-Y".toList, "-Z".toList] false, initLegacy ["X".toList, "Y".toList, "Z".toList] true with
  | .ok a, .ok b =>
    -- same operator, the repaired comparison agrees, the old one does not
    decide (a.op = b.op) && latticeEqB a.op b.op && eqModel tolPy a.op b.op && !eqLegacy tolPy a b &&
    -- print → parse of the centric operator: the same operator again, but not `==` under the old comparison
    (match reparse fmtFrac b.op with
     | .ok c => decide (c = b.op) && !eqLegacy tolPy ⟨c, false⟩ b
     | .error _ => false)
  | _, _ => false

theorem eq_legacy_fails_on : legacyWitness = true := by decide +kernel

/-- the full-strength statement the old comparison violated: `==` ↔ agreement modulo lattice translations -/
theorem eq_legacy_not_iff :
    ¬ ∀ a b : LegacyObj, (eqLegacy tolPy a b = true ↔ LatticeEq a.op b.op) := by
  intro h
  let o : Op := ⟨⟨(-1, 0, 0), 0⟩, ⟨(0, -1, 0), 0⟩, ⟨(0, 0, -1), 0⟩⟩
  have h1 := (h ⟨o, false⟩ ⟨o, true⟩).2 ((latticeEqB_iff o o).1 (by decide +kernel))
  exact absurd h1 (by decide +kernel)

end Shelx.C10

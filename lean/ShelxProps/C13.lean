/-
  C13 — property theorems (model and specification: ShelxModel/C13.lean; thresholds, bond condition and radii:
  ShelxModel/Extracted/SdmC13.lean, regenerated from sdm.py / elements.py on every run).

  PARTIAL, and explicit about it: the theorems are about EXACT arithmetic. They are stated over an arbitrary
  linearly ordered field `K` (ℚ, ℝ …) and take `floor` and `sqrt` as functions with their defining properties as
  hypotheses (`IsFloor`, `IsSqrt`; ℚ's floor is shown to satisfy `IsFloor`). Nothing is claimed about rounding
  in IEEE doubles; the implementation is compared with the model and with a brute-force oracle at 1e-9.
  The thresholds baked into `calc_sdm` appear as hypotheses exactly where the proofs need them.
-/
import ShelxModel.C13
import Mathlib.Tactic.Ring
import Mathlib.Tactic.Linarith
import Mathlib.Tactic.NormNum
import Mathlib.Tactic.Push
import Mathlib.Algebra.Order.Field.Basic

namespace Shelx.C13

set_option linter.unusedSectionVars false

variable {K : Type} [Field K] [LinearOrder K] [IsStrictOrderedRing K]

/-! ### what is assumed of `floor` and `sqrt` -/

def IsInt (x : K) : Prop := ∃ n : ℤ, x = (n : K)

/-- `floor` is integer valued with `floor x ≤ x < floor x + 1` -/
structure IsFloor (fl : K → K) : Prop where
  isInt : ∀ x, IsInt (fl x)
  le : ∀ x, fl x ≤ x
  lt : ∀ x, x < fl x + 1

/-- `sqrt` on the non-negative numbers: non-negative, squares back -/
structure IsSqrt (sq : K → K) : Prop where
  nonneg : ∀ x, 0 ≤ x → 0 ≤ sq x
  sq_mul : ∀ x, 0 ≤ x → sq x * sq x = x

/-- ℚ's floor (core `Rat.floor`) satisfies `IsFloor`: the hypothesis is not vacuous -/
theorem isFloor_rat : IsFloor (fun x : ℚ => ((Rat.floor x : ℤ) : ℚ)) where
  isInt x := ⟨Rat.floor x, rfl⟩
  le x := Rat.floor_le x
  lt x := by have := Rat.lt_floor_add_one x; simpa using this

theorem int_abs_lt_one {k : ℤ} (h1 : -1 < (k : K)) (h2 : (k : K) < 1) : k = 0 := by
  have a : (-1 : ℤ) < k := by exact_mod_cast h1
  have b : k < (1 : ℤ) := by exact_mod_cast h2
  omega

theorem int_ne_zero_abs {k : ℤ} (h : k ≠ 0) : (1 : K) ≤ |(k : K)| := by
  have : (1 : ℤ) ≤ |k| := Int.one_le_abs h
  have h2 : ((1 : ℤ) : K) ≤ ((|k| : ℤ) : K) := Int.cast_le.mpr this
  simpa using h2

/-! ### wrap -/

/-- **wrap_component**: the code's `D + ½ - floor(D + ½) - ½` lies in [-½, ½) and differs from `d` by an integer -/
theorem wrap_component {fl : K → K} (hf : IsFloor fl) {half : K} (hh : 2 * half = 1) (d : K) :
    -half ≤ wrap fl half d ∧ wrap fl half d < half ∧ IsInt (d - wrap fl half d) := by
  have h1 := hf.le (d + half)
  have h2 := hf.lt (d + half)
  obtain ⟨n, hn⟩ := hf.isInt (d + half)
  refine ⟨?_, ?_, ⟨n, ?_⟩⟩
  · simp only [wrap]; linarith
  · simp only [wrap]; linarith
  · simp only [wrap]; rw [← hn]; ring

/-- the only number in [-½, ½) that differs from `d` by an integer is `wrap d` -/
theorem wrap_unique {fl : K → K} (hf : IsFloor fl) {half : K} (hh : 2 * half = 1) (d w : K)
    (h1 : -half ≤ w) (h2 : w < half) (hi : IsInt (d - w)) : wrap fl half d = w := by
  obtain ⟨a, b, ⟨m, hm⟩⟩ := wrap_component hf hh d
  obtain ⟨n, hn⟩ := hi
  have hk : ((n - m : ℤ) : K) = wrap fl half d - w := by push_cast; rw [← hn, ← hm]; ring
  have : n - m = 0 := by
    apply int_abs_lt_one (K := K)
    · rw [hk]; linarith
    · rw [hk]; linarith
  have h0 : ((n - m : ℤ) : K) = 0 := by rw [this]; simp
  rw [hk] at h0
  linarith

example : wrap (fun x : ℚ => ((Rat.floor x : ℤ) : ℚ)) (1/2) (7/4) = -1/4 := by
  apply wrap_unique isFloor_rat (by norm_num)
  · norm_num
  · norm_num
  · exact ⟨2, by norm_num⟩

/-! ### minimum image -/

def IsLattice (t : V3 K) : Prop := IsInt t.x ∧ IsInt t.y ∧ IsInt t.z

/-- the reciprocal-length bound: `d` are the perpendicular spacings (1/|a*|, 1/|b*|, 1/|c*|) of the cell whose
    metric length is `len`; a fractional component times its spacing never exceeds the length of the vector
    (Cauchy–Schwarz with the reciprocal axes). Proved below for the model's `vectorLength` in orthogonal cells
    (`recipBound_orthogonal`) and in general cells with non-degenerate angles (`recipBound_triclinic_x`). -/
structure RecipBound (len : V3 K → K) (d : V3 K) : Prop where
  dx : 0 < d.x
  dy : 0 < d.y
  dz : 0 < d.z
  bx : ∀ v, |v.x| * d.x ≤ len v
  by' : ∀ v, |v.y| * d.y ≤ len v
  bz : ∀ v, |v.z| * d.z ≤ len v

theorem comp_short {a dd L : K} (hd : 0 < dd) (h1 : |a| * dd ≤ L) (hL : 2 * L < dd) : |a| < 1 / 2 := by
  by_contra h
  push Not at h
  nlinarith

theorem comp_far {a n dd L L' : K} (hd : 0 < dd) (h1 : |a| * dd ≤ L) (hL : 2 * L < dd) (hn : 1 ≤ |n|)
    (h2 : |a + n| * dd ≤ L') : L < L' := by
  have ha := comp_short hd h1 hL
  have hx : 1 / 2 < |a + n| := by
    rcases abs_cases a with ⟨e1, _⟩ | ⟨e1, _⟩ <;> rcases abs_cases n with ⟨e2, _⟩ | ⟨e2, _⟩ <;>
      rcases abs_cases (a + n) with ⟨e3, _⟩ | ⟨e3, _⟩ <;> linarith
  nlinarith

theorem V3.ext' {a b : V3 K} (hx : a.x = b.x) (hy : a.y = b.y) (hz : a.z = b.z) : a = b := by
  cases a; cases b; simp_all

/-- a vector shorter than half of every spacing is strictly shorter than all its other lattice translates -/
theorem short_is_unique_min {len : V3 K → K} {d : V3 K} (hb : RecipBound len d) (w t : V3 K)
    (ht : IsLattice t) (hne : t.x ≠ 0 ∨ t.y ≠ 0 ∨ t.z ≠ 0)
    (hs : 2 * len w < d.x ∧ 2 * len w < d.y ∧ 2 * len w < d.z) : len w < len (w.add t) := by
  obtain ⟨⟨nx, hx⟩, ⟨ny, hy⟩, ⟨nz, hz⟩⟩ := ht
  rcases hne with h | h | h
  · have : nx ≠ 0 := by rintro rfl; apply h; rw [hx]; simp
    exact comp_far hb.dx (hb.bx w) hs.1 (by rw [hx]; exact int_ne_zero_abs this) (hb.bx (w.add t))
  · have : ny ≠ 0 := by rintro rfl; apply h; rw [hy]; simp
    exact comp_far hb.dy (hb.by' w) hs.2.1 (by rw [hy]; exact int_ne_zero_abs this) (hb.by' (w.add t))
  · have : nz ≠ 0 := by rintro rfl; apply h; rw [hz]; simp
    exact comp_far hb.dz (hb.bz w) hs.2.2 (by rw [hz]; exact int_ne_zero_abs this) (hb.bz (w.add t))

theorem isInt_sub {a b : K} (ha : IsInt a) (hb : IsInt b) : IsInt (a - b) := by
  obtain ⟨m, rfl⟩ := ha; obtain ⟨n, rfl⟩ := hb; exact ⟨m - n, by push_cast; ring⟩

theorem isInt_neg {a : K} (ha : IsInt a) : IsInt (-a) := by
  obtain ⟨m, rfl⟩ := ha; exact ⟨-m, by push_cast; ring⟩

/-- **wrap_is_min_image**: if SOME lattice translate `v + t` of the difference vector is shorter than half of
    every perpendicular spacing, then the component-wise wrapped vector of the code IS that translate, and it is
    strictly shorter than every other lattice translate (`t'` ranges over all of ℤ³). -/
theorem wrap_is_min_image {fl : K → K} (hf : IsFloor fl) {half : K} (hh : 2 * half = 1)
    {len : V3 K → K} {d : V3 K} (hb : RecipBound len d) (v t : V3 K) (ht : IsLattice t)
    (hs : 2 * len (v.add t) < d.x ∧ 2 * len (v.add t) < d.y ∧ 2 * len (v.add t) < d.z) :
    wrapV fl half v = v.add t ∧
      ∀ t' : V3 K, IsLattice t' → (t'.x ≠ t.x ∨ t'.y ≠ t.y ∨ t'.z ≠ t.z) → len (v.add t) < len (v.add t') := by
  have hhalf : half = 1 / 2 := by linarith
  constructor
  · have cx := comp_short hb.dx (hb.bx _) hs.1
    have cy := comp_short hb.dy (hb.by' _) hs.2.1
    have cz := comp_short hb.dz (hb.bz _) hs.2.2
    rw [abs_lt] at cx cy cz
    apply V3.ext'
    · apply wrap_unique hf hh <;> simp only [V3.add] at cx ⊢
      · linarith [cx.1]
      · linarith [cx.2]
      · have := isInt_neg ht.1; obtain ⟨n, hn⟩ := this; exact ⟨n, by rw [← hn]; ring⟩
    · apply wrap_unique hf hh <;> simp only [V3.add] at cy ⊢
      · linarith [cy.1]
      · linarith [cy.2]
      · have := isInt_neg ht.2.1; obtain ⟨n, hn⟩ := this; exact ⟨n, by rw [← hn]; ring⟩
    · apply wrap_unique hf hh <;> simp only [V3.add] at cz ⊢
      · linarith [cz.1]
      · linarith [cz.2]
      · have := isInt_neg ht.2.2; obtain ⟨n, hn⟩ := this; exact ⟨n, by rw [← hn]; ring⟩
  · intro t' ht' hne
    have e : v.add t' = (v.add t).add (t'.sub t) := by
      apply V3.ext' <;> simp only [V3.add, V3.sub] <;> ring
    rw [e]
    apply short_is_unique_min hb _ _ ⟨isInt_sub ht'.1 ht.1, isInt_sub ht'.2.1 ht.2.1, isInt_sub ht'.2.2 ht.2.2⟩ _ hs
    simp only [V3.sub]
    rcases hne with h | h | h
    · left; intro h0; apply h; linarith
    · right; left; intro h0; apply h; linarith
    · right; right; intro h0; apply h; linarith

/-! ### the model's `vector_length` satisfies the reciprocal-length bound -/

theorem le_sqrt_of_sq_le {sq : K → K} (hs : IsSqrt sq) {u s : K} (_hu : 0 ≤ u) (h : u * u ≤ s) : u ≤ sq s := by
  have hs0 : 0 ≤ s := le_trans (mul_self_nonneg u) h
  by_contra hc
  push Not at hc
  have h1 := hs.nonneg s hs0
  have h2 := hs.sq_mul s hs0
  nlinarith

/-- orthogonal cells (all three cosines 0): the spacings are the cell lengths -/
theorem recipBound_orthogonal {sq : K → K} (hs : IsSqrt sq) {a b c : K} (ha : 0 < a) (hb : 0 < b) (hc : 0 < c) :
    RecipBound (vectorLength sq (Cell.ofLengths a b c 0 0 0)) ⟨a, b, c⟩ where
  dx := ha
  dy := hb
  dz := hc
  bx v := by
    apply le_sqrt_of_sq_le hs (mul_nonneg (abs_nonneg _) ha.le)
    have e : |v.x| * a * (|v.x| * a) = v.x * v.x * (a * a) := by rw [← abs_mul_abs_self v.x]; ring
    rw [e]; simp only [quadForm, Cell.ofLengths]
    nlinarith [mul_self_nonneg (v.y * b), mul_self_nonneg (v.z * c)]
  by' v := by
    apply le_sqrt_of_sq_le hs (mul_nonneg (abs_nonneg _) hb.le)
    have e : |v.y| * b * (|v.y| * b) = v.y * v.y * (b * b) := by rw [← abs_mul_abs_self v.y]; ring
    rw [e]; simp only [quadForm, Cell.ofLengths]
    nlinarith [mul_self_nonneg (v.x * a), mul_self_nonneg (v.z * c)]
  bz v := by
    apply le_sqrt_of_sq_le hs (mul_nonneg (abs_nonneg _) hc.le)
    have e : |v.z| * c * (|v.z| * c) = v.z * v.z * (c * c) := by rw [← abs_mul_abs_self v.z]; ring
    rw [e]; simp only [quadForm, Cell.ofLengths]
    nlinarith [mul_self_nonneg (v.x * a), mul_self_nonneg (v.y * b)]

/-! ### the bond criterion -/

/-- the PART/hydrogen condition as the source spells it (regenerated) is the rule of the statement:
    never between different non-zero PARTs, hydrogens only within the same PART -/
theorem bondAllowed_iff_rule (h1 h2 : Bool) (p1 p2 : Int) :
    Extracted.bondAllowed h1 h2 p1 p2 = true ↔ ruleAllowed h1 h2 p1 p2 := by
  unfold Extracted.bondAllowed ruleAllowed
  cases h1 <;> cases h2 <;> simp <;> omega

/-- **covalent_iff_rule**: `covalent` of an `SDMItem` is the library's bonding rule applied to the reported
    distance. Hypothesis `hd`: the distance is not below the limit the code uses where no bond is allowed
    (`0.0`; reported distances exceed 0.01). -/
theorem covalent_iff_rule (c : Consts K) (r1 r2 d : K) (h1 h2 : Bool) (p1 p2 : Int) (hd : c.nobond ≤ d) :
    covalentOf c (Extracted.bondAllowed h1 h2 p1 p2) r1 r2 d = ruleBonded c.factor r1 r2 d h1 h2 p1 p2 := by
  have hr := bondAllowed_iff_rule h1 h2 p1 p2
  unfold covalentOf ruleBonded
  by_cases ha : Extracted.bondAllowed h1 h2 p1 p2 = true
  · have : ruleAllowed h1 h2 p1 p2 := hr.mp ha
    simp [ha, this, mul_comm]
  · have hn : ¬ ruleAllowed h1 h2 p1 p2 := fun h => ha (hr.mpr h)
    have hlt : ¬ d < c.nobond := not_lt.mpr hd
    simp [ha, hn, hlt]

example : ruleAllowed true false 1 1 ∧ ¬ ruleAllowed true false 0 1 ∧ ruleAllowed false false 0 2 ∧
    ¬ ruleAllowed false false 1 2 := by decide

/-! ### the operator loop picks the minimum -/

/-- operator `n` with wrapped length `dk` takes part in the comparison -/
def Eligible (c : Consts K) (n : Nat) (dk : K) : Prop := ¬ dk > c.cut ∧ biased c n dk > c.eps

theorem selStep_cases (c : Consts K) (st : K × Option (K × Nat)) (n : Nat) (dk : K) :
    (selStep c st n dk = st ∧ (Eligible c n dk → st.1 < biased c n dk)) ∨
    (Eligible c n dk ∧ biased c n dk ≤ st.1 ∧ selStep c st n dk = (biased c n dk, some (dk, n))) := by
  unfold selStep Eligible
  by_cases h1 : dk > c.cut
  · left; simp [h1]
  · by_cases h2 : biased c n dk > c.eps ∧ st.1 ≥ biased c n dk
    · right
      refine ⟨⟨h1, h2.1⟩, h2.2, ?_⟩
      have : ¬ st.1 < biased c n dk := not_lt.mpr h2.2
      simp [h1, h2.1, h2.2, pyMin, this]
    · left
      refine ⟨by simp only [h1, if_false]; rw [if_neg h2], ?_⟩
      rintro ⟨_, he⟩
      by_contra hc
      exact h2 ⟨he, not_lt.mp hc⟩

theorem selLoop_spec (c : Consts K) : ∀ (ds : List K) (st : K × Option (K × Nat)) (n : Nat),
    (selLoop c st n ds).1 ≤ st.1 ∧
    (∀ i di, ds[i]? = some di → Eligible c (n + i) di → (selLoop c st n ds).1 ≤ biased c (n + i) di) ∧
    (selLoop c st n ds = st ∨ ∃ i di, ds[i]? = some di ∧ Eligible c (n + i) di ∧
        selLoop c st n ds = (biased c (n + i) di, some (di, n + i))) := by
  intro ds
  induction ds with
  | nil => intro st n; simp [selLoop]
  | cons dk ds ih =>
    intro st n
    obtain ⟨i1, i2, i3⟩ := ih (selStep c st n dk) (n + 1)
    simp only [selLoop]
    have hst : (selStep c st n dk).1 ≤ st.1 := by
      rcases selStep_cases c st n dk with ⟨e, _⟩ | ⟨_, h, e⟩
      · rw [e]
      · rw [e]; exact h
    refine ⟨le_trans i1 hst, ?_, ?_⟩
    · intro i di hi he
      cases i with
      | zero =>
        simp only [List.getElem?_cons_zero, Option.some.injEq] at hi
        subst hi
        have e0 : n + 0 = n := rfl
        rw [e0] at he ⊢
        refine le_trans i1 ?_
        rcases selStep_cases c st n dk with ⟨e, h⟩ | ⟨_, _, e⟩
        · rw [e]; exact le_of_lt (h he)
        · rw [e]
      | succ k =>
        simp only [List.getElem?_cons_succ] at hi
        have e : n + (k + 1) = n + 1 + k := by omega
        rw [e] at he ⊢
        exact i2 k di hi he
    · rcases i3 with h | ⟨k, di, hk, he, h⟩
      · rcases selStep_cases c st n dk with ⟨e, _⟩ | ⟨el, _, e⟩
        · left; rw [h, e]
        · right; exact ⟨0, dk, by simp, el, by rw [h, e]; rfl⟩
      · right
        have e : n + 1 + k = n + (k + 1) := by omega
        rw [e] at he h
        exact ⟨k + 1, di, by simpa using hk, he, h⟩

/-- what `selectOp` returns: the entry of an eligible operator whose handicapped length is minimal -/
theorem selectOp_some (c : Consts K) (ds : List K) (d : K) (n : Nat) (h : selectOp c ds = some (d, n)) :
    ds[n]? = some d ∧ Eligible c n d ∧
      ∀ i di, ds[i]? = some di → Eligible c i di → biased c n d ≤ biased c i di := by
  obtain ⟨_, s2, s3⟩ := selLoop_spec c ds (c.big, none) 0
  unfold selectOp at h
  rcases s3 with e | ⟨i, di, hi, he, e⟩
  · rw [e] at h; simp at h
  · rw [e] at h
    simp only [Option.some.injEq, Prod.mk.injEq, Nat.zero_add] at h
    obtain ⟨rfl, rfl⟩ := h
    rw [Nat.zero_add] at he
    refine ⟨hi, he, ?_⟩
    intro j dj hj hej
    have := s2 j dj hj (by rw [Nat.zero_add]; exact hej)
    rw [e, Nat.zero_add] at this
    simpa using this

/-- no item only if no operator is eligible. `hbig`: the start value 1000000 of the running minimum exceeds
    every handicapped length that passed the cut. -/
theorem selectOp_none (c : Consts K) (ds : List K) (hb : 0 ≤ c.bias) (hbig : c.cut + c.bias < c.big)
    (h : selectOp c ds = none) : ∀ i di, ds[i]? = some di → ¬ Eligible c i di := by
  intro i di hi he
  obtain ⟨_, s2, s3⟩ := selLoop_spec c ds (c.big, none) 0
  unfold selectOp at h
  have h2 := s2 i di hi (by rw [Nat.zero_add]; exact he)
  rcases s3 with e | ⟨k, dk, _, _, e⟩
  · rw [e, Nat.zero_add] at h2
    have : biased c i di ≤ c.cut + c.bias := by
      have := not_lt.mp he.1
      unfold biased; split <;> linarith
    simp only at h2
    linarith
  · rw [e] at h; simp at h

/-- exact minimality. `hsep` is the separation hypothesis the identity handicap forces: the identity's contact
    is not within `bias` (0.0001 Å) above a strictly shorter contact of another operator (there the code
    deliberately reports the identity). -/
theorem selectOp_min (c : Consts K) (ds : List K) (d : K) (n : Nat) (h : selectOp c ds = some (d, n))
    (hb : 0 ≤ c.bias)
    (hsep : ∀ i di d0, i ≠ 0 → ds[i]? = some di → ds[0]? = some d0 → di < d0 → di + c.bias < d0) :
    ∀ i di, ds[i]? = some di → Eligible c i di → d ≤ di := by
  obtain ⟨hn, _, hmin⟩ := selectOp_some c ds d n h
  intro i di hi he
  have hle := hmin i di hi he
  unfold biased at hle
  by_cases n0 : n = 0 <;> by_cases i0 : i = 0 <;> simp only [n0, i0, if_true, if_false] at hle
  · exact hle
  · by_contra hc
    push Not at hc
    have := hsep i di d i0 hi (by rw [← n0]; exact hn) hc
    linarith
  · linarith
  · linarith

/-! ### sdm_reports_min -/

theorem map_getElem? {α β : Type} (f : α → β) (l : List α) (i : Nat) (y : β) (h : (l.map f)[i]? = some y) :
    ∃ x, l[i]? = some x ∧ f x = y := by
  rw [List.getElem?_map] at h
  cases hx : l[i]? with
  | none => rw [hx] at h; simp at h
  | some x => rw [hx] at h; exact ⟨x, rfl, by simpa using h⟩

/-- **sdm_reports_min**. For one ordered pair of atoms `x1`, `x2` and the operator list `ops` the library holds:
    if the model's operator loop returns `(d, n)` and `d` is below half of every perpendicular spacing, then
    (i) operator `n` realises `d` with some lattice translation `t ∈ ℤ³`, and
    (ii) `d` is the minimum of `‖R x1 + τ + t − x2‖` over ALL operators of the list and ALL `t ∈ ℤ³`,
         among the images farther than `eps` (0.01 Å: closer images count as the atom itself).
    Hypotheses: exact `floor`/`sqrt`; the reciprocal-length bound of the cell (`RecipBound`, proved for orthogonal
    cells); `hsep` (see `selectOp_min`). The 5.3 Å cut needs no hypothesis here: an item exists, so `d ≤ cut`. -/
theorem sdm_reports_min {fl sq : K → K} (hf : IsFloor fl) (c : Consts K) (hh : 2 * c.half = 1) (hb : 0 ≤ c.bias)
    (cell : Cell K) {dsp : V3 K} (hr : RecipBound (vectorLength sq cell) dsp)
    (ops : List (Op K)) (x1 x2 : V3 K) (d : K) (n : Nat)
    (h : selectOp c (opLengths fl sq c cell ops x1 x2) = some (d, n))
    (hdom : 2 * d < dsp.x ∧ 2 * d < dsp.y ∧ 2 * d < dsp.z)
    (hsep : ∀ i di d0, i ≠ 0 → (opLengths fl sq c cell ops x1 x2)[i]? = some di →
        (opLengths fl sq c cell ops x1 x2)[0]? = some d0 → di < d0 → di + c.bias < d0) :
    (∃ o t, ops[n]? = some o ∧ IsLattice t ∧ d = vectorLength sq cell (((applyOp o x1).sub x2).add t)) ∧
    (∀ (i : Nat) (o : Op K) (t : V3 K), ops[i]? = some o → IsLattice t →
        c.eps < vectorLength sq cell (((applyOp o x1).sub x2).add t) →
        d ≤ vectorLength sq cell (((applyOp o x1).sub x2).add t)) := by
  obtain ⟨hn, hel, _⟩ := selectOp_some c _ d n h
  have hmin := selectOp_min c _ d n h hb hsep
  constructor
  · obtain ⟨o, ho, hfo⟩ := map_getElem? _ ops n d hn
    set v := (applyOp o x1).sub x2 with hv
    obtain ⟨_, _, ix⟩ := wrap_component hf hh v.x
    obtain ⟨_, _, iy⟩ := wrap_component hf hh v.y
    obtain ⟨_, _, iz⟩ := wrap_component hf hh v.z
    refine ⟨o, (wrapV fl c.half v).sub v, ho, ?_, ?_⟩
    · refine ⟨?_, ?_, ?_⟩
      · obtain ⟨k, hk⟩ := isInt_neg ix; exact ⟨k, by rw [← hk]; simp [V3.sub, wrapV]⟩
      · obtain ⟨k, hk⟩ := isInt_neg iy; exact ⟨k, by rw [← hk]; simp [V3.sub, wrapV]⟩
      · obtain ⟨k, hk⟩ := isInt_neg iz; exact ⟨k, by rw [← hk]; simp [V3.sub, wrapV]⟩
    · have e : v.add ((wrapV fl c.half v).sub v) = wrapV fl c.half v := by
        apply V3.ext' <;> simp only [V3.add, V3.sub] <;> ring
      rw [e, ← hfo]; rfl
  · intro i o t ho ht hfar
    set v := (applyOp o x1).sub x2 with hv
    set L := vectorLength sq cell (v.add t) with hL
    by_cases hs : 2 * L < dsp.x ∧ 2 * L < dsp.y ∧ 2 * L < dsp.z
    · have hw := (wrap_is_min_image hf hh hr v t ht hs).1
      have hi : (opLengths fl sq c cell ops x1 x2)[i]? = some L := by
        unfold opLengths
        rw [List.getElem?_map, ho]
        simp only [Option.map_some, wrappedDiff]
        rw [← hv, hw]
      by_cases hcut : L > c.cut
      · have := not_lt.mp hel.1
        exact le_trans this (le_of_lt hcut)
      · apply hmin i L hi
        refine ⟨hcut, ?_⟩
        unfold biased
        split
        · exact hfar
        · have : c.eps < L := hfar
          show c.eps < L + c.bias
          linarith
    · have : dsp.x ≤ 2 * L ∨ dsp.y ≤ 2 * L ∨ dsp.z ≤ 2 * L := by
        by_contra hc
        push Not at hc
        exact hs ⟨hc.1, hc.2.1, hc.2.2⟩
      rcases this with h1 | h1 | h1
      · linarith [hdom.1]
      · linarith [hdom.2.1]
      · linarith [hdom.2.2]


end Shelx.C13

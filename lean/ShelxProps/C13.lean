import ShelxModel.C13
namespace Shelx.C13
theorem placeholder_c13 : (1 : Nat) = 1 := rfl
end Shelx.C13

/-
  C13 — property theorems (model and specification: ShelxModel/C13.lean; thresholds, bond condition and radii:
  ShelxModel/Extracted/SdmC13.lean, regenerated on every run by running the code of the tree under test on
  symbolic numbers: extract/probe_c13.py).

  PARTIAL, and explicit about it: the theorems are about EXACT arithmetic. They are stated over an arbitrary
  linearly ordered field `K` (ℚ, ℝ …) and take `floor` and `sqrt` as functions with their defining properties as
  hypotheses (`IsFloor`, `IsSqrt`; ℚ's floor is shown to satisfy `IsFloor`). Nothing is claimed about rounding
  in IEEE doubles; the implementation is compared with the model and with a brute-force oracle at 1e-9.
  The thresholds baked into `calc_sdm` appear as hypotheses exactly where the proofs need them.
-/
import ShelxModel.C13
import ShelxModel.Extracted.C13Src
import Mathlib.Tactic.Ring
import Mathlib.Tactic.Linarith
import Mathlib.Tactic.NormNum
import Mathlib.Tactic.Push
import Mathlib.Algebra.Order.Field.Basic

namespace Shelx.C13

set_option linter.unusedSectionVars false

variable {K : Type} [Field K] [LinearOrder K] [IsStrictOrderedRing K]

/-! ### what is assumed of `floor` and `sqrt` -/

def IsInt (x : K) : Prop := ∃ n : ℤ, x = (n : K)

/-- `floor` is integer valued with `floor x ≤ x < floor x + 1` -/
structure IsFloor (fl : K → K) : Prop where
  isInt : ∀ x, IsInt (fl x)
  le : ∀ x, fl x ≤ x
  lt : ∀ x, x < fl x + 1

/-- `sqrt` on the non-negative numbers: non-negative, squares back -/
structure IsSqrt (sq : K → K) : Prop where
  nonneg : ∀ x, 0 ≤ x → 0 ≤ sq x
  sq_mul : ∀ x, 0 ≤ x → sq x * sq x = x

/-- ℚ's floor (core `Rat.floor`) satisfies `IsFloor`: the hypothesis is not vacuous -/
theorem isFloor_rat : IsFloor (fun x : ℚ => ((Rat.floor x : ℤ) : ℚ)) where
  isInt x := ⟨Rat.floor x, rfl⟩
  le x := Rat.floor_le x
  lt x := by have := Rat.lt_floor_add_one x; simpa using this

theorem int_abs_lt_one {k : ℤ} (h1 : -1 < (k : K)) (h2 : (k : K) < 1) : k = 0 := by
  have a : (-1 : ℤ) < k := by exact_mod_cast h1
  have b : k < (1 : ℤ) := by exact_mod_cast h2
  omega

theorem int_ne_zero_abs {k : ℤ} (h : k ≠ 0) : (1 : K) ≤ |(k : K)| := by
  have : (1 : ℤ) ≤ |k| := Int.one_le_abs h
  have h2 : ((1 : ℤ) : K) ≤ ((|k| : ℤ) : K) := Int.cast_le.mpr this
  simpa using h2

/-! ### wrap -/

/-- **wrap_component**: the code's `D + ½ - floor(D + ½) - ½` lies in [-½, ½) and differs from `d` by an integer -/
theorem wrap_component {fl : K → K} (hf : IsFloor fl) {half : K} (hh : 2 * half = 1) (d : K) :
    -half ≤ wrap fl half d ∧ wrap fl half d < half ∧ IsInt (d - wrap fl half d) := by
  have h1 := hf.le (d + half)
  have h2 := hf.lt (d + half)
  obtain ⟨n, hn⟩ := hf.isInt (d + half)
  refine ⟨?_, ?_, ⟨n, ?_⟩⟩
  · simp only [wrap]; linarith
  · simp only [wrap]; linarith
  · simp only [wrap]; rw [← hn]; ring

/-- the only number in [-½, ½) that differs from `d` by an integer is `wrap d` -/
theorem wrap_unique {fl : K → K} (hf : IsFloor fl) {half : K} (hh : 2 * half = 1) (d w : K)
    (h1 : -half ≤ w) (h2 : w < half) (hi : IsInt (d - w)) : wrap fl half d = w := by
  obtain ⟨a, b, ⟨m, hm⟩⟩ := wrap_component hf hh d
  obtain ⟨n, hn⟩ := hi
  have hk : ((n - m : ℤ) : K) = wrap fl half d - w := by push_cast; rw [← hn, ← hm]; ring
  have : n - m = 0 := by
    apply int_abs_lt_one (K := K)
    · rw [hk]; linarith
    · rw [hk]; linarith
  have h0 : ((n - m : ℤ) : K) = 0 := by rw [this]; simp
  rw [hk] at h0
  linarith

example : wrap (fun x : ℚ => ((Rat.floor x : ℤ) : ℚ)) (1/2) (7/4) = -1/4 := by
  apply wrap_unique isFloor_rat (by norm_num)
  · norm_num
  · norm_num
  · exact ⟨2, by norm_num⟩

/-! ### minimum image -/

def IsLattice (t : V3 K) : Prop := IsInt t.x ∧ IsInt t.y ∧ IsInt t.z

/-- the reciprocal-length bound: `d` are the perpendicular spacings (1/|a*|, 1/|b*|, 1/|c*|) of the cell whose
    metric length is `len`; a fractional component times its spacing never exceeds the length of the vector
    (Cauchy–Schwarz with the reciprocal axes). Proved below for the model's `vectorLength` in orthogonal cells
    (`recipBound_orthogonal`); for general cells it is the hypothesis of the theorems (Cauchy–Schwarz, not proved here). -/
structure RecipBound (len : V3 K → K) (d : V3 K) : Prop where
  dx : 0 < d.x
  dy : 0 < d.y
  dz : 0 < d.z
  bx : ∀ v, |v.x| * d.x ≤ len v
  by' : ∀ v, |v.y| * d.y ≤ len v
  bz : ∀ v, |v.z| * d.z ≤ len v

theorem comp_short {a dd L : K} (hd : 0 < dd) (h1 : |a| * dd ≤ L) (hL : 2 * L < dd) : |a| < 1 / 2 := by
  by_contra h
  push Not at h
  nlinarith

theorem comp_far {a n dd L L' : K} (hd : 0 < dd) (h1 : |a| * dd ≤ L) (hL : 2 * L < dd) (hn : 1 ≤ |n|)
    (h2 : |a + n| * dd ≤ L') : L < L' := by
  have ha := comp_short hd h1 hL
  have hx : 1 / 2 < |a + n| := by
    rcases abs_cases a with ⟨e1, _⟩ | ⟨e1, _⟩ <;> rcases abs_cases n with ⟨e2, _⟩ | ⟨e2, _⟩ <;>
      rcases abs_cases (a + n) with ⟨e3, _⟩ | ⟨e3, _⟩ <;> linarith
  nlinarith

theorem V3.ext' {a b : V3 K} (hx : a.x = b.x) (hy : a.y = b.y) (hz : a.z = b.z) : a = b := by
  cases a; cases b; simp_all

/-- a vector shorter than half of every spacing is strictly shorter than all its other lattice translates -/
theorem short_is_unique_min {len : V3 K → K} {d : V3 K} (hb : RecipBound len d) (w t : V3 K)
    (ht : IsLattice t) (hne : t.x ≠ 0 ∨ t.y ≠ 0 ∨ t.z ≠ 0)
    (hs : 2 * len w < d.x ∧ 2 * len w < d.y ∧ 2 * len w < d.z) : len w < len (w.add t) := by
  obtain ⟨⟨nx, hx⟩, ⟨ny, hy⟩, ⟨nz, hz⟩⟩ := ht
  rcases hne with h | h | h
  · have : nx ≠ 0 := by rintro rfl; apply h; rw [hx]; simp
    exact comp_far hb.dx (hb.bx w) hs.1 (by rw [hx]; exact int_ne_zero_abs this) (hb.bx (w.add t))
  · have : ny ≠ 0 := by rintro rfl; apply h; rw [hy]; simp
    exact comp_far hb.dy (hb.by' w) hs.2.1 (by rw [hy]; exact int_ne_zero_abs this) (hb.by' (w.add t))
  · have : nz ≠ 0 := by rintro rfl; apply h; rw [hz]; simp
    exact comp_far hb.dz (hb.bz w) hs.2.2 (by rw [hz]; exact int_ne_zero_abs this) (hb.bz (w.add t))

theorem isInt_sub {a b : K} (ha : IsInt a) (hb : IsInt b) : IsInt (a - b) := by
  obtain ⟨m, rfl⟩ := ha; obtain ⟨n, rfl⟩ := hb; exact ⟨m - n, by push_cast; ring⟩

theorem isInt_neg {a : K} (ha : IsInt a) : IsInt (-a) := by
  obtain ⟨m, rfl⟩ := ha; exact ⟨-m, by push_cast; ring⟩

/-- **wrap_is_min_image**: if SOME lattice translate `v + t` of the difference vector is shorter than half of
    every perpendicular spacing, then the component-wise wrapped vector of the code IS that translate, and it is
    strictly shorter than every other lattice translate (`t'` ranges over all of ℤ³). -/
theorem wrap_is_min_image {fl : K → K} (hf : IsFloor fl) {half : K} (hh : 2 * half = 1)
    {len : V3 K → K} {d : V3 K} (hb : RecipBound len d) (v t : V3 K) (ht : IsLattice t)
    (hs : 2 * len (v.add t) < d.x ∧ 2 * len (v.add t) < d.y ∧ 2 * len (v.add t) < d.z) :
    wrapV fl half v = v.add t ∧
      ∀ t' : V3 K, IsLattice t' → (t'.x ≠ t.x ∨ t'.y ≠ t.y ∨ t'.z ≠ t.z) → len (v.add t) < len (v.add t') := by
  have hhalf : half = 1 / 2 := by linarith
  constructor
  · have cx := comp_short hb.dx (hb.bx _) hs.1
    have cy := comp_short hb.dy (hb.by' _) hs.2.1
    have cz := comp_short hb.dz (hb.bz _) hs.2.2
    rw [abs_lt] at cx cy cz
    apply V3.ext'
    · apply wrap_unique hf hh <;> simp only [V3.add] at cx ⊢
      · linarith [cx.1]
      · linarith [cx.2]
      · have := isInt_neg ht.1; obtain ⟨n, hn⟩ := this; exact ⟨n, by rw [← hn]; ring⟩
    · apply wrap_unique hf hh <;> simp only [V3.add] at cy ⊢
      · linarith [cy.1]
      · linarith [cy.2]
      · have := isInt_neg ht.2.1; obtain ⟨n, hn⟩ := this; exact ⟨n, by rw [← hn]; ring⟩
    · apply wrap_unique hf hh <;> simp only [V3.add] at cz ⊢
      · linarith [cz.1]
      · linarith [cz.2]
      · have := isInt_neg ht.2.2; obtain ⟨n, hn⟩ := this; exact ⟨n, by rw [← hn]; ring⟩
  · intro t' ht' hne
    have e : v.add t' = (v.add t).add (t'.sub t) := by
      apply V3.ext' <;> simp only [V3.add, V3.sub] <;> ring
    rw [e]
    apply short_is_unique_min hb _ _ ⟨isInt_sub ht'.1 ht.1, isInt_sub ht'.2.1 ht.2.1, isInt_sub ht'.2.2 ht.2.2⟩ _ hs
    simp only [V3.sub]
    rcases hne with h | h | h
    · left; intro h0; apply h; linarith
    · right; left; intro h0; apply h; linarith
    · right; right; intro h0; apply h; linarith

/-! ### the model's `vector_length` satisfies the reciprocal-length bound -/

theorem le_sqrt_of_sq_le {sq : K → K} (hs : IsSqrt sq) {u s : K} (_hu : 0 ≤ u) (h : u * u ≤ s) : u ≤ sq s := by
  have hs0 : 0 ≤ s := le_trans (mul_self_nonneg u) h
  by_contra hc
  push Not at hc
  have h1 := hs.nonneg s hs0
  have h2 := hs.sq_mul s hs0
  nlinarith

/-- orthogonal cells (all three cosines 0): the spacings are the cell lengths -/
theorem recipBound_orthogonal {sq : K → K} (hs : IsSqrt sq) {a b c : K} (ha : 0 < a) (hb : 0 < b) (hc : 0 < c) :
    RecipBound (vectorLength sq (Cell.ofLengths a b c 0 0 0)) ⟨a, b, c⟩ where
  dx := ha
  dy := hb
  dz := hc
  bx v := by
    apply le_sqrt_of_sq_le hs (mul_nonneg (abs_nonneg _) ha.le)
    have e : |v.x| * a * (|v.x| * a) = v.x * v.x * (a * a) := by rw [← abs_mul_abs_self v.x]; ring
    rw [e]; simp only [quadForm, Cell.ofLengths]
    nlinarith [mul_self_nonneg (v.y * b), mul_self_nonneg (v.z * c)]
  by' v := by
    apply le_sqrt_of_sq_le hs (mul_nonneg (abs_nonneg _) hb.le)
    have e : |v.y| * b * (|v.y| * b) = v.y * v.y * (b * b) := by rw [← abs_mul_abs_self v.y]; ring
    rw [e]; simp only [quadForm, Cell.ofLengths]
    nlinarith [mul_self_nonneg (v.x * a), mul_self_nonneg (v.z * c)]
  bz v := by
    apply le_sqrt_of_sq_le hs (mul_nonneg (abs_nonneg _) hc.le)
    have e : |v.z| * c * (|v.z| * c) = v.z * v.z * (c * c) := by rw [← abs_mul_abs_self v.z]; ring
    rw [e]; simp only [quadForm, Cell.ofLengths]
    nlinarith [mul_self_nonneg (v.x * a), mul_self_nonneg (v.y * b)]

/-! ### the tie to the traced source (`ShelxModel/Extracted/C13Src.lean`, regenerated on every run) -/

/-- `SDM.__init__` + `SDM.vector_length` of the working tree, executed on symbolic numbers by the tracing translator
    (extract/trace_c13.py), is the model's `vectorLength` on `Cell.ofLengths` — for all cells and all vectors, however
    the code spells or pre-computes the quadratic form (`ring` under the square root). -/
theorem src_vectorLength (sq : K → K) (a b c ca cb cg x y z : K) :
    Src.vectorLength sq a b c ca cb cg x y z = vectorLength sq (Cell.ofLengths a b c ca cb cg) ⟨x, y, z⟩ := by
  unfold Src.vectorLength vectorLength quadForm Cell.ofLengths
  congr 1
  ring

example : Src.vectorLength (fun q : ℚ => q) 2 3 4 0 0 (1/2) 1 1 0 = 19 := by
  unfold Src.vectorLength; norm_num

/-! ### the bond criterion -/

/-- the PART/hydrogen condition as the code decides it (regenerated: the decision tree of the tests the code makes
    on the PART numbers, per combination of hydrogen flags) is the rule of the statement:
    never between different non-zero PARTs, hydrogens only within the same PART.
    The proof does not depend on the shape of the tree: per combination of hydrogen flags either `simp` + `omega`
    on the whole expression, or every `if` split and the leaves closed by `simp_all` / `omega`. -/
theorem bondAllowed_iff_rule (h1 h2 : Bool) (p1 p2 : Int) :
    Extracted.bondAllowed h1 h2 p1 p2 = true ↔ ruleAllowed h1 h2 p1 p2 := by
  unfold Extracted.bondAllowed ruleAllowed
  cases h1 <;> cases h2 <;> first
    | (simp <;> omega)
    | (simp only [] <;> (try split_ifs) <;> (try simp_all) <;> (try omega))

/-- **covalent_iff_rule**: `covalent` of an `SDMItem` is the library's bonding rule applied to the reported
    distance. Hypothesis `hd`: the distance is not below the limit the code uses where no bond is allowed
    (`0.0`; reported distances exceed 0.01). -/
theorem covalent_iff_rule (c : Consts K) (r1 r2 d : K) (h1 h2 : Bool) (p1 p2 : Int) (hd : c.nobond ≤ d) :
    covalentOf c (Extracted.bondAllowed h1 h2 p1 p2) r1 r2 d = ruleBonded c.factor r1 r2 d h1 h2 p1 p2 := by
  have hr := bondAllowed_iff_rule h1 h2 p1 p2
  unfold covalentOf ruleBonded
  by_cases ha : Extracted.bondAllowed h1 h2 p1 p2 = true
  · have : ruleAllowed h1 h2 p1 p2 := hr.mp ha
    simp [ha, this, mul_comm]
  · have hn : ¬ ruleAllowed h1 h2 p1 p2 := fun h => ha (hr.mpr h)
    have hlt : ¬ d < c.nobond := not_lt.mpr hd
    simp [ha, hn, hlt]

example : ruleAllowed true false 1 1 ∧ ¬ ruleAllowed true false 0 1 ∧ ruleAllowed false false 0 2 ∧
    ¬ ruleAllowed false false 1 2 := by decide

/-! ### the operator loop picks the minimum -/

/-- operator `n` with wrapped length `dk` takes part in the comparison -/
def Eligible (c : Consts K) (n : Nat) (dk : K) : Prop := ¬ dk > c.cut ∧ biased c n dk > c.eps

theorem selStep_cases (c : Consts K) (st : K × Option (K × Nat)) (n : Nat) (dk : K) :
    (selStep c st n dk = st ∧ (Eligible c n dk → st.1 < biased c n dk)) ∨
    (Eligible c n dk ∧ biased c n dk ≤ st.1 ∧ selStep c st n dk = (biased c n dk, some (dk, n))) := by
  unfold selStep Eligible
  by_cases h1 : dk > c.cut
  · left; simp [h1]
  · by_cases h2 : biased c n dk > c.eps ∧ st.1 ≥ biased c n dk
    · right
      refine ⟨⟨h1, h2.1⟩, h2.2, ?_⟩
      have : ¬ st.1 < biased c n dk := not_lt.mpr h2.2
      simp [h1, h2.1, h2.2, pyMin, this]
    · left
      refine ⟨by simp only [h1, if_false]; rw [if_neg h2], ?_⟩
      rintro ⟨_, he⟩
      by_contra hc
      exact h2 ⟨he, not_lt.mp hc⟩

theorem selLoop_spec (c : Consts K) : ∀ (ds : List K) (st : K × Option (K × Nat)) (n : Nat),
    (selLoop c st n ds).1 ≤ st.1 ∧
    (∀ i di, ds[i]? = some di → Eligible c (n + i) di → (selLoop c st n ds).1 ≤ biased c (n + i) di) ∧
    (selLoop c st n ds = st ∨ ∃ i di, ds[i]? = some di ∧ Eligible c (n + i) di ∧
        selLoop c st n ds = (biased c (n + i) di, some (di, n + i))) := by
  intro ds
  induction ds with
  | nil => intro st n; simp [selLoop]
  | cons dk ds ih =>
    intro st n
    obtain ⟨i1, i2, i3⟩ := ih (selStep c st n dk) (n + 1)
    simp only [selLoop]
    have hst : (selStep c st n dk).1 ≤ st.1 := by
      rcases selStep_cases c st n dk with ⟨e, _⟩ | ⟨_, h, e⟩
      · rw [e]
      · rw [e]; exact h
    refine ⟨le_trans i1 hst, ?_, ?_⟩
    · intro i di hi he
      cases i with
      | zero =>
        simp only [List.getElem?_cons_zero, Option.some.injEq] at hi
        subst hi
        have e0 : n + 0 = n := rfl
        rw [e0] at he ⊢
        refine le_trans i1 ?_
        rcases selStep_cases c st n dk with ⟨e, h⟩ | ⟨_, _, e⟩
        · rw [e]; exact le_of_lt (h he)
        · rw [e]
      | succ k =>
        simp only [List.getElem?_cons_succ] at hi
        have e : n + (k + 1) = n + 1 + k := by omega
        rw [e] at he ⊢
        exact i2 k di hi he
    · rcases i3 with h | ⟨k, di, hk, he, h⟩
      · rcases selStep_cases c st n dk with ⟨e, _⟩ | ⟨el, _, e⟩
        · left; rw [h, e]
        · right; exact ⟨0, dk, by simp, el, by rw [h, e]; rfl⟩
      · right
        have e : n + 1 + k = n + (k + 1) := by omega
        rw [e] at he h
        exact ⟨k + 1, di, by simpa using hk, he, h⟩

/-- what `selectOp` returns: the entry of an eligible operator whose handicapped length is minimal -/
theorem selectOp_some (c : Consts K) (ds : List K) (d : K) (n : Nat) (h : selectOp c ds = some (d, n)) :
    ds[n]? = some d ∧ Eligible c n d ∧
      ∀ i di, ds[i]? = some di → Eligible c i di → biased c n d ≤ biased c i di := by
  obtain ⟨_, s2, s3⟩ := selLoop_spec c ds (c.big, none) 0
  unfold selectOp at h
  rcases s3 with e | ⟨i, di, hi, he, e⟩
  · rw [e] at h; simp at h
  · rw [e] at h
    simp only [Option.some.injEq, Prod.mk.injEq, Nat.zero_add] at h
    obtain ⟨rfl, rfl⟩ := h
    rw [Nat.zero_add] at he
    refine ⟨hi, he, ?_⟩
    intro j dj hj hej
    have := s2 j dj hj (by rw [Nat.zero_add]; exact hej)
    rw [e, Nat.zero_add] at this
    simpa using this

/-- no item only if no operator is eligible. `hbig`: the start value 1000000 of the running minimum exceeds
    every handicapped length that passed the cut. -/
theorem selectOp_none (c : Consts K) (ds : List K) (hb : 0 ≤ c.bias) (hbig : c.cut + c.bias < c.big)
    (h : selectOp c ds = none) : ∀ i di, ds[i]? = some di → ¬ Eligible c i di := by
  intro i di hi he
  obtain ⟨_, s2, s3⟩ := selLoop_spec c ds (c.big, none) 0
  unfold selectOp at h
  have h2 := s2 i di hi (by rw [Nat.zero_add]; exact he)
  rcases s3 with e | ⟨k, dk, _, _, e⟩
  · rw [e, Nat.zero_add] at h2
    have : biased c i di ≤ c.cut + c.bias := by
      have := not_lt.mp he.1
      unfold biased; split <;> linarith
    simp only at h2
    linarith
  · rw [e] at h; simp at h

/-- exact minimality. `hsep` is the separation hypothesis the identity handicap forces: the identity's contact
    is not within `bias` (0.0001 Å) above a strictly shorter contact of another operator (there the code
    deliberately reports the identity). -/
theorem selectOp_min (c : Consts K) (ds : List K) (d : K) (n : Nat) (h : selectOp c ds = some (d, n))
    (hb : 0 ≤ c.bias)
    (hsep : ∀ i di d0, i ≠ 0 → ds[i]? = some di → ds[0]? = some d0 → di < d0 → di + c.bias < d0) :
    ∀ i di, ds[i]? = some di → Eligible c i di → d ≤ di := by
  obtain ⟨hn, _, hmin⟩ := selectOp_some c ds d n h
  intro i di hi he
  have hle := hmin i di hi he
  unfold biased at hle
  by_cases n0 : n = 0 <;> by_cases i0 : i = 0 <;> simp only [n0, i0, if_true, if_false] at hle
  · exact hle
  · by_contra hc
    push Not at hc
    have := hsep i di d i0 hi (by rw [← n0]; exact hn) hc
    linarith
  · linarith
  · linarith

/-! ### sdm_reports_min -/

theorem map_getElem? {α β : Type} (f : α → β) (l : List α) (i : Nat) (y : β) (h : (l.map f)[i]? = some y) :
    ∃ x, l[i]? = some x ∧ f x = y := by
  rw [List.getElem?_map] at h
  cases hx : l[i]? with
  | none => rw [hx] at h; simp at h
  | some x => rw [hx] at h; exact ⟨x, rfl, by simpa using h⟩

/-- **sdm_reports_min**. For one ordered pair of atoms `x1`, `x2` and the operator list `ops` the library holds:
    if the model's operator loop returns `(d, n)` and `d` is below half of every perpendicular spacing, then
    (i) operator `n` realises `d` with some lattice translation `t ∈ ℤ³`, and
    (ii) `d` is the minimum of `‖R x1 + τ + t − x2‖` over ALL operators of the list and ALL `t ∈ ℤ³`,
         among the images farther than `eps` (0.01 Å: closer images count as the atom itself).
    Hypotheses: exact `floor`/`sqrt`; the reciprocal-length bound of the cell (`RecipBound`, proved for orthogonal
    cells); `hsep` (see `selectOp_min`). The 5.3 Å cut needs no hypothesis here: an item exists, so `d ≤ cut`. -/
theorem sdm_reports_min {fl sq : K → K} (hf : IsFloor fl) (c : Consts K) (hh : 2 * c.half = 1) (hb : 0 ≤ c.bias)
    (cell : Cell K) {dsp : V3 K} (hr : RecipBound (vectorLength sq cell) dsp)
    (ops : List (Op K)) (x1 x2 : V3 K) (d : K) (n : Nat)
    (h : selectOp c (opLengths fl sq c cell ops x1 x2) = some (d, n))
    (hdom : 2 * d < dsp.x ∧ 2 * d < dsp.y ∧ 2 * d < dsp.z)
    (hsep : ∀ i di d0, i ≠ 0 → (opLengths fl sq c cell ops x1 x2)[i]? = some di →
        (opLengths fl sq c cell ops x1 x2)[0]? = some d0 → di < d0 → di + c.bias < d0) :
    (∃ o t, ops[n]? = some o ∧ IsLattice t ∧ d = vectorLength sq cell (((applyOp o x1).sub x2).add t)) ∧
    (∀ (i : Nat) (o : Op K) (t : V3 K), ops[i]? = some o → IsLattice t →
        c.eps < vectorLength sq cell (((applyOp o x1).sub x2).add t) →
        d ≤ vectorLength sq cell (((applyOp o x1).sub x2).add t)) := by
  obtain ⟨hn, hel, _⟩ := selectOp_some c _ d n h
  have hmin := selectOp_min c _ d n h hb hsep
  constructor
  · obtain ⟨o, ho, hfo⟩ := map_getElem? _ ops n d hn
    set v := (applyOp o x1).sub x2 with hv
    obtain ⟨_, _, ix⟩ := wrap_component hf hh v.x
    obtain ⟨_, _, iy⟩ := wrap_component hf hh v.y
    obtain ⟨_, _, iz⟩ := wrap_component hf hh v.z
    refine ⟨o, (wrapV fl c.half v).sub v, ho, ?_, ?_⟩
    · refine ⟨?_, ?_, ?_⟩
      · obtain ⟨k, hk⟩ := isInt_neg ix; exact ⟨k, by rw [← hk]; simp [V3.sub, wrapV]⟩
      · obtain ⟨k, hk⟩ := isInt_neg iy; exact ⟨k, by rw [← hk]; simp [V3.sub, wrapV]⟩
      · obtain ⟨k, hk⟩ := isInt_neg iz; exact ⟨k, by rw [← hk]; simp [V3.sub, wrapV]⟩
    · have e : v.add ((wrapV fl c.half v).sub v) = wrapV fl c.half v := by
        apply V3.ext' <;> simp only [V3.add, V3.sub] <;> ring
      rw [e, ← hfo]; rfl
  · intro i o t ho ht hfar
    set v := (applyOp o x1).sub x2 with hv
    set L := vectorLength sq cell (v.add t) with hL
    by_cases hs : 2 * L < dsp.x ∧ 2 * L < dsp.y ∧ 2 * L < dsp.z
    · have hw := (wrap_is_min_image hf hh hr v t ht hs).1
      have hi : (opLengths fl sq c cell ops x1 x2)[i]? = some L := by
        unfold opLengths
        rw [List.getElem?_map, ho]
        simp only [Option.map_some, wrappedDiff]
        rw [← hv, hw]
      by_cases hcut : L > c.cut
      · have := not_lt.mp hel.1
        exact le_trans this (le_of_lt hcut)
      · apply hmin i L hi
        refine ⟨hcut, ?_⟩
        unfold biased
        split
        · exact hfar
        · have : c.eps < L := hfar
          show c.eps < L + c.bias
          linarith
    · have : dsp.x ≤ 2 * L ∨ dsp.y ≤ 2 * L ∨ dsp.z ≤ 2 * L := by
        by_contra hc
        push Not at hc
        exact hs ⟨hc.1, hc.2.1, hc.2.2⟩
      rcases this with h1 | h1 | h1
      · linarith [hdom.1]
      · linarith [hdom.2.1]
      · linarith [hdom.2.2]


/-! ### molecule numbers -/

/-- connected in the bond graph (`covalent` items, either direction) -/
inductive Conn (items : List Bond) : Nat → Nat → Prop
  | refl (i : Nat) : Conn items i i
  | bond (b : Bond) (hb : b ∈ items) (hc : b.covalent = true) : Conn items b.a1 b.a2
  | symm {i j : Nat} : Conn items i j → Conn items j i
  | trans {i j k : Nat} : Conn items i j → Conn items j k → Conn items i k

/-- no covalent item joins a numbered and an unnumbered atom -/
def Closed (items : List Bond) (m : Nat → Int) : Prop :=
  ∀ b ∈ items, b.covalent = true → ¬ (m b.a1 * m b.a2 < 0)

/-- the loop invariant of `calc_molindex` -/
structure Inv (items : List Bond) (mx : Int) (m : Nat → Int) : Prop where
  mxpos : 0 < mx
  zero : 0 < m 0
  range : ∀ i, m i < 0 ∨ (1 ≤ m i ∧ m i ≤ mx)
  closedOld : ∀ b ∈ items, b.covalent = true →
    (0 < m b.a1 → m b.a1 < mx → 0 < m b.a2) ∧ (0 < m b.a2 → m b.a2 < mx → 0 < m b.a1)
  same : ∀ b ∈ items, b.covalent = true → 0 < m b.a1 → 0 < m b.a2 → m b.a1 = m b.a2
  conn : ∀ i j, 0 < m i → m i = m j → Conn items i j

theorem upd_same (m : Nat → Int) (i : Nat) (v : Int) : upd m i v i = v := by simp [upd]
theorem upd_other (m : Nat → Int) (i k : Nat) (v : Int) (h : k ≠ i) : upd m i v k = m k := by simp [upd, h]

/-- numbering one more atom `b'` of the molecule under construction, next to an atom `a` that has the number -/
theorem inv_assign {items : List Bond} {mx : Int} {m : Nat → Int} (hi : Inv items mx m) (a b' : Nat)
    (ha : m a = mx) (hb : m b' < 0) (hc : Conn items a b') : Inv items mx (upd m b' mx) := by
  have hmx := hi.mxpos
  have val : ∀ k, (k = b' ∧ upd m b' mx k = mx) ∨ (k ≠ b' ∧ upd m b' mx k = m k) := by
    intro k
    by_cases h : k = b'
    · left; exact ⟨h, by rw [h]; exact upd_same _ _ _⟩
    · right; exact ⟨h, upd_other _ _ _ _ h⟩
  refine ⟨hmx, ?_, ?_, ?_, ?_, ?_⟩
  · rcases val 0 with ⟨_, e⟩ | ⟨_, e⟩ <;> rw [e]
    · exact hmx
    · exact hi.zero
  · intro i
    rcases val i with ⟨_, e⟩ | ⟨_, e⟩ <;> rw [e]
    · right; omega
    · exact hi.range i
  · intro b hbm hcov
    obtain ⟨o1, o2⟩ := hi.closedOld b hbm hcov
    constructor
    · intro h1 h2
      rcases val b.a1 with ⟨_, e⟩ | ⟨_, e⟩ <;> rw [e] at h1 h2
      · omega
      · have := o1 h1 h2
        rcases val b.a2 with ⟨_, e2⟩ | ⟨_, e2⟩ <;> rw [e2]
        · exact hmx
        · exact this
    · intro h1 h2
      rcases val b.a2 with ⟨_, e⟩ | ⟨_, e⟩ <;> rw [e] at h1 h2
      · omega
      · have := o2 h1 h2
        rcases val b.a1 with ⟨_, e2⟩ | ⟨_, e2⟩ <;> rw [e2]
        · exact hmx
        · exact this
  · intro b hbm hcov h1 h2
    obtain ⟨o1, o2⟩ := hi.closedOld b hbm hcov
    have r1 := hi.range b.a1
    have r2 := hi.range b.a2
    rcases val b.a1 with ⟨k1, e1⟩ | ⟨k1, e1⟩ <;> rcases val b.a2 with ⟨k2, e2⟩ | ⟨k2, e2⟩ <;>
      rw [e1] at h1 ⊢ <;> rw [e2] at h2 ⊢
    · -- a1 = b' (was unnumbered), a2 numbered: a2 must carry mx
      rw [k1] at o2
      by_contra hne
      have : m b.a2 < mx := by omega
      have := o2 h2 this
      omega
    · rw [k2] at o1
      by_contra hne
      have : m b.a1 < mx := by omega
      have := o1 h1 this
      omega
    · exact hi.same b hbm hcov h1 h2
  · intro i j h1 h2
    rcases val i with ⟨k1, e1⟩ | ⟨k1, e1⟩ <;> rcases val j with ⟨k2, e2⟩ | ⟨k2, e2⟩ <;>
      rw [e1] at h1 h2 <;> rw [e2] at h2
    · rw [k1, k2]; exact Conn.refl _
    · rw [k1]
      have : Conn items a j := hi.conn a j (by rw [ha]; exact hmx) (by rw [ha]; exact h2)
      exact Conn.trans (Conn.symm hc) this
    · rw [k2]
      have : Conn items i a := hi.conn i a h1 (by rw [ha]; exact h2)
      exact Conn.trans this hc
    · exact hi.conn i j h1 h2

theorem fires_iff (m : Nat → Int) (b : Bond) :
    fires m b = true ↔ b.covalent = true ∧ m b.a1 * m b.a2 < 0 := by
  simp [fires]

/-- one firing of the sweep keeps the invariant -/
theorem inv_fire {items : List Bond} {mx : Int} {m : Nat → Int} (hi : Inv items mx m) (b : Bond)
    (hb : b ∈ items) (hf : fires m b = true) : Inv items mx (upd (upd m b.a1 mx) b.a2 mx) := by
  obtain ⟨hcov, hneg⟩ := (fires_iff m b).mp hf
  obtain ⟨o1, o2⟩ := hi.closedOld b hb hcov
  have r1 := hi.range b.a1
  have r2 := hi.range b.a2
  have hsplit : (0 < m b.a1 ∧ m b.a2 < 0) ∨ (m b.a1 < 0 ∧ 0 < m b.a2) := by
    rcases Int.mul_neg_iff.mp hneg with h | h
    · left; exact h
    · right; exact h
  rcases hsplit with ⟨p, q⟩ | ⟨p, q⟩
  · have e1 : m b.a1 = mx := by
      by_contra hne
      have : m b.a1 < mx := by omega
      have := o1 p this
      omega
    have : upd (upd m b.a1 mx) b.a2 mx = upd m b.a2 mx := by
      funext k
      simp only [upd]
      by_cases hk : k = b.a2
      · simp [hk]
      · by_cases hk1 : k = b.a1
        · simp [hk1, e1]
        · simp [hk, hk1]
    rw [this]
    exact inv_assign hi b.a1 b.a2 e1 q (Conn.bond b hb hcov)
  · have e2 : m b.a2 = mx := by
      by_contra hne
      have : m b.a2 < mx := by omega
      have := o2 q this
      omega
    have : upd (upd m b.a1 mx) b.a2 mx = upd m b.a1 mx := by
      funext k
      simp only [upd]
      by_cases hk : k = b.a2
      · by_cases hk1 : k = b.a1
        · simp [hk1]
        · rw [if_pos hk, if_neg hk1, hk, e2]
      · simp [hk]
    rw [this]
    exact inv_assign hi b.a2 b.a1 e2 p (Conn.symm (Conn.bond b hb hcov))

theorem molFold_inv {items : List Bond} {mx : Int} : ∀ (l : List Bond) (st : (Nat → Int) × Nat),
    (∀ b ∈ l, b ∈ items) → Inv items mx st.1 → Inv items mx (l.foldl (molStep mx) st).1 := by
  intro l
  induction l with
  | nil => intro st _ h; exact h
  | cons b l ih =>
    intro st hsub h
    simp only [List.foldl_cons]
    apply ih
    · intro x hx; exact hsub x (List.mem_cons_of_mem _ hx)
    · unfold molStep
      by_cases hf : fires st.1 b = true
      · rw [if_pos hf]; exact inv_fire h b (hsub b (List.mem_cons_self ..)) hf
      · rw [if_neg hf]; exact h

/-- the count only grows; if it did not grow, nothing fired and the labels are unchanged -/
theorem molFold_count {mx : Int} : ∀ (l : List Bond) (st : (Nat → Int) × Nat),
    st.2 ≤ (l.foldl (molStep mx) st).2 ∧
    ((l.foldl (molStep mx) st).2 = st.2 → (l.foldl (molStep mx) st).1 = st.1 ∧ ∀ b ∈ l, fires st.1 b = false) := by
  intro l
  induction l with
  | nil => intro st; simp
  | cons b l ih =>
    intro st
    simp only [List.foldl_cons]
    obtain ⟨g1, g2⟩ := ih (molStep mx st b)
    by_cases hf : fires st.1 b = true
    · have e : molStep mx st b = (upd (upd st.1 b.a1 mx) b.a2 mx, st.2 + 1) := by unfold molStep; rw [if_pos hf]
      rw [e] at g1 g2 ⊢
      simp only at g1 g2
      exact ⟨by omega, fun h => by omega⟩
    · have e : molStep mx st b = st := by unfold molStep; rw [if_neg hf]
      rw [e] at g1 g2 ⊢
      refine ⟨g1, fun h => ?_⟩
      obtain ⟨a1, a2⟩ := g2 h
      refine ⟨a1, ?_⟩
      intro x hx
      rcases List.mem_cons.mp hx with rfl | hx
      · simpa using hf
      · exact a2 x hx

/-- `while someleft`: when it ends, the invariant holds and the numbering is closed under bonds -/
theorem molInner_spec {items : List Bond} {mx : Int} : ∀ (f : Nat) (m m' : Nat → Int),
    Inv items mx m → molInner mx items f m = some m' → Inv items mx m' ∧ Closed items m' := by
  intro f
  induction f with
  | zero => intro m m' _ h; simp [molInner] at h
  | succ f ih =>
    intro m m' hi h
    simp only [molInner] at h
    have hinv : Inv items mx (molPass mx items m).1 := molFold_inv items (m, 0) (fun _ hb => hb) hi
    by_cases hz : (molPass mx items m).2 = 0
    · rw [if_pos hz] at h
      have hm' : (molPass mx items m).1 = m' := by simpa using h
      obtain ⟨_, g2⟩ := molFold_count (mx := mx) items (m, 0)
      obtain ⟨e1, e2⟩ := g2 hz
      have em : m' = m := by rw [← hm']; exact e1
      refine ⟨by rw [← hm']; exact hinv, ?_⟩
      intro b hb hcov hneg
      have := e2 b hb
      rw [em] at hneg
      have hf : fires m b = true := (fires_iff m b).mpr ⟨hcov, hneg⟩
      simp only at this
      rw [hf] at this
      exact Bool.noConfusion this
    · rw [if_neg hz] at h
      exact ih _ _ hinv h

/-- starting the next molecule at an unnumbered atom -/
theorem inv_seed {items : List Bond} {mx : Int} {m : Nat → Int} (hi : Inv items mx m) (hc : Closed items m)
    (ni : Nat) (hn : m ni < 0) : Inv items (mx + 1) (upd m ni (mx + 1)) := by
  have hmx := hi.mxpos
  have val : ∀ k, (k = ni ∧ upd m ni (mx + 1) k = mx + 1) ∨ (k ≠ ni ∧ upd m ni (mx + 1) k = m k) := by
    intro k
    by_cases h : k = ni
    · left; exact ⟨h, by rw [h]; exact upd_same _ _ _⟩
    · right; exact ⟨h, upd_other _ _ _ _ h⟩
  have posOf : ∀ b ∈ items, b.covalent = true → (0 < m b.a1 → 0 < m b.a2) ∧ (0 < m b.a2 → 0 < m b.a1) := by
    intro b hb hcov
    have h := hc b hb hcov
    have r1 := hi.range b.a1
    have r2 := hi.range b.a2
    constructor
    · intro p
      rcases r2 with q | q
      · exact absurd (Int.mul_neg_of_pos_of_neg p q) h
      · omega
    · intro p
      rcases r1 with q | q
      · exact absurd (Int.mul_neg_of_neg_of_pos q p) h
      · omega
  refine ⟨by omega, ?_, ?_, ?_, ?_, ?_⟩
  · rcases val 0 with ⟨_, e⟩ | ⟨_, e⟩ <;> rw [e]
    · omega
    · exact hi.zero
  · intro i
    rcases val i with ⟨_, e⟩ | ⟨_, e⟩ <;> rw [e]
    · right; omega
    · rcases hi.range i with h | h
      · left; exact h
      · right; omega
  · intro b hb hcov
    obtain ⟨p1, p2⟩ := posOf b hb hcov
    constructor
    · intro h1 h2
      rcases val b.a1 with ⟨_, e⟩ | ⟨_, e⟩ <;> rw [e] at h1 h2
      · omega
      · rcases val b.a2 with ⟨_, e2⟩ | ⟨_, e2⟩ <;> rw [e2]
        · omega
        · exact p1 h1
    · intro h1 h2
      rcases val b.a2 with ⟨_, e⟩ | ⟨_, e⟩ <;> rw [e] at h1 h2
      · omega
      · rcases val b.a1 with ⟨_, e2⟩ | ⟨_, e2⟩ <;> rw [e2]
        · omega
        · exact p2 h1
  · intro b hb hcov h1 h2
    obtain ⟨p1, p2⟩ := posOf b hb hcov
    rcases val b.a1 with ⟨k1, e1⟩ | ⟨k1, e1⟩ <;> rcases val b.a2 with ⟨k2, e2⟩ | ⟨k2, e2⟩ <;>
      rw [e1] at h1 ⊢ <;> rw [e2] at h2 ⊢
    · have := p2 h2; rw [k1] at this; omega
    · have := p1 h1; rw [k2] at this; omega
    · exact hi.same b hb hcov h1 h2
  · intro i j h1 h2
    rcases val i with ⟨k1, e1⟩ | ⟨k1, e1⟩ <;> rcases val j with ⟨k2, e2⟩ | ⟨k2, e2⟩ <;>
      rw [e1] at h1 h2 <;> rw [e2] at h2
    · rw [k1, k2]; exact Conn.refl _
    · have := hi.range j; omega
    · have := hi.range i; omega
    · exact hi.conn i j h1 h2

theorem molOuter_spec {items : List Bond} (hyd : Nat → Bool) (n fi : Nat) : ∀ (f : Nat) (mx : Int) (m : Nat → Int)
    (r : (Nat → Int) × Int), Inv items mx m → molOuter hyd n items fi f mx m = some r →
    Inv items r.2 r.1 ∧ Closed items r.1 ∧ firstUnassigned hyd n r.1 = none := by
  intro f
  induction f with
  | zero => intro mx m r _ h; simp [molOuter] at h
  | succ f ih =>
    intro mx m r hi h
    simp only [molOuter] at h
    cases hin : molInner mx items fi m with
    | none => rw [hin] at h; simp at h
    | some m1 =>
      rw [hin] at h
      dsimp only at h
      obtain ⟨hinv, hcl⟩ := molInner_spec fi m m1 hi hin
      cases hfu : firstUnassigned hyd n m1 with
      | none =>
        rw [hfu] at h
        simp only [Option.some.injEq] at h
        subst h
        exact ⟨hinv, hcl, hfu⟩
      | some ni =>
        rw [hfu] at h
        simp only at h
        have hfound := List.find?_some hfu
        simp only [Bool.and_eq_true, Bool.not_eq_true', decide_eq_true_eq] at hfound
        by_cases h0 : ni = 0
        · -- index 0 is never unnumbered: the branch that would end the loop early is dead
          exfalso
          rw [h0] at hfound
          have := hinv.zero
          omega
        · rw [if_neg h0] at h
          exact ih _ _ r (inv_seed hinv hcl ni hfound.2) h

theorem inv_init (items : List Bond) : Inv items 1 (upd (fun _ => -1) 0 1) := by
  have val : ∀ k, (k = 0 ∧ upd (fun _ => (-1 : Int)) 0 1 k = 1) ∨ (k ≠ 0 ∧ upd (fun _ => (-1 : Int)) 0 1 k = -1) := by
    intro k
    by_cases h : k = 0
    · left; exact ⟨h, by rw [h]; exact upd_same _ _ _⟩
    · right; exact ⟨h, upd_other _ _ _ _ h⟩
  refine ⟨by omega, ?_, ?_, ?_, ?_, ?_⟩
  · rcases val 0 with ⟨_, e⟩ | ⟨_, e⟩ <;> rw [e] <;> omega
  · intro i; rcases val i with ⟨_, e⟩ | ⟨_, e⟩ <;> rw [e] <;> omega
  · intro b _ _
    constructor
    · intro h1 h2; rcases val b.a1 with ⟨_, e⟩ | ⟨_, e⟩ <;> rw [e] at h1 h2 <;> omega
    · intro h1 h2; rcases val b.a2 with ⟨_, e⟩ | ⟨_, e⟩ <;> rw [e] at h1 h2 <;> omega
  · intro b _ _ h1 h2
    rcases val b.a1 with ⟨_, e1⟩ | ⟨_, e1⟩ <;> rcases val b.a2 with ⟨_, e2⟩ | ⟨_, e2⟩ <;>
      rw [e1] at h1 ⊢ <;> rw [e2] at h2 ⊢ <;> omega
  · intro i j h1 h2
    rcases val i with ⟨k1, e1⟩ | ⟨k1, e1⟩ <;> rcases val j with ⟨k2, e2⟩ | ⟨k2, e2⟩ <;>
      rw [e1] at h1 h2 <;> rw [e2] at h2
    · rw [k1, k2]; exact Conn.refl _
    · omega
    · omega
    · omega

/-- **molindex_components** (what is proved of `calc_molindex`, for every atom list and every item list — no
    symmetry of the item list is assumed). If the fuelled loop returns labels `m`:
    (1) every non-hydrogen atom is numbered (> 0);
    (2) a covalent item with a numbered end has both ends numbered, with the same number;
    (3) for a numbered atom `i`: `m i = m j` exactly when `i` and `j` are connected in the bond graph.
    Not claimed (open finding, `molindex_fails_on_lone_hydrogens`): atoms of hydrogen-only components keep -1.
    Fuel: `n + 1` sweeps per molecule and `n + 1` molecules; sufficient by `calcMolindex_fuel_sufficient` below. -/
theorem molindex_components (hyd : Nat → Bool) (n : Nat) (items : List Bond) (m : Nat → Int) (mx : Int)
    (h : calcMolindex hyd n items = some (m, mx)) :
    (∀ i, i < n → hyd i = false → 0 < m i) ∧
    (∀ b ∈ items, b.covalent = true → (0 < m b.a1 ∨ 0 < m b.a2) → 0 < m b.a1 ∧ m b.a1 = m b.a2) ∧
    (∀ i j, 0 < m i → (m i = m j ↔ Conn items i j)) := by
  unfold calcMolindex at h
  by_cases hn : n = 0
  · rw [if_pos hn] at h; simp at h
  rw [if_neg hn] at h
  obtain ⟨hinv, hcl, hfu⟩ := molOuter_spec hyd n (n + 1) (n + 1) 1 _ (m, mx) (inv_init items) h
  simp only at hinv hcl hfu
  have bonded : ∀ b ∈ items, b.covalent = true → (0 < m b.a1 ∨ 0 < m b.a2) → 0 < m b.a1 ∧ m b.a1 = m b.a2 := by
    intro b hb hcov hor
    have hc := hcl b hb hcov
    have r1 := hinv.range b.a1
    have r2 := hinv.range b.a2
    have both : 0 < m b.a1 ∧ 0 < m b.a2 := by
      rcases hor with p | p
      · rcases r2 with q | q
        · exact absurd (Int.mul_neg_of_pos_of_neg p q) hc
        · exact ⟨p, by omega⟩
      · rcases r1 with q | q
        · exact absurd (Int.mul_neg_of_neg_of_pos q p) hc
        · exact ⟨by omega, p⟩
    exact ⟨both.1, hinv.same b hb hcov both.1 both.2⟩
  refine ⟨?_, bonded, ?_⟩
  · intro i hi hh
    have := List.find?_eq_none.mp hfu i (List.mem_range.mpr hi)
    simp only [hh, Bool.not_false, Bool.true_and, decide_eq_true_eq, not_lt] at this
    rcases hinv.range i with q | q <;> omega
  · intro i j hpos
    constructor
    · intro e; exact hinv.conn i j hpos e
    · intro hc
      have key : ∀ a b, Conn items a b → (0 < m a → m a = m b) ∧ (0 < m b → m a = m b) := by
        intro a b hab
        induction hab with
        | refl => exact ⟨fun _ => rfl, fun _ => rfl⟩
        | bond b hb hcov =>
          exact ⟨fun p => (bonded b hb hcov (Or.inl p)).2, fun p => (bonded b hb hcov (Or.inr p)).2⟩
        | symm _ ih => exact ⟨fun p => (ih.2 p).symm, fun p => (ih.1 p).symm⟩
        | trans _ _ ih1 ih2 =>
          constructor
          · intro p
            have e1 := ih1.1 p
            exact e1.trans (ih2.1 (by omega))
          · intro p
            have e2 := ih2.2 p
            exact (ih1.2 (by omega)).trans e2
      exact (key i j hc).1 hpos


/-! ### the thresholds the code contains today (regenerated) meet the hypotheses of the theorems -/

/-- the constants of sdm.py as exact rationals -/
def constsQ : Consts ℚ :=
  { cut := Extracted.cutQ, bias := Extracted.biasQ, eps := Extracted.epsQ, factor := Extracted.factorQ,
    half := Extracted.halfQ, big := Extracted.bigQ, nobond := Extracted.nobondQ }

/-- `hh`, `hb`, `hbig` of the theorems above and `hd` of `covalent_iff_rule` (every reported distance exceeds
    `eps - bias ≥ nobond`) hold for the literals in the source, and the bond factor is the 1.2 of the statement;
    re-checked whenever sdm.py changes -/
theorem extracted_constants_ok :
    2 * constsQ.half = 1 ∧ 0 ≤ constsQ.bias ∧ constsQ.cut + constsQ.bias < constsQ.big ∧
    constsQ.nobond ≤ constsQ.eps - constsQ.bias ∧ constsQ.factor = statementFactor := by
  simp only [statementFactor, constsQ, Extracted.cutQ, Extracted.biasQ, Extracted.epsQ, Extracted.factorQ, Extracted.halfQ,
    Extracted.bigQ, Extracted.nobondQ]
  norm_num

/-- every covalent radius of `element2cov` is positive (so every bond limit is) -/
theorem radii_positive : ∀ e ∈ Extracted.covRadius, (0 : ℚ) < e.2 := by decide +kernel

/-- every element the library treats as hydrogen that has a radius at all has the hydrogen radius -/
theorem hydrogen_radii_agree : ∀ e ∈ Extracted.covRadius, e.1 ∈ Extracted.hydrogenElements →
    some e.2 = (Extracted.covRadius.find? (·.1 = "H")).map (·.2) := by decide +kernel

/-- a concrete run of the operator loop: lengths 3 (identity), 2, 5/2 — operator 1 is reported with its real
    length, and the separation hypothesis of `selectOp_min` holds for this list -/
example : selectOp constsQ [3, 2, 5/2] = some (2, 1) := by decide +kernel

example : ∀ i di d0, i ≠ 0 → ([3, 2, 5/2] : List ℚ)[i]? = some di → ([3, 2, 5/2] : List ℚ)[0]? = some d0 →
    di < d0 → di + constsQ.bias < d0 := by
  intro i di d0 _ hi h0 _
  simp only [List.getElem?_cons_zero, Option.some.injEq] at h0
  subst h0
  match i, hi with
  | 1, hi => simp at hi; subst hi; simp only [constsQ, Extracted.biasQ]; norm_num
  | 2, hi => simp at hi; subst hi; simp only [constsQ, Extracted.biasQ]; norm_num
  | 0, _ => contradiction
  | (k + 3), hi => simp at hi

/-- the identity keeps a tie: two operators at the same length report operator 0 -/
example : selectOp constsQ [2, 2] = some (2, 0) := by decide +kernel

/-! ### open findings (known_findings.jsonl): full-strength statement, partial theorem, witness -/

/-- full strength: every pair with an image that is not the atom itself gets an item
    (C13|no-item|distance-beyond-cut). The proved partial form is `selectOp_none` (no item only if no operator
    is `Eligible`, i.e. within the 5.3 Å cut); `sdm_reports_min` needs no such hypothesis because it starts from a
    reported item. -/
def ItemForEveryContactStatement (c : Consts ℚ) : Prop :=
  ∀ ds : List ℚ, (∃ i di, ds[i]? = some di ∧ biased c i di > c.eps) → (selectOp c ds).isSome = true

theorem item_for_every_contact_fails_on : ¬ ItemForEveryContactStatement constsQ := by
  intro h
  have := h [6] ⟨0, 6, rfl, by decide +kernel⟩
  revert this
  decide +kernel

theorem conn_nil {i j : Nat} (h : Conn [] i j) : i = j := by
  induction h with
  | refl => rfl
  | bond b hb _ => exact absurd hb List.not_mem_nil
  | symm _ ih => exact ih.symm
  | trans _ _ ih1 ih2 => exact ih1.trans ih2

/-- full strength: the molecule numbers are the partition into connected components
    (C13|molindex|hydrogen-only-components-unnumbered). The proved partial form is `molindex_components`
    (restricted to numbered atoms, and all non-hydrogen atoms are numbered). -/
def MolindexPartitionStatement : Prop :=
  ∀ (hyd : Nat → Bool) (n : Nat) (items : List Bond) (m : Nat → Int) (mx : Int),
    calcMolindex hyd n items = some (m, mx) → ∀ i j, i < n → j < n → (m i = m j ↔ Conn items i j)

/-- witness: C, H, H without any bond — both hydrogens keep -1 although they are different components -/
theorem molindex_fails_on_lone_hydrogens : ¬ MolindexPartitionStatement := by
  intro h
  have hc : ∃ r, calcMolindex (fun i => decide (i ≠ 0)) 3 [] = some r ∧ r.1 1 = -1 ∧ r.1 2 = -1 := by
    refine ⟨_, rfl, ?_, ?_⟩ <;> decide
  obtain ⟨⟨m, mx⟩, e, h1, h2⟩ := hc
  have := (h _ 3 [] m mx e 1 2 (by omega) (by omega)).mp (by simp only at h1 h2; rw [h1, h2])
  have := conn_nil this
  omega


/-! ### the fuel of the model's loops is sufficient -/

/-- number of unnumbered atoms among the first `n` -/
def negCount : Nat → (Nat → Int) → Nat
  | 0, _ => 0
  | k + 1, m => negCount k m + (if m k < 0 then 1 else 0)

theorem negCount_le (n : Nat) (m : Nat → Int) : negCount n m ≤ n := by
  induction n with
  | zero => simp [negCount]
  | succ k ih => simp only [negCount]; split <;> omega

theorem negCount_upd_ge (k i : Nat) (m : Nat → Int) (v : Int) (h : k ≤ i) : negCount k (upd m i v) = negCount k m := by
  induction k with
  | zero => simp [negCount]
  | succ j ih =>
    simp only [negCount]
    rw [ih (by omega), upd_other m i j v (by omega)]

theorem negCount_upd_le (n i : Nat) (m : Nat → Int) (v : Int) (hv : 0 ≤ v) : negCount n (upd m i v) ≤ negCount n m := by
  induction n with
  | zero => simp [negCount]
  | succ k ih =>
    simp only [negCount]
    by_cases h : k = i
    · subst h
      rw [upd_same, negCount_upd_ge k k m v (Nat.le_refl _)]
      have : ¬ v < 0 := by omega
      rw [if_neg this]
      split <;> omega
    · rw [upd_other m i k v h]
      split <;> omega

theorem negCount_upd_lt (n i : Nat) (m : Nat → Int) (v : Int) (hv : 0 ≤ v) (hi : i < n) (hm : m i < 0) :
    negCount n (upd m i v) + 1 ≤ negCount n m := by
  induction n with
  | zero => omega
  | succ k ih =>
    simp only [negCount]
    by_cases h : k = i
    · rw [h, upd_same, negCount_upd_ge i i m v (Nat.le_refl _)]
      have : ¬ v < 0 := by omega
      rw [if_neg this, if_pos hm]
    · rw [upd_other m i k v h]
      have := ih (by omega)
      split <;> omega

theorem fire_decreases (n : Nat) (m : Nat → Int) (mx : Int) (hmx : 0 < mx) (b : Bond) (h1 : b.a1 < n) (h2 : b.a2 < n)
    (hf : fires m b = true) : negCount n (upd (upd m b.a1 mx) b.a2 mx) + 1 ≤ negCount n m := by
  obtain ⟨_, hneg⟩ := (fires_iff m b).mp hf
  rcases Int.mul_neg_iff.mp hneg with ⟨p, q⟩ | ⟨p, q⟩
  · have hne : b.a2 ≠ b.a1 := by intro e; rw [e] at q; omega
    have a := negCount_upd_le n b.a1 m mx (by omega)
    have b' := negCount_upd_lt n b.a2 (upd m b.a1 mx) mx (by omega) h2 (by rw [upd_other _ _ _ _ hne]; exact q)
    omega
  · have a := negCount_upd_lt n b.a1 m mx (by omega) h1 p
    have b' := negCount_upd_le n b.a2 (upd m b.a1 mx) mx (by omega)
    omega

theorem molFold_measure (n : Nat) (mx : Int) (hmx : 0 < mx) : ∀ (l : List Bond) (st : (Nat → Int) × Nat),
    (∀ b ∈ l, b.a1 < n ∧ b.a2 < n) →
    negCount n (l.foldl (molStep mx) st).1 + (l.foldl (molStep mx) st).2 ≤ negCount n st.1 + st.2 := by
  intro l
  induction l with
  | nil => intro st _; simp
  | cons b l ih =>
    intro st hb
    simp only [List.foldl_cons]
    have := ih (molStep mx st b) (fun x hx => hb x (List.mem_cons_of_mem _ hx))
    refine le_trans this ?_
    unfold molStep
    by_cases hf : fires st.1 b = true
    · rw [if_pos hf]
      have := fire_decreases n st.1 mx hmx b (hb b (List.mem_cons_self ..)).1 (hb b (List.mem_cons_self ..)).2 hf
      simp only
      omega
    · rw [if_neg hf]

theorem molInner_fuel (n : Nat) (mx : Int) (hmx : 0 < mx) (items : List Bond) (hb : ∀ b ∈ items, b.a1 < n ∧ b.a2 < n) :
    ∀ (f : Nat) (m : Nat → Int), negCount n m < f →
      ∃ m', molInner mx items f m = some m' ∧ negCount n m' ≤ negCount n m := by
  intro f
  induction f with
  | zero => intro m h; omega
  | succ f ih =>
    intro m h
    simp only [molInner]
    have hm := molFold_measure n mx hmx items (m, 0) hb
    simp only [Nat.add_zero] at hm
    by_cases hz : (molPass mx items m).2 = 0
    · rw [if_pos hz]
      exact ⟨_, rfl, by unfold molPass at hz ⊢; omega⟩
    · rw [if_neg hz]
      have hlt : negCount n (molPass mx items m).1 < f := by unfold molPass at hz ⊢; omega
      obtain ⟨m', e, hle⟩ := ih _ hlt
      exact ⟨m', e, by unfold molPass at hle; omega⟩

theorem molOuter_fuel (hyd : Nat → Bool) (n : Nat) (items : List Bond) (hb : ∀ b ∈ items, b.a1 < n ∧ b.a2 < n) :
    ∀ (f : Nat) (mx : Int) (m : Nat → Int), 0 < mx → negCount n m < f →
      (molOuter hyd n items (n + 1) f mx m).isSome = true := by
  intro f
  induction f with
  | zero => intro mx m _ h; omega
  | succ f ih =>
    intro mx m hmx h
    simp only [molOuter]
    obtain ⟨m1, e, hle⟩ := molInner_fuel n mx hmx items hb (n + 1) m (by have := negCount_le n m; omega)
    rw [e]
    dsimp only
    cases hfu : firstUnassigned hyd n m1 with
    | none => simp
    | some ni =>
      dsimp only
      by_cases h0 : ni = 0
      · rw [if_pos h0]; simp
      · rw [if_neg h0]
        have hfound := List.find?_some hfu
        have hmem := List.mem_of_find?_eq_some hfu
        simp only [Bool.and_eq_true, Bool.not_eq_true', decide_eq_true_eq] at hfound
        have hlt := negCount_upd_lt n ni m1 (mx + 1) (by omega) (List.mem_range.mp hmem) hfound.2
        exact ih (mx + 1) _ (by omega) (by omega)

/-- **fuel**: with the item indices inside the atom list, `n + 1` sweeps per molecule and `n + 1` molecules are
    enough — the model's `none` (fuel exhausted) never occurs, i.e. the Python `while` loops terminate -/
theorem calcMolindex_fuel_sufficient (hyd : Nat → Bool) (n : Nat) (items : List Bond) (hn : 0 < n)
    (hb : ∀ b ∈ items, b.a1 < n ∧ b.a2 < n) : (calcMolindex hyd n items).isSome = true := by
  unfold calcMolindex
  rw [if_neg (by omega)]
  exact molOuter_fuel hyd n items hb (n + 1) 1 _ (by omega) (by have := negCount_le n (upd (fun _ => -1) 0 1); omega)


end Shelx.C13

/-
  C07 — property theorems (model: ShelxModel/C07.lean).

  Quantified over ALL files (lists of physical lines with arbitrary flags/classes), ALL printers that satisfy
  the stated facts, ALL include-file systems, ALL numbers of read/write cycles.
-/
import ShelxModel.C07
import Mathlib.Tactic.Ring
import Mathlib.Tactic.Linarith
import Mathlib.Tactic.FieldSimp

namespace Shelx.C07

variable {α : Type}

/-! ### the written file as a fold over the physical lines -/

/-- what `write` prints for the lines of `f`, parsed from state `s`, when the tables hold `tv` -/
def outAux (P : Printer α) (tv : Tab → List α) (s : St) : List (PLine α) → List (PLine α)
  | [] => []
  | l :: rest => emit P tv (step s l).1 ++ outAux P tv (step s l).2 rest

theorem flatMap_parseAux (P : Printer α) (tv : Tab → List α) (s : St) (f : List (PLine α)) :
    (parseAux s f).flatMap (emit P tv) = outAux P tv s f := by
  induction f generalizing s with
  | nil => rfl
  | cons l rest ih => simp [parseAux, outAux, ih]

theorem cycle_eq (P : Printer α) (f : List (PLine α)) :
    cycle P f = outAux P (fun t => tableVals t (parse f)) {} f := by
  simp [cycle, write, parse, flatMap_parseAux]

theorem outAux_append (P : Printer α) (tv : Tab → List α) (s : St) (a b : List (PLine α)) :
    outAux P tv s (a ++ b) = outAux P tv s a ++ outAux P tv ((a.foldl (fun s l => (step s l).2) s)) b := by
  induction a generalizing s with
  | nil => rfl
  | cons l rest ih => simp [outAux, ih, List.append_assoc]

/-! ### facts about the printers that the theorems use -/

/-- all but the last line of a printed logical line end in `=` -/
def contChain : List (PLine α) → Bool
  | [] => false
  | [l] => !l.cont
  | l :: l' :: r => l.cont && contChain (l' :: r)

/-- `h :: cs` is one printed logical line: it starts in column one, is continued exactly over `cs`, and is
    an ordinary line of the written file -/
def Group (h : PLine α) (cs : List (PLine α)) : Prop :=
  h.skip = false ∧ contChain (h :: cs) = true ∧ ∀ l ∈ h :: cs, l.spliced = false

def groupVals : List (PLine α) → List α
  | [] => []
  | h :: _ => h.vals

/-- the printers keep the line's class and key (keyword, first token), and print well-formed logical lines.
    These are facts about `cards.py`/`Atom.__str__`/`wrap_line`; the harness checks them on every written file. -/
structure PrinterOk (P : Printer α) (kw : Tab → α) : Prop where
  card : ∀ l : PLine α, l.cls = .obj ∨ l.cls = .atom →
    ∃ h cs, P.card l = h :: cs ∧ Group h cs ∧ h.cls = l.cls ∧ h.key = l.key
  table_ne : ∀ t vs, P.table t vs ≠ []
  table : ∀ t vs, ∀ g ∈ P.table t vs, ∃ h cs, g = h :: cs ∧ Group h cs ∧ h.cls = .tab t ∧ h.key.1 = kw t

/-- per-class idempotence: printing what was read back from a printed line prints the same line -/
structure Stable (P : Printer α) (kw : Tab → α) : Prop extends PrinterOk P kw where
  card_idem : ∀ l h cs, (l.cls = .obj ∨ l.cls = .atom) → P.card l = h :: cs → P.card h = h :: cs
  table_vals : ∀ t vs, (P.table t vs).flatMap groupVals = vs

/-- keyword and class of a head agree: the SFAC (FVAR) keyword is used by exactly the lines that feed the table.
    Excludes a bare `SFAC`/`FVAR` line without values (no table entry, stays text: the code keeps it in place,
    so it would not be coalesced although the specification's lexer sees the keyword). -/
def KeyOk [DecidableEq α] (kw : Tab → α) (l : PLine α) : Prop := ∀ t, l.cls = .tab t ↔ l.key.1 = kw t

/-! ### logical lines of printed groups -/

theorem logicalHeads_chain (h : PLine α) (cs rest : List (PLine α)) (hc : contChain (h :: cs) = true) :
    logicalHeads h.cont (cs ++ rest) = logicalHeads false rest := by
  induction cs generalizing h with
  | nil =>
    simp [contChain] at hc
    simp [hc]
  | cons c cs ih =>
    simp [contChain] at hc
    simp [hc.1, logicalHeads]
    exact ih c hc.2

theorem logicalHeads_group (h : PLine α) (cs rest : List (PLine α)) (hg : Group h cs) :
    logicalHeads false (h :: cs ++ rest) = h :: logicalHeads false rest := by
  obtain ⟨h1, h2, _⟩ := hg
  simp [logicalHeads, h1, logicalHeads_chain h cs rest h2]

/-! ### coalescing depends on the lines before only through the two table keywords -/

theorem coalesceFrom_congr [DecidableEq α] (kw : Tab → α) (b b' : List α) (ks : List (α × Option α))
    (h : ∀ t, kw t ∈ b ↔ kw t ∈ b') : coalesceFrom kw b ks = coalesceFrom kw b' ks := by
  induction ks generalizing b b' with
  | nil => rfl
  | cons k ks ih =>
    have hcons : ∀ t, kw t ∈ k.1 :: b ↔ kw t ∈ k.1 :: b' := by
      intro t; simp only [List.mem_cons]; rw [h t]
    have hk : ((k.1 = kw .sfac ∨ k.1 = kw .fvar) ∧ k.1 ∈ b) ↔ ((k.1 = kw .sfac ∨ k.1 = kw .fvar) ∧ k.1 ∈ b') := by
      constructor
      · rintro ⟨h1 | h1, h2⟩
        · exact ⟨Or.inl h1, by rw [h1] at h2 ⊢; exact (h _).1 h2⟩
        · exact ⟨Or.inr h1, by rw [h1] at h2 ⊢; exact (h _).1 h2⟩
      · rintro ⟨h1 | h1, h2⟩
        · exact ⟨Or.inl h1, by rw [h1] at h2 ⊢; exact (h _).2 h2⟩
        · exact ⟨Or.inr h1, by rw [h1] at h2 ⊢; exact (h _).2 h2⟩
    simp only [coalesceFrom]
    by_cases hc : (k.1 = kw .sfac ∨ k.1 = kw .fvar) ∧ k.1 ∈ b
    · rw [if_pos hc, if_pos (hk.1 hc)]; exact ih _ _ hcons
    · rw [if_neg hc, if_neg (fun h' => hc (hk.2 h'))]; rw [ih _ _ hcons]

/-! ### order_preserved -/

theorem coalesce_groups [DecidableEq α] (kw : Tab → α) (t : Tab) (gs : List (List (PLine α))) (X : List (PLine α))
    (b : List α) (hb : kw t ∈ b)
    (hg : ∀ g ∈ gs, ∃ h cs, g = h :: cs ∧ Group h cs ∧ h.cls = .tab t ∧ h.key.1 = kw t) :
    coalesceFrom kw b ((logicalHeads false (gs.flatten ++ X)).map (keyOf kw))
      = coalesceFrom kw b ((logicalHeads false X).map (keyOf kw)) := by
  induction gs generalizing b with
  | nil => simp
  | cons g gs ih =>
    obtain ⟨h, cs, rfl, hgr, _, hk⟩ := hg g (List.mem_cons_self ..)
    have hg' : ∀ g ∈ gs, ∃ h cs, g = h :: cs ∧ Group h cs ∧ h.cls = .tab t ∧ h.key.1 = kw t :=
      fun g hm => hg g (List.mem_cons_of_mem _ hm)
    have e' : List.flatten ((h :: cs) :: gs) ++ X = h :: cs ++ (gs.flatten ++ X) := by simp
    rw [e', logicalHeads_group h cs _ hgr]
    have hkey : (keyOf kw h).1 = kw t := by
      unfold keyOf; split <;> exact hk
    have htab : (keyOf kw h).1 = kw .sfac ∨ (keyOf kw h).1 = kw .fvar := by
      rw [hkey]; cases t <;> simp
    simp only [List.map_cons, coalesceFrom]
    rw [if_pos ⟨htab, by rw [hkey]; exact hb⟩]
    rw [coalesceFrom_congr kw ((keyOf kw h).1 :: b) b _ (by intro t'; rw [hkey]; simp [List.mem_cons]; intro h'; rw [h']; exact hb)]
    exact ih b hb hg'

/-- generalised to a parse that is under way: state `s`, lines seen so far `bi` (input) / `bo` (output) -/
theorem order_aux [DecidableEq α] (P : Printer α) (kw : Tab → α) (hkw : kw .sfac ≠ kw .fvar) (hP : PrinterOk P kw)
    (tv : Tab → List α) :
    ∀ (f : List (PLine α)) (s : St) (bi bo : List α),
      (∀ t, s.seen t = true ↔ kw t ∈ bi) → (∀ t, kw t ∈ bi ↔ kw t ∈ bo) →
      (∀ l ∈ f, l.spliced = false) →
      (∀ l ∈ logicalHeads (decide (s.mode ≠ .top)) f, KeyOk kw l) →
      coalesceFrom kw bo ((logicalHeads (decide (s.mode = .rawCont)) (outAux P tv s f)).map (keyOf kw))
        = coalesceFrom kw bi ((logicalHeads (decide (s.mode ≠ .top)) f).map (keyOf kw)) := by
  intro f
  induction f with
  | nil => intro s bi bo _ _ _ _; cases hm : s.mode <;> simp [outAux, logicalHeads, coalesceFrom]
  | cons l rest ih =>
    intro s bi bo hs hb hsp hk
    have hl : l.spliced = false := hsp l (List.mem_cons_self ..)
    have hsp' : ∀ l ∈ rest, l.spliced = false := fun x hx => hsp x (List.mem_cons_of_mem _ hx)
    obtain ⟨sS, sF, m⟩ := s
    cases m with
    | objCont =>
      simp only [outAux, step, emit, List.nil_append]
      have := ih ⟨sS, sF, contMode l .objCont⟩ bi bo (by simpa [St.seen] using hs) hb hsp'
      by_cases hc : l.cont = true
      · simp [contMode, hc, logicalHeads] at this hk ⊢
        exact this hk
      · simp [contMode, hc, logicalHeads] at this hk ⊢
        exact this hk
    | rawCont =>
      simp only [outAux, step, emit, hl, Bool.false_eq_true, if_false, List.singleton_append]
      have := ih ⟨sS, sF, contMode l .rawCont⟩ bi bo (by simpa [St.seen] using hs) hb hsp'
      by_cases hc : l.cont = true
      · simp [contMode, hc, logicalHeads] at this hk ⊢
        exact this hk
      · simp [contMode, hc, logicalHeads] at this hk ⊢
        exact this hk
    | top =>
      by_cases hskip : l.skip = true
      · -- a line the loop skips: text, written unless empty; never a head
        have := ih ⟨sS, sF, .top⟩ bi bo hs hb hsp'
        simp [logicalHeads, hskip] at this hk
        have e : logicalHeads false (emit P tv (Item.str l) ++ outAux P tv ⟨sS, sF, .top⟩ rest)
            = logicalHeads false (outAux P tv ⟨sS, sF, .top⟩ rest) := by
          simp only [emit, hl, Bool.false_or]
          by_cases he : l.empty = true
          · simp [he]
          · simp [he, logicalHeads, hskip]
        simp [outAux, step, hskip, logicalHeads, e]
        exact this hk
      · have hskip' : l.skip = false := by simpa using hskip
        have hkl : KeyOk kw l := hk l (by simp [logicalHeads, hskip'])
        have hk' : ∀ x ∈ logicalHeads l.cont rest, KeyOk kw x := by
          intro x hx; exact hk x (by simp [logicalHeads, hskip', hx])
        -- the three kinds of heads
        have objCase : (l.cls = .obj ∨ l.cls = .atom) →
            coalesceFrom kw bo ((logicalHeads false (P.card l ++ outAux P tv ⟨sS, sF, contMode l .objCont⟩ rest)).map (keyOf kw))
              = coalesceFrom kw bi ((l :: logicalHeads l.cont rest).map (keyOf kw)) := by
          intro hcls
          obtain ⟨h, cs, e, hg, hc, hkey⟩ := hP.card l hcls
          rw [e, logicalHeads_group h cs _ hg]
          have hko : keyOf kw h = keyOf kw l := by simp [keyOf, hkey]
          have hnt : ¬ (((keyOf kw l).1 = kw .sfac ∨ (keyOf kw l).1 = kw .fvar)) := by
            have h1 : (keyOf kw l).1 = l.key.1 := by unfold keyOf; split <;> rfl
            rw [h1]
            rintro (h' | h')
            · have := (hkl .sfac).2 h'; rcases hcls with h'' | h'' <;> simp [h''] at this
            · have := (hkl .fvar).2 h'; rcases hcls with h'' | h'' <;> simp [h''] at this
          simp only [List.map_cons, coalesceFrom, hko]
          rw [if_neg (fun h' => hnt h'.1), if_neg (fun h' => hnt h'.1)]
          congr 1
          have hmem : ∀ (b : List α) t, kw t ∈ (keyOf kw l).1 :: b ↔ kw t ∈ b := by
            intro b t; simp only [List.mem_cons]
            constructor
            · rintro (h' | h')
              · exact absurd (by cases t <;> simp [← h']) hnt
              · exact h'
            · exact Or.inr
          have := ih ⟨sS, sF, contMode l .objCont⟩ ((keyOf kw l).1 :: bi) ((keyOf kw l).1 :: bo)
            (by intro t; rw [hmem]; simpa [St.seen] using hs t) (by intro t; rw [hmem, hmem]; exact hb t) hsp'
          by_cases hc' : l.cont = true
          · simp [contMode, hc'] at this hk' ⊢; exact this hk'
          · simp [contMode, hc'] at this hk' ⊢; exact this hk'
        cases hcls : l.cls with
        | raw =>
          simp only [outAux, step, hskip', Bool.false_eq_true, if_false, hcls, emit, hl, Bool.false_or]
          have hemp : l.empty = false := by
            have := hskip'; simp [PLine.skip] at this; exact this.2
          simp only [hemp, Bool.false_eq_true, if_false, List.singleton_append]
          simp only [logicalHeads, hskip', Bool.false_eq_true, if_false, decide_false,
            ne_eq, not_true_eq_false, reduceCtorEq]
          have hnt : ¬ (((keyOf kw l).1 = kw .sfac ∨ (keyOf kw l).1 = kw .fvar)) := by
            have h1 : (keyOf kw l).1 = l.key.1 := by unfold keyOf; split <;> rfl
            rw [h1]
            rintro (h' | h')
            · have := (hkl .sfac).2 h'; simp [hcls] at this
            · have := (hkl .fvar).2 h'; simp [hcls] at this
          simp only [List.map_cons, coalesceFrom]
          rw [if_neg (fun h' => hnt h'.1), if_neg (fun h' => hnt h'.1)]
          congr 1
          have hmem : ∀ (b : List α) t, kw t ∈ (keyOf kw l).1 :: b ↔ kw t ∈ b := by
            intro b t; simp only [List.mem_cons]
            constructor
            · rintro (h' | h')
              · exact absurd (by cases t <;> simp [← h']) hnt
              · exact h'
            · exact Or.inr
          have := ih ⟨sS, sF, contMode l .rawCont⟩ ((keyOf kw l).1 :: bi) ((keyOf kw l).1 :: bo)
            (by intro t; rw [hmem]; simpa [St.seen] using hs t) (by intro t; rw [hmem, hmem]; exact hb t) hsp'
          by_cases hc' : l.cont = true
          · simp [contMode, hc'] at this hk' ⊢; exact this hk'
          · simp [contMode, hc'] at this hk' ⊢; exact this hk'
        | obj =>
          have := objCase (Or.inl hcls)
          simpa [outAux, step, hskip', hcls, emit, hl, logicalHeads] using this
        | atom =>
          have := objCase (Or.inr hcls)
          simpa [outAux, step, hskip', hcls, emit, hl, logicalHeads] using this
        | tab t =>
          have hkey1 : l.key.1 = kw t := (hkl t).1 hcls
          have hkey : (keyOf kw l).1 = kw t := by unfold keyOf; split <;> exact hkey1
          have htab : (keyOf kw l).1 = kw .sfac ∨ (keyOf kw l).1 = kw .fvar := by
            rw [hkey]; cases t <;> simp
          have hother : ∀ t', t' ≠ t → kw t' ≠ kw t := by
            intro t' hne; cases t <;> cases t' <;> simp at hne ⊢ <;> first | exact hkw | exact hkw.symm
          have hmemi : ∀ t', kw t' ∈ kw t :: bi ↔ (t' = t ∨ kw t' ∈ bi) := by
            intro t'; simp only [List.mem_cons]
            by_cases h' : t' = t
            · simp [h']
            · simp [h', hother t' h']
          have hseen' : ∀ t', (St.mark ⟨sS, sF, .top⟩ t).seen t' = true ↔ (t' = t ∨ kw t' ∈ bi) := by
            intro t'
            rw [← hs t']
            cases t <;> cases t' <;> simp [St.mark, St.seen]
          simp only [outAux, step, hskip', Bool.false_eq_true, if_false, hcls]
          simp only [logicalHeads, hskip', Bool.false_eq_true, if_false, decide_false,
            ne_eq, not_true_eq_false, reduceCtorEq, List.map_cons, coalesceFrom]
          by_cases hseen : St.seen ⟨sS, sF, .top⟩ t = true
          · -- later SFAC/FVAR line: absorbed, prints nothing; the specification drops it as well
            have hin : kw t ∈ bi := (hs t).1 hseen
            rw [if_pos hseen, if_pos ⟨htab, by rw [hkey]; exact hin⟩]
            simp only [emit, List.nil_append]
            have := ih ⟨(St.mark ⟨sS, sF, .top⟩ t).seenS, (St.mark ⟨sS, sF, .top⟩ t).seenF, contMode l .objCont⟩
              ((keyOf kw l).1 :: bi) bo
              (by intro t'; rw [hkey, hmemi]; simpa [St.seen] using hseen' t')
              (by intro t'; rw [hkey, hmemi, ← hb t']
                  constructor
                  · rintro (h' | h'); exact h' ▸ hin; exact h'
                  · exact Or.inr) hsp'
            have est : ({ (St.mark ⟨sS, sF, .top⟩ t) with mode := contMode l .objCont } : St)
                = ⟨(St.mark ⟨sS, sF, .top⟩ t).seenS, (St.mark ⟨sS, sF, .top⟩ t).seenF, contMode l .objCont⟩ := rfl
            rw [est]
            by_cases hc' : l.cont = true
            · simp [contMode, hc'] at this hk' ⊢; exact this hk'
            · simp [contMode, hc'] at this hk' ⊢; exact this hk'
          · -- first SFAC/FVAR line: the table is printed here
            have hnin : kw t ∉ bi := fun h' => hseen ((hs t).2 h')
            have hnout : kw t ∉ bo := fun h' => hnin ((hb t).2 h')
            rw [if_neg hseen, if_neg (fun h' => hnin (by rw [← hkey]; exact h'.2))]
            simp only [emit, hl, Bool.false_eq_true, if_false]
            have hne := hP.table_ne t (tv t)
            have hgs := hP.table t (tv t)
            cases egs : P.table t (tv t) with
            | nil => exact absurd egs hne
            | cons g gs =>
              rw [egs] at hgs
              obtain ⟨h, cs, rfl, hgr, _, hk1⟩ := hgs g (List.mem_cons_self ..)
              have e' : List.flatten ((h :: cs) :: gs) ++ outAux P tv
                  { (St.mark ⟨sS, sF, .top⟩ t) with mode := contMode l .objCont } rest
                  = h :: cs ++ (gs.flatten ++ outAux P tv { (St.mark ⟨sS, sF, .top⟩ t) with mode := contMode l .objCont } rest) := by simp
              rw [e', logicalHeads_group h cs _ hgr]
              have hkeyh : (keyOf kw h).1 = kw t := by unfold keyOf; split <;> exact hk1
              have hko : keyOf kw h = keyOf kw l := by
                have a : keyOf kw h = (kw t, none) := by
                  unfold keyOf; rw [hk1]; cases t <;> simp
                have b : keyOf kw l = (kw t, none) := by
                  unfold keyOf; rw [hkey1]; cases t <;> simp
                rw [a, b]
              simp only [List.map_cons, coalesceFrom]
              rw [if_neg (fun h' => hnout (by rw [← hkeyh]; exact h'.2)), hko]
              congr 1
              rw [coalesce_groups kw t gs _ _ (by rw [hkey]; exact List.mem_cons_self ..)
                (fun g hm => hgs g (List.mem_cons_of_mem _ hm))]
              have := ih ⟨(St.mark ⟨sS, sF, .top⟩ t).seenS, (St.mark ⟨sS, sF, .top⟩ t).seenF, contMode l .objCont⟩
                ((keyOf kw l).1 :: bi) ((keyOf kw l).1 :: bo)
                (by intro t'; rw [hkey, hmemi]; simpa [St.seen] using hseen' t')
                (by intro t'; rw [hkey]; simp only [List.mem_cons]; rw [hb t']) hsp'
              have est : ({ (St.mark ⟨sS, sF, .top⟩ t) with mode := contMode l .objCont } : St)
                  = ⟨(St.mark ⟨sS, sF, .top⟩ t).seenS, (St.mark ⟨sS, sF, .top⟩ t).seenF, contMode l .objCont⟩ := rfl
              rw [est]
              by_cases hc' : l.cont = true
              · simp [contMode, hc'] at this hk' ⊢; exact this hk'
              · simp [contMode, hc'] at this hk' ⊢; exact this hk'

/-- **order_preserved**: the instructions and atoms of the written file are those of the input, in the order of
    the input, after coalescing the SFAC lines and the FVAR lines at the position of the first. -/
theorem order_preserved [DecidableEq α] (P : Printer α) (kw : Tab → α) (hkw : kw .sfac ≠ kw .fvar)
    (hP : PrinterOk P kw) (f : List (PLine α)) (hsp : ∀ l ∈ f, l.spliced = false)
    (hk : ∀ l ∈ logicalHeads false f, KeyOk kw l) :
    coalesce kw (keySeq kw (cycle P f)) = coalesce kw (keySeq kw f) := by
  rw [cycle_eq]
  have := order_aux P kw hkw hP (fun t => tableVals t (parse f)) f {} [] []
    (by intro t; cases t <;> simp [St.seen]) (by intro t; rfl) hsp (by simpa using hk)
  simpa [coalesce, keySeq] using this

end Shelx.C07
